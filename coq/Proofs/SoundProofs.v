(* C07 (soundness half): every token list that the parser model accepts is a sentence of grammar.y.
   `derives` is the context-free semantics of the productions GENERATED from grammar.y; the theorem
   (parse_sound) follows an invariant of every parse result through the interpreter of the skeleton
   GENERATED from parser.rs and through the memo table: a result without error factories and error
   nodes spans tokens that its nonterminal derives. The tie between a parse function and its
   productions is the closed obligation skeleton_matches_grammar. *)
From Coq Require Import List ZArith NArith Lia Bool Arith PArith FMapPositive.
Import ListNotations.
Require Import Gram.Model.Term Gram.Model.Token Gram.Model.Grammar Gram.Gen.ParserSkeleton Gram.Gen.GrammarY Gram.Model.Parser.
Require Import Gram.Proofs.ParserProofs Gram.Proofs.PanicProofs Gram.Proofs.PackratProofs.

(* ---------- the context-free language of the generated grammar ---------- *)
Definition is_terminator_kind (k : tkind) : bool := tkind_eqb k KLineBreak || tkind_eqb k KSemicolon.

Inductive derives : nt -> list tkind -> Prop :=
| d_prod n rhs w : In (n, rhs) grammar -> derives_rhs rhs w -> derives n w
with derives_rhs : list gsym -> list tkind -> Prop :=
| dr_nil : derives_rhs [] []
| dr_tok k rhs w : derives_rhs rhs w -> derives_rhs (GT k :: rhs) (k :: w)
| dr_term k rhs w : is_terminator_kind k = true -> derives_rhs rhs w -> derives_rhs (GTerminator :: rhs) (k :: w)
| dr_nt m rhs w1 w2 : derives m w1 -> derives_rhs rhs w2 -> derives_rhs (GN m :: rhs) (w1 ++ w2).

Lemma derives_rhs_app : forall a w1 b w2, derives_rhs a w1 -> derives_rhs b w2 -> derives_rhs (a ++ b) (w1 ++ w2).
Proof.
  induction a as [|g a IH]; intros w1 b w2 H1 H2.
  - inversion H1; subst. exact H2.
  - inversion H1; subst; cbn [app].
    + constructor. now apply IH.
    + constructor; [assumption | now apply IH].
    + rewrite <- app_assoc. constructor; [assumption | now apply IH].
Qed.

Lemma tkind_eqb_eq a b : tkind_eqb a b = true -> a = b.
Proof. destruct a, b; cbn; congruence. Qed.

(* ---------- which productions a parse function stands for (from the generated tables) ---------- *)
Definition prod_in (n : nt) (rhs : list gsym) : bool := existsb (rhs_eqb rhs) (productions_of n).

Lemma gsym_eqb_eq a b : gsym_eqb a b = true -> a = b.
Proof.
  destruct a, b; cbn; try discriminate; intros H; try reflexivity.
  - f_equal. now apply tkind_eqb_eq.
  - f_equal. now apply nt_eqb_eq.
Qed.
Lemma rhs_eqb_eq : forall a b, rhs_eqb a b = true -> a = b.
Proof.
  induction a as [|x a IH]; destruct b as [|y b]; cbn; try discriminate; [reflexivity|].
  intros H. apply andb_prop in H as [H1 H2]. apply gsym_eqb_eq in H1. apply IH in H2. now subst.
Qed.
Lemma prod_in_grammar n rhs : prod_in n rhs = true -> In (n, rhs) grammar.
Proof.
  unfold prod_in, productions_of. intros H. apply existsb_exists in H as (r & Hin & E). apply rhs_eqb_eq in E. subst r.
  apply in_map_iff in Hin as ([m r'] & E & Hin). cbn in E. subst r'. apply filter_In in Hin as [Hin Hm]. cbn in Hm.
  apply nt_eqb_eq in Hm. now subst m.
Qed.

Definition sound_table (n : nt) : bool :=
  match skel_fast n with
  | FChoice alts => forallb (fun a => prod_in n [GN a]) alts
  | FSeq steps => prod_in n (map erase steps)
  | FSpecial => true
  end.
Theorem skeleton_productions : forallb sound_table all_nts = true.
Proof. vm_compute. reflexivity. Qed.
Lemma sound_table_all n : sound_table n = true.
Proof. pose proof skeleton_productions as H. rewrite forallb_forall in H. apply H. destruct n; cbn; tauto. Qed.

Theorem special_productions_in_grammar :
  prod_in Let [GT KIdentifier; GT KEquals; GN Term; GTerminator; GN Term] = true /\
  prod_in Let [GT KIdentifier; GT KColon; GN SmallTerm; GT KEquals; GN Term; GTerminator; GN Term] = true /\
  prod_in If [GT KIf; GN Term; GT KThen; GN Term; GT KElse; GN Term] = true /\
  prod_in Group [GT KLeftParen; GN Term; GT KRightParen] = true.
Proof. vm_compute. repeat split; reflexivity. Qed.

Lemma firstn_plus {A} : forall a b (l : list A), firstn (a + b) l = firstn a l ++ firstn b (skipn a l).
Proof. induction a as [|a IH]; intros b l; [reflexivity|]. destruct l as [|x l]; cbn; [now rewrite firstn_nil | now rewrite IH]. Qed.
Lemma skipn_plus {A} : forall b a (l : list A), skipn a (skipn b l) = skipn (b + a) l.
Proof. induction b as [|b IH]; intros a l; [reflexivity|]. destruct l as [|x l]; cbn; [now rewrite skipn_nil | apply IH]. Qed.

Section Sound.
Variable use_memo : bool.
Variable toks : list ptok.
Let tokmap := tokmap_of toks.
Let ntoks := length toks.
Let last_tok := last_opt toks.
Let NT : N := N.of_nat ntoks.
Notation at' := (at_ tokmap).
Notation is' := (is tokmap).
Notation error_term' := (error_term tokmap last_tok).
Notation silent_error' := (silent_error tokmap last_tok).
Notation choose' := (choose tokmap last_tok).
Notation run' := (run tokmap last_tok).
Notation build' := (build tokmap last_tok).
Notation expect' := (expect tokmap ntoks).
Notation scan' := (scan tokmap).
Notation parse_let' := (parse_let tokmap ntoks last_tok).
Notation parse_if' := (parse_if tokmap ntoks last_tok).
Notation parse_group' := (parse_group tokmap ntoks last_tok).
Notation parse' := (parse use_memo tokmap ntoks last_tok).

(* the token kinds at positions [p, q) *)
Definition kinds (p q : N) : list tkind := map pk (firstn (N.to_nat q - N.to_nat p) (skipn (N.to_nat p) toks)).

Lemma kinds_refl p : kinds p p = [].
Proof. unfold kinds. now rewrite Nat.sub_diag. Qed.

Lemma kinds_app p q r : (p <= q)%N -> (q <= r)%N -> kinds p q ++ kinds q r = kinds p r.
Proof.
  intros H1 H2. unfold kinds. rewrite <- map_app. f_equal.
  replace (N.to_nat r - N.to_nat p) with ((N.to_nat q - N.to_nat p) + (N.to_nat r - N.to_nat q)) by lia.
  rewrite firstn_plus. f_equal. rewrite skipn_plus. f_equal. f_equal. lia.
Qed.

Lemma at_nth p : at' p = nth_error toks (N.to_nat p).
Proof. unfold at_, tokmap. apply tokmap_of_spec. Qed.

Lemma kinds_single p t : at' p = Some t -> kinds p (N.succ p) = [pk t].
Proof.
  rewrite at_nth. intros H. unfold kinds. replace (N.to_nat (N.succ p) - N.to_nat p) with 1 by lia.
  remember (N.to_nat p) as i. clear Heqi. revert i H. induction toks as [|x l IH]; intros [|i] H; cbn in *; try discriminate.
  - injection H as ->. now destruct l.
  - now apply IH.
Qed.

Lemma is_kind p k : is' p k = true -> exists t, at' p = Some t /\ pk t = k.
Proof. unfold is, same_kind. destruct (at' p) as [t|]; [|discriminate]. intros H. apply tkind_eqb_eq in H. eauto. Qed.

(* ---------- the invariant ---------- *)
Definition clean (t : pterm) : Prop := nerrs t = 0 /\ has_error_node t = false.
Definition SoundR (n : nt) (p : N) (r : pres) : Prop :=
  match r with
  | PFuel => True
  | PRes t nx _ => clean t -> (p <= nx)%N /\ derives n (kinds p nx)
  end.
Definition TS (s : mstate) : Prop := forall n p r, PositiveMap.find (key n p) (tbl s) = Some r -> SoundR n p r.

(* what we assume of the recursive calls: the error-accounting invariant of PanicProofs and soundness *)
Definition RecOK (rec : mrec) : Prop := forall n p s, TJ s -> TS s ->
  J (fst (rec n p s)) /\ TJ (snd (rec n p s)) /\ SoundR n p (fst (rec n p s)) /\ TS (snd (rec n p s)).

Lemma not_clean_error p : ~ clean (error_term' p).
Proof. unfold error_term. destruct (empty_range tokmap last_tok p). intros [_ H]. discriminate H. Qed.
Lemma not_clean_silent p : ~ clean (silent_error' p).
Proof. unfold silent_error. destruct (empty_range tokmap last_tok p). intros [_ H]. discriminate H. Qed.
Lemma clean_not_perror t : clean t -> is_perror t = false.
Proof. destruct t; try reflexivity. intros [_ H]. discriminate H. Qed.

Lemma SoundR_error n p q c : SoundR n p (PRes (error_term' q) q c).
Proof. intros H. now apply not_clean_error in H. Qed.

Lemma TS_same_tbl s s' : tbl s' = tbl s -> TS s -> TS s'.
Proof. intros E T n p r. rewrite E. apply T. Qed.

(* expect: when nothing is reported although the caller is confident, the wanted token is right here *)
Lemma expect_here want p s : 
  let r := expect' want p true s in
  snd (fst r) = 0 ->
  fst (fst (fst r)) = true /\ snd (fst (fst r)) = N.succ p /\ (exists t, at' p = Some t /\ want (pk t) = true) /\ tbl (snd r) = tbl s.
Proof.
  unfold expect. cbn [andb]. destruct (at' p) as [t|] eqn:A; [|cbn [negb]; destruct (scan' (S ntoks) want p 0 0) as [[f nx] st]; cbn; discriminate].
  destruct (want (pk t)) eqn:W; [|cbn [negb]; destruct (scan' (S ntoks) want p 0 0) as [[f nx] st]; cbn; discriminate].
  cbn [scan]. rewrite A, W. cbn. intros _. repeat split; eauto.
Qed.

Section BodySound.
Variable rec : mrec.
Hypothesis HRec : RecOK rec.

Lemma derives_alt n a w : In (n, [GN a]) grammar -> derives a w -> derives n w.
Proof. intros Hin D. apply (d_prod n [GN a] w Hin). rewrite <- (app_nil_r w). constructor; [exact D | constructor]. Qed.

Lemma choose_sound n p : forall alts s, (forall a, In a alts -> In (n, [GN a]) grammar) -> TJ s -> TS s ->
  SoundR n p (fst (choose' rec p alts s)) /\ TJ (snd (choose' rec p alts s)) /\ TS (snd (choose' rec p alts s)).
Proof.
  induction alts as [|a r IH]; intros s Hg T1 T2; cbn [choose].
  - split; [apply SoundR_error | split; assumption].
  - destruct (HRec a p s T1 T2) as (Ja & T1' & Sa & T2'). destruct (rec a p s) as [[|t nx c] s']; cbn [fst snd] in *; [repeat split; auto|].
    destruct (is_perror t) eqn:P.
    + apply IH; auto. intros b Hb. apply Hg. now right.
    + split; [|split; assumption]. intros C. destruct (Sa C) as [B D]. split; [exact B|].
      eapply derives_alt; [apply Hg; now left | exact D].
Qed.

Definition clean_acc (acc : list child) : Prop := list_sum (map cn acc) = 0 /\ existsb ce acc = false.

Lemma clean_acc_cons_tok p acc : clean_acc (CTok p :: acc) <-> clean_acc acc.
Proof. unfold clean_acc. cbn. tauto. Qed.
Lemma clean_acc_cons_term t acc : clean_acc (CTerm t :: acc) <-> clean t /\ clean_acc acc.
Proof.
  unfold clean_acc, clean. change (list_sum (map cn (CTerm t :: acc))) with (nerrs t + list_sum (map cn acc)).
  change (existsb ce (CTerm t :: acc)) with (has_error_node t || existsb ce acc). rewrite orb_false_iff.
  split; [intros [A [B C]] | intros [[A B] [C D]]]; repeat split; auto; lia.
Qed.
Lemma clean_acc_rev acc : clean_acc (rev acc) -> clean_acc acc.
Proof.
  unfold clean_acc. rewrite map_rev, list_sum_rev. intros [A B]. split; [exact A|].
  destruct (existsb ce acc) eqn:E; [|reflexivity]. apply existsb_exists in E as (c & Hin & Hc).
  assert (existsb ce (rev acc) = true) by (apply existsb_exists; exists c; split; [now apply -> in_rev | exact Hc]). congruence.
Qed.

Lemma run_sound n start full : In (n, full) grammar ->
  forall steps done cur acc conf s, full = done ++ map erase steps -> TJ s -> TS s ->
  (clean_acc acc -> (start <= cur)%N /\ derives_rhs done (kinds start cur)) ->
  let out := run' rec n steps cur acc conf s in
  SoundR n start (fst out) /\ TJ (snd out) /\ TS (snd out).
Proof.
  intros Hfull. induction steps as [|st steps IH]; intros done cur acc conf s E T1 T2 Inv; cbv zeta; cbn [run].
  - cbn [fst snd]. split; [|split; assumption]. destruct (build' n (rev acc)) as [t|] eqn:B; [|apply SoundR_error].
    intros [C1 C2]. apply build_facts in B as [B1 B2]. 
    assert (CA : clean_acc acc) by (apply clean_acc_rev; split; congruence).
    destruct (Inv CA) as [Hpos D]. split; [exact Hpos|]. cbn [map] in E. rewrite app_nil_r in E. subst done.
    exact (d_prod n full _ Hfull D).
  - destruct st as [k|m|m].
    + destruct (is' cur k) eqn:K; [|split; [apply SoundR_error | split; assumption]].
      destruct (is_kind _ _ K) as (t & At & Pk). pose proof (at_some toks cur t At) as Lt. fold ntoks in Lt. fold NT in Lt.
      apply (IH (done ++ [GT k])); auto.
      * rewrite <- app_assoc. exact E.
      * intros CA. apply clean_acc_cons_tok in CA. destruct (Inv CA) as [Hpos D]. split; [lia|].
        rewrite <- (kinds_app start cur (N.succ cur)) by lia. apply derives_rhs_app; [exact D|].
        rewrite (kinds_single cur t At), Pk. repeat constructor.
    + destruct (HRec m cur s T1 T2) as (Jm & T1' & Sm & T2'). destruct (rec m cur s) as [[|t nx c] s']; cbn [fst snd] in *; [repeat split; auto|].
      destruct (is_perror t) eqn:P.
      * split; [|split; assumption]. intros C. apply clean_not_perror in C. congruence.
      * apply (IH (done ++ [GN m])); auto.
        -- rewrite <- app_assoc. exact E.
        -- intros CA. apply clean_acc_cons_term in CA as [Ct CA]. destruct (Inv CA) as [Hpos D]. destruct (Sm Ct) as [Hnx Dm]. split; [lia|].
           rewrite <- (kinds_app start cur nx) by lia. apply derives_rhs_app; [exact D|].
           rewrite <- (app_nil_r (kinds cur nx)). constructor; [exact Dm | constructor].
    + destruct (HRec m cur s T1 T2) as (Jm & T1' & Sm & T2'). destruct (rec m cur s) as [[|t nx c] s']; cbn [fst snd] in *; [repeat split; auto|].
      apply (IH (done ++ [GN m])); auto.
      * rewrite <- app_assoc. exact E.
      * intros CA. apply clean_acc_cons_term in CA as [Ct CA]. destruct (Inv CA) as [Hpos D]. destruct (Sm Ct) as [Hnx Dm]. split; [lia|].
        rewrite <- (kinds_app start cur nx) by lia. apply derives_rhs_app; [exact D|].
        rewrite <- (app_nil_r (kinds cur nx)). constructor; [exact Dm | constructor].
Qed.

(* a sub-parse, or a silent error when its keyword was not found *)
Lemma sub_sound (found : bool) p s : TJ s -> TS s ->
  let x := (if found then rec Term p else ret (PRes (silent_error' p) p false)) in
  match fst (x s) with
  | PFuel => True
  | PRes t nx c => (clean t -> found = true /\ (p <= nx)%N /\ derives Term (kinds p nx)) /\ (found = true -> Jt t c)
  end /\ TJ (snd (x s)) /\ TS (snd (x s)).
Proof.
  intros T1 T2. destruct found; cbv zeta.
  - destruct (HRec Term p s T1 T2) as (Jr & T1' & Sr & T2'). split; [|split; assumption].
    destruct (fst (rec Term p s)) as [|t nx c]; [exact I|]. split; [intros C; split; [reflexivity | exact (Sr C)] | intros _; exact Jr].
  - cbn. split; [|split; assumption]. split; [intros C; now apply not_clean_silent in C | discriminate].
Qed.

Lemma bind_sound (n : nt) (start : N) (x : M pres) k s (Pmid : pterm -> N -> bool -> Prop) :
  (match fst (x s) with PFuel => True | PRes t nx c => Pmid t nx c end /\ TJ (snd (x s)) /\ TS (snd (x s))) ->
  (forall t nx c s', Pmid t nx c -> TJ s' -> TS s' ->
     SoundR n start (fst (k t nx c s')) /\ TJ (snd (k t nx c s')) /\ TS (snd (k t nx c s'))) ->
  SoundR n start (fst (bindP x k s)) /\ TJ (snd (bindP x k s)) /\ TS (snd (bindP x k s)).
Proof.
  intros (Px & T1 & T2) Hk. unfold bindP. destruct (x s) as [[|t nx c] s']; cbn [fst snd] in *; [repeat split; auto|].
  apply Hk; assumption.
Qed.

Lemma rec_sound m p s : TJ s -> TS s ->
  match fst (rec m p s) with PFuel => True | PRes t nx c => (clean t -> (p <= nx)%N /\ derives m (kinds p nx)) /\ Jt t c end
  /\ TJ (snd (rec m p s)) /\ TS (snd (rec m p s)).
Proof.
  intros T1 T2. destruct (HRec m p s T1 T2) as (Jr & T1' & Sr & T2'). split; [|split; assumption].
  destruct (fst (rec m p s)) as [|t nx c]; [exact I | split; assumption].
Qed.

Lemma derives_group p1 p2 start : (N.succ start <= p1)%N -> (p1 < NT)%N ->
  In (Group, [GT KLeftParen; GN Term; GT KRightParen]) grammar ->
  (exists t0, at' start = Some t0 /\ pk t0 = KLeftParen) -> (exists t1, at' p1 = Some t1 /\ pk t1 = KRightParen) ->
  derives Term (kinds (N.succ start) p1) -> p2 = N.succ p1 -> derives Group (kinds start p2).
Proof.
  intros L1 L2 Hin (t0 & A0 & K0) (t1 & A1 & K1) D ->.
  apply (d_prod Group _ _ Hin).
  rewrite <- (kinds_app start (N.succ start) (N.succ p1)) by lia. rewrite (kinds_single start t0 A0), K0. cbn [app]. constructor.
  rewrite <- (kinds_app (N.succ start) p1 (N.succ p1)) by lia. constructor; [exact D|].
  rewrite (kinds_single p1 t1 A1), K1. repeat constructor.
Qed.

Lemma parse_group_sound start s : TJ s -> TS s ->
  SoundR Group start (fst (parse_group' rec start s)) /\ TJ (snd (parse_group' rec start s)) /\ TS (snd (parse_group' rec start s)).
Proof.
  intros T1 T2. unfold parse_group. destruct (is' start KLeftParen) eqn:K; cbn [negb]; [|split; [apply SoundR_error | split; assumption]].
  apply (bind_sound Group start _ _ _ (fun t nx c => (clean t -> (N.succ start <= nx)%N /\ derives Term (kinds (N.succ start) nx)) /\ Jt t c));
    [apply rec_sound; assumption|].
  intros t p1 c s1 [St Jt1] T1' T2'. destruct (is_perror t) eqn:P.
  - cbn. split; [|split; assumption]. intros C. apply clean_not_perror in C. congruence.
  - pose proof (expect_facts tokmap ntoks (want_kind KRightParen) p1 c s1) as [Et _]. cbv zeta in Et.
    pose proof (expect_here (want_kind KRightParen) p1 s1) as EH. cbv zeta in EH.
    destruct c.
    + destruct (expect' (want_kind KRightParen) p1 true s1) as [[[found p2] phony] s2]. cbn [fst snd] in *.
      destruct (tok_range tokmap last_tok start) as [gs ge0]. destruct (tok_range tokmap last_tok (N.pred p2)) as [gs1 ge].
      cbn [fst snd]. split; [|split; [exact (TJ_same_tbl _ _ Et T1') | exact (TS_same_tbl _ _ Et T2')]].
      intros [C1 C2]. pose proof (nerrs_with_info t (mk gs ge true (pnerr (info t) + (if found then phony else 1))) P) as Nw. cbn [pnerr mk] in Nw.
      rewrite (has_error_with_info _ _ P) in C2.
      assert (found = true /\ phony = 0 /\ nerrs t = 0) as (-> & -> & Nt) by (destruct found; lia).
      destruct (EH eq_refl) as (_ & -> & (t1 & A1 & W1) & _). apply tkind_eqb_eq in W1.
      destruct (St (conj Nt C2)) as [Hp D]. pose proof (at_some toks p1 t1 A1) as Lt. fold ntoks in Lt. fold NT in Lt.
      split; [lia|]. eapply (derives_group p1 _ start); eauto; try lia.
      * apply prod_in_grammar. apply special_productions_in_grammar.
      * apply is_kind. exact K.
    + (* unconfident inner term: it carries an error factory, so the result is never clean *)
      destruct (expect' (want_kind KRightParen) p1 false s1) as [[[found p2] phony] s2]. cbn [fst snd] in *.
      destruct (tok_range tokmap last_tok start) as [gs ge0]. destruct (tok_range tokmap last_tok (N.pred p2)) as [gs1 ge].
      cbn [fst snd]. split; [|split; [exact (TJ_same_tbl _ _ Et T1') | exact (TS_same_tbl _ _ Et T2')]].
      intros [C1 C2]. pose proof (nerrs_with_info t (mk gs ge true (pnerr (info t) + (if found then phony else 1))) P) as Nw. cbn [pnerr mk] in Nw.
      destruct Jt1 as [J1 _]. specialize (J1 eq_refl). lia.
Qed.

(* a keyword after a clean sub-term: nothing reported means the keyword stands right here *)
Lemma keyword_step want p conf s t0 : Jt t0 conf -> clean t0 ->
  let r := expect' want p conf s in
  snd (fst r) = 0 ->
  fst (fst (fst r)) = true /\ snd (fst (fst r)) = N.succ p /\ (exists tk, at' p = Some tk /\ want (pk tk) = true).
Proof.
  intros [J1 _] [C1 _]. destruct conf; [|specialize (J1 eq_refl); lia].
  intros r Hz. destruct (expect_here want p s Hz) as (A & B & C & _). auto.
Qed.

Lemma expect_tbl want p conf s : tbl (snd (expect' want p conf s)) = tbl s.
Proof. pose proof (expect_facts tokmap ntoks want p conf s) as [E _]. exact E. Qed.

Lemma parse_if_sound start s : TJ s -> TS s ->
  SoundR If start (fst (parse_if' rec start s)) /\ TJ (snd (parse_if' rec start s)) /\ TS (snd (parse_if' rec start s)).
Proof.
  intros T1 T2. unfold parse_if. destruct (is' start KIf) eqn:K; cbn [negb]; [|split; [apply SoundR_error | split; assumption]].
  destruct (is_kind _ _ K) as (t0 & A0 & K0). pose proof (at_some toks start t0 A0) as L0. fold ntoks in L0. fold NT in L0.
  destruct (tok_range tokmap last_tok start) as [is_ ie].
  apply (bind_sound If start _ _ _ (fun t nx c => (clean t -> (N.succ start <= nx)%N /\ derives Term (kinds (N.succ start) nx)) /\ Jt t c));
    [apply rec_sound; assumption|].
  intros c p1 cconf s1 [Sc Jc] T1a T2a.
  pose proof (keyword_step (want_kind KThen) p1 cconf s1 c Jc) as KS1. cbv zeta in KS1.
  pose proof (expect_tbl (want_kind KThen) p1 cconf s1) as Et1.
  destruct (expect' (want_kind KThen) p1 cconf s1) as [[[found_then p2] e1] s2]. cbn [fst snd] in *.
  apply (bind_sound If start _ _ _ (fun t nx tc => (clean t -> found_then = true /\ (p2 <= nx)%N /\ derives Term (kinds p2 nx)) /\ (found_then = true -> Jt t tc)));
    [apply sub_sound; [exact (TJ_same_tbl _ _ Et1 T1a) | exact (TS_same_tbl _ _ Et1 T2a)]|].
  intros t p3 tconf s3 [St Jtt] T1b T2b.
  assert (KS2 : clean t -> let r := expect' (want_kind KElse) p3 tconf s3 in snd (fst r) = 0 ->
            fst (fst (fst r)) = true /\ snd (fst (fst r)) = N.succ p3 /\ (exists tk, at' p3 = Some tk /\ want_kind KElse (pk tk) = true)).
  { intros Ct. destruct (St Ct) as (F & _). apply keyword_step with (t0 := t); [apply Jtt; exact F | exact Ct]. }
  pose proof (expect_tbl (want_kind KElse) p3 tconf s3) as Et2.
  destruct (expect' (want_kind KElse) p3 tconf s3) as [[[found_else p4] e2] s4]. cbn [fst snd] in *.
  apply (bind_sound If start _ _ _ (fun t nx tc => (clean t -> found_else = true /\ (p4 <= nx)%N /\ derives Term (kinds p4 nx)) /\ (found_else = true -> Jt t tc)));
    [apply sub_sound; [exact (TJ_same_tbl _ _ Et2 T1b) | exact (TS_same_tbl _ _ Et2 T2b)]|].
  intros e p5 econf s5 [Se _] T1c T2c. cbn [ret fst snd]. split; [|split; assumption].
  intros [C1 C2]. cbn [nerrs has_error_node info pnerr mk] in C1, C2.
  apply orb_false_elim in C2 as [C2 Ce]. apply orb_false_elim in C2 as [Cc Ct].
  assert (CC : clean c) by (split; [lia | exact Cc]). assert (CT : clean t) by (split; [lia | exact Ct]). assert (CE : clean e) by (split; [lia | exact Ce]).
  destruct (Sc CC) as [Hp1 D1]. destruct (St CT) as (_ & Hp3 & D2). destruct (Se CE) as (_ & Hp5 & D3).
  destruct (KS1 CC ltac:(lia)) as (_ & -> & (tk1 & Ak1 & Wk1)). apply tkind_eqb_eq in Wk1.
  destruct (KS2 CT ltac:(lia)) as (_ & -> & (tk2 & Ak2 & Wk2)). apply tkind_eqb_eq in Wk2.
  pose proof (at_some toks p1 tk1 Ak1) as L1. pose proof (at_some toks p3 tk2 Ak2) as L3. fold ntoks in L1, L3. fold NT in L1, L3.
  split; [lia|].
  apply (d_prod If [GT KIf; GN Term; GT KThen; GN Term; GT KElse; GN Term]); [apply prod_in_grammar; apply special_productions_in_grammar|].
  rewrite <- (kinds_app start (N.succ start) p5) by lia. rewrite (kinds_single start t0 A0), K0. cbn [app]. constructor.
  rewrite <- (kinds_app (N.succ start) p1 p5) by lia. constructor; [exact D1|].
  rewrite <- (kinds_app p1 (N.succ p1) p5) by lia. rewrite (kinds_single p1 tk1 Ak1), <- Wk1. cbn [app]. constructor.
  rewrite <- (kinds_app (N.succ p1) p3 p5) by lia. constructor; [exact D2|].
  rewrite <- (kinds_app p3 (N.succ p3) p5) by lia. rewrite (kinds_single p3 tk2 Ak2), <- Wk2. cbn [app]. constructor.
  rewrite <- (app_nil_r (kinds (N.succ p3) p5)). constructor; [exact D3 | constructor].
Qed.

Definition ann_clean (ann : option pterm) : Prop := match ann with Some a => clean a | None => True end.

Lemma let_tail_sound start x xs xe ann (eq_found : bool) p3 e1 s prefix full :
  In (Let, full) grammar -> full = prefix ++ [GN Term; GTerminator; GN Term] -> TJ s -> TS s ->
  (e1 = 0 -> ann_clean ann -> eq_found = true -> (start <= p3)%N /\ derives_rhs prefix (kinds start p3)) ->
  let r := bindP (if eq_found then rec Term p3 else ret (PRes (silent_error' p3) p3 false)) (fun d p4 dconf =>
        fun s =>
        let '((t_found, p5, e2), s1) := expect' want_terminator p4 dconf s in
        bindP (if t_found then rec Term p5 else ret (PRes (silent_error' p5) p5 false)) (fun b p6 bconf =>
          ret (PRes (PLet (mk xs (pre (info b)) false (e1 + e2)) x xs xe ann d b) p6 bconf)) s1) s in
  SoundR Let start (fst r) /\ TJ (snd r) /\ TS (snd r).
Proof.
  intros Hin Efull T1 T2 Pre. cbv zeta.
  apply (bind_sound Let start _ _ _ (fun t nx tc => (clean t -> eq_found = true /\ (p3 <= nx)%N /\ derives Term (kinds p3 nx)) /\ (eq_found = true -> Jt t tc)));
    [apply sub_sound; assumption|].
  intros d p4 dconf s2 [Sd Jd] T1a T2a.
  assert (KS : clean d -> let r := expect' want_terminator p4 dconf s2 in snd (fst r) = 0 ->
            fst (fst (fst r)) = true /\ snd (fst (fst r)) = N.succ p4 /\ (exists tk, at' p4 = Some tk /\ want_terminator (pk tk) = true)).
  { intros Cd. destruct (Sd Cd) as (F & _). apply keyword_step with (t0 := d); [apply Jd; exact F | exact Cd]. }
  pose proof (expect_tbl want_terminator p4 dconf s2) as Et.
  destruct (expect' want_terminator p4 dconf s2) as [[[t_found p5] e2] s3]. cbn [fst snd] in *.
  apply (bind_sound Let start _ _ _ (fun t nx tc => (clean t -> t_found = true /\ (p5 <= nx)%N /\ derives Term (kinds p5 nx)) /\ (t_found = true -> Jt t tc)));
    [apply sub_sound; [exact (TJ_same_tbl _ _ Et T1a) | exact (TS_same_tbl _ _ Et T2a)]|].
  intros b p6 bconf s4 [Sb _] T1b T2b. cbn [ret fst snd]. split; [|split; assumption].
  intros [C1 C2]. cbn [nerrs has_error_node info pnerr mk] in C1, C2.
  apply orb_false_elim in C2 as [C2 Cb]. apply orb_false_elim in C2 as [Ca Cd].
  assert (CD : clean d) by (split; [lia | exact Cd]). assert (CB : clean b) by (split; [lia | exact Cb]).
  assert (CA : ann_clean ann) by (destruct ann as [a|]; [split; [lia | exact Ca] | exact I]).
  destruct (Sd CD) as (F & Hp4 & D1). destruct (Sb CB) as (_ & Hp6 & D2).
  destruct (Pre ltac:(lia) CA F) as [Hp3 D0].
  destruct (KS CD ltac:(lia)) as (_ & -> & (tk & Ak & Wk)).
  pose proof (at_some toks p4 tk Ak) as L4. fold ntoks in L4. fold NT in L4.
  split; [lia|]. apply (d_prod Let full _ Hin). subst full.
  rewrite <- (kinds_app start p3 p6) by lia. apply derives_rhs_app; [exact D0|].
  rewrite <- (kinds_app p3 p4 p6) by lia. constructor; [exact D1|].
  rewrite <- (kinds_app p4 (N.succ p4) p6) by lia. rewrite (kinds_single p4 tk Ak). cbn [app]. constructor; [exact Wk|].
  rewrite <- (app_nil_r (kinds (N.succ p4) p6)). constructor; [exact D2 | constructor].
Qed.

Lemma parse_let_sound start s : TJ s -> TS s ->
  SoundR Let start (fst (parse_let' rec start s)) /\ TJ (snd (parse_let' rec start s)) /\ TS (snd (parse_let' rec start s)).
Proof.
  intros T1 T2. unfold parse_let. destruct (is' start KIdentifier) eqn:K; cbn [negb]; [|split; [apply SoundR_error | split; assumption]].
  destruct (is_kind _ _ K) as (t0 & A0 & K0). pose proof (at_some toks start t0 A0) as L0. fold ntoks in L0. fold NT in L0.
  destruct (tok_range tokmap last_tok start) as [xs xe].
  destruct (is' (N.succ start) KColon) eqn:C.
  - destruct (is_kind _ _ C) as (t1 & A1 & K1). pose proof (at_some toks _ t1 A1) as L1. fold ntoks in L1. fold NT in L1.
    apply (bind_sound Let start _ _ _ (fun t nx c => (clean t -> (N.succ (N.succ start) <= nx)%N /\ derives SmallTerm (kinds (N.succ (N.succ start)) nx)) /\ Jt t c));
      [apply rec_sound; assumption|].
    intros a p2 c s1 [Sa Ja] T1a T2a. destruct (is_perror a) eqn:P.
    + cbn. split; [|split; assumption]. intros Cl. apply clean_not_perror in Cl. congruence.
    + pose proof (keyword_step (want_kind KEquals) p2 c s1 a Ja) as KS. cbv zeta in KS.
      pose proof (expect_tbl (want_kind KEquals) p2 c s1) as Et.
      destruct (expect' (want_kind KEquals) p2 c s1) as [[[eq_found p3] e1] s2]. cbn [fst snd] in *.
      apply (let_tail_sound start (tok_name tokmap start) xs xe (Some a) eq_found p3 e1 s2
               [GT KIdentifier; GT KColon; GN SmallTerm; GT KEquals]
               [GT KIdentifier; GT KColon; GN SmallTerm; GT KEquals; GN Term; GTerminator; GN Term]);
        [apply prod_in_grammar; apply special_productions_in_grammar | reflexivity
        | exact (TJ_same_tbl _ _ Et T1a) | exact (TS_same_tbl _ _ Et T2a) |].
      intros -> Ca _. cbn [ann_clean] in Ca. destruct (Sa Ca) as [Hp2 Da].
      destruct (KS Ca eq_refl) as (_ & -> & (tk & Ak & Wk)). apply tkind_eqb_eq in Wk.
      pose proof (at_some toks p2 tk Ak) as L2. fold ntoks in L2. fold NT in L2. split; [lia|].
      rewrite <- (kinds_app start (N.succ start) (N.succ p2)) by lia. rewrite (kinds_single start t0 A0), K0. cbn [app]. constructor.
      rewrite <- (kinds_app (N.succ start) (N.succ (N.succ start)) (N.succ p2)) by lia. rewrite (kinds_single _ t1 A1), K1. cbn [app]. constructor.
      rewrite <- (kinds_app (N.succ (N.succ start)) p2 (N.succ p2)) by lia. constructor; [exact Da|].
      rewrite (kinds_single p2 tk Ak), <- Wk. repeat constructor.
  - destruct (is' (N.succ start) KEquals) eqn:E; [|split; [apply SoundR_error | split; assumption]].
    destruct (is_kind _ _ E) as (t1 & A1 & K1). pose proof (at_some toks _ t1 A1) as L1. fold ntoks in L1. fold NT in L1.
    refine (let_tail_sound start (tok_name tokmap start) xs xe None true (N.succ (N.succ start)) 0 s
              [GT KIdentifier; GT KEquals] [GT KIdentifier; GT KEquals; GN Term; GTerminator; GN Term] _ eq_refl T1 T2 _);
      [apply prod_in_grammar; apply special_productions_in_grammar|].
    intros _ _ _. split; [lia|].
    rewrite <- (kinds_app start (N.succ start) (N.succ (N.succ start))) by lia. rewrite (kinds_single start t0 A0), K0. cbn [app]. constructor.
    rewrite (kinds_single _ t1 A1), K1. repeat constructor.
Qed.
End BodySound.

(* ---------- every call, through the memo table ---------- *)
Lemma parse_sound_rec : forall fuel, RecOK (parse' fuel).
Proof.
  induction fuel as [|f IH]; intros n p s T1 T2.
  { cbn. repeat split; auto. }
  destruct (parse_good use_memo tokmap ntoks last_tok (S f) n p s T1) as [Jr T1r].
  split; [exact Jr|]. split; [exact T1r|]. clear Jr T1r.
  cbn [parse].
  destruct (if use_memo && memoised_fast n then PositiveMap.find (key n p) (tbl s) else None) as [r|] eqn:Hit.
  - cbn [fst snd]. split; [|exact T2]. destruct (use_memo && memoised_fast n); [exact (T2 _ _ _ Hit) | discriminate].
  - set (s0 := {| tbl := tbl s; misses := S (misses s); scans := scans s |}).
    assert (T10 : TJ s0) by exact T1. assert (T20 : TS s0) by exact T2.
    assert (B : forall x : M pres, (SoundR n p (fst (x s0)) /\ TJ (snd (x s0)) /\ TS (snd (x s0))) ->
              SoundR n p (fst (let '(r, s') := x s0 in (r, if use_memo && memoised_fast n
                   then {| tbl := PositiveMap.add (key n p) r (tbl s'); misses := misses s'; scans := scans s' |} else s'))) /\
              TS (snd (let '(r, s') := x s0 in (r, if use_memo && memoised_fast n
                   then {| tbl := PositiveMap.add (key n p) r (tbl s'); misses := misses s'; scans := scans s' |} else s')))).
    { intros x (Sx & _ & Tx). destruct (x s0) as [r s']. cbn [fst snd] in *. split; [exact Sx|].
      destruct (use_memo && memoised_fast n); [|exact Tx].
      intros m q r0. cbn [tbl]. rewrite PositiveMapAdditionalFacts.gsspec.
      destruct (PositiveMap.E.eq_dec (key m q) (key n p)) as [E|_]; [|apply Tx].
      apply (key_inj toks) in E as [-> ->]. intros [= <-]. exact Sx. }
    pose proof (sound_table_all n) as ST. unfold sound_table in ST.
    destruct (skel_fast n) as [alts|steps|].
    + apply (B (choose' (parse' f) p alts)). apply (choose_sound (parse' f) IH); auto.
      intros a Ha. rewrite forallb_forall in ST. apply prod_in_grammar. exact (ST a Ha).
    + apply (B (run' (parse' f) n steps p [] true)).
      apply (run_sound (parse' f) IH n p (map erase steps) (prod_in_grammar _ _ ST) steps [] p [] true s0 eq_refl T10 T20).
      intros _. split; [lia|]. rewrite kinds_refl. constructor.
    + destruct n;
        first [ apply (B (parse_group' (parse' f) p)); now apply parse_group_sound
              | apply (B (parse_let' (parse' f) p)); now apply parse_let_sound
              | apply (B (parse_if' (parse' f) p)); now apply parse_if_sound
              | apply (B (ret (PRes (error_term' p) p false))); cbn [ret fst snd]; split; [apply SoundR_error | split; assumption] ].
Qed.
End Sound.

(* C07, soundness: what the parser model accepts is a sentence of grammar.y *)
Theorem parse_sound : forall toks memo t, fst (fst (parse_stage1 toks memo)) = S1Tree t -> derives Term (map pk toks).
Proof.
  intros toks memo t. unfold parse_stage1, parse_stage1_.
  assert (T1 : TJ empty_state) by apply TJ_empty.
  assert (T2 : TS toks empty_state) by (intros n p r; cbn; rewrite PositiveMap.gempty; discriminate).
  destruct (parse_sound_rec memo toks (parse_fuel (length toks)) Term 0%N empty_state T1 T2) as (_ & _ & S & _).
  destruct (parse memo (tokmap_of toks) (length toks) (last_opt toks) (parse_fuel (length toks)) Term 0%N empty_state) as [[|t' nx c] s];
    cbn [fst snd] in *; [discriminate|].
  destruct (Nat.eqb (nerrs t') 0) eqn:Z; cbn [negb]; [|discriminate].
  destruct (N.eqb nx (ntoksN (length toks))) eqn:Enx; cbn [negb]; [|discriminate].
  destruct (has_error_node t') eqn:He; [discriminate|]. intros _.
  apply Nat.eqb_eq in Z. apply N.eqb_eq in Enx. destruct (S (conj Z He)) as [_ D].
  unfold kinds in D. rewrite Enx in D. unfold ntoksN in D. cbn [N.to_nat skipn] in D.
  rewrite Nat.sub_0_r, Nat2N.id, firstn_all in D. exact D.
Qed.
