(* C07 (completeness half), part 1: an abstract ordered-choice (PEG) semantics of the parser on lists of
   token kinds, and the proof that the executable parser model refines it.

   pegR n u r: on the input u the parse function of n
     - r = RFail    : returns a ParseError (so that an enclosing ordered choice goes on), or
     - r = ROk rest : returns a tree without error nodes and error factories, having consumed u up to rest.
   Every other behaviour of the parser (a committed sub-parse that fails, a keyword found only by the
   recovery scan, ...) has no derivation: the relation is partial. The rules follow the GENERATED
   skeleton (choice / sequence functions) and the three hand-modelled functions.

   parse_refines_peg: through the memo table and whatever the fuel, a result of `parse` agrees with
   every pegR derivation for its (nonterminal, position); peg_accepts: if the start symbol consumes the
   whole input in the abstract semantics, parse_stage1 answers S1Tree. *)
From Coq Require Import List ZArith NArith Lia Bool Arith PArith FMapPositive.
Import ListNotations.
Require Import Gram.Model.Term Gram.Model.Token Gram.Model.Grammar Gram.Gen.ParserSkeleton Gram.Gen.GrammarY Gram.Model.Parser.
Require Import Gram.Proofs.ParserProofs Gram.Proofs.PanicProofs Gram.Proofs.PackratProofs Gram.Proofs.SoundProofs.

Inductive ares := RFail | ROk (rest : list tkind).

Inductive pegR : nt -> list tkind -> ares -> Prop :=
| pg_choice n alts u r : skel_fast n = FChoice alts -> pegC alts u r -> pegR n u r
| pg_seq n steps u r : skel_fast n = FSeq steps -> pegS steps u r -> pegR n u r
| pg_group_nf u : hd_error u <> Some KLeftParen -> pegR Group u RFail
| pg_group_f u : pegR Term u RFail -> pegR Group (KLeftParen :: u) RFail
| pg_group_ok u r : pegR Term u (ROk (KRightParen :: r)) -> pegR Group (KLeftParen :: u) (ROk r)
| pg_if_nf u : hd_error u <> Some KIf -> pegR If u RFail
| pg_if_ok u1 u2 u3 r : pegR Term u1 (ROk (KThen :: u2)) -> pegR Term u2 (ROk (KElse :: u3)) -> pegR Term u3 (ROk r) ->
    pegR If (KIf :: u1) (ROk r)
| pg_let_nf u : hd_error u <> Some KIdentifier -> pegR Let u RFail
| pg_let_nf2 u : hd_error u <> Some KColon -> hd_error u <> Some KEquals -> pegR Let (KIdentifier :: u) RFail
| pg_let_annf u : pegR SmallTerm u RFail -> pegR Let (KIdentifier :: KColon :: u) RFail
| pg_let_ann u u1 k u2 r : pegR SmallTerm u (ROk (KEquals :: u1)) -> pegR Term u1 (ROk (k :: u2)) ->
    is_terminator_kind k = true -> pegR Term u2 (ROk r) -> pegR Let (KIdentifier :: KColon :: u) (ROk r)
| pg_let_plain u1 k u2 r : pegR Term u1 (ROk (k :: u2)) -> is_terminator_kind k = true -> pegR Term u2 (ROk r) ->
    pegR Let (KIdentifier :: KEquals :: u1) (ROk r)
with pegC : list nt -> list tkind -> ares -> Prop :=
| pc_nil u : pegC [] u RFail
| pc_ok a alts u r : pegR a u (ROk r) -> pegC (a :: alts) u (ROk r)
| pc_next a alts u r : pegR a u RFail -> pegC alts u r -> pegC (a :: alts) u r
with pegS : list pstep -> list tkind -> ares -> Prop :=
| ps_nil u : pegS [] u (ROk u)
| ps_tok k steps u r : pegS steps u r -> pegS (SConsume k :: steps) (k :: u) r
| ps_tok_f k steps u : hd_error u <> Some k -> pegS (SConsume k :: steps) u RFail
| ps_try m steps u u' r : pegR m u (ROk u') -> pegS steps u' r -> pegS (STry m :: steps) u r
| ps_try_f m steps u : pegR m u RFail -> pegS (STry m :: steps) u RFail
| ps_commit m steps u u' r : pegR m u (ROk u') -> pegS steps u' r -> pegS (SCommit m :: steps) u r.

(* ---------- inversion, once and for all ---------- *)
Lemma skel_fast_special n : skel_fast n = FSpecial -> n = Let \/ n = If \/ n = Group.
Proof. destruct n; vm_compute; intros H; try discriminate H; auto. Qed.
Lemma skel_Group : skel_fast Group = FSpecial. Proof. reflexivity. Qed.
Lemma skel_If : skel_fast If = FSpecial. Proof. reflexivity. Qed.
Lemma skel_Let : skel_fast Let = FSpecial. Proof. reflexivity. Qed.

Lemma pegR_choice_inv n alts u r : skel_fast n = FChoice alts -> pegR n u r -> pegC alts u r.
Proof.
  intros E H. inversion H; subst;
    try (rewrite skel_Group in E; discriminate E); try (rewrite skel_If in E; discriminate E);
    try (rewrite skel_Let in E; discriminate E).
  - rewrite E in H0. injection H0 as <-. assumption.
  - rewrite E in H0. discriminate H0.
Qed.
Lemma pegR_seq_inv n steps u r : skel_fast n = FSeq steps -> pegR n u r -> pegS steps u r.
Proof.
  intros E H. inversion H; subst;
    try (rewrite skel_Group in E; discriminate E); try (rewrite skel_If in E; discriminate E);
    try (rewrite skel_Let in E; discriminate E).
  - rewrite E in H0. discriminate H0.
  - rewrite E in H0. injection H0 as <-. assumption.
Qed.

Lemma pegR_group_inv u r : pegR Group u r ->
  match r with
  | RFail => hd_error u <> Some KLeftParen \/ (exists u', u = KLeftParen :: u' /\ pegR Term u' RFail)
  | ROk rest => exists u', u = KLeftParen :: u' /\ pegR Term u' (ROk (KRightParen :: rest))
  end.
Proof.
  intros H. inversion H; subst; try (match goal with E : skel_fast Group = _ |- _ => discriminate E end); eauto.
Qed.
Lemma pegR_if_inv u r : pegR If u r ->
  match r with
  | RFail => hd_error u <> Some KIf
  | ROk rest => exists u1 u2 u3, u = KIf :: u1 /\ pegR Term u1 (ROk (KThen :: u2)) /\ pegR Term u2 (ROk (KElse :: u3)) /\
                                 pegR Term u3 (ROk rest)
  end.
Proof.
  intros H. inversion H; subst; try (match goal with E : skel_fast If = _ |- _ => discriminate E end); eauto 8.
Qed.
Lemma pegR_let_inv u r : pegR Let u r ->
  match r with
  | RFail => hd_error u <> Some KIdentifier \/
             (exists u', u = KIdentifier :: u' /\ hd_error u' <> Some KColon /\ hd_error u' <> Some KEquals) \/
             (exists u', u = KIdentifier :: KColon :: u' /\ pegR SmallTerm u' RFail)
  | ROk rest =>
      (exists u' u1 k u2, u = KIdentifier :: KColon :: u' /\ pegR SmallTerm u' (ROk (KEquals :: u1)) /\
                          pegR Term u1 (ROk (k :: u2)) /\ is_terminator_kind k = true /\ pegR Term u2 (ROk rest)) \/
      (exists u1 k u2, u = KIdentifier :: KEquals :: u1 /\ pegR Term u1 (ROk (k :: u2)) /\ is_terminator_kind k = true /\
                       pegR Term u2 (ROk rest))
  end.
Proof.
  intros H. inversion H; subst; try (match goal with E : skel_fast Let = _ |- _ => discriminate E end); eauto 12.
Qed.

(* ---------- build never fails on what a sequence function collects ---------- *)
Definition step_child (st : pstep) (c : child) : Prop :=
  match st, c with SConsume _, CTok _ => True | STry _, CTerm _ => True | SCommit _, CTerm _ => True | _, _ => False end.

Lemma build_total tokmap last_tok n steps cs : skel_fast n = FSeq steps -> Forall2 step_child steps cs ->
  exists t, build tokmap last_tok n cs = Some t.
Proof.
  intros H F.
  destruct n; vm_compute in H; try discriminate H; injection H as <-;
    repeat match goal with
           | H : Forall2 _ (_ :: _) _ |- _ => inversion H; subst; clear H
           | H : Forall2 _ [] _ |- _ => inversion H; subst; clear H
           end;
    repeat match goal with H : step_child _ ?c |- _ => destruct c; cbn in H; try contradiction; clear H end;
    cbn [build]; repeat match goal with |- context [tok_range ?a ?b ?c] => destruct (tok_range a b c) end; eexists; reflexivity.
Qed.

Lemma skipn_nth {A} : forall i (l : list A),
  skipn i l = match nth_error l i with Some x => x :: skipn (S i) l | None => [] end.
Proof. induction i as [|i IH]; intros [|x l]; cbn; try reflexivity. apply IH. Qed.

Section Refine.
Variable use_memo : bool.
Variable toks : list ptok.
Let tokmap := tokmap_of toks.
Let ntoks := length toks.
Let last_tok := last_opt toks.
Let NT : N := N.of_nat ntoks.
Notation at' := (at_ tokmap).
Notation is' := (is tokmap).
Notation error_term' := (error_term tokmap last_tok).
Notation silent_error' := (silent_error tokmap last_tok).
Notation choose' := (choose tokmap last_tok).
Notation run' := (run tokmap last_tok).
Notation build' := (build tokmap last_tok).
Notation expect' := (expect tokmap ntoks).
Notation scan' := (scan tokmap).
Notation parse_let' := (parse_let tokmap ntoks last_tok).
Notation parse_if' := (parse_if tokmap ntoks last_tok).
Notation parse_group' := (parse_group tokmap ntoks last_tok).
Notation parse' := (parse use_memo tokmap ntoks last_tok).

(* the token kinds from position p on *)
Definition ksuf (p : N) : list tkind := map pk (skipn (N.to_nat p) toks).

Lemma ksuf_unfold p : ksuf p = match at' p with Some t => pk t :: ksuf (N.succ p) | None => [] end.
Proof.
  unfold ksuf. unfold tokmap. rewrite (at_nth toks p). rewrite skipn_nth. rewrite N2Nat.inj_succ.
  destruct (nth_error toks (N.to_nat p)); reflexivity.
Qed.
Lemma ksuf_is p k : is' p k = true -> ksuf p = k :: ksuf (N.succ p).
Proof.
  unfold is, same_kind. rewrite (ksuf_unfold p). destruct (at' p) as [t|]; [|discriminate].
  intros H. apply Token.tkind_eqb_eq in H. now subst.
Qed.
Lemma ksuf_is_false p k : is' p k = false -> hd_error (ksuf p) <> Some k.
Proof.
  unfold is, same_kind. rewrite (ksuf_unfold p). destruct (at' p) as [t|]; [|discriminate].
  intros H E. cbn in E. injection E as E. subst k.
  assert (T : tkind_eqb (pk t) (pk t) = true) by now apply Token.tkind_eqb_eq. congruence.
Qed.
Lemma ksuf_cons p k r : ksuf p = k :: r -> exists t, at' p = Some t /\ pk t = k /\ ksuf (N.succ p) = r.
Proof. rewrite (ksuf_unfold p). destruct (at' p) as [t|]; [|discriminate]. intros [= <- <-]. eauto. Qed.
Lemma ksuf_cons_is p k r : ksuf p = k :: r -> is' p k = true.
Proof.
  intros H. destruct (ksuf_cons _ _ _ H) as (t & A & K & _). unfold is, same_kind. rewrite A, K. now apply Token.tkind_eqb_eq.
Qed.

(* expect: a wanted token that stands right here is found without any report and without scanning *)
Lemma expect_spec want p report s :
  let r := expect' want p report s in
  tbl (snd r) = tbl s /\ (forall tk, at' p = Some tk -> want (pk tk) = true -> fst r = (true, N.succ p, 0)).
Proof.
  cbv zeta. split; [apply (expect_tbl toks)|].
  intros tk A W. unfold expect. cbn [scan]. rewrite A, W. cbn. rewrite andb_false_r. reflexivity.
Qed.

(* ---------- the invariant ---------- *)
Definition AgreeT (n : nt) (p : N) (t : pterm) (nx : N) : Prop :=
  (pegR n (ksuf p) RFail -> is_perror t = true) /\
  (forall rest, pegR n (ksuf p) (ROk rest) -> clean t /\ ksuf nx = rest).
Definition AgreeR (n : nt) (p : N) (r : pres) : Prop :=
  match r with PFuel => True | PRes t nx _ => AgreeT n p t nx end.
Definition TA (s : mstate) : Prop := forall n p r, PositiveMap.find (key n p) (tbl s) = Some r -> AgreeR n p r.
Definition RecA (rec : mrec) : Prop := forall n p s, TA s -> AgreeR n p (fst (rec n p s)) /\ TA (snd (rec n p s)).

Lemma TA_same_tbl s s' : tbl s' = tbl s -> TA s -> TA s'.
Proof. intros E T n p r. rewrite E. apply T. Qed.

Lemma is_perror_error p : is_perror (error_term' p) = true.
Proof. unfold error_term. destruct (empty_range tokmap last_tok p). reflexivity. Qed.

Section Body.
Variable rec : mrec.
Hypothesis HRec : RecA rec.

Lemma choose_agree p : forall alts s, TA s ->
  match fst (choose' rec p alts s) with
  | PFuel => True
  | PRes t nx _ => (pegC alts (ksuf p) RFail -> is_perror t = true) /\
                   (forall rest, pegC alts (ksuf p) (ROk rest) -> clean t /\ ksuf nx = rest)
  end /\ TA (snd (choose' rec p alts s)).
Proof.
  induction alts as [|a r IH]; intros s T; cbn [choose].
  - cbn [fst snd]. split; [|exact T]. split; [intros _; apply is_perror_error | intros rest H; inversion H].
  - destruct (HRec a p s T) as [Aa Ta]. destruct (rec a p s) as [[|t nx c] s']; cbn [fst snd] in *; [split; [exact I | exact Ta]|].
    destruct Aa as [AF AO]. destruct (is_perror t) eqn:P.
    + destruct (IH s' Ta) as [IA IT]. split; [|exact IT].
      destruct (fst (choose' rec p r s')) as [|t2 nx2 c2]; [exact I|]. destruct IA as [IF IO]. split.
      * intros H. inversion H; subst. now apply IF.
      * intros rest H. inversion H; subst; [|now apply IO].
        match goal with H1 : pegR a _ (ROk _) |- _ => destruct (AO _ H1) as [C _] end.
        apply clean_not_perror in C. congruence.
    + split; [|exact Ta]. split.
      * intros H. inversion H; subst. match goal with H1 : pegR a _ RFail |- _ => specialize (AF H1) end. congruence.
      * intros rest H. inversion H; subst; [now apply AO|].
        match goal with H1 : pegR a _ RFail |- _ => specialize (AF H1) end. congruence.
Qed.

Lemma run_agree n : forall steps cur acc conf s, TA s ->
  (forall cs, Forall2 step_child steps cs -> exists t, build' n (rev acc ++ cs) = Some t) ->
  match fst (run' rec n steps cur acc conf s) with
  | PFuel => True
  | PRes t nx _ => (pegS steps (ksuf cur) RFail -> is_perror t = true) /\
                   (forall rest, pegS steps (ksuf cur) (ROk rest) -> clean_acc acc -> clean t /\ ksuf nx = rest)
  end /\ TA (snd (run' rec n steps cur acc conf s)).
Proof.
  induction steps as [|st steps IH]; intros cur acc conf s T HB; cbn [run].
  - cbn [fst snd]. split; [|exact T]. destruct (HB [] (Forall2_nil _)) as [t B]. rewrite app_nil_r in B. rewrite B. split.
    + intros H. inversion H.
    + intros rest H CA. inversion H; subst. split; [|reflexivity].
      apply build_facts in B as [B1 B2]. destruct CA as [C1 C2]. split.
      * rewrite B1, map_rev, list_sum_rev. exact C1.
      * rewrite B2. destruct (existsb ce (rev acc)) eqn:E; [|reflexivity].
        apply existsb_exists in E as (c & Hin & Hc). apply in_rev in Hin.
        assert (existsb ce acc = true) by (apply existsb_exists; eauto). congruence.
  - destruct st as [k|m|m].
    + destruct (is' cur k) eqn:K.
      * assert (HB' : forall cs, Forall2 step_child steps cs -> exists t, build' n (rev (CTok cur :: acc) ++ cs) = Some t).
        { intros cs F. cbn [rev]. rewrite <- app_assoc. apply HB. constructor; [exact I | exact F]. }
        destruct (IH (N.succ cur) (CTok cur :: acc) true s T HB') as [IA IT]. split; [|exact IT].
        destruct (fst (run' rec n steps (N.succ cur) (CTok cur :: acc) true s)) as [|t nx c]; [exact I|]. destruct IA as [IF IO].
        rewrite (ksuf_is _ _ K). split.
        -- intros H. inversion H; subst; [now apply IF|]. match goal with H1 : hd_error _ <> _ |- _ => now contradiction H1 end.
        -- intros rest H CA. inversion H; subst. apply IO; [assumption|]. now apply (proj2 (clean_acc_cons_tok _ _)).
      * cbn [fst snd]. split; [|exact T]. split; [intros _; apply is_perror_error|].
        intros rest H _. inversion H; subst. apply ksuf_is_false in K.
        match goal with H1 : _ :: _ = ksuf cur |- _ => rewrite <- H1 in K end. now contradiction K.
    + destruct (HRec m cur s T) as [Am Tm]. destruct (rec m cur s) as [[|t nx c] s']; cbn [fst snd] in *; [split; [exact I | exact Tm]|].
      destruct Am as [AF AO]. destruct (is_perror t) eqn:P.
      * cbn [fst snd]. split; [|exact Tm]. split; [intros _; exact P|].
        intros rest H _. inversion H; subst.
        match goal with H1 : pegR m _ (ROk _) |- _ => destruct (AO _ H1) as [C _] end. apply clean_not_perror in C. congruence.
      * assert (HB' : forall cs, Forall2 step_child steps cs -> exists t0, build' n (rev (CTerm t :: acc) ++ cs) = Some t0).
        { intros cs F. cbn [rev]. rewrite <- app_assoc. apply HB. constructor; [exact I | exact F]. }
        destruct (IH nx (CTerm t :: acc) c s' Tm HB') as [IA IT]. split; [|exact IT].
        destruct (fst (run' rec n steps nx (CTerm t :: acc) c s')) as [|t2 nx2 c2]; [exact I|]. destruct IA as [IF IO]. split.
        -- intros H. inversion H; subst.
           ++ match goal with H1 : pegR m _ (ROk _) |- _ => destruct (AO _ H1) as [_ E] end. subst. now apply IF.
           ++ match goal with H1 : pegR m _ RFail |- _ => specialize (AF H1) end. congruence.
        -- intros rest H CA. inversion H; subst.
           match goal with H1 : pegR m _ (ROk _) |- _ => destruct (AO _ H1) as [C E] end. subst.
           apply IO; [assumption|]. apply (proj2 (clean_acc_cons_term toks _ _)). split; assumption.
    + destruct (HRec m cur s T) as [Am Tm]. destruct (rec m cur s) as [[|t nx c] s']; cbn [fst snd] in *; [split; [exact I | exact Tm]|].
      destruct Am as [AF AO].
      assert (HB' : forall cs, Forall2 step_child steps cs -> exists t0, build' n (rev (CTerm t :: acc) ++ cs) = Some t0).
      { intros cs F. cbn [rev]. rewrite <- app_assoc. apply HB. constructor; [exact I | exact F]. }
      destruct (IH nx (CTerm t :: acc) c s' Tm HB') as [IA IT]. split; [|exact IT].
      destruct (fst (run' rec n steps nx (CTerm t :: acc) c s')) as [|t2 nx2 c2]; [exact I|]. destruct IA as [IF IO]. split.
      * intros H. inversion H; subst.
        match goal with H1 : pegR m _ (ROk _) |- _ => destruct (AO _ H1) as [_ E] end. subst. now apply IF.
      * intros rest H CA. inversion H; subst.
        match goal with H1 : pegR m _ (ROk _) |- _ => destruct (AO _ H1) as [C E] end. subst.
        apply IO; [assumption|]. apply (proj2 (clean_acc_cons_term toks _ _)). split; assumption.
Qed.

(* binding a sub-result *)
Lemma bind_A (n : nt) (start : N) (x : M pres) k s (Pmid : pterm -> N -> bool -> Prop) :
  (match fst (x s) with PFuel => True | PRes t nx c => Pmid t nx c end /\ TA (snd (x s))) ->
  (forall t nx c s', Pmid t nx c -> TA s' -> AgreeR n start (fst (k t nx c s')) /\ TA (snd (k t nx c s'))) ->
  AgreeR n start (fst (bindP x k s)) /\ TA (snd (bindP x k s)).
Proof.
  intros [Px Tx] Hk. unfold bindP. destruct (x s) as [[|t nx c] s']; cbn [fst snd] in *; [split; [exact I | exact Tx]|].
  apply Hk; assumption.
Qed.

Lemma rec_A m p s : TA s ->
  match fst (rec m p s) with PFuel => True | PRes t nx c => AgreeT m p t nx end /\ TA (snd (rec m p s)).
Proof. intros T. destruct (HRec m p s T) as [A T']. split; [|exact T']. destruct (fst (rec m p s)); [exact I | exact A]. Qed.

(* a sub-parse, or a silent error when its keyword was not found *)
Lemma sub_A (found : bool) p s : TA s ->
  let x := (if found then rec Term p else ret (PRes (silent_error' p) p false)) in
  match fst (x s) with PFuel => True | PRes t nx c => found = true -> AgreeT Term p t nx end /\ TA (snd (x s)).
Proof.
  intros T. destruct found; cbv zeta.
  - destruct (rec_A Term p s T) as [A T']. split; [|exact T']. destruct (fst (rec Term p s)); [exact I | intros _; exact A].
  - cbn. split; [discriminate | exact T].
Qed.

Lemma clean_with_info t i : clean t -> pnerr i = pnerr (info t) -> clean (with_info t i).
Proof.
  intros C E. pose proof (clean_not_perror _ C) as P. destruct C as [C1 C2]. split.
  - pose proof (nerrs_with_info t i P). lia.
  - rewrite (has_error_with_info _ _ P). exact C2.
Qed.
Lemma clean_pnerr t : clean t -> pnerr (info t) = 0.
Proof. intros [C _]. destruct t; cbn in *; lia. Qed.

Lemma parse_group_agree start s : TA s ->
  AgreeR Group start (fst (parse_group' rec start s)) /\ TA (snd (parse_group' rec start s)).
Proof.
  intros T. unfold parse_group. destruct (is' start KLeftParen) eqn:K; cbn [negb].
  - pose proof (ksuf_is _ _ K) as KS.
    apply (bind_A Group start _ _ _ (fun t nx c => AgreeT Term (N.succ start) t nx)); [apply rec_A; exact T|].
    intros t p1 c s1 [AF AO] T1. destruct (is_perror t) eqn:P.
    + cbn. split; [|exact T1]. split; [intros _; exact P|].
      intros rest H. apply pegR_group_inv in H as (u' & E & H). rewrite KS in E. injection E as <-.
      destruct (AO _ H) as [C _]. apply clean_not_perror in C. congruence.
    + pose proof (expect_spec (want_kind KRightParen) p1 c s1) as [Et Ef]. cbv zeta in Et, Ef.
      destruct (expect' (want_kind KRightParen) p1 c s1) as [[[found p2] phony] s2]. cbn [fst snd] in *.
      destruct (tok_range tokmap last_tok start) as [gs ge0]. destruct (tok_range tokmap last_tok (N.pred p2)) as [gs1 ge].
      cbn [fst snd]. split; [|exact (TA_same_tbl _ _ Et T1)]. split.
      * intros H. apply pegR_group_inv in H as [H|(u' & E & H)].
        -- rewrite KS in H. now contradiction H.
        -- rewrite KS in E. injection E as <-. specialize (AF H). congruence.
      * intros rest H. apply pegR_group_inv in H as (u' & E & H). rewrite KS in E. injection E as <-.
        destruct (AO _ H) as [C E]. destruct (ksuf_cons _ _ _ E) as (tk & A & Kk & E').
        assert (W : want_kind KRightParen (pk tk) = true) by (rewrite Kk; now apply Token.tkind_eqb_eq).
        specialize (Ef tk A W). injection Ef as -> -> ->. split; [|exact E'].
        apply clean_with_info; [exact C|]. cbn [pnerr mk]. lia.
  - cbn. split; [|exact T]. split; [intros _; apply is_perror_error|].
    intros rest H. apply pegR_group_inv in H as (u' & E & _). apply ksuf_is_false in K. rewrite E in K. now contradiction K.
Qed.

Lemma clean_parts3 a b c e : nerrs a = 0 -> nerrs b = 0 -> nerrs c = 0 -> e = 0 ->
  e + (nerrs a + nerrs b + nerrs c) = 0.
Proof. lia. Qed.

Lemma parse_if_agree start s : TA s ->
  AgreeR If start (fst (parse_if' rec start s)) /\ TA (snd (parse_if' rec start s)).
Proof.
  intros T. unfold parse_if. destruct (is' start KIf) eqn:K; cbn [negb].
  - pose proof (ksuf_is _ _ K) as KS. destruct (tok_range tokmap last_tok start) as [is_ ie].
    apply (bind_A If start _ _ _ (fun t nx c => AgreeT Term (N.succ start) t nx)); [apply rec_A; exact T|].
    intros c p1 cconf s1 [_ AOc] T1.
    pose proof (expect_spec (want_kind KThen) p1 cconf s1) as [Et1 Ef1]. cbv zeta in Et1, Ef1.
    destruct (expect' (want_kind KThen) p1 cconf s1) as [[[found_then p2] e1] s2]. cbn [fst snd] in *.
    apply (bind_A If start _ _ _ (fun t nx tc => found_then = true -> AgreeT Term p2 t nx));
      [apply sub_A; exact (TA_same_tbl _ _ Et1 T1)|].
    intros t p3 tconf s3 At T3.
    pose proof (expect_spec (want_kind KElse) p3 tconf s3) as [Et2 Ef2]. cbv zeta in Et2, Ef2.
    destruct (expect' (want_kind KElse) p3 tconf s3) as [[[found_else p4] e2] s4]. cbn [fst snd] in *.
    apply (bind_A If start _ _ _ (fun t nx tc => found_else = true -> AgreeT Term p4 t nx));
      [apply sub_A; exact (TA_same_tbl _ _ Et2 T3)|].
    intros e p5 econf s5 Ae T5. cbn [ret fst snd]. split; [|exact T5]. split.
    + intros H. apply pegR_if_inv in H. rewrite KS in H. now contradiction H.
    + intros rest H. apply pegR_if_inv in H as (u1 & u2 & u3 & E & H1 & H2 & H3). rewrite KS in E. injection E as <-.
      destruct (AOc _ H1) as [Cc Ec]. destruct (ksuf_cons _ _ _ Ec) as (tk1 & A1 & K1 & E1).
      assert (W1 : want_kind KThen (pk tk1) = true) by (rewrite K1; now apply Token.tkind_eqb_eq).
      specialize (Ef1 tk1 A1 W1). injection Ef1 as -> -> ->.
      destruct (At eq_refl) as [_ AOt]. rewrite E1 in AOt. destruct (AOt _ H2) as [Ct Et]. destruct (ksuf_cons _ _ _ Et) as (tk2 & A2 & K2 & E2).
      assert (W2 : want_kind KElse (pk tk2) = true) by (rewrite K2; now apply Token.tkind_eqb_eq).
      specialize (Ef2 tk2 A2 W2). injection Ef2 as -> -> ->.
      destruct (Ae eq_refl) as [_ AOe]. rewrite E2 in AOe. destruct (AOe _ H3) as [Ce Ee]. split; [|exact Ee].
      destruct Cc as [Cc1 Cc2], Ct as [Ct1 Ct2], Ce as [Ce1 Ce2]. split.
      * cbn [nerrs info pnerr mk]. lia.
      * cbn [has_error_node]. rewrite Cc2, Ct2, Ce2. reflexivity.
  - cbn. split; [|exact T]. split; [intros _; apply is_perror_error|].
    intros rest H. apply pegR_if_inv in H as (u1 & u2 & u3 & E & _). apply ksuf_is_false in K. rewrite E in K. now contradiction K.
Qed.

Definition ann_clean (ann : option pterm) : Prop := match ann with Some a => clean a | None => True end.

Lemma AgreeR_intro n p r (Q : pterm -> N -> Prop) :
  match r with PFuel => True | PRes t nx _ => Q t nx end -> (forall t nx, Q t nx -> AgreeT n p t nx) -> AgreeR n p r.
Proof. destruct r; [trivial|]. intros H1 H2. cbn. auto. Qed.

Lemma bind_gen (x : M pres) k s (Pmid : pterm -> N -> bool -> Prop) (Q : pres -> Prop) :
  (match fst (x s) with PFuel => True | PRes t nx c => Pmid t nx c end /\ TA (snd (x s))) ->
  Q PFuel ->
  (forall t nx c s', Pmid t nx c -> TA s' -> Q (fst (k t nx c s')) /\ TA (snd (k t nx c s'))) ->
  Q (fst (bindP x k s)) /\ TA (snd (bindP x k s)).
Proof.
  intros [Px Tx] Q0 Hk. unfold bindP. destruct (x s) as [[|t nx c] s']; cbn [fst snd] in *; [split; [exact Q0 | exact Tx]|].
  apply Hk; assumption.
Qed.

(* the part of parse_let after the `=` *)
Definition LetTailQ (ann : option pterm) (eq_found : bool) (p3 : N) (e1 : nat) (r : pres) : Prop :=
  match r with
  | PFuel => True
  | PRes t nx _ => forall k u2 rest, eq_found = true -> e1 = 0 -> ann_clean ann ->
                   pegR Term (ksuf p3) (ROk (k :: u2)) -> is_terminator_kind k = true -> pegR Term u2 (ROk rest) ->
                   clean t /\ ksuf nx = rest
  end.

Lemma let_tail_agree x xs xe ann (eq_found : bool) p3 e1 s :
  TA s ->
  let r := bindP (if eq_found then rec Term p3 else ret (PRes (silent_error' p3) p3 false)) (fun d p4 dconf =>
        fun s =>
        let '((t_found, p5, e2), s1) := expect' want_terminator p4 dconf s in
        bindP (if t_found then rec Term p5 else ret (PRes (silent_error' p5) p5 false)) (fun b p6 bconf =>
          ret (PRes (PLet (mk xs (pre (info b)) false (e1 + e2)) x xs xe ann d b) p6 bconf)) s1) s in
  LetTailQ ann eq_found p3 e1 (fst r) /\ TA (snd r).
Proof.
  intros T. cbv zeta.
  apply (bind_gen _ _ _ (fun d p4 dconf => eq_found = true -> AgreeT Term p3 d p4) (LetTailQ ann eq_found p3 e1));
    [apply sub_A; exact T | exact I |].
  intros d p4 dconf s1 Ad T1.
  pose proof (expect_spec want_terminator p4 dconf s1) as [Et Ef]. cbv zeta in Et, Ef.
  destruct (expect' want_terminator p4 dconf s1) as [[[t_found p5] e2] s2]. cbn [fst snd] in *.
  apply (bind_gen _ _ _ (fun b p6 bconf => t_found = true -> AgreeT Term p5 b p6) (LetTailQ ann eq_found p3 e1));
    [apply sub_A; exact (TA_same_tbl _ _ Et T1) | exact I |].
  intros b p6 bconf s3 Ab T3. cbn [ret fst snd]. split; [|exact T3].
  intros k u2 rest Eq E1 CA H1 Hk H2.
  destruct (Ad Eq) as [_ AOd]. destruct (AOd _ H1) as [Cd Ed]. destruct (ksuf_cons _ _ _ Ed) as (tk & A & Kk & E').
  assert (W : want_terminator (pk tk) = true) by (rewrite Kk; exact Hk).
  specialize (Ef tk A W). injection Ef as -> -> ->.
  destruct (Ab eq_refl) as [_ AOb]. rewrite E' in AOb. destruct (AOb _ H2) as [Cb Eb]. split; [|exact Eb].
  destruct Cd as [Cd1 Cd2], Cb as [Cb1 Cb2]. split.
  - cbn [nerrs info pnerr mk]. destruct ann as [a|]; [destruct CA as [Ca1 Ca2]|]; lia.
  - cbn [has_error_node]. rewrite Cd2, Cb2. destruct ann as [a|]; [destruct CA as [Ca1 Ca2]; rewrite Ca2|]; reflexivity.
Qed.

Lemma parse_let_agree start s : TA s ->
  AgreeR Let start (fst (parse_let' rec start s)) /\ TA (snd (parse_let' rec start s)).
Proof.
  intros T. unfold parse_let. destruct (is' start KIdentifier) eqn:K; cbn [negb].
  - pose proof (ksuf_is _ _ K) as KS. destruct (tok_range tokmap last_tok start) as [xs xe].
    destruct (is' (N.succ start) KColon) eqn:C.
    + pose proof (ksuf_is _ _ C) as KC.
      apply (bind_A Let start _ _ _ (fun t nx c => AgreeT SmallTerm (N.succ (N.succ start)) t nx)); [apply rec_A; exact T|].
      intros a p2 c s1 [AF AO] T1. destruct (is_perror a) eqn:P.
      * cbn. split; [|exact T1]. split; [intros _; exact P|].
        intros rest H. apply pegR_let_inv in H as [(u' & u1 & k & u2 & E & H1 & _)|(u1 & k & u2 & E & _)];
          rewrite KS, KC in E; [|discriminate E]. injection E as <-. destruct (AO _ H1) as [Ca _]. apply clean_not_perror in Ca. congruence.
      * pose proof (expect_spec (want_kind KEquals) p2 c s1) as [Et Ef]. cbv zeta in Et, Ef.
        destruct (expect' (want_kind KEquals) p2 c s1) as [[[eq_found p3] e1] s2]. cbn [fst snd] in *.
        destruct (let_tail_agree (tok_name tokmap start) xs xe (Some a) eq_found p3 e1 s2 (TA_same_tbl _ _ Et T1)) as [LA LT].
        split; [|exact LT]. refine (AgreeR_intro _ _ _ _ LA _). intros t nx Q. unfold LetTailQ in Q. split.
        -- intros H. exfalso. apply pegR_let_inv in H as [H|[(u' & E & H1 & H2)|(u' & E & H)]].
           ++ rewrite KS in H. now contradiction H.
           ++ rewrite KS in E. injection E as <-. rewrite KC in H1. now contradiction H1.
           ++ rewrite KS, KC in E. injection E as <-. specialize (AF H). congruence.
        -- intros rest H. apply pegR_let_inv in H as [(u' & u1 & k & u2 & E & H1 & H2 & Hk & H3)|(u1 & k & u2 & E & _)];
             rewrite KS, KC in E; [|discriminate E]. injection E as <-.
           destruct (AO _ H1) as [Ca Ea]. destruct (ksuf_cons _ _ _ Ea) as (tk & A & Kk & E').
           assert (W : want_kind KEquals (pk tk) = true) by (rewrite Kk; now apply Token.tkind_eqb_eq).
           specialize (Ef tk A W). injection Ef as -> -> ->.
           apply (Q k u2 rest eq_refl eq_refl Ca); [rewrite E'; exact H2 | exact Hk | exact H3].
    + pose proof (ksuf_is_false _ _ C) as KC. destruct (is' (N.succ start) KEquals) eqn:Q0.
      * pose proof (ksuf_is _ _ Q0) as KE.
        destruct (let_tail_agree (tok_name tokmap start) xs xe None true (N.succ (N.succ start)) 0 s T) as [LA LT].
        split; [|exact LT]. refine (AgreeR_intro _ _ _ _ LA _). intros t nx Q. unfold LetTailQ in Q. split.
        -- intros H. exfalso. apply pegR_let_inv in H as [H|[(u' & E & H1 & H2)|(u' & E & H)]].
           ++ rewrite KS in H. now contradiction H.
           ++ rewrite KS in E. injection E as <-. rewrite KE in H2. now contradiction H2.
           ++ rewrite KS, KE in E. discriminate E.
        -- intros rest H. apply pegR_let_inv in H as [(u' & u1 & k & u2 & E & _)|(u1 & k & u2 & E & H2 & Hk & H3)];
             rewrite KS, KE in E; [discriminate E|]. injection E as <-.
           apply (Q k u2 rest eq_refl eq_refl I); assumption.
      * pose proof (ksuf_is_false _ _ Q0) as KE. cbn. split; [|exact T]. split; [intros _; apply is_perror_error|].
        intros rest H. exfalso. apply pegR_let_inv in H as [(u' & u1 & k & u2 & E & _)|(u1 & k & u2 & E & _)];
          rewrite KS in E; injection E as E; rewrite E in *; [now contradiction KC | now contradiction KE].
  - pose proof (ksuf_is_false _ _ K) as KS. cbn. split; [|exact T]. split; [intros _; apply is_perror_error|].
    intros rest H. exfalso. apply pegR_let_inv in H as [(u' & u1 & k & u2 & E & _)|(u1 & k & u2 & E & _)];
      rewrite E in KS; now contradiction KS.
Qed.
End Body.

(* ---------- every call, through the memo table ---------- *)
Lemma parse_refines_peg : forall fuel, RecA (parse' fuel).
Proof.
  induction fuel as [|f IH]; intros n p s T.
  { cbn. split; [exact I | exact T]. }
  cbn [parse].
  destruct (if use_memo && memoised_fast n then PositiveMap.find (key n p) (tbl s) else None) as [r|] eqn:Hit.
  - cbn [fst snd]. split; [|exact T]. destruct (use_memo && memoised_fast n); [exact (T _ _ _ Hit) | discriminate].
  - set (s0 := {| tbl := tbl s; misses := S (misses s); scans := scans s |}).
    assert (T0 : TA s0) by exact T.
    assert (B : forall x : M pres, (AgreeR n p (fst (x s0)) /\ TA (snd (x s0))) ->
              AgreeR n p (fst (let '(r, s') := x s0 in (r, if use_memo && memoised_fast n
                   then {| tbl := PositiveMap.add (key n p) r (tbl s'); misses := misses s'; scans := scans s' |} else s'))) /\
              TA (snd (let '(r, s') := x s0 in (r, if use_memo && memoised_fast n
                   then {| tbl := PositiveMap.add (key n p) r (tbl s'); misses := misses s'; scans := scans s' |} else s')))).
    { intros x (Sx & Tx). destruct (x s0) as [r s']. cbn [fst snd] in *. split; [exact Sx|].
      destruct (use_memo && memoised_fast n); [|exact Tx].
      intros m q r0. cbn [tbl]. rewrite PositiveMapAdditionalFacts.gsspec.
      destruct (PositiveMap.E.eq_dec (key m q) (key n p)) as [E|_]; [|apply Tx].
      apply (key_inj toks) in E as [-> ->]. intros [= <-]. exact Sx. }
    destruct (skel_fast n) as [alts|steps|] eqn:SK.
    + apply (B (choose' (parse' f) p alts)).
      destruct (choose_agree (parse' f) IH p alts s0 T0) as [CA CT]. split; [|exact CT].
      destruct (fst (choose' (parse' f) p alts s0)) as [|t nx c]; [exact I|]. destruct CA as [CF CO]. split.
      * intros H. apply CF. exact (pegR_choice_inv _ _ _ _ SK H).
      * intros rest H. apply CO. exact (pegR_choice_inv _ _ _ _ SK H).
    + apply (B (run' (parse' f) n steps p [] true)).
      destruct (run_agree (parse' f) IH n steps p [] true s0 T0) as [RA RT].
      { intros cs F. cbn [rev app]. exact (build_total _ _ _ _ _ SK F). }
      split; [|exact RT].
      destruct (fst (run' (parse' f) n steps p [] true s0)) as [|t nx c]; [exact I|]. destruct RA as [RF RO]. split.
      * intros H. apply RF. exact (pegR_seq_inv _ _ _ _ SK H).
      * intros rest H. apply RO; [exact (pegR_seq_inv _ _ _ _ SK H)|]. split; reflexivity.
    + destruct (skel_fast_special _ SK) as [->|[->| ->]].
      * apply (B (parse_let' (parse' f) p)). now apply parse_let_agree.
      * apply (B (parse_if' (parse' f) p)). now apply parse_if_agree.
      * apply (B (parse_group' (parse' f) p)). now apply parse_group_agree.
Qed.
End Refine.

(* ---------- the start symbol ---------- *)
Theorem peg_accepts : forall toks memo, pegR Term (map pk toks) (ROk []) ->
  exists t, fst (fst (parse_stage1 toks memo)) = S1Tree t.
Proof.
  intros toks memo H. unfold parse_stage1, parse_stage1_.
  assert (T0 : TA toks empty_state) by (intros n p r; cbn; rewrite PositiveMap.gempty; discriminate).
  assert (TI0 : TI toks empty_state) by (intros k r; cbn; rewrite PositiveMap.gempty; discriminate).
  destruct (parse_refines_peg memo toks (parse_fuel (length toks)) Term 0%N empty_state T0) as [A _].
  pose proof (parse_ok memo toks (parse_fuel (length toks)) Term 0%N) as P.
  destruct (P ltac:(unfold mu, parse_fuel, max_rank; cbn [rank]; lia) ltac:(lia) empty_state TI0) as (R & _).
  destruct (parse memo (tokmap_of toks) (length toks) (last_opt toks) (parse_fuel (length toks)) Term 0%N empty_state) as [[|t nx c] s];
    cbn [fst snd] in *; [contradiction|].
  destruct A as [_ AO]. unfold ksuf in AO at 1. cbn [N.to_nat skipn] in AO. destruct (AO _ H) as [[C1 C2] E].
  destruct R as [[_ Rn] _].
  assert (nx = N.of_nat (length toks)).
  { unfold ksuf in E. apply (f_equal (@length _)) in E. rewrite map_length, skipn_length in E. cbn in E. lia. }
  subst nx. rewrite C1. cbn [Nat.eqb negb]. unfold ntoksN. rewrite N.eqb_refl. cbn [negb]. rewrite C2. eauto.
Qed.

Print Assumptions peg_accepts.
