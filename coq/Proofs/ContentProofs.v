(* Content: the syntax tree of an accepted parse carries EXACTLY the content of the input tokens, in order -
   no token is dropped, duplicated, invented or moved.

   `tok_content toks` maps every token to an item: identifiers to their name, integer literals to their value,
   every keyword / operator / brace / colon / `=` / arrow token to its kind, both terminator kinds (line break and
   semicolon) to one separator item; only parentheses map to nothing.  `content t` reads the same items off the
   tree, in order: variables, binder names (where they are written), literals, constants, operators, unary
   minus, `if/then/else`, `=>`, `->`, `:`, `=`, the braces of implicit binders, the separator of a definition.
   The theorem (parsed_tree_content): content t = tok_content toks for the tree t of an accepted token list whose
   identifier tokens spelled `_` have a non-empty byte range (needed: see `hypothesis_needed`); the corollary
   (parser_output_content): the same for the re-associated tree.  For ARBITRARY token lists the same holds for
   every view `filter keep` that hides the colons and the identifiers spelled `_` (parsed_tree_content_any,
   parser_output_content_any; `visible` is the finest such view).

   The proof threads an invariant through the interpreter of the generated skeleton and the memo table, in the
   style of SoundProofs / RangeProofs: a CLEAN result `PRes t nx _` of a call at position p has
   p <= nx and content t = the content of the tokens [p, nx). *)
From Coq Require Import List ZArith NArith Lia Bool Arith PArith FMapPositive.
Import ListNotations.
Require Import Gram.Model.Term Gram.Model.Token Gram.Model.Grammar Gram.Gen.ParserSkeleton Gram.Gen.GrammarY Gram.Model.Parser
               Gram.Model.ParserPost.
Require Import Gram.Proofs.ParserProofs Gram.Proofs.PanicProofs Gram.Proofs.PackratProofs Gram.Proofs.SoundProofs.
Require Gram.Proofs.ReassocProofs.

(* ---------- the items ---------- *)
Inductive citem :=
| CId (x : name)          (* an identifier: a variable occurrence or a binder name *)
| CNum (z : Z)            (* an integer literal *)
| CK (k : tkind)          (* a keyword, constant, operator, brace, colon, `=`, arrow: the token kind *)
| CSep.                   (* a terminator (line break or semicolon) *)

Definition item (t : ptok) : list citem :=
  match pk t with
  | KIdentifier => [CId (pname t)]
  | KIntegerLiteral => [CNum (pz t)]
  | KLeftParen | KRightParen => []
  | KLineBreak | KSemicolon => [CSep]
  | k => [CK k]
  end.
Definition tok_content (toks : list ptok) : list citem := flat_map item toks.

Definition op_kind (o : binop) : tkind :=
  match o with
  | OSum => KPlus | ODiff => KMinus | OProd => KAsterisk | OQuot => KSlash
  | OLt => KLessThan | OLe => KLessThanOrEqualTo | OEq => KDoubleEquals | OGt => KGreaterThan | OGe => KGreaterThanOrEqualTo
  end.

(* the binder of a non-dependent function type `a -> b` is the placeholder `_`, not written in the input; the
   parser locates it at the EMPTY byte range in front of the domain *)
Definition synth (x : name) (xs xe : N) (im : bool) : bool := negb im && name_eqb x placeholder && N.eqb xs xe.

Definition lbrace (im : bool) : list citem := if im then [CK KLeftCurly] else [].
Definition rbrace (im : bool) : list citem := if im then [CK KRightCurly] else [].

Fixpoint content (t : pterm) : list citem :=
  match t with
  | PError _ => []
  | PType _ => [CK KType] | PInt _ => [CK KInteger] | PBool _ => [CK KBoolean]
  | PTrue _ => [CK KTrue] | PFalse _ => [CK KFalse]
  | PVar _ x => [CId x]
  | PLit _ z => [CNum z]
  | PLam _ x _ _ im d b =>
      lbrace im ++ [CId x] ++ match d with Some d => [CK KColon] ++ content d | None => [] end ++ rbrace im
      ++ [CK KThickArrow] ++ content b
  | PPi _ x xs xe im d c =>
      (if synth x xs xe im then content d
       else lbrace im ++ [CId x] ++ [CK KColon] ++ content d ++ rbrace im)
      ++ [CK KThinArrow] ++ content c
  | PApp _ f a => content f ++ content a
  | PLet _ x _ _ an d b =>
      [CId x] ++ match an with Some a => [CK KColon] ++ content a | None => [] end ++ [CK KEquals] ++ content d ++ [CSep] ++ content b
  | PNeg _ a => [CK KMinus] ++ content a
  | PBin _ o a b => content a ++ [CK (op_kind o)] ++ content b
  | PIf _ c t e => [CK KIf] ++ content c ++ [CK KThen] ++ content t ++ [CK KElse] ++ content e
  end.

Lemma content_with_info t i : content (with_info t i) = content t.
Proof. destruct t; reflexivity. Qed.

(* the only assumption on the tokens: an identifier token spelled `_` has a non-empty byte range (every token
   of a real input has; without it the token lists `( _ : a ) -> b` and `a -> b` can have the SAME tree, see
   `hypothesis_needed` below) *)
Definition underscore_ok (t : ptok) : Prop :=
  pk t = KIdentifier -> pname t = placeholder -> ps t <> pe t.
Definition underscores_ok (toks : list ptok) : Prop := Forall underscore_ok toks.

Lemma name_eqb_true x y : name_eqb x y = true -> x = y.
Proof.
  revert y. induction x as [|a x IH]; destruct y as [|b y]; cbn; try discriminate; [reflexivity|].
  intros H. apply andb_prop in H as [H1 H2]. apply N.eqb_eq in H1. subst b. f_equal. apply IH. exact H2.
Qed.

Section Content.
Variable use_memo : bool.
Variable toks : list ptok.
(* the proof is carried out for a VIEW of the items, `filter keep`: either every identifier token spelled `_` has a
   non-empty byte range (then keep may be anything, in particular everything), or the view hides the identifiers
   spelled `_` and the colons (then nothing is assumed of the tokens) *)
Variable keep : citem -> bool.
Hypothesis Hmode : underscores_ok toks \/ (keep (CId placeholder) = false /\ keep (CK KColon) = false).
Notation V := (filter keep).
Let tokmap := tokmap_of toks.
Let ntoks := length toks.
Let last_tok := last_opt toks.
Let NT : N := N.of_nat ntoks.
Notation at' := (at_ tokmap).
Notation is' := (is tokmap).
Notation tok_range' := (tok_range tokmap last_tok).
Notation error_term' := (error_term tokmap last_tok).
Notation silent_error' := (silent_error tokmap last_tok).
Notation choose' := (choose tokmap last_tok).
Notation run' := (run tokmap last_tok).
Notation build' := (build tokmap last_tok).
Notation expect' := (expect tokmap ntoks).
Notation scan' := (scan tokmap).
Notation parse_let' := (parse_let tokmap ntoks last_tok).
Notation parse_if' := (parse_if tokmap ntoks last_tok).
Notation parse_group' := (parse_group tokmap ntoks last_tok).
Notation parse' := (parse use_memo tokmap ntoks last_tok).

Lemma at_nth' p : at' p = nth_error toks (N.to_nat p).
Proof. exact (at_nth toks p). Qed.
Lemma at_lt p t : at' p = Some t -> (p < NT)%N.
Proof. intros H. exact (at_some toks p t H). Qed.
Lemma is_kind' p k : is' p k = true -> exists t, at' p = Some t /\ pk t = k.
Proof. exact (is_kind toks p k). Qed.
Lemma keyword_step' want p conf s t0 : Jt t0 conf -> clean t0 ->
  let r := expect' want p conf s in
  snd (fst r) = 0 ->
  fst (fst (fst r)) = true /\ snd (fst (fst r)) = N.succ p /\ (exists tk, at' p = Some tk /\ want (pk tk) = true).
Proof. exact (keyword_step toks want p conf s t0). Qed.
Lemma expect_here' want p s :
  let r := expect' want p true s in
  snd (fst r) = 0 ->
  fst (fst (fst r)) = true /\ snd (fst (fst r)) = N.succ p /\ (exists t, at' p = Some t /\ want (pk t) = true) /\ tbl (snd r) = tbl s.
Proof. exact (expect_here toks want p s). Qed.
Lemma expect_tbl' want p conf s : tbl (snd (expect' want p conf s)) = tbl s.
Proof. exact (expect_tbl toks want p conf s). Qed.

Lemma at_underscore p t : underscores_ok toks -> at' p = Some t -> underscore_ok t.
Proof.
  intros Hus. rewrite at_nth'. intros H. apply nth_error_In in H. unfold underscores_ok in Hus. rewrite Forall_forall in Hus. auto.
Qed.

(* ---------- the content of the tokens at positions [p, q) ---------- *)
Definition between (p q : N) : list ptok := firstn (N.to_nat q - N.to_nat p) (skipn (N.to_nat p) toks).
Definition seg (p q : N) : list citem := tok_content (between p q).

Lemma seg_refl p : seg p p = [].
Proof. unfold seg, between. now rewrite Nat.sub_diag. Qed.
Lemma seg_app p q r : (p <= q)%N -> (q <= r)%N -> seg p q ++ seg q r = seg p r.
Proof.
  intros H1 H2. unfold seg, between, tok_content. rewrite <- flat_map_app. f_equal.
  replace (N.to_nat r - N.to_nat p) with ((N.to_nat q - N.to_nat p) + (N.to_nat r - N.to_nat q)) by lia.
  rewrite firstn_plus. f_equal. rewrite skipn_plus. f_equal. f_equal. lia.
Qed.
Lemma seg_single p t : at' p = Some t -> seg p (N.succ p) = item t.
Proof.
  rewrite at_nth'. intros H. unfold seg, between. replace (N.to_nat (N.succ p) - N.to_nat p) with 1 by lia.
  remember (N.to_nat p) as i. clear Heqi. revert i H. clear. induction toks as [|x l IH]; intros [|i] H; cbn in *; try discriminate.
  - injection H as ->. destruct l; cbn; now rewrite app_nil_r.
  - now apply IH.
Qed.
Lemma seg_snoc start p t : at' p = Some t -> (start <= p)%N -> seg start (N.succ p) = seg start p ++ item t.
Proof. intros A L. rewrite <- (seg_app start p (N.succ p)) by lia. now rewrite (seg_single p t A). Qed.
Lemma seg_all : seg 0 NT = tok_content toks.
Proof.
  unfold seg, between, NT, ntoks. cbn [N.to_nat skipn]. rewrite Nat.sub_0_r, Nat2N.id, firstn_all. reflexivity.
Qed.

(* the items of a token of a known kind *)
Lemma item_kind t k : pk t = k ->
  item t = match k with
           | KIdentifier => [CId (pname t)]
           | KIntegerLiteral => [CNum (pz t)]
           | KLeftParen | KRightParen => []
           | KLineBreak | KSemicolon => [CSep]
           | k => [CK k]
           end.
Proof. intros <-. unfold item. destruct (pk t); reflexivity. Qed.

(* ---------- the invariant ---------- *)
Definition ContR (p : N) (r : pres) : Prop :=
  match r with
  | PFuel => True
  | PRes t nx _ => clean t -> (p <= nx)%N /\ V (content t) = V (seg p nx)
  end.
Definition TC (s : mstate) : Prop := forall n p r, PositiveMap.find (key n p) (tbl s) = Some r -> ContR p r.

Definition CRecOK (rec : mrec) : Prop := forall n p s, TJ s -> TC s ->
  J (fst (rec n p s)) /\ TJ (snd (rec n p s)) /\ ContR p (fst (rec n p s)) /\ TC (snd (rec n p s)).

Lemma ContR_error p q c : ContR p (PRes (error_term' q) q c).
Proof. intros H. now apply not_clean_error in H. Qed.
Lemma TC_same_tbl s s' : tbl s' = tbl s -> TC s -> TC s'.
Proof. intros E T n p r. rewrite E. apply T. Qed.

(* ---------- what `build` does with the content of what was collected ---------- *)
Definition child_items (c : child) : list citem :=
  match c with
  | CTok p => match at' p with Some t => item t | None => [] end
  | CTerm t => content t
  end.
(* the collected children are what the steps of the function ask for *)
Definition match_step (st : pstep) (c : child) : Prop :=
  match st, c with
  | SConsume k, CTok p => is' p k = true
  | STry _, CTerm _ | SCommit _, CTerm _ => True
  | _, _ => False
  end.

Lemma tok_items p k : is' p k = true ->
  exists t, at' p = Some t /\ pk t = k /\ child_items (CTok p) = item t /\ tok_name tokmap p = pname t /\ tok_z tokmap p = pz t
            /\ tok_range' p = (ps t, pe t).
Proof.
  intros H. destruct (is_kind' _ _ H) as (t & A & K). exists t. unfold child_items, tok_name, tok_z, tok_range. rewrite A. auto 7.
Qed.

Lemma synth_placeholder s : synth placeholder s s false = true.
Proof. unfold synth. cbn. apply N.eqb_refl. Qed.
Lemma synth_token t im : underscore_ok t -> pk t = KIdentifier -> synth (pname t) (ps t) (pe t) im = false.
Proof.
  intros U K. unfold synth. destruct im; [reflexivity|]. cbn [negb andb].
  destruct (name_eqb (pname t) placeholder) eqn:E; [|reflexivity]. apply name_eqb_true in E.
  cbn [andb]. apply N.eqb_neq. apply U; assumption.
Qed.

Lemma build_content n cs t : build' n cs = Some t ->
  match skel_fast n with FSeq full => Forall2 match_step full cs | _ => False end ->
  V (content t) = V (flat_map child_items cs).
Proof.
  unfold build. intros H F.
  destruct n; try discriminate H; vm_compute skel_fast in F; try contradiction;
  repeat (match type of H with
          | match ?l with [] => _ | _ :: _ => _ end = Some _ => destruct l as [|[?p|?u] ?cs]; try discriminate H
          end);
  repeat (match goal with
          | F : Forall2 _ _ (_ :: _) |- _ => inversion F; subst; clear F
          | F : Forall2 _ _ [] |- _ => clear F
          end);
  repeat (match goal with
          | M : match_step (SConsume _) (CTok _) |- _ =>
              cbn [match_step] in M; apply tok_items in M; destruct M as (? & ? & ? & ? & ? & ? & ?)
          | M : match_step _ (CTerm _) |- _ => clear M
          end).
  all: repeat (match type of H with (let '(_, _) := ?e in _) = Some _ => destruct e eqn:? end).
  all: injection H as <-.
  all: cbn [flat_map content app].
  all: repeat (match goal with E : child_items (CTok _) = _ |- _ => rewrite E; clear E end).
  all: repeat (match goal with K : pk ?t = _ |- _ => rewrite (item_kind t _ K) end).
  all: cbn [child_items lbrace rbrace app op_kind]; rewrite ?app_nil_r; try (f_equal; congruence).
  - (* Pi: a written binder; it is told from the placeholder by its non-empty range, or hidden if it is `_` *)
    match goal with E : (_, _) = (ps ?t, pe ?t), A : at' _ = Some ?t, K : pk ?t = KIdentifier, Nm : tok_name _ _ = pname ?t |- _ =>
      injection E as -> ->; rewrite Nm; destruct Hmode as [Hus | [K1 K2]];
      [ rewrite (synth_token t false (at_underscore _ _ Hus A) K); reflexivity
      | destruct (synth (pname t) (ps t) (pe t) false) eqn:Sy; [|reflexivity];
        unfold synth in Sy; cbn [negb andb] in Sy; apply andb_prop in Sy as [Sy _]; apply name_eqb_true in Sy; rewrite Sy;
        cbn [filter]; rewrite K1, K2; reflexivity ] end.
  - match goal with Nm : tok_name _ ?p = pname ?t |- context [synth (tok_name _ ?p) _ _ true] => rewrite Nm end.
    unfold synth. cbn [negb andb app]. rewrite <- app_assoc. reflexivity.
  - change [95%N] with placeholder. rewrite synth_placeholder. reflexivity.
Qed.

Section BodyContent.
Variable rec : mrec.
Hypothesis HRec : CRecOK rec.

Lemma choose_content p : forall alts s, TJ s -> TC s ->
  ContR p (fst (choose' rec p alts s)) /\ TJ (snd (choose' rec p alts s)) /\ TC (snd (choose' rec p alts s)).
Proof.
  induction alts as [|a r IH]; intros s T1 T2; cbn [choose].
  - split; [apply ContR_error | split; assumption].
  - destruct (HRec a p s T1 T2) as (Ja & T1' & Sa & T2'). destruct (rec a p s) as [[|t nx c] s']; cbn [fst snd] in *; [repeat split; auto|].
    destruct (is_perror t) eqn:P.
    + apply IH; auto.
    + split; [exact Sa | split; assumption].
Qed.

Lemma Forall2_snoc {A B} (R : A -> B -> Prop) l l' a b : Forall2 R l l' -> R a b -> Forall2 R (l ++ [a]) (l' ++ [b]).
Proof. intros H1 H2. apply Forall2_app; [exact H1 | constructor; [exact H2 | constructor]]. Qed.

Lemma run_content n start full : skel_fast n = FSeq full ->
  forall steps done cur acc conf s, full = done ++ steps -> TJ s -> TC s ->
  (clean_acc acc -> (start <= cur)%N /\ V (flat_map child_items (rev acc)) = V (seg start cur) /\ Forall2 match_step done (rev acc)) ->
  let out := run' rec n steps cur acc conf s in
  ContR start (fst out) /\ TJ (snd out) /\ TC (snd out).
Proof.
  intros Hfull. induction steps as [|st steps IH]; intros done cur acc conf s E T1 T2 Inv; cbv zeta; cbn [run].
  - cbn [fst snd]. split; [|split; assumption]. destruct (build' n (rev acc)) as [t|] eqn:B; [|apply ContR_error].
    intros [C1 C2]. pose proof (build_facts _ _ _ _ _ B) as [B1 B2].
    assert (CA : clean_acc acc) by (apply clean_acc_rev; split; congruence).
    destruct (Inv CA) as (Hpos & Hc & Hm). split; [exact Hpos|]. rewrite app_nil_r in E. subst done.
    rewrite <- Hc. apply (build_content _ _ _ B). rewrite Hfull. exact Hm.
  - destruct st as [k|m|m].
    + destruct (is' cur k) eqn:K; [|split; [apply ContR_error | split; assumption]].
      destruct (is_kind' _ _ K) as (t & At & Pk).
      apply (IH (done ++ [SConsume k])); auto.
      * rewrite <- app_assoc. exact E.
      * intros CA. apply clean_acc_cons_tok in CA. destruct (Inv CA) as (Hpos & Hc & Hm). split; [lia|]. cbn [rev]. split.
        -- rewrite flat_map_app, filter_app, Hc, <- filter_app. f_equal. cbn [flat_map child_items]. rewrite At, app_nil_r. symmetry. now apply seg_snoc.
        -- apply Forall2_snoc; [exact Hm | exact K].
    + destruct (HRec m cur s T1 T2) as (Jm & T1' & Sm & T2'). destruct (rec m cur s) as [[|t nx c] s']; cbn [fst snd] in *; [repeat split; auto|].
      destruct (is_perror t) eqn:P.
      * split; [|split; assumption]. intros C. apply clean_not_perror in C. congruence.
      * apply (IH (done ++ [STry m])); auto.
        -- rewrite <- app_assoc. exact E.
        -- intros CA. apply (clean_acc_cons_term toks) in CA as [Ct CA]. destruct (Inv CA) as (Hpos & Hc & Hm). destruct (Sm Ct) as [Hnx Cm].
           split; [lia|]. cbn [rev]. split.
           ++ rewrite flat_map_app, filter_app, Hc. cbn [flat_map child_items]. rewrite app_nil_r, Cm, <- filter_app. f_equal. apply seg_app; lia.
           ++ apply Forall2_snoc; [exact Hm | exact I].
    + destruct (HRec m cur s T1 T2) as (Jm & T1' & Sm & T2'). destruct (rec m cur s) as [[|t nx c] s']; cbn [fst snd] in *; [repeat split; auto|].
      apply (IH (done ++ [SCommit m])); auto.
      * rewrite <- app_assoc. exact E.
      * intros CA. apply (clean_acc_cons_term toks) in CA as [Ct CA]. destruct (Inv CA) as (Hpos & Hc & Hm). destruct (Sm Ct) as [Hnx Cm].
        split; [lia|]. cbn [rev]. split.
        -- rewrite flat_map_app, filter_app, Hc. cbn [flat_map child_items]. rewrite app_nil_r, Cm, <- filter_app. f_equal. apply seg_app; lia.
        -- apply Forall2_snoc; [exact Hm | exact I].
Qed.

(* a sub-parse, or a silent error when its keyword was not found *)
Lemma sub_content (found : bool) p s : TJ s -> TC s ->
  let x := (if found then rec Term p else ret (PRes (silent_error' p) p false)) in
  match fst (x s) with
  | PFuel => True
  | PRes t nx c => (clean t -> found = true /\ (p <= nx)%N /\ V (content t) = V (seg p nx)) /\ (found = true -> Jt t c)
  end /\ TJ (snd (x s)) /\ TC (snd (x s)).
Proof.
  intros T1 T2. destruct found; cbv zeta.
  - destruct (HRec Term p s T1 T2) as (Jr & T1' & Sr & T2'). split; [|split; assumption].
    destruct (fst (rec Term p s)) as [|t nx c]; [exact I|]. split; [intros C; split; [reflexivity | exact (Sr C)] | intros _; exact Jr].
  - cbn. split; [|split; assumption]. split; [intros C; now apply not_clean_silent in C | discriminate].
Qed.

Lemma bind_content (start : N) (x : M pres) k s (Pmid : pterm -> N -> bool -> Prop) :
  (match fst (x s) with PFuel => True | PRes t nx c => Pmid t nx c end /\ TJ (snd (x s)) /\ TC (snd (x s))) ->
  (forall t nx c s', Pmid t nx c -> TJ s' -> TC s' ->
     ContR start (fst (k t nx c s')) /\ TJ (snd (k t nx c s')) /\ TC (snd (k t nx c s'))) ->
  ContR start (fst (bindP x k s)) /\ TJ (snd (bindP x k s)) /\ TC (snd (bindP x k s)).
Proof.
  intros (Px & T1 & T2) Hk. unfold bindP. destruct (x s) as [[|t nx c] s']; cbn [fst snd] in *; [repeat split; auto|].
  apply Hk; assumption.
Qed.

Lemma rec_content m p s : TJ s -> TC s ->
  match fst (rec m p s) with PFuel => True | PRes t nx c => (clean t -> (p <= nx)%N /\ V (content t) = V (seg p nx)) /\ Jt t c end
  /\ TJ (snd (rec m p s)) /\ TC (snd (rec m p s)).
Proof.
  intros T1 T2. destruct (HRec m p s T1 T2) as (Jr & T1' & Sr & T2'). split; [|split; assumption].
  destruct (fst (rec m p s)) as [|t nx c]; [exact I | split; assumption].
Qed.

Lemma want_kind_eq k k' : want_kind k k' = true -> k' = k.
Proof. unfold want_kind. intros H. apply tkind_eqb_eq in H. congruence. Qed.
Lemma want_terminator_item t : want_terminator (pk t) = true -> item t = [CSep].
Proof.
  unfold want_terminator. intros H. apply orb_prop in H as [H|H]; apply tkind_eqb_eq in H; unfold item; rewrite H; reflexivity.
Qed.

Lemma parse_group_content start s : TJ s -> TC s ->
  ContR start (fst (parse_group' rec start s)) /\ TJ (snd (parse_group' rec start s)) /\ TC (snd (parse_group' rec start s)).
Proof.
  intros T1 T2. unfold parse_group. destruct (is' start KLeftParen) eqn:K; cbn [negb]; [|split; [apply ContR_error | split; assumption]].
  destruct (is_kind' _ _ K) as (t0 & A0 & K0).
  apply (bind_content start _ _ _ (fun t nx c => (clean t -> (N.succ start <= nx)%N /\ V (content t) = V (seg (N.succ start) nx)) /\ Jt t c));
    [apply rec_content; assumption|].
  intros t p1 c s1 [St Jt1] T1' T2'. destruct (is_perror t) eqn:P.
  - cbn. split; [|split; assumption]. intros C. apply clean_not_perror in C. congruence.
  - pose proof (expect_facts tokmap ntoks (want_kind KRightParen) p1 c s1) as [Et _]. cbv zeta in Et.
    pose proof (expect_here' (want_kind KRightParen) p1 s1) as EH. cbv zeta in EH.
    destruct c.
    + destruct (expect' (want_kind KRightParen) p1 true s1) as [[[found p2] phony] s2]. cbn [fst snd] in *.
      destruct (tok_range' start) as [gs ge0] eqn:R0. destruct (tok_range' (N.pred p2)) as [gs1 ge] eqn:R1.
      cbn [fst snd]. split; [|split; [exact (TJ_same_tbl _ _ Et T1') | exact (TC_same_tbl _ _ Et T2')]].
      intros [C1 C2]. pose proof (nerrs_with_info t (mk gs ge true (pnerr (info t) + (if found then phony else 1))) P) as Nw. cbn [pnerr mk] in Nw.
      rewrite (has_error_with_info _ _ P) in C2.
      assert (found = true /\ phony = 0 /\ nerrs t = 0) as (-> & -> & Nt) by (destruct found; lia).
      destruct (EH eq_refl) as (_ & -> & (t1 & A1 & W1) & _).
      destruct (St (conj Nt C2)) as [L1 Ct]. apply want_kind_eq in W1.
      split; [lia|]. rewrite content_with_info, Ct. f_equal.
      rewrite <- (seg_app start (N.succ start) (N.succ p1)) by lia. rewrite (seg_single _ _ A0), (item_kind _ _ K0).
      rewrite (seg_snoc _ _ _ A1) by lia. rewrite (item_kind _ _ W1). cbn [app]. now rewrite app_nil_r.
    + destruct (expect' (want_kind KRightParen) p1 false s1) as [[[found p2] phony] s2]. cbn [fst snd] in *.
      destruct (tok_range' start) as [gs ge0]. destruct (tok_range' (N.pred p2)) as [gs1 ge].
      cbn [fst snd]. split; [|split; [exact (TJ_same_tbl _ _ Et T1') | exact (TC_same_tbl _ _ Et T2')]].
      intros [C1 C2]. pose proof (nerrs_with_info t (mk gs ge true (pnerr (info t) + (if found then phony else 1))) P) as Nw. cbn [pnerr mk] in Nw.
      destruct Jt1 as [J1 _]. specialize (J1 eq_refl). lia.
Qed.

Lemma parse_if_content start s : TJ s -> TC s ->
  ContR start (fst (parse_if' rec start s)) /\ TJ (snd (parse_if' rec start s)) /\ TC (snd (parse_if' rec start s)).
Proof.
  intros T1 T2. unfold parse_if. destruct (is' start KIf) eqn:K; cbn [negb]; [|split; [apply ContR_error | split; assumption]].
  destruct (is_kind' _ _ K) as (t0 & A0 & K0).
  destruct (tok_range' start) as [is_ ie] eqn:R0.
  apply (bind_content start _ _ _ (fun t nx c => (clean t -> (N.succ start <= nx)%N /\ V (content t) = V (seg (N.succ start) nx)) /\ Jt t c));
    [apply rec_content; assumption|].
  intros c p1 cconf s1 [Sc Jc] T1a T2a.
  pose proof (keyword_step' (want_kind KThen) p1 cconf s1 c Jc) as KS1. cbv zeta in KS1.
  pose proof (expect_tbl' (want_kind KThen) p1 cconf s1) as Et1.
  destruct (expect' (want_kind KThen) p1 cconf s1) as [[[found_then p2] e1] s2]. cbn [fst snd] in *.
  apply (bind_content start _ _ _ (fun t nx tc => (clean t -> found_then = true /\ (p2 <= nx)%N /\ V (content t) = V (seg p2 nx)) /\ (found_then = true -> Jt t tc)));
    [apply sub_content; [exact (TJ_same_tbl _ _ Et1 T1a) | exact (TC_same_tbl _ _ Et1 T2a)]|].
  intros t p3 tconf s3 [St Jtt] T1b T2b.
  assert (KS2 : clean t -> let r := expect' (want_kind KElse) p3 tconf s3 in snd (fst r) = 0 ->
            fst (fst (fst r)) = true /\ snd (fst (fst r)) = N.succ p3 /\ (exists tk, at' p3 = Some tk /\ want_kind KElse (pk tk) = true)).
  { intros Ct. destruct (St Ct) as (F & _). apply keyword_step' with (t0 := t); [apply Jtt; exact F | exact Ct]. }
  pose proof (expect_tbl' (want_kind KElse) p3 tconf s3) as Et2.
  destruct (expect' (want_kind KElse) p3 tconf s3) as [[[found_else p4] e2] s4]. cbn [fst snd] in *.
  apply (bind_content start _ _ _ (fun t nx tc => (clean t -> found_else = true /\ (p4 <= nx)%N /\ V (content t) = V (seg p4 nx)) /\ (found_else = true -> Jt t tc)));
    [apply sub_content; [exact (TJ_same_tbl _ _ Et2 T1b) | exact (TC_same_tbl _ _ Et2 T2b)]|].
  intros e p5 econf s5 [Se _] T1c T2c. cbn [ret fst snd]. split; [|split; assumption].
  intros [C1 C2]. cbn [nerrs has_error_node info pnerr mk] in C1, C2.
  apply orb_false_elim in C2 as [C2 Ce]. apply orb_false_elim in C2 as [Cc Ct].
  assert (CC : clean c) by (split; [lia | exact Cc]). assert (CT : clean t) by (split; [lia | exact Ct]). assert (CE : clean e) by (split; [lia | exact Ce]).
  destruct (Sc CC) as [Lc Fc]. destruct (St CT) as (_ & Lt & Ft). destruct (Se CE) as (_ & Le & Fe).
  destruct (KS1 CC ltac:(lia)) as (_ & -> & (tk1 & Ak1 & Wk1)).
  destruct (KS2 CT ltac:(lia)) as (_ & -> & (tk2 & Ak2 & Wk2)).
  apply want_kind_eq in Wk1. apply want_kind_eq in Wk2.
  split; [lia|].
  assert (Sg : seg start p5 = [CK KIf] ++ seg (N.succ start) p1 ++ [CK KThen] ++ seg (N.succ p1) p3 ++ [CK KElse] ++ seg (N.succ p3) p5).
  { rewrite <- (seg_app start (N.succ start) p5) by lia. rewrite (seg_single _ _ A0), (item_kind _ _ K0). f_equal.
    rewrite <- (seg_app (N.succ start) p1 p5) by lia. f_equal.
    rewrite <- (seg_app p1 (N.succ p1) p5) by lia. rewrite (seg_single _ _ Ak1), (item_kind _ _ Wk1). f_equal.
    rewrite <- (seg_app (N.succ p1) p3 p5) by lia. f_equal.
    rewrite <- (seg_app p3 (N.succ p3) p5) by lia. rewrite (seg_single _ _ Ak2), (item_kind _ _ Wk2). reflexivity. }
  rewrite Sg. cbn [content]. rewrite !filter_app, Fc, Ft, Fe. reflexivity.
Qed.

(* the items in front of the definition of a let: `x =`, or `x : a =` *)
Definition let_head (x : name) (ann : option pterm) : list citem :=
  [CId x] ++ match ann with Some a => [CK KColon] ++ content a | None => [] end ++ [CK KEquals].

Lemma let_tail_content start x xs xe ann (eq_found : bool) p3 e1 s :
  TJ s -> TC s ->
  (e1 = 0 -> ann_clean ann -> eq_found = true -> (start <= p3)%N /\ V (seg start p3) = V (let_head x ann)) ->
  let r := bindP (if eq_found then rec Term p3 else ret (PRes (silent_error' p3) p3 false)) (fun d p4 dconf =>
        fun s =>
        let '((t_found, p5, e2), s1) := expect' want_terminator p4 dconf s in
        bindP (if t_found then rec Term p5 else ret (PRes (silent_error' p5) p5 false)) (fun b p6 bconf =>
          ret (PRes (PLet (mk xs (pre (info b)) false (e1 + e2)) x xs xe ann d b) p6 bconf)) s1) s in
  ContR start (fst r) /\ TJ (snd r) /\ TC (snd r).
Proof.
  intros T1 T2 Pre. cbv zeta.
  apply (bind_content start _ _ _ (fun t nx tc => (clean t -> eq_found = true /\ (p3 <= nx)%N /\ V (content t) = V (seg p3 nx)) /\ (eq_found = true -> Jt t tc)));
    [apply sub_content; assumption|].
  intros d p4 dconf s2 [Sd Jd] T1a T2a.
  assert (KS : clean d -> let r := expect' want_terminator p4 dconf s2 in snd (fst r) = 0 ->
            fst (fst (fst r)) = true /\ snd (fst (fst r)) = N.succ p4 /\ (exists tk, at' p4 = Some tk /\ want_terminator (pk tk) = true)).
  { intros Cd. destruct (Sd Cd) as (F & _). apply keyword_step' with (t0 := d); [apply Jd; exact F | exact Cd]. }
  pose proof (expect_tbl' want_terminator p4 dconf s2) as Et.
  destruct (expect' want_terminator p4 dconf s2) as [[[t_found p5] e2] s3]. cbn [fst snd] in *.
  apply (bind_content start _ _ _ (fun t nx tc => (clean t -> t_found = true /\ (p5 <= nx)%N /\ V (content t) = V (seg p5 nx)) /\ (t_found = true -> Jt t tc)));
    [apply sub_content; [exact (TJ_same_tbl _ _ Et T1a) | exact (TC_same_tbl _ _ Et T2a)]|].
  intros b p6 bconf s4 [Sb _] T1b T2b. cbn [ret fst snd]. split; [|split; assumption].
  intros [C1 C2]. cbn [nerrs has_error_node info pnerr mk] in C1, C2.
  apply orb_false_elim in C2 as [C2 Cb]. apply orb_false_elim in C2 as [Ca Cd].
  assert (CD : clean d) by (split; [lia | exact Cd]). assert (CB : clean b) by (split; [lia | exact Cb]).
  assert (CA : ann_clean ann) by (destruct ann as [a|]; [split; [lia | exact Ca] | exact I]).
  destruct (Sd CD) as (F & Ld & Fd). destruct (Sb CB) as (_ & Lb & Fb).
  destruct (Pre ltac:(lia) CA F) as [Hp3 Hh].
  destruct (KS CD ltac:(lia)) as (_ & -> & (tk & Ak & Wk)).
  apply want_terminator_item in Wk.
  split; [lia|].
  transitivity (V (let_head x ann ++ content d ++ [CSep] ++ content b)).
  { f_equal. unfold let_head. cbn [content]. rewrite <- !app_assoc. reflexivity. }
  assert (Sg : seg start p6 = seg start p3 ++ seg p3 p4 ++ [CSep] ++ seg (N.succ p4) p6).
  { rewrite <- Wk, <- (seg_single _ _ Ak).
    rewrite (seg_app p4 (N.succ p4) p6) by lia. rewrite (seg_app p3 p4 p6) by lia. symmetry. apply seg_app; lia. }
  rewrite Sg, !filter_app, <- Hh, Fd, Fb. reflexivity.
Qed.

Lemma parse_let_content start s : TJ s -> TC s ->
  ContR start (fst (parse_let' rec start s)) /\ TJ (snd (parse_let' rec start s)) /\ TC (snd (parse_let' rec start s)).
Proof.
  intros T1 T2. unfold parse_let. destruct (is' start KIdentifier) eqn:K; cbn [negb]; [|split; [apply ContR_error | split; assumption]].
  destruct (is_kind' _ _ K) as (t0 & A0 & K0).
  assert (Nm : tok_name tokmap start = pname t0) by (unfold tok_name; now rewrite A0).
  destruct (tok_range' start) as [xs xe] eqn:R0.
  destruct (is' (N.succ start) KColon) eqn:C.
  - destruct (is_kind' _ _ C) as (t1 & A1 & K1).
    apply (bind_content start _ _ _ (fun t nx c => (clean t -> (N.succ (N.succ start) <= nx)%N /\ V (content t) = V (seg (N.succ (N.succ start)) nx)) /\ Jt t c));
      [apply rec_content; assumption|].
    intros a p2 c s1 [Sa Ja] T1a T2a. destruct (is_perror a) eqn:P.
    + cbn. split; [|split; assumption]. intros Cl. apply clean_not_perror in Cl. congruence.
    + pose proof (keyword_step' (want_kind KEquals) p2 c s1 a Ja) as KS. cbv zeta in KS.
      pose proof (expect_tbl' (want_kind KEquals) p2 c s1) as Et.
      destruct (expect' (want_kind KEquals) p2 c s1) as [[[eq_found p3] e1] s2]. cbn [fst snd] in *.
      apply (let_tail_content start (tok_name tokmap start) xs xe (Some a) eq_found p3 e1 s2
               (TJ_same_tbl _ _ Et T1a) (TC_same_tbl _ _ Et T2a)).
      intros -> Ca _. cbn [ann_clean] in Ca. destruct (Sa Ca) as [La Fa].
      destruct (KS Ca eq_refl) as (_ & -> & (tk & Ak & Wk)). apply want_kind_eq in Wk.
      split; [lia|]. unfold let_head. rewrite Nm.
      assert (Sg : seg start (N.succ p2) = [CId (pname t0)] ++ ([CK KColon] ++ seg (N.succ (N.succ start)) p2) ++ [CK KEquals]).
      { rewrite (seg_snoc _ _ _ Ak) by lia. rewrite (item_kind _ _ Wk).
        rewrite <- (seg_app start (N.succ start) p2) by lia. rewrite (seg_single _ _ A0), (item_kind _ _ K0).
        rewrite <- (seg_app (N.succ start) (N.succ (N.succ start)) p2) by lia. rewrite (seg_single _ _ A1), (item_kind _ _ K1).
        rewrite <- !app_assoc. reflexivity. }
      rewrite Sg, !filter_app, Fa. reflexivity.
  - destruct (is' (N.succ start) KEquals) eqn:E; [|split; [apply ContR_error | split; assumption]].
    destruct (is_kind' _ _ E) as (t1 & A1 & K1).
    refine (let_tail_content start (tok_name tokmap start) xs xe None true (N.succ (N.succ start)) 0 s T1 T2 _).
    intros _ _ _. split; [lia|]. f_equal. unfold let_head. rewrite Nm.
    rewrite (seg_snoc _ _ _ A1) by lia. rewrite (item_kind _ _ K1), (seg_single _ _ A0), (item_kind _ _ K0). reflexivity.
Qed.
End BodyContent.

(* ---------- every call, through the memo table ---------- *)
Lemma parse_content_rec : forall fuel, CRecOK (parse' fuel).
Proof.
  induction fuel as [|f IH]; intros n p s T1 T2.
  { cbn. repeat split; auto. }
  destruct (parse_good use_memo tokmap ntoks last_tok (S f) n p s T1) as [Jr T1r].
  split; [exact Jr|]. split; [exact T1r|]. clear Jr T1r.
  cbn [parse].
  destruct (if use_memo && memoised_fast n then PositiveMap.find (key n p) (tbl s) else None) as [r|] eqn:Hit.
  - cbn [fst snd]. split; [|exact T2]. destruct (use_memo && memoised_fast n); [exact (T2 _ _ _ Hit) | discriminate].
  - set (s0 := {| tbl := tbl s; misses := S (misses s); scans := scans s |}).
    assert (T10 : TJ s0) by exact T1. assert (T20 : TC s0) by exact T2.
    assert (B : forall x : M pres, (ContR p (fst (x s0)) /\ TJ (snd (x s0)) /\ TC (snd (x s0))) ->
              ContR p (fst (let '(r, s') := x s0 in (r, if use_memo && memoised_fast n
                   then {| tbl := PositiveMap.add (key n p) r (tbl s'); misses := misses s'; scans := scans s' |} else s'))) /\
              TC (snd (let '(r, s') := x s0 in (r, if use_memo && memoised_fast n
                   then {| tbl := PositiveMap.add (key n p) r (tbl s'); misses := misses s'; scans := scans s' |} else s')))).
    { intros x (Sx & _ & Tx). destruct (x s0) as [r s']. cbn [fst snd] in *. split; [exact Sx|].
      destruct (use_memo && memoised_fast n); [|exact Tx].
      intros m q r0. cbn [tbl]. rewrite PositiveMapAdditionalFacts.gsspec.
      destruct (PositiveMap.E.eq_dec (key m q) (key n p)) as [E|_]; [|apply Tx].
      apply (key_inj toks) in E as [-> ->]. intros [= <-]. exact Sx. }
    destruct (skel_fast n) as [alts|steps|] eqn:SK.
    + apply (B (choose' (parse' f) p alts)). apply (choose_content (parse' f) IH); auto.
    + apply (B (run' (parse' f) n steps p [] true)).
      apply (run_content (parse' f) IH n p steps SK steps [] p [] true s0 eq_refl T10 T20).
      intros _. split; [lia|]. split; [now rewrite seg_refl | constructor].
    + destruct n;
        first [ apply (B (parse_group' (parse' f) p)); now apply parse_group_content
              | apply (B (parse_let' (parse' f) p)); now apply parse_let_content
              | apply (B (parse_if' (parse' f) p)); now apply parse_if_content
              | apply (B (ret (PRes (error_term' p) p false))); cbn [ret fst snd]; split; [apply ContR_error | split; assumption] ].
Qed.
End Content.

(* ---------- statements over the token list ---------- *)
(* the content of the tokens at positions [p, q) of the list *)
Definition tok_content_between (toks : list ptok) (p q : nat) : list citem := tok_content (firstn (q - p) (skipn p toks)).

(* the two ways to use the invariant: all items, for tokens whose `_` identifiers have non-empty ranges ... *)
Definition everything : citem -> bool := fun _ => true.
(* ... or, for arbitrary tokens, all items but the colons and the identifiers spelled `_` *)
Definition hides_underscores (keep : citem -> bool) : Prop := keep (CId placeholder) = false /\ keep (CK KColon) = false.
Definition visible (c : citem) : bool :=
  match c with
  | CId x => negb (name_eqb x placeholder)
  | CK KColon => false
  | _ => true
  end.
Lemma visible_hides : hides_underscores visible.
Proof. split; reflexivity. Qed.
Definition mode_ok (toks : list ptok) (keep : citem -> bool) : Prop := underscores_ok toks \/ hides_underscores keep.

Lemma filter_everything {A} (l : list A) : filter (fun _ => true) l = l.
Proof. induction l as [|a l IH]; [reflexivity|]. cbn. now rewrite IH. Qed.

Lemma TC_empty toks keep : TC toks keep empty_state.
Proof. intros n p r. cbn. rewrite PositiveMap.gempty. discriminate. Qed.

(* every call of the parser (any nonterminal, any position, any reachable memo table): the tree of a clean
   result carries exactly the content of the tokens the call consumed *)
Theorem call_content : forall memo toks keep, mode_ok toks keep -> forall fuel n p s, TJ s -> TC toks keep s ->
  match fst (parse memo (tokmap_of toks) (length toks) (last_opt toks) fuel n p s) with
  | PFuel => True
  | PRes t nx _ => clean t -> N.to_nat p <= N.to_nat nx /\
                   filter keep (content t) = filter keep (tok_content_between toks (N.to_nat p) (N.to_nat nx))
  end /\ TJ (snd (parse memo (tokmap_of toks) (length toks) (last_opt toks) fuel n p s))
      /\ TC toks keep (snd (parse memo (tokmap_of toks) (length toks) (last_opt toks) fuel n p s)).
Proof.
  intros memo toks keep U fuel n p s T1 T2.
  destruct (parse_content_rec memo toks keep U fuel n p s T1 T2) as (_ & T1' & R & T2').
  split; [|split; assumption].
  destruct (fst (parse memo (tokmap_of toks) (length toks) (last_opt toks) fuel n p s)) as [|t nx c]; [exact I|].
  intros C. destruct (R C) as [L E]. split; [lia | exact E].
Qed.

(* the same for the entries of the memo table *)
Theorem table_content : forall toks keep s, TC toks keep s -> forall n p t nx c,
  PositiveMap.find (key n p) (tbl s) = Some (PRes t nx c) -> clean t ->
  N.to_nat p <= N.to_nat nx /\ filter keep (content t) = filter keep (tok_content_between toks (N.to_nat p) (N.to_nat nx)).
Proof. intros toks keep s T n p t nx c H C. destruct (T n p _ H C) as [L E]. split; [lia | exact E]. Qed.

(* ---------- whole inputs ---------- *)
Lemma stage1_clean toks memo t : fst (fst (parse_stage1 toks memo)) = S1Tree t -> has_error_node t = false.
Proof.
  unfold parse_stage1, parse_stage1_.
  destruct (parse memo (tokmap_of toks) (length toks) (last_opt toks) (parse_fuel (length toks)) Term 0%N empty_state) as [[|t' nx c] s];
    cbn [fst snd]; [discriminate|].
  destruct (Nat.eqb (nerrs t') 0); cbn [negb]; [|discriminate].
  destruct (N.eqb nx (ntoksN (length toks))); cbn [negb]; [|discriminate].
  destruct (has_error_node t') eqn:He; [discriminate|]. intros [= <-]. exact He.
Qed.

Lemma parsed_tree_content_view : forall toks keep memo t, mode_ok toks keep ->
  fst (fst (parse_stage1 toks memo)) = S1Tree t -> filter keep (content t) = filter keep (tok_content toks).
Proof.
  intros toks keep memo t U. unfold parse_stage1, parse_stage1_.
  assert (T1 : TJ empty_state) by apply TJ_empty.
  destruct (parse_content_rec memo toks keep U (parse_fuel (length toks)) Term 0%N empty_state T1 (TC_empty toks keep)) as (_ & _ & S & _).
  destruct (parse memo (tokmap_of toks) (length toks) (last_opt toks) (parse_fuel (length toks)) Term 0%N empty_state) as [[|t' nx c] s];
    cbn [fst snd] in *; [discriminate|].
  destruct (Nat.eqb (nerrs t') 0) eqn:Z; cbn [negb]; [|discriminate].
  destruct (N.eqb nx (ntoksN (length toks))) eqn:Enx; cbn [negb]; [|discriminate].
  destruct (has_error_node t') eqn:He; [discriminate|]. intros [= <-].
  apply Nat.eqb_eq in Z. apply N.eqb_eq in Enx. unfold ntoksN in Enx. subst nx.
  destruct (S (conj Z He)) as [_ E]. rewrite E. f_equal. apply seg_all.
Qed.

(* the tree of an accepted token list carries exactly the content of the tokens, in order *)
Theorem parsed_tree_content : forall toks memo t, underscores_ok toks ->
  fst (fst (parse_stage1 toks memo)) = S1Tree t -> content t = tok_content toks.
Proof.
  intros toks memo t U H. pose proof (parsed_tree_content_view toks everything memo t (or_introl U) H) as E.
  unfold everything in E. now rewrite !filter_everything in E.
Qed.

(* without any assumption on the tokens: the same for every view that hides the colons and the identifiers spelled `_` *)
Theorem parsed_tree_content_any : forall toks memo t keep, hides_underscores keep ->
  fst (fst (parse_stage1 toks memo)) = S1Tree t -> filter keep (content t) = filter keep (tok_content toks).
Proof. intros toks memo t keep Hk H. exact (parsed_tree_content_view toks keep memo t (or_intror Hk) H). Qed.

Corollary parsed_tree_visible_content : forall toks memo t,
  fst (fst (parse_stage1 toks memo)) = S1Tree t -> filter visible (content t) = filter visible (tok_content toks).
Proof. intros toks memo t H. exact (parsed_tree_content_any toks memo t visible visible_hides H). Qed.

(* ---------- re-association keeps the content ---------- *)
Definition cop (k : ParserPost.chain) (o : binop) : list citem := match k with ChApp => [] | _ => [CK (op_kind o)] end.
Definition cacc (k : ParserPost.chain) (acc : option (pterm * binop)) : list citem :=
  match acc with Some (a, o) => content a ++ cop k o | None => [] end.

Lemma content_mk_chain k i o a b : content (mk_chain k i o a b) = content a ++ cop k o ++ content b.
Proof. destruct k; reflexivity. Qed.
Lemma content_chain k t o a b : chain_op k t = Some (o, a, b) -> content t = content a ++ cop k o ++ content b.
Proof.
  intros C. destruct k; destruct t; try discriminate C;
    try (match type of C with context [PBin _ ?o] => destruct o; try discriminate C end); injection C as <- <- <-; reflexivity.
Qed.

Lemma content_nonchain_None k t :
  chain_op k t = None -> has_error_node t = false ->
  (forall u, psize u < psize t -> has_error_node u = false -> content (reassoc k None u) = content u) ->
  content (reassoc k None t) = content t.
Proof.
  intros C E IH.
  destruct t as [| | | | | | | |? ? ? ? ? od ?| | |? ? ? ? oa ? ?| | |]; cbn [has_error_node] in E; try discriminate E; try reflexivity.
  all: try (destruct od); try (destruct oa).
  all: match goal with
       | |- context [PApp] => destruct k; try discriminate C
       | |- context [PBin _ ?o] => destruct k, o; try discriminate C
       | _ => idtac
       end.
  all: cbn [has_error_node] in E; repeat rewrite orb_false_iff in E.
  all: cbn; rewrite !IH by solve [cbn; lia | tauto]; reflexivity.
Qed.

Lemma content_size k : forall n t, psize t <= n -> has_error_node t = false ->
  forall acc, content (reassoc k acc t) = cacc k acc ++ content t.
Proof.
  induction n as [|n IH]; intros t Sz E; [destruct t; cbn in Sz; lia|].
  assert (IHt : forall u, psize u < psize t -> has_error_node u = false ->
                forall acc, content (reassoc k acc u) = cacc k acc ++ content u)
    by (intros; apply IH; [lia|assumption]).
  clear IH. pose proof (ReassocProofs.is_perror_noerr _ E) as Pe.
  destruct (chain_op k t) as [[[o' a] b]|] eqn:C.
  - destruct (@ReassocProofs.chain_op_inv _ _ _ _ _ C) as (K & _ & Sa & Sb & Et).
    rewrite Et in E. apply orb_false_iff in E. destruct E as [Ea Eb].
    pose proof (IHt a Sa Ea) as IHa. pose proof (IHt b Sb Eb) as IHb.
    assert (P0 : content (reassoc k None t) = content t).
    { rewrite (content_chain _ _ _ _ _ C). destruct (grp b) eqn:Gb.
      - rewrite (@ReassocProofs.reassoc_keep _ _ _ _ _ C Gb), content_mk_chain, IHa, IHb. reflexivity.
      - rewrite (@ReassocProofs.reassoc_rotate _ _ _ _ _ None C Gb I), IHb. cbn [cacc]. rewrite IHa, <- app_assoc. reflexivity. }
    intros [[ac o]|]; [|exact P0].
    destruct (grp t) eqn:Gt.
    + rewrite ReassocProofs.reassoc_atomic by auto. cbn [ReassocProofs.wrapk cacc]. rewrite content_mk_chain, P0, <- app_assoc. reflexivity.
    + rewrite (content_chain _ _ _ _ _ C). destruct (grp b) eqn:Gb.
      * rewrite (@ReassocProofs.reassoc_keep_acc _ _ _ _ _ ac o C Gb Gt), content_mk_chain, IHa, IHb. cbn [cacc].
        rewrite <- !app_assoc. reflexivity.
      * rewrite (@ReassocProofs.reassoc_rotate _ _ _ _ _ (Some (ac, o)) C Gb Gt), IHb. cbn [cacc].
        rewrite content_mk_chain, IHa. cbn [cacc app]. rewrite <- !app_assoc. reflexivity.
  - assert (P0 : content (reassoc k None t) = content t).
    { apply content_nonchain_None; try assumption. intros u Su Eu. apply (IHt u Su Eu None). }
    intros [[ac o]|]; [|exact P0].
    rewrite ReassocProofs.reassoc_atomic by auto. cbn [ReassocProofs.wrapk cacc]. rewrite content_mk_chain, P0, <- app_assoc. reflexivity.
Qed.

Theorem content_reassoc k t : has_error_node t = false -> content (reassoc k None t) = content t.
Proof. intros E. apply (@content_size k (psize t) t (le_n _) E None). Qed.

(* with an accumulator (the left part of a chain built so far): the accumulator's content, the operator, the rest *)
Theorem content_reassoc_acc k a o t : has_error_node t = false ->
  content (reassoc k (Some (a, o)) t) = content a ++ cop k o ++ content t.
Proof. intros E. rewrite (@content_size k (psize t) t (le_n _) E (Some (a, o))). cbn [cacc]. now rewrite <- app_assoc. Qed.

Theorem content_reassociate t : has_error_node t = false -> content (reassociate t) = content t.
Proof.
  intros E. unfold reassociate. rewrite !content_reassoc; auto using ReassocProofs.noerr_reassoc.
Qed.

(* the re-associated tree - the parser's syntax tree - carries exactly the content of the tokens, in order *)
Theorem parser_output_content : forall toks memo t, underscores_ok toks ->
  fst (fst (parse_stage1 toks memo)) = S1Tree t -> content (reassociate t) = tok_content toks.
Proof.
  intros toks memo t U H. rewrite (content_reassociate t (stage1_clean toks memo t H)). exact (parsed_tree_content toks memo t U H).
Qed.

(* ... and without any assumption on the tokens, up to the colons and the identifiers spelled `_` *)
Theorem parser_output_content_any : forall toks memo t keep, hides_underscores keep ->
  fst (fst (parse_stage1 toks memo)) = S1Tree t -> filter keep (content (reassociate t)) = filter keep (tok_content toks).
Proof.
  intros toks memo t keep Hk H. rewrite (content_reassociate t (stage1_clean toks memo t H)). exact (parsed_tree_content_any toks memo t keep Hk H).
Qed.
Corollary parser_output_visible_content : forall toks memo t,
  fst (fst (parse_stage1 toks memo)) = S1Tree t -> filter visible (content (reassociate t)) = filter visible (tok_content toks).
Proof. intros toks memo t H. exact (parser_output_content_any toks memo t visible visible_hides H). Qed.

(* two sufficient conditions for the hypothesis *)
Lemma underscores_ok_nonempty toks : Forall (fun t => ps t <> pe t) toks -> underscores_ok toks.
Proof. intros H. eapply Forall_impl; [|exact H]. intros t N _ _. exact N. Qed.
Lemma underscores_ok_none toks : Forall (fun t => pname t <> placeholder) toks -> underscores_ok toks.
Proof. intros H. eapply Forall_impl; [|exact H]. intros t N _ E. contradiction. Qed.

Print Assumptions parse_content_rec.
Print Assumptions call_content.
Print Assumptions table_content.
Print Assumptions parsed_tree_content.
Print Assumptions parsed_tree_content_any.
Print Assumptions parsed_tree_visible_content.
Print Assumptions content_reassociate.
Print Assumptions parser_output_content.
Print Assumptions parser_output_content_any.
Print Assumptions parser_output_visible_content.

(* ---------- non-vacuity ---------- *)
Module ContentExample.
Inductive w := K (k : tkind) | V (c : N) | L (z : Z).
(* token number i has the byte range [2i, 2i + 1) *)
Fixpoint number (i : N) (l : list w) : list ptok :=
  match l with
  | [] => []
  | x :: r =>
      (match x with
       | K k => {| pk := k; ps := 2 * i; pe := 2 * i + 1; pname := []; pz := 0 |}
       | V c => {| pk := KIdentifier; ps := 2 * i; pe := 2 * i + 1; pname := [c]; pz := 0 |}
       | L z => {| pk := KIntegerLiteral; ps := 2 * i; pe := 2 * i + 1; pname := []; pz := z |}
       end) :: number (N.succ i) r
  end.
Definition f := 102%N. Definition g := 103%N. Definition h := 104%N. Definition x := 120%N. Definition y := 121%N.
Definition z := 122%N. Definition a := 97%N. Definition b := 98%N. Definition i := 105%N. Definition u := 117%N.
(*  f : (int -> int) = x => if x < 1 then - x else (x - 1 - 2) * g x y ;
    i = (a : type) -> {b : type} -> a ;
    h = {z} => (u : int) => f ((u)) + 3 / z <newline>
    f 1 + 2                                                                          *)
Definition input : list ptok := number 0
  [V f; K KColon; K KLeftParen; K KInteger; K KThinArrow; K KInteger; K KRightParen; K KEquals;
     V x; K KThickArrow; K KIf; V x; K KLessThan; L 1; K KThen; K KMinus; V x; K KElse;
     K KLeftParen; V x; K KMinus; L 1; K KMinus; L 2; K KRightParen; K KAsterisk; V g; V x; V y; K KSemicolon;
   V i; K KEquals; K KLeftParen; V a; K KColon; K KType; K KRightParen; K KThinArrow;
     K KLeftCurly; V b; K KColon; K KType; K KRightCurly; K KThinArrow; V a; K KSemicolon;
   V h; K KEquals; K KLeftCurly; V z; K KRightCurly; K KThickArrow; K KLeftParen; V u; K KColon; K KInteger; K KRightParen; K KThickArrow;
     V f; K KLeftParen; K KLeftParen; V u; K KRightParen; K KRightParen; K KPlus; L 3; K KSlash; V z; K KLineBreak;
   V f; L 1; K KPlus; L 2].

Definition tree_content (toks : list ptok) (memo : bool) : option (list citem * list citem) :=
  match fst (fst (parse_stage1 toks memo)) with
  | S1Tree t => Some (content t, content (reassociate t))
  | _ => None
  end.

(* the input is accepted, and the content of its raw tree and of its re-associated tree is the content of the tokens *)
Example input_content :
  tree_content input true = Some (tok_content input, tok_content input) /\
  tree_content input false = Some (tok_content input, tok_content input).
Proof.
  (* each half is one run of the parser model in the VM; `vm_compute` followed by Qed would run both twice *)
  split; vm_cast_no_check (@eq_refl (option (list citem * list citem)) (Some (tok_content input, tok_content input))).
Qed.

(* ... which is this list (73 tokens, 12 of them parentheses, 61 items): *)
Example input_items : tok_content input =
  [CId [f]; CK KColon; CK KInteger; CK KThinArrow; CK KInteger; CK KEquals;
     CId [x]; CK KThickArrow; CK KIf; CId [x]; CK KLessThan; CNum 1; CK KThen; CK KMinus; CId [x]; CK KElse;
     CId [x]; CK KMinus; CNum 1; CK KMinus; CNum 2; CK KAsterisk; CId [g]; CId [x]; CId [y]; CSep;
   CId [i]; CK KEquals; CId [a]; CK KColon; CK KType; CK KThinArrow;
     CK KLeftCurly; CId [b]; CK KColon; CK KType; CK KRightCurly; CK KThinArrow; CId [a]; CSep;
   CId [h]; CK KEquals; CK KLeftCurly; CId [z]; CK KRightCurly; CK KThickArrow; CId [u]; CK KColon; CK KInteger; CK KThickArrow;
     CId [f]; CId [u]; CK KPlus; CNum 3; CK KSlash; CId [z]; CSep;
   CId [f]; CNum 1; CK KPlus; CNum 2].
Proof. vm_compute. reflexivity. Qed.

Example input_underscores_ok : underscores_ok input.
Proof. apply underscores_ok_nonempty. vm_compute. repeat constructor; discriminate. Qed.

(* the re-association really changes this tree (the chain x - 1 - 2 becomes left-nested), its content stays *)
Example input_reassociated :
  match fst (fst (parse_stage1 input true)) with S1Tree t => ReassocProofs.strip (reassociate t) <> ReassocProofs.strip t | _ => False end.
Proof. vm_compute. discriminate. Qed.

(* the hypothesis on `_` is needed: when byte ranges are empty, `( _ : a ) -> b` and `a -> b` have the SAME
   tree (the written binder `_` cannot be told from the placeholder), but not the same tokens *)
Definition Z0 (k : tkind) (nm : name) : ptok := {| pk := k; ps := 0; pe := 0; pname := nm; pz := 0 |}.
Definition written : list ptok :=
  [Z0 KLeftParen []; Z0 KIdentifier placeholder; Z0 KColon []; Z0 KIdentifier [a]; Z0 KRightParen []; Z0 KThinArrow []; Z0 KIdentifier [b]].
Definition unwritten : list ptok := [Z0 KIdentifier [a]; Z0 KThinArrow []; Z0 KIdentifier [b]].
Example hypothesis_needed :
  (exists t, fst (fst (parse_stage1 written true)) = S1Tree t /\ fst (fst (parse_stage1 unwritten true)) = S1Tree t)
  /\ tok_content written <> tok_content unwritten.
Proof. split; [eexists; split; vm_compute; reflexivity | vm_compute; discriminate]. Qed.
(* (what the assumption-free theorem says of them: they agree up to the `_` and the colon) *)
Example hypothesis_needed_visible :
  filter visible (tok_content written) = filter visible (tok_content unwritten)
  /\ tree_content written true = Some (tok_content unwritten, tok_content unwritten).
Proof. vm_compute. split; reflexivity. Qed.
End ContentExample.
Print Assumptions ContentExample.input_content.
Print Assumptions ContentExample.hypothesis_needed.
