(* Re-association (Model/ParserPost.v [reassoc] / [reassociate], mirror of the three
   reassociate_* passes of src/parser.rs) against an independent specification.

   Property: the parser builds the tree the grammar specifies - chains of applications, of * and /,
   of + and - associate to the left, parentheses are honoured.

   Specification of one pass of kind k ([spec k], section 2): flatten the right spine of
   unparenthesised k-nodes into a head operand x0 and a list [(o1, x1); ...; (on, xn)] - stopping at
   a parenthesised node or at a node that is not a k-node, every operand re-associated as a fresh
   chain - and rebuild (((x0 o1 x1) o2 x2) ... on xn).  Trees are compared up to [strip] (forget
   every [pinfo]); the specification reads [gstrip t]: the tree with only its group flags.

   Main results (all closed under the global context):
     reassoc_spec             strip (reassoc k None t) = spec k (gstrip t)      (no PError node, grammar shape for k)
     reassoc_specg            the same with the group flags of the result ([specg])
     reassociate_spec         the three passes = spec ChAdd o specg ChMul o specg ChApp
     yield_reassociate        the in-order sequence of leaves and operators is unchanged (no PError node)
     reassoc_left/_paren, ex_*, ReassocExamples.tok_*      concrete shapes
     stage1_tree_noerr, parser_tree_wf                      both hypotheses hold for every tree of the parser model
     parser_reassociate_spec  hence the statement without hypotheses for every [S1Tree t]
     reassoc_specq            all trees without PError, no shape hypothesis, for [specq] = spec + clause (Q)
     specq_spec               [specq] = [spec] on grammar-shaped trees;  ReassocExamples.rspine_needed: not elsewhere *)
From Coq Require Import List ZArith NArith Lia Bool Arith PArith FMapPositive.
Import ListNotations.
Require Import Gram.Model.Term Gram.Model.Token Gram.Model.Grammar Gram.Gen.ParserSkeleton Gram.Model.Parser Gram.Model.ParserPost.

Set Implicit Arguments.

(* ------------------------------------------------------------------------------------------ *)
(* 1. Abstract trees: parse trees whose nodes carry an annotation of type A instead of [pinfo]  *)
(*    (source range, group flag, error count).  A = unit: the bare tree ([sterm]);              *)
(*    A = bool: the tree with its group flags only ([gterm]).                                   *)
(* ------------------------------------------------------------------------------------------ *)
Inductive leaf := LError | LType | LInt | LBool | LTrue | LFalse | LVar (x : name) | LLit (z : Z).

Inductive aterm (A : Type) :=
| ALeaf (i : A) (l : leaf)
| ALam (i : A) (x : name) (impl : bool) (dom : option (aterm A)) (body : aterm A)
| APi (i : A) (x : name) (impl : bool) (dom cod : aterm A)
| AApp (i : A) (f a : aterm A)
| ALet (i : A) (x : name) (ann : option (aterm A)) (d b : aterm A)
| ANeg (i : A) (a : aterm A)
| ABin (i : A) (o : binop) (a b : aterm A)
| AIf (i : A) (c t e : aterm A).

Definition sterm := aterm unit.
Definition gterm := aterm bool.

Definition ann A (t : aterm A) : A :=
  match t with
  | ALeaf i _ | ALam i _ _ _ _ | APi i _ _ _ _ | AApp i _ _ | ALet i _ _ _ _ | ANeg i _ | ABin i _ _ _ | AIf i _ _ _ => i
  end.

Definition omap A B (f : A -> B) (o : option A) : option B := match o with Some a => Some (f a) | None => None end.

(* erasure of a parse tree, keeping [f (info node)] at every node; the byte ranges of binder
   names are dropped as well *)
Fixpoint erase A (f : pinfo -> A) (t : pterm) : aterm A :=
  let i := f (info t) in
  match t with
  | PError _ => ALeaf i LError
  | PType _ => ALeaf i LType | PInt _ => ALeaf i LInt | PBool _ => ALeaf i LBool
  | PTrue _ => ALeaf i LTrue | PFalse _ => ALeaf i LFalse
  | PVar _ x => ALeaf i (LVar x) | PLit _ z => ALeaf i (LLit z)
  | PLam _ x _ _ im d b => ALam i x im (match d with Some d => Some (erase f d) | None => None end) (erase f b)
  | PPi _ x _ _ im d c => APi i x im (erase f d) (erase f c)
  | PApp _ g a => AApp i (erase f g) (erase f a)
  | PLet _ x _ _ an d b => ALet i x (match an with Some a => Some (erase f a) | None => None end) (erase f d) (erase f b)
  | PNeg _ a => ANeg i (erase f a)
  | PBin _ o a b => ABin i o (erase f a) (erase f b)
  | PIf _ c a b => AIf i (erase f c) (erase f a) (erase f b)
  end.

Definition strip : pterm -> sterm := erase (fun _ => tt).          (* forget everything *)
Definition gstrip : pterm -> gterm := erase pgroup.                  (* keep the group flags *)

Fixpoint forget A (t : aterm A) : sterm :=
  match t with
  | ALeaf _ l => ALeaf tt l
  | ALam _ x im d b => ALam tt x im (match d with Some d => Some (forget d) | None => None end) (forget b)
  | APi _ x im d c => APi tt x im (forget d) (forget c)
  | AApp _ g a => AApp tt (forget g) (forget a)
  | ALet _ x an d b => ALet tt x (match an with Some a => Some (forget a) | None => None end) (forget d) (forget b)
  | ANeg _ a => ANeg tt (forget a)
  | ABin _ o a b => ABin tt o (forget a) (forget b)
  | AIf _ c a b => AIf tt (forget c) (forget a) (forget b)
  end.

(* ------------------------------------------------------------------------------------------ *)
(* 2. The specification of one pass                                                            *)
(* ------------------------------------------------------------------------------------------ *)
(* the operators of a chain kind *)
Definition is_op (k : chain) (o : binop) : bool :=
  match k, o with
  | ChMul, OProd | ChMul, OQuot | ChAdd, OSum | ChAdd, ODiff => true
  | _, _ => false
  end.
(* is the root of t a node of chain kind k ? *)
Definition is_chain A (k : chain) (t : aterm A) : bool :=
  match k, t with
  | ChApp, AApp _ _ _ => true
  | ChApp, _ => false
  | _, ABin _ o _ _ => is_op k o
  | _, _ => false
  end.
(* an operand that is not looked into: parenthesised, or not a k-node at all *)
Definition atomic (k : chain) (t : gterm) : bool := ann t || negb (is_chain k t).

(* the k-node with annotation i, operator o (ignored for applications) and operands a, b *)
Definition amk A (k : chain) (i : A) (o : binop) (a b : aterm A) : aterm A :=
  match k with ChApp => AApp i a b | _ => ABin i o a b end.

(* (((x0 o1 x1) o2 x2) ... on xn) *)
Definition foldl_chain A (k : chain) (i : A) (x0 : aterm A) (l : list (binop * aterm A)) : aterm A :=
  fold_left (fun acc ox => amk k i (fst ox) acc (snd ox)) l x0.

(* one step of the right spine: the left operand is finished (xa); the right operand b either is
   atomic (then it is the last operand, and [rb] is its own flattening, to be closed), or it is an
   ungrouped k-node and its spine continues the chain *)
Definition link A (k : chain) (close : aterm A * list (binop * aterm A) -> aterm A)
           (o : binop) (xa : aterm A) (b : gterm) (rb : aterm A * list (binop * aterm A))
  : aterm A * list (binop * aterm A) :=
  if atomic k b then (xa, [(o, close rb)]) else (xa, (o, fst rb) :: snd rb).

(* [flat k t] = (x0, [(o1, x1); ...; (on, xn)]): the right spine of ungrouped k-nodes starting at
   the root of t (the flag of the root itself is not looked at), every operand re-associated as a
   fresh chain.  A root that is not a k-node gives (t with re-associated children, []). *)
Fixpoint flat (k : chain) (t : gterm) : sterm * list (binop * sterm) :=
  let close r := foldl_chain k tt (fst r) (snd r) in
  let S u := close (flat k u) in
  match t with
  | ALeaf _ l => (ALeaf tt l, [])
  | ALam _ x im d b => (ALam tt x im (match d with Some d => Some (S d) | None => None end) (S b), [])
  | APi _ x im d c => (APi tt x im (S d) (S c), [])
  | AApp _ f a =>
      match k with
      | ChApp => link k close OSum (S f) a (flat k a)
      | _ => (AApp tt (S f) (S a), [])
      end
  | ALet _ x an d b => (ALet tt x (match an with Some a => Some (S a) | None => None end) (S d) (S b), [])
  | ANeg _ a => (ANeg tt (S a), [])
  | ABin _ o a b =>
      if is_op k o then link k close o (S a) b (flat k b)
      else (ABin tt o (S a) (S b), [])
  | AIf _ c a b => (AIf tt (S c) (S a) (S b), [])
  end.

Definition spec (k : chain) (t : gterm) : sterm := foldl_chain k tt (fst (flat k t)) (snd (flat k t)).

(* The same with the group flags of the result.  The Rust code keeps the flag of every node it
   does not rebuild, flags every node it builds as grouped, and does not rebuild a two-operand
   chain whose right operand is parenthesised ([rgrouped]). *)
Definition rgrouped (k : chain) (t : gterm) : bool :=
  match t with
  | AApp _ _ a => match k with ChApp => ann a | _ => false end
  | ABin _ o _ b => is_op k o && ann b
  | _ => false
  end.
Definition closeg (k : chain) (u : gterm) (r : gterm * list (binop * gterm)) : gterm :=
  foldl_chain k (if rgrouped k u then ann u else true) (fst r) (snd r).

Fixpoint flatg (k : chain) (t : gterm) : gterm * list (binop * gterm) :=
  let S u := closeg k u (flatg k u) in
  match t with
  | ALeaf g l => (ALeaf g l, [])
  | ALam g x im d b => (ALam g x im (match d with Some d => Some (S d) | None => None end) (S b), [])
  | APi g x im d c => (APi g x im (S d) (S c), [])
  | AApp g f a =>
      match k with
      | ChApp => link k (closeg k a) OSum (S f) a (flatg k a)
      | _ => (AApp g (S f) (S a), [])
      end
  | ALet g x an d b => (ALet g x (match an with Some a => Some (S a) | None => None end) (S d) (S b), [])
  | ANeg g a => (ANeg g (S a), [])
  | ABin g o a b =>
      if is_op k o then link k (closeg k b) o (S a) b (flatg k b)
      else (ABin g o (S a) (S b), [])
  | AIf g c a b => (AIf g (S c) (S a) (S b), [])
  end.

Definition specg (k : chain) (t : gterm) : gterm := closeg k t (flatg k t).

(* the shape the grammar gives to every parse tree: the left operand of a k-node is never an
   unparenthesised k-node (it belongs to the next precedence level) *)
Fixpoint rspine (k : chain) (t : gterm) : bool :=
  match t with
  | ALeaf _ _ => true
  | ALam _ _ _ d b => match d with Some d => rspine k d | None => true end && rspine k b
  | APi _ _ _ d c => rspine k d && rspine k c
  | AApp _ f a => (if is_chain k t then atomic k f else true) && rspine k f && rspine k a
  | ALet _ _ an d b => match an with Some a => rspine k a | None => true end && rspine k d && rspine k b
  | ANeg _ a => rspine k a
  | ABin _ _ a b => (if is_chain k t then atomic k a else true) && rspine k a && rspine k b
  | AIf _ c a b => rspine k c && rspine k a && rspine k b
  end.

(* ------------------------------------------------------------------------------------------ *)
(* 3. Unfolding equations of the model, one per situation                                       *)
(* ------------------------------------------------------------------------------------------ *)
Definition wrapk (k : chain) (acc : option (pterm * binop)) (r : pterm) : pterm :=
  match acc with
  | Some (a, o) => mk_chain k (mk (rstart a) (rend r) true 0) o a r
  | None => r
  end.

Lemma reassoc_atomic k a o t :
  is_perror t = false -> (grp t = true \/ chain_op k t = None) ->
  reassoc k (Some (a, o)) t = wrapk k (Some (a, o)) (reassoc k None t).
Proof.
  intros E [G|C].
  - destruct t; cbn in G |- *; try (rewrite G); try reflexivity.
  - destruct (grp t) eqn:G.
    + destruct t; cbn in G |- *; try (rewrite G); try reflexivity.
    + destruct t; try discriminate; cbn in G |- *; rewrite ?G; try reflexivity.
      * destruct k; try discriminate; reflexivity.
      * destruct k, o0; try discriminate; reflexivity.
Qed.

Ltac chain_cases C :=
  match type of C with chain_op ?k ?t = _ =>
    destruct k; destruct t as [| | | | | | | | | | | | |? o ? ?|]; try discriminate C;
    try (destruct o; try discriminate C); injection C as <- <- <- end.

Lemma reassoc_keep k t o' a b :
  chain_op k t = Some (o', a, b) -> grp b = true ->
  reassoc k None t = mk_chain k (same_info t) o' (reassoc k None a) (reassoc k None b).
Proof. intros C G. chain_cases C; cbn; rewrite G; reflexivity. Qed.

Lemma reassoc_keep_acc k t o' a b ac oa :
  chain_op k t = Some (o', a, b) -> grp b = true -> grp t = false ->
  reassoc k (Some (ac, oa)) t =
  mk_chain k (mk (rstart ac) (rend b) true 0) o' (reassoc k (Some (ac, oa)) a) (reassoc k None b).
Proof. intros C G T. chain_cases C; cbn in T |- *; rewrite G, T; reflexivity. Qed.

Lemma reassoc_rotate k t o' a b acc :
  chain_op k t = Some (o', a, b) -> grp b = false ->
  match acc with Some _ => grp t = false | None => True end ->
  reassoc k acc t =
  reassoc k (Some (match acc with
                   | Some (ac, oa) => mk_chain k (mk (rstart ac) (rend a) true 0) oa ac (reassoc k None a)
                   | None => reassoc k None a
                   end, o')) b.
Proof.
  intros C G T. chain_cases C; destruct acc as [[ac oa]|]; cbn in T |- *; rewrite G, ?T; reflexivity.
Qed.

(* ------------------------------------------------------------------------------------------ *)
(* 4. The specification on k-nodes, and the main induction                                      *)
(* ------------------------------------------------------------------------------------------ *)
Definition kop (k : chain) (o : binop) : bool :=
  match k with ChApp => match o with OSum => true | _ => false end | _ => is_op k o end.

Lemma chain_op_inv k t o' a b :
  chain_op k t = Some (o', a, b) ->
  kop k o' = true /\ (forall A (f : pinfo -> A), erase f t = amk k (f (info t)) o' (erase f a) (erase f b))
  /\ psize a < psize t /\ psize b < psize t /\ has_error_node t = has_error_node a || has_error_node b.
Proof. intros C. chain_cases C; cbn; repeat split; lia. Qed.

Lemma is_chain_erase A (f : pinfo -> A) k t :
  is_chain k (erase f t) = match chain_op k t with Some _ => true | None => false end.
Proof. destruct k, t; try reflexivity; destruct o; reflexivity. Qed.

Lemma erase_mk_chain A (f : pinfo -> A) k i o a b :
  erase f (mk_chain k i o a b) = amk k (f i) o (erase f a) (erase f b).
Proof. destruct k; reflexivity. Qed.

Definition itemsg (k : chain) (o : binop) (g : gterm) : list (binop * gterm) :=
  if atomic k g then [(o, specg k g)] else (o, fst (flatg k g)) :: snd (flatg k g).

Lemma flatg_amk k g o A B : kop k o = true -> flatg k (amk k g o A B) = (specg k A, itemsg k o B).
Proof.
  intros K. unfold itemsg, specg. destruct k; [destruct o; try discriminate| |]; cbn in K |- *; rewrite ?K; unfold link; destruct (atomic _ B); reflexivity.
Qed.
Lemma rgrouped_amk k g o A B : kop k o = true -> rgrouped k (amk k g o A B) = ann B.
Proof. intros K. destruct k; cbn in K |- *; rewrite ?K; reflexivity. Qed.
Lemma is_chain_amk A k (g : A) o a b : kop k o = true -> is_chain k (amk k g o a b) = true.
Proof. intros K. destruct k; cbn in K |- *; rewrite ?K; reflexivity. Qed.
Lemma rspine_amk k g o A B : kop k o = true -> rspine k (amk k g o A B) = atomic k A && rspine k A && rspine k B.
Proof. intros K. destruct k; cbn in K |- *; rewrite ?K; reflexivity. Qed.
Lemma ann_amk A k (g : A) o a b : ann (amk k g o a b) = g.
Proof. destruct k; reflexivity. Qed.

Lemma specg_amk k g o A B : kop k o = true ->
  specg k (amk k g o A B) = foldl_chain k (if ann B then g else true) (specg k A) (itemsg k o B).
Proof. intros K. unfold specg at 1. unfold closeg. rewrite flatg_amk, rgrouped_amk, ann_amk by assumption. reflexivity. Qed.

Lemma ann_erase A (f : pinfo -> A) t : ann (erase f t) = f (info t).
Proof. destruct t; reflexivity. Qed.

Lemma specg_nonchain_acc k (g : gterm) : is_chain k g = false -> forall o, itemsg k o g = [(o, specg k g)].
Proof. intros H o. unfold itemsg, atomic. rewrite H, orb_true_r. reflexivity. Qed.

Lemma is_perror_noerr t : has_error_node t = false -> is_perror t = false.
Proof. destruct t; cbn; congruence. Qed.

Definition Pmain (k : chain) (t : pterm) : Prop :=
  gstrip (reassoc k None t) = specg k (gstrip t)
  /\ forall ac o, gstrip (reassoc k (Some (ac, o)) t) = foldl_chain k true (gstrip ac) (itemsg k o (gstrip t)).

Lemma nonchain_None k t :
  chain_op k t = None -> has_error_node t = false -> rspine k (gstrip t) = true ->
  (forall u, psize u < psize t -> has_error_node u = false -> rspine k (gstrip u) = true -> Pmain k u) ->
  gstrip (reassoc k None t) = specg k (gstrip t).
Proof.
  intros C E R IH.
  assert (IH' : forall u, psize u < psize t -> has_error_node u = false -> rspine k (gstrip u) = true ->
                gstrip (reassoc k None u) = specg k (gstrip u)) by (intros; apply IH; assumption).
  clear IH.
  destruct t as [| | | | | | | |? ? ? ? ? od ?| | |? ? ? ? oa ? ?| | |]; cbn [has_error_node] in E; try discriminate E; try reflexivity.
  all: unfold specg in IH'.
  all: try (destruct od); try (destruct oa).
  all: match goal with
       | |- context [PApp] => destruct k; try discriminate C
       | |- context [PBin _ ?o] => destruct k, o; try discriminate C
       | _ => idtac
       end.
  all: cbn [gstrip erase rspine is_chain is_op] in R; cbn [has_error_node] in E.
  all: repeat rewrite orb_false_iff in E; repeat rewrite andb_true_iff in R.
  all: cbn; repeat f_equal; apply IH'; solve [cbn; lia | tauto].
Qed.

Lemma ann_gstrip t : ann (gstrip t) = grp t.
Proof. apply ann_erase. Qed.
Lemma gstrip_mk_chain k i o a b : gstrip (mk_chain k i o a b) = amk k (pgroup i) o (gstrip a) (gstrip b).
Proof. apply erase_mk_chain. Qed.
Lemma is_chain_gstrip k t : is_chain k (gstrip t) = match chain_op k t with Some _ => true | None => false end.
Proof. apply is_chain_erase. Qed.
Lemma itemsg_atomic k o g : atomic k g = true -> itemsg k o g = [(o, specg k g)].
Proof. intros H. unfold itemsg. rewrite H. reflexivity. Qed.
Lemma atomic_grp k t : grp t = true -> atomic k (gstrip t) = true.
Proof. intros H. unfold atomic. rewrite ann_gstrip, H. reflexivity. Qed.

Lemma main_size k : forall n t, psize t <= n -> has_error_node t = false -> rspine k (gstrip t) = true -> Pmain k t.
Proof.
  induction n as [|n IH]; intros t Sz E R; [destruct t; cbn in Sz; lia|].
  assert (IHt : forall u, psize u < psize t -> has_error_node u = false -> rspine k (gstrip u) = true -> Pmain k u)
    by (intros; apply IH; [lia|assumption|assumption]).
  clear IH. pose proof (is_perror_noerr _ E) as Pe.
  destruct (chain_op k t) as [[[o' a] b]|] eqn:C.
  - (* a k-node *)
    destruct (@chain_op_inv _ _ _ _ _ C) as (K & ER & Sa & Sb & Et).
    assert (GT : gstrip t = amk k (grp t) o' (gstrip a) (gstrip b)) by apply ER. clear ER.
    rewrite Et in E. apply orb_false_iff in E. destruct E as [Ea Eb].
    rewrite GT, rspine_amk in R by assumption.
    apply andb_true_iff in R. destruct R as [R Rb]. apply andb_true_iff in R. destruct R as [Aa Ra].
    destruct (IHt a Sa Ea Ra) as [IHa0 IHa1]. destruct (IHt b Sb Eb Rb) as [IHb0 IHb1].
    assert (P0 : gstrip (reassoc k None t) = specg k (gstrip t)).
    { rewrite GT, specg_amk, ann_gstrip by assumption.
      destruct (grp b) eqn:Gb.
      - rewrite (@reassoc_keep _ _ _ _ _ C Gb), gstrip_mk_chain, IHa0, IHb0, itemsg_atomic by (apply atomic_grp; assumption).
        reflexivity.
      - rewrite (@reassoc_rotate _ _ _ _ _ None C Gb I), IHb1, IHa0. reflexivity. }
    split; [exact P0|]. intros ac o.
    destruct (grp t) eqn:Gt.
    + rewrite reassoc_atomic by auto. cbn [wrapk].
      rewrite gstrip_mk_chain, P0, itemsg_atomic by (apply atomic_grp; assumption). reflexivity.
    + assert (NA : atomic k (gstrip t) = false).
      { unfold atomic. rewrite ann_gstrip, is_chain_gstrip, C, Gt. reflexivity. }
      unfold itemsg at 1. rewrite NA. rewrite GT, flatg_amk by assumption. cbn [fst snd].
      destruct (grp b) eqn:Gb.
      * rewrite (@reassoc_keep_acc _ _ _ _ _ ac o C Gb Gt), gstrip_mk_chain, IHa1, IHb0.
        rewrite !itemsg_atomic by (assumption || apply atomic_grp; assumption). reflexivity.
      * rewrite (@reassoc_rotate _ _ _ _ _ (Some (ac, o)) C Gb Gt), IHb1, gstrip_mk_chain, IHa0. reflexivity.
  - (* not a k-node *)
    assert (P0 : gstrip (reassoc k None t) = specg k (gstrip t)) by (apply nonchain_None; assumption).
    split; [exact P0|]. intros ac o.
    rewrite reassoc_atomic by auto. cbn [wrapk].
    rewrite gstrip_mk_chain, P0, specg_nonchain_acc; [reflexivity|]. rewrite is_chain_gstrip, C. reflexivity.
Qed.

(* ------------------------------------------------------------------------------------------ *)
(* 5. Theorem 1: one pass of the model is the specification                                     *)
(* ------------------------------------------------------------------------------------------ *)
Theorem reassoc_specg k t :
  has_error_node t = false -> rspine k (gstrip t) = true ->
  gstrip (reassoc k None t) = specg k (gstrip t).
Proof. intros E R. apply (@main_size k (psize t) t (le_n _) E R). Qed.

(* induction principles that reach the optional children *)
Section Ind.
  Variable P : pterm -> Prop.
  Definition Popt (o : option pterm) : Prop := match o with Some d => P d | None => True end.
  Hypothesis HError : forall i, P (PError i).
  Hypothesis HType : forall i, P (PType i).
  Hypothesis HInt : forall i, P (PInt i).
  Hypothesis HBool : forall i, P (PBool i).
  Hypothesis HTrue : forall i, P (PTrue i).
  Hypothesis HFalse : forall i, P (PFalse i).
  Hypothesis HVar : forall i x, P (PVar i x).
  Hypothesis HLit : forall i z, P (PLit i z).
  Hypothesis HLam : forall i x xs xe im d b, Popt d -> P b -> P (PLam i x xs xe im d b).
  Hypothesis HPi : forall i x xs xe im d c, P d -> P c -> P (PPi i x xs xe im d c).
  Hypothesis HApp : forall i f a, P f -> P a -> P (PApp i f a).
  Hypothesis HLet : forall i x xs xe an d b, Popt an -> P d -> P b -> P (PLet i x xs xe an d b).
  Hypothesis HNeg : forall i a, P a -> P (PNeg i a).
  Hypothesis HBin : forall i o a b, P a -> P b -> P (PBin i o a b).
  Hypothesis HIf : forall i c a b, P c -> P a -> P b -> P (PIf i c a b).
  Fixpoint pterm_ind' (t : pterm) : P t :=
    match t with
    | PError i => HError i | PType i => HType i | PInt i => HInt i | PBool i => HBool i
    | PTrue i => HTrue i | PFalse i => HFalse i | PVar i x => HVar i x | PLit i z => HLit i z
    | PLam i x xs xe im d b =>
        HLam i x xs xe im d (match d return Popt d with Some d' => pterm_ind' d' | None => I end) (pterm_ind' b)
    | PPi i x xs xe im d c => HPi i x xs xe im (pterm_ind' d) (pterm_ind' c)
    | PApp i f a => HApp i (pterm_ind' f) (pterm_ind' a)
    | PLet i x xs xe an d b =>
        HLet i x xs xe an (match an return Popt an with Some a' => pterm_ind' a' | None => I end) (pterm_ind' d) (pterm_ind' b)
    | PNeg i a => HNeg i (pterm_ind' a)
    | PBin i o a b => HBin i o (pterm_ind' a) (pterm_ind' b)
    | PIf i c a b => HIf i (pterm_ind' c) (pterm_ind' a) (pterm_ind' b)
    end.
End Ind.

Section AInd.
  Variable A : Type.
  Variable P : aterm A -> Prop.
  Definition Aopt (o : option (aterm A)) : Prop := match o with Some d => P d | None => True end.
  Hypothesis HLeaf : forall i l, P (ALeaf i l).
  Hypothesis HLam : forall i x im d b, Aopt d -> P b -> P (ALam i x im d b).
  Hypothesis HPi : forall i x im d c, P d -> P c -> P (APi i x im d c).
  Hypothesis HApp : forall i f a, P f -> P a -> P (AApp i f a).
  Hypothesis HLet : forall i x an d b, Aopt an -> P d -> P b -> P (ALet i x an d b).
  Hypothesis HNeg : forall i a, P a -> P (ANeg i a).
  Hypothesis HBin : forall i o a b, P a -> P b -> P (ABin i o a b).
  Hypothesis HIf : forall i c a b, P c -> P a -> P b -> P (AIf i c a b).
  Fixpoint aterm_ind' (t : aterm A) : P t :=
    match t with
    | ALeaf i l => HLeaf i l
    | ALam i x im d b => HLam i x im d (match d return Aopt d with Some d' => aterm_ind' d' | None => I end) (aterm_ind' b)
    | APi i x im d c => HPi i x im (aterm_ind' d) (aterm_ind' c)
    | AApp i f a => HApp i (aterm_ind' f) (aterm_ind' a)
    | ALet i x an d b => HLet i x an (match an return Aopt an with Some a' => aterm_ind' a' | None => I end) (aterm_ind' d) (aterm_ind' b)
    | ANeg i a => HNeg i (aterm_ind' a)
    | ABin i o a b => HBin i o (aterm_ind' a) (aterm_ind' b)
    | AIf i c a b => HIf i (aterm_ind' c) (aterm_ind' a) (aterm_ind' b)
    end.
End AInd.

Ltac rew_all := repeat match goal with H : _ = _ |- _ => rewrite H; clear H end; try reflexivity.

Lemma forget_erase A (f : pinfo -> A) t : forget (erase f t) = strip t.
Proof.
  unfold strip.
  induction t using pterm_ind'; cbn; try reflexivity;
    repeat match goal with H : Popt _ ?d |- _ => destruct d; cbn in H end; rew_all.
Qed.

Definition fitems A (l : list (binop * aterm A)) : list (binop * sterm) := map (fun ox => (fst ox, forget (snd ox))) l.
Definition fflat A (r : aterm A * list (binop * aterm A)) : sterm * list (binop * sterm) := (forget (fst r), fitems (snd r)).

Lemma forget_amk A k (i : A) o a b : forget (amk k i o a b) = amk k tt o (forget a) (forget b).
Proof. destruct k; reflexivity. Qed.
Lemma forget_foldl A k (i : A) l : forall x, forget (foldl_chain k i x l) = foldl_chain k tt (forget x) (fitems l).
Proof. induction l as [|[o y] l IH]; intros x; cbn; [reflexivity|]. unfold foldl_chain in IH. rewrite IH, forget_amk. reflexivity. Qed.

Lemma flat_flatg k g : flat k g = fflat (flatg k g).
Proof.
  assert (S : forall u, flat k u = fflat (flatg k u) ->
              foldl_chain k tt (fst (flat k u)) (snd (flat k u)) = forget (closeg k u (flatg k u))).
  { intros u H. rewrite H. unfold closeg. rewrite forget_foldl. reflexivity. }
  induction g using aterm_ind'; cbn -[foldl_chain closeg];
    repeat match goal with H : Aopt _ ?d |- _ => destruct d; cbn in H end;
    try (unfold fflat; cbn -[foldl_chain closeg]; rewrite ?S by assumption; reflexivity).
  - destruct k; try (unfold fflat; cbn -[foldl_chain closeg]; rewrite ?S by assumption; reflexivity).
    unfold link. destruct (atomic ChApp g2); unfold fflat; cbn -[foldl_chain closeg]; rewrite ?S by assumption; try reflexivity.
    rewrite IHg2. reflexivity.
  - destruct (is_op k o); try (unfold fflat; cbn -[foldl_chain closeg]; rewrite ?S by assumption; reflexivity).
    unfold link. destruct (atomic k g2); unfold fflat; cbn -[foldl_chain closeg]; rewrite ?S by assumption; try reflexivity.
    rewrite IHg2. reflexivity.
Qed.

Lemma forget_specg k g : forget (specg k g) = spec k g.
Proof. unfold specg, spec, closeg. rewrite forget_foldl, flat_flatg. reflexivity. Qed.

Lemma strip_gstrip t : strip t = forget (gstrip t).
Proof. symmetry. apply forget_erase. Qed.

Theorem reassoc_spec k t :
  has_error_node t = false -> rspine k (gstrip t) = true ->
  strip (reassoc k None t) = spec k (gstrip t).
Proof. intros E R. rewrite strip_gstrip, reassoc_specg, forget_specg by assumption. reflexivity. Qed.
Print Assumptions reassoc_spec.


(* ------------------------------------------------------------------------------------------ *)
(* 6. Theorem 3: the yield is unchanged (no shape hypothesis needed)                           *)
(* ------------------------------------------------------------------------------------------ *)
(* the in-order sequence of leaves and operators; binders, let, if and unary minus contribute a
   head token, their parts are separated by YSep; an application contributes no token *)
Inductive ytok :=
| YLeaf (l : leaf) | YOp (o : binop) | YNeg | YLam (x : name) (im : bool) | YPi (x : name) (im : bool)
| YLet (x : name) | YIf | YSep.

Fixpoint yield A (t : aterm A) : list ytok :=
  match t with
  | ALeaf _ l => [YLeaf l]
  | ALam _ x im d b => YLam x im :: match d with Some d => yield d | None => [] end ++ YSep :: yield b
  | APi _ x im d c => YPi x im :: yield d ++ YSep :: yield c
  | AApp _ f a => yield f ++ yield a
  | ALet _ x an d b => YLet x :: match an with Some a => yield a | None => [] end ++ YSep :: yield d ++ YSep :: yield b
  | ANeg _ a => YNeg :: yield a
  | ABin _ o a b => yield a ++ YOp o :: yield b
  | AIf _ c a b => YIf :: yield c ++ YSep :: yield a ++ YSep :: yield b
  end.
Definition pyield (t : pterm) : list ytok := yield (strip t).

Definition yop (k : chain) (o : binop) : list ytok := match k with ChApp => [] | _ => [YOp o] end.
Definition yacc (k : chain) (acc : option (pterm * binop)) : list ytok :=
  match acc with Some (a, o) => pyield a ++ yop k o | None => [] end.

Lemma yield_amk A k (i : A) o a b : yield (amk k i o a b) = yield a ++ yop k o ++ yield b.
Proof. destruct k; reflexivity. Qed.
Lemma pyield_mk_chain k i o a b : pyield (mk_chain k i o a b) = pyield a ++ yop k o ++ pyield b.
Proof. unfold pyield, strip. rewrite erase_mk_chain. apply yield_amk. Qed.
Lemma pyield_chain k t o a b : chain_op k t = Some (o, a, b) -> pyield t = pyield a ++ yop k o ++ pyield b.
Proof. intros C. destruct (@chain_op_inv _ _ _ _ _ C) as (_ & ER & _). unfold pyield, strip. rewrite ER. apply yield_amk. Qed.

Lemma yield_nonchain_None k t :
  chain_op k t = None -> has_error_node t = false ->
  (forall u, psize u < psize t -> has_error_node u = false -> pyield (reassoc k None u) = pyield u) ->
  pyield (reassoc k None t) = pyield t.
Proof.
  intros C E IH.
  destruct t as [| | | | | | | |? ? ? ? ? od ?| | |? ? ? ? oa ? ?| | |]; cbn [has_error_node] in E; try discriminate E; try reflexivity.
  all: try (destruct od); try (destruct oa).
  all: match goal with
       | |- context [PApp] => destruct k; try discriminate C
       | |- context [PBin _ ?o] => destruct k, o; try discriminate C
       | _ => idtac
       end.
  all: cbn [has_error_node] in E; repeat rewrite orb_false_iff in E.
  all: unfold pyield in *; cbn; rewrite !IH by solve [cbn; lia | tauto]; reflexivity.
Qed.

Lemma yield_size k : forall n t, psize t <= n -> has_error_node t = false ->
  forall acc, pyield (reassoc k acc t) = yacc k acc ++ pyield t.
Proof.
  induction n as [|n IH]; intros t Sz E; [destruct t; cbn in Sz; lia|].
  assert (IHt : forall u, psize u < psize t -> has_error_node u = false ->
                forall acc, pyield (reassoc k acc u) = yacc k acc ++ pyield u)
    by (intros; apply IH; [lia|assumption]).
  clear IH. pose proof (is_perror_noerr _ E) as Pe.
  destruct (chain_op k t) as [[[o' a] b]|] eqn:C.
  - destruct (@chain_op_inv _ _ _ _ _ C) as (K & _ & Sa & Sb & Et).
    rewrite Et in E. apply orb_false_iff in E. destruct E as [Ea Eb].
    pose proof (IHt a Sa Ea) as IHa. pose proof (IHt b Sb Eb) as IHb.
    assert (P0 : pyield (reassoc k None t) = pyield t).
    { rewrite (pyield_chain _ _ C). destruct (grp b) eqn:Gb.
      - rewrite (@reassoc_keep _ _ _ _ _ C Gb), pyield_mk_chain, IHa, IHb. reflexivity.
      - rewrite (@reassoc_rotate _ _ _ _ _ None C Gb I), IHb. cbn [yacc]. rewrite IHa, <- app_assoc. reflexivity. }
    intros [[ac o]|]; [|exact P0].
    destruct (grp t) eqn:Gt.
    + rewrite reassoc_atomic by auto. cbn [wrapk yacc]. rewrite pyield_mk_chain, P0, <- app_assoc. reflexivity.
    + rewrite (pyield_chain _ _ C). destruct (grp b) eqn:Gb.
      * rewrite (@reassoc_keep_acc _ _ _ _ _ ac o C Gb Gt), pyield_mk_chain, IHa, IHb. cbn [yacc].
        rewrite <- !app_assoc. reflexivity.
      * rewrite (@reassoc_rotate _ _ _ _ _ (Some (ac, o)) C Gb Gt), IHb. cbn [yacc].
        rewrite pyield_mk_chain, IHa. cbn [yacc app]. rewrite <- !app_assoc. reflexivity.
  - assert (P0 : pyield (reassoc k None t) = pyield t).
    { apply yield_nonchain_None; try assumption. intros u Su Eu. apply (IHt u Su Eu None). }
    intros [[ac o]|]; [|exact P0].
    rewrite reassoc_atomic by auto. cbn [wrapk yacc]. rewrite pyield_mk_chain, P0, <- app_assoc. reflexivity.
Qed.

Theorem yield_reassoc k t : has_error_node t = false -> pyield (reassoc k None t) = pyield t.
Proof. intros E. apply (@yield_size k (psize t) t (le_n _) E None). Qed.

Definition is_yerr (y : ytok) : bool := match y with YLeaf LError => true | _ => false end.
Lemma has_error_yield t : has_error_node t = existsb is_yerr (pyield t).
Proof.
  unfold pyield, strip.
  induction t using pterm_ind'; cbn; try reflexivity;
    repeat match goal with H : Popt _ ?d |- _ => destruct d; cbn in H end;
    cbn; repeat (rewrite existsb_app; cbn); rew_all; rewrite ?orb_assoc; reflexivity.
Qed.

Lemma noerr_reassoc k t : has_error_node t = false -> has_error_node (reassoc k None t) = false.
Proof. intros E. rewrite has_error_yield, yield_reassoc, <- has_error_yield; assumption. Qed.

Theorem yield_reassociate t : has_error_node t = false -> pyield (reassociate t) = pyield t.
Proof.
  intros E. unfold reassociate. rewrite !yield_reassoc; auto using noerr_reassoc.
Qed.
Print Assumptions yield_reassociate.

(* ------------------------------------------------------------------------------------------ *)
(* 7. The three passes together: a pass keeps the grammar shape of the other precedence levels  *)
(* ------------------------------------------------------------------------------------------ *)
Lemma is_chain_amk_other A k k' (i : A) o x y : k <> k' -> kop k o = true -> is_chain k' (amk k i o x y) = false.
Proof. intros N K. destruct k, k', o; try discriminate K; try reflexivity; congruence. Qed.

Lemma is_chain_foldl_other A k k' (i : A) l : k <> k' -> forallb (fun ox => kop k (fst ox)) l = true ->
  forall x, is_chain k' (foldl_chain k i x l) = match l with [] => is_chain k' x | _ => false end.
Proof.
  intros N. induction l as [|[o y] l IH]; intros K x; [reflexivity|].
  change (kop k o && forallb (fun ox => kop k (fst ox)) l = true) in K. apply andb_true_iff in K. destruct K as [K1 K2].
  change (foldl_chain k i x ((o, y) :: l)) with (foldl_chain k i (amk k i o x y) l).
  rewrite IH by assumption. destruct l; [|reflexivity]. apply is_chain_amk_other; assumption.
Qed.

Definition items_ok (k k' : chain) (l : list (binop * gterm)) : bool :=
  forallb (fun ox => kop k (fst ox) && rspine k' (snd ox)) l.

Lemma items_ok_kop k k' l : items_ok k k' l = true -> forallb (fun ox => kop k (fst ox)) l = true.
Proof.
  unfold items_ok. rewrite !forallb_forall. intros H x Hx. specialize (H x Hx). apply andb_true_iff in H. tauto.
Qed.

Lemma rspine_amk_other k k' i o x y : k <> k' -> kop k o = true ->
  rspine k' (amk k i o x y) = rspine k' x && rspine k' y.
Proof. intros N K. destruct k, k', o; try discriminate K; try reflexivity; congruence. Qed.

Lemma rspine_foldl_other k k' i l : k <> k' -> items_ok k k' l = true ->
  forall x, rspine k' x = true -> rspine k' (foldl_chain k i x l) = true.
Proof.
  intros N. induction l as [|[o y] l IH]; intros K x X; [exact X|].
  change (items_ok k k' ((o, y) :: l)) with (kop k o && rspine k' y && items_ok k k' l) in K.
  apply andb_true_iff in K. destruct K as [K1 K2]. apply andb_true_iff in K1. destruct K1 as [K0 K1].
  change (foldl_chain k i x ((o, y) :: l)) with (foldl_chain k i (amk k i o x y) l).
  apply IH; [assumption|]. rewrite rspine_amk_other by assumption. rewrite X, K1. reflexivity.
Qed.

Definition flat_ok (k k' : chain) (g : gterm) : Prop :=
  rspine k' (fst (flatg k g)) = true /\ items_ok k k' (snd (flatg k g)) = true.

Lemma flat_ok_specg k k' g : k <> k' -> flat_ok k k' g -> rspine k' (specg k g) = true.
Proof. intros N [H1 H2]. unfold specg, closeg. apply rspine_foldl_other; assumption. Qed.

(* the root of [specg k g]: a k-node when g is one, the root of g otherwise *)
Lemma flatg_nonchain k g : is_chain k g = false -> snd (flatg k g) = [] /\ ann (fst (flatg k g)) = ann g
   /\ forall k', is_chain k' (fst (flatg k g)) = is_chain k' g.
Proof.
  destruct g; try (intros _; repeat split; intros []; reflexivity).
  - destruct k; try discriminate; intros _; repeat split; intros []; reflexivity.
  - destruct k; cbn; intros H; rewrite ?H; repeat split; intros []; reflexivity.
Qed.

Lemma flatg_chain_items k g : is_chain k g = true -> snd (flatg k g) <> [].
Proof.
  destruct g; try (destruct k; discriminate).
  - destruct k; try discriminate. intros _. cbn. unfold link. destruct (atomic ChApp g2); discriminate.
  - intros H. assert (K : is_op k o = true) by (destruct k; try discriminate; exact H).
    cbn. rewrite K. unfold link. destruct (atomic k g2); discriminate.
Qed.

Lemma atomic_specg_other k k' g : k <> k' -> flat_ok k k' g -> atomic k' g = true -> atomic k' (specg k g) = true.
Proof.
  intros N [_ F] At. unfold atomic, specg, closeg in *.
  destruct (is_chain k g) eqn:C.
  - rewrite is_chain_foldl_other by (assumption || (eapply items_ok_kop; eassumption)).
    pose proof (flatg_chain_items k g C). destruct (snd (flatg k g)); [congruence|]. apply orb_true_r.
  - destruct (flatg_nonchain k g C) as (E1 & E2 & E3). rewrite E1. cbn. rewrite E2, E3. assumption.
Qed.

Lemma flat_ok_all k k' : k <> k' -> forall g, rspine k' g = true -> flat_ok k k' g.
Proof.
  intros N.
  assert (S : forall u, (rspine k' u = true -> flat_ok k k' u) -> rspine k' u = true ->
              rspine k' (closeg k u (flatg k u)) = true)
    by (intros u H R; apply (flat_ok_specg N (H R))).
  assert (At : forall u, (rspine k' u = true -> flat_ok k k' u) -> rspine k' u = true -> atomic k' u = true ->
               atomic k' (closeg k u (flatg k u)) = true)
    by (intros u H R; apply (atomic_specg_other N (H R))).
  induction g using aterm_ind'; intros R; unfold flat_ok.
  - split; reflexivity.
  - destruct d; cbn in H; cbn [rspine] in R; apply andb_true_iff in R; destruct R as [R1 R2];
      cbn -[closeg]; rewrite ?S by assumption; split; reflexivity.
  - cbn [rspine] in R; apply andb_true_iff in R; destruct R as [R1 R2];
      cbn -[closeg]; rewrite ?S by assumption; split; reflexivity.
  - cbn [rspine] in R. apply andb_true_iff in R. destruct R as [R R2]. apply andb_true_iff in R. destruct R as [R0 R1].
    pose proof (S _ IHg1 R1) as S1. pose proof (S _ IHg2 R2) as S2. destruct (IHg2 R2) as [F1 F2].
    destruct k.
    + cbn [flatg]. unfold link. destruct (atomic ChApp g2); cbn [fst snd]; (split; [assumption|]); unfold items_ok.
      * cbn [forallb fst snd kop]. rewrite S2. reflexivity.
      * cbn [forallb fst snd kop]. apply andb_true_iff; split; [exact F1|exact F2].
    + cbn -[closeg]. split; [|reflexivity]. cbn [rspine]. rewrite S1, S2.
      destruct k'; try congruence; try reflexivity. cbn [is_chain] in *. rewrite (At _ IHg1 R1 R0). reflexivity.
    + cbn -[closeg]. split; [|reflexivity]. cbn [rspine]. rewrite S1, S2.
      destruct k'; try congruence; try reflexivity. cbn [is_chain] in *. rewrite (At _ IHg1 R1 R0). reflexivity.
  - destruct an; cbn in H; cbn [rspine] in R; repeat rewrite andb_true_iff in R;
      cbn -[closeg]; rewrite ?S by tauto; split; reflexivity.
  - cbn [rspine] in R; cbn -[closeg]; rewrite ?S by tauto; split; reflexivity.
  - cbn [rspine] in R. apply andb_true_iff in R. destruct R as [R R2]. apply andb_true_iff in R. destruct R as [R0 R1].
    pose proof (S _ IHg1 R1) as S1. pose proof (S _ IHg2 R2) as S2. destruct (IHg2 R2) as [F1 F2].
    cbn [flatg]. destruct (is_op k o) eqn:K.
    + assert (K' : kop k o = true) by (destruct k; [discriminate K|exact K|exact K]).
      unfold link. destruct (atomic k g2); cbn [fst snd]; (split; [assumption|]); unfold items_ok; cbn [forallb fst snd].
      * rewrite K', S2. reflexivity.
      * rewrite K'. apply andb_true_iff; split; [exact F1|exact F2].
    + cbn [fst snd]. split; [|reflexivity]. cbn [rspine]. rewrite S1, S2.
      destruct (is_chain k' (ABin i o g1 g2)) eqn:C.
      * change (is_chain k' (ABin i o (closeg k g1 (flatg k g1)) (closeg k g2 (flatg k g2)))) with (is_chain k' (ABin i o g1 g2)).
        rewrite C, (At _ IHg1 R1 R0). reflexivity.
      * change (is_chain k' (ABin i o (closeg k g1 (flatg k g1)) (closeg k g2 (flatg k g2)))) with (is_chain k' (ABin i o g1 g2)).
        rewrite C. reflexivity.
  - cbn [rspine] in R; repeat rewrite andb_true_iff in R; cbn -[closeg]; rewrite ?S by tauto; split; reflexivity.
Qed.

Lemma rspine_specg_other k k' g : k <> k' -> rspine k' g = true -> rspine k' (specg k g) = true.
Proof. intros N R. apply (flat_ok_specg N), flat_ok_all; assumption. Qed.

(* the grammar's shape for all three precedence levels *)
Definition wf (g : gterm) : bool := rspine ChApp g && rspine ChMul g && rspine ChAdd g.
Definition specg_all (g : gterm) : gterm := specg ChAdd (specg ChMul (specg ChApp g)).
Definition spec_all (g : gterm) : sterm := spec ChAdd (specg ChMul (specg ChApp g)).

Theorem reassociate_specg t :
  has_error_node t = false -> wf (gstrip t) = true -> gstrip (reassociate t) = specg_all (gstrip t).
Proof.
  intros E W. unfold wf in W. apply andb_true_iff in W. destruct W as [W R3]. apply andb_true_iff in W. destruct W as [R1 R2].
  unfold reassociate, specg_all.
  pose proof (@reassoc_specg ChApp _ E R1) as H1.
  pose proof (@noerr_reassoc ChApp _ E) as E1.
  assert (R2' : rspine ChMul (gstrip (reassoc ChApp None t)) = true)
    by (rewrite H1; apply rspine_specg_other; [discriminate|assumption]).
  pose proof (@reassoc_specg ChMul _ E1 R2') as H2.
  pose proof (@noerr_reassoc ChMul _ E1) as E2.
  assert (R3' : rspine ChAdd (gstrip (reassoc ChMul None (reassoc ChApp None t))) = true)
    by (rewrite H2, H1; apply rspine_specg_other; [discriminate|]; apply rspine_specg_other; [discriminate|assumption]).
  rewrite (@reassoc_specg ChAdd _ E2 R3'), H2, H1. reflexivity.
Qed.

Theorem reassociate_spec t :
  has_error_node t = false -> wf (gstrip t) = true -> strip (reassociate t) = spec_all (gstrip t).
Proof. intros E W. rewrite strip_gstrip, reassociate_specg by assumption. apply forget_specg. Qed.
Print Assumptions reassociate_spec.

(* ------------------------------------------------------------------------------------------ *)
(* 8. Theorem 2: concrete shapes                                                                *)
(* ------------------------------------------------------------------------------------------ *)
(* what the specification says about a node of the pass's own chain kind *)
Definition items (k : chain) (o : binop) (g : gterm) : list (binop * sterm) :=
  if atomic k g then [(o, spec k g)] else (o, fst (flat k g)) :: snd (flat k g).
Lemma spec_amk k g o A B : kop k o = true ->
  spec k (amk k g o A B) = foldl_chain k tt (spec k A) (items k o B).
Proof.
  intros K. rewrite <- !forget_specg, specg_amk, forget_foldl by assumption. f_equal.
  unfold items, itemsg. destruct (atomic k B); cbn; rewrite <- ?forget_specg, ?flat_flatg; reflexivity.
Qed.
Lemma items_atomic k o g : atomic k g = true -> items k o g = [(o, spec k g)].
Proof. intros H. unfold items. rewrite H. reflexivity. Qed.
Lemma items_amk k o o' A B : kop k o' = true ->
  items k o (amk k false o' A B) = (o, spec k A) :: items k o' B.
Proof.
  intros K. unfold items at 1. unfold atomic. rewrite ann_amk, is_chain_amk by assumption. cbn [orb negb].
  rewrite flat_flatg, flatg_amk by assumption. cbn [fflat fst snd]. rewrite forget_specg. f_equal.
  unfold items, itemsg. destruct (atomic k B); cbn; rewrite <- ?forget_specg, ?flat_flatg; reflexivity.
Qed.

(* x0 o1 (x1 o2 x2), inner node not parenthesised  ~>  (x0 o1 x1) o2 x2 *)
Lemma spec_left k g o1 o2 A B C : kop k o1 = true -> kop k o2 = true -> atomic k C = true ->
  spec k (amk k g o1 A (amk k false o2 B C)) = amk k tt o2 (amk k tt o1 (spec k A) (spec k B)) (spec k C).
Proof. intros K1 K2 AC. rewrite spec_amk, items_amk, items_atomic by assumption. reflexivity. Qed.
(* x0 o1 (x1 o2 x2), inner node parenthesised: kept *)
Lemma spec_paren k g o1 o2 A B C : kop k o1 = true -> kop k o2 = true -> atomic k C = true ->
  spec k (amk k g o1 A (amk k true o2 B C)) = amk k tt o1 (spec k A) (amk k tt o2 (spec k B) (spec k C)).
Proof.
  intros K1 K2 AC. rewrite spec_amk, items_atomic by (assumption || (unfold atomic; rewrite ann_amk; reflexivity)).
  rewrite spec_amk, items_atomic by assumption. reflexivity.
Qed.

(* an operand of a k-chain as the grammar produces it: no error node, grammar-shaped, and either
   parenthesised or not a k-node *)
Definition operand (k : chain) (t : pterm) : Prop :=
  has_error_node t = false /\ rspine k (gstrip t) = true /\ atomic k (gstrip t) = true.

Lemma has_error_mk_chain k i o a b : has_error_node (mk_chain k i o a b) = has_error_node a || has_error_node b.
Proof. destruct k; reflexivity. Qed.

Lemma chain3_ok k i1 i2 o1 o2 a b c : kop k o1 = true -> kop k o2 = true ->
  operand k a -> operand k b -> operand k c ->
  has_error_node (mk_chain k i1 o1 a (mk_chain k i2 o2 b c)) = false
  /\ rspine k (gstrip (mk_chain k i1 o1 a (mk_chain k i2 o2 b c))) = true.
Proof.
  intros K1 K2 (Ea & Ra & Aa) (Eb & Rb & Ab) (Ec & Rc & Ac). split.
  - rewrite !has_error_mk_chain, Ea, Eb, Ec. reflexivity.
  - rewrite !gstrip_mk_chain, !rspine_amk, Ra, Rb, Rc, Aa, Ab by assumption. reflexivity.
Qed.

(* a o1 b o2 c, parsed as a o1 (b o2 c), becomes (a o1 b) o2 c *)
Theorem reassoc_left k i1 i2 o1 o2 a b c : kop k o1 = true -> kop k o2 = true -> pgroup i2 = false ->
  operand k a -> operand k b -> operand k c ->
  strip (reassoc k None (mk_chain k i1 o1 a (mk_chain k i2 o2 b c))) =
  amk k tt o2 (amk k tt o1 (strip (reassoc k None a)) (strip (reassoc k None b))) (strip (reassoc k None c)).
Proof.
  intros K1 K2 G Oa Ob Oc. destruct (@chain3_ok k i1 i2 o1 o2 a b c K1 K2 Oa Ob Oc) as [E R].
  destruct Oa as (Ea & Ra & Aa), Ob as (Eb & Rb & Ab), Oc as (Ec & Rc & Ac).
  rewrite reassoc_spec, !gstrip_mk_chain, G, spec_left by assumption.
  rewrite !reassoc_spec by assumption. reflexivity.
Qed.

(* a o1 (b o2 c) with the parentheses in the source stays *)
Theorem reassoc_paren k i1 i2 o1 o2 a b c : kop k o1 = true -> kop k o2 = true -> pgroup i2 = true ->
  operand k a -> operand k b -> operand k c ->
  strip (reassoc k None (mk_chain k i1 o1 a (mk_chain k i2 o2 b c))) =
  amk k tt o1 (strip (reassoc k None a)) (amk k tt o2 (strip (reassoc k None b)) (strip (reassoc k None c))).
Proof.
  intros K1 K2 G Oa Ob Oc. destruct (@chain3_ok k i1 i2 o1 o2 a b c K1 K2 Oa Ob Oc) as [E R].
  destruct Oa as (Ea & Ra & Aa), Ob as (Eb & Rb & Ab), Oc as (Ec & Rc & Ac).
  rewrite reassoc_spec, !gstrip_mk_chain, G, spec_paren by assumption.
  rewrite !reassoc_spec by assumption. reflexivity.
Qed.

(* leaves are operands of every chain *)
Lemma operand_var k i x : operand k (PVar i x).
Proof. repeat split. unfold atomic. destruct k; cbn; apply orb_true_r. Qed.

Definition V (x : name) : sterm := ALeaf tt (LVar x).

Corollary ex_sub_sub i1 i2 ia ib ic a b c : pgroup i2 = false ->          (* a - b - c  ~>  (a - b) - c *)
  strip (reassoc ChAdd None (PBin i1 ODiff (PVar ia a) (PBin i2 ODiff (PVar ib b) (PVar ic c)))) =
  ABin tt ODiff (ABin tt ODiff (V a) (V b)) (V c).
Proof. intros G. apply (@reassoc_left ChAdd i1 i2 ODiff ODiff); auto using operand_var. Qed.
Corollary ex_sub_paren i1 i2 ia ib ic a b c : pgroup i2 = true ->          (* a - (b - c) stays *)
  strip (reassoc ChAdd None (PBin i1 ODiff (PVar ia a) (PBin i2 ODiff (PVar ib b) (PVar ic c)))) =
  ABin tt ODiff (V a) (ABin tt ODiff (V b) (V c)).
Proof. intros G. apply (@reassoc_paren ChAdd i1 i2 ODiff ODiff); auto using operand_var. Qed.
Corollary ex_div_mul i1 i2 ia ib ic a b c : pgroup i2 = false ->          (* a / b * c  ~>  (a / b) * c *)
  strip (reassoc ChMul None (PBin i1 OQuot (PVar ia a) (PBin i2 OProd (PVar ib b) (PVar ic c)))) =
  ABin tt OProd (ABin tt OQuot (V a) (V b)) (V c).
Proof. intros G. apply (@reassoc_left ChMul i1 i2 OQuot OProd); auto using operand_var. Qed.
Corollary ex_app_app i1 i2 ia ib ic f x y : pgroup i2 = false ->          (* f x y, parsed f (x y)  ~>  (f x) y *)
  strip (reassoc ChApp None (PApp i1 (PVar ia f) (PApp i2 (PVar ib x) (PVar ic y)))) =
  AApp tt (AApp tt (V f) (V x)) (V y).
Proof. intros G. apply (@reassoc_left ChApp i1 i2 OSum OSum); auto using operand_var. Qed.
Corollary ex_app_paren i1 i2 ia ib ic f g x : pgroup i2 = true ->          (* f (g x) stays *)
  strip (reassoc ChApp None (PApp i1 (PVar ia f) (PApp i2 (PVar ib g) (PVar ic x)))) =
  AApp tt (V f) (AApp tt (V g) (V x)).
Proof. intros G. apply (@reassoc_paren ChApp i1 i2 OSum OSum); auto using operand_var. Qed.

(* ---- from tokens, through the parser model and the three passes *)
Module ReassocExamples.
Definition T (k : tkind) : ptok := {| pk := k; ps := 0; pe := 0; pname := []; pz := 0 |}.
Definition Id (c : N) : ptok := {| pk := KIdentifier; ps := 0; pe := 0; pname := [c]; pz := 0 |}.
Definition tree_of (toks : list ptok) : option sterm :=
  match parse_stage1 toks true with (S1Tree t, _, _) => Some (strip (reassociate t)) | _ => None end.
(* the raw tree of the parser: grammar-shaped, and [reassociate] on it is the specification *)
Definition raw_ok (toks : list ptok) : bool :=
  match parse_stage1 toks true with (S1Tree t, _, _) => negb (has_error_node t) && wf (gstrip t) | _ => false end.
Definition v (c : N) : sterm := V [c].
Local Notation a := 97%N. Local Notation b := 98%N. Local Notation c := 99%N. Local Notation d := 100%N.
Local Notation f := 102%N. Local Notation g := 103%N. Local Notation x := 120%N. Local Notation y := 121%N.
Definition sub (l r : sterm) : sterm := ABin tt ODiff l r.
Definition add (l r : sterm) : sterm := ABin tt OSum l r.
Definition mul (l r : sterm) : sterm := ABin tt OProd l r.
Definition quo (l r : sterm) : sterm := ABin tt OQuot l r.
Definition app (l r : sterm) : sterm := AApp tt l r.

Example tok_sub_sub : tree_of [Id a; T KMinus; Id b; T KMinus; Id c] = Some (sub (sub (v a) (v b)) (v c)).
Proof. vm_compute. reflexivity. Qed.
Example tok_sub_paren : tree_of [Id a; T KMinus; T KLeftParen; Id b; T KMinus; Id c; T KRightParen] = Some (sub (v a) (sub (v b) (v c))).
Proof. vm_compute. reflexivity. Qed.
Example tok_div_mul : tree_of [Id a; T KSlash; Id b; T KAsterisk; Id c] = Some (mul (quo (v a) (v b)) (v c)).
Proof. vm_compute. reflexivity. Qed.
Example tok_app_app : tree_of [Id f; Id x; Id y] = Some (app (app (v f) (v x)) (v y)).
Proof. vm_compute. reflexivity. Qed.
Example tok_app_paren : tree_of [Id f; T KLeftParen; Id g; Id x; T KRightParen] = Some (app (v f) (app (v g) (v x))).
Proof. vm_compute. reflexivity. Qed.
(* a - b + c - d ; a - b * c / d - f x y *)
Example tok_mixed :
  tree_of [Id a; T KMinus; Id b; T KPlus; Id c; T KMinus; Id d] = Some (sub (add (sub (v a) (v b)) (v c)) (v d))
  /\ tree_of [Id a; T KMinus; Id b; T KAsterisk; Id c; T KSlash; Id d; T KMinus; Id f; Id x; Id y]
     = Some (sub (sub (v a) (quo (mul (v b) (v c)) (v d))) (app (app (v f) (v x)) (v y))).
Proof. vm_compute. split; reflexivity. Qed.
Example tok_raw_ok :
  forallb raw_ok [[Id a; T KMinus; Id b; T KMinus; Id c];
                  [Id a; T KMinus; T KLeftParen; Id b; T KMinus; Id c; T KRightParen];
                  [Id a; T KSlash; Id b; T KAsterisk; Id c]; [Id f; Id x; Id y];
                  [Id f; T KLeftParen; Id g; Id x; T KRightParen];
                  [Id a; T KMinus; Id b; T KAsterisk; Id c; T KSlash; Id d; T KMinus; Id f; Id x; Id y]] = true.
Proof. vm_compute. reflexivity. Qed.

(* ---- the shape hypothesis cannot be dropped: on a tree the grammar cannot produce (an
   unparenthesised difference as LEFT operand of a difference whose right operand is
   parenthesised, reached with a pending left part) the model splices the left operand into the
   chain, the specification does not:  w - ((x - y) - (z))  gives  ((w - x) - y) - z  in the model
   and  (w - (x - y)) - z  in the specification. *)
Definition J0 (g : bool) : pinfo := mk 0 0 g 0.
Definition odd_tree : pterm :=
  PBin (J0 false) ODiff (PVar (J0 false) [a])
    (PBin (J0 false) ODiff (PBin (J0 false) ODiff (PVar (J0 false) [x]) (PVar (J0 false) [y])) (PVar (J0 true) [b])).
Example rspine_needed :
  has_error_node odd_tree = false /\ rspine ChAdd (gstrip odd_tree) = false
  /\ strip (reassoc ChAdd None odd_tree) = sub (sub (sub (v a) (v x)) (v y)) (v b)
  /\ spec ChAdd (gstrip odd_tree) = sub (sub (v a) (sub (v x) (v y))) (v b).
Proof. vm_compute. repeat split; reflexivity. Qed.
End ReassocExamples.

(* ---- the hypothesis "no PError node" holds for every tree that reaches [reassociate] *)
Lemma stage1_tree_noerr toks memo t m s : parse_stage1 toks memo = (S1Tree t, m, s) -> has_error_node t = false.
Proof.
  unfold parse_stage1, parse_stage1_.
  destruct (parse _ _ _ _ _ _ _ _) as [[|t' nx cf] st]; [discriminate|].
  destruct (negb (Nat.eqb (nerrs t') 0)); [discriminate|].
  destruct (negb (N.eqb nx _)); [discriminate|].
  destruct (has_error_node t') eqn:E; [discriminate|]. intros [= <- _ _]. exact E.
Qed.

(* ------------------------------------------------------------------------------------------ *)
(* 9. The raw trees of the parser model have the grammar shape ([wf]): an invariant of [parse]  *)
(*    indexed by the nonterminal, through the memo table                                        *)
(* ------------------------------------------------------------------------------------------ *)
(* how atomic the result of a nonterminal is: 3 = an atom (a leaf or a parenthesised term),
   2 = at most an application, 1 = at most a product / quotient / negation, 0 = anything *)
Definition lvl (n : nt) : nat :=
  match n with
  | Type_ | Variable_ | Integer | IntegerLiteral | Boolean | True_ | False_ | Group | Atom => 3
  | Application | SmallTerm => 2
  | Product | Quotient | MediumTerm | Negation | LargeTerm => 1
  | _ => 0
  end.
Definition shapeb (l : nat) (g : gterm) : bool :=
  ((l <? 3) || atomic ChApp g) && ((l <? 2) || atomic ChMul g) && ((l <? 1) || atomic ChAdd g).
Definition Jt (n : nt) (t : pterm) : Prop := wf (gstrip t) = true /\ shapeb (lvl n) (gstrip t) = true.

Lemma shapeb_mono l l' g : l' <= l -> shapeb l g = true -> shapeb l' g = true.
Proof.
  unfold shapeb. intros L H. repeat rewrite andb_true_iff in *. repeat rewrite orb_true_iff in *.
  repeat rewrite Nat.ltb_lt in *. intuition lia.
Qed.

Lemma perror_Jt n t : is_perror t = true -> Jt n t.
Proof.
  destruct t; try discriminate. intros _. split; [reflexivity|]. unfold shapeb, atomic. cbn.
  rewrite !orb_true_r. reflexivity.
Qed.

Section Shape.
Variable use_memo : bool.
Variable tokmap : PositiveMap.t ptok.
Variable ntoks : nat.
Variable last_tok : option ptok.
Notation error_term' := (error_term tokmap last_tok).
Notation silent_error' := (silent_error tokmap last_tok).
Notation choose' := (choose tokmap last_tok).
Notation run' := (run tokmap last_tok).
Notation build' := (build tokmap last_tok).
Notation expect' := (expect tokmap ntoks).
Notation parse_let' := (parse_let tokmap ntoks last_tok).
Notation parse_if' := (parse_if tokmap ntoks last_tok).
Notation parse_group' := (parse_group tokmap ntoks last_tok).
Notation parse' := (parse use_memo tokmap ntoks last_tok).

Definition J (n : nt) (r : pres) : Prop := match r with PFuel => True | PRes t _ _ => Jt n t end.
Definition TJ (s : mstate) : Prop := forall n pos r, PositiveMap.find (key n pos) (tbl s) = Some r -> J n r.
Definition good (n : nt) (x : M pres) : Prop := forall s, TJ s -> J n (fst (x s)) /\ TJ (snd (x s)).
Definition good_rec (rec : mrec) : Prop := forall n pos, good n (rec n pos).

Lemma error_term_perror p : is_perror (error_term' p) = true.
Proof. unfold error_term. destruct (empty_range tokmap last_tok p). reflexivity. Qed.
Lemma silent_error_perror p : is_perror (silent_error' p) = true.
Proof. unfold silent_error. destruct (empty_range tokmap last_tok p). reflexivity. Qed.
Lemma error_term_J n p nx c : J n (PRes (error_term' p) nx c).
Proof. apply perror_Jt, error_term_perror. Qed.

Lemma good_ret n r : J n r -> good n (ret r).
Proof. intros H s T. split; [exact H | exact T]. Qed.

Lemma J_mono n m r : lvl n <= lvl m -> J m r -> J n r.
Proof. intros L. destruct r as [|t nx c]; [trivial|]. intros [W S]. split; [exact W|]. eapply shapeb_mono; eassumption. Qed.

Lemma choose_good rec n pos : good_rec rec -> forall alts, Forall (fun a => lvl n <= lvl a) alts -> good n (choose' rec pos alts).
Proof.
  intros HR. induction alts as [|a r IH]; intros F s T; cbn [choose].
  - split; [apply error_term_J | exact T].
  - inversion F as [|? ? La Fr]; subst.
    destruct (HR a pos s T) as [Ja Ta]. destruct (rec a pos s) as [[|t nx c] s']; cbn [fst snd] in *; [split; auto|].
    destruct (is_perror t); [apply IH; assumption | split; [|assumption]]. apply (@J_mono n a _ La Ja).
Qed.

Definition child_ok (st : pstep) (c : child) : Prop :=
  match st, c with
  | SConsume _, CTok _ => True
  | STry m, CTerm t | SCommit m, CTerm t => Jt m t
  | _, _ => False
  end.

Lemma run_good rec n : good_rec rec -> forall steps done pos acc conf,
  Forall2 child_ok done (rev acc) ->
  (forall cs t, Forall2 child_ok (done ++ steps) cs -> build' n cs = Some t -> Jt n t) ->
  good n (run' rec n steps pos acc conf).
Proof.
  intros HR. induction steps as [|st steps IH]; intros done pos acc conf HA HB s T; cbn [run].
  - split; [|exact T]. cbn [fst]. destruct (build' n (rev acc)) as [t|] eqn:B; [|apply error_term_J].
    rewrite app_nil_r in HB. exact (HB _ _ HA B).
  - assert (HB' : forall cs t, Forall2 child_ok ((done ++ [st]) ++ steps) cs -> build' n cs = Some t -> Jt n t)
      by (rewrite <- app_assoc; exact HB).
    destruct st as [k|m|m].
    + destruct (is tokmap pos k); [|split; [apply error_term_J | exact T]].
      apply (IH (done ++ [SConsume k])); [|exact HB'|exact T]. cbn [rev]. apply Forall2_app; [exact HA|]. constructor; [exact I|constructor].
    + destruct (HR m pos s T) as [Jm Tm]. destruct (rec m pos s) as [[|t nx c] s']; cbn [fst snd] in *; [split; auto|].
      destruct (is_perror t) eqn:P; [split; [apply perror_Jt; exact P|exact Tm]|].
      apply (IH (done ++ [STry m])); [|exact HB'|exact Tm]. cbn [rev]. apply Forall2_app; [exact HA|]. constructor; [exact Jm|constructor].
    + destruct (HR m pos s T) as [Jm Tm]. destruct (rec m pos s) as [[|t nx c] s']; cbn [fst snd] in *; [split; auto|].
      apply (IH (done ++ [SCommit m])); [|exact HB'|exact Tm]. cbn [rev]. apply Forall2_app; [exact HA|]. constructor; [exact Jm|constructor].
Qed.

Ltac inv_children :=
  repeat match goal with
         | H : Forall2 child_ok (_ :: _) _ |- _ => inversion H; subst; clear H
         | H : Forall2 child_ok [] _ |- _ => inversion H; subst; clear H
         end;
  repeat match goal with
         | H : child_ok _ ?c |- _ => destruct c; cbn [child_ok] in H; [try contradiction | try contradiction]
         end.

Lemma Jt_split n t : Jt n t ->
  rspine ChApp (gstrip t) = true /\ rspine ChMul (gstrip t) = true /\ rspine ChAdd (gstrip t) = true
  /\ shapeb (lvl n) (gstrip t) = true.
Proof. intros [W S]. unfold wf in W. repeat rewrite andb_true_iff in W. tauto. Qed.

Lemma skel_facts n :
  match skel_fast n with
  | FChoice alts => Forall (fun a => lvl n <= lvl a) alts
  | FSeq steps => forall cs t, Forall2 child_ok steps cs -> build' n cs = Some t -> Jt n t
  | FSpecial => True
  end.
Proof.
  destruct n;
    match goal with |- match ?e with _ => _ end => let v := eval vm_compute in e in change e with v end; cbv iota beta;
    try exact I; try (repeat constructor; cbn; lia).
  all: intros cs t F B; inv_children.
  all: cbn [build] in B; repeat match type of B with context [tok_range ?a ?b ?c] => destruct (tok_range a b c) end;
    injection B as <-.
  all: repeat match goal with H : Jt _ _ |- _ => apply Jt_split in H; destruct H as (? & ? & ? & ?) end.
  all: unfold Jt, wf, shapeb, gstrip in *; cbn in *.
  all: repeat match goal with H : _ && _ = true |- _ => apply andb_true_iff in H; destruct H end.
  all: repeat match goal with H : _ = true |- _ => rewrite H; clear H end; split; reflexivity.
Qed.

Lemma bindP_good m n x k : good m x -> (forall t nx c, Jt m t -> good n (k t nx c)) -> good n (bindP x k).
Proof.
  intros Hx Hk s T. unfold bindP. destruct (Hx s T) as [Jx Tx]. destruct (x s) as [[|t nx c] s']; cbn [fst snd] in *; [split; auto|].
  apply Hk; assumption.
Qed.

Lemma expect_TJ want p report s : TJ s -> TJ (snd (expect' want p report s)).
Proof. unfold expect. destruct (scan tokmap (S ntoks) want p 0 0) as [[found nx] st]. intros T. exact T. Qed.

Lemma sub_good rec (found : bool) p : good_rec rec ->
  good Term (if found then rec Term p else ret (PRes (silent_error' p) p false)).
Proof. intros HR. destruct found; [apply HR|]. apply good_ret. apply perror_Jt, silent_error_perror. Qed.

Lemma rspine_with_info k t i : rspine k (gstrip (with_info t i)) = rspine k (gstrip t).
Proof. destruct t; reflexivity. Qed.
Lemma ann_with_info t i : ann (gstrip (with_info t i)) = pgroup i.
Proof. destruct t; reflexivity. Qed.

Lemma parse_group_good rec start : good_rec rec -> good Group (parse_group' rec start).
Proof.
  intros HR. unfold parse_group. destruct (negb (is tokmap start KLeftParen)); [apply good_ret, error_term_J|].
  apply (@bindP_good Term); [apply HR|]. intros t p1 c [W _].
  destruct (is_perror t) eqn:P; [apply good_ret, perror_Jt; exact P|].
  intros s T. pose proof (expect_TJ (want_kind KRightParen) p1 c T) as T1.
  destruct (expect' (want_kind KRightParen) p1 c s) as [[[found p2] phony] s1]. cbn [fst snd] in *.
  destruct (tok_range tokmap last_tok start) as [gs ge0]. destruct (tok_range tokmap last_tok (N.pred p2)) as [gs1 ge].
  cbn [fst snd]. split; [|exact T1]. split.
  - unfold wf in *. rewrite !rspine_with_info. exact W.
  - unfold shapeb, atomic. rewrite ann_with_info. reflexivity.
Qed.

Lemma parse_if_good rec start : good_rec rec -> good If (parse_if' rec start).
Proof.
  intros HR. unfold parse_if. destruct (negb (is tokmap start KIf)); [apply good_ret, error_term_J|].
  destruct (tok_range tokmap last_tok start) as [is_ ie].
  apply (@bindP_good Term); [apply HR|]. intros c p1 cconf [Wc _] s T.
  pose proof (expect_TJ (want_kind KThen) p1 cconf T) as T1.
  destruct (expect' (want_kind KThen) p1 cconf s) as [[[found_then p2] e1] s1]. cbn [fst snd] in *.
  revert s1 T1. apply (@bindP_good Term); [apply sub_good; exact HR|]. intros t p3 tconf [Wt _] s2 T2.
  pose proof (expect_TJ (want_kind KElse) p3 tconf T2) as T3.
  destruct (expect' (want_kind KElse) p3 tconf s2) as [[[found_else p4] e2] s3]. cbn [fst snd] in *.
  revert s3 T3. apply (@bindP_good Term); [apply sub_good; exact HR|]. intros e p5 econf [We _].
  apply good_ret. split; [|reflexivity].
  unfold wf in *. repeat rewrite andb_true_iff in *. cbn [gstrip erase rspine]. fold gstrip.
  repeat rewrite andb_true_iff. tauto.
Qed.

Definition ann_wf (an : option pterm) : Prop := match an with Some a => wf (gstrip a) = true | None => True end.

Lemma let_tail_good rec x xs xe an (eq_found : bool) p3 e1 :
  good_rec rec -> ann_wf an ->
  good Let (bindP (if eq_found then rec Term p3 else ret (PRes (silent_error' p3) p3 false)) (fun d p4 dconf =>
        fun s =>
        let '((t_found, p5, e2), s1) := expect' want_terminator p4 dconf s in
        bindP (if t_found then rec Term p5 else ret (PRes (silent_error' p5) p5 false)) (fun b p6 bconf =>
          ret (PRes (PLet (mk xs (pre (info b)) false (e1 + e2)) x xs xe an d b) p6 bconf)) s1)).
Proof.
  intros HR A.
  apply (@bindP_good Term); [apply sub_good; exact HR|]. intros d p4 dconf [Wd _] s2 T2.
  pose proof (expect_TJ want_terminator p4 dconf T2) as T3.
  destruct (expect' want_terminator p4 dconf s2) as [[[t_found p5] e2] s3]. cbn [fst snd] in *.
  revert s3 T3. apply (@bindP_good Term); [apply sub_good; exact HR|]. intros b p6 bconf [Wb _].
  apply good_ret. split; [|reflexivity].
  destruct an as [a|]; cbn [ann_wf] in A; unfold wf in *; repeat rewrite andb_true_iff in *;
    cbn [gstrip erase rspine]; fold gstrip; repeat rewrite andb_true_iff; tauto.
Qed.

Lemma parse_let_good rec start : good_rec rec -> good Let (parse_let' rec start).
Proof.
  intros HR. unfold parse_let. destruct (negb (is tokmap start KIdentifier)); [apply good_ret, error_term_J|].
  destruct (tok_range tokmap last_tok start) as [xs xe].
  destruct (is tokmap (N.succ start) KColon).
  - apply (@bindP_good SmallTerm); [apply HR|]. intros a p2 c [Wa _].
    destruct (is_perror a) eqn:P; [apply good_ret, perror_Jt; exact P|].
    intros s T. pose proof (expect_TJ (want_kind KEquals) p2 c T) as T1.
    destruct (expect' (want_kind KEquals) p2 c s) as [[[eq_found p3] e1] s1]. cbn [fst snd] in *.
    revert s1 T1. apply let_tail_good; [exact HR|exact Wa].
  - destruct (is tokmap (N.succ start) KEquals); [|apply good_ret, error_term_J].
    apply (@let_tail_good rec (tok_name tokmap start) xs xe None true); [exact HR|exact I].
Qed.

Lemma key_inj n p m q : key n p = key m q -> n = m /\ p = q.
Proof.
  unfold key. intros H. apply (f_equal Pos.pred_N) in H. rewrite !N.pos_pred_succ in H.
  assert (nt_index n < 36 /\ nt_index m < 36) as [Hn Hm] by (split; [destruct n | destruct m]; cbn; lia).
  assert (p = q) by lia. subst q. split; [|reflexivity].
  assert (E : nt_index n = nt_index m) by lia. destruct n, m; try reflexivity; discriminate E.
Qed.

Lemma parse_good : forall fuel, good_rec (parse' fuel).
Proof.
  induction fuel as [|f IH]; intros n pos s T; cbn [parse]; [split; [exact I | exact T]|].
  destruct (if use_memo && memoised_fast n then PositiveMap.find (key n pos) (tbl s) else None) as [r|] eqn:Hit.
  - cbn [fst snd]. split; [|exact T]. destruct (use_memo && memoised_fast n); [exact (T _ _ _ Hit) | discriminate].
  - set (s0 := {| tbl := tbl s; misses := S (misses s); scans := scans s |}).
    assert (T0 : TJ s0) by exact T.
    assert (B : forall x : M pres, good n x ->
              J n (fst (let '(r, s') := x s0 in (r, if use_memo && memoised_fast n
                then {| tbl := PositiveMap.add (key n pos) r (tbl s'); misses := misses s'; scans := scans s' |} else s'))) /\
              TJ (snd (let '(r, s') := x s0 in (r, if use_memo && memoised_fast n
                then {| tbl := PositiveMap.add (key n pos) r (tbl s'); misses := misses s'; scans := scans s' |} else s')))).
    { intros x Hx. destruct (Hx s0 T0) as [Jx Tx]. destruct (x s0) as [r s']. cbn [fst snd] in *. split; [exact Jx|].
      destruct (use_memo && memoised_fast n); [|exact Tx].
      intros m q r0. cbn [tbl]. rewrite PositiveMapAdditionalFacts.gsspec.
      destruct (PositiveMap.E.eq_dec (key m q) (key n pos)) as [E|E]; [|apply Tx].
      apply key_inj in E. destruct E as [-> ->]. intros [= <-]. exact Jx. }
    pose proof (skel_facts n) as SF.
    destruct (skel_fast n) as [alts|steps|].
    + apply (B (choose' (parse' f) pos alts)). apply choose_good; assumption.
    + apply (B (run' (parse' f) n steps pos [] true)). apply (@run_good (parse' f) n IH steps []); [constructor|exact SF].
    + destruct n;
        first [ apply (B (parse_group' (parse' f) pos)); now apply parse_group_good
              | apply (B (parse_let' (parse' f) pos)); now apply parse_let_good
              | apply (B (parse_if' (parse' f) pos)); now apply parse_if_good
              | apply (B (ret (PRes (error_term' pos) pos false))); apply good_ret, error_term_J ].
Qed.

Lemma TJ_empty : TJ empty_state.
Proof. intros n pos r. cbn. rewrite PositiveMap.gempty. discriminate. Qed.

Theorem stage1_tree_wf t m sc : parse_stage1_ use_memo tokmap ntoks last_tok = (S1Tree t, m, sc) -> wf (gstrip t) = true.
Proof.
  unfold parse_stage1_. destruct (parse_good (parse_fuel ntoks) Term 0%N TJ_empty) as [Jr _].
  destruct (parse' (parse_fuel ntoks) Term 0%N empty_state) as [[|t' nx c] s]; cbn [fst snd] in *; [discriminate|].
  destruct (negb (Nat.eqb (nerrs t') 0)); [discriminate|].
  destruct (negb (N.eqb nx _)); [discriminate|].
  destruct (has_error_node t'); [discriminate|]. intros [= <- _ _]. exact (proj1 Jr).
Qed.
End Shape.

(* ------------------------------------------------------------------------------------------ *)
(* 10. End to end: every tree that the parser hands to [reassociate]                           *)
(* ------------------------------------------------------------------------------------------ *)
Theorem parser_tree_wf toks memo t m s : parse_stage1 toks memo = (S1Tree t, m, s) -> wf (gstrip t) = true.
Proof. unfold parse_stage1. apply stage1_tree_wf. Qed.

Theorem parser_reassociate_spec toks memo t m s :
  parse_stage1 toks memo = (S1Tree t, m, s) ->
  strip (reassociate t) = spec_all (gstrip t) /\ pyield (reassociate t) = pyield t.
Proof.
  intros H. pose proof (stage1_tree_noerr _ _ H) as E. pose proof (parser_tree_wf _ _ H) as W.
  split; [apply reassociate_spec; assumption | apply yield_reassociate; assumption].
Qed.
Print Assumptions parser_reassociate_spec.

(* ------------------------------------------------------------------------------------------ *)
(* 11. Theorem 1': all trees without error nodes, no shape hypothesis.  The specification needs *)
(*     one more clause (Q), which describes what the Rust code does on trees that the grammar   *)
(*     cannot produce: when a left part is pending and the right operand of an ungrouped k-node *)
(*     is parenthesised, the LEFT operand of that node is spliced into the chain.               *)
(* ------------------------------------------------------------------------------------------ *)
(* [flatq k t] = (the re-associated t, for every pending operator o the (operator, operand) pairs
   that t contributes to a chain whose left part is pending with o).  It differs from [flat] in one
   clause, marked (Q). *)
Fixpoint flatq (k : chain) (t : gterm) : sterm * (binop -> list (binop * sterm)) :=
  let S u := fst (flatq k u) in
  let single (r : sterm) : sterm * (binop -> list (binop * sterm)) := (r, fun o => [(o, r)]) in
  let node (g : bool) (o' : binop) (a b : gterm) : sterm * (binop -> list (binop * sterm)) :=
    let r := foldl_chain k tt (S a) (snd (flatq k b) o') in
    (r, fun o => if g then [(o, r)]
                 else if ann b then snd (flatq k a) o ++ [(o', S b)]          (* (Q) *)
                 else (o, S a) :: snd (flatq k b) o') in
  match t with
  | ALeaf _ l => single (ALeaf tt l)
  | ALam _ x im d b => single (ALam tt x im (match d with Some d => Some (S d) | None => None end) (S b))
  | APi _ x im d c => single (APi tt x im (S d) (S c))
  | AApp g f a =>
      match k with
      | ChApp => node g OSum f a
      | _ => single (AApp tt (S f) (S a))
      end
  | ALet _ x an d b => single (ALet tt x (match an with Some a => Some (S a) | None => None end) (S d) (S b))
  | ANeg _ a => single (ANeg tt (S a))
  | ABin g o a b => if is_op k o then node g o a b else single (ABin tt o (S a) (S b))
  | AIf _ c a b => single (AIf tt (S c) (S a) (S b))
  end.
Definition specq (k : chain) (t : gterm) : sterm := fst (flatq k t).
Definition itemsq (k : chain) (o : binop) (t : gterm) : list (binop * sterm) := snd (flatq k t) o.

Lemma specq_amk k g o A B : kop k o = true ->
  specq k (amk k g o A B) = foldl_chain k tt (specq k A) (itemsq k o B).
Proof. intros K. unfold specq, itemsq. destruct k; [destruct o; try discriminate| |]; cbn in K |- *; rewrite ?K; reflexivity. Qed.
Lemma itemsq_amk k g o' A B o : kop k o' = true ->
  itemsq k o (amk k g o' A B) =
  if g then [(o, specq k (amk k g o' A B))]
  else if ann B then itemsq k o A ++ [(o', specq k B)] else (o, specq k A) :: itemsq k o' B.
Proof. intros K. unfold specq, itemsq. destruct k; [destruct o'; try discriminate| |]; cbn in K |- *; rewrite ?K; reflexivity. Qed.
Lemma itemsq_nonchain k g o : is_chain k g = false -> itemsq k o g = [(o, specq k g)].
Proof.
  unfold itemsq, specq. destruct g; try reflexivity.
  - destruct k; try discriminate; reflexivity.
  - destruct k; cbn; intros H; rewrite ?H; reflexivity.
Qed.
Lemma itemsq_grouped k g o : ann g = true -> itemsq k o g = [(o, specq k g)].
Proof.
  unfold itemsq, specq. destruct g; try reflexivity; cbn [ann]; intros ->.
  - destruct k; reflexivity.
  - cbn. destruct (is_op k o0); reflexivity.
Qed.

Lemma strip_mk_chain k i o a b : strip (mk_chain k i o a b) = amk k tt o (strip a) (strip b).
Proof. apply erase_mk_chain. Qed.

Lemma nonchain_None_q k t :
  chain_op k t = None -> has_error_node t = false ->
  (forall u, psize u < psize t -> has_error_node u = false -> strip (reassoc k None u) = specq k (gstrip u)) ->
  strip (reassoc k None t) = specq k (gstrip t).
Proof.
  intros C E IH. unfold specq in *.
  destruct t as [| | | | | | | |? ? ? ? ? od ?| | |? ? ? ? oa ? ?| | |]; cbn [has_error_node] in E; try discriminate E; try reflexivity.
  all: try (destruct od); try (destruct oa).
  all: match goal with
       | |- context [PApp] => destruct k; try discriminate C
       | |- context [PBin _ ?o] => destruct k, o; try discriminate C
       | _ => idtac
       end.
  all: cbn [has_error_node] in E; repeat rewrite orb_false_iff in E.
  all: unfold strip in *; cbn; repeat f_equal; apply IH; solve [cbn; lia | tauto].
Qed.

Definition Pq (k : chain) (t : pterm) : Prop :=
  strip (reassoc k None t) = specq k (gstrip t)
  /\ forall ac o, strip (reassoc k (Some (ac, o)) t) = foldl_chain k tt (strip ac) (itemsq k o (gstrip t)).

Lemma mainq_size k : forall n t, psize t <= n -> has_error_node t = false -> Pq k t.
Proof.
  induction n as [|n IH]; intros t Sz E; [destruct t; cbn in Sz; lia|].
  assert (IHt : forall u, psize u < psize t -> has_error_node u = false -> Pq k u)
    by (intros; apply IH; [lia|assumption]).
  clear IH. pose proof (is_perror_noerr _ E) as Pe.
  destruct (chain_op k t) as [[[o' a] b]|] eqn:C.
  - destruct (@chain_op_inv _ _ _ _ _ C) as (K & ER & Sa & Sb & Et).
    assert (GT : gstrip t = amk k (grp t) o' (gstrip a) (gstrip b)) by apply ER. clear ER.
    rewrite Et in E. apply orb_false_iff in E. destruct E as [Ea Eb].
    destruct (IHt a Sa Ea) as [IHa0 IHa1]. destruct (IHt b Sb Eb) as [IHb0 IHb1].
    assert (P0 : strip (reassoc k None t) = specq k (gstrip t)).
    { rewrite GT, specq_amk by assumption.
      destruct (grp b) eqn:Gb.
      - rewrite (@reassoc_keep _ _ _ _ _ C Gb), strip_mk_chain, IHa0, IHb0, itemsq_grouped by (rewrite ann_gstrip; assumption).
        reflexivity.
      - rewrite (@reassoc_rotate _ _ _ _ _ None C Gb I), IHb1, IHa0. reflexivity. }
    split; [exact P0|]. intros ac o.
    destruct (grp t) eqn:Gt.
    + rewrite reassoc_atomic by auto. cbn [wrapk].
      rewrite strip_mk_chain, P0, itemsq_grouped by (rewrite ann_gstrip; assumption). reflexivity.
    + rewrite GT, itemsq_amk, ann_gstrip by assumption. cbv iota.
      destruct (grp b) eqn:Gb.
      * rewrite (@reassoc_keep_acc _ _ _ _ _ ac o C Gb Gt), strip_mk_chain, IHa1, IHb0.
        unfold foldl_chain. rewrite fold_left_app. reflexivity.
      * rewrite (@reassoc_rotate _ _ _ _ _ (Some (ac, o)) C Gb Gt), IHb1, strip_mk_chain, IHa0. reflexivity.
  - assert (P0 : strip (reassoc k None t) = specq k (gstrip t)).
    { apply nonchain_None_q; try assumption. intros u Su Eu. apply (IHt u Su Eu). }
    split; [exact P0|]. intros ac o.
    rewrite reassoc_atomic by auto. cbn [wrapk].
    rewrite strip_mk_chain, P0, itemsq_nonchain; [reflexivity|]. rewrite is_chain_gstrip, C. reflexivity.
Qed.

(* Theorem 1': no shape hypothesis *)
Theorem reassoc_specq k t : has_error_node t = false -> strip (reassoc k None t) = specq k (gstrip t).
Proof. intros E. apply (@mainq_size k (psize t) t (le_n _) E). Qed.
Print Assumptions reassoc_specq.

(* on grammar-shaped trees clause (Q) never fires: the two specifications agree *)
Lemma specq_spec k : forall g, rspine k g = true ->
  specq k g = spec k g /\ forall o, itemsq k o g = items k o g.
Proof.
  assert (NC : forall g, is_chain k g = false -> specq k g = spec k g -> forall o, itemsq k o g = items k o g).
  { intros g H E o. rewrite itemsq_nonchain, E by assumption. unfold items, atomic. rewrite H, orb_true_r. reflexivity. }
  assert (CH : forall i o A B, kop k o = true -> rspine k (amk k i o A B) = true ->
               (rspine k A = true -> specq k A = spec k A /\ forall o, itemsq k o A = items k o A) ->
               (rspine k B = true -> specq k B = spec k B /\ forall o, itemsq k o B = items k o B) ->
               specq k (amk k i o A B) = spec k (amk k i o A B)
               /\ forall o0, itemsq k o0 (amk k i o A B) = items k o0 (amk k i o A B)).
  { intros i o A B K R IA IB. rewrite rspine_amk in R by assumption.
    apply andb_true_iff in R. destruct R as [R RB]. apply andb_true_iff in R. destruct R as [AA RA].
    destruct (IA RA) as [A0 A1]. destruct (IB RB) as [B0 B1].
    assert (E : specq k (amk k i o A B) = spec k (amk k i o A B))
      by (rewrite specq_amk, spec_amk, A0, B1 by assumption; reflexivity).
    split; [exact E|]. intros o0. rewrite itemsq_amk by assumption. destruct i.
    - rewrite E, items_atomic; [reflexivity|]. unfold atomic. rewrite ann_amk. reflexivity.
    - rewrite items_amk by assumption. destruct (ann B) eqn:GB.
      + rewrite A1, B0, !items_atomic; [reflexivity| |assumption]. unfold atomic. rewrite GB. reflexivity.
      + rewrite A0, B1. reflexivity. }
  induction g using aterm_ind'; intros R.
  - split; [reflexivity|]. apply NC; [destruct k|]; reflexivity.
  - assert (E : specq k (ALam i x im d g) = spec k (ALam i x im d g)).
    { cbn [rspine] in R. apply andb_true_iff in R. destruct R as [R1 R2]. destruct (IHg R2) as [E2 _].
      unfold specq, spec in *. destruct d; cbn in H |- *; [destruct (H R1) as [E1 _]|]; rewrite ?E1, E2; reflexivity. }
    split; [exact E|]. apply NC; [destruct k; reflexivity|exact E].
  - assert (E : specq k (APi i x im g1 g2) = spec k (APi i x im g1 g2)).
    { cbn [rspine] in R. apply andb_true_iff in R. destruct R as [R1 R2]. destruct (IHg1 R1) as [E1 _]. destruct (IHg2 R2) as [E2 _].
      unfold specq, spec in *. cbn. rewrite E1, E2. reflexivity. }
    split; [exact E|]. apply NC; [destruct k; reflexivity|exact E].
  - destruct k.
    + apply (CH i OSum g1 g2 eq_refl R IHg1 IHg2).
    + assert (E : specq ChMul (AApp i g1 g2) = spec ChMul (AApp i g1 g2)).
      { cbn [rspine is_chain] in R. apply andb_true_iff in R. destruct R as [R1 R2]. destruct (IHg1 R1) as [E1 _]. destruct (IHg2 R2) as [E2 _].
        unfold specq, spec in *. cbn. rewrite E1, E2. reflexivity. }
      split; [exact E|]. apply NC; [reflexivity|exact E].
    + assert (E : specq ChAdd (AApp i g1 g2) = spec ChAdd (AApp i g1 g2)).
      { cbn [rspine is_chain] in R. apply andb_true_iff in R. destruct R as [R1 R2]. destruct (IHg1 R1) as [E1 _]. destruct (IHg2 R2) as [E2 _].
        unfold specq, spec in *. cbn. rewrite E1, E2. reflexivity. }
      split; [exact E|]. apply NC; [reflexivity|exact E].
  - assert (E : specq k (ALet i x an g1 g2) = spec k (ALet i x an g1 g2)).
    { cbn [rspine] in R. apply andb_true_iff in R. destruct R as [R R3]. apply andb_true_iff in R. destruct R as [R1 R2].
      destruct (IHg1 R2) as [E1 _]. destruct (IHg2 R3) as [E2 _].
      unfold specq, spec in *. destruct an; cbn in H |- *; [destruct (H R1) as [E0 _]|]; rewrite ?E0, E1, E2; reflexivity. }
    split; [exact E|]. apply NC; [destruct k; reflexivity|exact E].
  - assert (E : specq k (ANeg i g) = spec k (ANeg i g)).
    { cbn [rspine] in R. destruct (IHg R) as [E1 _]. unfold specq, spec in *. cbn. rewrite E1. reflexivity. }
    split; [exact E|]. apply NC; [destruct k; reflexivity|exact E].
  - destruct (is_chain k (ABin i o g1 g2)) eqn:C.
    + assert (K : kop k o = true) by (destruct k; [discriminate C|exact C|exact C]).
      assert (EQ : ABin i o g1 g2 = amk k i o g1 g2) by (destruct k; [discriminate C|reflexivity|reflexivity]).
      rewrite EQ in *. apply (CH i o g1 g2 K R IHg1 IHg2).
    + assert (K : is_op k o = false) by (destruct k; [destruct o; reflexivity|exact C|exact C]).
      assert (E : specq k (ABin i o g1 g2) = spec k (ABin i o g1 g2)).
      { cbn [rspine] in R. rewrite C in R. apply andb_true_iff in R. destruct R as [R1 R2]. cbn [andb] in R1.
        destruct (IHg1 R1) as [E1 _]. destruct (IHg2 R2) as [E2 _].
        unfold specq, spec in *. cbn. rewrite K. cbn. rewrite E1, E2. reflexivity. }
      split; [exact E|]. apply NC; [exact C|exact E].
  - assert (E : specq k (AIf i g1 g2 g3) = spec k (AIf i g1 g2 g3)).
    { cbn [rspine] in R. apply andb_true_iff in R. destruct R as [R R3]. apply andb_true_iff in R. destruct R as [R1 R2].
      destruct (IHg1 R1) as [E1 _]. destruct (IHg2 R2) as [E2 _]. destruct (IHg3 R3) as [E3 _].
      unfold specq, spec in *. cbn. rewrite E1, E2, E3. reflexivity. }
    split; [exact E|]. apply NC; [destruct k; reflexivity|exact E].
Qed.

(* ------------------------------------------------------------------------------------------ *)
(* 12. Assumptions                                                                              *)
(* ------------------------------------------------------------------------------------------ *)
Print Assumptions reassoc_specg.
Print Assumptions reassoc_spec.
Print Assumptions reassociate_specg.
Print Assumptions reassociate_spec.
Print Assumptions yield_reassoc.
Print Assumptions yield_reassociate.
Print Assumptions noerr_reassoc.
Print Assumptions rspine_specg_other.
Print Assumptions reassoc_left.
Print Assumptions reassoc_paren.
Print Assumptions ex_sub_sub.
Print Assumptions ex_sub_paren.
Print Assumptions ex_div_mul.
Print Assumptions ex_app_app.
Print Assumptions ex_app_paren.
Print Assumptions ReassocExamples.tok_sub_sub.
Print Assumptions ReassocExamples.tok_sub_paren.
Print Assumptions ReassocExamples.tok_div_mul.
Print Assumptions ReassocExamples.tok_app_app.
Print Assumptions ReassocExamples.tok_app_paren.
Print Assumptions ReassocExamples.tok_mixed.
Print Assumptions ReassocExamples.tok_raw_ok.
Print Assumptions ReassocExamples.rspine_needed.
Print Assumptions stage1_tree_noerr.
Print Assumptions stage1_tree_wf.
Print Assumptions parser_tree_wf.
Print Assumptions parser_reassociate_spec.
Print Assumptions reassoc_specq.
Print Assumptions specq_spec.
