(* Soundness of the store-passing checker model (Model B, tcB) on fully annotated (hole-free)
   programs, "up to zonking".

   Even on hole-free input the application rule of tcB allocates two fresh cells ?dom ?cod, unifies
   TPi false ?dom ?cod with the type of the function (which solves both) and continues with terms
   that mention these SOLVED cells.  The invariant below (zk s t u: "under store s the term t is
   fully solved and zonks to the hole-free term u") says that no unsolved cell is reachable from
   any term in play, which is exactly why the D9 defect (openB copies an unsolved cell) cannot fire.

   Layers (every statement ends with Qed; Print Assumptions at the end of the file):
     L1  zk (zk_fun, zk_hf, zk_ext); sshiftB/ushiftB/openB on fully solved terms leave the store alone
         and return EXACTLY ushift/open of the zonked terms (sshiftB_zk_exact, openB_zk_exact); groups
         included.
     L2  let_substB_zk, whnfB_zk (whnfB computes whnf of the zonk, same fuel), headB_zk, syn_eqB_zk,
         occursB_zk; unifyB_zk_agrees (verdict = verdict of convb on the zonks, store unchanged; groups
         included); unifyB_zk (a positive verdict on group-free zonks is a conv derivation).
     L3  unifyB_fresh_hole, unifyB_pi_fresh: TPi false ?dom ?cod (fresh, unsolved) against a fully
         solved type assigns both cells; TPi false (Z ?dom) (Z ?cod) is convertible with the type.
     L4  tcB_sound_nl (group-free programs, any context), tcB_sound_spine (definition groups on the
         spine of the program), tcB_sound_full (ALL hole-free programs, under the premise that conv
         ignores the annotations of group definitions: let_annotations_irrelevant).
     Main theorems: tcB_sound_hole_free_spine(_zonkB), tcB_sound_hole_free_nolet(_zonkB),
         tcB_sound_hole_free_modulo_let_annotations.  zk_zonkB links zk with the model's zonkB. *)
From Coq Require Import List ZArith Lia Bool Arith Relations.
Import ListNotations.
Require Import Gram.Model.Term Gram.Model.DeBruijn Gram.Model.Eval Gram.Model.ModelB Gram.Spec.Typing Gram.Oracle.Infer.
Require Import Gram.Proofs.DeBruijnLaws Gram.Proofs.ModelBProofs Gram.Proofs.InferSound Gram.Proofs.ConvProofs
               Gram.Proofs.ConvSym Gram.Proofs.StoreProofs Gram.Proofs.StoreTc Gram.Proofs.ModelBHoleFree.
Require Gram.Proofs.AcyclicProofs.
Require Gram.Proofs.EvalEnvProofs.
Notation no_let := Gram.Proofs.EvalEnvProofs.no_let.

(* ====================================================================================== *)
(* L1.  The invariant: fully solved terms and their zonking                                *)
(* ====================================================================================== *)

(* zk s t u : every cell reachable from t is solved in s (transitively), and u is t with every cell
   replaced by its (zonked) solution, shifted by the cell's own shift.  The derivation is finite, so
   no acyclicity side condition is needed: it is implied for the reachable part of the store. *)
Inductive zk (s : storeB) : term -> term -> Prop :=
| zk_hole id sh sol u : sget s id = Some sol -> zk s sol u -> zk s (THole id sh) (ushift u 0 sh)
| zk_type : zk s TType TType
| zk_int : zk s TInt TInt
| zk_bool : zk s TBool TBool
| zk_true : zk s TTrue TTrue
| zk_false : zk s TFalse TFalse
| zk_lit z : zk s (TLit z) (TLit z)
| zk_var i : zk s (TVar i) (TVar i)
| zk_lam im d b d' b' : zk s d d' -> zk s b b' -> zk s (TLam im d b) (TLam im d' b')
| zk_pi im d b d' b' : zk s d d' -> zk s b b' -> zk s (TPi im d b) (TPi im d' b')
| zk_app a b a' b' : zk s a a' -> zk s b b' -> zk s (TApp a b) (TApp a' b')
| zk_let ds b ds' b' : zkds s ds ds' -> zk s b b' -> zk s (TLet ds b) (TLet ds' b')
| zk_neg a a' : zk s a a' -> zk s (TNeg a) (TNeg a')
| zk_bin o a b a' b' : zk s a a' -> zk s b b' -> zk s (TBin o a b) (TBin o a' b')
| zk_if c a b c' a' b' : zk s c c' -> zk s a a' -> zk s b b' -> zk s (TIf c a b) (TIf c' a' b')
with zkds (s : storeB) : list (term * term) -> list (term * term) -> Prop :=
| zkds_nil : zkds s [] []
| zkds_cons a d a' d' r r' : zk s a a' -> zk s d d' -> zkds s r r' -> zkds s ((a, d) :: r) ((a', d') :: r').

Scheme zk_mind := Minimality for zk Sort Prop
  with zkds_mind := Minimality for zkds Sort Prop.
Combined Scheme zk_zkds_ind from zk_mind, zkds_mind.

Lemma zk_inv s t u : zk s t u ->
  match t with
  | THole id sh => exists sol u0, sget s id = Some sol /\ zk s sol u0 /\ u = ushift u0 0 sh
  | TLam im d b => exists d' b', u = TLam im d' b' /\ zk s d d' /\ zk s b b'
  | TPi im d b => exists d' b', u = TPi im d' b' /\ zk s d d' /\ zk s b b'
  | TApp a b => exists a' b', u = TApp a' b' /\ zk s a a' /\ zk s b b'
  | TLet ds b => exists ds' b', u = TLet ds' b' /\ zkds s ds ds' /\ zk s b b'
  | TNeg a => exists a', u = TNeg a' /\ zk s a a'
  | TBin o a b => exists a' b', u = TBin o a' b' /\ zk s a a' /\ zk s b b'
  | TIf c a b => exists c' a' b', u = TIf c' a' b' /\ zk s c c' /\ zk s a a' /\ zk s b b'
  | _ => u = t
  end.
Proof. destruct 1; eauto 8. Qed.

Lemma zkds_inv s l lu : zkds s l lu ->
  match l with
  | [] => lu = []
  | (a, d) :: r => exists a' d' r', lu = (a', d') :: r' /\ zk s a a' /\ zk s d d' /\ zkds s r r'
  end.
Proof. destruct 1; eauto 8. Qed.

Lemma zkds_length s l lu : zkds s l lu -> length lu = length l.
Proof. induction 1; cbn [length]; congruence. Qed.

(* the zonked term is hole-free *)
Lemma zk_hf_both s :
  (forall t u, zk s t u -> hole_free u = true) /\ (forall l lu, zkds s l lu -> hf_defs lu = true).
Proof.
  apply zk_zkds_ind; intros; cbn [hole_free]; try reflexivity;
    try (repeat match goal with H : hole_free _ = true |- _ => rewrite H; clear H end; reflexivity).
  - rewrite hf_ushift. assumption.
  - match goal with H : hf_defs _ = true |- _ => unfold hf_defs in H; rewrite H end. assumption.
  - apply hf_defs_cons. auto.
Qed.
Lemma zk_hf s t u : zk s t u -> hole_free u = true.
Proof. apply zk_hf_both. Qed.
Lemma zkds_hf s l lu : zkds s l lu -> hf_defs lu = true.
Proof. apply zk_hf_both. Qed.

(* a hole-free term is fully solved and is its own zonk, in every store *)
Lemma zk_refl_hf s : forall t, hole_free t = true -> zk s t t.
Proof.
  induction t using term_ind'; cbn [hole_free]; intros Hf; try discriminate; try constructor;
    repeat match goal with H : _ && _ = true |- _ => apply andb_true_iff in H; destruct H end; auto.
  match goal with H : forallb _ _ = true |- _ => rename H into Hd end. clear - H Hd.
  induction H as [|[a d] r [Ha Hd'] _ IH]; [constructor|].
  cbn [forallb fst snd] in *. repeat match goal with H : _ && _ = true |- _ => apply andb_true_iff in H; destruct H end.
  constructor; auto.
Qed.

Lemma zkds_refl_hf s : forall l, hf_defs l = true -> zkds s l l.
Proof.
  induction l as [|[a d] r IH]; intros H; [constructor|].
  apply hf_defs_cons in H. destruct H as (Ha & Hd & Hr). constructor; auto using zk_refl_hf.
Qed.

(* growing / extending the store keeps zonkings *)
Lemma zk_ext_both s s' : ext s s' ->
  (forall t u, zk s t u -> zk s' t u) /\ (forall l lu, zkds s l lu -> zkds s' l lu).
Proof.
  intros [_ E]. apply (zk_zkds_ind s); intros; try (constructor; auto; fail).
  econstructor; [apply E; eassumption | assumption].
Qed.
Lemma zk_ext s s' t u : ext s s' -> zk s t u -> zk s' t u.
Proof. intros E. apply (zk_ext_both _ _ E). Qed.
Lemma zkds_ext s s' l lu : ext s s' -> zkds s l lu -> zkds s' l lu.
Proof. intros E. apply (zk_ext_both _ _ E). Qed.

(* zonking is a function *)
Lemma zk_fun_both s :
  (forall t u, zk s t u -> forall u', zk s t u' -> u' = u) /\
  (forall l lu, zkds s l lu -> forall lu', zkds s l lu' -> lu' = lu).
Proof.
  apply (zk_zkds_ind s); intros;
    match goal with
    | H : zk _ _ ?u' |- ?u' = _ => apply zk_inv in H; cbn beta iota in H
    | H : zkds _ _ ?u' |- ?u' = _ => apply zkds_inv in H; cbn beta iota in H
    end;
    repeat match goal with
    | H : exists _, _ |- _ => destruct H
    | H : _ /\ _ |- _ => destruct H
    end; subst; try reflexivity;
    repeat match goal with
    | IH : forall u', zk _ ?t u' -> u' = _, H : zk _ ?t _ |- _ => apply IH in H; subst
    | IH : forall u', zkds _ ?t u' -> u' = _, H : zkds _ ?t _ |- _ => apply IH in H; subst
    end; try reflexivity.
  match goal with H1 : sget s id = Some _, H2 : sget s id = Some _ |- _ => rewrite H1 in H2; injection H2 as <- end.
  match goal with IH : forall u', zk _ ?t u' -> u' = _, H : zk _ ?t _ |- _ => apply IH in H; subst end. reflexivity.
Qed.
Lemma zk_fun s t u u' : zk s t u -> zk s t u' -> u' = u.
Proof. intros H. now apply (zk_fun_both s). Qed.

Definition is_hole (t : term) : bool := match t with THole _ _ => true | _ => false end.

(* a fully solved hole is a solved hole *)
Lemma zk_hole_solved s id sh u : zk s (THole id sh) u -> sget s id <> None.
Proof. intros H. apply zk_inv in H. destruct H as (sol & u0 & E & _). congruence. Qed.

(* ---------- L1(a): shifting a fully solved term ---------- *)
(* Model B's shift INLINES every solved cell, so on a fully solved term its output contains no cell
   at all: it is exactly the shifted zonk. *)
Definition ushift_pair (c n : nat) (p : term * term) : term * term := let '(a, d) := p in (ushift a c n, ushift d c n).

Lemma sshiftB_defs_zk f s c n :
  (forall t r u, zk s t u -> sshiftB f s t c (Z.of_nat n) = Some r -> r = Some (ushift u c n)) ->
  forall l lu r, zkds s l lu -> sshiftB_defs f s c (Z.of_nat n) l = Some r ->
    r = Some (map (ushift_pair c n) lu).
Proof.
  intros IH. induction l as [|[a d] l IHl]; intros lu r Hz H; apply zkds_inv in Hz; cbn [sshiftB_defs] in H.
  - subst lu. injection H as <-. reflexivity.
  - destruct Hz as (a' & d' & r' & -> & Ha & Hd & Hr).
    destruct (sshiftB f s a c (Z.of_nat n)) as [xa|] eqn:Ea; [|discriminate].
    destruct (sshiftB f s d c (Z.of_nat n)) as [xd|] eqn:Ed; [|discriminate].
    destruct (sshiftB_defs f s c (Z.of_nat n) l) as [xr|] eqn:Er; [|discriminate].
    rewrite (IH _ _ _ Ha Ea), (IH _ _ _ Hd Ed), (IHl _ _ Hr eq_refl) in H.
    injection H as <-. reflexivity.
Qed.

Ltac step_ss IH H :=
  match type of H with
  | context [match sshiftB ?f ?s ?t ?c (Z.of_nat ?n) with _ => _ end] =>
      let E := fresh "E" in let x := fresh "x" in
      destruct (sshiftB f s t c (Z.of_nat n)) as [x|] eqn:E; [|discriminate H];
      match goal with Hz : zk s t _ |- _ => rewrite (IH _ _ _ _ _ _ Hz E) in H end
  end.

Theorem sshiftB_zk_exact : forall f s t c n r u, zk s t u -> sshiftB f s t c (Z.of_nat n) = Some r ->
  r = Some (ushift u c n).
Proof.
  induction f as [|f IH]; intros s t c n r u Hz H; [discriminate|].
  destruct t; apply zk_inv in Hz; cbn beta iota in Hz; cbn [sshiftB] in H; cbv beta zeta in H.
  - (* solved hole *) destruct Hz as (sol & u0 & Es & Hs & ->). rewrite Es in H.
    step_ss IH H. apply (IH _ _ _ _ _ _ (zk_refl_hf s _ (eq_trans (hf_ushift _ _ _) (zk_hf _ _ _ Hs))) H).
  - subst u. injection H as <-. reflexivity.
  - subst u. injection H as <-. reflexivity.
  - subst u. injection H as <-. reflexivity.
  - subst u. injection H as <-. reflexivity.
  - subst u. injection H as <-. reflexivity.
  - subst u. injection H as <-. reflexivity.
  - subst u. injection H as <-. rewrite shift_idx_up. reflexivity.
  - destruct Hz as (d' & b' & -> & Hd & Hb). step_ss IH H. step_ss IH H. injection H as <-. reflexivity.
  - destruct Hz as (d' & b' & -> & Hd & Hb). step_ss IH H. step_ss IH H. injection H as <-. reflexivity.
  - destruct Hz as (d' & b' & -> & Hd & Hb). step_ss IH H. step_ss IH H. injection H as <-. reflexivity.
  - (* let *)
    destruct Hz as (ds' & b' & -> & Hds & Hb).
    change (match sshiftB_defs f s (length defs + c) (Z.of_nat n) defs with
            | Some ds' => match sshiftB f s t (length defs + c) (Z.of_nat n) with
                          | Some b' => Some (match ds', b' with Some x, Some y => Some (TLet x y) | _, _ => None end)
                          | None => None end
            | None => None end = Some r) in H.
    destruct (sshiftB_defs f s (length defs + c) (Z.of_nat n) defs) as [xs|] eqn:E1; [|discriminate].
    rewrite (sshiftB_defs_zk f s _ n (fun t r u => IH s t _ n r u) _ _ _ Hds E1) in H.
    step_ss IH H. injection H as <-. cbn [ushift]. rewrite (zkds_length _ _ _ Hds). reflexivity.
  - destruct Hz as (a' & -> & Ha). step_ss IH H. injection H as <-. reflexivity.
  - destruct Hz as (d' & b' & -> & Hd & Hb). step_ss IH H. step_ss IH H. injection H as <-. reflexivity.
  - destruct Hz as (c' & a' & b' & -> & Hc & Ha & Hb). step_ss IH H. step_ss IH H. step_ss IH H. injection H as <-. reflexivity.
Qed.

Corollary ushiftB_zk_exact f s t c n t' u : zk s t u -> ushiftB f s t c n = Some t' -> t' = ushift u c n.
Proof.
  unfold ushiftB. intros Hz H. destruct (sshiftB f s t c (Z.of_nat n)) as [r|] eqn:E; [|discriminate].
  rewrite (sshiftB_zk_exact _ _ _ _ _ _ _ Hz E) in H. now injection H as <-.
Qed.

(* the same facts in "up to zonking" form *)
Corollary sshiftB_zk f s t c n r u : zk s t u -> sshiftB f s t c (Z.of_nat n) = Some r ->
  exists t', r = Some t' /\ zk s t' (ushift u c n).
Proof.
  intros Hz H. rewrite (sshiftB_zk_exact _ _ _ _ _ _ _ Hz H). eexists; split; [reflexivity|].
  apply zk_refl_hf. rewrite hf_ushift. exact (zk_hf _ _ _ Hz).
Qed.

Corollary ushiftB_zk f s t c n t' u : zk s t u -> ushiftB f s t c n = Some t' -> zk s t' (ushift u c n).
Proof.
  intros Hz H. rewrite (ushiftB_zk_exact _ _ _ _ _ _ _ Hz H).
  apply zk_refl_hf. rewrite hf_ushift. exact (zk_hf _ _ _ Hz).
Qed.

(* ---------- L1(b): opening a fully solved term (a SOLVED cell is inlined, so no cell is copied:
   the D9 defect cannot fire) ---------- *)
Lemma openB_defs_zk f i x k xu :
  (forall s t t' s' u, zk s t u -> zk s x xu -> openB f s t i x k = Some (t', s') -> s' = s /\ t' = open u i xu k) ->
  forall l s0 l' s1 lu, zkds s0 l lu -> zk s0 x xu -> openB_defs f i x k l s0 = Some (l', s1) ->
    s1 = s0 /\ l' = map (open_pair i xu k) lu.
Proof.
  intros IH. induction l as [|[a d] l IHl]; intros s0 l' s1 lu Hz Hx H; apply zkds_inv in Hz; cbn [openB_defs] in H.
  - subst lu. injection H as <- <-. auto.
  - destruct Hz as (a' & d' & r' & -> & Ha & Hd & Hr).
    destruct (openB f s0 a i x k) as [[ta sa]|] eqn:Ea; [|discriminate].
    destruct (IH _ _ _ _ _ Ha Hx Ea) as [-> ->].
    destruct (openB f s0 d i x k) as [[td sd]|] eqn:Ed; [|discriminate].
    destruct (IH _ _ _ _ _ Hd Hx Ed) as [-> ->].
    destruct (openB_defs f i x k l s0) as [[tl sl]|] eqn:El; [|discriminate].
    destruct (IHl _ _ _ _ Hr Hx El) as [-> ->]. injection H as <- <-. auto.
Qed.

Ltac step_op IH H Hx :=
  match type of H with
  | match openB ?f ?s ?t ?i ?x ?k with _ => _ end = Some _ =>
      let E := fresh "E" in let a := fresh "a'" in let s1 := fresh "s1" in
      destruct (openB f s t i x k) as [[a s1]|] eqn:E; [|discriminate H];
      match goal with Hz : zk s t _ |- _ => destruct (IH _ _ _ _ _ _ _ _ _ Hz Hx E) as [-> ->] end
  end.

Theorem openB_zk_exact : forall f s t i x k t' s' u xu, zk s t u -> zk s x xu -> openB f s t i x k = Some (t', s') ->
  s' = s /\ t' = open u i xu k.
Proof.
  induction f as [|f IH]; intros s t i x k t' s' u xu Hz Hx H; [discriminate|].
  destruct t; apply zk_inv in Hz; cbn beta iota in Hz; cbn [openB] in H.
  - (* solved hole *) destruct Hz as (sol & u0 & Es & Hs & ->). rewrite Es in H.
    destruct (ushiftB f s sol 0 shift) as [sol'|] eqn:E1; [|discriminate].
    apply (ushiftB_zk _ _ _ _ _ _ _ Hs) in E1. exact (IH _ _ _ _ _ _ _ _ _ E1 Hx H).
  - subst u. injection H as <- <-. auto.
  - subst u. injection H as <- <-. auto.
  - subst u. injection H as <- <-. auto.
  - subst u. injection H as <- <-. auto.
  - subst u. injection H as <- <-. auto.
  - subst u. injection H as <- <-. auto.
  - subst u. cbn [open]. destruct (Nat.eqb i0 i).
    + destruct (ushiftB f s x 0 k) as [x'|] eqn:E; [|discriminate].
      apply (ushiftB_zk_exact _ _ _ _ _ _ _ Hx) in E. injection H as <- <-. auto.
    + injection H as <- <-. auto.
  - destruct Hz as (d' & b' & -> & Hd & Hb). step_op IH H Hx. step_op IH H Hx. injection H as <- <-. auto.
  - destruct Hz as (d' & b' & -> & Hd & Hb). step_op IH H Hx. step_op IH H Hx. injection H as <- <-. auto.
  - destruct Hz as (d' & b' & -> & Hd & Hb). step_op IH H Hx. step_op IH H Hx. injection H as <- <-. auto.
  - (* let *)
    destruct Hz as (ds' & b' & -> & Hds & Hb).
    change (match openB_defs f (length defs + i) x (length defs + k) defs s with
            | Some r => let '(ds', s1) := r in
                match openB f s1 t (length defs + i) x (length defs + k) with
                | Some q => let '(b', s2) := q in Some (TLet ds' b', s2)
                | None => None end
            | None => None end = Some (t', s')) in H.
    destruct (openB_defs f (length defs + i) x (length defs + k) defs s) as [[xs s1]|] eqn:E1; [|discriminate].
    destruct (openB_defs_zk f _ x _ xu (fun s t t' s' u => IH s t _ x _ t' s' u xu) _ _ _ _ _ Hds Hx E1) as [-> ->].
    step_op IH H Hx. injection H as <- <-. split; [reflexivity|].
    cbn [open]. rewrite (zkds_length _ _ _ Hds). reflexivity.
  - destruct Hz as (a' & -> & Ha). step_op IH H Hx. injection H as <- <-. auto.
  - destruct Hz as (d' & b' & -> & Hd & Hb). step_op IH H Hx. step_op IH H Hx. injection H as <- <-. auto.
  - destruct Hz as (c' & a' & b' & -> & Hc & Ha & Hb). step_op IH H Hx. step_op IH H Hx. step_op IH H Hx. injection H as <- <-. auto.
Qed.

Lemma hf_open_zk s t u x xu i k : zk s t u -> zk s x xu -> hole_free (open u i xu k) = true.
Proof. intros Hz Hx. apply hf_open; [exact (zk_hf _ _ _ Hz) | exact (zk_hf _ _ _ Hx)]. Qed.

Corollary openB_zk f s t i x k t' s' u xu : zk s t u -> zk s x xu -> openB f s t i x k = Some (t', s') ->
  s' = s /\ zk s t' (open u i xu k).
Proof.
  intros Hz Hx H. destruct (openB_zk_exact _ _ _ _ _ _ _ _ _ _ Hz Hx H) as [-> ->].
  split; [reflexivity|]. apply zk_refl_hf. exact (hf_open_zk _ _ _ _ _ _ _ Hz Hx).
Qed.

(* ====================================================================================== *)
(* L2.  Normalisation and unification on fully solved terms                                *)
(* ====================================================================================== *)

(* ---------- L2(a): the group loop of the normaliser ---------- *)
Lemma zkds_nth s l lu : zkds s l lu -> forall i,
  match nth_error l i with
  | Some (a, d) => exists a' d', nth_error lu i = Some (a', d') /\ zk s a a' /\ zk s d d'
  | None => nth_error lu i = None
  end.
Proof.
  induction 1 as [|a d a' d' r r' Ha Hd Hr IH]; intros [|i]; cbn [nth_error]; eauto.
  apply IH.
Qed.

Lemma subst_defs_zk f n i unf unfu :
  forall l j s0 l' s1 lu, zkds s0 l lu -> zk s0 unf unfu -> subst_defs f n i unf l j s0 = Some (l', s1) ->
    s1 = s0 /\ zkds s0 l' (open_from j i (n - 1 - i) unfu lu).
Proof.
  induction l as [|[a d] r IHl]; intros j s0 l' s1 lu Hz Hu H; apply zkds_inv in Hz; cbn [subst_defs] in H.
  - subst lu. injection H as <- <-. split; [reflexivity | constructor].
  - destruct Hz as (a' & d' & r' & -> & Ha & Hd & Hr). cbn [open_from]. destruct (Nat.ltb j i).
    + destruct (subst_defs f n i unf r (S j) s0) as [[rest' s2]|] eqn:E; [|discriminate].
      destruct (IHl _ _ _ _ _ Hr Hu E) as [-> Zr]. injection H as <- <-. split; [reflexivity | constructor; assumption].
    + destruct (openB f s0 a (n - 1 - i) unf 0) as [[ta sa]|] eqn:Ea; [|discriminate].
      destruct (openB_zk _ _ _ _ _ _ _ _ _ _ Ha Hu Ea) as [-> Za].
      destruct (openB f s0 d (n - 1 - i) unf 0) as [[td sd]|] eqn:Ed; [|discriminate].
      destruct (openB_zk _ _ _ _ _ _ _ _ _ _ Hd Hu Ed) as [-> Zd].
      destruct (subst_defs f n i unf r (S j) s0) as [[rest' s2]|] eqn:E; [|discriminate].
      destruct (IHl _ _ _ _ _ Hr Hu E) as [-> Zr]. injection H as <- <-. split; [reflexivity | constructor; assumption].
Qed.

Theorem let_substB_zk : forall f s n i ds body b' s' dsu bu,
  zkds s ds dsu -> zk s body bu -> let_substB f s n i ds body = Some (b', s') ->
  s' = s /\ zk s b' (let_subst (n - i) n i dsu bu).
Proof.
  induction f as [|f IH]; intros s n i ds body b' s' dsu bu Hds Hb H; [discriminate|]. cbn [let_substB] in H.
  destruct (Nat.leb_spec n i) as [L|L].
  { injection H as <- <-. replace (n - i) with 0 by lia. auto. }
  replace (n - i) with (S (n - S i)) by lia. cbn [let_subst].
  pose proof (zkds_nth _ _ _ Hds i) as Hn.
  destruct (nth_error ds i) as [[ann def]|] eqn:En; [|rewrite Hn; injection H as <- <-; auto].
  destruct Hn as (annu & defu & -> & Ha & Hd).
  destruct (ushiftB f s ann 0 1) as [a1|] eqn:U1; [|discriminate].
  apply (ushiftB_zk _ _ _ _ _ _ _ Ha) in U1.
  destruct (ushiftB f s def 0 1) as [d1|] eqn:U2; [|discriminate].
  apply (ushiftB_zk _ _ _ _ _ _ _ Hd) in U2.
  assert (Hv : zk s (TVar 0) (TVar 0)) by constructor.
  destruct (openB f s a1 (S (n - 1 - i)) (TVar 0) 0) as [[a2 s1]|] eqn:E1; [|discriminate].
  destruct (openB_zk _ _ _ _ _ _ _ _ _ _ U1 Hv E1) as [-> Z1].
  destruct (openB f s d1 (S (n - 1 - i)) (TVar 0) 0) as [[d2 s2]|] eqn:E2; [|discriminate].
  destruct (openB_zk _ _ _ _ _ _ _ _ _ _ U2 Hv E2) as [-> Z2].
  destruct (openB f s def (n - 1 - i) (TLet [(a2, d2)] (TVar 0)) 0) as [[unf s3]|] eqn:E3; [|discriminate].
  assert (Hx : zk s (TLet [(a2, d2)] (TVar 0))
                 (TLet [(open (ushift annu 0 1) (S (n - 1 - i)) (TVar 0) 0, open (ushift defu 0 1) (S (n - 1 - i)) (TVar 0) 0)] (TVar 0))).
  { constructor; [constructor; [assumption | assumption | constructor] | constructor]. }
  destruct (openB_zk _ _ _ _ _ _ _ _ _ _ Hd Hx E3) as [-> Z3].
  change (zk s unf (unfold_first annu defu (n - 1 - i))) in Z3.
  change (match subst_defs f n i unf ds 0 s with
          | Some z => let '(ds', s4) := z in
              match openB f s4 body (n - 1 - i) unf 0 with
              | Some pb => let '(body', s5) := pb in let_substB f s5 n (S i) ds' body'
              | None => None end
          | None => None end = Some (b', s')) in H.
  destruct (subst_defs f n i unf ds 0 s) as [[ds' s4]|] eqn:E4; [|discriminate].
  destruct (subst_defs_zk _ _ _ _ _ _ _ _ _ _ _ Hds Z3 E4) as [-> Z4].
  destruct (openB f s body (n - 1 - i) unf 0) as [[body' s5]|] eqn:E5; [|discriminate].
  destruct (openB_zk _ _ _ _ _ _ _ _ _ _ Hb Z3 E5) as [-> Z5].
  exact (IH _ _ _ _ _ _ _ _ _ Z4 Z5 H).
Qed.

Corollary let_substB_zk_body f s ds b b' s' dsu bu :
  zkds s ds dsu -> zk s b bu -> let_substB f s (length ds) 0 ds b = Some (b', s') ->
  s' = s /\ zk s b' (let_whnf_body dsu bu).
Proof.
  intros Hd Hb H. destruct (let_substB_zk _ _ _ _ _ _ _ _ _ _ Hd Hb H) as [-> Z]. split; [reflexivity|].
  unfold let_whnf_body. rewrite (zkds_length _ _ _ Hd). now rewrite Nat.sub_0_r in Z.
Qed.

(* ---------- L2(b): weak-head normalisation ---------- *)
Ltac zk_inv_in H :=
  apply zk_inv in H; cbn beta iota in H;
  repeat match goal with
  | X : exists _, _ |- _ => destruct X
  | X : _ /\ _ |- _ => destruct X
  end; subst.

Lemma hf_not_hole t : hole_free t = true -> is_hole t = false.
Proof. destruct t; cbn; congruence. Qed.

Theorem whnfB_zk : forall f s D t u w s', hf_dctx D -> zk s t u -> whnfB f s D t = Some (w, s') ->
  s' = s /\ is_hole w = false /\ exists wu, zk s w wu /\ whnf f (G_of_D D) u = Some wu.
Proof.
  induction f as [|f IH]; intros s D t u w s' HD Hz H; [discriminate|].
  destruct t; cbn [whnfB] in H;
    try (apply zk_inv in Hz; cbn beta iota in Hz; subst u; injection H as <- <-;
         split; [reflexivity | split; [reflexivity | eexists; split; [constructor | reflexivity]]]; fail).
  - (* solved hole *)
    apply zk_inv in Hz. destruct Hz as (sol & u0 & Es & Hs & ->). rewrite Es in H.
    destruct (ushiftB f s sol 0 shift) as [sol'|] eqn:E1; [|discriminate].
    apply (ushiftB_zk _ _ _ _ _ _ _ Hs) in E1.
    destruct (IH _ _ _ _ _ _ HD E1 H) as (-> & Nh & wu & Zw & W).
    split; [reflexivity | split; [exact Nh | exists wu; split; [exact Zw | eapply whnf_mono; [|exact W]; lia]]].
  - (* var *)
    zk_inv_in Hz. cbn [whnf]. rewrite lookup_def_G_of_D.
    destruct (nth_error D i) as [[[d off]|]|] eqn:En;
      try (injection H as <- <-; split; [reflexivity | split; [reflexivity | eexists; split; [constructor | reflexivity]]]; fail).
    assert (Hd : hole_free d = true).
    { unfold hf_dctx in HD. rewrite Forall_forall in HD. exact (HD _ (nth_error_In _ _ En)). }
    destruct (ushiftB f s d 0 (i + 1 - off)) as [d'|] eqn:U; [|discriminate].
    apply (ushiftB_zk _ _ _ _ _ _ _ (zk_refl_hf s _ Hd)) in U.
    exact (IH _ _ _ _ _ _ HD U H).
  - apply zk_inv in Hz. destruct Hz as (d' & b' & -> & Hd & Hb). injection H as <- <-.
    split; [reflexivity | split; [reflexivity | eexists; split; [constructor; eassumption | reflexivity]]].
  - apply zk_inv in Hz. destruct Hz as (d' & b' & -> & Hd & Hb). injection H as <- <-.
    split; [reflexivity | split; [reflexivity | eexists; split; [constructor; eassumption | reflexivity]]].
  - (* app *)
    apply zk_inv in Hz. destruct Hz as (t1u & t2u & -> & Ht1 & Ht2). cbn [whnf].
    destruct (whnfB f s D t1) as [[a' s1]|] eqn:E1; [|discriminate].
    destruct (IH _ _ _ _ _ _ HD Ht1 E1) as (-> & Nh & au & Za & W1). rewrite W1.
    destruct a'; try discriminate Nh; zk_inv_in Za;
      try (injection H as <- <-; split; [reflexivity | split; [reflexivity | eexists; split; [constructor; [constructor|]; eassumption | reflexivity]]]; fail).
    destruct (openB f s a'2 0 t2 0) as [[r s2]|] eqn:E2; [|discriminate].
    match goal with Hb : zk s a'2 _ |- _ => destruct (openB_zk _ _ _ _ _ _ _ _ _ _ Hb Ht2 E2) as [-> Zr] end.
    exact (IH _ _ _ _ _ _ HD Zr H).
  - (* let *)
    apply zk_inv in Hz. destruct Hz as (dsu & bu & -> & Hds & Hb). cbn [whnf].
    destruct (let_substB f s (length defs) 0 defs t) as [[b' s1]|] eqn:E1; [|discriminate].
    destruct (let_substB_zk_body _ _ _ _ _ _ _ _ Hds Hb E1) as [-> Zb].
    exact (IH _ _ _ _ _ _ HD Zb H).
  - (* neg *)
    apply zk_inv in Hz. destruct Hz as (tu & -> & Ht). cbn [whnf].
    destruct (whnfB f s D t) as [[a' s1]|] eqn:E1; [|discriminate].
    destruct (IH _ _ _ _ _ _ HD Ht E1) as (-> & Nh & au & Za & W1). rewrite W1.
    destruct a'; try discriminate Nh; zk_inv_in Za; injection H as <- <-;
      (split; [reflexivity | split; [reflexivity | eexists; split; [repeat (constructor; try eassumption) | reflexivity]]]).
  - (* bin *)
    apply zk_inv in Hz. destruct Hz as (t1u & t2u & -> & Ht1 & Ht2). cbn [whnf].
    destruct (whnfB f s D t1) as [[a' s1]|] eqn:E1; [|discriminate].
    destruct (IH _ _ _ _ _ _ HD Ht1 E1) as (-> & Nh1 & au & Za & W1). rewrite W1.
    destruct (whnfB f s D t2) as [[b' s2]|] eqn:E2; [|discriminate].
    destruct (IH _ _ _ _ _ _ HD Ht2 E2) as (-> & Nh2 & bu & Zb & W2). rewrite W2.
    destruct a'; try discriminate Nh1; zk_inv_in Za;
      try (destruct b'; try discriminate Nh2; zk_inv_in Zb; injection H as <- <-;
           (split; [reflexivity | split; [reflexivity | eexists; split; [repeat (constructor; try eassumption) | reflexivity]]]); fail).
    destruct b'; try discriminate Nh2; zk_inv_in Zb;
      try (injection H as <- <-;
           (split; [reflexivity | split; [reflexivity | eexists; split; [repeat (constructor; try eassumption) | reflexivity]]]); fail).
    rewrite bin_whnf_arith in H. injection H as <- <-.
    destruct (arith o z z0) eqn:A.
    + pose proof (hf_arith _ _ _ _ A) as Hr.
      split; [reflexivity | split; [now apply hf_not_hole | eexists; split; [apply zk_refl_hf; exact Hr | reflexivity]]].
    + split; [reflexivity | split; [reflexivity | eexists; split; [repeat constructor | reflexivity]]].
  - (* if *)
    apply zk_inv in Hz. destruct Hz as (t1u & t2u & t3u & -> & Ht1 & Ht2 & Ht3). cbn [whnf].
    destruct (whnfB f s D t1) as [[c' s1]|] eqn:E1; [|discriminate].
    destruct (IH _ _ _ _ _ _ HD Ht1 E1) as (-> & Nh & cu & Zc & W1). rewrite W1.
    destruct c'; try discriminate Nh; zk_inv_in Zc;
      try (injection H as <- <-;
           (split; [reflexivity | split; [reflexivity | eexists; split; [repeat (constructor; try eassumption) | reflexivity]]]); fail).
    + exact (IH _ _ _ _ _ _ HD Ht2 H).
    + exact (IH _ _ _ _ _ _ HD Ht3 H).
Qed.

Corollary whnfB_zk_G f s D t u w s' G :
  same_defs G (G_of_D D) -> hf_dctx D -> zk s t u -> whnfB f s D t = Some (w, s') ->
  s' = s /\ is_hole w = false /\ exists wu, zk s w wu /\ whnf f G u = Some wu.
Proof.
  intros HG HD Hz H. destruct (whnfB_zk _ _ _ _ _ _ _ HD Hz H) as (-> & Nh & wu & Zw & W).
  split; [reflexivity | split; [exact Nh | exists wu; split; [exact Zw|]]].
  now rewrite (whnf_same_defs f G (G_of_D D) u HG).
Qed.

(* ---------- L2(c): the syntactic shortcut of unify ---------- *)
Lemma headB_zk : forall f s a a' u, headB f s a = Some a' -> zk s a u -> zk s a' u /\ is_hole a' = false.
Proof.
  induction f as [|f IH]; intros s a a' u H Hz; [discriminate|].
  destruct a; cbn [headB] in H; try (injection H as <-; split; [exact Hz | reflexivity]).
  apply zk_inv in Hz. destruct Hz as (sol & u0 & Es & Hs & ->). rewrite Es in H.
  destruct (ushiftB f s sol 0 shift) as [sol'|] eqn:E1; [|discriminate].
  apply (ushiftB_zk _ _ _ _ _ _ _ Hs) in E1. exact (IH _ _ _ _ H E1).
Qed.

Lemma syn_eqB_defs_zk f s :
  (forall a b au bu, zk s a au -> zk s b bu -> syn_eqB f s a b = Some true -> strip au = strip bu) ->
  forall l1 l2 l1u l2u, length l1 = length l2 -> zkds s l1 l1u -> zkds s l2 l2u ->
    syn_eqB_defs f s l1 l2 = Some true -> strip_defs l1u = strip_defs l2u.
Proof.
  intros IH. induction l1 as [|[a1 d1] r1 IHl]; intros [|[a2 d2] r2] l1u l2u L H1 H2 H; try discriminate L;
    apply zkds_inv in H1; apply zkds_inv in H2.
  - subst. reflexivity.
  - destruct H1 as (a1' & d1' & r1' & -> & _ & Hd1 & Hr1). destruct H2 as (a2' & d2' & r2' & -> & _ & Hd2 & Hr2).
    cbn [syn_eqB_defs] in H. destruct (syn_eqB f s d1 d2) as [[|]|] eqn:E; try discriminate.
    cbn [strip_defs map]. fold (strip_defs r1'). fold (strip_defs r2').
    rewrite (IH _ _ _ _ Hd1 Hd2 E). f_equal. apply (IHl r2); auto.
Qed.

Theorem syn_eqB_zk : forall f s a b au bu,
  zk s a au -> zk s b bu -> syn_eqB f s a b = Some true -> strip au = strip bu.
Proof.
  induction f as [|f IH]; intros s a b au bu Ha Hb H; [discriminate|].
  cbn [syn_eqB] in H.
  destruct (headB f s a) as [a'|] eqn:E1; [|discriminate]. destruct (headB_zk _ _ _ _ _ E1 Ha) as [Za Na].
  destruct (headB f s b) as [b'|] eqn:E2; [|discriminate]. destruct (headB_zk _ _ _ _ _ E2 Hb) as [Zb Nb].
  cbv beta zeta in H. clear E1 E2 Ha Hb.
  destruct a'; try discriminate Na; destruct b'; try discriminate Nb; try discriminate H;
    apply zk_inv in Za; apply zk_inv in Zb; cbn beta iota in Za, Zb.
  - subst; reflexivity.
  - subst; reflexivity.
  - subst; reflexivity.
  - subst; reflexivity.
  - subst; reflexivity.
  - subst. injection H as H. apply Z.eqb_eq in H. now subst.
  - subst. injection H as H. apply Nat.eqb_eq in H. now subst.
  - destruct Za as (d1 & b1 & -> & Hd1 & Hb1). destruct Zb as (d2 & b2 & -> & Hd2 & Hb2).
    destruct (Bool.eqb impl impl0) eqn:Ei; [|discriminate]. apply eqb_prop in Ei. subst impl0.
    cbn [strip]. f_equal. exact (IH _ _ _ _ _ Hb1 Hb2 H).
  - destruct Za as (d1 & b1 & -> & Hd1 & Hb1). destruct Zb as (d2 & b2 & -> & Hd2 & Hb2).
    destruct (Bool.eqb impl impl0) eqn:Ei; [|discriminate]. apply eqb_prop in Ei. subst impl0.
    destruct (syn_eqB f s a'1 b'1) as [[|]|] eqn:S1; try discriminate.
    cbn [strip]. f_equal; [exact (IH _ _ _ _ _ Hd1 Hd2 S1) | exact (IH _ _ _ _ _ Hb1 Hb2 H)].
  - destruct Za as (d1 & b1 & -> & Hd1 & Hb1). destruct Zb as (d2 & b2 & -> & Hd2 & Hb2).
    destruct (syn_eqB f s a'1 b'1) as [[|]|] eqn:S1; try discriminate.
    cbn [strip]. f_equal; [exact (IH _ _ _ _ _ Hd1 Hd2 S1) | exact (IH _ _ _ _ _ Hb1 Hb2 H)].
  - destruct Za as (ds1 & b1 & -> & Hd1 & Hb1). destruct Zb as (ds2 & b2 & -> & Hd2 & Hb2).
    destruct (Nat.eqb (length defs) (length defs0)) eqn:L; [|discriminate]. apply Nat.eqb_eq in L.
    change (match syn_eqB_defs f s defs defs0 with
            | Some u => if u then syn_eqB f s a' b' else Some false | None => None end = Some true) in H.
    destruct (syn_eqB_defs f s defs defs0) as [[|]|] eqn:S1; try discriminate.
    cbn [strip]. fold (strip_defs ds1). fold (strip_defs ds2).
    rewrite (syn_eqB_defs_zk f s (IH s) _ _ _ _ L Hd1 Hd2 S1). f_equal. exact (IH _ _ _ _ _ Hb1 Hb2 H).
  - destruct Za as (a1 & -> & Ha1). destruct Zb as (a2 & -> & Ha2). cbn [strip]. f_equal. exact (IH _ _ _ _ _ Ha1 Ha2 H).
  - destruct Za as (d1 & b1 & -> & Hd1 & Hb1). destruct Zb as (d2 & b2 & -> & Hd2 & Hb2).
    destruct (binop_eqbB o o0) eqn:Eo; [|discriminate]. apply binop_eqbB_true in Eo. subst o0.
    destruct (syn_eqB f s a'1 b'1) as [[|]|] eqn:S1; try discriminate.
    cbn [strip]. f_equal; [exact (IH _ _ _ _ _ Hd1 Hd2 S1) | exact (IH _ _ _ _ _ Hb1 Hb2 H)].
  - destruct Za as (c1 & d1 & b1 & -> & Hc1 & Hd1 & Hb1). destruct Zb as (c2 & d2 & b2 & -> & Hc2 & Hd2 & Hb2).
    destruct (syn_eqB f s a'1 b'1) as [[|]|] eqn:S1; try discriminate.
    destruct (syn_eqB f s a'2 b'2) as [[|]|] eqn:S2; try discriminate.
    cbn [strip]. f_equal; [exact (IH _ _ _ _ _ Hc1 Hc2 S1) | exact (IH _ _ _ _ _ Hd1 Hd2 S2) | exact (IH _ _ _ _ _ Hb1 Hb2 H)].
Qed.

(* ---------- L2(d): the occurs check never finds an unsolved cell in a fully solved term ---------- *)
Section OccDefs.
Variables (f : nat) (s : storeB) (id : nat).
Fixpoint occursB_defs (l : list (term * term)) : option bool :=
  match l with
  | [] => Some false
  | (a, d) :: r =>
      match occursB f s id a with None => None | Some u => if u then Some true else
      match occursB f s id d with None => None | Some u => if u then Some true else occursB_defs r end end
  end.
End OccDefs.

Lemma occursB_defs_zk f s id :
  (forall t u r, zk s t u -> occursB f s id t = Some r -> r = false) ->
  forall l lu r, zkds s l lu -> occursB_defs f s id l = Some r -> r = false.
Proof.
  intros IH. induction l as [|[a d] l IHl]; intros lu r Hz H; apply zkds_inv in Hz; cbn [occursB_defs] in H.
  - congruence.
  - destruct Hz as (a' & d' & r' & -> & Ha & Hd & Hr).
    destruct (occursB f s id a) as [x|] eqn:Ea; [|discriminate]. rewrite (IH _ _ _ Ha Ea) in H.
    destruct (occursB f s id d) as [y|] eqn:Ed; [|discriminate]. rewrite (IH _ _ _ Hd Ed) in H.
    eauto.
Qed.

Ltac step_oc IH H :=
  match type of H with
  | match occursB ?f ?s ?id ?t with _ => _ end = Some _ =>
      let E := fresh "E" in let x := fresh "x" in
      destruct (occursB f s id t) as [x|] eqn:E; [|discriminate H];
      match goal with Hz : zk s t _ |- _ => rewrite (IH _ _ _ _ _ Hz ltac:(eassumption) E) in H end
  end.

Theorem occursB_zk : forall f s id t u r, zk s t u -> sget s id = None -> occursB f s id t = Some r -> r = false.
Proof.
  induction f as [|f IH]; intros s id t u r Hz Hn H; [discriminate|].
  destruct t; cbn [occursB] in H; cbv beta zeta in H; try congruence; apply zk_inv in Hz; cbn beta iota in Hz.
  - destruct Hz as (sol & u0 & Es & Hs & ->). rewrite Es in H. exact (IH _ _ _ _ _ Hs Hn H).
  - destruct Hz as (d' & b' & -> & Hd & Hb). step_oc IH H. exact (IH _ _ _ _ _ Hb Hn H).
  - destruct Hz as (d' & b' & -> & Hd & Hb). step_oc IH H. exact (IH _ _ _ _ _ Hb Hn H).
  - destruct Hz as (d' & b' & -> & Hd & Hb). step_oc IH H. exact (IH _ _ _ _ _ Hb Hn H).
  - destruct Hz as (ds' & b' & -> & Hds & Hb).
    change (match occursB_defs f s id defs with
            | Some u => if u then Some true else occursB f s id t | None => None end = Some r) in H.
    destruct (occursB_defs f s id defs) as [x|] eqn:E1; [|discriminate].
    rewrite (occursB_defs_zk f s id (fun t u r Hz => IH s id t u r Hz Hn) _ _ _ Hds E1) in H.
    exact (IH _ _ _ _ _ Hb Hn H).
  - destruct Hz as (a' & -> & Ha). exact (IH _ _ _ _ _ Ha Hn H).
  - destruct Hz as (d' & b' & -> & Hd & Hb). step_oc IH H. exact (IH _ _ _ _ _ Hb Hn H).
  - destruct Hz as (c' & a' & b' & -> & Hc & Ha & Hb). step_oc IH H. step_oc IH H. exact (IH _ _ _ _ _ Hb Hn H).
Qed.

(* ---------- group-free terms (no_let): closure properties ---------- *)
Ltac nl_split :=
  repeat match goal with
  | H : no_let (_ _) = true |- _ => progress cbn [no_let] in H
  | H : _ && _ = true |- _ => apply andb_true_iff in H; destruct H
  end.

Lemma nl_ushift : forall t c n, no_let t = true -> no_let (ushift t c n) = true.
Proof.
  induction t; intros c n H; cbn [ushift no_let] in *; try reflexivity; try discriminate; nl_split;
    rewrite ?IHt, ?IHt1, ?IHt2, ?IHt3 by assumption; reflexivity.
Qed.

Lemma nl_open : forall t i x k, no_let t = true -> no_let x = true -> no_let (open t i x k) = true.
Proof.
  induction t; intros j x k H Hx; cbn [open no_let] in *; try reflexivity; try discriminate; nl_split;
    rewrite ?IHt, ?IHt1, ?IHt2, ?IHt3 by assumption; try reflexivity.
  destruct (Nat.eqb i j); [now apply nl_ushift | reflexivity].
Qed.

Lemma nl_arith o x y r : arith o x y = Some r -> no_let r = true.
Proof.
  destruct o; cbn [arith]; intros H;
    try (injection H as <-; reflexivity);
    try (injection H as <-; match goal with |- no_let (if ?c then _ else _) = _ => destruct c; reflexivity end).
  destruct (y =? 0)%Z; [discriminate|]. injection H as <-. reflexivity.
Qed.

Definition nl_dctx (D : dctx) : Prop :=
  Forall (fun e => match e with Some (d, _) => no_let d = true | None => True end) D.
Lemma nl_dctx_cons_None D : nl_dctx D -> nl_dctx (None :: D).
Proof. intros H. constructor; [exact I | exact H]. Qed.

Lemma nl_whnf_D : forall f D t u, nl_dctx D -> no_let t = true -> whnf f (G_of_D D) t = Some u -> no_let u = true.
Proof.
  induction f as [|f IH]; intros D t u ND Ht H; [discriminate|].
  destruct t; cbn [whnf] in H; try (injection H as <-; exact Ht).
  - rewrite lookup_def_G_of_D in H. destruct (nth_error D i) as [[[d off]|]|] eqn:En; try (injection H as <-; reflexivity).
    apply (IH _ _ _ ND) in H; [exact H|]. apply nl_ushift.
    unfold nl_dctx in ND. rewrite Forall_forall in ND. exact (ND _ (nth_error_In _ _ En)).
  - nl_split. destruct (whnf f (G_of_D D) t1) as [a'|] eqn:E1; [|discriminate].
    pose proof (IH _ _ _ ND H0 E1) as Na.
    destruct a'; try (injection H as <-; cbn [no_let] in Na |- *; rewrite ?Na, ?H1; reflexivity).
    nl_split. apply (IH _ _ _ ND) in H; [exact H|]. now apply nl_open.
  - discriminate Ht.
  - nl_split. destruct (whnf f (G_of_D D) t) as [a'|] eqn:E1; [|discriminate].
    pose proof (IH _ _ _ ND Ht E1) as Na. destruct a'; injection H as <-; cbn [no_let] in Na |- *; try exact Na; reflexivity.
  - nl_split. destruct (whnf f (G_of_D D) t1) as [a'|] eqn:E1; [|discriminate].
    destruct (whnf f (G_of_D D) t2) as [b'|] eqn:E2; [|destruct a'; discriminate].
    pose proof (IH _ _ _ ND H0 E1) as Na. pose proof (IH _ _ _ ND H1 E2) as Nb.
    destruct a'; try (injection H as <-; cbn [no_let] in Na, Nb |- *; rewrite ?Na, ?Nb; reflexivity);
    destruct b'; try (injection H as <-; cbn [no_let] in Na, Nb |- *; rewrite ?Na, ?Nb; reflexivity).
    injection H as <-. destruct (arith o z z0) eqn:A; [exact (nl_arith _ _ _ _ A) | reflexivity].
  - nl_split. destruct (whnf f (G_of_D D) t1) as [c'|] eqn:E1; [|discriminate].
    pose proof (IH _ _ _ ND H0 E1) as Nc.
    destruct c'; try (injection H as <-; cbn [no_let] in Nc |- *; rewrite ?Nc, ?H2, ?H1; reflexivity); eauto.
Qed.

(* on group-free terms, equality up to the domain annotations of functions is contained in conv *)
Lemma strip_eq_conv_nl : forall a, no_let a = true -> forall b G, no_let b = true -> strip a = strip b -> conv G a b.
Proof.
  induction a; intros Na b0 G Nb E; destruct b0; cbn [strip] in E; try discriminate E; try discriminate Na; try discriminate Nb;
    try apply c_refl; try (injection E; intros; subst; apply c_refl); nl_split; injection E; intros; subst.
  - apply c_lam. auto.
  - apply c_pi; auto.
  - apply c_app; auto.
  - apply c_neg; auto.
  - apply c_bin; auto.
  - apply c_if; auto.
Qed.

(* ---------- L2(e): unification of fully solved terms ---------- *)
(* what a verdict of unify on fully solved terms means for the zonked terms: a positive verdict on
   group-free terms is a derivation of definitional equality *)
Definition unify_conv (D : dctx) (au bu : term) (r : bool) : Prop :=
  r = true -> nl_dctx D -> no_let au = true -> no_let bu = true ->
  forall G, same_defs G (G_of_D D) -> conv G au bu.

Ltac step_un IH H HD :=
  match type of H with
  | match unifyB ?f ?s ?D ?a ?b with _ => _ end = Some _ =>
     let U := fresh "U" in let u := fresh "u" in let sa := fresh "sa" in let K := fresh "K" in
     destruct (unifyB f s D a b) as [[u sa]|] eqn:U; [|discriminate H];
     match goal with Hz1 : zk s a _, Hz2 : zk s b _ |- _ =>
       destruct (IH _ _ _ _ _ _ _ _ HD Hz1 Hz2 U) as [-> K] end
  end.
Ltac last_un IH H HD :=
  match type of H with
  | unifyB ?f ?s ?D ?a ?b = Some _ =>
     let K := fresh "K" in
     match goal with Hz1 : zk s a _, Hz2 : zk s b _ |- _ =>
       destruct (IH _ _ _ _ _ _ _ _ HD Hz1 Hz2 H) as [-> K] end
  end.

Theorem unifyB_zk : forall f s D a b r s' au bu,
  hf_dctx D -> zk s a au -> zk s b bu -> unifyB f s D a b = Some (r, s') ->
  s' = s /\ unify_conv D au bu r.
Proof.
  induction f as [|f IH]; intros s D a b r s' au bu HD Ha Hb H; [discriminate|].
  rewrite unifyB_S in H. unfold unify_body in H.
  destruct (syn_eqB f s a b) as [[|]|] eqn:Es; [| |discriminate].
  { injection H as <- <-. split; [reflexivity|]. intros _ ND Na Nb G HG.
    apply strip_eq_conv_nl; auto. exact (syn_eqB_zk _ _ _ _ _ _ Ha Hb Es). }
  destruct (whnfB f s D a) as [[w1 s1]|] eqn:W1; [|discriminate].
  destruct (whnfB_zk _ _ _ _ _ _ _ HD Ha W1) as (-> & Nh1 & wu1 & Z1 & Wa).
  destruct (whnfB f s D b) as [[w2 s2]|] eqn:W2; [|discriminate].
  destruct (whnfB_zk _ _ _ _ _ _ _ HD Hb W2) as (-> & Nh2 & wu2 & Z2 & Wb).
  clear W1 W2 Es.
  assert (Key : s' = s /\ unify_conv D wu1 wu2 r).
  2:{ destruct Key as [-> Key]. split; [reflexivity|]. intros -> ND Na Nb G HG.
      pose proof (nl_whnf_D _ _ _ _ ND Na Wa) as N1. pose proof (nl_whnf_D _ _ _ _ ND Nb Wb) as N2.
      rewrite <- (whnf_same_defs f G (G_of_D D) au HG) in Wa. rewrite <- (whnf_same_defs f G (G_of_D D) bu HG) in Wb.
      apply whnf_sound, rstar_conv in Wa. apply whnf_sound, rstar_conv in Wb.
      eapply c_trans; [exact Wa|]. eapply c_trans; [|apply c_sym; exact Wb]. exact (Key eq_refl ND N1 N2 G HG). }
  clear Wa Wb Ha Hb a b au bu.
  destruct w1; try discriminate Nh1; destruct w2; try discriminate Nh2; cbv beta iota zeta delta [unify_head] in H;
    try (injection H as <- <-; split; [reflexivity | intros ?; discriminate]);
    apply zk_inv in Z1; apply zk_inv in Z2; cbn beta iota in Z1, Z2.
  - subst. injection H as <- <-. split; [reflexivity | intros _ _ _ _ G _; apply c_refl].
  - subst. injection H as <- <-. split; [reflexivity | intros _ _ _ _ G _; apply c_refl].
  - subst. injection H as <- <-. split; [reflexivity | intros _ _ _ _ G _; apply c_refl].
  - subst. injection H as <- <-. split; [reflexivity | intros _ _ _ _ G _; apply c_refl].
  - subst. injection H as <- <-. split; [reflexivity | intros _ _ _ _ G _; apply c_refl].
  - subst. injection H as <- <-. split; [reflexivity | intros E _ _ _ G _; apply Z.eqb_eq in E; subst; apply c_refl].
  - subst. injection H as <- <-. split; [reflexivity | intros E _ _ _ G _; apply Nat.eqb_eq in E; subst; apply c_refl].
  - (* lam *)
    destruct Z1 as (d1 & b1 & -> & Hd1 & Hb1). destruct Z2 as (d2 & b2 & -> & Hd2 & Hb2).
    destruct (Bool.eqb impl impl0) eqn:Ei; [|injection H as <- <-; split; [reflexivity | intros ?; discriminate]].
    apply eqb_prop in Ei. subst impl0. last_un IH H (hf_dctx_cons_None _ HD). split; [reflexivity|].
    intros -> ND N1 N2 G HG. nl_split. apply c_lam.
    apply K; auto using nl_dctx_cons_None. apply same_defs_bind. exact HG.
  - (* pi *)
    destruct Z1 as (d1 & b1 & -> & Hd1 & Hb1). destruct Z2 as (d2 & b2 & -> & Hd2 & Hb2).
    destruct (Bool.eqb impl impl0) eqn:Ei; [|injection H as <- <-; split; [reflexivity | intros ?; discriminate]].
    apply eqb_prop in Ei. subst impl0. step_un IH H HD. destruct u.
    + last_un IH H (hf_dctx_cons_None _ HD). split; [reflexivity|].
      intros -> ND N1 N2 G HG. nl_split. apply c_pi; [apply K; auto|].
      apply K0; auto using nl_dctx_cons_None. apply same_defs_bind. exact HG.
    + injection H as <- <-. split; [reflexivity | intros ?; discriminate].
  - (* app *)
    destruct Z1 as (d1 & b1 & -> & Hd1 & Hb1). destruct Z2 as (d2 & b2 & -> & Hd2 & Hb2).
    step_un IH H HD. destruct u.
    + last_un IH H HD. split; [reflexivity|].
      intros -> ND N1 N2 G HG. nl_split. apply c_app; [apply K; auto | apply K0; auto].
    + injection H as <- <-. split; [reflexivity | intros ?; discriminate].
  - (* neg *)
    destruct Z1 as (a1 & -> & Ha1). destruct Z2 as (a2 & -> & Ha2).
    last_un IH H HD. split; [reflexivity|].
    intros -> ND N1 N2 G HG. nl_split. apply c_neg. apply K; auto.
  - (* bin *)
    destruct Z1 as (d1 & b1 & -> & Hd1 & Hb1). destruct Z2 as (d2 & b2 & -> & Hd2 & Hb2).
    destruct (binop_eqbB o o0) eqn:Eo; [|injection H as <- <-; split; [reflexivity | intros ?; discriminate]].
    apply binop_eqbB_true in Eo. subst o0. step_un IH H HD. destruct u.
    + last_un IH H HD. split; [reflexivity|].
      intros -> ND N1 N2 G HG. nl_split. apply c_bin; [apply K; auto | apply K0; auto].
    + injection H as <- <-. split; [reflexivity | intros ?; discriminate].
  - (* if *)
    destruct Z1 as (c1 & d1 & b1 & -> & Hc1 & Hd1 & Hb1). destruct Z2 as (c2 & d2 & b2 & -> & Hc2 & Hd2 & Hb2).
    step_un IH H HD. destruct u.
    + step_un IH H HD. destruct u.
      * last_un IH H HD. split; [reflexivity|].
        intros -> ND N1 N2 G HG. nl_split. apply c_if; [apply K; auto | apply K0; auto | apply K1; auto].
      * injection H as <- <-. split; [reflexivity | intros ?; discriminate].
    + injection H as <- <-. split; [reflexivity | intros ?; discriminate].
Qed.

(* ====================================================================================== *)
(* L3.  The one place where cells are assigned: a fresh unsolved cell against a fully      *)
(*      solved term, and TPi false ?dom ?cod against a fully solved type                   *)
(* ====================================================================================== *)
Lemma headB_unsolved f s id sh a' : sget s id = None -> headB f s (THole id sh) = Some a' -> a' = THole id sh.
Proof. destruct f; [discriminate|]. cbn [headB]. intros ->. congruence. Qed.

Lemma syn_eqB_unsolved_l f s id sh t tu e :
  sget s id = None -> zk s t tu -> syn_eqB f s (THole id sh) t = Some e -> e = false.
Proof.
  intros Hn Hz H. destruct f; [discriminate|]. cbn [syn_eqB] in H.
  destruct (headB f s (THole id sh)) as [a'|] eqn:E1; [|discriminate]. apply (headB_unsolved _ _ _ _ _ Hn) in E1. subst a'.
  destruct (headB f s t) as [b'|] eqn:E2; [|discriminate]. destruct (headB_zk _ _ _ _ _ E2 Hz) as [_ Nb].
  cbv beta zeta in H. destruct b'; try discriminate Nb; congruence.
Qed.

Lemma whnfB_unsolved f s D id sh w s' : sget s id = None -> whnfB f s D (THole id sh) = Some (w, s') -> w = THole id sh /\ s' = s.
Proof. destruct f; [discriminate|]. cbn [whnfB]. intros ->. intros H. injection H as <- <-. auto. Qed.

Lemma unify_head_hole_l f rec s D id sh w : is_hole w = false ->
  unify_head f rec s D (THole id sh) w =
  match sshiftB f s w 0 (- Z.of_nat sh) with None => None | Some low =>
  match low with
  | None => Some (false, s)
  | Some sol => match occursB f s id w with None => None | Some oc =>
                if oc then Some (false, s) else Some (true, sset s id sol) end
  end end.
Proof. destruct w; try discriminate; reflexivity. Qed.

Lemma zk_sset s id sol u : sget s id = None -> id < length s -> zk s sol u -> zk (sset s id sol) (THole id 0) u.
Proof.
  intros Hn Hl Hz. rewrite <- (ushift_zero u 0). econstructor.
  - apply AcyclicProofs.sget_sset_same. exact Hl.
  - eapply zk_ext; [apply sset_ext; exact Hn | exact Hz].
Qed.

(* a fresh cell against a fully solved term: the cell is assigned (a copy of) the weak-head normal
   form of the term; the verdict is always positive *)
Theorem unifyB_fresh_hole f s D id t tu r s' :
  hf_dctx D -> sget s id = None -> zk s t tu ->
  unifyB f s D (THole id 0) t = Some (r, s') ->
  r = true /\ exists sol wu f', s' = sset s id sol /\ zk s sol wu /\ whnf f' (G_of_D D) tu = Some wu.
Proof.
  intros HD Hn Hz H. destruct f as [|f]; [discriminate|].
  rewrite unifyB_S in H. unfold unify_body in H.
  destruct (syn_eqB f s (THole id 0) t) as [e|] eqn:Es; [|discriminate].
  apply (syn_eqB_unsolved_l _ _ _ _ _ _ _ Hn Hz) in Es. subst e.
  destruct (whnfB f s D (THole id 0)) as [[w1 s1]|] eqn:W1; [|discriminate].
  destruct (whnfB_unsolved _ _ _ _ _ _ _ Hn W1) as [-> ->].
  destruct (whnfB f s D t) as [[w2 s2]|] eqn:W2; [|discriminate].
  destruct (whnfB_zk _ _ _ _ _ _ _ HD Hz W2) as (-> & Nh & wu & Zw & W).
  rewrite (unify_head_hole_l _ _ _ _ _ _ _ Nh) in H.
  change (- Z.of_nat 0)%Z with (Z.of_nat 0) in H.
  destruct (sshiftB f s w2 0 (Z.of_nat 0)) as [low|] eqn:E1; [|discriminate].
  destruct (sshiftB_zk _ _ _ _ _ _ _ Zw E1) as (sol & -> & Zs). rewrite ushift_zero in Zs.
  destruct (occursB f s id w2) as [oc|] eqn:E2; [|discriminate].
  rewrite (occursB_zk _ _ _ _ _ _ Zw Hn E2) in H. injection H as <- <-.
  split; [reflexivity|]. exists sol, wu, f. auto.
Qed.

Lemma syn_eqB_pi_fresh f s im dom sh c F Fu e :
  sget s dom = None -> zk s F Fu -> syn_eqB f s (TPi im (THole dom sh) c) F = Some e -> e = false.
Proof.
  intros Hn Hz H. destruct f; [discriminate|]. cbn [syn_eqB] in H.
  destruct (headB f s (TPi im (THole dom sh) c)) as [a'|] eqn:E1; [|discriminate].
  assert (a' = TPi im (THole dom sh) c) by (destruct f; [discriminate | cbn [headB] in E1; congruence]). subst a'.
  destruct (headB f s F) as [b'|] eqn:E2; [|discriminate]. destruct (headB_zk _ _ _ _ _ E2 Hz) as [Zb Nb].
  cbv beta zeta in H. destruct b'; try discriminate Nb; try congruence.
  destruct (Bool.eqb im impl); [|congruence].
  apply zk_inv in Zb. destruct Zb as (d' & b' & _ & Hd & _).
  destruct (syn_eqB f s (THole dom sh) b'1) as [e1|] eqn:S1; [|discriminate].
  apply (syn_eqB_unsolved_l _ _ _ _ _ _ _ Hn Hd) in S1. subst e1. congruence.
Qed.

Lemma whnfB_pi f s D im d c w s' : whnfB f s D (TPi im d c) = Some (w, s') -> w = TPi im d c /\ s' = s.
Proof. destruct f; [discriminate|]. cbn [whnfB]. intros H. injection H as <- <-. auto. Qed.

(* L3: the function-type probe of the application rule.  Both cells are assigned; the zonked
   solutions are the weak-head normal forms of the domain and codomain of the weak-head normal form
   of the (zonked) type, so TPi false A B is convertible with it. *)
Theorem unifyB_pi_fresh f s D dom cod F Fu s' G :
  hf_dctx D -> same_defs G (G_of_D D) -> dom <> cod ->
  sget s dom = None -> sget s cod = None -> dom < length s -> cod < length s ->
  zk s F Fu ->
  unifyB f s D (TPi false (THole dom 0) (THole cod 0)) F = Some (true, s') ->
  StoreProofs.ext s s' /\ exists A B, zk s' (THole dom 0) A /\ zk s' (THole cod 0) B /\ conv G Fu (TPi false A B) /\
    (nl_dctx D -> no_let Fu = true -> no_let A = true /\ no_let B = true).
Proof.
  intros HD HG Hne Hn1 Hn2 Hl1 Hl2 Hz H. destruct f as [|f]; [discriminate|].
  rewrite unifyB_S in H. unfold unify_body in H.
  destruct (syn_eqB f s (TPi false (THole dom 0) (THole cod 0)) F) as [e|] eqn:Es; [|discriminate].
  apply (syn_eqB_pi_fresh _ _ _ _ _ _ _ _ _ Hn1 Hz) in Es. subst e.
  destruct (whnfB f s D (TPi false (THole dom 0) (THole cod 0))) as [[w1 s1]|] eqn:W1; [|discriminate].
  destruct (whnfB_pi _ _ _ _ _ _ _ _ W1) as [-> ->].
  destruct (whnfB f s D F) as [[w2 s2]|] eqn:W2; [|discriminate].
  destruct (whnfB_zk _ _ _ _ _ _ _ HD Hz W2) as (-> & Nh & wu & Zw & W).
  destruct w2; try discriminate Nh; cbv beta iota zeta delta [unify_head] in H; try discriminate H.
  destruct impl; cbn [Bool.eqb] in H; [discriminate H|].
  apply zk_inv in Zw. destruct Zw as (d2u & b2u & -> & Hd2 & Hb2).
  destruct (unifyB f s D (THole dom 0) w2_1) as [[u1 sa]|] eqn:U1; [|discriminate].
  destruct (unifyB_fresh_hole _ _ _ _ _ _ _ _ HD Hn1 Hd2 U1) as (-> & sol1 & A & f1 & -> & Zs1 & WA).
  assert (E1 : StoreProofs.ext s (sset s dom sol1)) by (apply sset_ext; exact Hn1).
  assert (Hn2' : sget (sset s dom sol1) cod = None) by (rewrite sget_sset_other; [exact Hn2 | congruence]).
  destruct (unifyB_fresh_hole _ _ _ _ _ _ _ _ (hf_dctx_cons_None _ HD) Hn2' (zk_ext _ _ _ _ E1 Hb2) H)
    as (_ & sol2 & B & f2 & -> & Zs2 & WB).
  assert (E2 : StoreProofs.ext (sset s dom sol1) (sset (sset s dom sol1) cod sol2)) by (apply sset_ext; exact Hn2').
  split; [eapply ext_trans; eassumption|].
  exists A, B. split; [|split; [|split]].
  - eapply zk_ext; [exact E2|]. apply zk_sset; assumption.
  - apply zk_sset; [exact Hn2' | now rewrite sset_length | exact Zs2].
  - rewrite <- (whnf_same_defs f G (G_of_D D) Fu HG) in W. apply whnf_sound, rstar_conv in W.
    eapply c_trans; [exact W|]. apply c_pi.
    + rewrite <- (whnf_same_defs f1 G (G_of_D D) d2u HG) in WA. apply whnf_sound, rstar_conv in WA. exact WA.
    + rewrite <- (whnf_same_defs f2 (bind G d2u) (G_of_D (None :: D)) b2u) in WB by (apply same_defs_bind; exact HG).
      apply whnf_sound, rstar_conv in WB. exact WB.
  - intros ND NF. pose proof (nl_whnf_D _ _ _ _ ND NF W) as N. cbn [no_let] in N. apply andb_true_iff in N. destruct N as [Nd Nb].
    split; [exact (nl_whnf_D _ _ _ _ ND Nd WA) | exact (nl_whnf_D _ _ _ _ (nl_dctx_cons_None _ ND) Nb WB)].
Qed.

(* ---------- L2(f): unification of fully solved terms IS the conversion test on the zonked terms
   (all terms, groups included): the store is unchanged and the verdict is the verdict of convb for
   every fuel on which convb terminates, in any context with the same definitions as D ---------- *)
Theorem unifyB_zk_agrees : forall f s D a b r s' au bu,
  hf_dctx D -> zk s a au -> zk s b bu -> unifyB f s D a b = Some (r, s') ->
  s' = s /\ unify_agrees D au bu r.
Proof.
  induction f as [|f IH]; intros s D a b r s' au bu HD Ha Hb H; [discriminate|].
  rewrite unifyB_S in H. unfold unify_body in H.
  destruct (syn_eqB f s a b) as [[|]|] eqn:Es; [| |discriminate].
  { injection H as <- <-. split; [reflexivity|]. intros G HG f' r' C.
    apply (syn_eqB_zk _ _ _ _ _ _ Ha Hb) in Es. destruct r'; [reflexivity|]. exfalso. exact (convb_strip_eq _ _ _ _ Es C). }
  destruct (whnfB f s D a) as [[w1 s1]|] eqn:W1; [|discriminate].
  destruct (whnfB_zk _ _ _ _ _ _ _ HD Ha W1) as (-> & Nh1 & wu1 & Z1 & Wa).
  destruct (whnfB f s D b) as [[w2 s2]|] eqn:W2; [|discriminate].
  destruct (whnfB_zk _ _ _ _ _ _ _ HD Hb W2) as (-> & Nh2 & wu2 & Z2 & Wb).
  clear W1 W2 Es.
  assert (Key : s' = s /\ forall G, same_defs G (G_of_D D) -> forall f' r', convb_head f' G wu1 wu2 = Some r' -> r' = r).
  2:{ destruct Key as [-> Key]. split; [reflexivity|]. intros G HG [|f'] r' C; [discriminate|].
      rewrite convb_S in C.
      destruct (whnf f' G au) as [a'|] eqn:Wa'; [|discriminate].
      destruct (whnf f' G bu) as [b'|] eqn:Wb'; [|discriminate].
      rewrite (whnf_same_defs _ _ _ au HG) in Wa'. rewrite (whnf_same_defs _ _ _ bu HG) in Wb'.
      rewrite (whnf_det _ _ _ _ _ _ Wa' Wa), (whnf_det _ _ _ _ _ _ Wb' Wb) in C. exact (Key G HG _ _ C). }
  clear Wa Wb Ha Hb a b au bu.
  destruct w1; try discriminate Nh1; destruct w2; try discriminate Nh2; cbv beta iota zeta delta [unify_head] in H;
    apply zk_inv in Z1; apply zk_inv in Z2; cbn beta iota in Z1, Z2;
    repeat match goal with
    | X : exists _, _ |- _ => destruct X
    | X : _ /\ _ |- _ => destruct X
    end; subst; cbn [convb_head];
    try (injection H as <- <-; split; [reflexivity | intros G HG f' r' C; congruence]).
  - (* lam *)
    destruct (Bool.eqb impl impl0); [|injection H as <- <-; split; [reflexivity | intros G HG f' r' C; congruence]].
    last_un IH H (hf_dctx_cons_None _ HD). split; [reflexivity|].
    intros G HG f' r' C. exact (K _ (same_defs_bind _ _ _ _ HG) _ _ C).
  - (* pi *)
    destruct (Bool.eqb impl impl0); [|injection H as <- <-; split; [reflexivity | intros G HG f' r' C; congruence]].
    step_un IH H HD. destruct u.
    + last_un IH H (hf_dctx_cons_None _ HD). split; [reflexivity|].
      intros G HG f' r' C. unfold and3 in C.
      match type of C with match ?c with _ => _ end = _ => destruct c as [[|]|] eqn:C1; try discriminate C end.
      * exact (K0 _ (same_defs_bind _ _ _ _ HG) _ _ C).
      * apply (K _ HG) in C1. discriminate C1.
    + injection H as <- <-. split; [reflexivity|].
      intros G HG f' r' C. unfold and3 in C.
      match type of C with match ?c with _ => _ end = _ => destruct c as [[|]|] eqn:C1; try discriminate C end.
      * apply (K _ HG) in C1. discriminate C1.
      * congruence.
  - (* app *)
    step_un IH H HD. destruct u.
    + last_un IH H HD. split; [reflexivity|].
      intros G HG f' r' C. unfold and3 in C.
      match type of C with match ?c with _ => _ end = _ => destruct c as [[|]|] eqn:C1; try discriminate C end.
      * exact (K0 _ HG _ _ C).
      * apply (K _ HG) in C1. discriminate C1.
    + injection H as <- <-. split; [reflexivity|].
      intros G HG f' r' C. unfold and3 in C.
      match type of C with match ?c with _ => _ end = _ => destruct c as [[|]|] eqn:C1; try discriminate C end.
      * apply (K _ HG) in C1. discriminate C1.
      * congruence.
  - (* neg *)
    last_un IH H HD. split; [reflexivity | exact K].
  - (* bin *)
    replace (binop_eqbB o o0) with (binop_eqb o o0) in H by reflexivity.
    destruct (binop_eqb o o0); [|injection H as <- <-; split; [reflexivity | intros G HG f' r' C; congruence]].
    step_un IH H HD. destruct u.
    + last_un IH H HD. split; [reflexivity|].
      intros G HG f' r' C. unfold and3 in C.
      match type of C with match ?c with _ => _ end = _ => destruct c as [[|]|] eqn:C1; try discriminate C end.
      * exact (K0 _ HG _ _ C).
      * apply (K _ HG) in C1. discriminate C1.
    + injection H as <- <-. split; [reflexivity|].
      intros G HG f' r' C. unfold and3 in C.
      match type of C with match ?c with _ => _ end = _ => destruct c as [[|]|] eqn:C1; try discriminate C end.
      * apply (K _ HG) in C1. discriminate C1.
      * congruence.
  - (* if *)
    step_un IH H HD. destruct u.
    + step_un IH H HD. destruct u.
      * last_un IH H HD. split; [reflexivity|].
        intros G HG f' r' C. unfold and3 in C.
        match type of C with match ?c with _ => _ end = _ => destruct c as [[|]|] eqn:C1; try discriminate C end;
          [|apply (K _ HG) in C1; discriminate C1].
        match type of C with match ?c with _ => _ end = _ => destruct c as [[|]|] eqn:C2; try discriminate C end;
          [|apply (K0 _ HG) in C2; discriminate C2].
        exact (K1 _ HG _ _ C).
      * injection H as <- <-. split; [reflexivity|].
        intros G HG f' r' C. unfold and3 in C.
        match type of C with match ?c with _ => _ end = _ => destruct c as [[|]|] eqn:C1; try discriminate C end;
          [|apply (K _ HG) in C1; discriminate C1].
        match type of C with match ?c with _ => _ end = _ => destruct c as [[|]|] eqn:C2; try discriminate C end;
          [apply (K0 _ HG) in C2; discriminate C2|].
        congruence.
    + injection H as <- <-. split; [reflexivity|].
      intros G HG f' r' C. unfold and3 in C.
      match type of C with match ?c with _ => _ end = _ => destruct c as [[|]|] eqn:C1; try discriminate C end;
        [apply (K _ HG) in C1; discriminate C1|].
      congruence.
Qed.

Corollary unifyB_zk_convb f s D a b r s' au bu G :
  same_defs G (G_of_D D) -> hf_dctx D -> zk s a au -> zk s b bu -> unifyB f s D a b = Some (r, s') ->
  s' = s /\ forall f' r', convb f' G au bu = Some r' -> r' = r.
Proof.
  intros HG HD Ha Hb H. destruct (unifyB_zk_agrees _ _ _ _ _ _ _ _ _ HD Ha Hb H) as [-> K].
  split; [reflexivity | exact (K G HG)].
Qed.

(* ====================================================================================== *)
(* L4.  Soundness of tcB on hole-free, group-free programs                                 *)
(* ====================================================================================== *)

(* The checker's two contexts (types with offsets; definitions with offsets) hold SOURCE subterms
   only, so on hole-free programs they are hole-free; Gz is the corresponding declarative context. *)
Definition ctx_rel (G : tctx) (D : dctx) (Gz : ctx) : Prop :=
  Forall2 (fun (p : term * nat) (e : entry) =>
             fst (fst e) = fst p /\ snd (fst e) = snd p /\ hole_free (fst p) = true /\ no_let (fst p) = true) G Gz
  /\ same_defs Gz (G_of_D D) /\ hf_dctx D /\ nl_dctx D.

Lemma ctx_rel_nil : ctx_rel [] [] [].
Proof. repeat split; constructor. Qed.

Lemma ctx_rel_bind G D Gz d : ctx_rel G D Gz -> hole_free d = true -> no_let d = true ->
  ctx_rel ((d, 0) :: G) (None :: D) (bind Gz d).
Proof.
  intros (H1 & H2 & H3 & H4) Hd Nd. repeat split.
  - constructor; [cbn; auto | exact H1].
  - change (G_of_D (None :: D)) with (bind (G_of_D D) TType). apply same_defs_bind. exact H2.
  - apply hf_dctx_cons_None. exact H3.
  - apply nl_dctx_cons_None. exact H4.
Qed.

Lemma Forall2_nth_l {A B} (R : A -> B -> Prop) l l' : Forall2 R l l' ->
  forall i a, nth_error l i = Some a -> exists b, nth_error l' i = Some b /\ R a b.
Proof.
  induction 1 as [|x y l l' Hxy _ IH]; intros [|i] a E; cbn [nth_error] in *; try discriminate.
  - injection E as <-. eauto.
  - eauto.
Qed.

Lemma ctx_rel_lookup G D Gz i T off : ctx_rel G D Gz -> nth_error G i = Some (T, off) ->
  lookup_ty Gz i = Some (ushift T 0 (i + 1 - off)) /\ hole_free T = true /\ no_let T = true.
Proof.
  intros (H1 & _) E. destruct (Forall2_nth_l _ _ _ H1 _ _ E) as ([[T' k] od] & E' & Hp).
  cbn [fst snd] in Hp. destruct Hp as (-> & -> & Hf & Hn). unfold lookup_ty. rewrite E'. auto.
Qed.

(* ---------- the error list is empty only if every check succeeded ---------- *)
Lemma expectB_errs f s D a w e es s' es' :
  expectB f s D a w e es = Some (s', es') -> es' = [] -> es = [] /\ unifyB f s D a w = Some (true, s').
Proof.
  unfold expectB. destruct (unifyB f s D a w) as [[ok s1]|]; [|discriminate].
  intros H. injection H as <- <-. destruct ok; intros E; [auto|].
  apply app_eq_nil in E. destruct E as [_ E]. discriminate E.
Qed.

Lemma sget_ge s id : length s <= id -> sget s id = None.
Proof. intros L. unfold sget. apply nth_error_None in L. now rewrite L. Qed.

Lemma grow_snoc s : grow s (s ++ [None]).
Proof. exists 1. reflexivity. Qed.

Lemma zk_bin_ty s o : zk s (bin_ty o) (bin_ty o).
Proof. destruct o; constructor. Qed.
Lemma nl_bin_ty o : no_let (bin_ty o) = true.
Proof. destruct o; reflexivity. Qed.

Ltac split_hf :=
  repeat match goal with
  | H : _ && _ = true |- _ => apply andb_true_iff in H; destruct H
  end.

Theorem tcB_sound_nl : forall f s G D t r Gz,
  ctx_rel G D Gz -> hole_free t = true -> no_let t = true -> tcB f s G D t = Some r -> b_errs r = [] ->
  exists Tz, zk (b_st r) (b_ty r) Tz /\ no_let Tz = true /\ has_type Gz t Tz.
Proof.
  induction f as [|f IH]; intros s G D t r Gz HC Hf Hn H He; [discriminate|].
  pose proof HC as (HC1 & HS & HD & ND).
  destruct t; cbn [tcB] in H; cbn [hole_free] in Hf; cbn [no_let] in Hn.
  - discriminate Hf.
  - injection H as <-. exists TType. repeat split; constructor.
  - injection H as <-. exists TType. repeat split; constructor.
  - injection H as <-. exists TType. repeat split; constructor.
  - injection H as <-. exists TBool. repeat split; constructor.
  - injection H as <-. exists TBool. repeat split; constructor.
  - injection H as <-. exists TInt. repeat split; constructor.
  - (* var *)
    destruct (nth_error G i) as [[T off]|] eqn:En; [|injection H as <-; discriminate He].
    destruct (ushiftB f s T 0 (i + 1 - off)) as [T'|] eqn:U; [|discriminate]. injection H as <-. cbn [b_st b_ty].
    destruct (ctx_rel_lookup _ _ _ _ _ _ HC En) as (L & HfT & NT).
    apply (ushiftB_hole_free _ _ _ _ _ _ HfT) in U. subst T'.
    exists (ushift T 0 (i + 1 - off)). split; [apply zk_refl_hf; now rewrite hf_ushift|].
    split; [now apply nl_ushift | now apply t_var].
  - (* lam *)
    apply andb_true_iff in Hf; destruct Hf as [Hf1 Hf2]. apply andb_true_iff in Hn; destruct Hn as [Hn1 Hn2].
    destruct (tcB f s G D t1) as [rd|] eqn:E1; [|discriminate].
    destruct (expectB f (b_st rd) D (b_ty rd) TType ENotType (b_errs rd)) as [[s1 es1]|] eqn:X1; [|discriminate].
    destruct (tcB f s1 ((b_elab rd, 0) :: G) (None :: D) t2) as [rb|] eqn:E2; [|discriminate].
    injection H as <-. cbn [b_errs b_st b_ty] in *.
    apply app_eq_nil in He. destruct He as [-> Heb].
    destruct (expectB_errs _ _ _ _ _ _ _ _ _ X1 eq_refl) as [Hed U1].
    destruct (IH _ _ _ _ _ _ HC Hf1 Hn1 E1 Hed) as (Tdz & Zd & Nd & Td).
    destruct (unifyB_zk _ _ _ _ _ _ _ _ _ HD Zd (zk_type _) U1) as [-> C1].
    rewrite (tcB_elab_identity _ _ _ _ _ _ E1) in *.
    destruct (IH _ _ _ _ _ _ (ctx_rel_bind _ _ _ _ HC Hf1 Hn1) Hf2 Hn2 E2 Heb) as (Bz & Zb & Nb & Tb).
    exists (TPi impl t1 Bz). split; [constructor; [apply zk_refl_hf; exact Hf1 | exact Zb]|].
    split; [cbn [no_let]; now rewrite Hn1, Nb|].
    apply t_lam; [eapply t_conv; [exact Td | apply C1; auto] | exact Tb].
  - (* pi *)
    apply andb_true_iff in Hf; destruct Hf as [Hf1 Hf2]. apply andb_true_iff in Hn; destruct Hn as [Hn1 Hn2].
    destruct (tcB f s G D t1) as [rd|] eqn:E1; [|discriminate].
    destruct (expectB f (b_st rd) D (b_ty rd) TType ENotType (b_errs rd)) as [[s1 es1]|] eqn:X1; [|discriminate].
    destruct (tcB f s1 ((b_elab rd, 0) :: G) (None :: D) t2) as [rb|] eqn:E2; [|discriminate].
    destruct (expectB f (b_st rb) (None :: D) (b_ty rb) TType ENotType (es1 ++ b_errs rb)) as [[s2 es2]|] eqn:X2; [|discriminate].
    injection H as <-. cbn [b_errs b_st b_ty] in *. subst es2.
    destruct (expectB_errs _ _ _ _ _ _ _ _ _ X2 eq_refl) as [He2 U2].
    apply app_eq_nil in He2. destruct He2 as [-> Heb].
    destruct (expectB_errs _ _ _ _ _ _ _ _ _ X1 eq_refl) as [Hed U1].
    destruct (IH _ _ _ _ _ _ HC Hf1 Hn1 E1 Hed) as (Tdz & Zd & Nd & Td).
    destruct (unifyB_zk _ _ _ _ _ _ _ _ _ HD Zd (zk_type _) U1) as [-> C1].
    rewrite (tcB_elab_identity _ _ _ _ _ _ E1) in *.
    pose proof (ctx_rel_bind _ _ _ _ HC Hf1 Hn1) as HC'. pose proof HC' as (_ & HS' & HD' & ND').
    destruct (IH _ _ _ _ _ _ HC' Hf2 Hn2 E2 Heb) as (Bz & Zb & Nb & Tb).
    destruct (unifyB_zk _ _ _ _ _ _ _ _ _ HD' Zb (zk_type _) U2) as [-> C2].
    exists TType. split; [constructor|]. split; [reflexivity|].
    apply t_pi; [eapply t_conv; [exact Td | apply C1; auto] | eapply t_conv; [exact Tb | apply C2; auto]].
  - (* app *)
    apply andb_true_iff in Hf; destruct Hf as [Hf1 Hf2]. apply andb_true_iff in Hn; destruct Hn as [Hn1 Hn2].
    destruct (tcB f s G D t1) as [ra|] eqn:E1; [|discriminate].
    unfold fresh_hole, salloc in H.
    set (s0 := b_st ra) in *. set (s2 := (s0 ++ [None]) ++ [None]) in *.
    destruct (expectB f s2 D (TPi false (THole (length s0) 0) (THole (length (s0 ++ [None])) 0)) (b_ty ra) ENotFunction (b_errs ra))
      as [[s3 es3]|] eqn:X1; [|discriminate].
    destruct (tcB f s3 G D t2) as [rb|] eqn:E2; [|discriminate].
    destruct (expectB f (b_st rb) D (THole (length s0) 0) (b_ty rb) EArgument (es3 ++ b_errs rb)) as [[s4 es4]|] eqn:X2; [|discriminate].
    destruct (openB f s4 (THole (length (s0 ++ [None])) 0) 0 (b_elab rb) 0) as [[T s5]|] eqn:O; [|discriminate].
    injection H as <-. cbn [b_errs b_st b_ty] in *. subst es4.
    destruct (expectB_errs _ _ _ _ _ _ _ _ _ X2 eq_refl) as [He2 U2].
    apply app_eq_nil in He2. destruct He2 as [-> Heb].
    destruct (expectB_errs _ _ _ _ _ _ _ _ _ X1 eq_refl) as [Hea U1].
    destruct (IH _ _ _ _ _ _ HC Hf1 Hn1 E1 Hea) as (Fz & Zf & Nf & Tf). fold s0 in Zf.
    assert (G02 : grow s0 s2) by (eapply grow_trans; apply grow_snoc).
    assert (Zf2 : zk s2 (b_ty ra) Fz) by (eapply zk_ext; [apply grow_ext; exact G02 | exact Zf]).
    assert (L2 : length s2 = S (S (length s0))) by (unfold s2; rewrite !app_length; cbn [length]; lia).
    assert (L1 : length (s0 ++ [None]) = S (length s0)) by (rewrite app_length; cbn [length]; lia).
    assert (Hn_dom : sget s2 (length s0) = None) by (rewrite (grow_sget _ _ _ G02); apply sget_ge; lia).
    assert (Hn_cod : sget s2 (length (s0 ++ [None])) = None).
    { unfold s2. rewrite (grow_sget _ _ _ (grow_snoc (s0 ++ [None]))). apply sget_ge. lia. }
    assert (Hne : length s0 <> length (s0 ++ [None])) by lia.
    assert (Hl1 : length s0 < length s2) by lia. assert (Hl2 : length (s0 ++ [None]) < length s2) by lia.
    destruct (unifyB_pi_fresh _ _ _ _ _ _ _ _ Gz HD HS Hne Hn_dom Hn_cod Hl1 Hl2 Zf2 U1)
      as (X23 & A & B & ZA & ZB & CF & NAB).
    destruct (NAB ND Nf) as [NA NB].
    destruct (IH _ _ _ _ _ _ HC Hf2 Hn2 E2 Heb) as (Az & Zaz & Naz & Tb).
    pose proof (tcB_ext _ _ _ _ _ _ E2) as X3b.
    destruct (unifyB_zk _ _ _ _ _ _ _ _ _ HD (zk_ext _ _ _ _ X3b ZA) Zaz U2) as [-> C2].
    rewrite (tcB_elab_identity _ _ _ _ _ _ E2) in O.
    destruct (openB_zk _ _ _ _ _ _ _ _ _ _ (zk_ext _ _ _ _ X3b ZB) (zk_refl_hf _ _ Hf2) O) as [-> ZT].
    exists (open B 0 t2 0). split; [exact ZT|]. split; [now apply nl_open|].
    eapply t_app; [eapply t_conv; [exact Tf | exact CF] | eapply t_conv; [exact Tb | apply c_sym; apply C2; auto]].
  - discriminate Hn.
  - (* neg *)
    destruct (tcB f s G D t) as [ra|] eqn:E1; [|discriminate].
    destruct (expectB f (b_st ra) D (b_ty ra) TInt ENotInt (b_errs ra)) as [[s1 es1]|] eqn:X1; [|discriminate].
    injection H as <-. cbn [b_errs b_st b_ty] in *. subst es1.
    destruct (expectB_errs _ _ _ _ _ _ _ _ _ X1 eq_refl) as [Hea U1].
    destruct (IH _ _ _ _ _ _ HC Hf Hn E1 Hea) as (Taz & Za & Na & Ta).
    destruct (unifyB_zk _ _ _ _ _ _ _ _ _ HD Za (zk_int _) U1) as [-> C1].
    exists TInt. split; [constructor|]. split; [reflexivity|].
    apply t_neg. eapply t_conv; [exact Ta | apply C1; auto].
  - (* bin *)
    apply andb_true_iff in Hf; destruct Hf as [Hf1 Hf2]. apply andb_true_iff in Hn; destruct Hn as [Hn1 Hn2].
    destruct (tcB f s G D t1) as [ra|] eqn:E1; [|discriminate].
    destruct (expectB f (b_st ra) D (b_ty ra) TInt ENotInt (b_errs ra)) as [[s1 es1]|] eqn:X1; [|discriminate].
    destruct (tcB f s1 G D t2) as [rb|] eqn:E2; [|discriminate].
    destruct (expectB f (b_st rb) D (b_ty rb) TInt ENotInt (es1 ++ b_errs rb)) as [[s2 es2]|] eqn:X2; [|discriminate].
    injection H as <-. cbn [b_errs b_st b_ty] in *. subst es2.
    destruct (expectB_errs _ _ _ _ _ _ _ _ _ X2 eq_refl) as [He2 U2].
    apply app_eq_nil in He2. destruct He2 as [-> Heb].
    destruct (expectB_errs _ _ _ _ _ _ _ _ _ X1 eq_refl) as [Hea U1].
    destruct (IH _ _ _ _ _ _ HC Hf1 Hn1 E1 Hea) as (Taz & Za & Na & Ta).
    destruct (unifyB_zk _ _ _ _ _ _ _ _ _ HD Za (zk_int _) U1) as [-> C1].
    destruct (IH _ _ _ _ _ _ HC Hf2 Hn2 E2 Heb) as (Tbz & Zb & Nb & Tb).
    destruct (unifyB_zk _ _ _ _ _ _ _ _ _ HD Zb (zk_int _) U2) as [-> C2].
    exists (bin_ty o). split; [apply zk_bin_ty|]. split; [apply nl_bin_ty|].
    apply t_bin; [eapply t_conv; [exact Ta | apply C1; auto] | eapply t_conv; [exact Tb | apply C2; auto]].
  - (* if *)
    apply andb_true_iff in Hf; destruct Hf as [Hf12 Hf3]. apply andb_true_iff in Hf12; destruct Hf12 as [Hf1 Hf2].
    apply andb_true_iff in Hn; destruct Hn as [Hn12 Hn3]. apply andb_true_iff in Hn12; destruct Hn12 as [Hn1 Hn2].
    destruct (tcB f s G D t1) as [rc|] eqn:E1; [|discriminate].
    destruct (expectB f (b_st rc) D (b_ty rc) TBool ENotBool (b_errs rc)) as [[s1 es1]|] eqn:X1; [|discriminate].
    destruct (tcB f s1 G D t2) as [ra|] eqn:E2; [|discriminate].
    destruct (tcB f (b_st ra) G D t3) as [rb|] eqn:E3; [|discriminate].
    destruct (expectB f (b_st rb) D (b_ty ra) (b_ty rb) EBranches (es1 ++ b_errs ra ++ b_errs rb)) as [[s2 es2]|] eqn:X2; [|discriminate].
    injection H as <-. cbn [b_errs b_st b_ty] in *. subst es2.
    destruct (expectB_errs _ _ _ _ _ _ _ _ _ X2 eq_refl) as [He2 U2].
    apply app_eq_nil in He2. destruct He2 as [-> He2]. apply app_eq_nil in He2. destruct He2 as [Hea Heb].
    destruct (expectB_errs _ _ _ _ _ _ _ _ _ X1 eq_refl) as [Hec U1].
    destruct (IH _ _ _ _ _ _ HC Hf1 Hn1 E1 Hec) as (Tcz & Zc & Nc & Tc).
    destruct (unifyB_zk _ _ _ _ _ _ _ _ _ HD Zc (zk_bool _) U1) as [-> C1].
    destruct (IH _ _ _ _ _ _ HC Hf2 Hn2 E2 Hea) as (Taz & Za & Na & Ta).
    destruct (IH _ _ _ _ _ _ HC Hf3 Hn3 E3 Heb) as (Tbz & Zb & Nb & Tb).
    pose proof (tcB_ext _ _ _ _ _ _ E3) as Xab.
    destruct (unifyB_zk _ _ _ _ _ _ _ _ _ HD (zk_ext _ _ _ _ Xab Za) Zb U2) as [-> C2].
    exists Taz. split; [exact (zk_ext _ _ _ _ Xab Za)|]. split; [exact Na|].
    apply t_if; [eapply t_conv; [exact Tc | apply C1; auto] | exact Ta | eapply t_conv; [exact Tb | apply c_sym; apply C2; auto]].
Qed.

(* ====================================================================================== *)
(* L4, continued: definition groups on the spine of the program                            *)
(* ====================================================================================== *)
(* A "spine" program is a sequence of definition groups followed by an expression, where the
   annotations, the definitions and the final expression are themselves group-free:
       ds1 ; ds2 ; ... ; e
   Inside such a program every unification happens between group-free terms in a context whose
   definitions are group-free; the types of the groups themselves (which mention the groups) are
   only produced, by group_typeB, never compared. *)
Definition nl_defs (ds : list (term * term)) : bool := forallb (fun p => no_let (fst p) && no_let (snd p)) ds.
Fixpoint spine (t : term) : bool :=
  match t with
  | TLet ds b => nl_defs ds && spine b
  | _ => no_let t
  end.

Lemma no_let_spine t : no_let t = true -> spine t = true.
Proof. destruct t; cbn [spine no_let]; congruence. Qed.

Definition pushG (n : nat) : list (term * term) -> nat -> tctx -> tctx :=
  fix push (l : list (term * term)) (i : nat) (acc : tctx) : tctx :=
    match l with [] => acc | (a, _) :: r => push r (S i) ((a, n - i) :: acc) end.
Definition pushD (n : nat) : list (term * term) -> nat -> dctx -> dctx :=
  fix push (l : list (term * term)) (i : nat) (acc : dctx) : dctx :=
    match l with [] => acc | (_, d) :: r => push r (S i) (Some (d, n - i) :: acc) end.
Lemma pushG_cons n a d r i acc : pushG n ((a, d) :: r) i acc = pushG n r (S i) ((a, n - i) :: acc).
Proof. reflexivity. Qed.
Lemma pushD_cons n a d r i acc : pushD n ((a, d) :: r) i acc = pushD n r (S i) (Some (d, n - i) :: acc).
Proof. reflexivity. Qed.

Lemma tcB_let_eq f s G D ds b :
  tcB (S f) s G D (TLet ds b) =
  let n := length ds in
  let G' := pushG n ds 0 G in
  let D' := pushD n ds 0 D in
  match tc_defs f (fun s0 d => tcB f s0 G' D' d) D' ds s [] with None => None | Some r =>
  let '(ds', s1, es1) := r in
  match tcB f s1 G' D' b with None => None | Some rb =>
  match group_typeB f n ds' 0 n (b_ty rb) (b_st rb) with None => None | Some T =>
  let '(T', s3) := T in
  Some {| b_elab := TLet ds' (b_elab rb); b_ty := T'; b_st := s3; b_errs := es1 ++ b_errs rb |} end end end.
Proof. reflexivity. Qed.

Lemma nl_defs_cons a d r : nl_defs ((a, d) :: r) = true <-> no_let a = true /\ no_let d = true /\ nl_defs r = true.
Proof. unfold nl_defs. cbn [forallb fst snd]. rewrite !andb_true_iff. tauto. Qed.

Lemma ctx_rel_push1 G D Gz a d k : ctx_rel G D Gz ->
  hole_free a = true -> no_let a = true -> hole_free d = true -> no_let d = true ->
  ctx_rel ((a, k) :: G) (Some (d, k) :: D) ((a, k, Some d) :: Gz).
Proof.
  intros (H1 & H2 & H3 & H4) Ha Na Hd Nd. repeat split.
  - constructor; [cbn; auto | exact H1].
  - change (G_of_D (Some (d, k) :: D)) with ((TType, k, Some d) :: G_of_D D).
    constructor; [split; reflexivity | exact H2].
  - constructor; [exact Hd | exact H3].
  - constructor; [exact Nd | exact H4].
Qed.

Lemma ctx_rel_push n : forall l j G D Gz, ctx_rel G D Gz -> hf_defs l = true -> nl_defs l = true ->
  ctx_rel (pushG n l j G) (pushD n l j D) (push_group n l j Gz).
Proof.
  induction l as [|[a d] r IH]; intros j G D Gz HC Hf Hn; [exact HC|]. rewrite pushG_cons, pushD_cons. cbn [push_group].
  apply hf_defs_cons in Hf. destruct Hf as (Ha & Hd & Hr). apply nl_defs_cons in Hn. destruct Hn as (Na & Nd & Nr).
  apply IH; [|exact Hr|exact Nr]. apply ctx_rel_push1; assumption.
Qed.

(* the loop over the definitions of a group *)
Lemma tc_defs_sound f (tc : storeB -> term -> option tcres) D' Gz' :
  (forall s0 t r, hole_free t = true -> no_let t = true -> tc s0 t = Some r -> b_errs r = [] ->
     exists Tz, zk (b_st r) (b_ty r) Tz /\ no_let Tz = true /\ has_type Gz' t Tz) ->
  hf_dctx D' -> nl_dctx D' -> same_defs Gz' (G_of_D D') ->
  forall l s0 es l' s1 es1, hf_defs l = true -> nl_defs l = true ->
    tc_defs f tc D' l s0 es = Some (l', s1, es1) -> es1 = [] ->
    es = [] /\ Forall (fun p => has_type Gz' (fst p) TType /\ has_type Gz' (snd p) (fst p)) l.
Proof.
  intros Htc HD ND HS. induction l as [|[a d] rest IHl]; intros s0 es l' s1 es1 Hf Hn H He; cbn [tc_defs] in H.
  - injection H as <- <- <-. auto.
  - apply hf_defs_cons in Hf. destruct Hf as (Ha & Hd & Hr). apply nl_defs_cons in Hn. destruct Hn as (Na & Nd & Nr).
    destruct (tc s0 a) as [ra|] eqn:E1; [|discriminate].
    destruct (expectB f (b_st ra) D' (b_ty ra) TType ENotType (es ++ b_errs ra)) as [[s0a es0]|] eqn:X1; [|discriminate].
    destruct (tc s0a d) as [rd|] eqn:E2; [|discriminate].
    destruct (expectB f (b_st rd) D' (b_ty rd) a EAnnotation (es0 ++ b_errs rd)) as [[s2 es2]|] eqn:X2; [|discriminate].
    destruct (tc_defs f tc D' rest s2 es2) as [[[rest' s3] es3]|] eqn:E3; [|discriminate].
    injection H as <- <- <-.
    destruct (IHl _ _ _ _ _ Hr Nr E3 He) as [-> Frest].
    destruct (expectB_errs _ _ _ _ _ _ _ _ _ X2 eq_refl) as [He2 U2].
    apply app_eq_nil in He2. destruct He2 as [-> Hed].
    destruct (expectB_errs _ _ _ _ _ _ _ _ _ X1 eq_refl) as [He1 U1].
    apply app_eq_nil in He1. destruct He1 as [-> Hea].
    split; [reflexivity|]. constructor; [|exact Frest]. cbn [fst snd].
    destruct (Htc _ _ _ Ha Na E1 Hea) as (Taz & Za & NTa & Ta).
    destruct (unifyB_zk _ _ _ _ _ _ _ _ _ HD Za (zk_type _) U1) as [-> C1].
    destruct (Htc _ _ _ Hd Nd E2 Hed) as (Tdz & Zd & NTd & Td).
    destruct (unifyB_zk _ _ _ _ _ _ _ _ _ HD Zd (zk_refl_hf _ _ Ha) U2) as [-> C2].
    split; [eapply t_conv; [exact Ta | apply C1; auto] | eapply t_conv; [exact Td | apply C2; auto]].
Qed.

(* the type of a group *)
Lemma shift_defs_hf f s c m : forall l l', hf_defs l = true -> shift_defs f s c m l = Some l' ->
  l' = map (fun p => (ushift (fst p) c m, ushift (snd p) c m)) l.
Proof.
  induction l as [|[a d] r IH]; intros l' Hf H; cbn [shift_defs] in H.
  - injection H as <-. reflexivity.
  - apply hf_defs_cons in Hf. destruct Hf as (Ha & Hd & Hr).
    destruct (ushiftB f s a c m) as [a'|] eqn:Ea; [|discriminate]. apply (ushiftB_hole_free _ _ _ _ _ _ Ha) in Ea.
    destruct (ushiftB f s d c m) as [d'|] eqn:Ed; [|discriminate]. apply (ushiftB_hole_free _ _ _ _ _ _ Hd) in Ed.
    destruct (shift_defs f s c m r) as [r'|] eqn:Er; [|discriminate]. rewrite (IH _ Hr eq_refl) in H.
    injection H as <-. subst. reflexivity.
Qed.

Lemma hf_defs_map_ushift c m l : hf_defs l = true -> hf_defs (map (fun p => (ushift (fst p) c m, ushift (snd p) c m)) l) = true.
Proof.
  induction l as [|[a d] r IH]; intros H; [reflexivity|].
  apply hf_defs_cons in H. destruct H as (Ha & Hd & Hr). cbn [map fst snd]. apply hf_defs_cons.
  rewrite !hf_ushift. auto.
Qed.

Lemma group_typeB_zk f n ds : hf_defs ds = true ->
  forall k i acc s T s' accu, zk s acc accu -> group_typeB f n ds i k acc s = Some (T, s') ->
    s' = s /\ zk s T (group_type n ds i k accu).
Proof.
  intros Hf. induction k as [|k IH]; intros i acc s T s' accu Hz H; cbn [group_typeB] in H; cbn [group_type].
  - injection H as <- <-. auto.
  - destruct (shift_defs f s n (n - 1 - i) ds) as [sh|] eqn:E1; [|discriminate].
    apply (shift_defs_hf _ _ _ _ _ _ Hf) in E1. subst sh.
    destruct (openB f s acc 0 (TLet (map (fun p => (ushift (fst p) n (n - 1 - i), ushift (snd p) n (n - 1 - i))) ds) (TVar i)) 0)
      as [[acc' s1]|] eqn:E2; [|discriminate].
    assert (Hx : hole_free (TLet (map (fun p => (ushift (fst p) n (n - 1 - i), ushift (snd p) n (n - 1 - i))) ds) (TVar i)) = true).
    { rewrite hf_let. rewrite hf_defs_map_ushift by exact Hf. reflexivity. }
    destruct (openB_zk _ _ _ _ _ _ _ _ _ _ Hz (zk_refl_hf s _ Hx) E2) as [-> Z2].
    exact (IH _ _ _ _ _ _ Z2 H).
Qed.

Lemma tc_defs_id' f (tc : storeB -> term -> option tcres) D' :
  (forall s0 d r, tc s0 d = Some r -> b_elab r = d) ->
  forall l s0 es l' s1 es1, tc_defs f tc D' l s0 es = Some (l', s1, es1) -> l' = l.
Proof. exact (tc_defs_id f tc D'). Qed.

Theorem tcB_sound_spine : forall f s G D t r Gz,
  ctx_rel G D Gz -> hole_free t = true -> spine t = true -> tcB f s G D t = Some r -> b_errs r = [] ->
  exists Tz, zk (b_st r) (b_ty r) Tz /\ has_type Gz t Tz.
Proof.
  induction f as [|f IH]; intros s G D t r Gz HC Hf Hs H He; [discriminate|].
  assert (NL : no_let t = true -> exists Tz, zk (b_st r) (b_ty r) Tz /\ has_type Gz t Tz).
  { intros Hn. destruct (tcB_sound_nl _ _ _ _ _ _ _ HC Hf Hn H He) as (Tz & Z & _ & HT). eauto. }
  destruct t; try (apply NL; exact Hs).
  clear NL. rewrite tcB_let_eq in H. cbv zeta in H.
  rewrite hf_let in Hf. apply andb_true_iff in Hf. destruct Hf as [Hfd Hfb].
  cbn [spine] in Hs. apply andb_true_iff in Hs. destruct Hs as [Hnd Hsb].
  set (G' := pushG (length defs) defs 0 G) in *. set (D' := pushD (length defs) defs 0 D) in *.
  assert (HC' : ctx_rel G' D' (enter defs Gz)) by (apply ctx_rel_push; assumption).
  pose proof HC' as (_ & HS' & HD' & ND').
  destruct (tc_defs f (fun s0 d => tcB f s0 G' D' d) D' defs s []) as [[[ds' s1] es1]|] eqn:E1; [|discriminate].
  destruct (tcB f s1 G' D' t) as [rb|] eqn:E2; [|discriminate].
  destruct (group_typeB f (length defs) ds' 0 (length defs) (b_ty rb) (b_st rb)) as [[T' s3]|] eqn:E3; [|discriminate].
  injection H as <-. cbn [b_errs b_st b_ty] in *.
  apply app_eq_nil in He. destruct He as [-> Heb].
  assert (ds' = defs).
  { eapply tc_defs_id'; [|exact E1]. intros s0 d r0 Hr. exact (tcB_elab_identity _ _ _ _ _ _ Hr). }
  subst ds'.
  destruct (tc_defs_sound f _ D' (enter defs Gz) (fun s0 t0 r0 Hf0 Hn0 Hr0 He0 => tcB_sound_nl _ _ _ _ _ _ _ HC' Hf0 Hn0 Hr0 He0)
              HD' ND' HS' _ _ _ _ _ _ Hfd Hnd E1 eq_refl) as [_ Fds].
  destruct (IH _ _ _ _ _ _ HC' Hfb Hsb E2 Heb) as (Bz & Zb & Tb).
  destruct (group_typeB_zk _ _ _ Hfd _ _ _ _ _ _ _ Zb E3) as [-> ZT].
  exists (group_type (length defs) defs 0 (length defs) Bz). split; [exact ZT|].
  apply t_let; assumption.
Qed.

(* ====================================================================================== *)
(* L4 for ALL hole-free programs, modulo one rule of definitional equality                  *)
(* ====================================================================================== *)
(* The whole development goes through for arbitrary hole-free programs (groups anywhere, dependent
   types) as soon as definitional equality ignores the ANNOTATIONS of group definitions, as unify's
   syntactic shortcut does.  The rule is stated as a premise (nothing is assumed globally): the theorem at the end
   of the section is an implication. *)
Definition let_annotations_irrelevant : Prop :=
  forall G ds ds' b b',
    Forall2 (fun p q : term * term => conv (enter_o ds G) (snd p) (snd q)) ds ds' ->
    conv (enter_o ds G) b b' -> conv G (TLet ds b) (TLet ds' b').

Section Full.
Hypothesis c_let_ann : let_annotations_irrelevant.

Lemma strip_defs_eq_Forall2 (P : term -> term -> Prop) : forall ds ds',
  Forall (fun p : term * term => forall b, strip (snd p) = strip b -> P (snd p) b) ds ->
  strip_defs ds = strip_defs ds' -> Forall2 (fun p q : term * term => P (snd p) (snd q)) ds ds'.
Proof.
  induction ds as [|[a d] r IH]; intros [|[a' d'] r'] HF E; cbn [strip_defs map] in E; try discriminate E; [constructor|].
  inversion HF as [|? ? Hd Hr]; subst. injection E as E1 E2. constructor; [cbn [snd] in *; auto | apply IH; assumption].
Qed.

Lemma strip_eq_conv : forall a b G, strip a = strip b -> conv G a b.
Proof.
  induction a using term_ind'; intros b0 G E; destruct b0; cbn [strip] in E; try discriminate E;
    try apply c_refl; try (injection E; intros; subst; apply c_refl); injection E; intros; subst.
  - apply c_lam. auto.
  - apply c_pi; auto.
  - apply c_app; auto.
  - apply c_let_ann; [|auto].
    apply (strip_defs_eq_Forall2 (fun x y => conv (enter_o ds G) x y)).
    + eapply Forall_impl; [|exact H]. intros [xa xd] [_ Hxd]. cbn [snd] in *. intros b1 E1. apply Hxd. exact E1.
    + assumption.
  - apply c_neg; auto.
  - apply c_bin; auto.
  - apply c_if; auto.
Qed.

Definition unify_convF (D : dctx) (au bu : term) (r : bool) : Prop :=
  r = true -> forall G, same_defs G (G_of_D D) -> conv G au bu.

Theorem unifyB_zk_full : forall f s D a b r s' au bu,
  hf_dctx D -> zk s a au -> zk s b bu -> unifyB f s D a b = Some (r, s') ->
  s' = s /\ unify_convF D au bu r.
Proof.
  induction f as [|f IH]; intros s D a b r s' au bu HD Ha Hb H; [discriminate|].
  rewrite unifyB_S in H. unfold unify_body in H.
  destruct (syn_eqB f s a b) as [[|]|] eqn:Es; [| |discriminate].
  { injection H as <- <-. split; [reflexivity|]. intros _ G HG.
    apply strip_eq_conv. exact (syn_eqB_zk _ _ _ _ _ _ Ha Hb Es). }
  destruct (whnfB f s D a) as [[w1 s1]|] eqn:W1; [|discriminate].
  destruct (whnfB_zk _ _ _ _ _ _ _ HD Ha W1) as (-> & Nh1 & wu1 & Z1 & Wa).
  destruct (whnfB f s D b) as [[w2 s2]|] eqn:W2; [|discriminate].
  destruct (whnfB_zk _ _ _ _ _ _ _ HD Hb W2) as (-> & Nh2 & wu2 & Z2 & Wb).
  clear W1 W2 Es.
  assert (Key : s' = s /\ unify_convF D wu1 wu2 r).
  2:{ destruct Key as [-> Key]. split; [reflexivity|]. intros -> G HG.
      rewrite <- (whnf_same_defs f G (G_of_D D) au HG) in Wa. rewrite <- (whnf_same_defs f G (G_of_D D) bu HG) in Wb.
      apply whnf_sound, rstar_conv in Wa. apply whnf_sound, rstar_conv in Wb.
      eapply c_trans; [exact Wa|]. eapply c_trans; [|apply c_sym; exact Wb]. exact (Key eq_refl G HG). }
  clear Wa Wb Ha Hb a b au bu.
  destruct w1; try discriminate Nh1; destruct w2; try discriminate Nh2; cbv beta iota zeta delta [unify_head] in H;
    try (injection H as <- <-; split; [reflexivity | intros ?; discriminate]);
    apply zk_inv in Z1; apply zk_inv in Z2; cbn beta iota in Z1, Z2.
  - subst. injection H as <- <-. split; [reflexivity | intros _ G _; apply c_refl].
  - subst. injection H as <- <-. split; [reflexivity | intros _ G _; apply c_refl].
  - subst. injection H as <- <-. split; [reflexivity | intros _ G _; apply c_refl].
  - subst. injection H as <- <-. split; [reflexivity | intros _ G _; apply c_refl].
  - subst. injection H as <- <-. split; [reflexivity | intros _ G _; apply c_refl].
  - subst. injection H as <- <-. split; [reflexivity | intros E G _; apply Z.eqb_eq in E; subst; apply c_refl].
  - subst. injection H as <- <-. split; [reflexivity | intros E G _; apply Nat.eqb_eq in E; subst; apply c_refl].
  - (* lam *)
    destruct Z1 as (d1 & b1 & -> & Hd1 & Hb1). destruct Z2 as (d2 & b2 & -> & Hd2 & Hb2).
    destruct (Bool.eqb impl impl0) eqn:Ei; [|injection H as <- <-; split; [reflexivity | intros ?; discriminate]].
    apply eqb_prop in Ei. subst impl0. last_un IH H (hf_dctx_cons_None _ HD). split; [reflexivity|].
    intros -> G HG. apply c_lam. apply K; auto. apply same_defs_bind. exact HG.
  - (* pi *)
    destruct Z1 as (d1 & b1 & -> & Hd1 & Hb1). destruct Z2 as (d2 & b2 & -> & Hd2 & Hb2).
    destruct (Bool.eqb impl impl0) eqn:Ei; [|injection H as <- <-; split; [reflexivity | intros ?; discriminate]].
    apply eqb_prop in Ei. subst impl0. step_un IH H HD. destruct u.
    + last_un IH H (hf_dctx_cons_None _ HD). split; [reflexivity|].
      intros -> G HG. apply c_pi; [apply K; auto|]. apply K0; auto. apply same_defs_bind. exact HG.
    + injection H as <- <-. split; [reflexivity | intros ?; discriminate].
  - (* app *)
    destruct Z1 as (d1 & b1 & -> & Hd1 & Hb1). destruct Z2 as (d2 & b2 & -> & Hd2 & Hb2).
    step_un IH H HD. destruct u.
    + last_un IH H HD. split; [reflexivity|].
      intros -> G HG. apply c_app; [apply K; auto | apply K0; auto].
    + injection H as <- <-. split; [reflexivity | intros ?; discriminate].
  - (* neg *)
    destruct Z1 as (a1 & -> & Ha1). destruct Z2 as (a2 & -> & Ha2).
    last_un IH H HD. split; [reflexivity|].
    intros -> G HG. apply c_neg. apply K; auto.
  - (* bin *)
    destruct Z1 as (d1 & b1 & -> & Hd1 & Hb1). destruct Z2 as (d2 & b2 & -> & Hd2 & Hb2).
    destruct (binop_eqbB o o0) eqn:Eo; [|injection H as <- <-; split; [reflexivity | intros ?; discriminate]].
    apply binop_eqbB_true in Eo. subst o0. step_un IH H HD. destruct u.
    + last_un IH H HD. split; [reflexivity|].
      intros -> G HG. apply c_bin; [apply K; auto | apply K0; auto].
    + injection H as <- <-. split; [reflexivity | intros ?; discriminate].
  - (* if *)
    destruct Z1 as (c1 & d1 & b1 & -> & Hc1 & Hd1 & Hb1). destruct Z2 as (c2 & d2 & b2 & -> & Hc2 & Hd2 & Hb2).
    step_un IH H HD. destruct u.
    + step_un IH H HD. destruct u.
      * last_un IH H HD. split; [reflexivity|].
        intros -> G HG. apply c_if; [apply K; auto | apply K0; auto | apply K1; auto].
      * injection H as <- <-. split; [reflexivity | intros ?; discriminate].
    + injection H as <- <-. split; [reflexivity | intros ?; discriminate].
Qed.

(* contexts: as ctx_rel, without the group-freeness side conditions *)
Definition ctx_relF (G : tctx) (D : dctx) (Gz : ctx) : Prop :=
  Forall2 (fun (p : term * nat) (e : entry) => fst (fst e) = fst p /\ snd (fst e) = snd p /\ hole_free (fst p) = true) G Gz
  /\ same_defs Gz (G_of_D D) /\ hf_dctx D.

Lemma ctx_relF_nil : ctx_relF [] [] [].
Proof. repeat split; constructor. Qed.

Lemma ctx_relF_bind G D Gz d : ctx_relF G D Gz -> hole_free d = true -> ctx_relF ((d, 0) :: G) (None :: D) (bind Gz d).
Proof.
  intros (H1 & H2 & H3) Hd. repeat split.
  - constructor; [cbn; auto | exact H1].
  - change (G_of_D (None :: D)) with (bind (G_of_D D) TType). apply same_defs_bind. exact H2.
  - apply hf_dctx_cons_None. exact H3.
Qed.

Lemma ctx_relF_lookup G D Gz i T off : ctx_relF G D Gz -> nth_error G i = Some (T, off) ->
  lookup_ty Gz i = Some (ushift T 0 (i + 1 - off)) /\ hole_free T = true.
Proof.
  intros (H1 & _) E. destruct (Forall2_nth_l _ _ _ H1 _ _ E) as ([[T' k] od] & E' & Hp).
  cbn [fst snd] in Hp. destruct Hp as (-> & -> & Hf). unfold lookup_ty. rewrite E'. auto.
Qed.

Lemma ctx_relF_push n : forall l j G D Gz, ctx_relF G D Gz -> hf_defs l = true ->
  ctx_relF (pushG n l j G) (pushD n l j D) (push_group n l j Gz).
Proof.
  induction l as [|[a d] r IH]; intros j G D Gz HC Hf; [exact HC|]. rewrite pushG_cons, pushD_cons. cbn [push_group].
  apply hf_defs_cons in Hf. destruct Hf as (Ha & Hd & Hr).
  apply IH; [|exact Hr]. destruct HC as (H1 & H2 & H3). repeat split.
  - constructor; [cbn; auto | exact H1].
  - change (G_of_D (Some (d, n - j) :: D)) with ((TType, n - j, Some d) :: G_of_D D).
    constructor; [split; reflexivity | exact H2].
  - constructor; [exact Hd | exact H3].
Qed.

Lemma tc_defs_soundF f (tc : storeB -> term -> option tcres) D' Gz' :
  (forall s0 t r, hole_free t = true -> tc s0 t = Some r -> b_errs r = [] ->
     exists Tz, zk (b_st r) (b_ty r) Tz /\ has_type Gz' t Tz) ->
  hf_dctx D' -> same_defs Gz' (G_of_D D') ->
  forall l s0 es l' s1 es1, hf_defs l = true ->
    tc_defs f tc D' l s0 es = Some (l', s1, es1) -> es1 = [] ->
    es = [] /\ Forall (fun p => has_type Gz' (fst p) TType /\ has_type Gz' (snd p) (fst p)) l.
Proof.
  intros Htc HD HS. induction l as [|[a d] rest IHl]; intros s0 es l' s1 es1 Hf H He; cbn [tc_defs] in H.
  - injection H as <- <- <-. auto.
  - apply hf_defs_cons in Hf. destruct Hf as (Ha & Hd & Hr).
    destruct (tc s0 a) as [ra|] eqn:E1; [|discriminate].
    destruct (expectB f (b_st ra) D' (b_ty ra) TType ENotType (es ++ b_errs ra)) as [[s0a es0]|] eqn:X1; [|discriminate].
    destruct (tc s0a d) as [rd|] eqn:E2; [|discriminate].
    destruct (expectB f (b_st rd) D' (b_ty rd) a EAnnotation (es0 ++ b_errs rd)) as [[s2 es2]|] eqn:X2; [|discriminate].
    destruct (tc_defs f tc D' rest s2 es2) as [[[rest' s3] es3]|] eqn:E3; [|discriminate].
    injection H as <- <- <-.
    destruct (IHl _ _ _ _ _ Hr E3 He) as [-> Frest].
    destruct (expectB_errs _ _ _ _ _ _ _ _ _ X2 eq_refl) as [He2 U2].
    apply app_eq_nil in He2. destruct He2 as [-> Hed].
    destruct (expectB_errs _ _ _ _ _ _ _ _ _ X1 eq_refl) as [He1 U1].
    apply app_eq_nil in He1. destruct He1 as [-> Hea].
    split; [reflexivity|]. constructor; [|exact Frest]. cbn [fst snd].
    destruct (Htc _ _ _ Ha E1 Hea) as (Taz & Za & Ta).
    destruct (unifyB_zk_full _ _ _ _ _ _ _ _ _ HD Za (zk_type _) U1) as [-> C1].
    destruct (Htc _ _ _ Hd E2 Hed) as (Tdz & Zd & Td).
    destruct (unifyB_zk_full _ _ _ _ _ _ _ _ _ HD Zd (zk_refl_hf _ _ Ha) U2) as [-> C2].
    split; [eapply t_conv; [exact Ta | apply C1; auto] | eapply t_conv; [exact Td | apply C2; auto]].
Qed.

Theorem tcB_sound_full : forall f s G D t r Gz,
  ctx_relF G D Gz -> hole_free t = true -> tcB f s G D t = Some r -> b_errs r = [] ->
  exists Tz, zk (b_st r) (b_ty r) Tz /\ has_type Gz t Tz.
Proof.
  induction f as [|f IH]; intros s G D t r Gz HC Hf H He; [discriminate|].
  pose proof HC as (HC1 & HS & HD).
  destruct t; [| | | | | | | | | | | rewrite tcB_let_eq in H; cbv zeta in H | | | ]; try (cbn [tcB] in H); cbn [hole_free] in Hf.
  - discriminate Hf.
  - injection H as <-. exists TType. repeat split; constructor.
  - injection H as <-. exists TType. repeat split; constructor.
  - injection H as <-. exists TType. repeat split; constructor.
  - injection H as <-. exists TBool. repeat split; constructor.
  - injection H as <-. exists TBool. repeat split; constructor.
  - injection H as <-. exists TInt. repeat split; constructor.
  - (* var *)
    destruct (nth_error G i) as [[T off]|] eqn:En; [|injection H as <-; discriminate He].
    destruct (ushiftB f s T 0 (i + 1 - off)) as [T'|] eqn:U; [|discriminate]. injection H as <-. cbn [b_st b_ty].
    destruct (ctx_relF_lookup _ _ _ _ _ _ HC En) as (L & HfT).
    apply (ushiftB_hole_free _ _ _ _ _ _ HfT) in U. subst T'.
    exists (ushift T 0 (i + 1 - off)). split; [apply zk_refl_hf; now rewrite hf_ushift | now apply t_var].
  - (* lam *)
    apply andb_true_iff in Hf; destruct Hf as [Hf1 Hf2].
    destruct (tcB f s G D t1) as [rd|] eqn:E1; [|discriminate].
    destruct (expectB f (b_st rd) D (b_ty rd) TType ENotType (b_errs rd)) as [[s1 es1]|] eqn:X1; [|discriminate].
    destruct (tcB f s1 ((b_elab rd, 0) :: G) (None :: D) t2) as [rb|] eqn:E2; [|discriminate].
    injection H as <-. cbn [b_errs b_st b_ty] in *.
    apply app_eq_nil in He. destruct He as [-> Heb].
    destruct (expectB_errs _ _ _ _ _ _ _ _ _ X1 eq_refl) as [Hed U1].
    destruct (IH _ _ _ _ _ _ HC Hf1 E1 Hed) as (Tdz & Zd & Td).
    destruct (unifyB_zk_full _ _ _ _ _ _ _ _ _ HD Zd (zk_type _) U1) as [-> C1].
    rewrite (tcB_elab_identity _ _ _ _ _ _ E1) in *.
    destruct (IH _ _ _ _ _ _ (ctx_relF_bind _ _ _ _ HC Hf1) Hf2 E2 Heb) as (Bz & Zb & Tb).
    exists (TPi impl t1 Bz). split; [constructor; [apply zk_refl_hf; exact Hf1 | exact Zb]|].
    apply t_lam; [eapply t_conv; [exact Td | apply C1; auto] | exact Tb].
  - (* pi *)
    apply andb_true_iff in Hf; destruct Hf as [Hf1 Hf2].
    destruct (tcB f s G D t1) as [rd|] eqn:E1; [|discriminate].
    destruct (expectB f (b_st rd) D (b_ty rd) TType ENotType (b_errs rd)) as [[s1 es1]|] eqn:X1; [|discriminate].
    destruct (tcB f s1 ((b_elab rd, 0) :: G) (None :: D) t2) as [rb|] eqn:E2; [|discriminate].
    destruct (expectB f (b_st rb) (None :: D) (b_ty rb) TType ENotType (es1 ++ b_errs rb)) as [[s2 es2]|] eqn:X2; [|discriminate].
    injection H as <-. cbn [b_errs b_st b_ty] in *. subst es2.
    destruct (expectB_errs _ _ _ _ _ _ _ _ _ X2 eq_refl) as [He2 U2].
    apply app_eq_nil in He2. destruct He2 as [-> Heb].
    destruct (expectB_errs _ _ _ _ _ _ _ _ _ X1 eq_refl) as [Hed U1].
    destruct (IH _ _ _ _ _ _ HC Hf1 E1 Hed) as (Tdz & Zd & Td).
    destruct (unifyB_zk_full _ _ _ _ _ _ _ _ _ HD Zd (zk_type _) U1) as [-> C1].
    rewrite (tcB_elab_identity _ _ _ _ _ _ E1) in *.
    pose proof (ctx_relF_bind _ _ _ _ HC Hf1) as HC'. pose proof HC' as (_ & HS' & HD').
    destruct (IH _ _ _ _ _ _ HC' Hf2 E2 Heb) as (Bz & Zb & Tb).
    destruct (unifyB_zk_full _ _ _ _ _ _ _ _ _ HD' Zb (zk_type _) U2) as [-> C2].
    exists TType. split; [constructor|].
    apply t_pi; [eapply t_conv; [exact Td | apply C1; auto] | eapply t_conv; [exact Tb | apply C2; auto]].
  - (* app *)
    apply andb_true_iff in Hf; destruct Hf as [Hf1 Hf2].
    destruct (tcB f s G D t1) as [ra|] eqn:E1; [|discriminate].
    unfold fresh_hole, salloc in H.
    set (s0 := b_st ra) in *. set (s2 := (s0 ++ [None]) ++ [None]) in *.
    destruct (expectB f s2 D (TPi false (THole (length s0) 0) (THole (length (s0 ++ [None])) 0)) (b_ty ra) ENotFunction (b_errs ra))
      as [[s3 es3]|] eqn:X1; [|discriminate].
    destruct (tcB f s3 G D t2) as [rb|] eqn:E2; [|discriminate].
    destruct (expectB f (b_st rb) D (THole (length s0) 0) (b_ty rb) EArgument (es3 ++ b_errs rb)) as [[s4 es4]|] eqn:X2; [|discriminate].
    destruct (openB f s4 (THole (length (s0 ++ [None])) 0) 0 (b_elab rb) 0) as [[T s5]|] eqn:O; [|discriminate].
    injection H as <-. cbn [b_errs b_st b_ty] in *. subst es4.
    destruct (expectB_errs _ _ _ _ _ _ _ _ _ X2 eq_refl) as [He2 U2].
    apply app_eq_nil in He2. destruct He2 as [-> Heb].
    destruct (expectB_errs _ _ _ _ _ _ _ _ _ X1 eq_refl) as [Hea U1].
    destruct (IH _ _ _ _ _ _ HC Hf1 E1 Hea) as (Fz & Zf & Tf). fold s0 in Zf.
    assert (G02 : grow s0 s2) by (eapply grow_trans; apply grow_snoc).
    assert (Zf2 : zk s2 (b_ty ra) Fz) by (eapply zk_ext; [apply grow_ext; exact G02 | exact Zf]).
    assert (L2 : length s2 = S (S (length s0))) by (unfold s2; rewrite !app_length; cbn [length]; lia).
    assert (L1 : length (s0 ++ [None]) = S (length s0)) by (rewrite app_length; cbn [length]; lia).
    assert (Hn_dom : sget s2 (length s0) = None) by (rewrite (grow_sget _ _ _ G02); apply sget_ge; lia).
    assert (Hn_cod : sget s2 (length (s0 ++ [None])) = None).
    { unfold s2. rewrite (grow_sget _ _ _ (grow_snoc (s0 ++ [None]))). apply sget_ge. lia. }
    assert (Hne : length s0 <> length (s0 ++ [None])) by lia.
    assert (Hl1 : length s0 < length s2) by lia. assert (Hl2 : length (s0 ++ [None]) < length s2) by lia.
    destruct (unifyB_pi_fresh _ _ _ _ _ _ _ _ Gz HD HS Hne Hn_dom Hn_cod Hl1 Hl2 Zf2 U1)
      as (X23 & A & B & ZA & ZB & CF & _).
    destruct (IH _ _ _ _ _ _ HC Hf2 E2 Heb) as (Az & Zaz & Tb).
    pose proof (tcB_ext _ _ _ _ _ _ E2) as X3b.
    destruct (unifyB_zk_full _ _ _ _ _ _ _ _ _ HD (zk_ext _ _ _ _ X3b ZA) Zaz U2) as [-> C2].
    rewrite (tcB_elab_identity _ _ _ _ _ _ E2) in O.
    destruct (openB_zk _ _ _ _ _ _ _ _ _ _ (zk_ext _ _ _ _ X3b ZB) (zk_refl_hf _ _ Hf2) O) as [-> ZT].
    exists (open B 0 t2 0). split; [exact ZT|].
    eapply t_app; [eapply t_conv; [exact Tf | exact CF] | eapply t_conv; [exact Tb | apply c_sym; apply C2; auto]].
  - (* let *)
    change (hf_defs defs && hole_free t = true) in Hf. apply andb_true_iff in Hf. destruct Hf as [Hfd Hfb].
    set (G' := pushG (length defs) defs 0 G) in *. set (D' := pushD (length defs) defs 0 D) in *.
    assert (HC' : ctx_relF G' D' (enter defs Gz)) by (apply ctx_relF_push; assumption).
    pose proof HC' as (_ & HS' & HD').
    destruct (tc_defs f (fun s0 d => tcB f s0 G' D' d) D' defs s []) as [[[ds' s1] es1]|] eqn:E1; [|discriminate].
    destruct (tcB f s1 G' D' t) as [rb|] eqn:E2; [|discriminate].
    destruct (group_typeB f (length defs) ds' 0 (length defs) (b_ty rb) (b_st rb)) as [[T' s3]|] eqn:E3; [|discriminate].
    injection H as <-. cbn [b_errs b_st b_ty] in *.
    apply app_eq_nil in He. destruct He as [-> Heb].
    assert (ds' = defs).
    { eapply tc_defs_id'; [|exact E1]. intros s0 d r0 Hr. exact (tcB_elab_identity _ _ _ _ _ _ Hr). }
    subst ds'.
    destruct (tc_defs_soundF f _ D' (enter defs Gz) (fun s0 t0 r0 Hf0 Hr0 He0 => IH _ _ _ _ _ _ HC' Hf0 Hr0 He0)
                HD' HS' _ _ _ _ _ _ Hfd E1 eq_refl) as [_ Fds].
    destruct (IH _ _ _ _ _ _ HC' Hfb E2 Heb) as (Bz & Zb & Tb).
    destruct (group_typeB_zk _ _ _ Hfd _ _ _ _ _ _ _ Zb E3) as [-> ZT].
    exists (group_type (length defs) defs 0 (length defs) Bz). split; [exact ZT|].
    apply t_let; assumption.
  - (* neg *)
    destruct (tcB f s G D t) as [ra|] eqn:E1; [|discriminate].
    destruct (expectB f (b_st ra) D (b_ty ra) TInt ENotInt (b_errs ra)) as [[s1 es1]|] eqn:X1; [|discriminate].
    injection H as <-. cbn [b_errs b_st b_ty] in *. subst es1.
    destruct (expectB_errs _ _ _ _ _ _ _ _ _ X1 eq_refl) as [Hea U1].
    destruct (IH _ _ _ _ _ _ HC Hf E1 Hea) as (Taz & Za & Ta).
    destruct (unifyB_zk_full _ _ _ _ _ _ _ _ _ HD Za (zk_int _) U1) as [-> C1].
    exists TInt. split; [constructor|].
    apply t_neg. eapply t_conv; [exact Ta | apply C1; auto].
  - (* bin *)
    apply andb_true_iff in Hf; destruct Hf as [Hf1 Hf2].
    destruct (tcB f s G D t1) as [ra|] eqn:E1; [|discriminate].
    destruct (expectB f (b_st ra) D (b_ty ra) TInt ENotInt (b_errs ra)) as [[s1 es1]|] eqn:X1; [|discriminate].
    destruct (tcB f s1 G D t2) as [rb|] eqn:E2; [|discriminate].
    destruct (expectB f (b_st rb) D (b_ty rb) TInt ENotInt (es1 ++ b_errs rb)) as [[s2 es2]|] eqn:X2; [|discriminate].
    injection H as <-. cbn [b_errs b_st b_ty] in *. subst es2.
    destruct (expectB_errs _ _ _ _ _ _ _ _ _ X2 eq_refl) as [He2 U2].
    apply app_eq_nil in He2. destruct He2 as [-> Heb].
    destruct (expectB_errs _ _ _ _ _ _ _ _ _ X1 eq_refl) as [Hea U1].
    destruct (IH _ _ _ _ _ _ HC Hf1 E1 Hea) as (Taz & Za & Ta).
    destruct (unifyB_zk_full _ _ _ _ _ _ _ _ _ HD Za (zk_int _) U1) as [-> C1].
    destruct (IH _ _ _ _ _ _ HC Hf2 E2 Heb) as (Tbz & Zb & Tb).
    destruct (unifyB_zk_full _ _ _ _ _ _ _ _ _ HD Zb (zk_int _) U2) as [-> C2].
    exists (bin_ty o). split; [apply zk_bin_ty|].
    apply t_bin; [eapply t_conv; [exact Ta | apply C1; auto] | eapply t_conv; [exact Tb | apply C2; auto]].
  - (* if *)
    apply andb_true_iff in Hf; destruct Hf as [Hf12 Hf3]. apply andb_true_iff in Hf12; destruct Hf12 as [Hf1 Hf2].
    destruct (tcB f s G D t1) as [rc|] eqn:E1; [|discriminate].
    destruct (expectB f (b_st rc) D (b_ty rc) TBool ENotBool (b_errs rc)) as [[s1 es1]|] eqn:X1; [|discriminate].
    destruct (tcB f s1 G D t2) as [ra|] eqn:E2; [|discriminate].
    destruct (tcB f (b_st ra) G D t3) as [rb|] eqn:E3; [|discriminate].
    destruct (expectB f (b_st rb) D (b_ty ra) (b_ty rb) EBranches (es1 ++ b_errs ra ++ b_errs rb)) as [[s2 es2]|] eqn:X2; [|discriminate].
    injection H as <-. cbn [b_errs b_st b_ty] in *. subst es2.
    destruct (expectB_errs _ _ _ _ _ _ _ _ _ X2 eq_refl) as [He2 U2].
    apply app_eq_nil in He2. destruct He2 as [-> He2]. apply app_eq_nil in He2. destruct He2 as [Hea Heb].
    destruct (expectB_errs _ _ _ _ _ _ _ _ _ X1 eq_refl) as [Hec U1].
    destruct (IH _ _ _ _ _ _ HC Hf1 E1 Hec) as (Tcz & Zc & Tc).
    destruct (unifyB_zk_full _ _ _ _ _ _ _ _ _ HD Zc (zk_bool _) U1) as [-> C1].
    destruct (IH _ _ _ _ _ _ HC Hf2 E2 Hea) as (Taz & Za & Ta).
    destruct (IH _ _ _ _ _ _ HC Hf3 E3 Heb) as (Tbz & Zb & Tb).
    pose proof (tcB_ext _ _ _ _ _ _ E3) as Xab.
    destruct (unifyB_zk_full _ _ _ _ _ _ _ _ _ HD (zk_ext _ _ _ _ Xab Za) Zb U2) as [-> C2].
    exists Taz. split; [exact (zk_ext _ _ _ _ Xab Za)|].
    apply t_if; [eapply t_conv; [exact Tc | apply C1; auto] | exact Ta | eapply t_conv; [exact Tb | apply c_sym; apply C2; auto]].
Qed.

Theorem tcB_sound_hole_free_full_in_section : forall f t r,
  hole_free t = true -> tcB f [] [] [] t = Some r -> b_errs r = [] ->
  exists T, has_type [] t T /\ zk (b_st r) (b_ty r) T /\ zk (b_st r) (b_elab r) t.
Proof.
  intros f t r Hf H He.
  destruct (tcB_sound_full _ _ _ _ _ _ _ ctx_relF_nil Hf H He) as (T & Z & HT).
  exists T. split; [exact HT|]. split; [exact Z|].
  rewrite (tcB_elab_identity _ _ _ _ _ _ H). apply zk_refl_hf. exact Hf.
Qed.
End Full.

(* the full statement, for all hole-free programs, as an implication from the one missing rule *)
Theorem tcB_sound_hole_free_modulo_let_annotations :
  let_annotations_irrelevant ->
  forall f t r, hole_free t = true -> tcB f [] [] [] t = Some r -> b_errs r = [] ->
  exists T, has_type [] t T /\ zk (b_st r) (b_ty r) T /\ zk (b_st r) (b_elab r) t.
Proof. exact tcB_sound_hole_free_full_in_section. Qed.

(* ====================================================================================== *)
(* The relation zk and the model's own zonkB                                               *)
(* ====================================================================================== *)
(* zk s t u implies that zonkB computes u from t for every sufficiently large fuel.  For this the
   model's shift must terminate on fully solved terms given enough fuel. *)
Definition ss_total (s : storeB) (t : term) : Prop :=
  exists n0, forall f, n0 <= f -> forall c k, sshiftB f s t c k <> None.
Definition ss_total_defs (s : storeB) (l : list (term * term)) : Prop :=
  exists n0, forall f, n0 <= f -> forall c k, sshiftB_defs f s c k l <> None.

Ltac need_ss Hn :=
  match goal with
  | |- context [match sshiftB ?f ?s ?t ?c ?k with _ => _ end] =>
      let E := fresh "E" in
      destruct (sshiftB f s t c k) eqn:E; [| exfalso; eapply Hn; [| exact E]; lia]
  end.

Lemma ss_total_gen s0 s :
  (forall id sh sol u0, sget s0 id = Some sol -> zk s0 sol u0 -> ss_total s sol -> ss_total s (THole id sh)) ->
  (forall t u, zk s0 t u -> ss_total s t) /\ (forall l lu, zkds s0 l lu -> ss_total_defs s l).
Proof.
  intros Hhole. apply (zk_zkds_ind s0); intros.
  - eapply Hhole; eassumption.
  - exists 1. intros [|f] L cc kk; [lia|]. discriminate.
  - exists 1. intros [|f] L cc kk; [lia|]. discriminate.
  - exists 1. intros [|f] L cc kk; [lia|]. discriminate.
  - exists 1. intros [|f] L cc kk; [lia|]. discriminate.
  - exists 1. intros [|f] L cc kk; [lia|]. discriminate.
  - exists 1. intros [|f] L cc kk; [lia|]. discriminate.
  - exists 1. intros [|f] L cc kk; [lia|]. discriminate.
  - destruct H0 as [n1 K1], H2 as [n2 K2]. exists (S (Nat.max n1 n2)). intros [|f] L cc kk; [lia|].
    cbn [sshiftB]. cbv beta zeta. need_ss K1. need_ss K2. discriminate.
  - destruct H0 as [n1 K1], H2 as [n2 K2]. exists (S (Nat.max n1 n2)). intros [|f] L cc kk; [lia|].
    cbn [sshiftB]. cbv beta zeta. need_ss K1. need_ss K2. discriminate.
  - destruct H0 as [n1 K1], H2 as [n2 K2]. exists (S (Nat.max n1 n2)). intros [|f] L cc kk; [lia|].
    cbn [sshiftB]. cbv beta zeta. need_ss K1. need_ss K2. discriminate.
  - (* let *)
    destruct H0 as [n1 K1], H2 as [n2 K2]. exists (S (Nat.max n1 n2)). intros [|f] L cc kk; [lia|].
    cbn [sshiftB]. cbv beta zeta.
    change (match sshiftB_defs f s (length ds + cc) kk ds with
            | Some ds' => match sshiftB f s b (length ds + cc) kk with
                          | Some b' => Some (match ds', b' with Some x, Some y => Some (TLet x y) | _, _ => None end)
                          | None => None end
            | None => None end <> None).
    destruct (sshiftB_defs f s (length ds + cc) kk ds) eqn:E1; [| exfalso; eapply K1; [| exact E1]; lia].
    need_ss K2. discriminate.
  - destruct H0 as [n1 K1]. exists (S n1). intros [|f] L cc kk; [lia|].
    cbn [sshiftB]. cbv beta zeta. need_ss K1. discriminate.
  - destruct H0 as [n1 K1], H2 as [n2 K2]. exists (S (Nat.max n1 n2)). intros [|f] L cc kk; [lia|].
    cbn [sshiftB]. cbv beta zeta. need_ss K1. need_ss K2. discriminate.
  - destruct H0 as [n1 K1], H2 as [n2 K2], H4 as [n3 K3]. exists (S (Nat.max n1 (Nat.max n2 n3))). intros [|f] L cc kk; [lia|].
    cbn [sshiftB]. cbv beta zeta. need_ss K1. need_ss K2. need_ss K3. discriminate.
  - exists 0. intros f _ cc kk. discriminate.
  - destruct H0 as [n1 K1], H2 as [n2 K2], H4 as [n3 K3]. exists (Nat.max n1 (Nat.max n2 n3)). intros f L cc kk.
    cbn [sshiftB_defs]. need_ss K1. need_ss K2.
    destruct (sshiftB_defs f s cc kk r) eqn:E1; [| exfalso; eapply K3; [| exact E1]; lia]. discriminate.
Qed.

Lemma ss_total_hf s t : hole_free t = true -> ss_total s t.
Proof.
  intros Hf. refine (proj1 (ss_total_gen [] s _) t t (zk_refl_hf [] t Hf)).
  intros id sh sol u0 E. destruct id; discriminate E.
Qed.

Lemma ss_total_zk s t u : zk s t u -> ss_total s t.
Proof.
  refine (proj1 (ss_total_gen s s _) t u).
  intros id sh sol u0 Es Hs [n1 K1].
  destruct (ss_total_hf s (ushift u0 0 sh)) as [n2 H2]; [rewrite hf_ushift; exact (zk_hf _ _ _ Hs)|].
  exists (S (Nat.max n1 n2)). intros [|f] L c k; [lia|].
  cbn [sshiftB]. rewrite Es.
  destruct (sshiftB f s sol 0 (Z.of_nat sh)) eqn:E1; [| exfalso; eapply K1; [| exact E1]; lia].
  rewrite (sshiftB_zk_exact _ _ _ _ _ _ _ Hs E1). apply H2. lia.
Qed.

Lemma ushiftB_zk_total s t u : zk s t u -> exists n0, forall f, n0 <= f -> forall c n, ushiftB f s t c n = Some (ushift u c n).
Proof.
  intros Hz. destruct (ss_total_zk _ _ _ Hz) as [n0 H0]. exists n0. intros f L c n. unfold ushiftB.
  destruct (sshiftB f s t c (Z.of_nat n)) eqn:E; [| exfalso; exact (H0 f L c _ E)].
  now rewrite (sshiftB_zk_exact _ _ _ _ _ _ _ Hz E).
Qed.

Lemma zonkB_hf : forall f s t, hole_free t = true -> zonkB f s t = t.
Proof.
  induction f as [|f IH]; intros s t Hf; [reflexivity|].
  destruct t; cbn [zonkB]; cbn [hole_free] in Hf; try reflexivity; try discriminate;
    repeat match goal with H : _ && _ = true |- _ => apply andb_true_iff in H; destruct H end;
    rewrite ?IH by assumption; try reflexivity.
  f_equal. apply map_id'. match goal with H : forallb _ _ = true |- _ => rename H into Hd end.
  change (hf_defs defs = true) in Hd. apply hf_defs_Forall in Hd.
  eapply Forall_impl; [|exact Hd]. intros [a d] [Ha Hd']. cbn [fst snd] in *. now rewrite !IH.
Qed.

Definition zonkB_pair (f : nat) (s : storeB) (p : term * term) : term * term := (zonkB f s (fst p), zonkB f s (snd p)).

Theorem zk_zonkB_both s :
  (forall t u, zk s t u -> exists n0, forall f, n0 <= f -> zonkB f s t = u) /\
  (forall l lu, zkds s l lu -> exists n0, forall f, n0 <= f -> map (zonkB_pair f s) l = lu).
Proof.
  apply (zk_zkds_ind s); intros;
    try (exists 0; intros [|f] _; reflexivity).
  - (* solved hole *)
    destruct (ushiftB_zk_total _ _ _ H0) as [n0 Hn]. exists (S n0). intros [|f] L; [lia|].
    cbn [zonkB]. rewrite H, Hn by lia. apply zonkB_hf. rewrite hf_ushift. exact (zk_hf _ _ _ H0).
  - destruct H0 as [n1 K1], H2 as [n2 K2]. exists (S (Nat.max n1 n2)). intros [|f] L; [lia|].
    cbn [zonkB]. rewrite K1, K2 by lia. reflexivity.
  - destruct H0 as [n1 K1], H2 as [n2 K2]. exists (S (Nat.max n1 n2)). intros [|f] L; [lia|].
    cbn [zonkB]. rewrite K1, K2 by lia. reflexivity.
  - destruct H0 as [n1 K1], H2 as [n2 K2]. exists (S (Nat.max n1 n2)). intros [|f] L; [lia|].
    cbn [zonkB]. rewrite K1, K2 by lia. reflexivity.
  - destruct H0 as [n1 K1], H2 as [n2 K2]. exists (S (Nat.max n1 n2)). intros [|f] L; [lia|].
    cbn [zonkB]. fold (zonkB_pair f s). rewrite K1, K2 by lia. reflexivity.
  - destruct H0 as [n1 K1]. exists (S n1). intros [|f] L; [lia|].
    cbn [zonkB]. rewrite K1 by lia. reflexivity.
  - destruct H0 as [n1 K1], H2 as [n2 K2]. exists (S (Nat.max n1 n2)). intros [|f] L; [lia|].
    cbn [zonkB]. rewrite K1, K2 by lia. reflexivity.
  - destruct H0 as [n1 K1], H2 as [n2 K2], H4 as [n3 K3]. exists (S (Nat.max n1 (Nat.max n2 n3))). intros [|f] L; [lia|].
    cbn [zonkB]. rewrite K1, K2, K3 by lia. reflexivity.
  - destruct H0 as [n1 K1], H2 as [n2 K2], H4 as [n3 K3]. exists (Nat.max n1 (Nat.max n2 n3)). intros f L.
    cbn [map]. unfold zonkB_pair at 1. cbn [fst snd]. rewrite K1, K2, K3 by lia. reflexivity.
Qed.

Corollary zk_zonkB s t u : zk s t u -> exists n0, forall f, n0 <= f -> zonkB f s t = u.
Proof. apply zk_zonkB_both. Qed.

(* ====================================================================================== *)
(* Main theorems                                                                           *)
(* ====================================================================================== *)

(* THE GOAL (kept visible):

     Theorem tcB_sound_hole_free : forall f t r,
       hole_free t = true -> tcB f [] [] [] t = Some r -> b_errs r = [] ->
       exists T, has_type [] t T /\ conv [] T (Z (b_ty r)) /\ Z (b_elab r) = t.

   PROVED BELOW for every hole-free program on the definition "spine"
   (spine t = true: t = ds1 ; ds2 ; ... ; e with group-free annotations, definitions and e; in
   particular for every group-free program, no_let t = true), with Z = zonking by the final store,
   both as the relation zk (tcB_sound_hole_free_spine) and as the model's zonkB with any
   sufficiently large fuel (tcB_sound_hole_free_spine_zonkB).  T is even syntactically the zonked
   type.

   NOT PROVED: programs with a definition group nested inside a definition, an annotation, a
   function body or an argument.  What is missing is not on the Model B side (L1-L3 above cover
   groups: sshiftB, openB, let_substB, whnfB, syn_eqB, occursB, and unifyB-vs-convb all handle TLet)
   but a fact about the declarative equality: unify's syntactic shortcut syn_eqB ignores the
   ANNOTATIONS of group definitions (as it ignores the domain annotations of functions), whereas
   Spec.Typing.conv has annotation irrelevance for functions only (c_lam); c_let demands
   convertible annotations, and r_let keeps the annotation inside the unfolding (unfold_first), so
       strip a = strip b -> conv G a b
   is derivable for group-free terms (strip_eq_conv_nl) but has no apparent derivation for groups
   with recursive definitions (the annotation reappears at every unfolding).  On the spine no group is ever compared, only produced (group_typeB), so the gap is
   not hit.  Closing it needs either a rule "group annotations are irrelevant" in conv, or a proof
   that the checker never compares two groups with equal stripped definitions and inconvertible
   annotations. *)

Theorem tcB_sound_hole_free_spine : forall f t r,
  hole_free t = true -> spine t = true -> tcB f [] [] [] t = Some r -> b_errs r = [] ->
  exists T, has_type [] t T /\ zk (b_st r) (b_ty r) T /\ zk (b_st r) (b_elab r) t.
Proof.
  intros f t r Hf Hs H He.
  destruct (tcB_sound_spine _ _ _ _ _ _ _ ctx_rel_nil Hf Hs H He) as (T & Z & HT).
  exists T. split; [exact HT|]. split; [exact Z|].
  rewrite (tcB_elab_identity _ _ _ _ _ _ H). apply zk_refl_hf. exact Hf.
Qed.

(* The same statement with the model's own zonkB, for every sufficiently large fuel: the declared
   type is (syntactically) the zonked type of the run, and the zonked elaboration is the program. *)
Theorem tcB_sound_hole_free_spine_zonkB : forall f t r,
  hole_free t = true -> spine t = true -> tcB f [] [] [] t = Some r -> b_errs r = [] ->
  exists T n0, has_type [] t T /\
    forall n, n0 <= n -> conv [] T (zonkB n (b_st r) (b_ty r)) /\ zonkB n (b_st r) (b_elab r) = t.
Proof.
  intros f t r Hf Hs H He.
  destruct (tcB_sound_hole_free_spine _ _ _ Hf Hs H He) as (T & HT & Z1 & Z2).
  destruct (zk_zonkB _ _ _ Z1) as [n1 K1]. destruct (zk_zonkB _ _ _ Z2) as [n2 K2].
  exists T, (Nat.max n1 n2). split; [exact HT|]. intros n L. rewrite K1, K2 by lia. split; [apply c_refl | reflexivity].
Qed.

(* the group-free fragment *)
Corollary tcB_sound_hole_free_nolet : forall f t r,
  hole_free t = true -> no_let t = true -> tcB f [] [] [] t = Some r -> b_errs r = [] ->
  exists T, has_type [] t T /\ zk (b_st r) (b_ty r) T /\ zk (b_st r) (b_elab r) t.
Proof. intros f t r Hf Hn. apply tcB_sound_hole_free_spine; [exact Hf | now apply no_let_spine]. Qed.

Corollary tcB_sound_hole_free_nolet_zonkB : forall f t r,
  hole_free t = true -> no_let t = true -> tcB f [] [] [] t = Some r -> b_errs r = [] ->
  exists T n0, has_type [] t T /\
    forall n, n0 <= n -> conv [] T (zonkB n (b_st r) (b_ty r)) /\ zonkB n (b_st r) (b_elab r) = t.
Proof. intros f t r Hf Hn. apply tcB_sound_hole_free_spine_zonkB; [exact Hf | now apply no_let_spine]. Qed.

(* In particular no unsolved cell is reachable from the outputs of such a run (so the D9 defect,
   whose witness needs an unsolved cell in the input, cannot occur): *)
Corollary tcB_hole_free_spine_fully_solved : forall f t r,
  hole_free t = true -> spine t = true -> tcB f [] [] [] t = Some r -> b_errs r = [] ->
  exists T, zk (b_st r) (b_ty r) T /\ hole_free T = true.
Proof.
  intros f t r Hf Hs H He. destruct (tcB_sound_hole_free_spine _ _ _ Hf Hs H He) as (T & _ & Z & _).
  exists T. split; [exact Z | exact (zk_hf _ _ _ Z)].
Qed.

(* ---------- non-vacuity ---------- *)
Definition ex_app : term := TApp (TLam false TInt (TBin OSum (TVar 0) (TLit 1))) (TLit 3).
Definition ex_poly : term := TApp (TApp (TLam false TType (TLam false (TVar 0) (TVar 0))) TInt) (TLit 3).
(* id : (a : type) -> a -> a = (a : type) => (x : a) => x; id int 3 *)
Definition ex_id_group : term :=
  TLet [(TPi false TType (TPi false (TVar 0) (TVar 1)), TLam false TType (TLam false (TVar 0) (TVar 0)))]
       (TApp (TApp (TVar 0) TInt) (TLit 3)).
(* fact : int -> int = (n : int) => if n == 0 then 1 else n * fact (n - 1); fact 5 *)
Definition ex_fact : term :=
  TLet [(TPi false TInt TInt,
         TLam false TInt (TIf (TBin OEq (TVar 0) (TLit 0)) (TLit 1)
                              (TBin OProd (TVar 0) (TApp (TVar 1) (TBin ODiff (TVar 0) (TLit 1))))))]
       (TApp (TVar 0) (TLit 5)).
(* t : type = int; x : t = 3; x      -- the type of the program mentions the first group *)
Definition ex_alias : term := TLet [(TType, TInt)] (TLet [(TVar 1, TLit 3)] (TVar 0)).

Definition runs_clean (t : term) (cells : nat) (T : term) : Prop :=
  hole_free t = true /\ spine t = true /\
  match tcB 40 [] [] [] t with
  | Some r => b_errs r = [] /\ length (b_st r) = cells /\ zonkB 30 (b_st r) (b_ty r) = T
  | None => False end.

Example ex_app_runs : runs_clean ex_app 2 TInt /\ no_let ex_app = true.
Proof. vm_compute. repeat split; reflexivity. Qed.
Example ex_poly_runs : runs_clean ex_poly 4 TInt /\ no_let ex_poly = true.
Proof. vm_compute. repeat split; reflexivity. Qed.
Example ex_id_group_runs : runs_clean ex_id_group 4 TInt.
Proof. vm_compute. repeat split; reflexivity. Qed.
Example ex_fact_runs : runs_clean ex_fact 4 TInt.
Proof. vm_compute. repeat split; reflexivity. Qed.
Example ex_alias_runs : runs_clean ex_alias 0 (TLet [(TType, TInt)] (TVar 0)).
Proof. vm_compute. repeat split; reflexivity. Qed.

(* the theorem applied to the examples: the programs are well typed in the declarative system *)
Ltac by_soundness t :=
  let r := fresh "r" in let E := fresh "E" in let He := fresh "He" in
  destruct (tcB 40 [] [] [] t) as [r|] eqn:E; [|vm_compute in E; discriminate E];
  assert (He : b_errs r = []) by (vm_compute in E; injection E as <-; reflexivity);
  destruct (tcB_sound_hole_free_spine 40 t r eq_refl eq_refl E He) as (? & ? & _); eauto.
Example ex_app_typed : exists T, has_type [] ex_app T.
Proof. by_soundness ex_app. Qed.
Example ex_poly_typed : exists T, has_type [] ex_poly T.
Proof. by_soundness ex_poly. Qed.
Example ex_id_group_typed : exists T, has_type [] ex_id_group T.
Proof. by_soundness ex_id_group. Qed.
Example ex_fact_typed : exists T, has_type [] ex_fact T.
Proof. by_soundness ex_fact. Qed.
Example ex_alias_typed : exists T, has_type [] ex_alias T.
Proof. by_soundness ex_alias. Qed.

(* ---------- the gap is reachable: a hole-free program (not on the spine) that tcB accepts by the
   syntactic shortcut on two groups whose annotations differ syntactically:
     (P : int -> type) => (p : P (y : int = 3; y) -> int) => (a : P (y : ((T : type) => T) int = 3; y)) => p a
   Here the annotations are convertible, so the program is typable; but soundness of this step is
   exactly what let_annotations_irrelevant (or a uniqueness-of-types argument) would have to supply. ---------- *)
Definition gap_let1 : term := TLet [(TInt, TLit 3)] (TVar 0).
Definition gap_let2 : term := TLet [(TApp (TLam false TType (TVar 0)) TInt, TLit 3)] (TVar 0).
Definition ex_gap : term :=
  TLam false (TPi false TInt TType)
    (TLam false (TPi false (TApp (TVar 0) gap_let1) TInt)
       (TLam false (TApp (TVar 1) gap_let2) (TApp (TVar 1) (TVar 0)))).
Example ex_gap_accepted_by_shortcut :
  hole_free ex_gap = true /\ spine ex_gap = false /\
  match tcB 40 [] [] [] ex_gap with Some r => b_errs r = [] | None => False end /\
  syn_eqB 20 [] (TApp (TVar 2) gap_let1) (TApp (TVar 2) gap_let2) = Some true /\
  strip gap_let1 = strip gap_let2 /\ gap_let1 <> gap_let2.
Proof. vm_compute. repeat split; try reflexivity. discriminate. Qed.

Print Assumptions sshiftB_zk_exact.
Print Assumptions openB_zk_exact.
Print Assumptions let_substB_zk.
Print Assumptions whnfB_zk.
Print Assumptions syn_eqB_zk.
Print Assumptions occursB_zk.
Print Assumptions unifyB_zk.
Print Assumptions unifyB_zk_agrees.
Print Assumptions unifyB_fresh_hole.
Print Assumptions unifyB_pi_fresh.
Print Assumptions tcB_sound_nl.
Print Assumptions tcB_sound_spine.
Print Assumptions zk_zonkB.
Print Assumptions tcB_sound_hole_free_spine.
Print Assumptions tcB_sound_hole_free_spine_zonkB.
Print Assumptions tcB_sound_hole_free_modulo_let_annotations.
Print Assumptions tcB_sound_hole_free_nolet.
Print Assumptions tcB_sound_hole_free_nolet_zonkB.
Print Assumptions ex_fact_typed.

(* ====================================================================================== *)
(* With definitional equality ignoring the annotations of group definitions (rule c_let of
   Spec/Typing.v, as `syntactically_equal` does), the premise is a constructor: soundness of the
   checker model for ALL hole-free programs.                                                  *)
(* ====================================================================================== *)
Theorem tcB_sound_hole_free : forall f t r,
  hole_free t = true -> tcB f [] [] [] t = Some r -> b_errs r = [] ->
  exists T, has_type [] t T /\ zk (b_st r) (b_ty r) T /\ zk (b_st r) (b_elab r) t.
Proof.
  apply tcB_sound_hole_free_modulo_let_annotations.
  intros G ds ds' b b' H1 H2. apply c_let; assumption.
Qed.
Print Assumptions tcB_sound_hole_free.

(* ... and with the model's own zonkB: what `checkB` reports for an accepted hole-free program is the program
   itself, well typed at (a type definitionally equal to) the reported type *)
Theorem tcB_sound_hole_free_zonkB : forall f t r,
  hole_free t = true -> tcB f [] [] [] t = Some r -> b_errs r = [] ->
  exists T n0, has_type [] t T /\
    forall n, n0 <= n -> conv [] T (zonkB n (b_st r) (b_ty r)) /\ zonkB n (b_st r) (b_elab r) = t.
Proof.
  intros f t r Hf H He.
  destruct (tcB_sound_hole_free _ _ _ Hf H He) as (T & HT & Z1 & Z2).
  destruct (zk_zonkB _ _ _ Z1) as [n1 K1]. destruct (zk_zonkB _ _ _ Z2) as [n2 K2].
  exists T, (Nat.max n1 n2). split; [exact HT|]. intros n L. rewrite K1, K2 by lia. split; [apply c_refl | reflexivity].
Qed.
Print Assumptions tcB_sound_hole_free_zonkB.
