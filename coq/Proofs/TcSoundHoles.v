(* C03/C04/C05 with holes: "whenever the checker accepts a program, the elaborated term it reports is well scoped and
   well typed under the language's typing rules, and it has the reported type up to definitional equality" - on
   Model B, for ALL programs (unannotated binders, `_` anywhere, definition groups), for every run during which
   neither instrumented event happens (H1: `open` meets an unsolved hole, finding D9; H3: `signed_shift` leaves an
   unsolved hole below the cutoff unchanged, finding D19).

   (A) expectN / tc_defsN / shift_defsN / group_typeN / tcN / checkN: the text of the checker over the aborting
       openN / ushiftN / unifyN of UnifyConsistent.v.  `open` without its fresh-cell arm does not change the store, so
       group_typeN and the application rule do not thread it.
   (B) Refinement: tcN f s G D t = Some r -> tcB f s G D t = Some r (tcN_refines); hence tcN_elab_identity (the
       elaborated term IS the input), tcN_ext, tcN_acyclic.
   (C) Stage T1 (tcN_wsM): the scoping invariant of ScopeStore.v WITHOUT "no local hole" (wsM H n t := wsc H (list_max H) n t,
       store_okM, tctx_okS, dctx_okS) IS maintained by tcN: result type well scoped at depth length G, store OK, the
       home-depth list only grows (two cells per application).  All the tcB counterexamples of ScopeStore.v are H3 runs.
   (D) Stages T2+T3 (tcN_sound_gen, groups included): if tcN f s G D t = Some r with b_errs r = [] from a well-scoped
       state then for EVERY total completion s2 of b_st r (ext (b_st r) s2; every term over existing cells zonks in
       s2), every declarative context Gd matching (G, D) under s2 (ctx_rel2), with eu the zonk of the input,
       and provided the terms that the completion puts at the holes THE USER WROTE are types in their contexts
       (holes_ok: the checker's rule claims `_ : type`):
           exists Tu, zk s2 (b_ty r) Tu /\ has_type Gd eu Tu.
       Every expectation that reported no error is a `conv` under every completion (expectN_conv, from
       unifyN_consistent); zk facts survive later assignments because the store only grows (zk_ext, tcN_ext).
   (E) Closed programs (tcN_sound_closed, tcN_sound_closed_base): fill the cells that are still unsolved with a
       hole-free v (fill v of UnifyConsistent.v): the filled source program has the filled reported type in the empty
       context.  holes_base / holes_baseb: a computable sufficient condition for holes_ok (the user's holes zonk to
       base types).
   (F-H) accepts / accepts0: checkers for closed examples; Module ExT: (x => x + 1) 2, id _ 3 (type argument inferred),
       the same with id's annotation left out, (x : _) => 3 with two different fillers, and filler_must_be_a_type: with
       the filler 3 the program has NO type (so holes_ok cannot be dropped: v must be a type).  Module WitnessT: the
       recorded D9 and D19 programs are accepted by tcB with no error and ABORTED by tcN.
   No third event is needed.  What remains a hypothesis is holes_ok for the holes that unification SOLVED: proving
   that a solution is itself well typed needs the regularity metatheory of has_type (types of typed terms are
   typed, Pi inversion, strengthening), which is not available; for unsolved holes it is exactly "v is a type". *)
From Coq Require Import List ZArith NArith Lia Bool Arith Relations.
Import ListNotations.
Require Import Gram.Model.Term Gram.Model.DeBruijn Gram.Model.Eval Gram.Model.ModelB Gram.Spec.Typing Gram.Oracle.Infer.
Require Import Gram.Proofs.DeBruijnLaws Gram.Proofs.ModelBProofs Gram.Proofs.StoreProofs Gram.Proofs.StoreTc Gram.Proofs.ModelBHoleFree.
Require Import Gram.Proofs.TcSoundHF Gram.Proofs.ScopeStore Gram.Proofs.ConvConsistent Gram.Proofs.AcyclicProofs Gram.Proofs.AcyclicTc.
Require Import Gram.Proofs.UnifyConsistent.

(* ================= (A) the instrumented type checker ================= *)

Definition expectN (f : nat) (s0 : storeB) (D0 : dctx) (actual wanted : term) (e : errB) (es : list errB)
  : option (storeB * list errB) :=
  r <-- unifyN f s0 D0 actual wanted ;;; let '(ok, s1) := r in Some (s1, if ok then es else es ++ [e]).

Fixpoint tc_defsN (f : nat) (tc : storeB -> term -> option tcres) (D' : dctx)
                  (l : list (term * term)) (s0 : storeB) (es : list errB)
  : option (list (term * term) * storeB * list errB) :=
  match l with
  | [] => Some ([], s0, es)
  | (a, d) :: rest =>
      ra <-- tc s0 a ;;;
      w <-- expectN f (b_st ra) D' (b_ty ra) TType ENotType (es ++ b_errs ra) ;;; let '(s0a, es0) := w in
      rd <-- tc s0a d ;;;
      x <-- expectN f (b_st rd) D' (b_ty rd) a EAnnotation (es0 ++ b_errs rd) ;;; let '(s1, es1) := x in
      z <-- tc_defsN f tc D' rest s1 es1 ;;; let '(rest', s2, es2) := z in
      Some ((a, b_elab rd) :: rest', s2, es2)
  end.

Fixpoint shift_defsN (f : nat) (s0 : storeB) (c m : nat) (l : list (term * term)) : option (list (term * term)) :=
  match l with
  | [] => Some []
  | (a, d) :: rest => a' <-- ushiftN f s0 a c m ;;; d' <-- ushiftN f s0 d c m ;;; r' <-- shift_defsN f s0 c m rest ;;; Some ((a', d') :: r')
  end.

(* `open` without its fresh-cell arm does not change the store: no store is threaded *)
Fixpoint group_typeN (f : nat) (n : nat) (ds' : list (term * term)) (i k : nat) (acc : term) (s0 : storeB) : option term :=
  match k with
  | O => Some acc
  | S k' =>
      sh <-- shift_defsN f s0 n (n - 1 - i) ds' ;;;
      acc' <-- openN f s0 acc 0 (TLet sh (TVar i)) 0 ;;;
      group_typeN f n ds' (S i) k' acc' s0
  end.

Fixpoint tcN (fuel : nat) (s : storeB) (G : tctx) (D : dctx) (t : term) : option tcres :=
  match fuel with O => None | S f =>
  let expect := expectN f in
  match t with
  | THole _ _ | TType | TInt | TBool => Some {| b_elab := t; b_ty := TType; b_st := s; b_errs := [] |}
  | TLit _ => Some {| b_elab := t; b_ty := TInt; b_st := s; b_errs := [] |}
  | TTrue | TFalse => Some {| b_elab := t; b_ty := TBool; b_st := s; b_errs := [] |}
  | TVar i =>
      match nth_error G i with
      | Some (T, off) => T' <-- ushiftN f s T 0 (i + 1 - off) ;;; Some {| b_elab := t; b_ty := T'; b_st := s; b_errs := [] |}
      | None => Some {| b_elab := t; b_ty := TType; b_st := s; b_errs := [EScope] |}
      end
  | TLam im d b =>
      rd <-- tcN f s G D d ;;;
      x <-- expect (b_st rd) D (b_ty rd) TType ENotType (b_errs rd) ;;; let '(s1, es1) := x in
      rb <-- tcN f s1 ((b_elab rd, 0) :: G) (None :: D) b ;;;
      Some {| b_elab := TLam im (b_elab rd) (b_elab rb); b_ty := TPi im (b_elab rd) (b_ty rb); b_st := b_st rb; b_errs := es1 ++ b_errs rb |}
  | TPi im d b =>
      rd <-- tcN f s G D d ;;;
      x <-- expect (b_st rd) D (b_ty rd) TType ENotType (b_errs rd) ;;; let '(s1, es1) := x in
      rb <-- tcN f s1 ((b_elab rd, 0) :: G) (None :: D) b ;;;
      y <-- expect (b_st rb) (None :: D) (b_ty rb) TType ENotType (es1 ++ b_errs rb) ;;; let '(s2, es2) := y in
      Some {| b_elab := TPi im (b_elab rd) (b_elab rb); b_ty := TType; b_st := s2; b_errs := es2 |}
  | TApp a b =>
      ra <-- tcN f s G D a ;;;
      let '(dom, s1) := fresh_hole (b_st ra) in
      let '(cod, s2) := fresh_hole s1 in
      x <-- expect s2 D (TPi false dom cod) (b_ty ra) ENotFunction (b_errs ra) ;;; let '(s3, es3) := x in
      rb <-- tcN f s3 G D b ;;;
      y <-- expect (b_st rb) D dom (b_ty rb) EArgument (es3 ++ b_errs rb) ;;; let '(s4, es4) := y in
      T <-- openN f s4 cod 0 (b_elab rb) 0 ;;;
      Some {| b_elab := TApp (b_elab ra) (b_elab rb); b_ty := T; b_st := s4; b_errs := es4 |}
  | TLet ds b =>
      let n := length ds in
      let G' := pushG n ds 0 G in
      let D' := pushD n ds 0 D in
      r <-- tc_defsN f (fun s0 d => tcN f s0 G' D' d) D' ds s [] ;;;
      let '(ds', s1, es1) := r in
      rb <-- tcN f s1 G' D' b ;;;
      T' <-- group_typeN f n ds' 0 n (b_ty rb) (b_st rb) ;;;
      Some {| b_elab := TLet ds' (b_elab rb); b_ty := T'; b_st := b_st rb; b_errs := es1 ++ b_errs rb |}
  | TNeg a =>
      ra <-- tcN f s G D a ;;;
      x <-- expect (b_st ra) D (b_ty ra) TInt ENotInt (b_errs ra) ;;; let '(s1, es1) := x in
      Some {| b_elab := TNeg (b_elab ra); b_ty := TInt; b_st := s1; b_errs := es1 |}
  | TBin o a b =>
      ra <-- tcN f s G D a ;;;
      x <-- expect (b_st ra) D (b_ty ra) TInt ENotInt (b_errs ra) ;;; let '(s1, es1) := x in
      rb <-- tcN f s1 G D b ;;;
      y <-- expect (b_st rb) D (b_ty rb) TInt ENotInt (es1 ++ b_errs rb) ;;; let '(s2, es2) := y in
      Some {| b_elab := TBin o (b_elab ra) (b_elab rb);
              b_ty := match o with OSum | ODiff | OProd | OQuot => TInt | _ => TBool end; b_st := s2; b_errs := es2 |}
  | TIf c a b =>
      rc <-- tcN f s G D c ;;;
      x <-- expect (b_st rc) D (b_ty rc) TBool ENotBool (b_errs rc) ;;; let '(s1, es1) := x in
      ra <-- tcN f s1 G D a ;;;
      rb <-- tcN f (b_st ra) G D b ;;;
      y <-- expect (b_st rb) D (b_ty ra) (b_ty rb) EBranches (es1 ++ b_errs ra ++ b_errs rb) ;;; let '(s2, es2) := y in
      Some {| b_elab := TIf (b_elab rc) (b_elab ra) (b_elab rb); b_ty := b_ty ra; b_st := s2; b_errs := es2 |}
  end end.

Definition checkN (t : term) (nholes : nat) : option (term * term * list errB) :=
  r <-- tcN 60 (repeat None nholes) [] [] t ;;; Some (zonkB 40 (b_st r) (b_elab r), zonkB 40 (b_st r) (b_ty r), b_errs r).

(* ================= (B) refinement ================= *)

Lemma expectN_refines f s D a w e es r : expectN f s D a w e es = Some r -> expectB f s D a w e es = Some r.
Proof.
  unfold expectN, expectB. intros E. destruct (unifyN f s D a w) as [[ok s1]|] eqn:U; [|discriminate].
  rewrite (unifyN_refines _ _ _ _ _ _ U). exact E.
Qed.

Lemma tc_defsN_refines f (tcn tcb : storeB -> term -> option tcres) D' :
  (forall s0 d r, tcn s0 d = Some r -> tcb s0 d = Some r) ->
  forall l s0 es r, tc_defsN f tcn D' l s0 es = Some r -> tc_defs f tcb D' l s0 es = Some r.
Proof.
  intros M. induction l as [|[a d] rest IHl]; intros s0 es r E; cbn [tc_defsN tc_defs] in *; [exact E|].
  destruct (tcn s0 a) as [ra|] eqn:E1; [|discriminate]. rewrite (M _ _ _ E1).
  destruct (expectN f (b_st ra) D' (b_ty ra) TType ENotType (es ++ b_errs ra)) as [[s0a es0]|] eqn:X1; [|discriminate].
  rewrite (expectN_refines _ _ _ _ _ _ _ _ X1).
  destruct (tcn s0a d) as [rd|] eqn:E2; [|discriminate]. rewrite (M _ _ _ E2).
  destruct (expectN f (b_st rd) D' (b_ty rd) a EAnnotation (es0 ++ b_errs rd)) as [[s1 es1]|] eqn:X2; [|discriminate].
  rewrite (expectN_refines _ _ _ _ _ _ _ _ X2).
  destruct (tc_defsN f tcn D' rest s1 es1) as [[[rest' s2] es2]|] eqn:E3; [|discriminate].
  rewrite (IHl _ _ _ E3). exact E.
Qed.

Lemma shift_defsN_refines f s c m : forall l l', shift_defsN f s c m l = Some l' -> shift_defs f s c m l = Some l'.
Proof.
  induction l as [|[a d] rest IHl]; intros l' E; cbn [shift_defsN shift_defs] in *; [exact E|].
  destruct (ushiftN f s a c m) as [a'|] eqn:A; [|discriminate]. rewrite (ushiftN_refines _ _ _ _ _ _ A).
  destruct (ushiftN f s d c m) as [d'|] eqn:B; [|discriminate]. rewrite (ushiftN_refines _ _ _ _ _ _ B).
  destruct (shift_defsN f s c m rest) as [r'|] eqn:R; [|discriminate]. rewrite (IHl _ eq_refl). exact E.
Qed.

Lemma group_typeN_refines f n ds : forall k i acc s T, group_typeN f n ds i k acc s = Some T -> group_typeB f n ds i k acc s = Some (T, s).
Proof.
  induction k as [|k IH]; intros i acc s T E; cbn [group_typeN group_typeB] in *; [now injection E as <-|].
  destruct (shift_defsN f s n (n - 1 - i) ds) as [sh|] eqn:A; [|discriminate]. rewrite (shift_defsN_refines _ _ _ _ _ _ A).
  destruct (openN f s acc 0 (TLet sh (TVar i)) 0) as [acc'|] eqn:B; [|discriminate]. rewrite (openN_refines _ _ _ _ _ _ _ B).
  exact (IH _ _ _ _ E).
Qed.

Ltac xn_step E :=
  match type of E with
  | match expectN ?f ?s ?D ?a ?w ?e ?es with _ => _ end = Some _ =>
      let X := fresh "X" in let s1 := fresh "s" in let es1 := fresh "es" in
      destruct (expectN f s D a w e es) as [[s1 es1]|] eqn:X; [|discriminate E]; rewrite (expectN_refines _ _ _ _ _ _ _ _ X)
  end.
Ltac tn_step IH E :=
  match type of E with
  | match tcN ?f ?s ?G ?D ?t with _ => _ end = Some _ =>
      let R := fresh "R" in let r := fresh "r" in
      destruct (tcN f s G D t) as [r|] eqn:R; [|discriminate E]; rewrite (IH _ _ _ _ _ R)
  end.

(* when neither event happens, the instrumented checker IS the checker *)
Theorem tcN_refines : forall f s G D t r, tcN f s G D t = Some r -> tcB f s G D t = Some r.
Proof.
  induction f as [|f IH]; intros s G D t r E; [discriminate|].
  destruct t; [| | | | | | | | | | | rewrite tcB_let_eq | | | ]; cbn [tcN tcB] in *; cbv zeta in *; try exact E.
  - destruct (nth_error G i) as [[T off]|]; [|exact E].
    destruct (ushiftN f s T 0 (i + 1 - off)) as [T'|] eqn:U; [|discriminate]. rewrite (ushiftN_refines _ _ _ _ _ _ U). exact E.
  - tn_step IH E. xn_step E. tn_step IH E. exact E.
  - tn_step IH E. xn_step E. tn_step IH E. xn_step E. exact E.
  - tn_step IH E. unfold fresh_hole, salloc in *. xn_step E. tn_step IH E. xn_step E.
    match type of E with match openN ?f ?s ?t ?i ?x ?k with _ => _ end = _ =>
      destruct (openN f s t i x k) as [T|] eqn:O; [|discriminate E]; rewrite (openN_refines _ _ _ _ _ _ _ O) end.
    exact E.
  - match type of E with match tc_defsN ?f ?tc ?D' ?l ?s0 ?es with _ => _ end = _ =>
      destruct (tc_defsN f tc D' l s0 es) as [[[ds' s1] es1]|] eqn:Z; [|discriminate E];
      rewrite (tc_defsN_refines f tc (fun s0 d => tcB f s0 (pushG (length defs) defs 0 G) (pushD (length defs) defs 0 D) d) D'
                 (fun s0 d r0 Hr => IH _ _ _ _ _ Hr) _ _ _ _ Z) end.
    tn_step IH E.
    match type of E with match group_typeN ?f ?n ?ds ?i ?k ?acc ?s with _ => _ end = _ =>
      destruct (group_typeN f n ds i k acc s) as [T'|] eqn:GT; [|discriminate E]; rewrite (group_typeN_refines _ _ _ _ _ _ _ _ GT) end.
    exact E.
  - tn_step IH E. xn_step E. exact E.
  - tn_step IH E. xn_step E. tn_step IH E. xn_step E. exact E.
  - tn_step IH E. xn_step E. tn_step IH E. tn_step IH E. xn_step E. exact E.
Qed.

Corollary tcN_elab_identity f s G D t r : tcN f s G D t = Some r -> b_elab r = t.
Proof. intros E. exact (tcB_elab_identity _ _ _ _ _ _ (tcN_refines _ _ _ _ _ _ E)). Qed.
Corollary tcN_ext f s G D t r : tcN f s G D t = Some r -> ext s (b_st r).
Proof. intros E. exact (tcB_ext _ _ _ _ _ _ (tcN_refines _ _ _ _ _ _ E)). Qed.
Corollary tcN_acyclic f s G D t r : tcN f s G D t = Some r -> acyclic s -> acyclic (b_st r).
Proof. intros E. exact (tcB_acyclic _ _ _ _ _ _ (tcN_refines _ _ _ _ _ _ E)). Qed.

(* ================= (C) stage T1: the scoping invariant is maintained by the instrumented checker ================= *)
(* The bound on the homes is the largest home: wsM H n t := wsc H (list_max H) n t, i.e. the scoping judgement
   WITHOUT the side condition "no local hole".  H grows only in the application rule (two fresh cells). *)

Definition wsM (H : list nat) (n : nat) (t : term) : Prop := wsc H (list_max H) n t.
Definition store_okM (H : list nat) (s : storeB) : Prop := store_okL H (list_max H) s.
(* contexts: `k` further entries will be pushed on top (k = 0 for a finished context) *)
Definition tctx_okS (H : list nat) (k : nat) (G : tctx) : Prop :=
  forall p T off, nth_error G p = Some (T, off) -> off <= p + 1 + k /\ wsM H (length G - p - 1 + off) T.
Definition dctx_okS (H : list nat) (k : nat) (D : dctx) : Prop :=
  forall p d off, nth_error D p = Some (Some (d, off)) -> off <= p + 1 + k /\ wsM H (length D - p - 1 + off) d.

Lemma list_max_hext H H' : hext H H' -> list_max H <= list_max H'.
Proof. intros [L ->]. rewrite list_max_app. lia. Qed.

Lemma wsM_hext H H' n t : hext H H' -> wsM H n t -> wsM H' n t.
Proof. intros X W. unfold wsM. eapply wsc_lim; [apply list_max_hext; exact X|]. eapply wsc_hext; eauto. Qed.

Lemma store_okM_hext_same H H' s : hext H H' -> length H' = length s -> store_okM H s -> store_okM H' s.
Proof.
  intros X Ln [_ S]. split; [exact Ln|]. intros id sol G. destruct (S _ _ G) as (h & E & W).
  exists h. split; [eapply hext_nth; eauto | exact (wsM_hext _ _ _ _ X W)].
Qed.

Lemma store_okM_alloc H s h : store_okM H s -> store_okM (H ++ [h]) (s ++ [None]).
Proof.
  intros [Ln S]. split; [rewrite !app_length; cbn; lia|]. intros id sol G.
  assert (Gr : grow s (s ++ [None])) by (exists 1; reflexivity).
  rewrite (grow_sget _ _ id Gr) in G. destruct (S _ _ G) as (h0 & E & W).
  assert (X : hext H (H ++ [h])) by (eexists; reflexivity).
  exists h0. split; [eapply hext_nth; eauto | exact (wsM_hext _ _ _ _ X W)].
Qed.

Lemma tctx_okS_hext H H' k G : hext H H' -> tctx_okS H k G -> tctx_okS H' k G.
Proof. intros X Gk p T off E. destruct (Gk _ _ _ E) as [A B]. split; [exact A | exact (wsM_hext _ _ _ _ X B)]. Qed.
Lemma dctx_okS_hext H H' k D : hext H H' -> dctx_okS H k D -> dctx_okS H' k D.
Proof. intros X Dk p d off E. destruct (Dk _ _ _ E) as [A B]. split; [exact A | exact (wsM_hext _ _ _ _ X B)]. Qed.

Lemma dctx_okS_L H D : dctx_okS H 0 D -> dctx_okL H (list_max H) D.
Proof. intros Dk p d off E. destruct (Dk _ _ _ E) as [A B]. split; [lia | exact B]. Qed.

Lemma tctx_okS_cons H k G T off : tctx_okS H (S k) G -> off <= 1 + k -> wsM H (length G + off) T -> tctx_okS H k ((T, off) :: G).
Proof.
  intros Gk Ho W [|p] T' off' E; cbn [nth_error length] in *.
  - injection E as <- <-. split; [lia|]. replace (S (length G) - 0 - 1 + off) with (length G + off) by lia. exact W.
  - destruct (Gk _ _ _ E) as [A B]. split; [lia|]. replace (S (length G) - S p - 1 + off') with (length G - p - 1 + off') by lia. exact B.
Qed.
Lemma dctx_okS_cons H k D e : dctx_okS H (S k) D ->
  (forall d off, e = Some (d, off) -> off <= 1 + k /\ wsM H (length D + off) d) -> dctx_okS H k (e :: D).
Proof.
  intros Dk He [|p] d' off' E; cbn [nth_error length] in *.
  - injection E as ->. destruct (He _ _ eq_refl) as [A B]. split; [lia|].
    replace (S (length D) - 0 - 1 + off') with (length D + off') by lia. exact B.
  - destruct (Dk _ _ _ E) as [A B]. split; [lia|]. replace (S (length D) - S p - 1 + off') with (length D - p - 1 + off') by lia. exact B.
Qed.
Lemma tctx_okS_slack H k k' G : k <= k' -> tctx_okS H k G -> tctx_okS H k' G.
Proof. intros Hk Gk p T off E. destruct (Gk _ _ _ E). split; [lia | assumption]. Qed.
Lemma dctx_okS_slack H k k' D : k <= k' -> dctx_okS H k D -> dctx_okS H k' D.
Proof. intros Hk Dk p T off E. destruct (Dk _ _ _ E). split; [lia | assumption]. Qed.

(* entering a group *)
Lemma pushG_ok H N n : forall l j G, j + length l = N -> length G = n + j -> tctx_okS H (length l) G ->
  Forall (fun p => wsM H (n + N) (fst p)) l ->
  tctx_okS H 0 (pushG N l j G) /\ length (pushG N l j G) = n + N.
Proof.
  induction l as [|[a d] l IH]; intros j G Hj Ln Gk F; cbn [length] in *.
  - split; [exact Gk | cbn; lia].
  - rewrite pushG_cons. inversion F as [|? ? Fa Fl]; subst. cbn [fst] in Fa.
    apply IH; [lia | cbn; lia | | exact Fl].
    apply tctx_okS_cons; [exact Gk | lia |]. replace (length G + (j + S (length l) - j)) with (n + (j + S (length l))) by lia. exact Fa.
Qed.
Lemma pushD_ok H N n : forall l j D, j + length l = N -> length D = n + j -> dctx_okS H (length l) D ->
  Forall (fun p => wsM H (n + N) (snd p)) l ->
  dctx_okS H 0 (pushD N l j D) /\ length (pushD N l j D) = n + N.
Proof.
  induction l as [|[a d] l IH]; intros j D Hj Ln Dk F; cbn [length] in *.
  - split; [exact Dk | cbn; lia].
  - rewrite pushD_cons. inversion F as [|? ? Fa Fl]; subst. cbn [snd] in Fa.
    apply IH; [lia | cbn; lia | | exact Fl].
    apply dctx_okS_cons; [exact Dk|]. intros d0 off0 E0. injection E0 as <- <-. split; [lia|].
    replace (length D + (j + S (length l) - j)) with (n + (j + S (length l))) by lia. exact Fa.
Qed.

Lemma wsM_hole_new H h n : wsM (H ++ [h]) n (THole (length H) (n - h)) -> True. Proof. trivial. Qed.

Lemma list_max_in h H : In h H -> h <= list_max H.
Proof. intros I. pose proof (proj1 (list_max_le H (list_max H)) (Nat.le_refl _)) as F. rewrite Forall_forall in F. exact (F _ I). Qed.

(* the two cells of the application rule *)
Lemma wsM_fresh_pi H n : wsM ((H ++ [n]) ++ [S n]) n (TPi false (THole (length H) 0) (THole (length (H ++ [n])) 0)).
Proof.
  unfold wsM. cbn [wsc]. rewrite !Nat.sub_0_r. repeat split; try lia.
  - rewrite <- app_assoc. rewrite nth_error_app2, Nat.sub_diag by lia. reflexivity.
  - apply list_max_in. apply in_or_app. left. apply in_or_app. right. now left.
  - rewrite nth_error_app2, Nat.sub_diag by lia. reflexivity.
  - apply list_max_in. apply in_or_app. right. now left.
Qed.

Lemma expectN_okM H f s D a w n e es s' es' :
  store_okM H s -> dctx_okS H 0 D -> n = length D -> wsM H n a -> wsM H n w ->
  expectN f s D a w e es = Some (s', es') -> store_okM H s'.
Proof.
  unfold expectN. intros Sk Dk En Wa Ww E. destruct (unifyN f s D a w) as [[ok s1]|] eqn:U; [|discriminate].
  injection E as <- _. exact (unifyN_wsc H (list_max H) f s D a w n ok s1 Sk (dctx_okS_L _ _ Dk) En Wa Ww U).
Qed.

Lemma ushiftN_wscc H L f s t c k n m t' :
  store_okL H L s -> wsc H L n t -> m = n + k -> c <= m -> ushiftN f s t c k = Some t' -> wsc H L m t'.
Proof.
  intros Sk W -> Hc E. unfold ushiftN in E.
  destruct (sshiftN f s t c (Z.of_nat k)) as [[u|]|] eqn:S1; try discriminate. injection E as <-.
  eapply (sshiftN_wsc H L f s Sk t c (Z.of_nat k) n (n + k)); eauto; lia.
Qed.

Lemma shift_defsN_wsM H f s c m n : store_okM H s -> c <= n + m ->
  forall l l', Forall (wsc_pair H (list_max H) n) l -> shift_defsN f s c m l = Some l' ->
    Forall (wsc_pair H (list_max H) (n + m)) l' /\ length l' = length l.
Proof.
  intros Sk Hc. induction l as [|[a d] l IHl]; intros l' F E; cbn [shift_defsN] in E.
  - injection E as <-. split; [constructor | reflexivity].
  - inversion F as [|? ? [Wa Wd] Fl]; subst. cbn [fst snd] in *.
    destruct (ushiftN f s a c m) as [a'|] eqn:A; [|discriminate]. destruct (ushiftN f s d c m) as [d'|] eqn:B; [|discriminate].
    destruct (shift_defsN f s c m l) as [r'|] eqn:R; [|discriminate]. injection E as <-.
    destruct (IHl _ Fl eq_refl) as [F' L']. split; [|cbn; lia].
    constructor; [|exact F']. split; cbn [fst snd];
      [exact (ushiftN_wscc H (list_max H) f s a c m n (n + m) a' Sk Wa eq_refl Hc A) | exact (ushiftN_wscc H (list_max H) f s d c m n (n + m) d' Sk Wd eq_refl Hc B)].
Qed.

(* the type of a group: k definitions remain to be substituted, acc lives at depth n0 + k *)
Lemma group_typeN_wsM H f N ds s n0 : store_okM H s -> length ds = N -> Forall (wsc_pair H (list_max H) (N + n0)) ds ->
  forall k i acc T, i + k = N -> wsM H (n0 + k) acc -> group_typeN f N ds i k acc s = Some T -> wsM H n0 T.
Proof.
  intros Sk Ln Fd. induction k as [|k IH]; intros i acc T Hik W E; cbn [group_typeN] in E.
  - injection E as <-. replace n0 with (n0 + 0) by lia. exact W.
  - destruct (shift_defsN f s N (N - 1 - i) ds) as [sh|] eqn:A; [|discriminate].
    destruct (openN f s acc 0 (TLet sh (TVar i)) 0) as [acc'|] eqn:B; [|discriminate].
    destruct (shift_defsN_wsM H f s N (N - 1 - i) (N + n0) Sk) with (l := ds) (l' := sh) as [Fs Ls]; auto; try lia.
    apply (IH (S i) acc' T); [lia | | exact E].
    apply (openN_wsc H (list_max H) f s Sk acc 0 (TLet sh (TVar i)) 0 (n0 + S k) (n0 + k) (n0 + k) acc' W); try lia; [|exact B].
    apply wsc_let. rewrite Ls, Ln. replace (N + (n0 + k)) with (N + n0 + (N - 1 - i)) by lia. split; [exact Fs|]. cbn [wsc]. lia.
Qed.

Definition tc_okM (H : list nat) (M : nat) (tc : storeB -> term -> option tcres) : Prop :=
  forall s0 H0 d r, hext H H0 -> store_okM H0 s0 -> wsM H0 M d -> tc s0 d = Some r ->
    exists H1, hext H0 H1 /\ store_okM H1 (b_st r) /\ wsM H1 M (b_ty r) /\ b_elab r = d.

Lemma tc_defsN_wsM H f tc D' M : tc_okM H M tc -> dctx_okS H 0 D' -> M = length D' ->
  forall l s0 H0 es l' s1 es1, hext H H0 -> store_okM H0 s0 ->
    Forall (fun p => wsM H0 M (fst p) /\ wsM H0 M (snd p)) l ->
    tc_defsN f tc D' l s0 es = Some (l', s1, es1) ->
    exists H1, hext H0 H1 /\ store_okM H1 s1 /\ l' = l.
Proof.
  intros Tk Dk EM. induction l as [|[a d] rest IHl]; intros s0 H0 es l' s1 es1 X0 Sk F E; cbn [tc_defsN] in E.
  - injection E as <- <- _. exists H0. split; [apply hext_refl | auto].
  - inversion F as [|? ? [Wa Wd] Fr]; subst. cbn [fst snd] in *.
    destruct (tc s0 a) as [ra|] eqn:E1; [|discriminate].
    destruct (Tk _ _ _ _ X0 Sk Wa E1) as (H1 & X1 & Sk1 & Wta & _).
    pose proof (hext_trans _ _ _ X0 X1) as X01.
    destruct (expectN f (b_st ra) D' (b_ty ra) TType ENotType (es ++ b_errs ra)) as [[s0a es0]|] eqn:Q1; [|discriminate].
    pose proof (expectN_okM H1 f _ D' _ TType (length D') _ _ _ _ Sk1 (dctx_okS_hext _ _ _ _ X01 Dk) eq_refl Wta I Q1) as Sk1'.
    destruct (tc s0a d) as [rd|] eqn:E2; [|discriminate].
    destruct (Tk _ _ _ _ X01 Sk1' (wsM_hext _ _ _ _ X1 Wd) E2) as (H2 & X2 & Sk2 & Wtd & El).
    pose proof (hext_trans _ _ _ X01 X2) as X02.
    destruct (expectN f (b_st rd) D' (b_ty rd) a EAnnotation (es0 ++ b_errs rd)) as [[s1' es1']|] eqn:Q2; [|discriminate].
    pose proof (expectN_okM H2 f _ D' _ _ (length D') _ _ _ _ Sk2 (dctx_okS_hext _ _ _ _ X02 Dk) eq_refl Wtd
                  (wsM_hext _ _ _ _ (hext_trans _ _ _ X1 X2) Wa) Q2) as Sk2'.
    destruct (tc_defsN f tc D' rest s1' es1') as [[[rest' s2] es2]|] eqn:E3; [|discriminate]. injection E as <- <- _.
    destruct (IHl s1' H2 es1' rest' s2 es2 X02 Sk2') as (H3 & X3 & Sk3 & ->); auto.
    { eapply Forall_impl; [|exact Fr]. intros p [P1 P2]. split; [exact (wsM_hext _ _ _ _ (hext_trans _ _ _ X1 X2) P1) | exact (wsM_hext _ _ _ _ (hext_trans _ _ _ X1 X2) P2)]. }
    exists H3. split; [exact (hext_trans _ _ _ X1 (hext_trans _ _ _ X2 X3))|]. split; [exact Sk3|]. now rewrite El.
Qed.

Ltac xq E Q := match type of E with
  | match expectN ?f ?s ?D ?a ?w ?e ?es with _ => _ end = Some _ =>
      let s1 := fresh "s" in let es1 := fresh "es" in destruct (expectN f s D a w e es) as [[s1 es1]|] eqn:Q; [|discriminate E] end.
Ltac tq E R := match type of E with
  | match tcN ?f ?s ?G ?D ?t with _ => _ end = Some _ =>
      let r := fresh "r" in destruct (tcN f s G D t) as [r|] eqn:R; [|discriminate E] end.

Theorem tcN_wsM : forall f s H G D t n r, store_okM H s -> tctx_okS H 0 G -> dctx_okS H 0 D -> n = length G -> n = length D ->
  wsM H n t -> tcN f s G D t = Some r ->
  exists H', hext H H' /\ store_okM H' (b_st r) /\ wsM H' n (b_ty r).
Proof.
  induction f as [|f IH]; intros s H G D t n r Sk Gk Dk EG ED W E; [discriminate|].
  destruct t; cbn [tcN] in E; cbv zeta in E;
    try (injection E as <-; exists H; split; [apply hext_refl|]; split; [exact Sk | exact I]).
  - (* var *)
    destruct (nth_error G i) as [[T off]|] eqn:En; [|injection E as <-; exists H; split; [apply hext_refl|]; split; [exact Sk | exact I]].
    destruct (ushiftN f s T 0 (i + 1 - off)) as [T'|] eqn:U; [|discriminate]. injection E as <-. cbn [b_st b_ty].
    exists H. split; [apply hext_refl|]. split; [exact Sk|]. destruct (Gk _ _ _ En) as [Ho WT].
    assert (Li : i < length G) by (apply nth_error_Some; congruence).
    apply (ushiftN_wsc H (list_max H) f s T (i + 1 - off) (length G - i - 1 + off) n T' Sk WT); [lia | exact U].
  - (* lam *)
    destruct W as [W1 W2]. tq E R1. destruct (IH _ _ _ _ _ _ _ Sk Gk Dk EG ED W1 R1) as (H1 & X1 & Sk1 & Wt1).
    pose proof (tcN_elab_identity _ _ _ _ _ _ R1) as El1. xq E Q1.
    pose proof (expectN_okM H1 f _ D _ TType n _ _ _ _ Sk1 (dctx_okS_hext _ _ _ _ X1 Dk) ED Wt1 I Q1) as Sk1'.
    tq E R2. injection E as <-. cbn [b_st b_ty]. rewrite El1 in *.
    destruct (IH s0 H1 ((t1, 0) :: G) (None :: D) t2 (S n) r1) as (H2 & X2 & Sk2 & Wt2); auto.
    { apply tctx_okS_cons; [apply (tctx_okS_slack _ 0); [lia | exact (tctx_okS_hext _ _ _ _ X1 Gk)] | lia |].
      rewrite Nat.add_0_r, <- EG. exact (wsM_hext _ _ _ _ X1 W1). }
    { apply dctx_okS_cons; [apply (dctx_okS_slack _ 0); [lia | exact (dctx_okS_hext _ _ _ _ X1 Dk)] | intros; discriminate]. }
    { cbn; lia. } { cbn; lia. } { exact (wsM_hext _ _ _ _ X1 W2). }
    exists H2. split; [exact (hext_trans _ _ _ X1 X2)|]. split; [exact Sk2|].
    unfold wsM. cbn [wsc]. split; [exact (wsM_hext _ _ _ _ (hext_trans _ _ _ X1 X2) W1) | exact Wt2].
  - (* pi *)
    destruct W as [W1 W2]. tq E R1. destruct (IH _ _ _ _ _ _ _ Sk Gk Dk EG ED W1 R1) as (H1 & X1 & Sk1 & Wt1).
    pose proof (tcN_elab_identity _ _ _ _ _ _ R1) as El1. xq E Q1.
    pose proof (expectN_okM H1 f _ D _ TType n _ _ _ _ Sk1 (dctx_okS_hext _ _ _ _ X1 Dk) ED Wt1 I Q1) as Sk1'.
    tq E R2. rewrite El1 in *.
    assert (Dk' : dctx_okS H1 0 (None :: D)).
    { apply dctx_okS_cons; [apply (dctx_okS_slack _ 0); [lia | exact (dctx_okS_hext _ _ _ _ X1 Dk)] | intros; discriminate]. }
    destruct (IH s0 H1 ((t1, 0) :: G) (None :: D) t2 (S n) r1) as (H2 & X2 & Sk2 & Wt2); auto.
    { apply tctx_okS_cons; [apply (tctx_okS_slack _ 0); [lia | exact (tctx_okS_hext _ _ _ _ X1 Gk)] | lia |].
      rewrite Nat.add_0_r, <- EG. exact (wsM_hext _ _ _ _ X1 W1). }
    { cbn; lia. } { cbn; lia. } { exact (wsM_hext _ _ _ _ X1 W2). }
    xq E Q2. injection E as <-. cbn [b_st b_ty].
    pose proof (expectN_okM H2 f _ (None :: D) _ TType (S n) _ _ _ _ Sk2 (dctx_okS_hext _ _ _ _ X2 Dk') ltac:(cbn; lia) Wt2 I Q2) as Sk2'.
    exists H2. split; [exact (hext_trans _ _ _ X1 X2)|]. split; [exact Sk2' | exact I].
  - (* app *)
    destruct W as [W1 W2]. tq E R1. destruct (IH _ _ _ _ _ _ _ Sk Gk Dk EG ED W1 R1) as (H1 & X1 & Sk1 & Wt1).
    unfold fresh_hole, salloc in E.
    pose proof Sk1 as [Ln1 _].
    set (H2 := (H1 ++ [n]) ++ [S n]) in *.
    assert (X12 : hext H1 H2) by (exists ([n] ++ [S n]); unfold H2; now rewrite <- app_assoc).
    assert (Sk2 : store_okM H2 ((b_st r0 ++ [None]) ++ [None])) by (apply store_okM_alloc, store_okM_alloc; exact Sk1).
    assert (Wpi : wsM H2 n (TPi false (THole (length (b_st r0)) 0) (THole (length (b_st r0 ++ [None])) 0))).
    { rewrite <- Ln1. replace (length (b_st r0 ++ [None])) with (length (H1 ++ [n])) by (rewrite !app_length; cbn; lia). apply wsM_fresh_pi. }
    pose proof (hext_trans _ _ _ X1 X12) as X02.
    xq E Q1.
    pose proof (expectN_okM H2 f _ D _ _ n _ _ _ _ Sk2 (dctx_okS_hext _ _ _ _ X02 Dk) ED Wpi (wsM_hext _ _ _ _ X12 Wt1) Q1) as Sk3.
    tq E R2.
    destruct (IH s0 H2 G D t2 n r1) as (H3 & X3 & Sk4 & Wt2); auto.
    { exact (tctx_okS_hext _ _ _ _ X02 Gk). } { exact (dctx_okS_hext _ _ _ _ X02 Dk). } { exact (wsM_hext _ _ _ _ X02 W2). }
    pose proof (hext_trans _ _ _ X02 X3) as X03.
    destruct Wpi as [Wdom Wcod].
    xq E Q2.
    pose proof (expectN_okM H3 f _ D _ _ n _ _ _ _ Sk4 (dctx_okS_hext _ _ _ _ X03 Dk) ED (wsM_hext _ _ _ _ X3 Wdom) Wt2 Q2) as Sk5.
    match type of E with match openN ?f ?s ?t ?i ?x ?k with _ => _ end = _ => destruct (openN f s t i x k) as [T|] eqn:O; [|discriminate E] end.
    injection E as <-. cbn [b_st b_ty].
    exists H3. split; [exact X03|]. split; [exact Sk5|].
    rewrite (tcN_elab_identity _ _ _ _ _ _ R2) in O.
    apply (openN_wsc H3 (list_max H3) f s1 Sk5 _ 0 t2 0 (S n) n n T (wsM_hext _ _ _ _ X3 Wcod) eq_refl); [lia | lia | lia | exact (wsM_hext _ _ _ _ X03 W2) | exact O].
  - (* let *)
    change (wsM H n (TLet defs t)) in W. unfold wsM in W. apply wsc_let in W. destruct W as [Wd Wb].
    set (N := length defs) in *.
    destruct (pushG_ok H N n defs 0 G) as [Gk' LG']; [lia | lia | exact (tctx_okS_slack _ 0 _ _ ltac:(lia) Gk) | |].
    { eapply Forall_impl; [|exact Wd]. intros p [P1 _]. unfold wsM. now rewrite Nat.add_comm. }
    destruct (pushD_ok H N n defs 0 D) as [Dk' LD']; [lia | lia | exact (dctx_okS_slack _ 0 _ _ ltac:(lia) Dk) | |].
    { eapply Forall_impl; [|exact Wd]. intros p [_ P2]. unfold wsM. now rewrite Nat.add_comm. }
    match type of E with match tc_defsN ?f ?tc ?D' ?l ?s0 ?es with _ => _ end = _ =>
      destruct (tc_defsN f tc D' l s0 es) as [[[ds' s1] es1]|] eqn:Z; [|discriminate E] end.
    assert (Tk : tc_okM H (N + n) (fun s0 d => tcN f s0 (pushG N defs 0 G) (pushD N defs 0 D) d)).
    { intros s0 H0 d r0 X0 Sk0 Wd0 Hr.
      destruct (IH s0 H0 _ _ d (N + n) r0 Sk0 (tctx_okS_hext _ _ _ _ X0 Gk') (dctx_okS_hext _ _ _ _ X0 Dk')) as (H1 & X1 & Sk1 & Wt1); auto; try lia.
      exists H1. split; [exact X1|]. split; [exact Sk1|]. split; [exact Wt1|]. exact (tcN_elab_identity _ _ _ _ _ _ Hr). }
    assert (F0 : Forall (fun p => wsM H (N + n) (fst p) /\ wsM H (N + n) (snd p)) defs).
    { eapply Forall_impl; [|exact Wd]. intros p [P1 P2]. split; unfold wsM; assumption. }
    destruct (tc_defsN_wsM H f _ (pushD N defs 0 D) (N + n) Tk Dk' ltac:(lia) defs s H [] ds' s1 es1 (hext_refl _) Sk F0 Z) as (H1 & X1 & Sk1 & ->).
    tq E R2.
    destruct (IH s1 H1 _ _ t (N + n) r0 Sk1 (tctx_okS_hext _ _ _ _ X1 Gk') (dctx_okS_hext _ _ _ _ X1 Dk')) as (H2 & X2 & Sk2 & Wt2); auto; try lia.
    { exact (wsM_hext _ _ _ _ X1 Wb). }
    match type of E with match group_typeN ?f ?n ?ds ?i ?k ?acc ?s with _ => _ end = _ =>
      destruct (group_typeN f n ds i k acc s) as [T'|] eqn:GT; [|discriminate E] end.
    injection E as <-. cbn [b_st b_ty].
    pose proof (hext_trans _ _ _ X1 X2) as X02.
    exists H2. split; [exact X02|]. split; [exact Sk2|].
    apply (group_typeN_wsM H2 f N defs (b_st r0) n Sk2 eq_refl) with (k := N) (i := 0) (acc := b_ty r0); [ | lia | | exact GT].
    + eapply Forall_impl; [|exact Wd]. intros p [P1 P2]. split; apply (wsM_hext _ _ _ _ X02); assumption.
    + rewrite Nat.add_comm. exact Wt2.
  - (* neg *)
    change (wsM H n t) in W. tq E R1. destruct (IH _ _ _ _ _ _ _ Sk Gk Dk EG ED W R1) as (H1 & X1 & Sk1 & Wt1). xq E Q1. injection E as <-. cbn [b_st b_ty].
    exists H1. split; [exact X1|]. split; [|exact I].
    exact (expectN_okM H1 f _ D _ TInt n _ _ _ _ Sk1 (dctx_okS_hext _ _ _ _ X1 Dk) ED Wt1 I Q1).
  - (* bin *)
    destruct W as [W1 W2]. tq E R1. destruct (IH _ _ _ _ _ _ _ Sk Gk Dk EG ED W1 R1) as (H1 & X1 & Sk1 & Wt1). xq E Q1.
    pose proof (expectN_okM H1 f _ D _ TInt n _ _ _ _ Sk1 (dctx_okS_hext _ _ _ _ X1 Dk) ED Wt1 I Q1) as Sk1'.
    tq E R2.
    destruct (IH s0 H1 G D t2 n r1 Sk1' (tctx_okS_hext _ _ _ _ X1 Gk) (dctx_okS_hext _ _ _ _ X1 Dk) EG ED (wsM_hext _ _ _ _ X1 W2) R2) as (H2 & X2 & Sk2 & Wt2).
    xq E Q2. injection E as <-. cbn [b_st b_ty]. pose proof (hext_trans _ _ _ X1 X2) as X02.
    exists H2. split; [exact X02|]. split; [|destruct o; exact I].
    exact (expectN_okM H2 f _ D _ TInt n _ _ _ _ Sk2 (dctx_okS_hext _ _ _ _ X02 Dk) ED Wt2 I Q2).
  - (* if *)
    destruct W as (W1 & W2 & W3). tq E R1. destruct (IH _ _ _ _ _ _ _ Sk Gk Dk EG ED W1 R1) as (H1 & X1 & Sk1 & Wt1). xq E Q1.
    pose proof (expectN_okM H1 f _ D _ TBool n _ _ _ _ Sk1 (dctx_okS_hext _ _ _ _ X1 Dk) ED Wt1 I Q1) as Sk1'.
    tq E R2.
    destruct (IH s0 H1 G D t2 n r1 Sk1' (tctx_okS_hext _ _ _ _ X1 Gk) (dctx_okS_hext _ _ _ _ X1 Dk) EG ED (wsM_hext _ _ _ _ X1 W2) R2) as (H2 & X2 & Sk2 & Wt2).
    pose proof (hext_trans _ _ _ X1 X2) as X02.
    tq E R3.
    destruct (IH (b_st r1) H2 G D t3 n r2 Sk2 (tctx_okS_hext _ _ _ _ X02 Gk) (dctx_okS_hext _ _ _ _ X02 Dk) EG ED (wsM_hext _ _ _ _ X02 W3) R3) as (H3 & X3 & Sk3 & Wt3).
    pose proof (hext_trans _ _ _ X02 X3) as X03.
    xq E Q2. injection E as <-. cbn [b_st b_ty].
    exists H3. split; [exact X03|]. split; [|exact (wsM_hext _ _ _ _ X3 Wt2)].
    exact (expectN_okM H3 f _ D _ _ n _ _ _ _ Sk3 (dctx_okS_hext _ _ _ _ X03 Dk) ED (wsM_hext _ _ _ _ X3 Wt2) Wt3 Q2).
Qed.

(* ================= (D) soundness, for every completion of the final store ================= *)

(* a TOTAL completion: every term over existing cells zonks (zk_total: acyclic + every cell solved) *)
Definition total (s2 : storeB) : Prop :=
  forall t, (forall j, In j (holes_of t) -> j < length s2) -> exists u, zk s2 t u.

(* the declarative context Gd matches the checker's two contexts under s2: same offsets, zonked types and
   zonked definitions *)
Definition ctx_rel2 (s2 : storeB) (G : tctx) (D : dctx) (Gd : ctx) : Prop :=
  Forall2 (fun (p : term * nat) (e : entry) => zk s2 (fst p) (fst (fst e)) /\ snd (fst e) = snd p) G Gd /\ dctx_rel s2 D Gd.

Lemma ctx_rel2_nil s2 : ctx_rel2 s2 [] [] []. Proof. split; constructor. Qed.

Lemma ctx_rel2_lookup s2 G D Gd i T off : ctx_rel2 s2 G D Gd -> nth_error G i = Some (T, off) ->
  exists Tu, zk s2 T Tu /\ lookup_ty Gd i = Some (ushift Tu 0 (i + 1 - off)).
Proof.
  intros [R _] E. destruct (Forall2_nth_l _ _ _ R _ _ E) as ([[Tu k] od] & E' & Z & Ek). cbn [fst snd] in *. subst k.
  exists Tu. split; [exact Z|]. unfold lookup_ty. now rewrite E'.
Qed.

Lemma ctx_rel2_bind s2 G D Gd d du : ctx_rel2 s2 G D Gd -> zk s2 d du -> ctx_rel2 s2 ((d, 0) :: G) (None :: D) (bind Gd du).
Proof. intros [R1 R2] Z. split; [constructor; [cbn; auto | exact R1] | apply dctx_rel_bind; exact R2]. Qed.

Lemma ctx_rel2_push s2 N : forall l lu j G D Gd, ctx_rel2 s2 G D Gd -> zkds s2 l lu ->
  ctx_rel2 s2 (pushG N l j G) (pushD N l j D) (push_group N lu j Gd).
Proof.
  induction l as [|[a d] l IH]; intros lu j G D Gd R Z; apply zkds_inv in Z.
  - subst lu. exact R.
  - destruct Z as (au & du & ru & -> & Za & Zd & Zr). rewrite pushG_cons, pushD_cons. cbn [push_group].
    apply IH; [|exact Zr]. destruct R as [R1 R2]. split.
    + constructor; [cbn; auto | exact R1].
    + constructor; [|exact R2]. exists au, du. auto.
Qed.

(* what is asked of the completion at the holes the USER wrote: the checker's rule for a hole claims the type
   `type`, so the term that the completion puts there must be a type in its context *)
Fixpoint holes_ok (s2 : storeB) (t : term) (Gd : ctx) {struct t} : Prop :=
  match t with
  | THole _ _ => forall u, zk s2 t u -> has_type Gd u TType
  | TLam _ d b | TPi _ d b => holes_ok s2 d Gd /\ forall du, zk s2 d du -> holes_ok s2 b (bind Gd du)
  | TApp a b | TBin _ a b => holes_ok s2 a Gd /\ holes_ok s2 b Gd
  | TLet ds b => forall dsu, zkds s2 ds dsu ->
      (fix go (l : list (term * term)) : Prop :=
         match l with [] => True | p :: r => (holes_ok s2 (fst p) (enter dsu Gd) /\ holes_ok s2 (snd p) (enter dsu Gd)) /\ go r end) ds
      /\ holes_ok s2 b (enter dsu Gd)
  | TNeg a => holes_ok s2 a Gd
  | TIf c a b => holes_ok s2 c Gd /\ holes_ok s2 a Gd /\ holes_ok s2 b Gd
  | _ => True
  end.

Lemma go_Forall (P : term * term -> Prop) : forall l,
  (fix go (l : list (term * term)) : Prop := match l with [] => True | p :: r => P p /\ go r end) l <-> Forall P l.
Proof.
  induction l as [|p l IH]; [split; auto|]. rewrite IH. split.
  - intros [A B]. constructor; assumption.
  - intros F. inversion F; subst. split; assumption.
Qed.

Lemma holes_ok_let s2 ds b Gd : holes_ok s2 (TLet ds b) Gd ->
  forall dsu, zkds s2 ds dsu ->
    Forall (fun p => holes_ok s2 (fst p) (enter dsu Gd) /\ holes_ok s2 (snd p) (enter dsu Gd)) ds /\ holes_ok s2 b (enter dsu Gd).
Proof.
  intros Hk dsu Z. cbn [holes_ok] in Hk. destruct (Hk dsu Z) as [A B]. split; [|exact B].
  apply (go_Forall (fun p => holes_ok s2 (fst p) (enter dsu Gd) /\ holes_ok s2 (snd p) (enter dsu Gd))). exact A.
Qed.

(* ---------- an expectation that reports no error is a conversion under every completion ---------- *)
Lemma expectN_conv H f s D a w n e es s' :
  store_okM H s -> dctx_okS H 0 D -> n = length D -> wsM H n a -> wsM H n w ->
  expectN f s D a w e es = Some (s', []) ->
  es = [] /\ ext s s' /\ store_okM H s' /\
  forall s2 Gd au wu, ext s' s2 -> dctx_rel s2 D Gd -> zk s2 a au -> zk s2 w wu -> conv Gd au wu.
Proof.
  unfold expectN. intros Sk Dk En Wa Ww E. destruct (unifyN f s D a w) as [[ok s1]|] eqn:U; [|discriminate].
  injection E as <- Ee. destruct ok; [|apply app_eq_nil in Ee; destruct Ee as [_ Ee]; discriminate Ee].
  subst n. destruct (unifyN_consistent H (list_max H) f s D a w s1 Sk (dctx_okS_L _ _ Dk) Wa Ww U) as (_ & Sk' & C).
  split; [exact Ee|]. split; [exact (unifyN_ext _ _ _ _ _ _ _ U)|]. split; [exact Sk' | exact C].
Qed.

Lemma expectN_errs f s D a w e es s' es' : expectN f s D a w e es = Some (s', es') -> es' = [] -> es = [].
Proof.
  unfold expectN. destruct (unifyN f s D a w) as [[ok s1]|]; [|discriminate]. intros E. injection E as <- <-.
  destruct ok; [auto|]. intros E. apply app_eq_nil in E. destruct E as [_ E]. discriminate E.
Qed.

Lemma expectN_ext f s D a w e es s' es' : expectN f s D a w e es = Some (s', es') -> ext s s'.
Proof.
  unfold expectN. destruct (unifyN f s D a w) as [[ok s1]|] eqn:U; [|discriminate]. intros E. injection E as <- _.
  exact (unifyN_ext _ _ _ _ _ _ _ U).
Qed.

Lemma tctx_ok_bind H G d : tctx_okS H 0 G -> wsM H (length G) d -> tctx_okS H 0 ((d, 0) :: G).
Proof.
  intros Gk W. apply tctx_okS_cons; [apply (tctx_okS_slack _ 0); [lia | exact Gk] | lia | now rewrite Nat.add_0_r].
Qed.
Lemma dctx_ok_bind H D : dctx_okS H 0 D -> dctx_okS H 0 (None :: D).
Proof. intros Dk. apply dctx_okS_cons; [apply (dctx_okS_slack _ 0); [lia | exact Dk] | intros; discriminate]. Qed.

Lemma ext_len s s' : ext s s' -> length s <= length s'. Proof. intros [L _]. exact L. Qed.

(* ---------- groups ---------- *)
Lemma shift_defsN_zk f s s2 c m : ext s s2 -> forall l l' lu, zkds s2 l lu -> shift_defsN f s c m l = Some l' ->
  zkds s2 l' (map (fun p => (ushift (fst p) c m, ushift (snd p) c m)) lu).
Proof.
  intros X. induction l as [|[a d] l IHl]; intros l' lu Z E; apply zkds_inv in Z; cbn [shift_defsN] in E.
  - subst lu. injection E as <-. constructor.
  - destruct Z as (au & du & ru & -> & Za & Zd & Zr).
    destruct (ushiftN f s a c m) as [a'|] eqn:A; [|discriminate]. destruct (ushiftN f s d c m) as [d'|] eqn:B; [|discriminate].
    destruct (shift_defsN f s c m l) as [r'|] eqn:R; [|discriminate]. injection E as <-. cbn [map fst snd].
    constructor; [exact (ushiftN_zk _ _ _ _ _ _ _ _ X Za A) | exact (ushiftN_zk _ _ _ _ _ _ _ _ X Zd B) | exact (IHl _ _ Zr eq_refl)].
Qed.

Lemma group_typeN_zk f n ds s s2 dsu : ext s s2 -> zkds s2 ds dsu ->
  forall k i acc T accu, zk s2 acc accu -> group_typeN f n ds i k acc s = Some T -> zk s2 T (group_type n dsu i k accu).
Proof.
  intros X Zd. induction k as [|k IH]; intros i acc T accu Z E; cbn [group_typeN] in E; cbn [group_type].
  - injection E as <-. exact Z.
  - destruct (shift_defsN f s n (n - 1 - i) ds) as [sh|] eqn:A; [|discriminate].
    destruct (openN f s acc 0 (TLet sh (TVar i)) 0) as [acc'|] eqn:B; [|discriminate].
    pose proof (shift_defsN_zk _ _ _ _ _ X _ _ _ Zd A) as Zs.
    assert (Zx : zk s2 (TLet sh (TVar i)) (TLet (map (fun p => (ushift (fst p) n (n - 1 - i), ushift (snd p) n (n - 1 - i))) dsu) (TVar i)))
      by (constructor; [exact Zs | constructor]).
    exact (IH _ _ _ _ (openN_zk _ _ _ _ _ _ _ _ _ _ X Z Zx B) E).
Qed.

Definition tc_sound (H : list nat) (M : nat) (tc : storeB -> term -> option tcres) (s2 : storeB) (Gd' : ctx) : Prop :=
  forall s0 H0 d r, hext H H0 -> store_okM H0 s0 -> wsM H0 M d -> tc s0 d = Some r -> b_errs r = [] -> ext (b_st r) s2 ->
    forall du, zk s2 d du -> holes_ok s2 d Gd' -> exists Tu, zk s2 (b_ty r) Tu /\ has_type Gd' du Tu.

Lemma tc_defsN_ext f tc D' : (forall s0 d r, tc s0 d = Some r -> ext s0 (b_st r)) ->
  forall l s0 es l' s1 es1, tc_defsN f tc D' l s0 es = Some (l', s1, es1) -> ext s0 s1.
Proof.
  intros Tx. induction l as [|[a0 d0] rest IHr]; intros sA e0 l' sB e1 E3; cbn [tc_defsN] in E3.
  - injection E3 as _ <- _. apply ext_refl.
  - destruct (tc sA a0) as [r1|] eqn:T1; [|discriminate].
    destruct (expectN f (b_st r1) D' (b_ty r1) TType ENotType (e0 ++ b_errs r1)) as [[sC eC]|] eqn:Y1; [|discriminate].
    destruct (tc sC d0) as [r2|] eqn:T2; [|discriminate].
    destruct (expectN f (b_st r2) D' (b_ty r2) a0 EAnnotation (eC ++ b_errs r2)) as [[sD eD]|] eqn:Y2; [|discriminate].
    destruct (tc_defsN f tc D' rest sD eD) as [[[rr sE] eE]|] eqn:T3; [|discriminate]. injection E3 as _ <- _.
    eapply ext_trans; [exact (Tx _ _ _ T1)|]. eapply ext_trans; [exact (expectN_ext _ _ _ _ _ _ _ _ _ Y1)|].
    eapply ext_trans; [exact (Tx _ _ _ T2)|]. eapply ext_trans; [exact (expectN_ext _ _ _ _ _ _ _ _ _ Y2)|]. exact (IHr _ _ _ _ _ T3).
Qed.

Lemma tc_defsN_sound H f tc D' M s2 Gd' :
  tc_okM H M tc -> tc_sound H M tc s2 Gd' -> (forall s0 d r, tc s0 d = Some r -> ext s0 (b_st r)) ->
  dctx_okS H 0 D' -> M = length D' -> dctx_rel s2 D' Gd' ->
  forall l s0 H0 es l' s1 es1 lu, hext H H0 -> store_okM H0 s0 ->
    Forall (fun p => wsM H0 M (fst p) /\ wsM H0 M (snd p)) l ->
    tc_defsN f tc D' l s0 es = Some (l', s1, es1) -> es1 = [] -> ext s1 s2 -> zkds s2 l lu ->
    Forall (fun p => holes_ok s2 (fst p) Gd' /\ holes_ok s2 (snd p) Gd') l ->
    es = [] /\ Forall (fun p => has_type Gd' (fst p) TType /\ has_type Gd' (snd p) (fst p)) lu.
Proof.
  intros Tk Ts Tx Dk EM Rd. induction l as [|[a d] rest IHl]; intros s0 H0 es l' s1 es1 lu X0 Sk F E Ee Xs Z Hh;
    apply zkds_inv in Z; cbn [tc_defsN] in E.
  - subst lu. injection E as _ _ <-. split; [exact Ee | constructor].
  - destruct Z as (au & du & ru & -> & Za & Zd & Zr).
    inversion F as [|? ? [Wa Wd] Fr]; subst. inversion Hh as [|? ? [Ha Hd] Hr]; subst. cbn [fst snd] in *.
    destruct (tc s0 a) as [ra|] eqn:E1; [|discriminate].
    destruct (Tk _ _ _ _ X0 Sk Wa E1) as (H1 & X1 & Sk1 & Wta & _).
    pose proof (hext_trans _ _ _ X0 X1) as X01.
    destruct (expectN f (b_st ra) D' (b_ty ra) TType ENotType (es ++ b_errs ra)) as [[s0a es0]|] eqn:Q1; [|discriminate].
    pose proof (dctx_okS_hext _ _ _ _ X01 Dk) as Dk1.
    pose proof (expectN_okM H1 f _ D' _ TType (length D') _ _ _ _ Sk1 Dk1 eq_refl Wta I Q1) as Sk1'.
    destruct (tc s0a d) as [rd|] eqn:E2; [|discriminate].
    destruct (Tk _ _ _ _ X01 Sk1' (wsM_hext _ _ _ _ X1 Wd) E2) as (H2 & X2 & Sk2 & Wtd & El).
    pose proof (hext_trans _ _ _ X01 X2) as X02. pose proof (dctx_okS_hext _ _ _ _ X02 Dk) as Dk2.
    destruct (expectN f (b_st rd) D' (b_ty rd) a EAnnotation (es0 ++ b_errs rd)) as [[s1' es1']|] eqn:Q2; [|discriminate].
    pose proof (wsM_hext _ _ _ _ (hext_trans _ _ _ X1 X2) Wa) as Wa2.
    pose proof (expectN_okM H2 f _ D' _ a (length D') _ _ _ _ Sk2 Dk2 eq_refl Wtd Wa2 Q2) as Sk2'.
    destruct (tc_defsN f tc D' rest s1' es1') as [[[rest' s2'] es2]|] eqn:E3; [|discriminate]. injection E as _ <- ->.
    assert (Fr2 : Forall (fun p => wsM H2 (length D') (fst p) /\ wsM H2 (length D') (snd p)) rest).
    { eapply Forall_impl; [|exact Fr]. intros p [P1 P2].
      split; [exact (wsM_hext _ _ _ _ (hext_trans _ _ _ X1 X2) P1) | exact (wsM_hext _ _ _ _ (hext_trans _ _ _ X1 X2) P2)]. }
    destruct (IHl s1' H2 es1' rest' s2' _ ru X02 Sk2' Fr2 E3 eq_refl Xs Zr Hr) as [Ee1 Frest].
    subst es1'.
    (* stores: s0 <= b_st ra <= s0a <= b_st rd <= s1' <= s2' <= s2 *)
    pose proof (ext_trans _ _ _ (tc_defsN_ext f tc D' Tx _ _ _ _ _ _ E3) Xs) as Xr.
    destruct (expectN_conv H2 f _ D' _ a (length D') _ _ _ Sk2 Dk2 eq_refl Wtd Wa2 Q2) as (Ee2 & Xq2 & _ & C2).
    apply app_eq_nil in Ee2. destruct Ee2 as [-> Hed].
    destruct (expectN_conv H1 f _ D' _ TType (length D') _ _ _ Sk1 Dk1 eq_refl Wta I Q1) as (Ee3 & Xq1 & _ & C1).
    apply app_eq_nil in Ee3. destruct Ee3 as [-> Hea].
    split; [reflexivity|]. constructor; [|exact Frest]. cbn [fst snd].
    pose proof (ext_trans _ _ _ Xq2 Xr) as Xrd.
    pose proof (ext_trans _ _ _ (Tx _ _ _ E2) Xrd) as X0a.
    pose proof (ext_trans _ _ _ Xq1 X0a) as Xra.
    destruct (Ts _ _ _ _ X0 Sk Wa E1 Hea Xra au Za Ha) as (Tau & Zta & Hta).
    destruct (Ts _ _ _ _ X01 Sk1' (wsM_hext _ _ _ _ X1 Wd) E2 Hed Xrd du Zd Hd) as (Tdu & Ztd & Htd).
    split.
    + eapply t_conv; [exact Hta | exact (C1 s2 Gd' Tau TType X0a Rd Zta (zk_type _))].
    + eapply t_conv; [exact Htd | exact (C2 s2 Gd' Tdu au Xr Rd Ztd Za)].
Qed.

Lemma total_pi s2 d c : total s2 -> d < length s2 -> c < length s2 ->
  exists Au Bu, zk s2 (THole d 0) Au /\ zk s2 (THole c 0) Bu /\ zk s2 (TPi false (THole d 0) (THole c 0)) (TPi false Au Bu).
Proof.
  intros T Ld Lc. destruct (T (TPi false (THole d 0) (THole c 0))) as [u Z].
  { cbn [holes_of app]. intros j [<-|[<-|[]]]; assumption. }
  pose proof Z as Z0. apply zk_inv in Z. destruct Z as (Au & Bu & -> & Za & Zb). exists Au, Bu. auto.
Qed.

Lemma expectN_conv' H f s D a w n e es s' es' :
  store_okM H s -> dctx_okS H 0 D -> n = length D -> wsM H n a -> wsM H n w ->
  expectN f s D a w e es = Some (s', es') -> es' = [] ->
  es = [] /\ ext s s' /\ store_okM H s' /\
  forall s2 Gd au wu, ext s' s2 -> dctx_rel s2 D Gd -> zk s2 a au -> zk s2 w wu -> conv Gd au wu.
Proof. intros Sk Dk En Wa Ww E ->. exact (expectN_conv H f s D a w n e es s' Sk Dk En Wa Ww E). Qed.

(* MAIN INDUCTION *)
Theorem tcN_sound_gen : forall f s H G D t n r, store_okM H s -> tctx_okS H 0 G -> dctx_okS H 0 D -> n = length G -> n = length D ->
  wsM H n t -> tcN f s G D t = Some r -> b_errs r = [] ->
  forall s2 Gd eu, ext (b_st r) s2 -> total s2 -> ctx_rel2 s2 G D Gd -> zk s2 t eu -> holes_ok s2 t Gd ->
  exists Tu, zk s2 (b_ty r) Tu /\ has_type Gd eu Tu.
Proof.
  induction f as [|f IH]; intros s H G D t n r Sk Gk Dk EG ED W E Ee s2 Gd eu X Tot R Z Hh; [discriminate|].
  pose proof R as [_ Rd].
  destruct t; cbn [tcN] in E; cbv zeta in E.
  - (* hole *) injection E as <-. exists TType. split; [constructor | exact (Hh eu Z)].
  - injection E as <-. apply zk_inv in Z. subst eu. exists TType. split; constructor.
  - injection E as <-. apply zk_inv in Z. subst eu. exists TType. split; constructor.
  - injection E as <-. apply zk_inv in Z. subst eu. exists TType. split; constructor.
  - injection E as <-. apply zk_inv in Z. subst eu. exists TBool. split; constructor.
  - injection E as <-. apply zk_inv in Z. subst eu. exists TBool. split; constructor.
  - injection E as <-. apply zk_inv in Z. subst eu. exists TInt. split; constructor.
  - (* var *)
    apply zk_inv in Z. cbn beta iota in Z. subst eu.
    destruct (nth_error G i) as [[T off]|] eqn:En; [|injection E as <-; discriminate Ee].
    destruct (ushiftN f s T 0 (i + 1 - off)) as [T'|] eqn:U; [|discriminate]. injection E as <-. cbn [b_st b_ty] in *.
    destruct (ctx_rel2_lookup _ _ _ _ _ _ _ R En) as (Tu & ZT & Lk).
    exists (ushift Tu 0 (i + 1 - off)). split; [exact (ushiftN_zk _ _ _ _ _ _ _ _ X ZT U) | now apply t_var].
  - (* lam *)
    destruct W as [W1 W2]. apply zk_inv in Z. destruct Z as (du & bu & -> & Zd & Zb). destruct Hh as [Hd Hb].
    tq E R1. destruct (tcN_wsM _ _ _ _ _ _ _ _ Sk Gk Dk EG ED W1 R1) as (H1 & X1 & Sk1 & Wt1).
    pose proof (tcN_elab_identity _ _ _ _ _ _ R1) as El1. xq E Q1.
    pose proof (dctx_okS_hext _ _ _ _ X1 Dk) as Dk1.
    tq E R2. injection E as <-. cbn [b_st b_ty b_errs] in *. rewrite El1 in *.
    apply app_eq_nil in Ee. destruct Ee as [Ees Eeb].
    destruct (expectN_conv' H1 f _ D _ TType n _ _ _ _ Sk1 Dk1 ED Wt1 I Q1 Ees) as (Eed & Xq & Sk1' & C1).
    pose proof (ext_trans _ _ _ (tcN_ext _ _ _ _ _ _ R2) X) as Xs0.
    pose proof (ext_trans _ _ _ Xq Xs0) as Xrd.
    destruct (IH _ _ _ _ _ _ _ Sk Gk Dk EG ED W1 R1 Eed s2 Gd du Xrd Tot R Zd Hd) as (Tdu & Ztd & Htd).
    destruct (IH s0 H1 ((t1, 0) :: G) (None :: D) t2 (S n) r1 Sk1'
                (tctx_ok_bind _ _ _ (tctx_okS_hext _ _ _ _ X1 Gk) ltac:(rewrite <- EG; exact (wsM_hext _ _ _ _ X1 W1)))
                (dctx_ok_bind _ _ Dk1) ltac:(cbn; lia) ltac:(cbn; lia) (wsM_hext _ _ _ _ X1 W2) R2 Eeb
                s2 (bind Gd du) bu X Tot (ctx_rel2_bind _ _ _ _ _ _ R Zd) Zb (Hb du Zd)) as (Bu & Zbt & Hbt).
    exists (TPi impl du Bu). split; [constructor; assumption|].
    apply t_lam; [eapply t_conv; [exact Htd | exact (C1 s2 Gd Tdu TType Xs0 Rd Ztd (zk_type _))] | exact Hbt].
  - (* pi *)
    destruct W as [W1 W2]. apply zk_inv in Z. destruct Z as (du & bu & -> & Zd & Zb). destruct Hh as [Hd Hb].
    tq E R1. destruct (tcN_wsM _ _ _ _ _ _ _ _ Sk Gk Dk EG ED W1 R1) as (H1 & X1 & Sk1 & Wt1).
    pose proof (tcN_elab_identity _ _ _ _ _ _ R1) as El1. xq E Q1.
    pose proof (dctx_okS_hext _ _ _ _ X1 Dk) as Dk1.
    tq E R2. xq E Q2. injection E as <-. cbn [b_st b_ty b_errs] in *. rewrite El1 in *.
    pose proof (tctx_ok_bind _ _ _ (tctx_okS_hext _ _ _ _ X1 Gk) ltac:(rewrite <- EG; exact (wsM_hext _ _ _ _ X1 W1))) as Gk'.
    pose proof (dctx_ok_bind _ _ Dk1) as Dk'.
    pose proof (expectN_okM H1 f _ D _ TType n _ _ _ _ Sk1 Dk1 ED Wt1 I Q1) as Sk1'.
    destruct (tcN_wsM f s0 H1 ((t1, 0) :: G) (None :: D) t2 (S n) r1 Sk1' Gk' Dk' ltac:(cbn; lia) ltac:(cbn; lia) (wsM_hext _ _ _ _ X1 W2) R2)
      as (H2 & X2 & Sk2 & Wt2).
    destruct (expectN_conv' H2 f _ (None :: D) _ TType (S n) _ _ _ _ Sk2 (dctx_okS_hext _ _ _ _ X2 Dk') ltac:(cbn; lia) Wt2 I Q2 Ee) as (Ee2 & Xq2 & _ & C2).
    apply app_eq_nil in Ee2. destruct Ee2 as [Ees Eeb].
    destruct (expectN_conv' H1 f _ D _ TType n _ _ _ _ Sk1 Dk1 ED Wt1 I Q1 Ees) as (Eed & Xq & _ & C1).
    pose proof (ext_trans _ _ _ Xq2 X) as Xrb.
    pose proof (ext_trans _ _ _ (tcN_ext _ _ _ _ _ _ R2) Xrb) as Xs0.
    pose proof (ext_trans _ _ _ Xq Xs0) as Xrd.
    destruct (IH _ _ _ _ _ _ _ Sk Gk Dk EG ED W1 R1 Eed s2 Gd du Xrd Tot R Zd Hd) as (Tdu & Ztd & Htd).
    pose proof (ctx_rel2_bind _ _ _ _ _ _ R Zd) as R'.
    destruct (IH s0 H1 ((t1, 0) :: G) (None :: D) t2 (S n) r1 Sk1' Gk' Dk' ltac:(cbn; lia) ltac:(cbn; lia) (wsM_hext _ _ _ _ X1 W2) R2 Eeb
                s2 (bind Gd du) bu Xrb Tot R' Zb (Hb du Zd)) as (Bu & Zbt & Hbt).
    exists TType. split; [constructor|].
    apply t_pi; [eapply t_conv; [exact Htd | exact (C1 s2 Gd Tdu TType Xs0 Rd Ztd (zk_type _))]
                | eapply t_conv; [exact Hbt | exact (C2 s2 (bind Gd du) Bu TType X (proj2 R') Zbt (zk_type _))]].
  - (* app *)
    destruct W as [W1 W2]. apply zk_inv in Z. destruct Z as (au & bu & -> & Za & Zb). destruct Hh as [Ha Hb].
    tq E R1. destruct (tcN_wsM _ _ _ _ _ _ _ _ Sk Gk Dk EG ED W1 R1) as (H1 & X1 & Sk1 & Wt1).
    unfold fresh_hole, salloc in E. pose proof Sk1 as [Ln1 _].
    set (H2 := (H1 ++ [n]) ++ [S n]) in *.
    assert (X12 : hext H1 H2) by (exists ([n] ++ [S n]); unfold H2; now rewrite <- app_assoc).
    assert (Sk2 : store_okM H2 ((b_st r0 ++ [None]) ++ [None])) by (apply store_okM_alloc, store_okM_alloc; exact Sk1).
    assert (Wpi : wsM H2 n (TPi false (THole (length (b_st r0)) 0) (THole (length (b_st r0 ++ [None])) 0))).
    { rewrite <- Ln1. replace (length (b_st r0 ++ [None])) with (length (H1 ++ [n])) by (rewrite !app_length; cbn; lia). apply wsM_fresh_pi. }
    pose proof (hext_trans _ _ _ X1 X12) as X02. pose proof (dctx_okS_hext _ _ _ _ X02 Dk) as Dk2.
    xq E Q1. tq E R2.
    pose proof (expectN_okM H2 f _ D _ _ n _ _ _ _ Sk2 Dk2 ED Wpi (wsM_hext _ _ _ _ X12 Wt1) Q1) as Sk3.
    destruct (tcN_wsM f s0 H2 G D t2 n r1 Sk3 (tctx_okS_hext _ _ _ _ X02 Gk) Dk2 EG ED (wsM_hext _ _ _ _ X02 W2) R2) as (H3 & X3 & Sk4 & Wt2).
    pose proof (hext_trans _ _ _ X02 X3) as X03. pose proof (dctx_okS_hext _ _ _ _ X03 Dk) as Dk3.
    pose proof Wpi as [Wdom Wcod].
    xq E Q2.
    match type of E with match openN ?f ?s ?t ?i ?x ?k with _ => _ end = _ => destruct (openN f s t i x k) as [T|] eqn:O; [|discriminate E] end.
    injection E as <-. cbn [b_st b_ty b_errs] in *.
    destruct (expectN_conv' H3 f _ D _ _ n _ _ _ _ Sk4 Dk3 ED (wsM_hext _ _ _ _ X3 Wdom) Wt2 Q2 Ee) as (Ee2 & Xq2 & _ & C2).
    apply app_eq_nil in Ee2. destruct Ee2 as [Ees Eeb].
    destruct (expectN_conv' H2 f _ D _ _ n _ _ _ _ Sk2 Dk2 ED Wpi (wsM_hext _ _ _ _ X12 Wt1) Q1 Ees) as (Eea & Xq1 & _ & C1).
    pose proof (ext_trans _ _ _ Xq2 X) as Xrb.
    pose proof (ext_trans _ _ _ (tcN_ext _ _ _ _ _ _ R2) Xrb) as Xs3.
    pose proof (ext_trans _ _ _ Xq1 Xs3) as Xs2.
    assert (Xra : ext (b_st r0) s2).
    { eapply ext_trans; [|exact Xs2]. apply grow_ext. exists 2. now rewrite <- app_assoc. }
    destruct (IH _ _ _ _ _ _ _ Sk Gk Dk EG ED W1 R1 Eea s2 Gd au Xra Tot R Za Ha) as (Fu & Zf & Hf).
    pose proof (ext_len _ _ Xs2) as Ls2. rewrite !app_length in Ls2. cbn [length] in Ls2.
    destruct (total_pi s2 (length (b_st r0)) (length (b_st r0 ++ [None])) Tot) as (Au & Bu & ZA & ZB & ZPi);
      [lia | rewrite app_length; cbn [length]; lia |].
    destruct (IH s0 H2 G D t2 n r1 Sk3 (tctx_okS_hext _ _ _ _ X02 Gk) Dk2 EG ED (wsM_hext _ _ _ _ X02 W2) R2 Eeb s2 Gd bu Xrb Tot R Zb Hb) as (Argu & Zarg & Harg).
    rewrite (tcN_elab_identity _ _ _ _ _ _ R2) in O.
    exists (open Bu 0 bu 0). split; [exact (openN_zk _ _ _ _ _ _ _ _ _ _ X ZB Zb O)|].
    eapply t_app.
    + eapply t_conv; [exact Hf | apply c_sym; exact (C1 s2 Gd _ Fu Xs3 Rd ZPi Zf)].
    + eapply t_conv; [exact Harg | apply c_sym; exact (C2 s2 Gd Au Argu X Rd ZA Zarg)].
  - (* let *)
    change (wsM H n (TLet defs t)) in W. unfold wsM in W. apply wsc_let in W. destruct W as [Wd Wb].
    apply zk_inv in Z. destruct Z as (dsu & bu & -> & Zds & Zb).
    destruct (holes_ok_let _ _ _ _ Hh dsu Zds) as [Hds Hb].
    set (N := length defs) in *.
    destruct (pushG_ok H N n defs 0 G) as [Gk' LG']; [lia | lia | exact (tctx_okS_slack _ 0 _ _ ltac:(lia) Gk) | |].
    { eapply Forall_impl; [|exact Wd]. intros p [P1 _]. unfold wsM. now rewrite Nat.add_comm. }
    destruct (pushD_ok H N n defs 0 D) as [Dk' LD']; [lia | lia | exact (dctx_okS_slack _ 0 _ _ ltac:(lia) Dk) | |].
    { eapply Forall_impl; [|exact Wd]. intros p [_ P2]. unfold wsM. now rewrite Nat.add_comm. }
    match type of E with match tc_defsN ?f ?tc ?D' ?l ?s0 ?es with _ => _ end = _ =>
      destruct (tc_defsN f tc D' l s0 es) as [[[ds' s1] es1]|] eqn:Zt; [|discriminate E] end.
    assert (Tk : tc_okM H (N + n) (fun s0 d => tcN f s0 (pushG N defs 0 G) (pushD N defs 0 D) d)).
    { intros s0 H0 d r0 X0 Sk0 Wd0 Hr.
      destruct (tcN_wsM f s0 H0 _ _ d (N + n) r0 Sk0 (tctx_okS_hext _ _ _ _ X0 Gk') (dctx_okS_hext _ _ _ _ X0 Dk')) as (H1 & X1 & Sk1 & Wt1); auto; try lia.
      exists H1. split; [exact X1|]. split; [exact Sk1|]. split; [exact Wt1|]. exact (tcN_elab_identity _ _ _ _ _ _ Hr). }
    assert (F0 : Forall (fun p => wsM H (N + n) (fst p) /\ wsM H (N + n) (snd p)) defs).
    { eapply Forall_impl; [|exact Wd]. intros p [P1 P2]. split; unfold wsM; assumption. }
    destruct (tc_defsN_wsM H f _ (pushD N defs 0 D) (N + n) Tk Dk' ltac:(lia) defs s H [] ds' s1 es1 (hext_refl _) Sk F0 Zt) as (H1 & X1 & Sk1 & ->).
    tq E R2.
    destruct (tcN_wsM f s1 H1 _ _ t (N + n) r0 Sk1 (tctx_okS_hext _ _ _ _ X1 Gk') (dctx_okS_hext _ _ _ _ X1 Dk')) as (H2 & X2 & Sk2 & Wt2); auto; try lia.
    { exact (wsM_hext _ _ _ _ X1 Wb). }
    match type of E with match group_typeN ?f ?n ?ds ?i ?k ?acc ?s with _ => _ end = _ =>
      destruct (group_typeN f n ds i k acc s) as [T'|] eqn:GT; [|discriminate E] end.
    injection E as <-. cbn [b_st b_ty b_errs] in *.
    apply app_eq_nil in Ee. destruct Ee as [Ee1 Eeb].
    pose proof (ext_trans _ _ _ (tcN_ext _ _ _ _ _ _ R2) X) as Xs1.
    assert (EN : length dsu = N) by exact (zkds_length _ _ _ Zds).
    assert (R' : ctx_rel2 s2 (pushG N defs 0 G) (pushD N defs 0 D) (enter dsu Gd)).
    { unfold enter. rewrite EN. apply ctx_rel2_push; assumption. }
    assert (Ts : tc_sound H (N + n) (fun s0 d => tcN f s0 (pushG N defs 0 G) (pushD N defs 0 D) d) s2 (enter dsu Gd)).
    { intros s0 H0 d r1 X0 Sk0 Wd0 Hr Her Xr du Zdu Hdu.
      exact (IH s0 H0 _ _ d (N + n) r1 Sk0 (tctx_okS_hext _ _ _ _ X0 Gk') (dctx_okS_hext _ _ _ _ X0 Dk') ltac:(lia) ltac:(lia) Wd0 Hr Her
               s2 (enter dsu Gd) du Xr Tot R' Zdu Hdu). }
    destruct (tc_defsN_sound H f _ (pushD N defs 0 D) (N + n) s2 (enter dsu Gd) Tk Ts (fun s0 d r1 Hr => tcN_ext _ _ _ _ _ _ Hr)
                Dk' ltac:(lia) (proj2 R') defs s H [] defs s1 es1 dsu (hext_refl _) Sk F0 Zt Ee1 Xs1 Zds Hds) as [_ Fds].
    destruct (IH s1 H1 _ _ t (N + n) r0 Sk1 (tctx_okS_hext _ _ _ _ X1 Gk') (dctx_okS_hext _ _ _ _ X1 Dk') ltac:(lia) ltac:(lia)
                (wsM_hext _ _ _ _ X1 Wb) R2 Eeb s2 (enter dsu Gd) bu X Tot R' Zb Hb) as (Bu & Zbt & Hbt).
    exists (group_type (length dsu) dsu 0 (length dsu) Bu). split.
    + rewrite EN. exact (group_typeN_zk _ _ _ _ _ _ X Zds _ _ _ _ _ Zbt GT).
    + apply t_let; assumption.
  - (* neg *)
    change (wsM H n t) in W. apply zk_inv in Z. destruct Z as (au & -> & Za). cbn [holes_ok] in Hh.
    tq E R1. destruct (tcN_wsM _ _ _ _ _ _ _ _ Sk Gk Dk EG ED W R1) as (H1 & X1 & Sk1 & Wt1). xq E Q1.
    injection E as <-. cbn [b_st b_ty b_errs] in *.
    destruct (expectN_conv' H1 f _ D _ TInt n _ _ _ _ Sk1 (dctx_okS_hext _ _ _ _ X1 Dk) ED Wt1 I Q1 Ee) as (Eea & Xq & _ & C1).
    destruct (IH _ _ _ _ _ _ _ Sk Gk Dk EG ED W R1 Eea s2 Gd au (ext_trans _ _ _ Xq X) Tot R Za Hh) as (Tau & Zta & Hta).
    exists TInt. split; [constructor|]. apply t_neg. eapply t_conv; [exact Hta | exact (C1 s2 Gd Tau TInt X Rd Zta (zk_int _))].
  - (* bin *)
    destruct W as [W1 W2]. apply zk_inv in Z. destruct Z as (au & bu & -> & Za & Zb). destruct Hh as [Ha Hb].
    tq E R1. destruct (tcN_wsM _ _ _ _ _ _ _ _ Sk Gk Dk EG ED W1 R1) as (H1 & X1 & Sk1 & Wt1). xq E Q1.
    pose proof (dctx_okS_hext _ _ _ _ X1 Dk) as Dk1.
    pose proof (expectN_okM H1 f _ D _ TInt n _ _ _ _ Sk1 Dk1 ED Wt1 I Q1) as Sk1'.
    tq E R2.
    destruct (tcN_wsM f s0 H1 G D t2 n r1 Sk1' (tctx_okS_hext _ _ _ _ X1 Gk) Dk1 EG ED (wsM_hext _ _ _ _ X1 W2) R2) as (H2 & X2 & Sk2 & Wt2).
    xq E Q2. injection E as <-. cbn [b_st b_ty b_errs] in *. pose proof (hext_trans _ _ _ X1 X2) as X02.
    destruct (expectN_conv' H2 f _ D _ TInt n _ _ _ _ Sk2 (dctx_okS_hext _ _ _ _ X02 Dk) ED Wt2 I Q2 Ee) as (Ee2 & Xq2 & _ & C2).
    apply app_eq_nil in Ee2. destruct Ee2 as [Ees Eeb].
    destruct (expectN_conv' H1 f _ D _ TInt n _ _ _ _ Sk1 Dk1 ED Wt1 I Q1 Ees) as (Eea & Xq1 & _ & C1).
    pose proof (ext_trans _ _ _ Xq2 X) as Xrb.
    pose proof (ext_trans _ _ _ (tcN_ext _ _ _ _ _ _ R2) Xrb) as Xs0.
    destruct (IH _ _ _ _ _ _ _ Sk Gk Dk EG ED W1 R1 Eea s2 Gd au (ext_trans _ _ _ Xq1 Xs0) Tot R Za Ha) as (Tau & Zta & Hta).
    destruct (IH s0 H1 G D t2 n r1 Sk1' (tctx_okS_hext _ _ _ _ X1 Gk) Dk1 EG ED (wsM_hext _ _ _ _ X1 W2) R2 Eeb s2 Gd bu Xrb Tot R Zb Hb) as (Tbu & Ztb & Htb).
    exists (bin_ty o). split; [apply zk_bin_ty|].
    apply t_bin; [eapply t_conv; [exact Hta | exact (C1 s2 Gd Tau TInt Xs0 Rd Zta (zk_int _))]
                 | eapply t_conv; [exact Htb | exact (C2 s2 Gd Tbu TInt X Rd Ztb (zk_int _))]].
  - (* if *)
    destruct W as (W1 & W2 & W3). apply zk_inv in Z. destruct Z as (cu & au & bu & -> & Zc & Za & Zb). destruct Hh as (Hc & Ha & Hb).
    tq E R1. destruct (tcN_wsM _ _ _ _ _ _ _ _ Sk Gk Dk EG ED W1 R1) as (H1 & X1 & Sk1 & Wt1). xq E Q1.
    pose proof (dctx_okS_hext _ _ _ _ X1 Dk) as Dk1.
    pose proof (expectN_okM H1 f _ D _ TBool n _ _ _ _ Sk1 Dk1 ED Wt1 I Q1) as Sk1'.
    tq E R2.
    destruct (tcN_wsM f s0 H1 G D t2 n r1 Sk1' (tctx_okS_hext _ _ _ _ X1 Gk) Dk1 EG ED (wsM_hext _ _ _ _ X1 W2) R2) as (H2 & X2 & Sk2 & Wt2).
    pose proof (hext_trans _ _ _ X1 X2) as X02. pose proof (dctx_okS_hext _ _ _ _ X02 Dk) as Dk2.
    tq E R3.
    destruct (tcN_wsM f (b_st r1) H2 G D t3 n r2 Sk2 (tctx_okS_hext _ _ _ _ X02 Gk) Dk2 EG ED (wsM_hext _ _ _ _ X02 W3) R3) as (H3 & X3 & Sk3 & Wt3).
    pose proof (hext_trans _ _ _ X02 X3) as X03.
    xq E Q2. injection E as <-. cbn [b_st b_ty b_errs] in *.
    destruct (expectN_conv' H3 f _ D _ _ n _ _ _ _ Sk3 (dctx_okS_hext _ _ _ _ X03 Dk) ED (wsM_hext _ _ _ _ X3 Wt2) Wt3 Q2 Ee) as (Ee2 & Xq2 & _ & C2).
    apply app_eq_nil in Ee2. destruct Ee2 as [Ees Ee2]. apply app_eq_nil in Ee2. destruct Ee2 as [Eea Eeb].
    destruct (expectN_conv' H1 f _ D _ TBool n _ _ _ _ Sk1 Dk1 ED Wt1 I Q1 Ees) as (Eec & Xq1 & _ & C1).
    pose proof (ext_trans _ _ _ Xq2 X) as Xrb.
    pose proof (ext_trans _ _ _ (tcN_ext _ _ _ _ _ _ R3) Xrb) as Xra.
    pose proof (ext_trans _ _ _ (tcN_ext _ _ _ _ _ _ R2) Xra) as Xs0.
    destruct (IH _ _ _ _ _ _ _ Sk Gk Dk EG ED W1 R1 Eec s2 Gd cu (ext_trans _ _ _ Xq1 Xs0) Tot R Zc Hc) as (Tcu & Ztc & Htc).
    destruct (IH s0 H1 G D t2 n r1 Sk1' (tctx_okS_hext _ _ _ _ X1 Gk) Dk1 EG ED (wsM_hext _ _ _ _ X1 W2) R2 Eea s2 Gd au Xra Tot R Za Ha) as (Tau & Zta & Hta).
    destruct (IH (b_st r1) H2 G D t3 n r2 Sk2 (tctx_okS_hext _ _ _ _ X02 Gk) Dk2 EG ED (wsM_hext _ _ _ _ X02 W3) R3 Eeb s2 Gd bu Xrb Tot R Zb Hb) as (Tbu & Ztb & Htb).
    exists Tau. split; [exact Zta|].
    apply t_if; [eapply t_conv; [exact Htc | exact (C1 s2 Gd Tcu TBool Xs0 Rd Ztc (zk_bool _))] | exact Hta
                | eapply t_conv; [exact Htb | apply c_sym; exact (C2 s2 Gd Tau Tbu X Rd Zta Ztb)]].
Qed.

(* ================= (E) closed programs: the cells that are still unsolved are filled with a type ================= *)

Lemma total_fill H s v : store_okM H s -> acyclic s -> hole_free v = true -> total (fill v s).
Proof.
  intros [Ln Ss] A Hv t Hr. apply zk_total.
  - intros id Li. rewrite fill_length in Li. rewrite sget_fill.
    destruct (nth_error s id) as [[t0|]|] eqn:E; eauto. apply nth_error_None in E. lia.
  - intros id sol E j Hj. rewrite fill_length. rewrite sget_fill in E.
    destruct (nth_error s id) as [[t0|]|] eqn:En; try discriminate; injection E as <-.
    + destruct (Ss id t0) as (h & _ & Ws); [unfold sget; now rewrite En|]. rewrite <- Ln. exact (wsc_holes_inrange _ _ _ _ Ws j Hj).
    + rewrite (hf_no_holes _ Hv) in Hj. destruct Hj.
  - exact (fill_acyclic _ _ Hv A).
  - exact Hr.
Qed.

(* a sufficient condition for holes_ok that can be checked by computation: every hole the user wrote zonks to a
   BASE type (type, int, bool, and function types over them): such a term is a type in every context *)
Fixpoint base_ty (v : term) : bool :=
  match v with
  | TType | TInt | TBool => true
  | TPi _ a b => base_ty a && base_ty b
  | _ => false
  end.

Lemma has_type_base : forall v G, base_ty v = true -> has_type G v TType.
Proof.
  induction v; intros G Hb; cbn [base_ty] in Hb; try discriminate; try constructor.
  - apply andb_prop in Hb as [A B]. auto.
  - apply andb_prop in Hb as [A B]. auto.
Qed.
Lemma base_hf : forall v, base_ty v = true -> hole_free v = true.
Proof. induction v; intros Hb; cbn [base_ty hole_free] in *; try discriminate; try reflexivity. apply andb_prop in Hb as [A B]. now rewrite IHv1, IHv2. Qed.
Lemma base_ushift : forall v c n, base_ty v = true -> ushift v c n = v.
Proof. induction v; intros c n Hb; cbn [base_ty ushift] in *; try discriminate; try reflexivity. apply andb_prop in Hb as [A B]. now rewrite IHv1, IHv2. Qed.

Fixpoint holes_base (s2 : storeB) (t : term) : Prop :=
  match t with
  | THole _ _ => forall u, zk s2 t u -> base_ty u = true
  | TLam _ a b | TPi _ a b | TApp a b | TBin _ a b => holes_base s2 a /\ holes_base s2 b
  | TLet ds b =>
      (fix go (l : list (term * term)) : Prop :=
         match l with [] => True | p :: r => (holes_base s2 (fst p) /\ holes_base s2 (snd p)) /\ go r end) ds /\ holes_base s2 b
  | TNeg a => holes_base s2 a
  | TIf c a b => holes_base s2 c /\ holes_base s2 a /\ holes_base s2 b
  | _ => True
  end.

Lemma holes_base_ok s2 : forall t Gd, holes_base s2 t -> holes_ok s2 t Gd.
Proof.
  induction t using term_ind'; intros Gd Hb; cbn [holes_base holes_ok] in *; try exact I.
  - intros u Z. apply has_type_base. exact (Hb u Z).
  - destruct Hb; split; auto.
  - destruct Hb; split; auto.
  - destruct Hb; split; auto.
  - destruct Hb as [Hd Hbb]. intros dsu Z. split; [|auto].
    apply (go_Forall (fun p => holes_ok s2 (fst p) (enter dsu Gd) /\ holes_ok s2 (snd p) (enter dsu Gd))).
    apply (go_Forall (fun p => holes_base s2 (fst p) /\ holes_base s2 (snd p))) in Hd.
    rewrite Forall_forall in *. intros p Hp. destruct (H p Hp) as [I1 I2]. destruct (Hd p Hp) as [B1 B2]. split; auto.
  - auto.
  - destruct Hb; split; auto.
  - destruct Hb as (A & B & C); repeat split; auto.
Qed.

(* computable check of holes_base through the computable zonk zkf *)
Fixpoint holes_baseb (fuel : nat) (s2 : storeB) (t : term) : bool :=
  match t with
  | THole _ _ => match zkf fuel s2 t with Some u => base_ty u | None => false end
  | TLam _ a b | TPi _ a b | TApp a b | TBin _ a b => holes_baseb fuel s2 a && holes_baseb fuel s2 b
  | TLet ds b => forallb (fun p => holes_baseb fuel s2 (fst p) && holes_baseb fuel s2 (snd p)) ds && holes_baseb fuel s2 b
  | TNeg a => holes_baseb fuel s2 a
  | TIf c a b => holes_baseb fuel s2 c && holes_baseb fuel s2 a && holes_baseb fuel s2 b
  | _ => true
  end.

Lemma holes_baseb_sound fuel s2 : forall t, holes_baseb fuel s2 t = true -> holes_base s2 t.
Proof.
  induction t using term_ind'; intros E; cbn [holes_baseb holes_base] in *; try exact I.
  - destruct (zkf fuel s2 (THole i s)) as [u0|] eqn:Zf; [|discriminate]. intros u Z.
    rewrite (zk_fun _ _ _ _ (zkf_sound _ _ _ _ Zf) Z). exact E.
  - apply andb_prop in E as [A B]; auto.
  - apply andb_prop in E as [A B]; auto.
  - apply andb_prop in E as [A B]; auto.
  - apply andb_prop in E as [A B]. split; [|auto].
    apply (go_Forall (fun p => holes_base s2 (fst p) /\ holes_base s2 (snd p))). rewrite forallb_forall in A. rewrite Forall_forall in *.
    intros p Hp. destruct (H p Hp) as [I1 I2]. specialize (A p Hp). apply andb_prop in A as [A1 A2]. auto.
  - auto.
  - apply andb_prop in E as [A B]; auto.
  - apply andb_prop in E as [AB C]. apply andb_prop in AB as [A B]. auto.
Qed.

(* TOP LEVEL.  A closed program, checked from an acyclic well-scoped store (e.g. the parser's `repeat None k`),
   accepted with no error and no event: fill the cells that are still unsolved with a hole-free term v.  If the
   terms standing at the user's holes are types (holes_ok; in particular if they are base types) then the filled
   elaborated program - which IS the filled source program - has the filled reported type. *)
Theorem tcN_sound_closed H f s t r v :
  store_okM H s -> acyclic s -> wsM H 0 t -> tcN f s [] [] t = Some r -> b_errs r = [] -> hole_free v = true ->
  holes_ok (fill v (b_st r)) t [] ->
  tcB f s [] [] t = Some r /\ b_elab r = t /\
  exists eu Tu, zk (fill v (b_st r)) (b_elab r) eu /\ zk (fill v (b_st r)) (b_ty r) Tu /\ has_type [] eu Tu.
Proof.
  intros Sk A W E Ee Hv Hh.
  pose proof (tcN_elab_identity _ _ _ _ _ _ E) as El.
  split; [exact (tcN_refines _ _ _ _ _ _ E)|]. split; [exact El|].
  assert (Gk : tctx_okS H 0 []) by (intros [|p] T off En; discriminate En).
  assert (Dk : dctx_okS H 0 []) by (intros [|p] d off En; discriminate En).
  destruct (tcN_wsM f s H [] [] t 0 r Sk Gk Dk eq_refl eq_refl W E) as (H' & X' & Sk' & Wt').
  pose proof (total_fill H' (b_st r) v Sk' (tcN_acyclic _ _ _ _ _ _ E A) Hv) as Tot.
  destruct (Tot t) as [eu Zt].
  { intros j Hj. rewrite fill_length. destruct Sk' as [Ln' _]. rewrite <- Ln'.
    exact (wsc_holes_inrange _ _ _ _ (wsM_hext _ _ _ _ X' W) j Hj). }
  destruct (tcN_sound_gen f s H [] [] t 0 r Sk Gk Dk eq_refl eq_refl W E Ee (fill v (b_st r)) [] eu (fill_ext v _) Tot (ctx_rel2_nil _) Zt Hh)
    as (Tu & ZT & HT).
  exists eu, Tu. rewrite El. auto.
Qed.

Corollary tcN_sound_closed_base H f s t r v :
  store_okM H s -> acyclic s -> wsM H 0 t -> tcN f s [] [] t = Some r -> b_errs r = [] -> hole_free v = true ->
  holes_baseb 40 (fill v (b_st r)) t = true ->
  exists eu Tu, zk (fill v (b_st r)) t eu /\ zk (fill v (b_st r)) (b_ty r) Tu /\ has_type [] eu Tu.
Proof.
  intros Sk A W E Ee Hv Hb.
  destruct (tcN_sound_closed H f s t r v Sk A W E Ee Hv (holes_base_ok _ _ _ (holes_baseb_sound _ _ _ Hb))) as (_ & El & eu & Tu & Z1 & Z2 & HT).
  rewrite El in Z1. eauto.
Qed.

(* ================= (F) a checker for closed examples ================= *)
(* run tcN on a program whose k cells have the home depths H; fill what is left with v; report the filled
   program and its filled type when no error was reported and the user's holes zonk to base types *)
Definition accepts (H : list nat) (f : nat) (t v : term) : option (term * term) :=
  if wscb H (list_max H) 0 t && hole_free v then
    match tcN f (repeat None (length H)) [] [] t with
    | Some r =>
        match b_errs r with
        | [] => if holes_baseb 40 (fill v (b_st r)) t
                then match zkf 40 (fill v (b_st r)) t, zkf 40 (fill v (b_st r)) (b_ty r) with
                     | Some eu, Some Tu => Some (eu, Tu) | _, _ => None end
                else None
        | _ => None end
    | None => None end
  else None.

Lemma store_okM_unsolved H : store_okM H (repeat None (length H)).
Proof.
  split; [now rewrite repeat_length|]. intros id sol E. unfold sget in E.
  destruct (nth_error (repeat None (length H)) id) as [[x|]|] eqn:En; try discriminate.
  apply nth_error_In, repeat_spec in En. discriminate En.
Qed.

Theorem accepts_sound H f t v eu Tu : accepts H f t v = Some (eu, Tu) -> has_type [] eu Tu.
Proof.
  unfold accepts. destruct (wscb H (list_max H) 0 t && hole_free v) eqn:C; [|discriminate]. apply andb_prop in C as [Cw Cv].
  destruct (tcN f (repeat None (length H)) [] [] t) as [r|] eqn:E; [|discriminate].
  destruct (b_errs r) eqn:Ee; [|discriminate].
  destruct (holes_baseb 40 (fill v (b_st r)) t) eqn:Hb; [|discriminate].
  destruct (zkf 40 (fill v (b_st r)) t) as [eu0|] eqn:Z1; [|discriminate].
  destruct (zkf 40 (fill v (b_st r)) (b_ty r)) as [Tu0|] eqn:Z2; [|discriminate]. intros Q. injection Q as <- <-.
  destruct (tcN_sound_closed_base H f _ t r v (store_okM_unsolved H) (acyclic_unsolved _) (wscb_sound _ _ _ _ Cw) E Ee Cv Hb)
    as (eu & Tu & Ze & Zt & HT).
  rewrite (zk_fun _ _ _ _ Ze (zkf_sound _ _ _ _ Z1)), (zk_fun _ _ _ _ Zt (zkf_sound _ _ _ _ Z2)). exact HT.
Qed.

(* the same without the base-type check: the typing of the terms at the user's holes is left to the caller *)
Definition accepts0 (H : list nat) (f : nat) (t v : term) : option (term * term) :=
  if wscb H (list_max H) 0 t && hole_free v then
    match tcN f (repeat None (length H)) [] [] t with
    | Some r =>
        match b_errs r with
        | [] => match zkf 40 (fill v (b_st r)) t, zkf 40 (fill v (b_st r)) (b_ty r) with
                | Some eu, Some Tu => Some (eu, Tu) | _, _ => None end
        | _ => None end
    | None => None end
  else None.

Theorem accepts0_sound H f t v eu Tu :
  (forall r, tcN f (repeat None (length H)) [] [] t = Some r -> holes_ok (fill v (b_st r)) t []) ->
  accepts0 H f t v = Some (eu, Tu) -> has_type [] eu Tu.
Proof.
  intros Hh. unfold accepts0. destruct (wscb H (list_max H) 0 t && hole_free v) eqn:C; [|discriminate]. apply andb_prop in C as [Cw Cv].
  destruct (tcN f (repeat None (length H)) [] [] t) as [r|] eqn:E; [|discriminate].
  destruct (b_errs r) eqn:Ee; [|discriminate].
  destruct (zkf 40 (fill v (b_st r)) t) as [eu0|] eqn:Z1; [|discriminate].
  destruct (zkf 40 (fill v (b_st r)) (b_ty r)) as [Tu0|] eqn:Z2; [|discriminate]. intros Q. injection Q as <- <-.
  destruct (tcN_sound_closed H f _ t r v (store_okM_unsolved H) (acyclic_unsolved _) (wscb_sound _ _ _ _ Cw) E Ee Cv (Hh r eq_refl))
    as (_ & El & eu & Tu & Ze & Zt & HT). rewrite El in Ze.
  rewrite (zk_fun _ _ _ _ Ze (zkf_sound _ _ _ _ Z1)), (zk_fun _ _ _ _ Zt (zkf_sound _ _ _ _ Z2)). exact HT.
Qed.

(* ================= (G) non-vacuity ================= *)
Module ExT.
(* (x => x + 1) 2 : the annotation of x is a hole, solved by int *)
Definition p1 := TApp (TLam false (THole 0 0) (TBin OSum (TVar 0) (TLit 1))) (TLit 2).
Example p1_typed : has_type [] (TApp (TLam false TInt (TBin OSum (TVar 0) (TLit 1))) (TLit 2)) TInt.
Proof. apply (accepts_sound [0] 30 p1 TInt). vm_compute. reflexivity. Qed.

(* id : (A : type) -> A -> A = (A : type) => (x : A) => x; id _ 3 : the type argument is a hole, inferred *)
Definition idT := TPi false TType (TPi false (TVar 0) (TVar 1)).
Definition idf := TLam false TType (TLam false (TVar 0) (TVar 0)).
Definition p2 := TLet [(idT, idf)] (TApp (TApp (TVar 0) (THole 0 1)) (TLit 3)).
Example p2_runs : option_map (fun r => (b_ty r, b_errs r)) (tcN 40 [None] [] [] p2) = Some (TInt, []).
Proof. vm_compute. reflexivity. Qed.
Example p2_typed : has_type [] (TLet [(idT, idf)] (TApp (TApp (TVar 0) TInt) (TLit 3))) TInt.
Proof. apply (accepts_sound [0] 40 p2 TInt). vm_compute. reflexivity. Qed.

(* the same with the annotation of id left to the checker:  id = ...; id _ 3  (two holes) *)
Definition p3 := TLet [(THole 0 1, idf)] (TApp (TApp (TVar 0) (THole 1 1)) (TLit 3)).
Lemma idT_is_a_type G : has_type G idT TType.
Proof.
  unfold idT. apply t_pi; [constructor|]. apply t_pi; [apply t_var; reflexivity | apply t_var; reflexivity].
Qed.
Example p3_typed : has_type [] (TLet [(idT, idf)] (TApp (TApp (TVar 0) TInt) (TLit 3))) TInt.
Proof.
  apply (accepts0_sound [0; 0] 40 p3 TInt); [|vm_compute; reflexivity].
  intros r E. vm_compute in E. injection E as <-. cbn [b_st].
  intros dsu Zd. cbn [fst snd]. repeat split; try exact I.
  - (* the annotation hole: solved by the type of id *)
    intros u Z. apply zk_inv in Z. destruct Z as (sol & u0 & Es & Zs & ->). vm_compute in Es. injection Es as <-.
    rewrite (zk_fun _ _ _ _ (zk_refl_hf _ idT eq_refl) Zs). replace (ushift idT 0 1) with idT by reflexivity. apply idT_is_a_type.
  - (* the type argument: solved by int *)
    intros u Z. apply zk_inv in Z. destruct Z as (sol & u0 & Es & Zs & ->). vm_compute in Es. injection Es as <-.
    rewrite (zk_fun _ _ _ _ (zk_refl_hf _ TInt eq_refl) Zs). constructor.
Qed.

(* a cell that stays unsolved: (x : _) => 3.  Any TYPE may fill it ... *)
Definition p4 := TLam false (THole 0 0) (TLit 3).
Example p4_runs : option_map (fun r => (b_ty r, b_st r, b_errs r)) (tcN 30 [None] [] [] p4) = Some (TPi false (THole 0 0) TInt, [None], []).
Proof. vm_compute. reflexivity. Qed.
Example p4_typed_int : has_type [] (TLam false TInt (TLit 3)) (TPi false TInt TInt).
Proof. apply (accepts_sound [0] 30 p4 TInt). vm_compute. reflexivity. Qed.
Example p4_typed_fun : has_type [] (TLam false (TPi false TBool TType) (TLit 3)) (TPi false (TPi false TBool TType) TInt).
Proof. apply (accepts_sound [0] 30 p4 (TPi false TBool TType)). vm_compute. reflexivity. Qed.

(* ... but it must be a type: filled with the number 3 the program  (x : 3) => 3  has no type at all.  This is why
   the theorem asks holes_ok of the completion: the checker's rule for `_` claims the type `type`. *)
Lemma has_type_lit_inv G z T : has_type G (TLit z) T -> conv G TInt T.
Proof.
  intros Ht. remember (TLit z) as t eqn:Et. induction Ht; try discriminate Et.
  - apply c_refl.
  - eapply c_trans; [exact (IHHt Et) | assumption].
Qed.
Lemma has_type_lam_inv G im d b T : has_type G (TLam im d b) T -> has_type G d TType.
Proof.
  intros Ht. remember (TLam im d b) as t eqn:Et. induction Ht; try discriminate Et.
  - injection Et as -> -> ->. assumption.
  - exact (IHHt Et).
Qed.
Example filler_must_be_a_type : ~ exists T, has_type [] (TLam false (TLit 3) (TLit 3)) T.
Proof.
  intros [T Ht]. apply has_type_lam_inv, has_type_lit_inv in Ht. apply conv_nil_type_int. apply c_sym. exact Ht.
Qed.
End ExT.

(* ================= (H) the two recorded witnesses: accepted by tcB, aborted by tcN ================= *)
Module WitnessT.
(* D9:  ((f : int -> _) => f 1 + 1) ((x : int) => true)   -- `open` copies the unsolved codomain cell *)
Definition D9_witness : term :=
  TApp (TLam false (TPi false TInt (THole 0 1)) (TBin OSum (TApp (TVar 0) (TLit 1)) (TLit 1))) (TLam false TInt TTrue).
Example D9_witness_aborts :
  option_map b_errs (tcB 60 [None] [] [] D9_witness) = Some [] /\ tcN 60 [None] [] [] D9_witness = None.
Proof. vm_compute. auto. Qed.
(* D19:  (f : type) => (z : (a : type) -> _) => ((w : (a : type) -> f) => w) z   -- raising z's annotation leaves the
   hole under `a` below the cutoff *)
Example D19_witness_aborts :
  option_map b_errs (tcB 60 [None] [] [] CE.P1) = Some [] /\ tcN 60 [None] [] [] CE.P1 = None.
Proof. vm_compute. auto. Qed.
(* an unannotated function argument that is applied: the probe  (?dom) -> ?cod  is lowered to the cell of its type,
   ?cod sits under the binder: event H3 (the real checker answers ENotFunction here) *)
Example applied_hole_typed_binder_aborts :
  tcN 30 [None] [] [] (TLam false (THole 0 0) (TApp (TVar 0) (TLit 1))) = None.
Proof. vm_compute. reflexivity. Qed.
End WitnessT.

(* ================= assumptions ================= *)
Print Assumptions tcN_refines.
Print Assumptions tcN_elab_identity.
Print Assumptions tcN_wsM.
Print Assumptions expectN_conv.
Print Assumptions tc_defsN_sound.
Print Assumptions group_typeN_zk.
Print Assumptions tcN_sound_gen.
Print Assumptions total_fill.
Print Assumptions tcN_sound_closed.
Print Assumptions tcN_sound_closed_base.
Print Assumptions accepts_sound.
Print Assumptions accepts0_sound.
Print Assumptions ExT.p1_typed.
Print Assumptions ExT.p2_typed.
Print Assumptions ExT.p3_typed.
Print Assumptions ExT.p4_typed_int.
Print Assumptions ExT.filler_must_be_a_type.
Print Assumptions WitnessT.D9_witness_aborts.
Print Assumptions WitnessT.D19_witness_aborts.
