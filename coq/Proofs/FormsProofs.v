(* The partitions of the 23 term formers read from the source (is_value, group) are the ones the
   evaluator and printer models use. *)
From Coq Require Import List ZArith Bool.
Import ListNotations.
Require Import Gram.Model.Term Gram.Model.Eval Gram.Gen.ValueForms.

Theorem is_value_matches_source : forall t, is_value t = in_formers value_formers t.
Proof. intros t. destruct t as [| | | | | | | | | | | | |o| ]; try reflexivity. destruct o; reflexivity. Qed.

Theorem group_bare_is_atoms :
  group_bare = [FType; FVar; FInt; FLit; FBool; FTrue; FFalse].
Proof. reflexivity. Qed.
