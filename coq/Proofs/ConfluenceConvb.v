(* L6: the checker's conversion test decides the declarative equality whenever it terminates.
   In a context without definitions (every context convb reaches from the empty one), on hole-free terms:
     convb f G a b = Some true   ->   conv0 a b
     convb f G a b = Some false  -> ~ conv0 a b        (needs Church-Rosser)                       *)
From Coq Require Import List ZArith Lia Bool Arith Relations.
Import ListNotations.
Require Import Gram.Model.Term Gram.Model.DeBruijn Gram.Model.Eval Gram.Spec.Cbv Gram.Spec.Typing Gram.Oracle.Infer
  Gram.Proofs.DeBruijnLaws Gram.Proofs.CtxProofs Gram.Proofs.WeakenProofs Gram.Proofs.InferSound
  Gram.Proofs.ConflLaws Gram.Proofs.Confluence Gram.Proofs.ConfluenceCons Gram.Proofs.ConfluenceEval.

Definition nodefs (G : ctx) : Prop := forall i, lookup_def G i = None.

Lemma nodefs_nil : nodefs [].
Proof. intros [|i]; reflexivity. Qed.

Lemma nodefs_bind G A : nodefs G -> nodefs (bind G A).
Proof.
  intros H [|i]; [reflexivity|]. specialize (H i). unfold lookup_def, bind in *. cbn [nth_error].
  destruct (nth_error G i) as [[[T k] [d|]]|]; try reflexivity. discriminate.
Qed.

Lemma nodefs_ctx_hf G : nodefs G -> ctx_hf G.
Proof.
  intros H. unfold ctx_hf. apply Forall_forall. intros e Hin. apply In_nth_error in Hin as (i & E).
  specialize (H i). unfold lookup_def in H. rewrite E in H. destruct e as [[T k] [d|]]; [discriminate | exact I].
Qed.

Lemma red_nodefs G a b : nodefs G -> red G a b -> red0 a b.
Proof. intros N. induction 1; try (constructor; auto; fail). rewrite N in H. discriminate. Qed.

Lemma whnf_pstar G f t u : nodefs G -> hole_free t = true -> whnf f G t = Some u ->
  pstar t u /\ hole_free u = true.
Proof.
  intros N Hf H. apply whnf_sound in H. unfold rstar in H. induction H as [a b R | a | a b c _ IH1 _ IH2].
  - apply (red_nodefs _ _ _ N) in R. split; [apply rt_step; now apply red0_pred | eapply red0_hf; eauto].
  - split; [apply rt_refl | assumption].
  - destruct IH1 as [P1 F1]; auto. destruct IH2 as [P2 F2]; auto. split; [eapply rt_trans; eauto | assumption].
Qed.

Ltac use_IH IH f :=
  match goal with
  | K : convb f ?G0 ?x ?y = Some _ |- conv0 ?x ?y => apply (IH G0 x y); auto using nodefs_bind
  end.

(* ---------- the positive answers ---------- *)
Theorem convb_true_conv0 : forall f G a b, nodefs G -> hole_free a = true -> hole_free b = true ->
  convb f G a b = Some true -> conv0 a b.
Proof.
  induction f as [|f IH]; intros G a b N Ha Hb H; [discriminate|].
  cbn [convb] in H.
  destruct (whnf f G a) as [a'|] eqn:Ea; [|discriminate].
  destruct (whnf f G b) as [b'|] eqn:Eb; [|discriminate].
  destruct (whnf_pstar _ _ _ _ N Ha Ea) as [Pa Fa]. destruct (whnf_pstar _ _ _ _ N Hb Eb) as [Pb Fb].
  apply pstar_conv0 in Pa. apply pstar_conv0 in Pb.
  assert (K : conv0 a' b' -> conv0 a b) by (intro; eauto using conv0).
  apply K; clear K Pa Pb Ea Eb.
  destruct a'; try discriminate Fa; destruct b'; try discriminate Fb; try discriminate; try apply c0_refl; split_hf.
  - injection H as H. apply Z.eqb_eq in H. subst. apply c0_refl.
  - injection H as H. apply Nat.eqb_eq in H. subst. apply c0_refl.
  - destruct (Bool.eqb impl impl0) eqn:Ei; [|discriminate]. apply eqb_prop in Ei; subst.
    apply c0_lam. use_IH IH f.
  - destruct (Bool.eqb impl impl0) eqn:Ei; [|discriminate]. apply eqb_prop in Ei; subst.
    apply and3_true in H as [H1' H2']. cbv beta in *. apply c0_pi; use_IH IH f.
  - apply and3_true in H as [H1' H2']. cbv beta in *. apply c0_app; use_IH IH f.
  - apply c0_neg; use_IH IH f.
  - destruct (binop_eqb o o0) eqn:Eo; [|discriminate]. apply binop_eqb_eq in Eo; subst.
    apply and3_true in H as [H1' H2']. cbv beta in *. apply c0_bin; use_IH IH f.
  - apply and3_true in H as [H1' H2']. cbv beta in *. apply and3_true in H2' as [H2' H3']. cbv beta in *.
    apply c0_if; use_IH IH f.
Qed.

(* ---------- reducts of weak-head normal (neutral) forms ---------- *)
Lemma wn_pred t t' : pred t t' -> wn t = true -> wn t' = true /\ former_of t' = former_of t.
Proof. apply wn_pred_mut. Qed.

Lemma pstar_app_inv f a t : wn (TApp f a) = true -> pstar (TApp f a) t ->
  exists f' a', t = TApp f' a' /\ pstar f f' /\ pstar a a'.
Proof.
  intros W H. apply clos_rt_rt1n in H. remember (TApp f a) as u eqn:E. revert f a E W.
  induction H as [|u v w Hs _ IH]; intros f a -> W.
  - exists f, a. repeat split; apply rt_refl.
  - destruct (wn_pred _ _ Hs W) as [W' _].
    inversion Hs; subst; try discriminate;
      try (exfalso; cbn [wn is_lam] in W; rewrite andb_false_r in W; discriminate).
    destruct (IH _ _ eq_refl W') as (f2 & a2 & -> & P1 & P2).
    exists f2, a2. repeat split; eapply pstar_step; eauto.
Qed.

Lemma pstar_neg_inv a t : wn (TNeg a) = true -> pstar (TNeg a) t -> exists a', t = TNeg a' /\ pstar a a'.
Proof.
  intros W H. apply clos_rt_rt1n in H. remember (TNeg a) as u eqn:E. revert a E W.
  induction H as [|u v w Hs _ IH]; intros a -> W.
  - exists a. split; [reflexivity | apply rt_refl].
  - destruct (wn_pred _ _ Hs W) as [W' _].
    inversion Hs; subst; try discriminate; try (exfalso; cbn [wn is_lit] in W; discriminate).
    destruct (IH _ eq_refl W') as (a2 & -> & P1). exists a2. split; [reflexivity | eapply pstar_step; eauto].
Qed.

Lemma pstar_bin_inv o a b t : wn (TBin o a b) = true -> pstar (TBin o a b) t ->
  exists a' b', t = TBin o a' b' /\ pstar a a' /\ pstar b b'.
Proof.
  intros W H. apply clos_rt_rt1n in H. remember (TBin o a b) as u eqn:E. revert a b E W.
  induction H as [|u v w Hs _ IH]; intros a b -> W.
  - exists a, b. repeat split; apply rt_refl.
  - destruct (wn_pred _ _ Hs W) as [W' _].
    inversion Hs; subst; try discriminate;
      try (exfalso; cbn [wn] in W; match goal with A : arith _ _ _ = Some _ |- _ => rewrite A in W end; discriminate).
    destruct (IH _ _ eq_refl W') as (a2 & b2 & -> & P1 & P2).
    exists a2, b2. repeat split; eapply pstar_step; eauto.
Qed.

Lemma pstar_if_inv c a b t : wn (TIf c a b) = true -> pstar (TIf c a b) t ->
  exists c' a' b', t = TIf c' a' b' /\ pstar c c' /\ pstar a a' /\ pstar b b'.
Proof.
  intros W H. apply clos_rt_rt1n in H. remember (TIf c a b) as u eqn:E. revert c a b E W.
  induction H as [|u v w Hs _ IH]; intros c a b -> W.
  - exists c, a, b. repeat split; apply rt_refl.
  - destruct (wn_pred _ _ Hs W) as [W' _].
    inversion Hs; subst; try discriminate; try (exfalso; cbn [wn is_boolc] in W; discriminate).
    destruct (IH _ _ _ eq_refl W') as (c2 & a2 & b2 & -> & P1 & P2 & P3).
    exists c2, a2, b2. repeat split; eapply pstar_step; eauto.
Qed.

(* ---------- injectivity of the head forms, up to conv0 ---------- *)
Lemma join_conv0 a b c : pstar a c -> pstar b c -> conv0 a b.
Proof. intros. apply joinable_conv0. exists c. split; assumption. Qed.

Lemma diff_former a b : hole_free a = true -> hole_free b = true -> wn a = true -> wn b = true ->
  former_of a <> former_of b -> ~ conv0 a b.
Proof.
  intros Ha Hb Wa Wb D C. destruct (church_rosser _ _ Ha Hb C) as (c & H1 & H2).
  destruct (wn_pstar _ _ H1 Wa) as [_ E1]. destruct (wn_pstar _ _ H2 Wb) as [_ E2]. congruence.
Qed.

Lemma app_inj f1 a1 f2 a2 : hole_free (TApp f1 a1) = true -> hole_free (TApp f2 a2) = true ->
  wn (TApp f1 a1) = true -> wn (TApp f2 a2) = true -> conv0 (TApp f1 a1) (TApp f2 a2) ->
  conv0 f1 f2 /\ conv0 a1 a2.
Proof.
  intros H1 H2 W1 W2 C. destruct (church_rosser _ _ H1 H2 C) as (c & P1 & P2).
  apply pstar_app_inv in P1 as (f & a & -> & Pf1 & Pa1); auto.
  apply pstar_app_inv in P2 as (f' & a' & E & Pf2 & Pa2); auto. injection E as <- <-.
  split; eapply join_conv0; eauto.
Qed.

Lemma neg_inj a1 a2 : hole_free a1 = true -> hole_free a2 = true ->
  wn (TNeg a1) = true -> wn (TNeg a2) = true -> conv0 (TNeg a1) (TNeg a2) -> conv0 a1 a2.
Proof.
  intros H1 H2 W1 W2 C. destruct (church_rosser (TNeg a1) (TNeg a2) H1 H2 C) as (c & P1 & P2).
  apply pstar_neg_inv in P1 as (a & -> & Pa1); auto.
  apply pstar_neg_inv in P2 as (a' & E & Pa2); auto. injection E as <-.
  eapply join_conv0; eauto.
Qed.

Lemma bin_inj o a1 b1 a2 b2 : hole_free (TBin o a1 b1) = true -> hole_free (TBin o a2 b2) = true ->
  wn (TBin o a1 b1) = true -> wn (TBin o a2 b2) = true -> conv0 (TBin o a1 b1) (TBin o a2 b2) ->
  conv0 a1 a2 /\ conv0 b1 b2.
Proof.
  intros H1 H2 W1 W2 C. destruct (church_rosser _ _ H1 H2 C) as (c & P1 & P2).
  apply pstar_bin_inv in P1 as (f & a & -> & Pf1 & Pa1); auto.
  apply pstar_bin_inv in P2 as (f' & a' & E & Pf2 & Pa2); auto. injection E as <- <-.
  split; eapply join_conv0; eauto.
Qed.

Lemma if_inj c1 a1 b1 c2 a2 b2 : hole_free (TIf c1 a1 b1) = true -> hole_free (TIf c2 a2 b2) = true ->
  wn (TIf c1 a1 b1) = true -> wn (TIf c2 a2 b2) = true -> conv0 (TIf c1 a1 b1) (TIf c2 a2 b2) ->
  conv0 c1 c2 /\ conv0 a1 a2 /\ conv0 b1 b2.
Proof.
  intros H1 H2 W1 W2 C. destruct (church_rosser _ _ H1 H2 C) as (c & P1 & P2).
  apply pstar_if_inv in P1 as (x & y & z & -> & Px1 & Py1 & Pz1); auto.
  apply pstar_if_inv in P2 as (x' & y' & z' & E & Px2 & Py2 & Pz2); auto. injection E as <- <- <-.
  repeat split; eapply join_conv0; eauto.
Qed.

Lemma and3_false x y : and3 x y = Some false -> x = Some false \/ (x = Some true /\ y tt = Some false).
Proof. unfold and3. destruct x as [[|]|]; try discriminate; auto. Qed.

Lemma binop_eqb_false o1 o2 : binop_eqb o1 o2 = false -> o1 <> o2.
Proof. intros H ->. destruct o2; discriminate. Qed.

Lemma former_bin_inj o1 o2 a1 b1 a2 b2 : former_of (TBin o1 a1 b1) = former_of (TBin o2 a2 b2) -> o1 = o2.
Proof. destruct o1, o2; cbn; congruence. Qed.

Ltac use_IHn IH f :=
  match goal with
  | K : convb f ?G0 ?x ?y = Some false, C : conv0 ?x ?y |- False => apply (IH G0 x y); auto using nodefs_bind
  end.

(* ---------- the negative answers ---------- *)
Theorem convb_false_not_conv0 : forall f G a b, nodefs G -> hole_free a = true -> hole_free b = true ->
  convb f G a b = Some false -> ~ conv0 a b.
Proof.
  induction f as [|f IH]; intros G a b N Ha Hb H C; [discriminate|].
  cbn [convb] in H.
  destruct (whnf f G a) as [a'|] eqn:Ea; [|discriminate].
  destruct (whnf f G b) as [b'|] eqn:Eb; [|discriminate].
  destruct (whnf_pstar _ _ _ _ N Ha Ea) as [Pa Fa]. destruct (whnf_pstar _ _ _ _ N Hb Eb) as [Pb Fb].
  pose proof (whnf_wn _ _ _ _ Ea) as Wa. pose proof (whnf_wn _ _ _ _ Eb) as Wb.
  assert (C' : conv0 a' b').
  { eapply c0_trans; [apply c0_sym, pstar_conv0; eassumption|].
    eapply c0_trans; [exact C | apply pstar_conv0; assumption]. }
  clear C Pa Pb Ea Eb Ha Hb a b.
  destruct (former_eq_dec (former_of a') (former_of b')) as [EF|NF];
    [|exact (diff_former _ _ Fa Fb Wa Wb NF C')].
  destruct a'; try discriminate Fa;
    destruct b'; try discriminate Fb; try discriminate EF; try discriminate H; try discriminate Wa;
    try (destruct o; discriminate EF).
  - (* lit *) injection H as H. apply Z.eqb_neq in H. apply conv0_lit_inj in C'. contradiction.
  - (* var *) injection H as H. apply Nat.eqb_neq in H. apply conv0_var_inj in C'. contradiction.
  - (* lam *) split_hf.
    apply conv0_lam_inj in C' as [Ei Cb]; auto. subst.
    rewrite eqb_reflx in H. use_IHn IH f.
  - (* pi *) split_hf.
    apply conv0_pi_inj in C' as (Ei & Cd & Cb); auto. subst.
    rewrite eqb_reflx in H. apply and3_false in H as [H|[_ H]]; cbv beta in *; use_IHn IH f.
  - (* app *)
    destruct (app_inj _ _ _ _ Fa Fb Wa Wb C') as [C1 C2]. split_hf.
    apply and3_false in H as [H|[_ H]]; cbv beta in *; use_IHn IH f.
  - (* neg *)
    cbn [hole_free] in Fa, Fb. pose proof (neg_inj _ _ Fa Fb Wa Wb C'). use_IHn IH f.
  - (* bin *)
    apply former_bin_inj in EF. subst o0.
    destruct (bin_inj _ _ _ _ _ Fa Fb Wa Wb C') as [C1 C2]. split_hf.
    assert (Eo : binop_eqb o o = true) by (destruct o; reflexivity). rewrite Eo in H.
    apply and3_false in H as [H|[_ H]]; cbv beta in *; use_IHn IH f.
  - (* if *)
    destruct (if_inj _ _ _ _ _ _ Fa Fb Wa Wb C') as (C1 & C2 & C3). split_hf.
    apply and3_false in H as [H|[_ H]]; cbv beta in *; [use_IHn IH f|].
    apply and3_false in H as [H|[_ H]]; cbv beta in *; use_IHn IH f.
Qed.

(* at the top level *)
Corollary convb_decides_conv0 f a b r : hole_free a = true -> hole_free b = true ->
  convb f [] a b = Some r -> (r = true <-> conv0 a b).
Proof.
  intros Ha Hb H. destruct r.
  - split; [intros _; exact (convb_true_conv0 f [] a b nodefs_nil Ha Hb H) | reflexivity].
  - split; [discriminate|]. intros C. exfalso. exact (convb_false_not_conv0 f [] a b nodefs_nil Ha Hb H C).
Qed.

(* two runs with different fuels never disagree *)
Corollary convb_fuel_coherent f1 f2 a b r1 r2 : hole_free a = true -> hole_free b = true ->
  convb f1 [] a b = Some r1 -> convb f2 [] a b = Some r2 -> r1 = r2.
Proof.
  intros Ha Hb H1 H2.
  pose proof (convb_decides_conv0 _ _ _ _ Ha Hb H1) as K1. pose proof (convb_decides_conv0 _ _ _ _ Ha Hb H2) as K2.
  destruct r1, r2; try reflexivity.
  - destruct K2 as [_ K2]. symmetry. apply K2. now apply K1.
  - destruct K1 as [_ K1]. apply K1. now apply K2.
Qed.

Example convb_ex :
  convb 20 [] (TLam false TInt (TBin OSum (TVar 0) (TLit 1))) (TLam false TBool (TBin OSum (TVar 0) (TLit 1))) = Some true /\
  convb 20 [] (TLam false TInt (TBin OSum (TVar 0) (TLit 1))) (TLam false TInt (TBin OSum (TVar 0) (TLit 2))) = Some false.
Proof. vm_compute. split; reflexivity. Qed.

Print Assumptions convb_true_conv0.
Print Assumptions convb_false_not_conv0.
Print Assumptions convb_decides_conv0.
Print Assumptions convb_fuel_coherent.
