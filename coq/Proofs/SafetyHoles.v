(* C01 / C04 for programs WITH inferred annotations: on the simply typed fragment (`simple`: annotations omitted or
   base types, no type used as a term) without definition groups, whenever neither instrumented event occurs
   (tcN answers), what the checker model accepts - completed by filling the cells left unsolved with any base
   type - evaluates to a value of the reported type or stops on a division by zero.  Composition of
   TcHolesOk.tcN_sound_simple with type safety of the typing rules (ConvConsistent.type_safety_has_type). *)
From Coq Require Import List ZArith Lia Bool Arith.
Import ListNotations.
Require Import Gram.Model.Term Gram.Model.DeBruijn Gram.Model.Eval Gram.Model.ModelB Gram.Spec.Typing.
Require Import Gram.Proofs.ConfluenceEval Gram.Proofs.ConfluenceTyping Gram.Proofs.ConvConsistent.
Require Gram.Proofs.TcSoundHF Gram.Proofs.AcyclicProofs Gram.Proofs.UnifyConsistent Gram.Proofs.TcSoundHoles Gram.Proofs.TcHolesOk.

Lemma bt_no_let : forall t, TcHolesOk.bt t = true -> no_let t = true.
Proof.
  induction t; cbn [TcHolesOk.bt no_let]; intros H; try discriminate; try reflexivity.
  apply andb_prop in H as [A B]. now rewrite IHt1, IHt2.
Qed.

Lemma zk_no_let s : TcHolesOk.J s ->
  (forall t u, TcSoundHF.zk s t u -> no_let t = true -> no_let u = true) /\
  (forall l lu, TcSoundHF.zkds s l lu -> True).
Proof.
  intros Js. apply (TcSoundHF.zk_zkds_ind s); intros; cbn [no_let] in *; auto;
    repeat match goal with H : _ && _ = true |- _ => apply andb_prop in H as [? ?] end;
    try discriminate;
    repeat (apply andb_true_intro; split); auto.
  (* hole: the solution is a base-type term *)
  apply no_let_ushift. match goal with IH : no_let ?sol = true -> _, G : ModelB.sget s _ = Some ?sol |- _ => apply IH, bt_no_let, (Js _ _ G) end.
Qed.

Theorem accepted_programs_with_inferred_annotations_are_safe : forall H f s t r v,
  TcHolesOk.simple t = true -> no_let t = true ->
  TcHolesOk.J s -> TcSoundHoles.store_okM H s -> AcyclicProofs.acyclic s -> TcSoundHoles.wsM H 0 t ->
  TcSoundHoles.tcN f s [] [] t = Some r -> b_errs r = [] -> TcSoundHoles.base_ty v = true ->
  exists eu Tu,
    TcSoundHF.zk (UnifyConsistent.fill v (b_st r)) t eu /\ TcSoundHF.zk (UnifyConsistent.fill v (b_st r)) (b_ty r) Tu /\
    has_type [] eu Tu /\
    forall g w, evaluate g eu = Some w -> has_type [] w Tu /\ (is_value w = true \/ div_stuck w).
Proof.
  intros H f s t r v Hs Hn Js Sk A W E Ee Hv.
  destruct (TcHolesOk.tcN_sound_simple H f s t r v Hs Js Sk A W E Ee Hv) as (_ & _ & eu & Tu & Z1 & Z2 & HT & _).
  exists eu, Tu. repeat split; auto.
  - destruct (TcHolesOk.tcN_simple f s [] [] t r Js (Forall_nil _) Hs E) as [Jr _].
    pose proof (TcHolesOk.J_fill v _ Jr Hv) as Jf.
    pose proof (proj1 (zk_no_let _ Jf) _ _ Z1 Hn) as Nu.
    exact (proj1 (type_safety_has_type g eu Tu w (TcSoundHF.zk_hf _ _ _ Z1) Nu (TcSoundHF.zk_hf _ _ _ Z2) HT H0)).
  - destruct (TcHolesOk.tcN_simple f s [] [] t r Js (Forall_nil _) Hs E) as [Jr _].
    pose proof (TcHolesOk.J_fill v _ Jr Hv) as Jf.
    pose proof (proj1 (zk_no_let _ Jf) _ _ Z1 Hn) as Nu.
    exact (proj2 (type_safety_has_type g eu Tu w (TcSoundHF.zk_hf _ _ _ Z1) Nu (TcSoundHF.zk_hf _ _ _ Z2) HT H0)).
Qed.

Print Assumptions accepted_programs_with_inferred_annotations_are_safe.
