(* Type safety of what the checker model accepts, on fully annotated group-free programs: soundness of the
   checker model (TcSoundHF: accepted without a diagnostic => has_type) composed with type safety of the
   declarative system (ConvConsistent: progress + preservation from confluence).  This is properties C01
   (accepted programs never get stuck, division by zero aside) and C04 (the value inhabits the reported
   type) as THEOREMS for the fragment on which neither D7 (groups), D9, D14 nor D19 (holes) can occur. *)
From Coq Require Import List ZArith Lia Bool Arith.
Import ListNotations.
Require Import Gram.Model.Term Gram.Model.DeBruijn Gram.Model.Eval Gram.Model.ModelB Gram.Spec.Typing.
Require Import Gram.Proofs.ConfluenceEval Gram.Proofs.ConfluenceTyping Gram.Proofs.ConvConsistent.
Require Gram.Proofs.TcSoundHF.

Theorem accepted_programs_are_safe : forall f t r g v,
  hole_free t = true -> no_let t = true ->
  tcB f [] [] [] t = Some r -> b_errs r = [] ->
  evaluate g t = Some v ->
  exists T, TcSoundHF.zk (b_st r) (b_ty r) T /\ has_type [] v T /\ (is_value v = true \/ div_stuck v).
Proof.
  intros f t r g v Hf Hn H He Ev.
  destruct (TcSoundHF.tcB_sound_hole_free f t r Hf H He) as (T & HT & Z1 & _).
  exists T. split; [exact Z1|].
  apply (type_safety_has_type g t T v Hf Hn (TcSoundHF.zk_hf _ _ _ Z1) HT Ev).
Qed.

(* a program of type int yields an integer literal (or stops on a division by zero) *)
Corollary accepted_int_programs_yield_literals : forall f t r g v,
  hole_free t = true -> no_let t = true ->
  tcB f [] [] [] t = Some r -> b_errs r = [] -> TcSoundHF.zk (b_st r) (b_ty r) TInt ->
  evaluate g t = Some v -> (exists z, v = TLit z) \/ div_stuck v.
Proof.
  intros f t r g v Hf Hn H He Z Ev.
  destruct (TcSoundHF.tcB_sound_hole_free f t r Hf H He) as (T & HT & Z1 & _).
  pose proof (TcSoundHF.zk_fun _ _ _ _ Z1 Z) as E. subst T. exact (eval_int_has_type g t v Hf Hn HT Ev).
Qed.

Print Assumptions accepted_programs_are_safe.
Print Assumptions accepted_int_programs_yield_literals.
