(* C01/C02: the definition-order guard. A corrected, executable order check on definition groups
   (order_ok, and the more liberal order_ok_lazy) guarantees that the reference interpreter never reads an
   empty cell, i.e. never returns RStuck FreeVariable, hence (interpreters_agree_G3) that the evaluator model
   never ends in a term stuck on a definition that is not yet available. The modelled guard
   (Model/ParserPost.v, check_definitions) is weaker: the recorded defect D7. *)
From Coq Require Import List ZArith Lia Bool Arith Relations.
Import ListNotations.
Require Import Gram.Model.Term Gram.Model.DeBruijn Gram.Model.Eval Gram.Model.ParserPost Gram.Spec.Cbv Gram.Spec.EvalEnv.
Require Import Gram.Proofs.DeBruijnLaws Gram.Proofs.CbvProofs Gram.Proofs.EvalEnvProofs Gram.Proofs.EvalEnvGroups.

(* ------------------------------------------------------------------------------------------- *)
(* Part 1. Exposed variables; the order certificate of a group.                                 *)
(* ------------------------------------------------------------------------------------------- *)

(* exposed t k c v: variable v + c may be read, or the closure it holds called, when t is evaluated and its
   value then applied to k arguments. A lambda is only entered when applied; an argument escapes entirely;
   a nested group is treated as a whole. Over-approximated by occurs. *)
Fixpoint exposed (t : term) (k : nat) (c v : nat) : bool :=
  match t with
  | THole _ _ | TType | TInt | TBool | TTrue | TFalse | TLit _ => false
  | TVar i => Nat.eqb i (v + c)
  | TLam _ _ b => match k with O => false | S k' => exposed b k' (S c) v end
  | TPi _ _ _ => false
  | TApp f a => exposed f (S k) c v || occurs a c v
  | TLet _ _ => occurs t c v
  | TNeg a => exposed a 0 c v
  | TBin _ a b => exposed a 0 c v || exposed b 0 c v
  | TIf c0 t1 e => exposed c0 0 c v || exposed t1 k c v || exposed e k c v
  end.

Lemma exposed_occurs : forall t k c v, exposed t k c v = true -> occurs t c v = true.
Proof.
  induction t; intros k c v H; cbn [exposed occurs] in *; try discriminate; auto.
  - destruct k; [discriminate|]. rewrite (IHt2 _ _ _ H). apply orb_true_r.
  - apply orb_prop in H as [H|H]; [rewrite (IHt1 _ _ _ H)|rewrite H, orb_true_r]; reflexivity.
  - eauto.
  - apply orb_prop in H as [H|H]; [rewrite (IHt1 _ _ _ H)|rewrite (IHt2 _ _ _ H), orb_true_r]; reflexivity.
  - apply orb_prop in H as [H|H]; [apply orb_prop in H as [H|H]|].
    + now rewrite (IHt1 _ _ _ H).
    + rewrite (IHt2 _ _ _ H), orb_true_r. reflexivity.
    + rewrite (IHt3 _ _ _ H), orb_true_r. reflexivity.
Qed.

Lemma exposed_add : forall t k c d v, exposed t k (c + d) v = exposed t k d (v + c).
Proof.
  induction t; intros k c d v; cbn [exposed]; try reflexivity.
  - f_equal. lia.
  - destruct k; auto. replace (S (c + d)) with (c + S d) by lia. apply IHt2.
  - now rewrite IHt1, occurs_add.
  - apply occurs_add.
  - apply IHt.
  - now rewrite IHt1, IHt2.
  - now rewrite IHt1, IHt2, IHt3.
Qed.

Lemma exposed_S t k j : exposed t k 0 (S j) = exposed t k 1 j.
Proof. pose proof (exposed_add t k 1 0 j) as E. cbn [Nat.add] in E. rewrite E. f_equal. lia. Qed.
Lemma occurs_S t j : occurs t 0 (S j) = occurs t 1 j.
Proof. pose proof (occurs_add t 1 0 j) as E. cbn [Nat.add] in E. rewrite E. f_equal. lia. Qed.

(* the level at which a term is used: applied to k arguments, or escaping (used arbitrarily) *)
Definition expo (t : term) (k : option nat) (c v : nat) : bool :=
  match k with Some k' => exposed t k' c v | None => occurs t c v end.

Lemma expo_occurs t k c v : expo t k c v = true -> occurs t c v = true.
Proof. destruct k; cbn; auto. apply exposed_occurs. Qed.

(* The order certificate for the non-value definition i (body d) of the group ds: a set S of members, all
   before i, closed under "occurs free in the definition of", containing every member exposed in d; a member
   that merely occurs in d (under a lambda that is not entered) is in S or is i itself. Members are numbered
   from the first definition; variable j of the group scope is member |ds| - 1 - j. *)
Definition cert (ds : list (term * term)) (i : nat) (d : term) (S : list nat) : Prop :=
  let n := length ds in
  (forall j, j < n -> exposed d 0 0 j = true -> In (n - 1 - j) S) /\
  (forall j, j < n -> occurs d 0 j = true -> n - 1 - j = i \/ In (n - 1 - j) S) /\
  (forall m am dm, In m S -> nth_error ds m = Some (am, dm) ->
     forall j, j < n -> occurs dm 0 j = true -> In (n - 1 - j) S) /\
  (forall m, In m S -> m < i).

Definition group_cert (ds : list (term * term)) : Prop :=
  forall i a d, nth_error ds i = Some (a, d) -> is_value d = false -> exists S, cert ds i d S.

(* ------------------------------------------------------------------------------------------- *)
(* Part 2. Cells that can be read safely: everything reachable through closures is filled.      *)
(* ------------------------------------------------------------------------------------------- *)

Definition filled (s : store) (c : nat) : Prop := exists v, nth_error s c = Some (Some v).

(* c' is a cell of the environment of the closure held by c, for a variable that occurs in its body *)
Definition edge (s : store) (c c' : nat) : Prop :=
  exists cenv im d b j, nth_error s c = Some (Some (VClos cenv im d b)) /\ occurs b 1 j = true /\ nth_error cenv j = Some c'.

Definition reach (s : store) := clos_refl_trans_1n nat (edge s).

(* every cell reachable from c is filled, except possibly the pending cell pc *)
Definition psafe (s : store) (pc : option nat) (c : nat) : Prop :=
  forall c', reach s c c' -> filled s c' \/ pc = Some c'.
Definition osafe (s : store) (c : nat) : Prop := psafe s None c.

Lemma osafe_filled s c c' : osafe s c -> reach s c c' -> filled s c'.
Proof. intros H R. destruct (H _ R) as [F|E]; [auto|discriminate]. Qed.

Lemma psafe_edge s pc c c1 : psafe s pc c -> edge s c c1 -> psafe s pc c1.
Proof. intros H E c' R. apply H. econstructor; eauto. Qed.

Lemma osafe_psafe s pc c : osafe s c -> psafe s pc c.
Proof. intros H c' R. left. eapply osafe_filled; eauto. Qed.

(* safety survives store growth, as long as the pending cell stays empty *)
Lemma psafe_mono s s' pc c : smono s s' -> (forall p, pc = Some p -> nth_error s' p = Some None) ->
  psafe s pc c -> psafe s' pc c.
Proof.
  intros M P H c' R.
  assert (K : reach s c c' /\ (filled s c' \/ pc = Some c')).
  { induction R as [x|x y z E R IH].
    - split; [constructor|]. apply H. constructor.
    - assert (Es : edge s x y).
      { destruct (H x (rt1n_refl _ _ _)) as [[v Fx]|Px].
        - destruct E as (cenv & im & d & b & j & Hc & Ho & Hn). rewrite (M _ _ Fx) in Hc. injection Hc as ->.
          exists cenv, im, d, b, j. auto.
        - destruct E as (cenv & im & d & b & j & Hc & _). rewrite (P _ Px) in Hc. discriminate. }
      destruct (IH (psafe_edge _ _ _ _ H Es)) as [R1 F1]. split; auto. econstructor; eauto. }
  destruct K as [_ [[v F]|E]]; [left; exists v; auto|right; auto].
Qed.

Lemma osafe_mono s s' c : smono s s' -> osafe s c -> osafe s' c.
Proof. intros M. apply psafe_mono; auto. discriminate. Qed.


(* the value-level versions: the cells of the variables that occur (are exposed) in a closure's body *)
Definition vps (s : store) (pc : option nat) (v : value) : Prop :=
  match v with
  | VClos cenv _ _ b => forall j c, occurs b 1 j = true -> nth_error cenv j = Some c -> psafe s pc c
  | _ => True
  end.

Definition ksafe (s : store) (k : option nat) (v : value) : Prop :=
  match k, v with
  | None, _ => vps s None v
  | Some (S k'), VClos cenv _ _ b => forall j c, exposed b k' 1 j = true -> nth_error cenv j = Some c -> osafe s c
  | _, _ => True
  end.

Lemma vps_none_all s pc k v : vps s None v -> vps s pc v /\ ksafe s k v.
Proof.
  intros H. split.
  - destruct v; cbn in *; auto. intros j c Ho Hn. apply osafe_psafe. eapply H; eauto.
  - destruct k as [[|k]|]; destruct v; cbn in *; auto.
    intros j c He Hn. apply exposed_occurs in He. eapply H; eauto.
Qed.

(* a cell holding a value all of whose variables' cells are safe is safe *)
Lemma osafe_cell s c v : nth_error s c = Some (Some v) -> vps s None v -> osafe s c.
Proof.
  intros Hc Hv c' R. left. inversion R as [|y z E R']; subst.
  - exists v; auto.
  - destruct E as (cenv & im & d & b & j & Hc' & Ho & Hn). rewrite Hc in Hc'. injection Hc' as Ev. subst v.
    cbn in Hv. eapply osafe_filled; [eapply Hv; eauto|exact R'].
Qed.

Lemma osafe_value s c v : osafe s c -> nth_error s c = Some (Some v) -> vps s None v.
Proof.
  intros H Hc. destruct v; cbn; auto. intros j c' Ho Hn. eapply psafe_edge; [exact H|].
  exists env, impl, dom, body, j. auto.
Qed.

(* tying the knot: the pending cell receives a value that is safe up to that very cell *)
Lemma osafe_knot s p v : nth_error s p = Some None -> vps s (Some p) v -> osafe (set_cell s p v) p.
Proof.
  intros Hp Hv.
  assert (Lp : p < length s) by (apply nth_error_Some; congruence).
  assert (K : forall c c', reach (set_cell s p v) c c' -> psafe s (Some p) c \/ c = p -> filled (set_cell s p v) c').
  { intros c c' R. induction R as [x|x y z E R IH]; intros Hx.
    - destruct (Nat.eq_dec x p) as [->|N].
      + exists v. now apply set_cell_nth_eq.
      + destruct Hx as [Hx|Hx]; [|contradiction]. destruct (Hx x (rt1n_refl _ _ _)) as [[w F]|[= E]]; [|congruence].
        exists w. now rewrite set_cell_nth_ne.
    - apply IH. left. destruct E as (cenv & im & d & b & j & Hc & Ho & Hn).
      destruct (Nat.eq_dec x p) as [->|N].
      + rewrite set_cell_nth_eq in Hc by auto. injection Hc as ->. cbn in Hv. eauto.
      + rewrite set_cell_nth_ne in Hc by auto. destruct Hx as [Hx|Hx]; [|contradiction].
        eapply psafe_edge; [exact Hx|]. exists cenv, im, d, b, j. auto. }
  intros c' R. left. eapply K; eauto.
Qed.

(* ------------------------------------------------------------------------------------------- *)
(* Part 3. The fundamental lemma, for any group check chk that yields order certificates.       *)
(* ------------------------------------------------------------------------------------------- *)

Section Order.
Variable chk : list (term * term) -> bool.
Hypothesis chk_sound : forall ds, chk ds = true -> group_cert ds.

(* every group that can be run (the positions check_definitions visits: not the annotations of groups) passes chk *)
Fixpoint ord (t : term) : bool :=
  match t with
  | THole _ _ | TType | TInt | TBool | TTrue | TFalse | TLit _ | TVar _ => true
  | TLam _ d b | TPi _ d b => ord d && ord b
  | TApp f a => ord f && ord a
  | TLet ds b => chk ds && forallb (fun p => let '(_, d) := p in ord d) ds && ord b
  | TNeg a => ord a
  | TBin _ a b => ord a && ord b
  | TIf c t e => ord c && ord t && ord e
  end.

Definition vwf (v : value) : Prop :=
  match v with VClos cenv _ _ b => bnd (S (length cenv)) b = true /\ ord b = true | _ => True end.
Definition swf (s : store) : Prop := forall c v, nth_error s c = Some (Some v) -> vwf v.

Lemma swf_app s v : swf s -> vwf v -> swf (s ++ [Some v]).
Proof.
  intros H Hv c w Hc. destruct (Nat.lt_ge_cases c (length s)).
  - rewrite nth_error_app1 in Hc by auto. eauto.
  - rewrite nth_error_app2 in Hc by auto. destruct (c - length s) as [|[|q]]; cbn in Hc; try discriminate. now injection Hc as <-.
Qed.

Lemma swf_repeat s n : swf s -> swf (s ++ repeat None n).
Proof.
  intros H c w Hc. destruct (Nat.lt_ge_cases c (length s)).
  - rewrite nth_error_app1 in Hc by auto. eauto.
  - rewrite nth_error_app2 in Hc by auto. apply nth_error_In, repeat_spec in Hc. discriminate.
Qed.

Lemma swf_set s k v : swf s -> vwf v -> swf (set_cell s k v).
Proof.
  intros H Hv c w Hc. destruct (Nat.eq_dec c k) as [->|N].
  - destruct (Nat.lt_ge_cases k (length s)).
    + rewrite set_cell_nth_eq in Hc by auto. now injection Hc as <-.
    + assert (nth_error (set_cell s k v) k = None) by (apply nth_error_None; now rewrite set_cell_length). congruence.
  - rewrite set_cell_nth_ne in Hc by auto. eauto.
Qed.

Definition ksucc (k : option nat) : option nat := match k with Some k' => Some (S k') | None => None end.

Definition fl_at (f : nat) : Prop := forall s env t k pc s' r,
  eval_env f s env t = (s', r) -> swf s -> bnd (length env) t = true -> ord t = true ->
  (forall j c, occurs t 0 j = true -> nth_error env j = Some c -> psafe s pc c) ->
  (forall j c, expo t k 0 j = true -> nth_error env j = Some c -> osafe s c) ->
  (forall p, pc = Some p -> nth_error s p = Some None) ->
  ext s s' /\ swf s' /\ r <> RStuck FreeVariable /\
  (forall v, r = ROk v -> vwf v /\ vps s' pc v /\ ksafe s' k v).

Definition fl_goal (s s' : store) (r : result) (k pc : option nat) : Prop :=
  ext s s' /\ swf s' /\ r <> RStuck FreeVariable /\
  (forall v, r = ROk v -> vwf v /\ vps s' pc v /\ ksafe s' k v).

Lemma fl_goal_plain s r k pc : swf s -> r <> RStuck FreeVariable ->
  (forall v, r = ROk v -> vwf v /\ vps s pc v /\ ksafe s k v) -> fl_goal s s r k pc.
Proof. intros. split; [apply ext_refl|]. auto. Qed.

Lemma pend_ext1 (s s' : store) (pc : option nat) : ext s s' -> (forall p, pc = Some p -> nth_error s p = Some None) ->
  forall p, pc = Some p -> nth_error s' p = Some None.
Proof.
  intros [x ->] H p E. rewrite nth_error_app1; auto. apply nth_error_Some. rewrite (H _ E). discriminate.
Qed.

Lemma prim_not_free o x y : prim o x y <> RStuck FreeVariable.
Proof. destruct o; cbn; try discriminate; destruct (y =? 0)%Z; discriminate. Qed.

Lemma prim_value_safe o x y v s k pc : prim o x y = ROk v -> vwf v /\ vps s pc v /\ ksafe s k v.
Proof.
  intros H. assert (G : match v with VClos _ _ _ _ => False | _ => True end).
  { destruct o; cbn in H; try (injection H as <-; try exact I;
      match goal with |- context [if ?c then _ else _] => destruct c end; exact I).
    destruct (y =? 0)%Z; [discriminate|]. now injection H as <-. }
  destruct v; try contradiction; repeat split; destruct k as [[|k]|]; cbn; auto.
Qed.

Lemma nth_rev_seq base : forall n j, j < n -> nth_error (rev (seq base n)) j = Some (base + (n - 1 - j)).
Proof.
  induction n as [|n IH]; intros j L; [lia|]. rewrite seq_S, rev_app_distr. cbn [rev app].
  destruct j as [|j]; cbn [nth_error].
  - f_equal. lia.
  - rewrite IH by lia. f_equal. lia.
Qed.

Lemma nth_group_env_lt base n env j : j < n -> nth_error (group_env base n env) j = Some (base + (n - 1 - j)).
Proof.
  intros L. unfold group_env. rewrite nth_error_app1 by (now rewrite rev_length, seq_length).
  now apply nth_rev_seq.
Qed.

Lemma nth_group_env_ge base n env j : n <= j -> nth_error (group_env base n env) j = nth_error env (j - n).
Proof.
  intros L. unfold group_env. rewrite nth_error_app2 by (now rewrite rev_length, seq_length).
  now rewrite rev_length, seq_length.
Qed.

Lemma occurs_let_def ds b a d j : In (a, d) ds -> occurs d 0 (length ds + j) = true -> occurs (TLet ds b) 0 j = true.
Proof.
  intros Hin Ho. cbn [occurs]. apply orb_true_iff. left. apply existsb_exists. exists (a, d). split; auto.
  rewrite Nat.add_0_r. rewrite (occurs_at0 d (length ds) j). rewrite Ho. apply orb_true_r.
Qed.

Lemma occurs_let_body ds b j : occurs b 0 (length ds + j) = true -> occurs (TLet ds b) 0 j = true.
Proof.
  intros Ho. cbn [occurs]. apply orb_true_iff. right. rewrite Nat.add_0_r. now rewrite (occurs_at0 b (length ds) j).
Qed.

(* the state of a group while its definitions are evaluated: members before i are done *)
Record ginv (ds : list (term * term)) (b : term) (env : list nat) (base : nat) (s : store) (i : nat) : Prop := {
  gi_wf : swf s;
  gi_out : forall j c, occurs (TLet ds b) 0 j = true -> nth_error env j = Some c -> osafe s c;
  gi_comp : forall m am dm, m < i -> nth_error ds m = Some (am, dm) -> is_value dm = false -> osafe s (base + m);
  gi_val : forall m am dm, m < i -> nth_error ds m = Some (am, dm) -> is_value dm = true ->
             nth_error s (base + m) = Some (Some (val_of (group_env base (length ds) env) dm));
  gi_pend : forall m, i <= m -> m < length ds -> nth_error s (base + m) = Some None
}.

(* a set of done members closed under "occurs in the definition of" is safe to read and to call *)
Lemma closed_set_safe ds b env base s i (S : list nat) : ginv ds b env base s i ->
  (forall m am dm, In m S -> nth_error ds m = Some (am, dm) ->
     forall j, j < length ds -> occurs dm 0 j = true -> In (length ds - 1 - j) S) ->
  (forall m, In m S -> m < i) -> i <= length ds ->
  forall m, In m S -> osafe s (base + m).
Proof.
  intros GI Hcl Hlt Hi.
  assert (K : forall c c', reach s c c' -> (exists m, c = base + m /\ In m S) -> filled s c').
  { intros c c' R. induction R as [x|x y z E R IH]; intros (m & -> & Hm).
    - pose proof (Hlt _ Hm) as Lm.
      destruct (nth_error ds m) as [[am dm]|] eqn:En; [|apply nth_error_None in En; lia].
      destruct (is_value dm) eqn:V.
      + eexists. eapply gi_val; eauto.
      + eapply osafe_filled; [eapply gi_comp; eauto|constructor].
    - pose proof (Hlt _ Hm) as Lm.
      destruct (nth_error ds m) as [[am dm]|] eqn:En; [|apply nth_error_None in En; lia].
      destruct (is_value dm) eqn:V.
      + destruct E as (cenv & im & d0 & b0 & j & Hc & Ho & Hn).
        rewrite (gi_val _ _ _ _ _ _ GI m am dm Lm En V) in Hc. injection Hc as Hc.
        destruct dm; cbn in V; try discriminate; cbn [val_of] in Hc; try discriminate.
        injection Hc as <- <- <- <-.
        assert (Od : occurs (TLam impl dm1 dm2) 0 j = true) by (cbn [occurs]; rewrite Ho; apply orb_true_r).
        destruct (Nat.lt_ge_cases j (length ds)) as [Lj|Lj].
        * rewrite nth_group_env_lt in Hn by auto. injection Hn as <-.
          apply IH. eexists; split; [reflexivity|]. eapply Hcl; eauto.
        * rewrite nth_group_env_ge in Hn by auto.
          eapply osafe_filled; [|exact R]. eapply (gi_out _ _ _ _ _ _ GI (j - length ds)); eauto.
          eapply occurs_let_def; [eapply nth_error_In; eauto|].
          replace (length ds + (j - length ds)) with j by lia. exact Od.
      + eapply osafe_filled; [eapply gi_comp; eauto|]. econstructor; eauto. }
  intros m Hm c' R. left. eapply K; eauto.
Qed.

Lemma psafe_self_empty s p : nth_error s p = Some None -> psafe s (Some p) p.
Proof.
  intros Hp c' R. inversion R as [|y z E R']; subst; [right; reflexivity|].
  destruct E as (cenv & im & d & b & j & Hc & _). congruence.
Qed.

Lemma val_of_vwf env d : is_value d = true -> bnd (length env) d = true -> ord d = true -> vwf (val_of env d).
Proof.
  intros V B O. destruct d; cbn in V; try discriminate; cbn [val_of vwf]; auto.
  cbn [bnd ord] in *. apply andb_prop in B as [_ B]. apply andb_prop in O as [_ O]. auto.
Qed.

Lemma group_env_length base n env : length (group_env base n env) = n + length env.
Proof. unfold group_env. now rewrite app_length, rev_length, seq_length. Qed.

Section Loop.
Variable f : nat.
Hypothesis IHf : fl_at f.
Variables (ds : list (term * term)) (b : term) (env : list nat) (s0 : store).
Let n := length ds.
Let base := length s0.
Let env' := group_env base n env.
Hypothesis Hcert : group_cert ds.
Hypothesis Hdefs : forall a d, In (a, d) ds -> bnd (n + length env) d = true /\ ord d = true.

Lemma group_loop : forall l pre s s1 o, ds = pre ++ l ->
  defs_of (fun s d => eval_env f s env' d) s (base + length pre) l = (s1, o) ->
  ext s0 s -> ginv ds b env base s (length pre) ->
  ext s0 s1 /\ swf s1 /\ o <> Some (RStuck FreeVariable) /\ (forall v, o <> Some (ROk v)) /\
  (o = None -> ginv ds b env base s1 n).
Proof.
  induction l as [|[a d] l IHl]; intros pre s s1 o Eds H X0 GI; cbn [defs_of] in H.
  - injection H as <- <-. rewrite app_nil_r in Eds. subst pre. fold n in GI.
    split; [auto|split; [apply GI|split; [discriminate|split; [discriminate|auto]]]].
  - set (i := length pre) in *.
    assert (Hi : nth_error ds i = Some (a, d)) by (rewrite Eds, nth_error_app2, Nat.sub_diag by lia; reflexivity).
    assert (Li : i < n) by (apply nth_error_Some; fold n; unfold n; congruence).
    destruct (Hdefs a d (nth_error_In _ _ Hi)) as [Bd Od].
    assert (Eds' : ds = (pre ++ [(a, d)]) ++ l) by (now rewrite <- app_assoc).
    assert (Lp' : length (pre ++ [(a, d)]) = S i) by (rewrite app_length; cbn; lia).
    assert (Pi : nth_error s (base + i) = Some None) by (apply (gi_pend _ _ _ _ _ _ GI); auto).
    assert (Lk : length s0 <= base + i) by (unfold base; lia).
    destruct (is_value d) eqn:V.
    + (* a value definition *)
      destruct f as [|f'].
      { cbn in H. injection H as <- <-. split; [auto|split; [apply GI|split; [discriminate|split; [discriminate|discriminate]]]]. }
      rewrite (eval_value f' _ _ _ V) in H.
      set (v := val_of env' d) in *. set (s3 := set_cell s (base + i) v) in *.
      assert (Wv : vwf v) by (apply val_of_vwf; auto; unfold env'; now rewrite group_env_length).
      assert (M : smono s s3) by (apply set_cell_smono; auto).
      assert (GI3 : ginv ds b env base s3 (S i)).
      { constructor.
        - apply swf_set; [apply GI|auto].
        - intros j c Ho Hn. eapply osafe_mono; [exact M|]. eapply (gi_out _ _ _ _ _ _ GI); eauto.
        - intros m am dm Lm Hm Vm. assert (m <> i) by (intros ->; rewrite Hi in Hm; injection Hm as <- <-; congruence).
          eapply osafe_mono; [exact M|]. eapply (gi_comp _ _ _ _ _ _ GI); eauto. lia.
        - intros m am dm Lm Hm Vm. destruct (Nat.eq_dec m i) as [->|N].
          + rewrite Hi in Hm. injection Hm as <- <-. unfold s3. apply set_cell_nth_eq. apply nth_error_Some. congruence.
          + unfold s3. rewrite set_cell_nth_ne by lia. eapply (gi_val _ _ _ _ _ _ GI); eauto. lia.
        - intros m L1 L2. unfold s3. rewrite set_cell_nth_ne by lia. apply (gi_pend _ _ _ _ _ _ GI); auto. lia. }
      rewrite <- Lp' in GI3. rewrite <- Nat.add_succ_r, <- Lp' in H.
      eapply (IHl (pre ++ [(a, d)]) s3 s1 o Eds' H); auto. apply set_cell_ext; auto.
    + (* a computed definition *)
      destruct (Hcert i a d Hi V) as (S & Ca & Cb & Cc & Cd). fold n in Ca, Cb, Cc.
      destruct (eval_env f s env' d) as [s2 r] eqn:Ed.
      assert (SafeS : forall m, In m S -> osafe s (base + m)).
      { apply (closed_set_safe ds b env base s i S GI); auto. fold n. lia. }
      assert (OutS : forall j c, n <= j -> occurs d 0 j = true -> nth_error env' j = Some c -> osafe s c).
      { intros j c Lj Ho Hn. unfold env' in Hn. rewrite nth_group_env_ge in Hn by auto.
        eapply (gi_out _ _ _ _ _ _ GI (j - n)); eauto.
        eapply occurs_let_def; [eapply nth_error_In; eauto|]. fold n. now replace (n + (j - n)) with j by lia. }
      destruct (IHf s env' d (Some 0) (Some (base + i)) s2 r Ed (gi_wf _ _ _ _ _ _ GI)) as (X2 & W2 & Nr & Hv).
      { unfold env'. now rewrite group_env_length. }
      { exact Od. }
      { intros j c Ho Hn. destruct (Nat.lt_ge_cases j n) as [Lj|Lj].
        - unfold env' in Hn. rewrite nth_group_env_lt in Hn by auto. injection Hn as <-.
          destruct (Cb j Lj Ho) as [E|E].
          + rewrite E. now apply psafe_self_empty.
          + apply osafe_psafe. auto.
        - apply osafe_psafe. eauto. }
      { intros j c He Hn. cbn [expo] in He. destruct (Nat.lt_ge_cases j n) as [Lj|Lj].
        - unfold env' in Hn. rewrite nth_group_env_lt in Hn by auto. injection Hn as <-. auto.
        - apply exposed_occurs in He. eauto. }
      { intros p [= <-]. exact Pi. }
      assert (X02 : ext s0 s2) by (eapply ext_trans; eauto).
      destruct r as [v|k0|].
      2:{ injection H as <- <-. split; [auto|split; [auto|split; [congruence|split; [discriminate|discriminate]]]]. }
      2:{ injection H as <- <-. split; [auto|split; [auto|split; [discriminate|split; [discriminate|discriminate]]]]. }
      destruct (Hv v eq_refl) as (Wv & Pv & _).
      assert (Pi2 : nth_error s2 (base + i) = Some None).
      { destruct X2 as [x ->]. rewrite nth_error_app1; auto. apply nth_error_Some. congruence. }
      set (s3 := set_cell s2 (base + i) v) in *.
      assert (M2 : smono s s2) by (now apply ext_smono).
      assert (M : smono s2 s3) by (apply set_cell_smono; auto).
      assert (GI3 : ginv ds b env base s3 (Datatypes.S i)).
      { constructor.
        - apply swf_set; auto.
        - intros j c Ho Hn. eapply osafe_mono; [exact M|]. eapply osafe_mono; [exact M2|]. eapply (gi_out _ _ _ _ _ _ GI); eauto.
        - intros m am dm Lm Hm Vm. destruct (Nat.eq_dec m i) as [->|N].
          + unfold s3. apply osafe_knot; auto.
          + eapply osafe_mono; [exact M|]. eapply osafe_mono; [exact M2|]. eapply (gi_comp _ _ _ _ _ _ GI); eauto. lia.
        - intros m am dm Lm Hm Vm. assert (m <> i) by (intros ->; rewrite Hi in Hm; injection Hm as <- <-; congruence).
          apply M, M2. eapply (gi_val _ _ _ _ _ _ GI); eauto. lia.
        - intros m L1 L2. unfold s3. rewrite set_cell_nth_ne by lia.
          pose proof (gi_pend _ _ _ _ _ _ GI m ltac:(lia) L2) as Pm.
          destruct X2 as [x ->]. rewrite nth_error_app1; auto. apply nth_error_Some. congruence. }
      rewrite <- Lp' in GI3. rewrite <- Nat.add_succ_r, <- Lp' in H.
      eapply (IHl (pre ++ [(a, d)]) s3 s1 o Eds' H); auto. apply set_cell_ext; auto.
Qed.
End Loop.

Ltac andbs := repeat match goal with H : _ && _ = true |- _ => apply andb_prop in H; destruct H end.

Theorem fl : forall f, fl_at f.
Proof.
  induction f as [|f IH]; intros s env t k pc s' r H W B O Hocc Hexp Hpc.
  { cbn in H. injection H as <- <-. apply fl_goal_plain; auto; discriminate. }
  rewrite eval_env_unfold in H.
  destruct t; cbn [eval_body] in H; cbn [bnd ord] in B, O;
    try (injection H as <- <-; apply fl_goal_plain; auto; [discriminate|];
         intros v [= <-]; repeat split; destruct k as [[|k]|]; cbn; auto; fail).
  - (* var *)
    injection H as <- <-. apply Nat.ltb_lt in B.
    destruct (nth_error env i) as [c|] eqn:En; [|apply nth_error_None in En; lia].
    assert (Sc : osafe s c).
    { apply (Hexp i c); auto. destruct k; cbn [expo exposed occurs]; rewrite Nat.add_0_r; apply Nat.eqb_refl. }
    destruct (osafe_filled _ _ _ Sc (rt1n_refl _ _ _)) as [v Hv].
    unfold lookup. rewrite En, Hv. apply fl_goal_plain; auto; [discriminate|].
    intros v' [= <-]. split; [eapply W; eauto|]. apply vps_none_all. eapply osafe_value; eauto.
  - (* lam *)
    injection H as <- <-. andbs. apply fl_goal_plain; auto; [discriminate|].
    intros v [= <-]. split; [split; auto|]. split.
    + intros j c Ho Hn. apply (Hocc j c); auto. cbn [occurs]. rewrite Ho. apply orb_true_r.
    + destruct k as [[|k]|]; cbn [ksafe vps]; auto; intros j c He Hn; apply (Hexp j c); auto;
        cbn [expo exposed occurs]; rewrite ?He; auto using orb_true_r.
  - (* app *)
    andbs.
    destruct (eval_env f s env t1) as [s1 rg] eqn:Eg.
    destruct (IH _ _ _ (ksucc k) pc _ _ Eg W) as (X1 & W1 & N1 & V1); auto.
    { intros j c Ho Hn. apply (Hocc j c); auto. cbn [occurs]. now rewrite Ho. }
    { intros j c He Hn. apply (Hexp j c); auto. destruct k; cbn [ksucc expo exposed occurs] in *; now rewrite He. }
    destruct rg as [vg|k0|]; [|injection H as <- <-; split; [auto|split; [auto|split; [auto|discriminate]]]
                              |injection H as <- <-; split; [auto|split; [auto|split; [discriminate|discriminate]]]].
    destruct (V1 vg eq_refl) as (Wg & Pg & Kg).
    destruct (eval_env f s1 env t2) as [s2 ra] eqn:Ea.
    pose proof (ext_smono _ _ X1) as M1.
    destruct (IH _ _ _ None pc _ _ Ea W1) as (X2 & W2 & N2 & V2); auto.
    { intros j c Ho Hn. eapply psafe_mono; [exact M1|eapply pend_ext1; eauto|]. apply (Hocc j c); auto.
      cbn [occurs]. rewrite Ho. apply orb_true_r. }
    { intros j c Ho Hn. eapply osafe_mono; [exact M1|]. apply (Hexp j c); auto.
      destruct k; cbn [expo exposed occurs] in *; rewrite Ho; apply orb_true_r. }
    { eapply pend_ext1; eauto. }
    assert (X12 : ext s s2) by (eapply ext_trans; eauto).
    destruct ra as [va|k0|]; [|injection H as <- <-; split; [auto|split; [auto|split; [auto|discriminate]]]
                              |injection H as <- <-; split; [auto|split; [auto|split; [discriminate|discriminate]]]].
    destruct (V2 va eq_refl) as (Wa & _ & Ka). cbn [ksafe] in Ka.
    destruct vg as [z| | | | | |cenv im d body|cenv im d body];
      try (injection H as <- <-; split; [auto|split; [auto|split; [discriminate|discriminate]]]).
    pose proof (ext_smono _ _ X2) as M2.
    set (s3 := s2 ++ [Some va]) in *.
    assert (X3 : ext s2 s3) by apply ext_app. pose proof (ext_smono _ _ X3) as M3.
    assert (Hc3 : nth_error s3 (length s2) = Some (Some va)).
    { unfold s3. rewrite nth_error_app2, Nat.sub_diag by lia. reflexivity. }
    assert (Sc : osafe s3 (length s2)).
    { eapply osafe_cell; [exact Hc3|]. destruct va; cbn in *; auto. intros j c Ho Hn. eapply osafe_mono; [exact M3|]. eapply Ka; eauto. }
    assert (Hpc3 : forall p, pc = Some p -> nth_error s3 p = Some None).
    { eapply pend_ext1; [|exact Hpc]. eapply ext_trans; eauto. }
    destruct Wg as [Bb Ob].
    destruct (IH _ _ _ k pc _ _ H (swf_app _ _ W2 Wa)) as (X4 & W4 & N4 & V4); auto.
    { intros j c Ho Hn. destruct j as [|j]; cbn [nth_error] in Hn.
      - injection Hn as <-. now apply osafe_psafe.
      - rewrite occurs_S in Ho. eapply psafe_mono; [exact M3|auto|]. eapply psafe_mono; [exact M2|eapply pend_ext1; [exact X12|exact Hpc]|].
        cbn in Pg. eapply Pg; eauto. }
    { intros j c He Hn. destruct j as [|j]; cbn [nth_error] in Hn.
      - now injection Hn as <-.
      - eapply osafe_mono; [exact M3|]. eapply osafe_mono; [exact M2|].
        destruct k as [k|]; cbn [expo ksucc ksafe vps] in *.
        + rewrite exposed_S in He. eapply Kg; eauto.
        + rewrite occurs_S in He. eapply Kg; eauto. }
    split; [|split; [auto|split; auto]].
    eapply ext_trans; [exact X12|]. eapply ext_trans; eauto.
  - (* let *)
    cbv zeta in B. apply andb_prop in B as [Bds Bb]. apply andb_prop in O as [O1 Ob]. apply andb_prop in O1 as [Ochk Ods].
    change (cont (group_env (length s) (length defs) env) f (s ++ repeat None (length defs)) (length s) defs t = (s', r)) in H.
    unfold cont in H.
    set (n := length defs) in *. set (env' := group_env (length s) n env) in *.
    destruct (defs_of (fun s0 d => eval_env f s0 env' d) (s ++ repeat None n) (length s) defs) as [s1 o] eqn:Ed.
    assert (AllOut : forall j c, occurs (TLet defs t) 0 j = true -> nth_error env j = Some c -> osafe s c).
    { intros j c Ho Hn. apply (Hexp j c); auto. destruct k; cbn [expo exposed]; exact Ho. }
    assert (Hdefs : forall a d, In (a, d) defs -> bnd (n + length env) d = true /\ ord d = true).
    { intros a d Hin. rewrite forallb_forall in Bds, Ods.
      pose proof (Bds _ Hin) as Hb1. pose proof (Ods _ Hin) as Hb2.
      cbn in Hb1, Hb2. apply andb_prop in Hb1 as [_ Hb1]. auto. }
    assert (GI0 : ginv defs t env (length s) (s ++ repeat None n) (length (@nil (term * term)))).
    { constructor.
      - now apply swf_repeat.
      - intros j c Ho Hn. eapply osafe_mono; [apply smono_app|]. eauto.
      - intros m am dm Lm. cbn in Lm. lia.
      - intros m am dm Lm. cbn in Lm. lia.
      - intros m _ Lm. rewrite nth_error_app2 by lia. apply nth_error_repeat. fold n in Lm. lia. }
    assert (Ed' : defs_of (fun s0 d => eval_env f s0 env' d) (s ++ repeat None n) (length s + length (@nil (term * term))) defs = (s1, o)).
    { cbn [length]. now rewrite Nat.add_0_r. }
    destruct (group_loop f IH defs t env s (chk_sound _ Ochk) Hdefs defs [] _ s1 o eq_refl Ed' (ext_app _ _) GI0)
      as (X1 & W1 & No & Nok & GIn).
    destruct o as [r0|].
    + injection H as <- <-. split; [auto|split; [auto|split; [congruence|]]].
      intros v ->. exfalso. eapply Nok; eauto.
    + specialize (GIn eq_refl). fold n in GIn.
      destruct (IH _ _ _ None None _ _ H W1) as (X2 & W2 & N2 & V2); auto.
      { unfold env'. rewrite group_env_length. exact Bb. }
      { intros j c Ho Hn. apply osafe_psafe. destruct (Nat.lt_ge_cases j n) as [Lj|Lj].
        - unfold env' in Hn. rewrite nth_group_env_lt in Hn by auto. injection Hn as <-.
          apply (closed_set_safe defs t env (length s) s1 n (seq 0 n) GIn); auto.
          + intros m am dm _ _ j' Lj' _. apply in_seq. fold n. lia.
          + intros m Hm. apply in_seq in Hm. lia.
          + apply in_seq. lia.
        - unfold env' in Hn. rewrite nth_group_env_ge in Hn by auto.
          eapply (gi_out _ _ _ _ _ _ GIn (j - n)); eauto. apply occurs_let_body. fold n.
          now replace (n + (j - n)) with j by lia. }
      { intros j c Ho Hn. cbn [expo] in Ho. destruct (Nat.lt_ge_cases j n) as [Lj|Lj].
        - unfold env' in Hn. rewrite nth_group_env_lt in Hn by auto. injection Hn as <-.
          apply (closed_set_safe defs t env (length s) s1 n (seq 0 n) GIn); auto.
          + intros m am dm _ _ j' Lj' _. apply in_seq. fold n. lia.
          + intros m Hm. apply in_seq in Hm. lia.
          + apply in_seq. lia.
        - unfold env' in Hn. rewrite nth_group_env_ge in Hn by auto.
          eapply (gi_out _ _ _ _ _ _ GIn (j - n)); eauto. apply occurs_let_body. fold n.
          now replace (n + (j - n)) with j by lia. }
      { discriminate. }
      split; [eapply ext_trans; eauto|]. split; [auto|]. split; [auto|].
      intros v Hv. destruct (V2 v Hv) as (Wv & _ & Kv). split; auto. now apply vps_none_all.
  - (* neg *)
    destruct (eval_env f s env t) as [s1 ra] eqn:Ea.
    destruct (IH _ _ _ (Some 0) pc _ _ Ea W) as (X1 & W1 & N1 & V1); auto.
    { intros j c He Hn. apply (Hexp j c); auto. destruct k; cbn [expo exposed occurs] in *; auto. now apply exposed_occurs in He. }
    destruct ra as [va|k0|]; [|injection H as <- <-; split; [auto|split; [auto|split; [auto|discriminate]]]
                              |injection H as <- <-; split; [auto|split; [auto|split; [discriminate|discriminate]]]].
    destruct va; injection H as <- <-; (split; [auto|split; [auto|split; [discriminate|]]]); try discriminate.
    intros v [= <-]. repeat split; destruct k as [[|k]|]; cbn; auto.
  - (* bin *)
    andbs.
    destruct (eval_env f s env t1) as [s1 ra] eqn:Ea.
    destruct (IH _ _ _ (Some 0) pc _ _ Ea W) as (X1 & W1 & N1 & V1); auto.
    { intros j c Ho Hn. apply (Hocc j c); auto. cbn [occurs]. now rewrite Ho. }
    { intros j c He Hn. apply (Hexp j c); auto. destruct k; cbn [expo exposed occurs] in *; [now rewrite He|].
      apply exposed_occurs in He. now rewrite He. }
    destruct ra as [va|k0|]; [|injection H as <- <-; split; [auto|split; [auto|split; [auto|discriminate]]]
                              |injection H as <- <-; split; [auto|split; [auto|split; [discriminate|discriminate]]]].
    pose proof (ext_smono _ _ X1) as M1.
    destruct (eval_env f s1 env t2) as [s2 rb] eqn:Eb.
    destruct (IH _ _ _ (Some 0) pc _ _ Eb W1) as (X2 & W2 & N2 & V2); auto.
    { intros j c Ho Hn. eapply psafe_mono; [exact M1|eapply pend_ext1; eauto|]. apply (Hocc j c); auto.
      cbn [occurs]. rewrite Ho. apply orb_true_r. }
    { intros j c He Hn. eapply osafe_mono; [exact M1|]. apply (Hexp j c); auto.
      destruct k; cbn [expo exposed occurs] in *; [rewrite He; apply orb_true_r|].
      apply exposed_occurs in He. rewrite He. apply orb_true_r. }
    { eapply pend_ext1; eauto. }
    assert (X12 : ext s s2) by (eapply ext_trans; eauto).
    destruct rb as [vb|k0|]; [|injection H as <- <-; split; [auto|split; [auto|split; [auto|discriminate]]]
                              |injection H as <- <-; split; [auto|split; [auto|split; [discriminate|discriminate]]]].
    destruct va; try (injection H as <- <-; split; [auto|split; [auto|split; [discriminate|discriminate]]]).
    destruct vb; try (injection H as <- <-; split; [auto|split; [auto|split; [discriminate|discriminate]]]).
    injection H as <- <-. split; [auto|split; [auto|split; [apply prim_not_free|]]].
    intros v Hp. eapply prim_value_safe; eauto.
  - (* if *)
    andbs.
    destruct (eval_env f s env t1) as [s1 rc] eqn:Ec.
    destruct (IH _ _ _ (Some 0) pc _ _ Ec W) as (X1 & W1 & N1 & V1); auto.
    { intros j c Ho Hn. apply (Hocc j c); auto. cbn [occurs]. now rewrite Ho. }
    { intros j c He Hn. apply (Hexp j c); auto. destruct k; cbn [expo exposed occurs] in *; [now rewrite He|].
      apply exposed_occurs in He. now rewrite He. }
    destruct rc as [vc|k0|]; [|injection H as <- <-; split; [auto|split; [auto|split; [auto|discriminate]]]
                              |injection H as <- <-; split; [auto|split; [auto|split; [discriminate|discriminate]]]].
    pose proof (ext_smono _ _ X1) as M1.
    destruct vc; try (injection H as <- <-; split; [auto|split; [auto|split; [discriminate|discriminate]]]).
    + destruct (IH _ _ _ k pc _ _ H W1) as (X2 & W2 & N2 & V2); auto.
      { intros j c Ho Hn. eapply psafe_mono; [exact M1|eapply pend_ext1; eauto|]. apply (Hocc j c); auto.
        cbn [occurs]. rewrite Ho. rewrite orb_true_r. reflexivity. }
      { intros j c He Hn. eapply osafe_mono; [exact M1|]. apply (Hexp j c); auto.
        destruct k; cbn [expo exposed occurs] in *; rewrite He; rewrite orb_true_r; reflexivity. }
      { eapply pend_ext1; eauto. }
      split; [eapply ext_trans; eauto|auto].
    + destruct (IH _ _ _ k pc _ _ H W1) as (X2 & W2 & N2 & V2); auto.
      { intros j c Ho Hn. eapply psafe_mono; [exact M1|eapply pend_ext1; eauto|]. apply (Hocc j c); auto.
        cbn [occurs]. rewrite Ho. apply orb_true_r. }
      { intros j c He Hn. eapply osafe_mono; [exact M1|]. apply (Hexp j c); auto.
        destruct k; cbn [expo exposed occurs] in *; rewrite He; apply orb_true_r. }
      { eapply pend_ext1; eauto. }
      split; [eapply ext_trans; eauto|auto].
Qed.

Theorem ord_run_env_no_empty_cell t : bnd 0 t = true -> ord t = true -> forall f, run_env f t <> RStuck FreeVariable.
Proof.
  intros B O f. unfold run_env. destruct (eval_env f [] [] t) as [s' r] eqn:E. cbn [snd].
  destruct (fl f [] [] t None None s' r E) as (_ & _ & N & _); auto.
  - intros c v Hc. destruct c; discriminate.
  - intros j c _ Hn. destruct j; discriminate.
  - intros j c _ Hn. destruct j; discriminate.
  - discriminate.
Qed.

End Order.

(* ------------------------------------------------------------------------------------------- *)
(* Part 4. Two executable group checks.                                                         *)
(* ------------------------------------------------------------------------------------------- *)

Definition memb (x : nat) (l : list nat) : bool := existsb (Nat.eqb x) l.
Lemma memb_In x l : memb x l = true <-> In x l.
Proof.
  unfold memb. rewrite existsb_exists. split.
  - intros (y & Hy & E). apply Nat.eqb_eq in E. now subst.
  - intros H. exists x. split; auto. apply Nat.eqb_refl.
Qed.

(* members whose variable satisfies p in d *)
Definition members_of (n : nat) (p : nat -> bool) : list nat := map (fun j => n - 1 - j) (filter p (seq 0 n)).

Lemma members_of_In n p j : j < n -> p j = true -> In (n - 1 - j) (members_of n p).
Proof. intros L H. unfold members_of. apply in_map. apply filter_In. split; auto. apply in_seq. lia. Qed.

Definition succs (ds : list (term * term)) (m : nat) : list nat :=
  match nth_error ds m with
  | Some (_, dm) => members_of (length ds) (fun j => occurs dm 0 j)
  | None => []
  end.

Fixpoint close_iter (ds : list (term * term)) (fuel : nat) (S : list nat) : list nat :=
  match fuel with
  | O => S
  | Datatypes.S f => close_iter ds f (nodup Nat.eq_dec (S ++ flat_map (succs ds) S))
  end.

Definition closedb (ds : list (term * term)) (S : list nat) : bool :=
  forallb (fun m => forallb (fun m' => memb m' S) (succs ds m)) S.

(* the check for the non-value definition i with body d: the set S computed from the given roots must contain
   the exposed members, be closed, lie before i, and contain every member occurring in d except possibly i *)
Definition check_def (lazy : bool) (ds : list (term * term)) (i : nat) (d : term) : bool :=
  let n := length ds in
  let roots := members_of n (fun j => if lazy then exposed d 0 0 j else occurs d 0 j) in
  let S := close_iter ds n roots in
  forallb (fun m => memb m S) (members_of n (fun j => exposed d 0 0 j)) &&
  forallb (fun m => (lazy && Nat.eqb m i) || memb m S) (members_of n (fun j => occurs d 0 j)) &&
  closedb ds S &&
  forallb (fun m => Nat.ltb m i) S.

Definition check_group (lazy : bool) (ds : list (term * term)) : bool :=
  forallb (fun i => match nth_error ds i with
                    | Some (_, d) => is_value d || check_def lazy ds i d
                    | None => true
                    end) (seq 0 (length ds)).

Lemma check_def_cert lazy ds i d : check_def lazy ds i d = true ->
  exists S, cert ds i d S /\ (lazy = false -> forall j, j < length ds -> occurs d 0 j = true -> In (length ds - 1 - j) S).
Proof.
  unfold check_def. cbv zeta. set (n := length ds).
  set (S := close_iter ds n (members_of n (fun j => if lazy then exposed d 0 0 j else occurs d 0 j))).
  intros H. apply andb_prop in H as [H Hd]. apply andb_prop in H as [H Hc]. apply andb_prop in H as [Ha Hb].
  rewrite forallb_forall in Ha, Hb, Hd. unfold closedb in Hc. rewrite forallb_forall in Hc.
  exists S. split; [repeat split|].
  - intros j Lj He. apply memb_In, Ha. now apply members_of_In.
  - intros j Lj Ho. fold n. specialize (Hb _ (members_of_In n _ j Lj Ho)).
    apply orb_prop in Hb as [Hb|Hb]; [left|right; now apply memb_In].
    apply andb_prop in Hb as [_ Hb]. now apply Nat.eqb_eq in Hb.
  - intros m am dm Hm Hn j Lj Ho. fold n. specialize (Hc _ Hm). rewrite forallb_forall in Hc.
    apply memb_In, Hc. unfold succs. rewrite Hn. now apply members_of_In.
  - intros m Hm. apply Nat.ltb_lt. auto.
  - intros -> j Lj Ho. fold n. specialize (Hb _ (members_of_In n _ j Lj Ho)). cbn in Hb. now apply memb_In.
Qed.

Lemma check_group_cert lazy ds : check_group lazy ds = true -> group_cert ds.
Proof.
  intros H i a d Hi V. unfold check_group in H. rewrite forallb_forall in H.
  assert (Li : i < length ds) by (apply nth_error_Some; congruence).
  specialize (H i ltac:(apply in_seq; lia)). rewrite Hi, V in H. cbn in H.
  destruct (check_def_cert _ _ _ _ H) as (S & C & _). eauto.
Qed.

(* the corrected check, strict (every member occurring in a computed definition counts) and lazy (only the
   exposed ones count; occurrences under a lambda that is not entered may also refer to the definition itself) *)
Definition order_ok (t : term) : bool := ord (check_group false) t.
Definition order_ok_lazy (t : term) : bool := ord (check_group true) t.

(* (2) with a corrected check the reference interpreter never reads an empty cell *)
Theorem order_ok_no_empty_cell t : bnd 0 t = true -> order_ok t = true ->
  forall f, run_env f t <> RStuck FreeVariable.
Proof. intros B O. exact (ord_run_env_no_empty_cell _ (check_group_cert false) t B O). Qed.

Theorem order_ok_lazy_no_empty_cell t : bnd 0 t = true -> order_ok_lazy t = true ->
  forall f, run_env f t <> RStuck FreeVariable.
Proof. intros B O. exact (ord_run_env_no_empty_cell _ (check_group_cert true) t B O). Qed.

Lemma value_stuck_reason t : is_value t = true -> stuck_reason t = None.
Proof. destruct t; cbn; try discriminate; reflexivity. Qed.

(* ... hence the evaluator model never ends in a term stuck on a definition that is not yet available *)
Theorem order_ok_lazy_evaluate t : bnd 0 t = true -> hole_free t = true -> order_ok_lazy t = true ->
  forall f t', evaluate f t = Some t' -> stuck_reason t' <> Some FreeVariable.
Proof.
  intros B F O f t' Ev Sr.
  destruct (is_value t') eqn:V; [rewrite (value_stuck_reason _ V) in Sr; discriminate|].
  assert (Hok : okt' t) by (split; auto).
  destruct (proj2 (interpreters_agree_G3_stuck t FreeVariable Hok)) as [f' R]; [eauto|].
  exact (order_ok_lazy_no_empty_cell t B O f' R).
Qed.

Theorem order_ok_evaluate t : bnd 0 t = true -> hole_free t = true -> order_ok t = true ->
  forall f t', evaluate f t = Some t' -> stuck_reason t' <> Some FreeVariable.
Proof.
  intros B F O f t' Ev Sr.
  destruct (is_value t') eqn:V; [rewrite (value_stuck_reason _ V) in Sr; discriminate|].
  assert (Hok : okt' t) by (split; auto).
  destruct (proj2 (interpreters_agree_G3_stuck t FreeVariable Hok)) as [f' R]; [eauto|].
  exact (order_ok_no_empty_cell t B O f' R).
Qed.

(* ------------------------------------------------------------------------------------------- *)
(* Part 5. The modelled guard (Model/ParserPost.v) is weaker than order_ok.                     *)
(* ------------------------------------------------------------------------------------------- *)

Definition sd_ins := fix ins (x : nat) (a : list nat) : list nat :=
  match a with [] => [x] | y :: a' => if Nat.ltb x y then x :: a else if Nat.eqb x y then a else y :: ins x a' end.
Definition sd_all := fix ins_all (l acc : list nat) : list nat :=
  match l with [] => acc | x :: r => ins_all r (sd_ins x acc) end.

Lemma sort_dedup_eq l : sort_dedup l = sd_all l [].
Proof. reflexivity. Qed.

Lemma sd_ins_In x a v : In v (sd_ins x a) -> v = x \/ In v a.
Proof.
  induction a as [|y a IH].
  - cbn. intros [<-|[]]; auto.
  - change (sd_ins x (y :: a)) with (if Nat.ltb x y then x :: y :: a else if Nat.eqb x y then y :: a else y :: sd_ins x a).
    destruct (Nat.ltb x y); [intros [<-|H]; auto|]. destruct (Nat.eqb x y); [intros H; auto|].
    intros [<-|H]; [right; now left|]. destruct (IH H); auto. right. now right.
Qed.

Lemma sd_all_In l : forall acc v, In v (sd_all l acc) -> In v l \/ In v acc.
Proof.
  induction l as [|x l IH]; intros acc v H; cbn in *; auto.
  destruct (IH _ _ H) as [H1|H1]; auto. destruct (sd_ins_In _ _ _ H1); subst; auto.
Qed.

Lemma sort_dedup_In l v : In v (sort_dedup l) -> In v l.
Proof. rewrite sort_dedup_eq. intros H. destruct (sd_all_In _ _ _ H) as [H1|[]]; auto. Qed.

(* walking from a definition all of whose members lie in a closed set of earlier members finds no error *)
Lemma check_definition_noerr ds i (S : list nat) :
  (forall m am dm, In m S -> nth_error ds m = Some (am, dm) ->
     forall j, j < length ds -> occurs dm 0 j = true -> In (length ds - 1 - j) S) ->
  (forall m, In m S -> m < i) ->
  forall fuel cur visited errs,
    (forall am dm, nth_error ds cur = Some (am, dm) -> forall j, j < length ds -> occurs dm 0 j = true -> In (length ds - 1 - j) S) ->
    snd (check_definition fuel ds i cur visited errs) = errs.
Proof.
  intros Hcl Hlt. induction fuel as [|fuel IH]; intros cur visited errs Hcur; cbn [check_definition]; [reflexivity|].
  cbv zeta. destruct (nth_error ds cur) as [[a d]|] eqn:En; [|reflexivity].
  assert (HL : forall v, In v (sort_dedup (fvl d 0)) -> occurs d 0 v = true).
  { intros v Hv. apply fvl_occurs. now apply sort_dedup_In. }
  revert visited errs. induction (sort_dedup (fvl d 0)) as [|v L IHL]; intros visited errs; cbn [fold_left]; [reflexivity|].
  assert (Estep : snd (let '(visited0, errs0) := (visited, errs) in
                 if v <? length ds then
                   if existsb (Nat.eqb (length ds - 1 - v)) visited0 then (visited0, errs0)
                   else match nth_error ds (length ds - 1 - v) with
                        | Some (_, dd) => if is_value dd then check_definition fuel ds i (length ds - 1 - v) (length ds - 1 - v :: visited0) errs0
                                          else if i <=? length ds - 1 - v then (length ds - 1 - v :: visited0, Datatypes.S errs0)
                                          else (length ds - 1 - v :: visited0, errs0)
                        | None => (length ds - 1 - v :: visited0, errs0)
                        end
                 else (visited0, errs0)) = errs).
  { destruct (Nat.ltb_spec v (length ds)) as [Lv|Lv]; [|reflexivity].
    destruct (existsb _ visited); [reflexivity|].
    assert (Hin : In (length ds - 1 - v) S) by (eapply Hcur; eauto; apply HL; now left).
    destruct (nth_error ds (length ds - 1 - v)) as [[a' dd]|] eqn:En'; [|reflexivity].
    destruct (is_value dd).
    - apply IH. intros am dm Hn j Lj Ho. rewrite En' in Hn. injection Hn as <- <-. eapply Hcl; eauto.
    - pose proof (Hlt _ Hin). destruct (Nat.leb_spec i (length ds - 1 - v)); [lia|reflexivity]. }
  match goal with |- snd (fold_left ?F L ?st) = errs => destruct st as [vis' errs'] eqn:Est end.
  cbn [snd] in Estep. subst errs'. apply IHL. intros v' Hv'. apply HL. now right.
Qed.

Definition cd_per (ds : list (term * term)) :=
  fix go (l : list (term * term)) (i : nat) : cdres :=
    match l with
    | [] => CDOk 0
    | (_, d) :: r =>
        cd_add (check_definitions d)
          (cd_add (if is_value d then CDOk 0 else CDOk (snd (check_definition (S (length ds)) ds i i [] 0)))
                  (go r (S i)))
    end.

Lemma check_definitions_let ds b :
  check_definitions (TLet ds b) = cd_add (cd_per ds ds 0) (check_definitions b).
Proof. reflexivity. Qed.

Lemma cd_per_ok ds : forall l pre, ds = pre ++ l ->
  (forall a d, In (a, d) l -> check_definitions d = CDOk 0) ->
  check_group false ds = true -> cd_per ds l (length pre) = CDOk 0.
Proof.
  induction l as [|[a d] l IH]; intros pre Eds Hd Hg; cbn [cd_per]; [reflexivity|].
  rewrite (Hd a d (or_introl eq_refl)).
  assert (Hi : nth_error ds (length pre) = Some (a, d)) by (rewrite Eds, nth_error_app2, Nat.sub_diag by lia; reflexivity).
  assert (E2 : cd_per ds l (S (length pre)) = CDOk 0).
  { replace (S (length pre)) with (length (pre ++ [(a, d)])) by (rewrite app_length; cbn; lia).
    apply IH; auto; [now rewrite <- app_assoc|]. intros a' d' Hin'. apply (Hd a' d'). now right. }
  rewrite E2. destruct (is_value d) eqn:V; [reflexivity|].
  unfold check_group in Hg. rewrite forallb_forall in Hg.
  assert (Li : length pre < length ds) by (apply nth_error_Some; congruence).
  specialize (Hg (length pre) ltac:(apply in_seq; lia)). rewrite Hi, V in Hg. cbn [orb] in Hg.
  destruct (check_def_cert _ _ _ _ Hg) as (S & (_ & _ & Cc & Cd) & Hroots). specialize (Hroots eq_refl).
  rewrite (check_definition_noerr ds (length pre) S Cc Cd); [reflexivity|].
  intros am dm Hn j Lj Ho. rewrite Hi in Hn. injection Hn as <- <-. auto.
Qed.

(* (3) the corrected (strict) check is at least as strict as the modelled guard *)
Theorem order_ok_check_definitions : forall t, hole_free t = true -> order_ok t = true -> check_definitions t = CDOk 0.
Proof.
  unfold order_ok.
  induction t using term_ind'; intros F O; cbn [hole_free ord] in *; try discriminate; try reflexivity; split_andb.
  - cbn [check_definitions]. rewrite IHt1, IHt2; auto.
  - cbn [check_definitions]. rewrite IHt1, IHt2; auto.
  - cbn [check_definitions]. rewrite IHt1, IHt2; auto.
  - rewrite check_definitions_let. rewrite IHt by auto.
    pose proof (cd_per_ok ds ds [] eq_refl) as K. cbn [length] in K. rewrite K; auto.
    intros a d Hin. rewrite Forall_forall in H. destruct (H _ Hin) as [_ Hd]. cbn [snd] in Hd. apply Hd.
    + match goal with Hf : forallb (fun p => let '(a0, d0) := p in hole_free a0 && hole_free d0) ds = true |- _ =>
        rewrite forallb_forall in Hf; specialize (Hf _ Hin); cbn in Hf; now apply andb_prop in Hf end.
    + match goal with Ho : forallb (fun p => let '(_, d0) := p in ord _ d0) ds = true |- _ =>
        rewrite forallb_forall in Ho; specialize (Ho _ Hin); exact Ho end.
  - cbn [check_definitions]. auto.
  - cbn [check_definitions]. rewrite IHt1, IHt2; auto.
  - cbn [check_definitions]. rewrite IHt1, IHt2, IHt3; auto.
Qed.

(* ------------------------------------------------------------------------------------------- *)
(* Part 6. Examples.                                                                            *)
(* ------------------------------------------------------------------------------------------- *)

(* f = (n : int) => g n; x = f 1; g = (n : int) => n; x   -- the D7 witness through a function *)
Definition d7_fun_prog :=
  TLet [ (TPi false TInt TInt, TLam false TInt (TApp (TVar 1) (TVar 0)));
         (TInt, TApp (TVar 2) (TLit 1));
         (TPi false TInt TInt, TLam false TInt (TVar 0)) ] (TVar 1).

(* accepted programs *)
Example order_ok_accepts :
  map order_ok [fact_prog; evenodd; evenodd2; g1_prog] = [true; true; true; true] /\
  map order_ok_lazy [fact_prog; evenodd; evenodd2; g1_prog; g1_fact] = [true; true; true; true; true].
Proof. vm_compute. split; reflexivity. Qed.

(* rejected programs: a later definition is needed (d7_prog), the definition needs itself (g1_self), a later
   definition is needed through an earlier function (d7_fun_prog) *)
Example order_ok_rejects :
  map order_ok [d7_prog; g1_self; d7_fun_prog] = [false; false; false] /\
  map order_ok_lazy [d7_prog; g1_self; d7_fun_prog] = [false; false; false].
Proof. vm_compute. split; reflexivity. Qed.

(* the recorded defect D7: the modelled guard accepts the two witnesses, and both interpreters are stuck on an
   empty cell / a free group variable *)
Example d7_guard_accepts : check_definitions d7_prog = CDOk 0 /\ check_definitions d7_fun_prog = CDOk 0.
Proof. vm_compute. split; reflexivity. Qed.
Example d7_run_env_stuck : run_env 30 d7_prog = RStuck FreeVariable /\ run_env 30 d7_fun_prog = RStuck FreeVariable.
Proof. vm_compute. split; reflexivity. Qed.
Example d7_evaluate_stuck :
  (exists t', evaluate 50 d7_prog = Some t' /\ is_value t' = false /\ stuck_reason t' = Some FreeVariable) /\
  (exists t', evaluate 50 d7_fun_prog = Some t' /\ is_value t' = false /\ stuck_reason t' = Some FreeVariable).
Proof. split; eexists; vm_compute; repeat split; reflexivity. Qed.
Example d7_fun_closed : okt' d7_fun_prog. Proof. repeat split. Qed.
(* the same through the agreement theorem *)
Example d7_fun_agree : exists f t', evaluate f d7_fun_prog = Some t' /\ is_value t' = false /\ stuck_reason t' = Some FreeVariable.
Proof. apply (proj1 (interpreters_agree_G3_stuck _ FreeVariable d7_fun_closed)). exists 30. apply d7_run_env_stuck. Qed.

(* g1_fact (a computed definition whose value is a recursive closure) runs to 120 on both interpreters, is
   accepted by order_ok_lazy, but is REJECTED by the modelled guard; so no check that accepts g1_fact can
   imply check_definitions = CDOk 0, and order_ok (which does imply it) rejects g1_fact as well *)
Example g1_fact_guard : check_definitions g1_fact = CDOk 1 /\ order_ok g1_fact = false /\ order_ok_lazy g1_fact = true.
Proof. vm_compute. repeat split; reflexivity. Qed.

(* non-vacuity of the theorems *)
Example evenodd_never_empty_cell : forall f, run_env f evenodd <> RStuck FreeVariable.
Proof. apply order_ok_no_empty_cell; reflexivity. Qed.
Example evenodd_evaluate_never_free : forall f t', evaluate f evenodd = Some t' -> stuck_reason t' <> Some FreeVariable.
Proof. apply order_ok_evaluate; reflexivity. Qed.
Example g1_fact_never_empty_cell : forall f, run_env f g1_fact <> RStuck FreeVariable.
Proof. apply order_ok_lazy_no_empty_cell; reflexivity. Qed.
Example g1_fact_evaluate_never_free : forall f t', evaluate f g1_fact = Some t' -> stuck_reason t' <> Some FreeVariable.
Proof. apply order_ok_lazy_evaluate; reflexivity. Qed.
Example evenodd_guard : check_definitions evenodd = CDOk 0.
Proof. apply order_ok_check_definitions; reflexivity. Qed.

Print Assumptions fl.
Print Assumptions order_ok_no_empty_cell.
Print Assumptions order_ok_lazy_no_empty_cell.
Print Assumptions order_ok_evaluate.
Print Assumptions order_ok_lazy_evaluate.
Print Assumptions order_ok_check_definitions.
Print Assumptions check_group_cert.
Print Assumptions d7_fun_agree.
Print Assumptions evenodd_never_empty_cell.
Print Assumptions g1_fact_evaluate_never_free.
