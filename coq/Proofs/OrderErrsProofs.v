(* C13: the definition-order diagnostics as a LIST. (1) with the code's sort the list depends only on
   the SET the hash container holds; (2) its length is the count the parser model reports (which the
   correspondence ties to parser.rs); (3) without the sort two iteration orders of the same set give
   different diagnostics - the sort is necessary (the defect the property's text describes). *)
From Coq Require Import List Arith ZArith Lia Bool Permutation.
Import ListNotations.
Require Import Gram.Model.Term Gram.Model.DeBruijn Gram.Model.Eval Gram.Model.ParserPost Gram.Model.OrderErrs Gram.Proofs.OrderProofs.

Lemma fold_left_ext_in {A B} (f g : A -> B -> A) l : (forall a b, f a b = g a b) -> forall a, fold_left f l a = fold_left g l a.
Proof. intros E. induction l as [|x l IH]; intros a; cbn [fold_left]; [reflexivity|]. rewrite E. apply IH. Qed.

Lemma cde_ext e1 e2 : (forall l, e1 l = e2 l) ->
  forall fuel defs start cur visited errs,
    check_definition_e e1 fuel defs start cur visited errs = check_definition_e e2 fuel defs start cur visited errs.
Proof.
  intros E. induction fuel as [|f IH]; intros defs start cur visited errs; cbn [check_definition_e]; [reflexivity|].
  destruct (nth_error defs cur) as [[a d]|]; [|reflexivity].
  rewrite E. apply fold_left_ext_in. intros [vis es] v.
  destruct (Nat.ltb v (length defs)); [|reflexivity].
  destruct (existsb _ vis); [reflexivity|].
  destruct (nth_error defs (length defs - 1 - v)) as [[a' dd]|]; [|reflexivity].
  destruct (is_value dd); [apply IH | reflexivity].
Qed.

(* an iteration of a hash container: any sequence with the container's elements, any multiplicity *)
Definition iteration_of (h : list nat -> list nat) : Prop := forall l v, In v (h l) <-> In v l.

Theorem cde_iteration_irrelevant : forall h1 h2, iteration_of h1 -> iteration_of h2 ->
  forall fuel defs start cur visited errs,
    check_definition_e (fun l => sort_dedup (h1 l)) fuel defs start cur visited errs
    = check_definition_e (fun l => sort_dedup (h2 l)) fuel defs start cur visited errs.
Proof.
  intros h1 h2 H1 H2. apply cde_ext. intros l. apply sort_dedup_set_only. intros v. rewrite (H1 l v), (H2 l v). reflexivity.
Qed.

Theorem group_errors_iteration_irrelevant : forall h1 h2, iteration_of h1 -> iteration_of h2 ->
  forall ds, group_order_errors (fun l => sort_dedup (h1 l)) ds = group_order_errors (fun l => sort_dedup (h2 l)) ds.
Proof.
  intros h1 h2 H1 H2 ds. unfold group_order_errors. generalize 0. generalize ds at 2 4 as l.
  induction l as [|[a d] r IH]; intros i; [reflexivity|]. cbn [goe_go].
  rewrite (cde_iteration_irrelevant h1 h2 H1 H2). f_equal. apply IH.
Qed.

(* (2) the list's length is the parser model's count *)
Lemma fold_left_rel {A B C} (R : A -> B -> Prop) (f : A -> C -> A) (g : B -> C -> B) l :
  (forall a b c, R a b -> R (f a c) (g b c)) -> forall a b, R a b -> R (fold_left f l a) (fold_left g l b).
Proof. intros S. induction l as [|x l IH]; intros a b r; cbn [fold_left]; auto. Qed.

Lemma cde_count : forall fuel defs start cur visited es,
  check_definition fuel defs start cur visited (length es)
  = (fst (check_definition_e sort_dedup fuel defs start cur visited es),
     length (snd (check_definition_e sort_dedup fuel defs start cur visited es))).
Proof.
  induction fuel as [|f IH]; intros defs start cur visited es; cbn [check_definition check_definition_e]; [reflexivity|].
  destruct (nth_error defs cur) as [[a d]|]; [|reflexivity].
  set (R := fun (x : list nat * nat) (y : list nat * list (nat * nat)) => x = (fst y, length (snd y))).
  apply (fold_left_rel R); [|reflexivity].
  intros [v1 n1] [v2 e2] v r. unfold R in r. cbn [fst snd] in r. inversion r; subst v1 n1. unfold R.
  destruct (Nat.ltb v (length defs)); [|reflexivity].
  destruct (existsb _ v2); [reflexivity|].
  destruct (nth_error defs (length defs - 1 - v)) as [[a' dd]|]; [|reflexivity].
  destruct (is_value dd); [apply IH|].
  destruct (Nat.leb start (length defs - 1 - v)); cbn [fst snd]; [|reflexivity].
  rewrite app_length. cbn [length]. f_equal. lia.
Qed.

Theorem cde_length_is_model_count : forall fuel defs start cur,
  snd (check_definition fuel defs start cur [] 0)
  = length (snd (check_definition_e sort_dedup fuel defs start cur [] [])).
Proof. intros. pose proof (cde_count fuel defs start cur [] []) as H. cbn [length] in H. rewrite H. reflexivity. Qed.

(* (3) the sort is necessary: `x = y + z + w; y = 1 + 1; z = 1 + 1; w = 1 + 1; x` *)
Definition c13_defs : list (term * term) :=
  let one_plus_one := TBin OSum (TLit 1%Z) (TLit 1%Z) in
  [ (TInt, TBin OSum (TBin OSum (TVar 2) (TVar 1)) (TVar 0));
    (TInt, one_plus_one); (TInt, one_plus_one); (TInt, one_plus_one) ].

Theorem unsorted_iteration_matters :
  iteration_of (fun l => l) /\ iteration_of (@rev nat) /\
  group_order_errors (fun l => l) c13_defs <> group_order_errors (@rev nat) c13_defs /\
  group_order_errors (fun l => sort_dedup l) c13_defs = group_order_errors (fun l => sort_dedup (rev l)) c13_defs /\
  group_order_errors (fun l => sort_dedup l) c13_defs = [(0, 3); (0, 2); (0, 1)].
Proof.
  split; [intros l v; reflexivity|]. split; [intros l v; symmetry; apply in_rev|].
  split; [vm_compute; discriminate|]. split; vm_compute; reflexivity.
Qed.
