(* Completeness of the checker model (Model B, tcB) against the verified checker `infer` on hole-free
   programs: what is true, what is false, and why.

   R   REFUTATION.  "infer accepts -> tcB accepts for some fuel" is FALSE, already on the definition
       spine: ex_div = (w : type = w; (f : (x : int) -> w) => f 3) is accepted by infer, and
       tcB f [] [] [] ex_div = None for EVERY fuel f (tcB_diverges_on_ex_div,
       tcB_complete_hole_free_refuted): solving ?cod weak-head normalises the codomain of the function
       type, which infer never does.  That is the ONLY genuine difference found:
   A-C hr G T T' ("T' is T with reduction steps at the root and at the roots of domains/codomains of
       function types") relates infer's type T to tcB's zonked type T'; the conversion test cannot
       tell them apart (convb_hr), and hr is stable under substitution (hr_open; substitution lemma
       open_open) - all on group-free terms, contexts with definitions allowed.
   D   NO FALSE REJECTION (tcB_accepts_nl, tcB_accepts_spine, tcB_no_false_rejection_spine / _nolet): on a hole-free
       program on the spine that infer accepts, for EVERY fuel tcB either runs out of fuel or accepts
       with no errors, and its zonked type is hr-related (hrg through group exits) to infer's; for
       group-free programs conv [] T' T.
   C1  fuel monotonicity of every Model B function (sshiftB ... unifyB, tcB: the _mono lemmas), fuel sufficiency
       on fully solved terms (ushiftB/openB: all terms; whnfB/syn_eqB/unifyB: group-free zonks;
       unifyB_complete: the verdict of convb is the verdict of unifyB for every large fuel).
   E   COMPLETENESS given that codomains normalise: inferT = infer + "the codomain of the function type
       at an application has a whnf"; inferT accepts -> tcB accepts for every large fuel
       (tcB_complete_hole_free_nolet, tcB_complete_hole_free_spine).  ex_div is not accepted by inferT.
   Not covered: definition groups nested inside definitions/annotations/bodies (C4). *)
From Coq Require Import List ZArith Lia Bool Arith Relations.
Import ListNotations.
Require Import Gram.Model.Term Gram.Model.DeBruijn Gram.Model.Eval Gram.Model.ModelB Gram.Spec.Typing Gram.Oracle.Infer.
Require Import Gram.Proofs.DeBruijnLaws Gram.Proofs.CtxProofs Gram.Proofs.WeakenProofs Gram.Proofs.RewriteProofs Gram.Proofs.WeakenInfer.
Require Import Gram.Proofs.ModelBProofs Gram.Proofs.InferSound Gram.Proofs.ConvProofs
               Gram.Proofs.ConvSym Gram.Proofs.StoreProofs Gram.Proofs.StoreTc Gram.Proofs.ModelBHoleFree.
Require Import Gram.Proofs.RewriteTyping.
Require Import Gram.Proofs.TcSoundHF.


(* ====================================================================================== *)
(* R.  Completeness in the form "infer accepts -> tcB accepts for some fuel" is FALSE       *)
(* ====================================================================================== *)
(* w : type = w; (f : (x : int) -> w) => f 3
   infer accepts: the function type is already a weak-head normal form and its codomain `w` is never
   normalised.  tcB's application rule unifies TPi false ?dom ?cod with the function type, and
   solving ?cod weak-head normalises the codomain - which unfolds `w` for ever.  So tcB runs out of
   fuel for EVERY fuel: the model (which mirrors type_checker.rs / unifier.rs here) diverges
   on a hole-free program on the spine that the reference checker accepts. *)
Definition ex_div : term :=
  TLet [(TType, TVar 0)] (TLam false (TPi false TInt (TVar 1)) (TApp (TVar 0) (TLit 3))).

Lemma whnfB_loops D k : nth_error D k = Some (Some (TVar 0, 1)) ->
  forall f s, whnfB f s D (TVar k) = None.
Proof.
  intros HD. induction f as [|f IH]; intros s; [reflexivity|]. cbn [whnfB]. rewrite HD.
  destruct (ushiftB f s (TVar 0) 0 (k + 1 - 1)) as [d'|] eqn:U; [|reflexivity].
  apply (ushiftB_hole_free _ _ (TVar 0) _ _ _ eq_refl) in U. subst d'. cbn [ushift]. unfold up_idx. cbn [Nat.leb].
  replace (0 + (k + 1 - 1)) with k by lia. apply IH.
Qed.

Lemma unifyB_cell_vs_loop D k : nth_error D k = Some (Some (TVar 0, 1)) ->
  forall f s c, sget s c = None -> unifyB f s D (THole c 0) (TVar k) = None.
Proof.
  intros HD f s c Hn. destruct f as [|f]; [reflexivity|].
  rewrite unifyB_S. unfold unify_body.
  destruct (syn_eqB f s (THole c 0) (TVar k)) as [e|] eqn:Es; [|reflexivity].
  apply (syn_eqB_unsolved_l _ _ _ _ _ _ _ Hn (zk_var s k)) in Es. subst e.
  destruct (whnfB f s D (THole c 0)) as [[w1 s1]|] eqn:W1; [|reflexivity].
  destruct (whnfB_unsolved _ _ _ _ _ _ _ Hn W1) as [-> ->].
  now rewrite (whnfB_loops D k HD).
Qed.

Definition D_div : dctx := [None; Some (TVar 0, 1)].
Lemma hf_D_div : hf_dctx D_div.
Proof. repeat constructor. Qed.

Lemma unifyB_probe_diverges : forall f s d c, d <> c -> sget s d = None -> sget s c = None ->
  unifyB f s D_div (TPi false (THole d 0) (THole c 0)) (TPi false TInt (TVar 2)) = None.
Proof.
  intros f s d c Hne Hd Hc. destruct f as [|f]; [reflexivity|].
  rewrite unifyB_S. unfold unify_body.
  assert (ZF : zk s (TPi false TInt (TVar 2)) (TPi false TInt (TVar 2))) by (apply zk_refl_hf; reflexivity).
  destruct (syn_eqB f s (TPi false (THole d 0) (THole c 0)) (TPi false TInt (TVar 2))) as [e|] eqn:Es; [|reflexivity].
  apply (syn_eqB_pi_fresh _ _ _ _ _ _ _ _ _ Hd ZF) in Es. subst e.
  destruct (whnfB f s D_div (TPi false (THole d 0) (THole c 0))) as [[w1 s1]|] eqn:W1; [|reflexivity].
  destruct (whnfB_pi _ _ _ _ _ _ _ _ W1) as [-> ->].
  destruct (whnfB f s D_div (TPi false TInt (TVar 2))) as [[w2 s2]|] eqn:W2; [|reflexivity].
  destruct (whnfB_pi _ _ _ _ _ _ _ _ W2) as [-> ->].
  cbv beta iota zeta delta [unify_head]. cbn [Bool.eqb].
  destruct (unifyB f s D_div (THole d 0) TInt) as [[u1 sa]|] eqn:U1; [|reflexivity].
  destruct (unifyB_fresh_hole _ _ _ _ _ _ _ _ hf_D_div Hd (zk_int s) U1) as (-> & sol & wu & f1 & -> & _).
  apply (unifyB_cell_vs_loop (None :: D_div) 2 eq_refl).
  rewrite sget_sset_other; [exact Hc | congruence].
Qed.

Lemma tcB_app_diverges : forall f s G, nth_error G 0 = Some (TPi false TInt (TVar 1), 0) ->
  tcB f s G D_div (TApp (TVar 0) (TLit 3)) = None.
Proof.
  intros f s G HG. destruct f as [|f]; [reflexivity|]. cbn [tcB].
  destruct (tcB f s G D_div (TVar 0)) as [ra|] eqn:E1; [|reflexivity].
  assert (b_ty ra = TPi false TInt (TVar 2) /\ b_st ra = s) as [Et Es].
  { destruct f as [|f]; [discriminate|]. cbn [tcB] in E1. rewrite HG in E1.
    destruct (ushiftB f s (TPi false TInt (TVar 1)) 0 (0 + 1 - 0)) as [T'|] eqn:U; [|discriminate].
    apply (ushiftB_hole_free _ _ (TPi false TInt (TVar 1)) _ _ _ eq_refl) in U. subst T'. injection E1 as <-. auto. }
  unfold fresh_hole, salloc. rewrite Es, Et. unfold expectB.
  rewrite unifyB_probe_diverges; [reflexivity | rewrite app_length; cbn [length]; lia | |].
  - rewrite (grow_sget _ _ _ (grow_snoc (s ++ [None]))), (grow_sget _ _ _ (grow_snoc s)). now apply sget_ge.
  - rewrite (grow_sget _ _ _ (grow_snoc (s ++ [None]))). now apply sget_ge.
Qed.

Theorem tcB_diverges_on_ex_div : forall f, tcB f [] [] [] ex_div = None.
Proof.
  intros [|f]; [reflexivity|]. unfold ex_div. rewrite tcB_let_eq. cbv zeta.
  change (pushD (length [(TType, TVar 0)]) [(TType, TVar 0)] 0 []) with [Some (TVar 0, 1)].
  change (pushG (length [(TType, TVar 0)]) [(TType, TVar 0)] 0 []) with [(TType, 1)].
  destruct (tc_defs f (fun s0 d => tcB f s0 [(TType, 1)] [Some (TVar 0, 1)] d) [Some (TVar 0, 1)] [(TType, TVar 0)] [] [])
    as [[[ds' s1] es1]|]; [|reflexivity].
  destruct f as [|f]; [reflexivity|]. cbn [tcB].
  destruct (tcB f s1 [(TType, 1)] [Some (TVar 0, 1)] (TPi false TInt (TVar 1))) as [rd|] eqn:E1; [|reflexivity].
  destruct (expectB f (b_st rd) [Some (TVar 0, 1)] (b_ty rd) TType ENotType (b_errs rd)) as [[s2 es2]|]; [|reflexivity].
  rewrite (tcB_elab_identity _ _ _ _ _ _ E1).
  change (None :: [Some (TVar 0, 1)]) with D_div. now rewrite tcB_app_diverges.
Qed.

(* the refutation: a hole-free program (on the spine) accepted by the verified checker on which the
   checker model returns no answer for any fuel *)
Theorem tcB_complete_hole_free_refuted :
  hole_free ex_div = true /\ spine ex_div = true /\
  (exists T, infer 10 [] ex_div = Some T /\ has_type [] ex_div T) /\
  forall f, tcB f [] [] [] ex_div = None.
Proof.
  split; [reflexivity|]. split; [reflexivity|]. split; [|exact tcB_diverges_on_ex_div].
  eexists. split; [vm_compute; reflexivity|]. eapply infer_sound with (fuel := 10). vm_compute. reflexivity.
Qed.

(* ====================================================================================== *)
(* A.  Substitution lemmas for group-free terms                                             *)
(* ====================================================================================== *)
Ltac nlhf_split :=
  repeat match goal with
  | H : no_let (_ _) = true |- _ => progress cbn [no_let] in H
  | H : hole_free (_ _) = true |- _ => progress cbn [hole_free] in H
  | H : _ && _ = true |- _ => apply andb_true_iff in H; destruct H
  end.

Lemma open_idx_cases j i : open_idx j i = if Nat.ltb i j then j - 1 else j.
Proof. reflexivity. Qed.

(* shifting below the opened variable *)
Lemma ushift_open_below : forall t i x k c n, hole_free t = true -> no_let t = true -> c <= i -> c <= k ->
  ushift (open t i x k) c n = open (ushift t c n) (i + n) x (k + n).
Proof.
  induction t; intros j x k c n Hf Hn Hi Hk; cbn [open ushift]; try reflexivity; try discriminate Hn; try discriminate Hf; nlhf_split.
  - (* var *)
    destruct (Nat.eqb_spec i j) as [->|Hne].
    + assert (up_idx j c n = j + n) as -> by (unfold up_idx; destruct (Nat.leb_spec c j); lia).
      rewrite Nat.eqb_refl. apply ushift_merge; lia.
    + assert (Nat.eqb (up_idx i c n) (j + n) = false) as ->.
      { apply Nat.eqb_neq. unfold up_idx. destruct (Nat.leb_spec c i); lia. }
      cbn [ushift]. f_equal. unfold up_idx, open_idx.
      destruct (Nat.ltb_spec j i); destruct (Nat.leb_spec c i);
        repeat match goal with |- context [Nat.leb ?a ?b] => destruct (Nat.leb_spec a b) end;
        repeat match goal with |- context [Nat.ltb ?a ?b] => destruct (Nat.ltb_spec a b) end; lia.
  - f_equal; [apply IHt1; auto | apply (IHt2 (S j) x (S k) (S c) n); auto; lia].
  - f_equal; [apply IHt1; auto | apply (IHt2 (S j) x (S k) (S c) n); auto; lia].
  - f_equal; [apply IHt1 | apply IHt2]; auto.
  - f_equal; apply IHt; auto.
  - f_equal; [apply IHt1 | apply IHt2]; auto.
  - f_equal; [apply IHt1 | apply IHt2 | apply IHt3]; auto.
Qed.

(* opening a variable below a shift cancels one unit of the shift *)
Lemma open_shift_cancel t m j s k : hole_free t = true -> j <= m -> open (ushift t 0 (S m)) j s k = ushift t 0 m.
Proof.
  intros Hf L. replace (S m) with (m + 1) by lia. rewrite <- (ushift_merge t 0 m j 1) by lia.
  apply open_ushift_cancel. now rewrite hole_free_ushift.
Qed.

(* the substitution lemma *)
Lemma open_open : forall t j i a x, hole_free t = true -> no_let t = true -> hole_free x = true -> hole_free a = true -> no_let a = true ->
  open (open t j a j) (i + j) x (i + j) = open (open t (S (i + j)) x (S (i + j))) j (open a i x i) j.
Proof.
  induction t; intros j i0 a x Hf Hn Hx Hfa Ha; cbn [open]; try reflexivity; try discriminate Hn; try discriminate Hf; nlhf_split.
  - (* var *)
    destruct (Nat.eqb_spec i j) as [->|Hne].
    + assert (Nat.eqb j (S (i0 + j)) = false) as -> by (apply Nat.eqb_neq; lia).
      assert (open_idx j (S (i0 + j)) = j) as -> by (unfold open_idx; destruct (Nat.ltb_spec (S (i0 + j)) j); lia).
      cbn [open]. rewrite Nat.eqb_refl.
      rewrite (ushift_open_below a i0 x i0 0 j) by (auto; lia). reflexivity.
    + destruct (Nat.eqb_spec i (S (i0 + j))) as [->|Hne2].
      * assert (open_idx (S (i0 + j)) j = i0 + j) as -> by (unfold open_idx; destruct (Nat.ltb_spec j (S (i0 + j))); lia).
        cbn [open]. rewrite Nat.eqb_refl. rewrite open_shift_cancel by (auto; lia). reflexivity.
      * cbn [open].
        assert (Nat.eqb (open_idx i j) (i0 + j) = false) as ->.
        { apply Nat.eqb_neq. unfold open_idx. destruct (Nat.ltb_spec j i); lia. }
        assert (Nat.eqb (open_idx i (S (i0 + j))) j = false) as ->.
        { apply Nat.eqb_neq. unfold open_idx. destruct (Nat.ltb_spec (S (i0 + j)) i); lia. }
        f_equal. unfold open_idx.
        repeat match goal with |- context [Nat.ltb ?a ?b] => destruct (Nat.ltb_spec a b) end; lia.
  - f_equal; [apply IHt1; auto|].
    replace (S (i0 + j)) with (i0 + S j) by lia. apply (IHt2 (S j) i0 a x); auto.
  - f_equal; [apply IHt1; auto|].
    replace (S (i0 + j)) with (i0 + S j) by lia. apply (IHt2 (S j) i0 a x); auto.
  - f_equal; [apply IHt1 | apply IHt2]; auto.
  - f_equal; apply IHt; auto.
  - f_equal; [apply IHt1 | apply IHt2]; auto.
  - f_equal; [apply IHt1 | apply IHt2 | apply IHt3]; auto.
Qed.

(* ====================================================================================== *)
(* B.  Weak-head evaluation is invariant under reduction steps; reduction and substitution   *)
(* ====================================================================================== *)
Lemma whnf_arith_res o x y r n G : arith o x y = Some r -> whnf (S n) G r = Some r.
Proof.
  destruct o; cbn [arith]; intros H;
    try (injection H as <-; reflexivity);
    try (injection H as <-; match goal with |- context [if ?c then _ else _] => destruct c; reflexivity end).
  destruct (y =? 0)%Z; [discriminate|]. injection H as <-. reflexivity.
Qed.

(* H1: a term and its one-step reduct have the same weak-head normal form *)
Lemma red_whnf G t t1 : red G t t1 -> forall f u, whnf f G t = Some u -> exists f', whnf f' G t1 = Some u.
Proof.
  induction 1 as [im d b a | i d Hd | ds b | z | o x y r Ha | a b | a b
                  | f0 f0' a Hr IH | a a' Hr IH | o a a' b Hr IH | o a b b' Hr IH | c c' a b Hr IH];
    intros [|n] u H; try discriminate H; cbn [whnf] in H.
  - destruct n as [|m]; [discriminate|]. change (whnf (S m) G (TLam im d b)) with (Some (TLam im d b)) in H. cbv beta iota in H. eauto.
  - rewrite Hd in H. eauto.
  - eauto.
  - destruct n as [|m]; [discriminate|]. change (whnf (S m) G (TLit z)) with (Some (TLit z)) in H. cbv beta iota in H. injection H as <-. exists 1. reflexivity.
  - destruct n as [|m]; [discriminate|]. change (whnf (S m) G (TLit x)) with (Some (TLit x)) in H.
    change (whnf (S m) G (TLit y)) with (Some (TLit y)) in H. cbv beta iota in H. rewrite Ha in H. injection H as <-.
    exists 1. exact (whnf_arith_res _ _ _ _ 0 G Ha).
  - destruct n as [|m]; [discriminate|]. change (whnf (S m) G TTrue) with (Some TTrue) in H. cbv beta iota in H. eauto.
  - destruct n as [|m]; [discriminate|]. change (whnf (S m) G TFalse) with (Some TFalse) in H. cbv beta iota in H. eauto.
  - destruct (whnf n G f0) as [a'|] eqn:E1; [|discriminate]. destruct (IH _ _ E1) as [n' E1'].
    exists (S (Nat.max n n')). cbn [whnf]. rewrite (whnf_mono n' (Nat.max n n') _ _ _ ltac:(lia) E1').
    destruct a'; try exact H. eapply whnf_mono; [|exact H]. lia.
  - destruct (whnf n G a) as [x|] eqn:E1; [|discriminate]. destruct (IH _ _ E1) as [n' E1'].
    exists (S n'). cbn [whnf]. rewrite E1'. exact H.
  - destruct (whnf n G a) as [x|] eqn:E1; [|discriminate]. destruct (IH _ _ E1) as [n' E1'].
    destruct (whnf n G b) as [y|] eqn:E2; [|destruct x; discriminate].
    exists (S (Nat.max n n')). cbn [whnf].
    rewrite (whnf_mono n' (Nat.max n n') _ _ _ ltac:(lia) E1'), (whnf_mono n (Nat.max n n') _ _ _ ltac:(lia) E2). exact H.
  - destruct (whnf n G a) as [x|] eqn:E1; [|discriminate].
    destruct (whnf n G b) as [y|] eqn:E2; [|destruct x; discriminate]. destruct (IH _ _ E2) as [n' E2'].
    exists (S (Nat.max n n')). cbn [whnf].
    rewrite (whnf_mono n (Nat.max n n') _ _ _ ltac:(lia) E1), (whnf_mono n' (Nat.max n n') _ _ _ ltac:(lia) E2'). exact H.
  - destruct (whnf n G c) as [x|] eqn:E1; [|discriminate]. destruct (IH _ _ E1) as [n' E1'].
    exists (S (Nat.max n n')). cbn [whnf]. rewrite (whnf_mono n' (Nat.max n n') _ _ _ ltac:(lia) E1').
    destruct x; try exact H; (eapply whnf_mono; [|exact H]; lia).
Qed.

Lemma red_same_defs G G' a b : same_defs G G' -> red G a b -> red G' a b.
Proof.
  intros HG H. induction H; try (constructor; auto; fail).
  apply r_delta. now rewrite <- (same_defs_lookup _ _ HG).
Qed.

(* group-freeness and hole-freeness of the definitions of a context *)
Definition ldefs_nl (G : ctx) : Prop := forall i d, lookup_def G i = Some d -> no_let d = true.
Definition ldefs_hf (G : ctx) : Prop := forall i d, lookup_def G i = Some d -> hole_free d = true.

Lemma open_arith_res o x y r i s k : arith o x y = Some r -> open r i s k = r.
Proof.
  destruct o; cbn [arith]; intros H;
    try (injection H as <-; reflexivity);
    try (injection H as <-; match goal with |- context [if ?c then _ else _] => destruct c; reflexivity end).
  destruct (y =? 0)%Z; [discriminate|]. injection H as <-. reflexivity.
Qed.

Lemma red_nl G a b : ldefs_nl G -> red G a b -> no_let a = true -> no_let b = true.
Proof.
  intros HG H. induction H; intros Hn; try discriminate Hn; nlhf_split; cbn [no_let];
    rewrite ?IHred by assumption;
    repeat match goal with H : no_let _ = true |- _ => rewrite H end; try reflexivity.
  - apply nl_open; assumption.
  - eapply HG; eassumption.
  - eapply nl_arith; eassumption.
Qed.

Lemma red_hf G a b : ldefs_hf G -> red G a b -> hole_free a = true -> hole_free b = true.
Proof.
  intros HG H. induction H; intros Hn;
    try (apply hf_let_whnf_body; exact Hn);
    nlhf_split; cbn [hole_free];
    rewrite ?IHred by assumption;
    repeat match goal with H : hole_free _ = true |- _ => rewrite H end; try reflexivity.
  - apply hf_open; assumption.
  - eapply HG; eassumption.
  - eapply hf_arith; eassumption.
Qed.

Definition nodefs (L : ctx) : Prop := Forall (fun e : entry => snd e = None) L.

Lemma lookup_def_nodefs_lt L G i : nodefs L -> i < length L -> lookup_def (L ++ G) i = None.
Proof.
  intros HL Hi. unfold lookup_def. rewrite nth_error_app1 by exact Hi.
  destruct (nth_error L i) as [[[T k] od]|] eqn:E; [|reflexivity].
  unfold nodefs in HL. rewrite Forall_forall in HL. specialize (HL _ (nth_error_In _ _ E)). cbn in HL. now subst od.
Qed.

(* Sub, one step: reduction commutes with substituting a term for a variable without definition *)
Lemma red_open L e G L' x : nodefs L -> snd e = None -> nodefs L' -> length L' = length L ->
  wf_offsets G -> ldefs_hf (L ++ e :: G) -> hole_free x = true -> no_let x = true ->
  forall t t1, red (L ++ e :: G) t t1 -> hole_free t = true -> no_let t = true ->
    red (L' ++ G) (open t (length L) x (length L)) (open t1 (length L) x (length L)).
Proof.
  intros HL He HL' Hlen WG HF Hx Nx t t1 H. set (i := length L).
  induction H as [im d b a | j d Hd | ds b | z | o y1 y2 r Ha | a b | a b
                  | f0 f0' a Hr IH | a a' Hr IH | o a a' b Hr IH | o a b b' Hr IH | c c' a b Hr IH];
    intros Hf Hn; nlhf_split; try discriminate Hn; cbn [open].
  - (* beta *)
    pose proof (open_open b 0 i a x) as E. rewrite !Nat.add_0_r in E. rewrite E by assumption. apply r_beta.
  - (* delta *)
    assert (Hj : i < j).
    { destruct (Nat.lt_ge_cases i j) as [|Hge]; [assumption|]. exfalso.
      destruct (Nat.eq_dec j i) as [->|Hne].
      - unfold lookup_def in Hd. subst i. rewrite nth_error_app2 in Hd by lia. rewrite Nat.sub_diag in Hd. cbn [nth_error] in Hd.
        destruct e as [[T k] od]. cbn in He. subst od. discriminate.
      - rewrite (lookup_def_nodefs_lt L (e :: G) j HL) in Hd by (subst i; lia). discriminate. }
    pose proof (HF _ _ Hd) as Hfd.
    unfold lookup_def in Hd. rewrite nth_error_app2 in Hd by (subst i; lia).
    replace (j - length L) with (S (j - S i)) in Hd by (subst i; lia). cbn [nth_error] in Hd.
    destruct (nth_error G (j - S i)) as [[[T0 k0] [d0|]]|] eqn:En; try discriminate. injection Hd as <-.
    pose proof (WG _ _ _ _ En) as Hk.
    assert (Nat.eqb j i = false) as -> by (apply Nat.eqb_neq; lia).
    assert (open_idx j i = j - 1) as -> by (unfold open_idx; destruct (Nat.ltb_spec i j); lia).
    replace (j + 1 - k0) with (S (j - k0)) in * by lia.
    rewrite hf_ushift in Hfd.
    rewrite open_shift_cancel by (auto; lia).
    apply r_delta. unfold lookup_def. rewrite nth_error_app2 by lia.
    replace (j - 1 - length L') with (j - S i) by (subst i; lia). rewrite En. do 2 f_equal. lia.
  - apply r_neg.
  - rewrite (open_arith_res _ _ _ _ _ _ _ Ha). now apply r_bin.
  - apply r_if_t.
  - apply r_if_f.
  - apply r_app1. auto.
  - apply r_neg1. auto.
  - apply r_bin1. auto.
  - apply r_bin2. auto.
  - apply r_if1. auto.
Qed.

(* ====================================================================================== *)
(* C.  "More evaluated presentations" of a type, and the conversion test                    *)
(* ====================================================================================== *)
(* The types computed by tcB differ from those computed by infer in exactly one way: at an
   application tcB's cells ?dom ?cod receive the WEAK-HEAD NORMAL FORMS of the domain and codomain of
   the function type, so its result type is  open (whnf B) 0 b 0  where infer has  open B 0 b 0.
   hr G T T' : T' is T with reduction steps applied at the root and, through function types, at the
   roots of domains and codomains.  The conversion test cannot tell T from T' (convb_hr). *)
Inductive hr (G : ctx) : term -> term -> Prop :=
| hr_refl t : hr G t t
| hr_step t t1 t' : red G t t1 -> hr G t1 t' -> hr G t t'
| hr_pi im a a' b b' : hr G a a' -> hr (bind G a) b b' -> hr G (TPi im a b) (TPi im a' b').

Lemma hr_conv G t t' : hr G t t' -> conv G t t'.
Proof.
  induction 1; [apply c_refl | eapply c_trans; [apply c_red; eassumption | assumption] | apply c_pi; assumption].
Qed.

Lemma hr_same_defs : forall G t t', hr G t t' -> forall G', same_defs G G' -> hr G' t t'.
Proof.
  induction 1; intros G' HG; [apply hr_refl | eapply hr_step; [eapply red_same_defs; eassumption | auto] |].
  apply hr_pi; [auto|]. apply IHhr2. apply same_defs_bind. exact HG.
Qed.

Lemma rstar_1n G a b : rstar G a b -> clos_refl_trans_1n term (red G) a b.
Proof. apply clos_rt_rt1n. Qed.

Lemma hr_of_rstar G a b : rstar G a b -> hr G a b.
Proof. intros H. apply rstar_1n in H. induction H; [apply hr_refl | eapply hr_step; eassumption]. Qed.

Lemma pi_no_red G im a b x : red G (TPi im a b) x -> False.
Proof. inversion 1. Qed.

Lemma rstar_pi G im a b x : rstar G (TPi im a b) x -> x = TPi im a b.
Proof. intros H. apply rstar_1n in H. inversion H as [|y z Hr _]; [reflexivity|]. exfalso. exact (pi_no_red _ _ _ _ _ Hr). Qed.

(* further evaluation of the right-hand side *)
Lemma hr_rstar_r G t t' : hr G t t' -> forall t'', rstar G t' t'' -> hr G t t''.
Proof.
  induction 1; intros t'' H''.
  - now apply hr_of_rstar.
  - eapply hr_step; [eassumption | auto].
  - rewrite (rstar_pi _ _ _ _ _ H''). now apply hr_pi.
Qed.

(* what hr means for weak-head normal forms *)
Inductive hrw (G : ctx) : term -> term -> Prop :=
| hrw_same u : hrw G u u
| hrw_pi im a a' b b' : hr G a a' -> hr (bind G a) b b' -> hrw G (TPi im a b) (TPi im a' b').

(* W: a more evaluated presentation has a weak-head normal form whenever the original has one, and
   it is the same up to hr on the components of a function type *)
Lemma hr_whnf G t t' : hr G t t' -> forall f u, whnf f G t = Some u -> exists f' u', whnf f' G t' = Some u' /\ hrw G u u'.
Proof.
  induction 1; intros f u W.
  - exists f, u. split; [exact W | apply hrw_same].
  - destruct (red_whnf _ _ _ H _ _ W) as [f1 W1]. exact (IHhr _ _ W1).
  - destruct f as [|f]; [discriminate|]. cbn [whnf] in W. injection W as <-.
    exists 1, (TPi im a' b'). split; [reflexivity | now apply hrw_pi].
Qed.

Lemma convb_head_mono f f' G u v r : f <= f' -> convb_head f G u v = Some r -> convb_head f' G u v = Some r.
Proof.
  intros L H. destruct u, v; cbn [convb_head] in *; try exact H.
  - destruct (Bool.eqb impl impl0); [eapply convb_mono; eassumption | exact H].
  - destruct (Bool.eqb impl impl0); [|exact H].
    eapply and3_mono; [| |exact H]; intros; eapply convb_mono; eassumption.
  - eapply and3_mono; [| |exact H]; intros; eapply convb_mono; eassumption.
  - eapply convb_mono; eassumption.
  - destruct (binop_eqb o o0); [|exact H]. eapply and3_mono; [| |exact H]; intros; eapply convb_mono; eassumption.
  - eapply and3_mono; [| |exact H]; [intros; eapply convb_mono; eassumption|].
    intros r0 H0. eapply and3_mono; [| |exact H0]; intros; eapply convb_mono; eassumption.
Qed.

Lemma convb_of_head f G t x u v r : whnf f G t = Some u -> whnf f G x = Some v -> convb_head f G u v = Some r ->
  convb (S f) G t x = Some r.
Proof. intros W1 W2 H. rewrite convb_S, W1, W2. exact H. Qed.

(* C: the conversion test gives the same verdict on more evaluated presentations *)
Theorem convb_hr : forall f G t x r, convb f G t x = Some r ->
  forall t' x', hr G t t' -> hr G x x' -> exists f', convb f' G t' x' = Some r.
Proof.
  induction f as [|f IH]; intros G t x r H t' x' Ht Hx; [discriminate|].
  rewrite convb_S in H.
  destruct (whnf f G t) as [u|] eqn:Wt; [|discriminate].
  destruct (whnf f G x) as [v|] eqn:Wx; [|discriminate].
  destruct (hr_whnf _ _ _ Ht _ _ Wt) as (f1 & u' & Wt' & Hu).
  destruct (hr_whnf _ _ _ Hx _ _ Wx) as (f2 & v' & Wx' & Hv).
  assert (Key : exists f', convb_head f' G u' v' = Some r).
  { assert (PiPi : forall i1 a1 b1 a1' b1' i2 a2 b2 a2' b2',
               hr G a1 a1' -> hr (bind G a1) b1 b1' -> hr G a2 a2' -> hr (bind G a2) b2 b2' ->
               convb_head f G (TPi i1 a1 b1) (TPi i2 a2 b2) = Some r ->
               exists f', convb_head f' G (TPi i1 a1' b1') (TPi i2 a2' b2') = Some r).
    { intros i1 a1 b1 a1' b1' i2 a2 b2 a2' b2' H1 H2 H3 H4 Hc. cbn [convb_head] in Hc |- *.
      destruct (Bool.eqb i1 i2); [|exists 0; exact Hc].
      unfold and3 in Hc. destruct (convb f G a1 a2) as [[|]|] eqn:C1; try discriminate Hc.
      - destruct (IH _ _ _ _ C1 _ _ H1 H3) as [n1 C1'].
        destruct (IH _ _ _ _ Hc _ _ H2 (hr_same_defs _ _ _ H4 _ (same_defs_bind _ _ _ _ (same_defs_refl G)))) as [n2 C2'].
        exists (Nat.max n1 n2). unfold and3. rewrite (convb_mono _ _ _ _ _ _ (Nat.le_max_l n1 n2) C1').
        rewrite (convb_same_defs _ (bind G a1') (bind G a1)) by (apply same_defs_bind, same_defs_refl).
        exact (convb_mono _ _ _ _ _ _ (Nat.le_max_r n1 n2) C2').
      - destruct (IH _ _ _ _ C1 _ _ H1 H3) as [n1 C1']. exists n1. unfold and3. rewrite C1'. exact Hc. }
    destruct Hu as [u | i1 a1 a1' b1 b1' Ha1 Hb1]; destruct Hv as [v | i2 a2 a2' b2 b2' Ha2 Hb2].
    - exists f. exact H.
    - destruct u; try (exists 0; exact H).
      eapply PiPi; [apply hr_refl | apply hr_refl | eassumption | eassumption | exact H].
    - destruct v; try (exists 0; exact H).
      eapply PiPi; [eassumption | eassumption | apply hr_refl | apply hr_refl | exact H].
    - eapply PiPi; eassumption. }
  destruct Key as [f3 K]. exists (S (Nat.max f3 (Nat.max f1 f2))).
  eapply convb_of_head; [eapply whnf_mono; [|exact Wt']; lia | eapply whnf_mono; [|exact Wx']; lia |].
  eapply convb_head_mono; [|exact K]. lia.
Qed.

(* Sub: hr is stable under substituting a term for a variable without definition *)
Lemma ldefs_hf_bind_app L e G a : ldefs_hf (L ++ e :: G) -> ldefs_hf (bind L a ++ e :: G).
Proof.
  intros H [|i] d E; [discriminate E|]. unfold lookup_def in E. cbn [bind app nth_error] in E.
  destruct (nth_error (L ++ e :: G) i) as [[[T k] [d0|]]|] eqn:En; try discriminate E. injection E as <-.
  rewrite hf_ushift. specialize (H i (ushift d0 0 (i + 1 - k))). unfold lookup_def in H. rewrite En in H.
  specialize (H eq_refl). now rewrite hf_ushift in H.
Qed.
Lemma ldefs_nl_ushift_inv : forall t c n, no_let (ushift t c n) = no_let t.
Proof.
  induction t; intros c n; cbn [ushift no_let]; try reflexivity; rewrite ?IHt, ?IHt1, ?IHt2, ?IHt3; reflexivity.
Qed.
Lemma ldefs_nl_bind_app L e G a : ldefs_nl (L ++ e :: G) -> ldefs_nl (bind L a ++ e :: G).
Proof.
  intros H [|i] d E; [discriminate E|]. unfold lookup_def in E. cbn [bind app nth_error] in E.
  destruct (nth_error (L ++ e :: G) i) as [[[T k] [d0|]]|] eqn:En; try discriminate E. injection E as <-.
  rewrite ldefs_nl_ushift_inv. specialize (H i (ushift d0 0 (i + 1 - k))). unfold lookup_def in H. rewrite En in H.
  specialize (H eq_refl). now rewrite ldefs_nl_ushift_inv in H.
Qed.

Lemma hr_open x : hole_free x = true -> no_let x = true ->
  forall Gb t t', hr Gb t t' ->
  forall L e G L', Gb = L ++ e :: G -> nodefs L -> snd e = None -> nodefs L' -> length L' = length L ->
    wf_offsets G -> ldefs_hf Gb -> ldefs_nl Gb -> hole_free t = true -> no_let t = true ->
    hr (L' ++ G) (open t (length L) x (length L)) (open t' (length L) x (length L)).
Proof.
  intros Hx Nx Gb t t' H. induction H as [Gb t | Gb t t1 t' Hr H IH | Gb im a a' b b' Ha IHa Hb IHb];
    intros L e G L' -> HL He HL' Hlen WG HF HN Hf Hn.
  - apply hr_refl.
  - eapply hr_step; [eapply red_open; eassumption|].
    eapply IH; try eassumption; [reflexivity | eapply red_hf; eassumption | eapply red_nl; eassumption].
  - nlhf_split. cbn [open]. apply hr_pi; [eapply IHa; try eassumption; reflexivity|].
    change (bind (L' ++ G) (open a (length L) x (length L))) with (bind L' (open a (length L) x (length L)) ++ G).
    change (S (length L)) with (length (bind L a)).
    eapply IHb; try eassumption.
    + reflexivity.
    + constructor; [reflexivity | exact HL].
    + constructor; [reflexivity | exact HL'].
    + cbn [bind length]. now rewrite Hlen.
    + now apply ldefs_hf_bind_app.
    + now apply ldefs_nl_bind_app.
Qed.

Corollary hr_open0 G A B B' x : hole_free x = true -> no_let x = true -> wf_offsets G ->
  ldefs_hf (bind G A) -> ldefs_nl (bind G A) -> hole_free B = true -> no_let B = true ->
  hr (bind G A) B B' -> hr G (open B 0 x 0) (open B' 0 x 0).
Proof.
  intros Hx Nx WG HF HN Hf Hn H.
  exact (hr_open x Hx Nx _ _ _ H [] (A, 0, None) G [] eq_refl (Forall_nil _) eq_refl (Forall_nil _) eq_refl WG HF HN Hf Hn).
Qed.

(* ====================================================================================== *)
(* D.  No false rejection: whenever tcB answers on a program accepted by infer, it accepts   *)
(* ====================================================================================== *)

(* ---------- group-free contexts, and the types infer computes in them ---------- *)
Definition entry_nl (e : entry) : Prop :=
  no_let (fst (fst e)) = true /\ match snd e with Some d => no_let d = true | None => True end.
Definition ctx_nl (G : ctx) : Prop := Forall entry_nl G.

Lemma ctx_nl_bind G A : no_let A = true -> ctx_nl G -> ctx_nl (bind G A).
Proof. intros HA H. constructor; [split; [exact HA | exact I] | exact H]. Qed.

Lemma ctx_nl_lookup_ty G i T : ctx_nl G -> lookup_ty G i = Some T -> no_let T = true.
Proof.
  intros H E. unfold lookup_ty in E. destruct (nth_error G i) as [[[T0 k] d]|] eqn:N; [|discriminate].
  injection E as <-. apply nl_ushift.
  unfold ctx_nl in H. rewrite Forall_forall in H. exact (proj1 (H _ (nth_error_In _ _ N))).
Qed.

Lemma ctx_nl_ldefs G : ctx_nl G -> ldefs_nl G.
Proof.
  intros H i d E. unfold lookup_def in E. destruct (nth_error G i) as [[[T0 k] [d0|]]|] eqn:N; try discriminate.
  injection E as <-. apply nl_ushift.
  unfold ctx_nl in H. rewrite Forall_forall in H. exact (proj2 (H _ (nth_error_In _ _ N))).
Qed.

Lemma ctx_hf_ldefs G : ctx_hf G -> ldefs_hf G.
Proof. intros H i d E. eapply ctx_hf_lookup; eassumption. Qed.

Lemma rstar_nl G a b : ldefs_nl G -> rstar G a b -> no_let a = true -> no_let b = true.
Proof. intros HG H. induction H; eauto using red_nl. Qed.

Lemma whnf_nl f G t u : ctx_nl G -> no_let t = true -> whnf f G t = Some u -> no_let u = true.
Proof. intros HG Hn W. eapply rstar_nl; [apply ctx_nl_ldefs; exact HG | eapply whnf_sound; exact W | exact Hn]. Qed.

Theorem infer_nl : forall f G t T, ctx_nl G -> no_let t = true -> infer f G t = Some T -> no_let T = true.
Proof.
  induction f as [|f IH]; intros G t T HG Ht H; [discriminate|].
  destruct t as [i s| | | | | |z|i|im d b|im d b|a b|ds b|a|o a b|c a b]; cbn [infer] in H; cbn [no_let] in Ht;
    try discriminate Ht; try (injection H as <-; reflexivity).
  - eapply ctx_nl_lookup_ty; eauto.
  - apply andb_prop in Ht as [Fd Fb].
    destruct (infer f G d) as [Td|]; [|discriminate].
    destruct (is_true (convb f G Td TType)); [|discriminate].
    destruct (infer f (bind G d) b) as [B|] eqn:E2; [|discriminate]. injection H as <-.
    cbn [no_let]. rewrite Fd. cbn [andb]. eapply IH; [|exact Fb|exact E2]. apply ctx_nl_bind; auto.
  - destruct (infer f G d) as [Td|]; [|discriminate].
    destruct (is_true (convb f G Td TType)); [|discriminate].
    destruct (infer f (bind G d) b) as [Tb|]; [|discriminate].
    destruct (is_true (convb f (bind G d) Tb TType)); [|discriminate]. injection H as <-. reflexivity.
  - apply andb_prop in Ht as [Fa Fb].
    destruct (infer f G a) as [F|] eqn:E1; [|discriminate].
    destruct (whnf f G F) as [[ ? ? | | | | | | ? | ? | ? ? ? | im A B | ? ? | ? ? | ? | ? ? ? | ? ? ? ]|] eqn:W1; try discriminate.
    destruct im; try discriminate.
    destruct (infer f G b) as [A'|]; [|discriminate].
    destruct (is_true (convb f G A' A)); [|discriminate]. injection H as <-.
    pose proof (whnf_nl _ _ _ _ HG (IH _ _ _ HG Fa E1) W1) as N. cbn [no_let] in N. apply andb_prop in N as [_ NB].
    now apply nl_open.
  - destruct (infer f G a) as [Ta|]; [|discriminate].
    destruct (is_true (convb f G Ta TInt)); [|discriminate]. injection H as <-. reflexivity.
  - destruct (infer f G a) as [Ta|]; [|discriminate]. destruct (infer f G b) as [Tb|]; [|discriminate].
    destruct (is_true (convb f G Ta TInt) && is_true (convb f G Tb TInt)); [|discriminate].
    injection H as <-. apply nl_bin_ty.
  - apply andb_prop in Ht as [Ht F3]. apply andb_prop in Ht as [F1 F2].
    destruct (infer f G c) as [Tc|]; [|discriminate]. destruct (infer f G a) as [Ta|] eqn:E2; [|discriminate].
    destruct (infer f G b) as [Tb|]; [|discriminate].
    destruct (is_true (convb f G Tc TBool) && is_true (convb f G Tb Ta)); [|discriminate].
    injection H as <-. eauto.
Qed.

(* the declarative context that corresponds to the checker's contexts *)
Definition gz_ok (Gz : ctx) : Prop := wf_offsets Gz /\ ctx_hf' Gz /\ ctx_nl Gz.

Lemma gz_ok_nil : gz_ok [].
Proof. split; [apply wf_offsets_nil | split; constructor]. Qed.

Lemma gz_ok_bind Gz d : gz_ok Gz -> hole_free d = true -> no_let d = true -> gz_ok (bind Gz d).
Proof.
  intros (H1 & H2 & H3) Hf Hn. split; [now apply wf_offsets_bind | split; [now apply ctx_hf'_bind | now apply ctx_nl_bind]].
Qed.

(* ---------- L3, decided: the function-type probe against a type whose whnf is a function type ---------- *)
Theorem unifyB_pi_fresh_dec f s D dom cod F Fu ok s' G f0 A B :
  hf_dctx D -> same_defs G (G_of_D D) -> dom <> cod ->
  sget s dom = None -> sget s cod = None -> dom < length s -> cod < length s ->
  zk s F Fu -> whnf f0 G Fu = Some (TPi false A B) ->
  unifyB f s D (TPi false (THole dom 0) (THole cod 0)) F = Some (ok, s') ->
  ok = true /\ StoreProofs.ext s s' /\ exists A2 B2, zk s' (THole dom 0) A2 /\ zk s' (THole cod 0) B2 /\
    rstar G A A2 /\ rstar (bind G A) B B2.
Proof.
  intros HD HG Hne Hn1 Hn2 Hl1 Hl2 Hz HW H. destruct f as [|f]; [discriminate|].
  rewrite unifyB_S in H. unfold unify_body in H.
  destruct (syn_eqB f s (TPi false (THole dom 0) (THole cod 0)) F) as [e|] eqn:Es; [|discriminate].
  apply (syn_eqB_pi_fresh _ _ _ _ _ _ _ _ _ Hn1 Hz) in Es. subst e.
  destruct (whnfB f s D (TPi false (THole dom 0) (THole cod 0))) as [[w1 s1]|] eqn:W1; [|discriminate].
  destruct (whnfB_pi _ _ _ _ _ _ _ _ W1) as [-> ->].
  destruct (whnfB f s D F) as [[w2 s2]|] eqn:W2; [|discriminate].
  destruct (whnfB_zk _ _ _ _ _ _ _ HD Hz W2) as (-> & Nh & wu & Zw & W).
  rewrite <- (whnf_same_defs f G (G_of_D D) Fu HG) in W.
  pose proof (whnf_det _ _ _ _ _ _ W HW) as ->.
  destruct w2; try discriminate Nh; apply zk_inv in Zw; cbn beta iota in Zw;
    repeat match goal with X : exists _, _ |- _ => destruct X | X : _ /\ _ |- _ => destruct X end; try discriminate.
  match goal with X : TPi _ _ _ = TPi _ _ _ |- _ => injection X as <- <- <- end.
  cbv beta iota zeta delta [unify_head] in H. cbn [Bool.eqb] in H.
  destruct (unifyB f s D (THole dom 0) w2_1) as [[u1 sa]|] eqn:U1; [|discriminate].
  match goal with Hd2 : zk s w2_1 _, Hb2 : zk s w2_2 _ |- _ =>
    destruct (unifyB_fresh_hole _ _ _ _ _ _ _ _ HD Hn1 Hd2 U1) as (-> & sol1 & A2 & f1 & -> & Zs1 & WA);
    assert (E1 : StoreProofs.ext s (sset s dom sol1)) by (apply sset_ext; exact Hn1);
    assert (Hn2' : sget (sset s dom sol1) cod = None) by (rewrite sget_sset_other; [exact Hn2 | congruence]);
    destruct (unifyB_fresh_hole _ _ _ _ _ _ _ _ (hf_dctx_cons_None _ HD) Hn2' (zk_ext _ _ _ _ E1 Hb2) H)
      as (-> & sol2 & B2 & f2 & -> & Zs2 & WB)
  end.
  assert (E2 : StoreProofs.ext (sset s dom sol1) (sset (sset s dom sol1) cod sol2)) by (apply sset_ext; exact Hn2').
  split; [reflexivity|]. split; [eapply ext_trans; eassumption|].
  exists A2, B2. split; [|split; [|split]].
  - eapply zk_ext; [exact E2|]. apply zk_sset; assumption.
  - apply zk_sset; [exact Hn2' | now rewrite sset_length | exact Zs2].
  - rewrite <- (whnf_same_defs f1 G (G_of_D D) _ HG) in WA. eapply whnf_sound. exact WA.
  - rewrite <- (whnf_same_defs f2 (bind G A) (G_of_D (None :: D)) _) in WB by (apply same_defs_bind; exact HG).
    eapply whnf_sound. exact WB.
Qed.

Lemma unify_true_of_convb f s D a b ok s' au bu G f0 :
  same_defs G (G_of_D D) -> hf_dctx D -> zk s a au -> zk s b bu ->
  unifyB f s D a b = Some (ok, s') -> convb f0 G au bu = Some true -> ok = true /\ s' = s.
Proof.
  intros HG HD Ha Hb H C. destruct (unifyB_zk_convb _ _ _ _ _ _ _ _ _ _ HG HD Ha Hb H) as [-> K].
  split; [symmetry; exact (K _ _ C) | reflexivity].
Qed.

Lemma expectB_ok f s D a w e es s' es' au wu G f0 :
  same_defs G (G_of_D D) -> hf_dctx D -> zk s a au -> zk s w wu ->
  expectB f s D a w e es = Some (s', es') -> convb f0 G au wu = Some true -> s' = s /\ es' = es.
Proof.
  unfold expectB. intros HG HD Ha Hw H C.
  destruct (unifyB f s D a w) as [[ok s1]|] eqn:U; [|discriminate]. injection H as <- <-.
  destruct (unify_true_of_convb _ _ _ _ _ _ _ _ _ _ _ HG HD Ha Hw U C) as [-> ->]. auto.
Qed.

Lemma rstar_same_defs G G' a b : same_defs G G' -> rstar G a b -> rstar G' a b.
Proof.
  intros HG H. induction H; [apply rt_step; eapply red_same_defs; eassumption | apply rt_refl | eapply rt_trans; eassumption].
Qed.

Lemma ctx_rel_lookup_none G D Gz i : ctx_rel G D Gz -> nth_error G i = None -> lookup_ty Gz i = None.
Proof.
  intros (H1 & _) E. unfold lookup_ty.
  assert (N : nth_error Gz i = None).
  { revert i E. induction H1 as [|x y l l' _ _ IHl]; intros [|i] E; cbn [nth_error] in *; try discriminate; try reflexivity.
    apply IHl. exact E. }
  now rewrite N.
Qed.

Lemma hrw_pi_inv G im A B u' : hrw G (TPi im A B) u' ->
  exists A' B', u' = TPi im A' B' /\ hr G A A' /\ hr (bind G A) B B'.
Proof. inversion 1; subst; [exists A, B; repeat split; apply hr_refl | eauto]. Qed.

Lemma is_true_some o : is_true o = true -> o = Some true.
Proof. apply is_true_iff. Qed.

Theorem tcB_accepts_nl : forall f' s G D t r Gz,
  ctx_rel G D Gz -> gz_ok Gz -> hole_free t = true -> no_let t = true ->
  tcB f' s G D t = Some r -> forall f T, infer f Gz t = Some T ->
  b_errs r = [] /\ exists T', zk (b_st r) (b_ty r) T' /\ hr Gz T T'.
Proof.
  induction f' as [|f' IH]; intros s G D t r Gz HC HZ Hf Hn H f T HI; [discriminate|].
  pose proof HC as (HC1 & HS & HD & ND). pose proof HZ as (WZ & HZf & HZn).
  destruct f as [|f]; [discriminate|].
  destruct t; cbn [tcB] in H; cbn [hole_free] in Hf; cbn [no_let] in Hn; cbn [infer] in HI.
  - discriminate Hf.
  - injection H as <-. injection HI as <-. split; [reflexivity|]. exists TType. split; [constructor | apply hr_refl].
  - injection H as <-. injection HI as <-. split; [reflexivity|]. exists TType. split; [constructor | apply hr_refl].
  - injection H as <-. injection HI as <-. split; [reflexivity|]. exists TType. split; [constructor | apply hr_refl].
  - injection H as <-. injection HI as <-. split; [reflexivity|]. exists TBool. split; [constructor | apply hr_refl].
  - injection H as <-. injection HI as <-. split; [reflexivity|]. exists TBool. split; [constructor | apply hr_refl].
  - injection H as <-. injection HI as <-. split; [reflexivity|]. exists TInt. split; [constructor | apply hr_refl].
  - (* var *)
    destruct (nth_error G i) as [[T0 off]|] eqn:En.
    + destruct (ushiftB f' s T0 0 (i + 1 - off)) as [T1|] eqn:U; [|discriminate]. injection H as <-. cbn [b_st b_ty b_errs].
      destruct (ctx_rel_lookup _ _ _ _ _ _ HC En) as (L & HfT & NT). rewrite L in HI. injection HI as <-.
      apply (ushiftB_hole_free _ _ _ _ _ _ HfT) in U. subst T1.
      split; [reflexivity|]. eexists. split; [apply zk_refl_hf; now rewrite hf_ushift | apply hr_refl].
    + rewrite (ctx_rel_lookup_none _ _ _ _ HC En) in HI. discriminate.
  - (* lam *)
    apply andb_true_iff in Hf; destruct Hf as [Hf1 Hf2]. apply andb_true_iff in Hn; destruct Hn as [Hn1 Hn2].
    destruct (infer f Gz t1) as [Td|] eqn:I1; [|discriminate].
    destruct (is_true (convb f Gz Td TType)) eqn:C1; [|discriminate]. apply is_true_some in C1.
    destruct (infer f (bind Gz t1) t2) as [B|] eqn:I2; [|discriminate]. injection HI as <-.
    destruct (tcB f' s G D t1) as [rd|] eqn:E1; [|discriminate].
    destruct (expectB f' (b_st rd) D (b_ty rd) TType ENotType (b_errs rd)) as [[s1 es1]|] eqn:X1; [|discriminate].
    destruct (tcB f' s1 ((b_elab rd, 0) :: G) (None :: D) t2) as [rb|] eqn:E2; [|discriminate].
    injection H as <-. cbn [b_errs b_st b_ty].
    destruct (IH _ _ _ _ _ _ HC HZ Hf1 Hn1 E1 _ _ I1) as (Hed & Td' & Zd & Rd).
    destruct (convb_hr _ _ _ _ _ C1 _ _ Rd (hr_refl _ _)) as [n1 C1'].
    destruct (expectB_ok _ _ _ _ _ _ _ _ _ _ _ _ _ HS HD Zd (zk_type _) X1 C1') as [-> ->].
    rewrite (tcB_elab_identity _ _ _ _ _ _ E1) in *.
    destruct (IH _ _ _ _ _ _ (ctx_rel_bind _ _ _ _ HC Hf1 Hn1) (gz_ok_bind _ _ HZ Hf1 Hn1) Hf2 Hn2 E2 _ _ I2) as (Heb & B' & Zb & Rb).
    split; [now rewrite Hed, Heb|]. exists (TPi impl t1 B').
    split; [constructor; [apply zk_refl_hf; exact Hf1 | exact Zb] | apply hr_pi; [apply hr_refl | exact Rb]].
  - (* pi *)
    apply andb_true_iff in Hf; destruct Hf as [Hf1 Hf2]. apply andb_true_iff in Hn; destruct Hn as [Hn1 Hn2].
    destruct (infer f Gz t1) as [Td|] eqn:I1; [|discriminate].
    destruct (is_true (convb f Gz Td TType)) eqn:C1; [|discriminate]. apply is_true_some in C1.
    destruct (infer f (bind Gz t1) t2) as [Tb|] eqn:I2; [|discriminate].
    destruct (is_true (convb f (bind Gz t1) Tb TType)) eqn:C2; [|discriminate]. apply is_true_some in C2. injection HI as <-.
    destruct (tcB f' s G D t1) as [rd|] eqn:E1; [|discriminate].
    destruct (expectB f' (b_st rd) D (b_ty rd) TType ENotType (b_errs rd)) as [[s1 es1]|] eqn:X1; [|discriminate].
    destruct (tcB f' s1 ((b_elab rd, 0) :: G) (None :: D) t2) as [rb|] eqn:E2; [|discriminate].
    destruct (expectB f' (b_st rb) (None :: D) (b_ty rb) TType ENotType (es1 ++ b_errs rb)) as [[s2 es2]|] eqn:X2; [|discriminate].
    injection H as <-. cbn [b_errs b_st b_ty].
    destruct (IH _ _ _ _ _ _ HC HZ Hf1 Hn1 E1 _ _ I1) as (Hed & Td' & Zd & Rd).
    destruct (convb_hr _ _ _ _ _ C1 _ _ Rd (hr_refl _ _)) as [n1 C1'].
    destruct (expectB_ok _ _ _ _ _ _ _ _ _ _ _ _ _ HS HD Zd (zk_type _) X1 C1') as [-> ->].
    rewrite (tcB_elab_identity _ _ _ _ _ _ E1) in *.
    pose proof (ctx_rel_bind _ _ _ _ HC Hf1 Hn1) as HC'. pose proof HC' as (_ & HS' & HD' & ND').
    destruct (IH _ _ _ _ _ _ HC' (gz_ok_bind _ _ HZ Hf1 Hn1) Hf2 Hn2 E2 _ _ I2) as (Heb & Tb' & Zb & Rb).
    destruct (convb_hr _ _ _ _ _ C2 _ _ Rb (hr_refl _ _)) as [n2 C2'].
    destruct (expectB_ok _ _ _ _ _ _ _ _ _ _ _ _ _ HS' HD' Zb (zk_type _) X2 C2') as [-> ->].
    split; [now rewrite Hed, Heb|]. exists TType. split; [constructor | apply hr_refl].
  - (* app *)
    apply andb_true_iff in Hf; destruct Hf as [Hf1 Hf2]. apply andb_true_iff in Hn; destruct Hn as [Hn1 Hn2].
    destruct (infer f Gz t1) as [F|] eqn:I1; [|discriminate].
    destruct (whnf f Gz F) as [[ ? ? | | | | | | ? | ? | ? ? ? | im A B | ? ? | ? ? | ? | ? ? ? | ? ? ? ]|] eqn:W1; try discriminate.
    destruct im; try discriminate.
    destruct (infer f Gz t2) as [A0|] eqn:I2; [|discriminate].
    destruct (is_true (convb f Gz A0 A)) eqn:C1; [|discriminate]. apply is_true_some in C1. injection HI as <-.
    destruct (tcB f' s G D t1) as [ra|] eqn:E1; [|discriminate].
    unfold fresh_hole, salloc in H.
    set (s0 := b_st ra) in *. set (s2 := (s0 ++ [None]) ++ [None]) in *.
    destruct (expectB f' s2 D (TPi false (THole (length s0) 0) (THole (length (s0 ++ [None])) 0)) (b_ty ra) ENotFunction (b_errs ra))
      as [[s3 es3]|] eqn:X1; [|discriminate].
    destruct (tcB f' s3 G D t2) as [rb|] eqn:E2; [|discriminate].
    destruct (expectB f' (b_st rb) D (THole (length s0) 0) (b_ty rb) EArgument (es3 ++ b_errs rb)) as [[s4 es4]|] eqn:X2; [|discriminate].
    destruct (openB f' s4 (THole (length (s0 ++ [None])) 0) 0 (b_elab rb) 0) as [[T s5]|] eqn:O; [|discriminate].
    injection H as <-. cbn [b_errs b_st b_ty].
    destruct (IH _ _ _ _ _ _ HC HZ Hf1 Hn1 E1 _ _ I1) as (Hea & F' & Zf & Rf). fold s0 in Zf.
    (* the function type on the infer side: hole-free, group-free, with a function type as whnf *)
    pose proof (infer_hole_free _ _ _ _ HZf Hf1 I1) as HfF. pose proof (infer_nl _ _ _ _ HZn Hn1 I1) as NF.
    pose proof (whnf_hole_free _ _ _ _ (ctx_hf'_hf _ HZf) HfF W1) as HfW. pose proof (whnf_nl _ _ _ _ HZn NF W1) as NW.
    cbn [hole_free] in HfW. cbn [no_let] in NW.
    apply andb_true_iff in HfW; destruct HfW as [HfA HfB]. apply andb_true_iff in NW; destruct NW as [NA NB].
    destruct (hr_whnf _ _ _ Rf _ _ W1) as (f1 & u' & W1' & Hu).
    destruct (hrw_pi_inv _ _ _ _ _ Hu) as (A' & B' & -> & RA & RB).
    assert (G02 : grow s0 s2) by (eapply grow_trans; apply grow_snoc).
    assert (Zf2 : zk s2 (b_ty ra) F') by (eapply zk_ext; [apply grow_ext; exact G02 | exact Zf]).
    assert (L2 : length s2 = S (S (length s0))) by (unfold s2; rewrite !app_length; cbn [length]; lia).
    assert (L1 : length (s0 ++ [None]) = S (length s0)) by (rewrite app_length; cbn [length]; lia).
    assert (Hn_dom : sget s2 (length s0) = None) by (rewrite (grow_sget _ _ _ G02); apply sget_ge; lia).
    assert (Hn_cod : sget s2 (length (s0 ++ [None])) = None).
    { unfold s2. rewrite (grow_sget _ _ _ (grow_snoc (s0 ++ [None]))). apply sget_ge. lia. }
    assert (Hne : length s0 <> length (s0 ++ [None])) by lia.
    assert (Hl1 : length s0 < length s2) by lia. assert (Hl2 : length (s0 ++ [None]) < length s2) by lia.
    unfold expectB in X1.
    destruct (unifyB f' s2 D (TPi false (THole (length s0) 0) (THole (length (s0 ++ [None])) 0)) (b_ty ra)) as [[ok1 s3']|] eqn:U1; [|discriminate].
    injection X1 as <- <-.
    destruct (unifyB_pi_fresh_dec _ _ _ _ _ _ _ _ _ Gz _ _ _ HD HS Hne Hn_dom Hn_cod Hl1 Hl2 Zf2 W1' U1)
      as (-> & X23 & A2 & B2 & ZA & ZB & SA & SB).
    assert (RA2 : hr Gz A A2) by (eapply hr_rstar_r; eassumption).
    assert (RB2 : hr (bind Gz A) B B2).
    { eapply hr_rstar_r; [exact RB|]. eapply rstar_same_defs; [|exact SB]. apply same_defs_bind, same_defs_refl. }
    destruct (IH _ _ _ _ _ _ HC HZ Hf2 Hn2 E2 _ _ I2) as (Heb & A0' & Za0 & Ra0).
    pose proof (tcB_ext _ _ _ _ _ _ E2) as X3b.
    destruct (convb_hr _ _ _ _ _ C1 _ _ Ra0 RA2) as [n1 C1']. rewrite convb_sym in C1'.
    destruct (expectB_ok _ _ _ _ _ _ _ _ _ _ _ _ _ HS HD (zk_ext _ _ _ _ X3b ZA) Za0 X2 C1') as [-> ->].
    rewrite (tcB_elab_identity _ _ _ _ _ _ E2) in O.
    destruct (openB_zk _ _ _ _ _ _ _ _ _ _ (zk_ext _ _ _ _ X3b ZB) (zk_refl_hf _ _ Hf2) O) as [-> ZT].
    split; [now rewrite Hea, Heb|]. exists (open B2 0 t2 0). split; [exact ZT|].
    apply (hr_open0 Gz A); auto.
    + apply ctx_hf_ldefs. apply ctx_hf_bind. exact (ctx_hf'_hf _ HZf).
    + apply ctx_nl_ldefs. apply ctx_nl_bind; assumption.
  - discriminate Hn.
  - (* neg *)
    destruct (infer f Gz t) as [Ta|] eqn:I1; [|discriminate].
    destruct (is_true (convb f Gz Ta TInt)) eqn:C1; [|discriminate]. apply is_true_some in C1. injection HI as <-.
    destruct (tcB f' s G D t) as [ra|] eqn:E1; [|discriminate].
    destruct (expectB f' (b_st ra) D (b_ty ra) TInt ENotInt (b_errs ra)) as [[s1 es1]|] eqn:X1; [|discriminate].
    injection H as <-. cbn [b_errs b_st b_ty].
    destruct (IH _ _ _ _ _ _ HC HZ Hf Hn E1 _ _ I1) as (Hea & Ta' & Za & Ra).
    destruct (convb_hr _ _ _ _ _ C1 _ _ Ra (hr_refl _ _)) as [n1 C1'].
    destruct (expectB_ok _ _ _ _ _ _ _ _ _ _ _ _ _ HS HD Za (zk_int _) X1 C1') as [-> ->].
    split; [exact Hea|]. exists TInt. split; [constructor | apply hr_refl].
  - (* bin *)
    apply andb_true_iff in Hf; destruct Hf as [Hf1 Hf2]. apply andb_true_iff in Hn; destruct Hn as [Hn1 Hn2].
    destruct (infer f Gz t1) as [Ta|] eqn:I1; [|discriminate].
    destruct (infer f Gz t2) as [Tb|] eqn:I2; [|discriminate].
    destruct (is_true (convb f Gz Ta TInt) && is_true (convb f Gz Tb TInt)) eqn:C; [|discriminate].
    apply andb_true_iff in C; destruct C as [C1 C2]. apply is_true_some in C1. apply is_true_some in C2. injection HI as <-.
    destruct (tcB f' s G D t1) as [ra|] eqn:E1; [|discriminate].
    destruct (expectB f' (b_st ra) D (b_ty ra) TInt ENotInt (b_errs ra)) as [[s1 es1]|] eqn:X1; [|discriminate].
    destruct (tcB f' s1 G D t2) as [rb|] eqn:E2; [|discriminate].
    destruct (expectB f' (b_st rb) D (b_ty rb) TInt ENotInt (es1 ++ b_errs rb)) as [[s2 es2]|] eqn:X2; [|discriminate].
    injection H as <-. cbn [b_errs b_st b_ty].
    destruct (IH _ _ _ _ _ _ HC HZ Hf1 Hn1 E1 _ _ I1) as (Hea & Ta' & Za & Ra).
    destruct (convb_hr _ _ _ _ _ C1 _ _ Ra (hr_refl _ _)) as [n1 C1'].
    destruct (expectB_ok _ _ _ _ _ _ _ _ _ _ _ _ _ HS HD Za (zk_int _) X1 C1') as [-> ->].
    destruct (IH _ _ _ _ _ _ HC HZ Hf2 Hn2 E2 _ _ I2) as (Heb & Tb' & Zb & Rb).
    destruct (convb_hr _ _ _ _ _ C2 _ _ Rb (hr_refl _ _)) as [n2 C2'].
    destruct (expectB_ok _ _ _ _ _ _ _ _ _ _ _ _ _ HS HD Zb (zk_int _) X2 C2') as [-> ->].
    split; [now rewrite Hea, Heb|]. exists (bin_ty o). split; [apply zk_bin_ty | apply hr_refl].
  - (* if *)
    apply andb_true_iff in Hf; destruct Hf as [Hf12 Hf3]. apply andb_true_iff in Hf12; destruct Hf12 as [Hf1 Hf2].
    apply andb_true_iff in Hn; destruct Hn as [Hn12 Hn3]. apply andb_true_iff in Hn12; destruct Hn12 as [Hn1 Hn2].
    destruct (infer f Gz t1) as [Tc|] eqn:I1; [|discriminate].
    destruct (infer f Gz t2) as [Ta|] eqn:I2; [|discriminate].
    destruct (infer f Gz t3) as [Tb|] eqn:I3; [|discriminate].
    destruct (is_true (convb f Gz Tc TBool) && is_true (convb f Gz Tb Ta)) eqn:C; [|discriminate].
    apply andb_true_iff in C; destruct C as [C1 C2]. apply is_true_some in C1. apply is_true_some in C2. injection HI as <-.
    destruct (tcB f' s G D t1) as [rc|] eqn:E1; [|discriminate].
    destruct (expectB f' (b_st rc) D (b_ty rc) TBool ENotBool (b_errs rc)) as [[s1 es1]|] eqn:X1; [|discriminate].
    destruct (tcB f' s1 G D t2) as [ra|] eqn:E2; [|discriminate].
    destruct (tcB f' (b_st ra) G D t3) as [rb|] eqn:E3; [|discriminate].
    destruct (expectB f' (b_st rb) D (b_ty ra) (b_ty rb) EBranches (es1 ++ b_errs ra ++ b_errs rb)) as [[s2 es2]|] eqn:X2; [|discriminate].
    injection H as <-. cbn [b_errs b_st b_ty].
    destruct (IH _ _ _ _ _ _ HC HZ Hf1 Hn1 E1 _ _ I1) as (Hec & Tc' & Zc & Rc).
    destruct (convb_hr _ _ _ _ _ C1 _ _ Rc (hr_refl _ _)) as [n1 C1'].
    destruct (expectB_ok _ _ _ _ _ _ _ _ _ _ _ _ _ HS HD Zc (zk_bool _) X1 C1') as [-> ->].
    destruct (IH _ _ _ _ _ _ HC HZ Hf2 Hn2 E2 _ _ I2) as (Hea & Ta' & Za & Ra).
    destruct (IH _ _ _ _ _ _ HC HZ Hf3 Hn3 E3 _ _ I3) as (Heb & Tb' & Zb & Rb).
    pose proof (tcB_ext _ _ _ _ _ _ E3) as Xab.
    destruct (convb_hr _ _ _ _ _ C2 _ _ Rb Ra) as [n2 C2']. rewrite convb_sym in C2'.
    destruct (expectB_ok _ _ _ _ _ _ _ _ _ _ _ _ _ HS HD (zk_ext _ _ _ _ Xab Za) Zb X2 C2') as [-> ->].
    split; [now rewrite Hec, Hea, Heb|]. exists Ta'. split; [exact (zk_ext _ _ _ _ Xab Za) | exact Ra].
Qed.

(* ---------- definition groups on the spine ---------- *)
(* the relation between infer's type and tcB's type across the exits of groups *)
Inductive hrg (G : ctx) : term -> term -> Prop :=
| hrg_base T T' : hr G T T' -> hrg G T T'
| hrg_group ds B B' : hrg (enter ds G) B B' ->
    hrg G (group_type (length ds) ds 0 (length ds) B) (group_type (length ds) ds 0 (length ds) B').

Lemma ctx_nl_push_group : forall ds n j G, nl_defs ds = true -> ctx_nl G -> ctx_nl (push_group n ds j G).
Proof.
  induction ds as [|[a d] r IH]; intros n j G H HG; cbn [push_group]; [exact HG|].
  apply nl_defs_cons in H. destruct H as (Na & Nd & Nr). apply IH; [exact Nr|].
  constructor; [split; cbn; assumption | exact HG].
Qed.

Lemma gz_ok_enter ds Gz : gz_ok Gz -> ModelBHoleFree.hf_defs ds = true -> nl_defs ds = true -> gz_ok (enter ds Gz).
Proof.
  intros (H1 & H2 & H3) Hf Hn. split; [now apply wf_offsets_enter|]. split.
  - apply ctx_hf'_enter; [exact Hf | exact H2].
  - apply ctx_nl_push_group; assumption.
Qed.

Lemma tc_defs_accepts f' (tc : storeB -> term -> option tcres) D' Gz' (inf : term -> option term) (cv : term -> term -> option bool) :
  (forall s0 t r, hole_free t = true -> no_let t = true -> tc s0 t = Some r -> forall T, inf t = Some T ->
     b_errs r = [] /\ exists T', zk (b_st r) (b_ty r) T' /\ hr Gz' T T') ->
  (forall a b, is_true (cv a b) = true -> exists f0, convb f0 Gz' a b = Some true) ->
  hf_dctx D' -> same_defs Gz' (G_of_D D') ->
  forall l s0 es l' s1 es1, ModelBHoleFree.hf_defs l = true -> nl_defs l = true -> infer_defs inf cv l = true ->
    tc_defs f' tc D' l s0 es = Some (l', s1, es1) -> es1 = es.
Proof.
  intros Htc Hcv HD HS. induction l as [|[a d] rest IHl]; intros s0 es l' s1 es1 Hf Hn HI H; cbn [tc_defs] in H.
  - now injection H as _ _ <-.
  - apply hf_defs_cons in Hf. destruct Hf as (Ha & Hd & Hr). apply nl_defs_cons in Hn. destruct Hn as (Na & Nd & Nr).
    cbn [infer_defs] in HI.
    destruct (inf a) as [Ta|] eqn:I1; [|discriminate]. destruct (inf d) as [Td|] eqn:I2; [|discriminate].
    apply andb_true_iff in HI. destruct HI as [HI HI3]. apply andb_true_iff in HI. destruct HI as [C1 C2].
    destruct (Hcv _ _ C1) as [n1 C1']. destruct (Hcv _ _ C2) as [n2 C2'].
    destruct (tc s0 a) as [ra|] eqn:E1; [|discriminate].
    destruct (expectB f' (b_st ra) D' (b_ty ra) TType ENotType (es ++ b_errs ra)) as [[s0a es0]|] eqn:X1; [|discriminate].
    destruct (tc s0a d) as [rd|] eqn:E2; [|discriminate].
    destruct (expectB f' (b_st rd) D' (b_ty rd) a EAnnotation (es0 ++ b_errs rd)) as [[s2 es2]|] eqn:X2; [|discriminate].
    destruct (tc_defs f' tc D' rest s2 es2) as [[[rest' s3] es3]|] eqn:E3; [|discriminate].
    injection H as _ _ <-.
    destruct (Htc _ _ _ Ha Na E1 _ I1) as (Hea & Ta' & Za & Ra).
    destruct (convb_hr _ _ _ _ _ C1' _ _ Ra (hr_refl _ _)) as [m1 K1].
    destruct (expectB_ok _ _ _ _ _ _ _ _ _ _ _ _ _ HS HD Za (zk_type _) X1 K1) as [-> ->].
    destruct (Htc _ _ _ Hd Nd E2 _ I2) as (Hed & Td' & Zd & Rd).
    destruct (convb_hr _ _ _ _ _ C2' _ _ Rd (hr_refl _ _)) as [m2 K2].
    destruct (expectB_ok _ _ _ _ _ _ _ _ _ _ _ _ _ HS HD Zd (zk_refl_hf _ _ Ha) X2 K2) as [-> ->].
    rewrite (IHl _ _ _ _ _ Hr Nr HI3 E3). now rewrite Hea, Hed, !app_nil_r.
Qed.

Theorem tcB_accepts_spine : forall f' s G D t r Gz,
  ctx_rel G D Gz -> gz_ok Gz -> hole_free t = true -> spine t = true ->
  tcB f' s G D t = Some r -> forall f T, infer f Gz t = Some T ->
  b_errs r = [] /\ exists T', zk (b_st r) (b_ty r) T' /\ hrg Gz T T'.
Proof.
  induction f' as [|f' IH]; intros s G D t r Gz HC HZ Hf Hs H f T HI; [discriminate|].
  assert (NL : no_let t = true -> b_errs r = [] /\ exists T', zk (b_st r) (b_ty r) T' /\ hrg Gz T T').
  { intros Hn. destruct (tcB_accepts_nl _ _ _ _ _ _ _ HC HZ Hf Hn H _ _ HI) as (He & T' & Z & R).
    split; [exact He|]. exists T'. split; [exact Z | now apply hrg_base]. }
  destruct t; try (apply NL; exact Hs).
  clear NL. rewrite tcB_let_eq in H. cbv zeta in H.
  destruct f as [|f]; [discriminate|]. rewrite infer_let_eq in HI.
  rewrite hf_let in Hf. apply andb_true_iff in Hf. destruct Hf as [Hfd Hfb].
  cbn [spine] in Hs. apply andb_true_iff in Hs. destruct Hs as [Hnd Hsb].
  set (G' := pushG (length defs) defs 0 G) in *. set (D' := pushD (length defs) defs 0 D) in *.
  assert (HC' : ctx_rel G' D' (enter defs Gz)) by (apply ctx_rel_push; assumption).
  assert (HZ' : gz_ok (enter defs Gz)) by (apply gz_ok_enter; assumption).
  pose proof HC' as (_ & HS' & HD' & ND').
  destruct (infer_defs (infer f (enter defs Gz)) (convb f (enter defs Gz)) defs) eqn:ID; [|discriminate].
  destruct (infer f (enter defs Gz) t) as [B|] eqn:IB; [|discriminate]. injection HI as <-.
  destruct (tc_defs f' (fun s0 d => tcB f' s0 G' D' d) D' defs s []) as [[[ds' s1] es1]|] eqn:E1; [|discriminate].
  destruct (tcB f' s1 G' D' t) as [rb|] eqn:E2; [|discriminate].
  destruct (group_typeB f' (length defs) ds' 0 (length defs) (b_ty rb) (b_st rb)) as [[T' s3]|] eqn:E3; [|discriminate].
  injection H as <-. cbn [b_errs b_st b_ty].
  assert (ds' = defs).
  { eapply tc_defs_id'; [|exact E1]. intros s0 d r0 Hr. exact (tcB_elab_identity _ _ _ _ _ _ Hr). }
  subst ds'.
  assert (es1 = []).
  { eapply (tc_defs_accepts f' _ D' (enter defs Gz) (infer f (enter defs Gz)) (convb f (enter defs Gz))); try eassumption.
    - intros s0 t0 r0 Hf0 Hn0 Hr0 T0 HI0. exact (tcB_accepts_nl _ _ _ _ _ _ _ HC' HZ' Hf0 Hn0 Hr0 _ _ HI0).
    - intros a b C. exists f. now apply is_true_some. }
  subst es1.
  destruct (IH _ _ _ _ _ _ HC' HZ' Hfb Hsb E2 _ _ IB) as (Heb & B' & Zb & Rb).
  destruct (group_typeB_zk _ _ _ Hfd _ _ _ _ _ _ _ Zb E3) as [-> ZT].
  split; [now rewrite Heb|]. eexists. split; [exact ZT | now apply hrg_group].
Qed.

(* ====================================================================================== *)
(* Main statements                                                                         *)
(* ====================================================================================== *)
(* NO FALSE REJECTION (partial completeness): a hole-free program on the spine that the verified
   checker accepts is never rejected by the checker model: for EVERY fuel the model either runs out
   of fuel or accepts (no errors), and then its zonked type is infer's type up to extra evaluation
   (hr: reduction at the root and at domains/codomains of function types; hrg: through group exits). *)
Theorem tcB_no_false_rejection_spine : forall f t T,
  hole_free t = true -> spine t = true -> infer f [] t = Some T ->
  forall f' r, tcB f' [] [] [] t = Some r ->
  b_errs r = [] /\ exists T', zk (b_st r) (b_ty r) T' /\ hrg [] T T'.
Proof.
  intros f t T Hf Hs HI f' r H.
  exact (tcB_accepts_spine _ _ _ _ _ _ _ ctx_rel_nil gz_ok_nil Hf Hs H _ _ HI).
Qed.

(* group-free programs: the reported type is definitionally equal to infer's *)
Theorem tcB_no_false_rejection_nolet : forall f t T,
  hole_free t = true -> no_let t = true -> infer f [] t = Some T ->
  forall f' r, tcB f' [] [] [] t = Some r ->
  b_errs r = [] /\ exists T', zk (b_st r) (b_ty r) T' /\ hr [] T T' /\ conv [] T' T.
Proof.
  intros f t T Hf Hn HI f' r H.
  destruct (tcB_accepts_nl _ _ _ _ _ _ _ ctx_rel_nil gz_ok_nil Hf Hn H _ _ HI) as (He & T' & Z & R).
  split; [exact He|]. exists T'. repeat split; [exact Z | exact R | apply c_sym, hr_conv; exact R].
Qed.

(* so termination is the only thing that separates the two checkers on such programs *)
Corollary tcB_complete_if_terminates : forall f t T,
  hole_free t = true -> spine t = true -> infer f [] t = Some T ->
  (exists f', tcB f' [] [] [] t <> None) ->
  exists f' r, tcB f' [] [] [] t = Some r /\ b_errs r = [] /\ exists T', zk (b_st r) (b_ty r) T' /\ hrg [] T T'.
Proof.
  intros f t T Hf Hs HI [f' Hne]. destruct (tcB f' [] [] [] t) as [r|] eqn:E; [|contradiction].
  exists f', r. split; [exact E|]. exact (tcB_no_false_rejection_spine _ _ _ Hf Hs HI _ _ E).
Qed.

(* ====================================================================================== *)
(* C1(a).  Fuel monotonicity of the Model B functions: more fuel, same result               *)
(*         (all terms, all stores - nothing about holes is assumed)                         *)
(* ====================================================================================== *)

(* ---------- shift ---------- *)
Lemma sshiftB_defs_mono f f' s c k :
  (forall t c r, sshiftB f s t c k = Some r -> sshiftB f' s t c k = Some r) ->
  forall l r, sshiftB_defs f s c k l = Some r -> sshiftB_defs f' s c k l = Some r.
Proof.
  intros IH. induction l as [|[a d] l IHl]; intros r H; cbn [sshiftB_defs] in *; [exact H|].
  destruct (sshiftB f s a c k) as [xa|] eqn:Ea; [|discriminate]. rewrite (IH _ _ _ Ea).
  destruct (sshiftB f s d c k) as [xd|] eqn:Ed; [|discriminate]. rewrite (IH _ _ _ Ed).
  destruct (sshiftB_defs f s c k l) as [xr|] eqn:Er; [|discriminate]. rewrite (IHl _ eq_refl). exact H.
Qed.

Ltac mono_ss IH L H :=
  repeat match type of H with
  | context [match sshiftB ?f ?s ?t ?c ?k with _ => _ end] =>
      let E := fresh "E" in let x := fresh "x" in
      destruct (sshiftB f s t c k) as [x|] eqn:E; [rewrite (IH _ _ _ _ _ _ L E) | discriminate H]
  end.

Theorem sshiftB_mono : forall f f' s t c k r, f <= f' -> sshiftB f s t c k = Some r -> sshiftB f' s t c k = Some r.
Proof.
  induction f as [|f IH]; intros f' s t c k r L H; [discriminate|].
  destruct f' as [|f']; [lia|]. assert (L' : f <= f') by lia.
  destruct t; cbn [sshiftB] in H |- *; cbv beta zeta in H |- *; try exact H.
  - destruct (sget s id); [|exact H].
    destruct (sshiftB f s t 0 (Z.of_nat shift)) as [x|] eqn:E; [|discriminate]. rewrite (IH _ _ _ _ _ _ L' E).
    destruct x; [|exact H]. eauto.
  - mono_ss IH L' H. exact H.
  - mono_ss IH L' H. exact H.
  - mono_ss IH L' H. exact H.
  - change (match sshiftB_defs f s (length defs + c) k defs with
            | Some ds' => match sshiftB f s t (length defs + c) k with
                          | Some b' => Some (match ds', b' with Some x, Some y => Some (TLet x y) | _, _ => None end)
                          | None => None end
            | None => None end = Some r) in H.
    change (match sshiftB_defs f' s (length defs + c) k defs with
            | Some ds' => match sshiftB f' s t (length defs + c) k with
                          | Some b' => Some (match ds', b' with Some x, Some y => Some (TLet x y) | _, _ => None end)
                          | None => None end
            | None => None end = Some r).
    destruct (sshiftB_defs f s (length defs + c) k defs) as [xs|] eqn:E1; [|discriminate].
    rewrite (sshiftB_defs_mono f f' s _ k (fun t c r => IH f' s t c k r L') _ _ E1).
    mono_ss IH L' H. exact H.
  - mono_ss IH L' H. exact H.
  - mono_ss IH L' H. exact H.
  - mono_ss IH L' H. exact H.
Qed.

Lemma ushiftB_mono f f' s t c n u : f <= f' -> ushiftB f s t c n = Some u -> ushiftB f' s t c n = Some u.
Proof.
  unfold ushiftB. intros L H. destruct (sshiftB f s t c (Z.of_nat n)) as [r|] eqn:E; [|discriminate].
  now rewrite (sshiftB_mono _ _ _ _ _ _ _ L E).
Qed.

(* ---------- open ---------- *)
Lemma openB_defs_mono f f' i x k :
  (forall s t r, openB f s t i x k = Some r -> openB f' s t i x k = Some r) ->
  forall l s0 r, openB_defs f i x k l s0 = Some r -> openB_defs f' i x k l s0 = Some r.
Proof.
  intros IH. induction l as [|[a d] l IHl]; intros s0 r H; cbn [openB_defs] in *; [exact H|].
  destruct (openB f s0 a i x k) as [[ta sa]|] eqn:Ea; [|discriminate]. rewrite (IH _ _ _ Ea).
  destruct (openB f sa d i x k) as [[td sd]|] eqn:Ed; [|discriminate]. rewrite (IH _ _ _ Ed).
  destruct (openB_defs f i x k l sd) as [[tl sl]|] eqn:El; [|discriminate]. rewrite (IHl _ _ El). exact H.
Qed.

Ltac mono_op IH L H :=
  repeat match type of H with
  | context [match openB ?f ?s ?t ?i ?x ?k with _ => _ end] =>
      let E := fresh "E" in let a := fresh "a'" in let s1 := fresh "s1" in
      destruct (openB f s t i x k) as [[a s1]|] eqn:E; [rewrite (IH _ _ _ _ _ _ _ L E) | discriminate H]
  end.

Theorem openB_mono : forall f f' s t i x k r, f <= f' -> openB f s t i x k = Some r -> openB f' s t i x k = Some r.
Proof.
  induction f as [|f IH]; intros f' s t i x k r L H; [discriminate|].
  destruct f' as [|f']; [lia|]. assert (L' : f <= f') by lia.
  destruct t; cbn [openB] in H |- *; try exact H.
  - destruct (sget s id); [|exact H].
    destruct (ushiftB f s t 0 shift) as [sol'|] eqn:E; [|discriminate]. rewrite (ushiftB_mono _ _ _ _ _ _ _ L' E). eauto.
  - destruct (Nat.eqb i0 i); [|exact H].
    destruct (ushiftB f s x 0 k) as [x'|] eqn:E; [|discriminate]. rewrite (ushiftB_mono _ _ _ _ _ _ _ L' E). exact H.
  - mono_op IH L' H. exact H.
  - mono_op IH L' H. exact H.
  - mono_op IH L' H. exact H.
  - change (match openB_defs f (length defs + i) x (length defs + k) defs s with
            | Some r => let '(ds', s1) := r in
                match openB f s1 t (length defs + i) x (length defs + k) with
                | Some q => let '(b', s2) := q in Some (TLet ds' b', s2)
                | None => None end
            | None => None end = Some r) in H.
    change (match openB_defs f' (length defs + i) x (length defs + k) defs s with
            | Some r => let '(ds', s1) := r in
                match openB f' s1 t (length defs + i) x (length defs + k) with
                | Some q => let '(b', s2) := q in Some (TLet ds' b', s2)
                | None => None end
            | None => None end = Some r).
    destruct (openB_defs f (length defs + i) x (length defs + k) defs s) as [[xs s1]|] eqn:E1; [|discriminate].
    rewrite (openB_defs_mono f f' _ x _ (fun s t r => IH f' s t _ x _ r L') _ _ _ E1).
    mono_op IH L' H. exact H.
  - mono_op IH L' H. exact H.
  - mono_op IH L' H. exact H.
  - mono_op IH L' H. exact H.
Qed.

(* ---------- the group loop of the normaliser ---------- *)
Lemma subst_defs_mono f f' n i unf : f <= f' ->
  forall l j s0 r, subst_defs f n i unf l j s0 = Some r -> subst_defs f' n i unf l j s0 = Some r.
Proof.
  intros L. induction l as [|[a d] rest IHl]; intros j s0 r H; cbn [subst_defs] in *; [exact H|].
  destruct (Nat.ltb j i).
  - destruct (subst_defs f n i unf rest (S j) s0) as [[rest' s']|] eqn:E; [|discriminate]. rewrite (IHl _ _ _ E). exact H.
  - destruct (openB f s0 a (n - 1 - i) unf 0) as [[a' sa]|] eqn:Ea; [|discriminate]. rewrite (openB_mono _ _ _ _ _ _ _ _ L Ea).
    destruct (openB f sa d (n - 1 - i) unf 0) as [[d' sd]|] eqn:Ed; [|discriminate]. rewrite (openB_mono _ _ _ _ _ _ _ _ L Ed).
    destruct (subst_defs f n i unf rest (S j) sd) as [[rest' s']|] eqn:E; [|discriminate]. rewrite (IHl _ _ _ E). exact H.
Qed.

Theorem let_substB_mono : forall f f' s n i ds body r, f <= f' ->
  let_substB f s n i ds body = Some r -> let_substB f' s n i ds body = Some r.
Proof.
  induction f as [|f IH]; intros f' s n i ds body r L H; [discriminate|].
  destruct f' as [|f']; [lia|]. assert (L' : f <= f') by lia.
  cbn [let_substB] in H |- *. destruct (Nat.leb n i); [exact H|].
  destruct (nth_error ds i) as [[ann def]|]; [|exact H].
  destruct (ushiftB f s ann 0 1) as [a1|] eqn:U1; [|discriminate]. rewrite (ushiftB_mono _ _ _ _ _ _ _ L' U1).
  destruct (ushiftB f s def 0 1) as [d1|] eqn:U2; [|discriminate]. rewrite (ushiftB_mono _ _ _ _ _ _ _ L' U2).
  destruct (openB f s a1 (S (n - 1 - i)) (TVar 0) 0) as [[a2 s1]|] eqn:E1; [|discriminate]. rewrite (openB_mono _ _ _ _ _ _ _ _ L' E1).
  destruct (openB f s1 d1 (S (n - 1 - i)) (TVar 0) 0) as [[d2 s2]|] eqn:E2; [|discriminate]. rewrite (openB_mono _ _ _ _ _ _ _ _ L' E2).
  destruct (openB f s2 def (n - 1 - i) (TLet [(a2, d2)] (TVar 0)) 0) as [[unf s3]|] eqn:E3; [|discriminate].
  rewrite (openB_mono _ _ _ _ _ _ _ _ L' E3).
  change (match subst_defs f n i unf ds 0 s3 with
          | Some z => let '(ds', s4) := z in
              match openB f s4 body (n - 1 - i) unf 0 with
              | Some pb => let '(body', s5) := pb in let_substB f s5 n (S i) ds' body'
              | None => None end
          | None => None end = Some r) in H.
  change (match subst_defs f' n i unf ds 0 s3 with
          | Some z => let '(ds', s4) := z in
              match openB f' s4 body (n - 1 - i) unf 0 with
              | Some pb => let '(body', s5) := pb in let_substB f' s5 n (S i) ds' body'
              | None => None end
          | None => None end = Some r).
  destruct (subst_defs f n i unf ds 0 s3) as [[ds' s4]|] eqn:E4; [|discriminate].
  rewrite (subst_defs_mono _ _ _ _ _ L' _ _ _ _ E4).
  destruct (openB f s4 body (n - 1 - i) unf 0) as [[body' s5]|] eqn:E5; [|discriminate].
  rewrite (openB_mono _ _ _ _ _ _ _ _ L' E5). eauto.
Qed.

(* ---------- weak-head normalisation ---------- *)
Theorem whnfB_mono : forall f f' s D t r, f <= f' -> whnfB f s D t = Some r -> whnfB f' s D t = Some r.
Proof.
  induction f as [|f IH]; intros f' s D t r L H; [discriminate|].
  destruct f' as [|f']; [lia|]. assert (L' : f <= f') by lia.
  destruct t; cbn [whnfB] in H |- *; try exact H.
  - destruct (sget s id); [|exact H].
    destruct (ushiftB f s t 0 shift) as [sol'|] eqn:E; [|discriminate]. rewrite (ushiftB_mono _ _ _ _ _ _ _ L' E). eauto.
  - destruct (nth_error D i) as [[[d off]|]|]; try exact H.
    destruct (ushiftB f s d 0 (i + 1 - off)) as [d'|] eqn:E; [|discriminate]. rewrite (ushiftB_mono _ _ _ _ _ _ _ L' E). eauto.
  - destruct (whnfB f s D t1) as [[a' s1]|] eqn:E1; [|discriminate]. rewrite (IH _ _ _ _ _ L' E1).
    destruct a'; try exact H.
    destruct (openB f s1 a'2 0 t2 0) as [[r0 s2]|] eqn:E2; [|discriminate]. rewrite (openB_mono _ _ _ _ _ _ _ _ L' E2). eauto.
  - destruct (let_substB f s (length defs) 0 defs t) as [[b' s1]|] eqn:E1; [|discriminate].
    rewrite (let_substB_mono _ _ _ _ _ _ _ _ L' E1). eauto.
  - destruct (whnfB f s D t) as [[a' s1]|] eqn:E1; [|discriminate]. rewrite (IH _ _ _ _ _ L' E1). exact H.
  - destruct (whnfB f s D t1) as [[a' s1]|] eqn:E1; [|discriminate]. rewrite (IH _ _ _ _ _ L' E1).
    destruct (whnfB f s1 D t2) as [[b' s2]|] eqn:E2; [|discriminate]. rewrite (IH _ _ _ _ _ L' E2). exact H.
  - destruct (whnfB f s D t1) as [[c' s1]|] eqn:E1; [|discriminate]. rewrite (IH _ _ _ _ _ L' E1).
    destruct c'; try exact H; eauto.
Qed.

(* ---------- the syntactic shortcut and the occurs check ---------- *)
Lemma headB_mono : forall f f' s t r, f <= f' -> headB f s t = Some r -> headB f' s t = Some r.
Proof.
  induction f as [|f IH]; intros f' s t r L H; [discriminate|].
  destruct f' as [|f']; [lia|]. assert (L' : f <= f') by lia.
  destruct t; cbn [headB] in H |- *; try exact H.
  destruct (sget s id); [|exact H].
  destruct (ushiftB f s t 0 shift) as [sol'|] eqn:E; [|discriminate]. rewrite (ushiftB_mono _ _ _ _ _ _ _ L' E). eauto.
Qed.

Lemma syn_eqB_defs_mono f f' s :
  (forall a b r, syn_eqB f s a b = Some r -> syn_eqB f' s a b = Some r) ->
  forall l1 l2 r, syn_eqB_defs f s l1 l2 = Some r -> syn_eqB_defs f' s l1 l2 = Some r.
Proof.
  intros IH. induction l1 as [|[a1 d1] r1 IHl]; intros [|[a2 d2] r2] r H; cbn [syn_eqB_defs] in *; try exact H.
  destruct (syn_eqB f s d1 d2) as [u|] eqn:E; [|discriminate]. rewrite (IH _ _ _ E). destruct u; [eauto | exact H].
Qed.

Ltac mono_se IH L H :=
  repeat match type of H with
  | context [match syn_eqB ?f ?s ?a ?b with _ => _ end] =>
      let E := fresh "E" in let u := fresh "u" in
      destruct (syn_eqB f s a b) as [u|] eqn:E; [rewrite (IH _ _ _ _ _ L E); destruct u | discriminate H]
  end.

Theorem syn_eqB_mono : forall f f' s a b r, f <= f' -> syn_eqB f s a b = Some r -> syn_eqB f' s a b = Some r.
Proof.
  induction f as [|f IH]; intros f' s a b r L H; [discriminate|].
  destruct f' as [|f']; [lia|]. assert (L' : f <= f') by lia.
  cbn [syn_eqB] in H |- *.
  destruct (headB f s a) as [a'|] eqn:E1; [|discriminate]. rewrite (headB_mono _ _ _ _ _ L' E1).
  destruct (headB f s b) as [b'|] eqn:E2; [|discriminate]. rewrite (headB_mono _ _ _ _ _ L' E2).
  cbv beta zeta in H |- *.
  destruct a', b'; try exact H.
  - destruct (Bool.eqb impl impl0); [eauto | exact H].
  - destruct (Bool.eqb impl impl0); [|exact H]. mono_se IH L' H; [eauto | exact H].
  - mono_se IH L' H; [eauto | exact H].
  - destruct (Nat.eqb (length defs) (length defs0)); [|exact H].
    change (match syn_eqB_defs f s defs defs0 with
            | Some u => if u then syn_eqB f s a' b' else Some false | None => None end = Some r) in H.
    change (match syn_eqB_defs f' s defs defs0 with
            | Some u => if u then syn_eqB f' s a' b' else Some false | None => None end = Some r).
    destruct (syn_eqB_defs f s defs defs0) as [u|] eqn:E; [|discriminate].
    rewrite (syn_eqB_defs_mono f f' s (fun a b r => IH f' s a b r L') _ _ _ E). destruct u; [eauto | exact H].
  - eauto.
  - destruct (binop_eqbB o o0); [|exact H]. mono_se IH L' H; [eauto | exact H].
  - mono_se IH L' H; try exact H; eauto.
Qed.

Lemma occursB_defs_mono f f' s id :
  (forall t r, occursB f s id t = Some r -> occursB f' s id t = Some r) ->
  forall l r, occursB_defs f s id l = Some r -> occursB_defs f' s id l = Some r.
Proof.
  intros IH. induction l as [|[a d] l IHl]; intros r H; cbn [occursB_defs] in *; [exact H|].
  destruct (occursB f s id a) as [x|] eqn:Ea; [|discriminate]. rewrite (IH _ _ Ea). destruct x; [exact H|].
  destruct (occursB f s id d) as [y|] eqn:Ed; [|discriminate]. rewrite (IH _ _ Ed). destruct y; [exact H | eauto].
Qed.

Ltac mono_oc IH L H :=
  repeat match type of H with
  | context [match occursB ?f ?s ?id ?t with _ => _ end] =>
      let E := fresh "E" in let u := fresh "u" in
      destruct (occursB f s id t) as [u|] eqn:E; [rewrite (IH _ _ _ _ _ L E); destruct u | discriminate H]
  end.

Theorem occursB_mono : forall f f' s id t r, f <= f' -> occursB f s id t = Some r -> occursB f' s id t = Some r.
Proof.
  induction f as [|f IH]; intros f' s id t r L H; [discriminate|].
  destruct f' as [|f']; [lia|]. assert (L' : f <= f') by lia.
  destruct t; cbn [occursB] in H |- *; cbv beta zeta in H |- *; try exact H.
  - destruct (sget s id0); [eauto | exact H].
  - mono_oc IH L' H; [exact H | eauto].
  - mono_oc IH L' H; [exact H | eauto].
  - mono_oc IH L' H; [exact H | eauto].
  - change (match occursB_defs f s id defs with
            | Some u => if u then Some true else occursB f s id t | None => None end = Some r) in H.
    change (match occursB_defs f' s id defs with
            | Some u => if u then Some true else occursB f' s id t | None => None end = Some r).
    destruct (occursB_defs f s id defs) as [x|] eqn:E1; [|discriminate].
    rewrite (occursB_defs_mono f f' s id (fun t r => IH f' s id t r L') _ _ E1). destruct x; [exact H | eauto].
  - eauto.
  - mono_oc IH L' H; [exact H | eauto].
  - mono_oc IH L' H; try exact H; eauto.
Qed.

(* ---------- unification ---------- *)
Ltac mono_uh rec Hrec L H :=
  repeat (match type of H with
  | context [match sshiftB ?f ?s ?t ?c ?k with _ => _ end] =>
      let E := fresh "E" in
      destruct (sshiftB f s t c k) as [[?|]|] eqn:E; [rewrite (sshiftB_mono _ _ _ _ _ _ _ L E) .. | discriminate H]
  | context [match occursB ?f ?s ?id ?t with _ => _ end] =>
      let E := fresh "E" in
      destruct (occursB f s id t) as [[|]|] eqn:E; [rewrite (occursB_mono _ _ _ _ _ _ L E) .. | discriminate H]
  | context [match rec ?s ?D ?a ?b with _ => _ end] =>
      let E := fresh "E" in
      destruct (rec s D a b) as [[[|] ?]|] eqn:E; [rewrite (Hrec _ _ _ _ _ E) .. | discriminate H]
  | context [if ?c then _ else _] => destruct c
  end; cbv beta iota in H |- *).

Lemma unify_head_mono f f' (rec rec' : storeB -> dctx -> term -> term -> option (bool * storeB)) s2 D w1 w2 r :
  f <= f' -> (forall s D a b r, rec s D a b = Some r -> rec' s D a b = Some r) ->
  unify_head f rec s2 D w1 w2 = Some r -> unify_head f' rec' s2 D w1 w2 = Some r.
Proof.
  intros L Hrec H.
  destruct w1, w2; cbv beta iota zeta delta [unify_head] in H |- *;
    mono_uh rec Hrec L H; try exact H; try (apply Hrec; exact H).
Qed.

Theorem unifyB_mono : forall f f' s D a b r, f <= f' -> unifyB f s D a b = Some r -> unifyB f' s D a b = Some r.
Proof.
  induction f as [|f IH]; intros f' s D a b r L H; [discriminate|].
  destruct f' as [|f']; [lia|]. assert (L' : f <= f') by lia.
  rewrite unifyB_S in H |- *. unfold unify_body in H |- *.
  destruct (syn_eqB f s a b) as [e|] eqn:Es; [|discriminate]. rewrite (syn_eqB_mono _ _ _ _ _ _ L' Es).
  destruct e; [exact H|].
  destruct (whnfB f s D a) as [[w1 s1]|] eqn:W1; [|discriminate]. rewrite (whnfB_mono _ _ _ _ _ _ L' W1).
  destruct (whnfB f s1 D b) as [[w2 s2]|] eqn:W2; [|discriminate]. rewrite (whnfB_mono _ _ _ _ _ _ L' W2).
  eapply unify_head_mono; [exact L' | | exact H]. intros; eapply IH; eassumption.
Qed.

Lemma expectB_mono f f' s D a w e es r : f <= f' -> expectB f s D a w e es = Some r -> expectB f' s D a w e es = Some r.
Proof.
  unfold expectB. intros L H. destruct (unifyB f s D a w) as [[ok s1]|] eqn:U; [|discriminate].
  now rewrite (unifyB_mono _ _ _ _ _ _ _ L U).
Qed.

(* ---------- the checker ---------- *)
Lemma shift_defs_mono f f' s c m : f <= f' -> forall l r, shift_defs f s c m l = Some r -> shift_defs f' s c m l = Some r.
Proof.
  intros L. induction l as [|[a d] rest IHl]; intros r H; cbn [shift_defs] in *; [exact H|].
  destruct (ushiftB f s a c m) as [a'|] eqn:Ea; [|discriminate]. rewrite (ushiftB_mono _ _ _ _ _ _ _ L Ea).
  destruct (ushiftB f s d c m) as [d'|] eqn:Ed; [|discriminate]. rewrite (ushiftB_mono _ _ _ _ _ _ _ L Ed).
  destruct (shift_defs f s c m rest) as [r'|] eqn:Er; [|discriminate]. rewrite (IHl _ eq_refl). exact H.
Qed.

Lemma group_typeB_mono f f' n ds : f <= f' ->
  forall k i acc s r, group_typeB f n ds i k acc s = Some r -> group_typeB f' n ds i k acc s = Some r.
Proof.
  intros L. induction k as [|k IH]; intros i acc s r H; cbn [group_typeB] in *; [exact H|].
  destruct (shift_defs f s n (n - 1 - i) ds) as [sh|] eqn:E1; [|discriminate]. rewrite (shift_defs_mono _ _ _ _ _ L _ _ E1).
  destruct (openB f s acc 0 (TLet sh (TVar i)) 0) as [[acc' s']|] eqn:E2; [|discriminate].
  rewrite (openB_mono _ _ _ _ _ _ _ _ L E2). eauto.
Qed.

Lemma tc_defs_mono f f' (tc tc' : storeB -> term -> option tcres) D' : f <= f' ->
  (forall s t r, tc s t = Some r -> tc' s t = Some r) ->
  forall l s0 es r, tc_defs f tc D' l s0 es = Some r -> tc_defs f' tc' D' l s0 es = Some r.
Proof.
  intros L Htc. induction l as [|[a d] rest IHl]; intros s0 es r H; cbn [tc_defs] in *; [exact H|].
  destruct (tc s0 a) as [ra|] eqn:E1; [|discriminate]. rewrite (Htc _ _ _ E1).
  destruct (expectB f (b_st ra) D' (b_ty ra) TType ENotType (es ++ b_errs ra)) as [[s0a es0]|] eqn:X1; [|discriminate].
  rewrite (expectB_mono _ _ _ _ _ _ _ _ _ L X1).
  destruct (tc s0a d) as [rd|] eqn:E2; [|discriminate]. rewrite (Htc _ _ _ E2).
  destruct (expectB f (b_st rd) D' (b_ty rd) a EAnnotation (es0 ++ b_errs rd)) as [[s2 es2]|] eqn:X2; [|discriminate].
  rewrite (expectB_mono _ _ _ _ _ _ _ _ _ L X2).
  destruct (tc_defs f tc D' rest s2 es2) as [[[rest' s3] es3]|] eqn:E3; [|discriminate]. rewrite (IHl _ _ _ E3). exact H.
Qed.

Ltac mono_tc IH L H :=
  repeat (match type of H with
  | context [match tcB ?f ?s ?G ?D ?t with _ => _ end] =>
      let E := fresh "E" in destruct (tcB f s G D t) eqn:E; [rewrite (IH _ _ _ _ _ _ L E) | discriminate H]
  | context [match expectB ?f ?s ?D ?a ?w ?e ?es with _ => _ end] =>
      let E := fresh "E" in destruct (expectB f s D a w e es) as [[? ?]|] eqn:E; [rewrite (expectB_mono _ _ _ _ _ _ _ _ _ L E) | discriminate H]
  | context [match ushiftB ?f ?s ?t ?c ?n with _ => _ end] =>
      let E := fresh "E" in destruct (ushiftB f s t c n) eqn:E; [rewrite (ushiftB_mono _ _ _ _ _ _ _ L E) | discriminate H]
  | context [match openB ?f ?s ?t ?i ?x ?k with _ => _ end] =>
      let E := fresh "E" in destruct (openB f s t i x k) as [[? ?]|] eqn:E; [rewrite (openB_mono _ _ _ _ _ _ _ _ L E) | discriminate H]
  end; cbv beta iota in H |- *).

Theorem tcB_mono : forall f f' s G D t r, f <= f' -> tcB f s G D t = Some r -> tcB f' s G D t = Some r.
Proof.
  induction f as [|f IH]; intros f' s G D t r L H; [discriminate|].
  destruct f' as [|f']; [lia|]. assert (L' : f <= f') by lia.
  destruct t; [| | | | | | | | | | | rewrite tcB_let_eq in H |- *; cbv zeta in H |- * | | | ]; try (cbn [tcB] in H |- *); try exact H.
  - destruct (nth_error G i) as [[T off]|]; [|exact H]. mono_tc IH L' H. exact H.
  - mono_tc IH L' H. exact H.
  - mono_tc IH L' H. exact H.
  - unfold fresh_hole, salloc in H |- *. mono_tc IH L' H. exact H.
  - destruct (tc_defs f (fun s0 d => tcB f s0 (pushG (length defs) defs 0 G) (pushD (length defs) defs 0 D) d)
                (pushD (length defs) defs 0 D) defs s []) as [[[ds' s1] es1]|] eqn:E1; [|discriminate].
    rewrite (tc_defs_mono f f' _ (fun s0 d => tcB f' s0 (pushG (length defs) defs 0 G) (pushD (length defs) defs 0 D) d) _ L'
               (fun s0 t0 r0 Hr => IH f' s0 _ _ t0 r0 L' Hr) _ _ _ _ E1).
    mono_tc IH L' H.
    destruct (group_typeB f (length defs) ds' 0 (length defs) (b_ty t0) (b_st t0)) as [[T' s3]|] eqn:E3; [|discriminate].
    rewrite (group_typeB_mono _ _ _ _ L' _ _ _ _ _ E3). exact H.
  - mono_tc IH L' H. exact H.
  - mono_tc IH L' H. exact H.
  - mono_tc IH L' H. exact H.
Qed.


(* ====================================================================================== *)
(* C1(b).  Fuel sufficiency of the Model B functions on fully solved terms                  *)
(* ====================================================================================== *)

(* ---------- shift (from zk_zonkB's ss_total) ---------- *)
Lemma ushiftB_suff s t u c n : zk s t u -> exists f, ushiftB f s t c n = Some (ushift u c n).
Proof. intros Hz. destruct (ushiftB_zk_total _ _ _ Hz) as [n0 H]. exists n0. apply H. lia. Qed.

Lemma sshiftB_suff s t u c n : zk s t u -> exists f, sshiftB f s t c (Z.of_nat n) = Some (Some (ushift u c n)).
Proof.
  intros Hz. destruct (ss_total_zk _ _ _ Hz) as [n0 H]. exists n0.
  destruct (sshiftB n0 s t c (Z.of_nat n)) eqn:E; [|exfalso; exact (H n0 (le_n _) c _ E)].
  now rewrite (sshiftB_zk_exact _ _ _ _ _ _ _ Hz E).
Qed.

(* ---------- open ---------- *)
Section OpenTotal.
Variables (s : storeB) (x xu : term).
Hypothesis Hx : zk s x xu.
Definition op_total (t u : term) : Prop := forall i k, exists f, openB f s t i x k = Some (open u i xu k, s).
Definition op_total_defs (l lu : list (term * term)) : Prop :=
  forall i k, exists f, openB_defs f i x k l s = Some (map (open_pair i xu k) lu, s).

Ltac two_op H1 H2 i k i' k' :=
  destruct (H1 i k) as [f1 E1]; destruct (H2 i' k') as [f2 E2];
  exists (S (Nat.max f1 f2)); cbn [openB];
  rewrite (openB_mono _ _ _ _ _ _ _ _ (Nat.le_max_l f1 f2) E1), (openB_mono _ _ _ _ _ _ _ _ (Nat.le_max_r f1 f2) E2).

Lemma op_total_gen s0 :
  (forall id sh sol u0, sget s0 id = Some sol -> zk s0 sol u0 -> op_total (THole id sh) (ushift u0 0 sh)) ->
  (forall t u, zk s0 t u -> op_total t u) /\ (forall l lu, zkds s0 l lu -> op_total_defs l lu).
Proof.
  intros Hhole. apply (zk_zkds_ind s0); intros; try (intros i k; exists 1; reflexivity).
  - eapply Hhole; eassumption.
  - intros j k. cbn [open]. destruct (Nat.eqb i j) eqn:E.
    + destruct (ushiftB_suff _ _ _ 0 k Hx) as [f U]. exists (S f). cbn [openB]. now rewrite E, U.
    + exists 1. cbn [openB]. now rewrite E.
  - intros i k. two_op H0 H2 i k (S i) (S k). reflexivity.
  - intros i k. two_op H0 H2 i k (S i) (S k). reflexivity.
  - intros i k. two_op H0 H2 i k i k. reflexivity.
  - intros i k. destruct (H0 (length ds + i) (length ds + k)) as [f1 E1]. destruct (H2 (length ds + i) (length ds + k)) as [f2 E2].
    exists (S (Nat.max f1 f2)). cbn [openB].
    change (match openB_defs (Nat.max f1 f2) (length ds + i) x (length ds + k) ds s with
            | Some r => let '(ds', s1) := r in
                match openB (Nat.max f1 f2) s1 b (length ds + i) x (length ds + k) with
                | Some q => let '(b', s2) := q in Some (TLet ds' b', s2)
                | None => None end
            | None => None end = Some (open (TLet ds' b') i xu k, s)).
    rewrite (openB_defs_mono f1 (Nat.max f1 f2) _ x _ (fun s t r => openB_mono _ _ s t _ x _ r (Nat.le_max_l f1 f2)) _ _ _ E1).
    rewrite (openB_mono _ _ _ _ _ _ _ _ (Nat.le_max_r f1 f2) E2). cbn [open].
    rewrite (zkds_length _ _ _ H). reflexivity.
  - intros i k. destruct (H0 i k) as [f1 E1]. exists (S f1). cbn [openB]. now rewrite E1.
  - intros i k. two_op H0 H2 i k i k. reflexivity.
  - intros i k. destruct (H0 i k) as [f1 E1]. destruct (H2 i k) as [f2 E2]. destruct (H4 i k) as [f3 E3].
    set (N := Nat.max f1 (Nat.max f2 f3)). assert (L1 : f1 <= N) by lia. assert (L2 : f2 <= N) by lia. assert (L3 : f3 <= N) by lia.
    exists (S N). cbn [openB].
    rewrite (openB_mono _ _ _ _ _ _ _ _ L1 E1), (openB_mono _ _ _ _ _ _ _ _ L2 E2), (openB_mono _ _ _ _ _ _ _ _ L3 E3).
    reflexivity.
  - intros i k. destruct (H0 i k) as [f1 E1]. destruct (H2 i k) as [f2 E2]. destruct (H4 i k) as [f3 E3].
    set (N := Nat.max f1 (Nat.max f2 f3)). assert (L1 : f1 <= N) by lia. assert (L2 : f2 <= N) by lia. assert (L3 : f3 <= N) by lia.
    exists N. cbn [openB_defs].
    rewrite (openB_mono _ _ _ _ _ _ _ _ L1 E1), (openB_mono _ _ _ _ _ _ _ _ L2 E2).
    rewrite (openB_defs_mono f3 N _ x _ (fun s t r => openB_mono _ _ s t _ x _ r L3) _ _ _ E3).
    reflexivity.
Qed.

Lemma op_total_hf t : hole_free t = true -> op_total t t.
Proof.
  intros Hf. refine (proj1 (op_total_gen [] _) t t (zk_refl_hf [] t Hf)).
  intros id sh sol u0 E. destruct id; discriminate E.
Qed.

Lemma op_total_zk t u : zk s t u -> op_total t u.
Proof.
  refine (proj1 (op_total_gen s _) t u).
  intros id sh sol u0 Es Hs i k.
  destruct (ushiftB_suff _ _ _ 0 sh Hs) as [f1 U].
  destruct (op_total_hf (ushift u0 0 sh) (eq_trans (hf_ushift _ _ _) (zk_hf _ _ _ Hs)) i k) as [f2 E2].
  exists (S (Nat.max f1 f2)). cbn [openB]. rewrite Es.
  rewrite (ushiftB_mono _ _ _ _ _ _ _ (Nat.le_max_l f1 f2) U). exact (openB_mono _ _ _ _ _ _ _ _ (Nat.le_max_r f1 f2) E2).
Qed.
End OpenTotal.

Lemma openB_suff s t u x xu i k : zk s t u -> zk s x xu -> exists f, openB f s t i x k = Some (open u i xu k, s).
Proof. intros Hz Hx. exact (op_total_zk s x xu Hx t u Hz i k). Qed.

(* ---------- weak-head normalisation (group-free zonks) ---------- *)
Lemma nl_dctx_lookup D i d off : nl_dctx D -> nth_error D i = Some (Some (d, off)) -> no_let d = true.
Proof. intros H E. unfold nl_dctx in H. rewrite Forall_forall in H. exact (H _ (nth_error_In _ _ E)). Qed.
Lemma hf_dctx_lookup D i d off : hf_dctx D -> nth_error D i = Some (Some (d, off)) -> hole_free d = true.
Proof. intros H E. unfold hf_dctx in H. rewrite Forall_forall in H. exact (H _ (nth_error_In _ _ E)). Qed.

Theorem whnfB_suff0 : forall f D u wu, whnf f (G_of_D D) u = Some wu -> hf_dctx D -> nl_dctx D -> no_let u = true ->
  forall s t, zk s t u -> exists f' r, whnfB f' s D t = Some r.
Proof.
  induction f as [|f IH]; intros D u wu W HD ND Nu s t Hz; [discriminate|].
  assert (NH : forall t', zk s t' u -> is_hole t' = false -> exists f' r, whnfB f' s D t' = Some r).
  { clear t Hz. intros t Hz Nh.
    destruct t; try discriminate Nh; apply zk_inv in Hz; cbn beta iota in Hz;
      try (exists 1; eexists; reflexivity).
    - (* var *) subst u. cbn [whnf] in W. rewrite lookup_def_G_of_D in W.
      destruct (nth_error D i) as [[[d0 off]|]|] eqn:En; try (exists 1; eexists; cbn [whnfB]; rewrite En; reflexivity).
      pose proof (hf_dctx_lookup _ _ _ _ HD En) as Hd0. pose proof (nl_dctx_lookup _ _ _ _ ND En) as Nd0.
      destruct (ushiftB_suff s d0 d0 0 (i + 1 - off) (zk_refl_hf _ _ Hd0)) as [f1 U].
      assert (Hfd : hole_free (ushift d0 0 (i + 1 - off)) = true) by now rewrite hf_ushift.
      destruct (IH _ _ _ W HD ND (nl_ushift _ _ _ Nd0) s _ (zk_refl_hf _ _ Hfd)) as (f2 & r & E2).
      exists (S (Nat.max f1 f2)), r. cbn [whnfB]. rewrite En.
      rewrite (ushiftB_mono _ _ _ _ _ _ _ (Nat.le_max_l f1 f2) U). exact (whnfB_mono _ _ _ _ _ _ (Nat.le_max_r f1 f2) E2).
    - (* app *)
      destruct Hz as (u1 & u2 & -> & H1 & H2). cbn [no_let] in Nu. apply andb_true_iff in Nu. destruct Nu as [N1 N2].
      cbn [whnf] in W. destruct (whnf f (G_of_D D) u1) as [au|] eqn:W1; [|discriminate].
      destruct (IH _ _ _ W1 HD ND N1 s _ H1) as (f1 & [a' s1] & E1).
      destruct (whnfB_zk _ _ _ _ _ _ _ HD H1 E1) as (-> & Nha & au' & Za & W1').
      pose proof (whnf_det _ _ _ _ _ _ W1' W1) as ->.
      pose proof (nl_whnf_D _ _ _ _ ND N1 W1) as Nau.
      destruct a'; try discriminate Nha; apply zk_inv in Za; cbn beta iota in Za;
        repeat match goal with X : exists _, _ |- _ => destruct X | X : _ /\ _ |- _ => destruct X end; subst;
        try (exists (S f1); eexists; cbn [whnfB]; rewrite E1; reflexivity).
      (* lambda *)
      cbn [no_let] in Nau. apply andb_true_iff in Nau. destruct Nau as [_ Nb].
      match goal with Hb : zk s a'2 ?bu |- _ =>
        destruct (openB_suff s a'2 bu t2 u2 0 0 Hb H2) as [f2 O];
        assert (Hfo : hole_free (open bu 0 u2 0) = true) by (apply hf_open; [exact (zk_hf _ _ _ Hb) | exact (zk_hf _ _ _ H2)]);
        destruct (IH _ _ _ W HD ND (nl_open _ _ _ _ Nb N2) s _ (zk_refl_hf _ _ Hfo)) as (f3 & r & E3)
      end.
      set (N := Nat.max f1 (Nat.max f2 f3)). assert (L1 : f1 <= N) by lia. assert (L2 : f2 <= N) by lia. assert (L3 : f3 <= N) by lia.
      exists (S N), r. cbn [whnfB]. rewrite (whnfB_mono _ _ _ _ _ _ L1 E1), (openB_mono _ _ _ _ _ _ _ _ L2 O).
      exact (whnfB_mono _ _ _ _ _ _ L3 E3).
    - (* let *) destruct Hz as (? & ? & -> & _). discriminate Nu.
    - (* neg *)
      destruct Hz as (u1 & -> & H1). cbn [no_let] in Nu. cbn [whnf] in W.
      destruct (whnf f (G_of_D D) u1) as [au|] eqn:W1; [|discriminate].
      destruct (IH _ _ _ W1 HD ND Nu s _ H1) as (f1 & [a' s1] & E1).
      exists (S f1). eexists. cbn [whnfB]. rewrite E1. reflexivity.
    - (* bin *)
      destruct Hz as (u1 & u2 & -> & H1 & H2). cbn [no_let] in Nu. apply andb_true_iff in Nu. destruct Nu as [N1 N2].
      cbn [whnf] in W. destruct (whnf f (G_of_D D) u1) as [au|] eqn:W1; [|discriminate].
      destruct (whnf f (G_of_D D) u2) as [bu|] eqn:W2; [|destruct au; discriminate].
      destruct (IH _ _ _ W1 HD ND N1 s _ H1) as (f1 & [a' s1] & E1).
      destruct (whnfB_zk _ _ _ _ _ _ _ HD H1 E1) as (-> & _).
      destruct (IH _ _ _ W2 HD ND N2 s _ H2) as (f2 & [b' s2] & E2).
      exists (S (Nat.max f1 f2)). eexists. cbn [whnfB].
      rewrite (whnfB_mono _ _ _ _ _ _ (Nat.le_max_l f1 f2) E1), (whnfB_mono _ _ _ _ _ _ (Nat.le_max_r f1 f2) E2). reflexivity.
    - (* if *)
      destruct Hz as (u1 & u2 & u3 & -> & H1 & H2 & H3). cbn [no_let] in Nu.
      apply andb_true_iff in Nu. destruct Nu as [Nu N3]. apply andb_true_iff in Nu. destruct Nu as [N1 N2].
      cbn [whnf] in W. destruct (whnf f (G_of_D D) u1) as [cu|] eqn:W1; [|discriminate].
      destruct (IH _ _ _ W1 HD ND N1 s _ H1) as (f1 & [c' s1] & E1).
      destruct (whnfB_zk _ _ _ _ _ _ _ HD H1 E1) as (-> & Nhc & cu' & Zc & W1').
      pose proof (whnf_det _ _ _ _ _ _ W1' W1) as ->.
      destruct c'; try discriminate Nhc; apply zk_inv in Zc; cbn beta iota in Zc;
        repeat match goal with X : exists _, _ |- _ => destruct X | X : _ /\ _ |- _ => destruct X end; subst;
        try (exists (S f1); eexists; cbn [whnfB]; rewrite E1; reflexivity).
      + destruct (IH _ _ _ W HD ND N2 s _ H2) as (f2 & r & E2).
        exists (S (Nat.max f1 f2)), r. cbn [whnfB]. rewrite (whnfB_mono _ _ _ _ _ _ (Nat.le_max_l f1 f2) E1).
        exact (whnfB_mono _ _ _ _ _ _ (Nat.le_max_r f1 f2) E2).
      + destruct (IH _ _ _ W HD ND N3 s _ H3) as (f2 & r & E2).
        exists (S (Nat.max f1 f2)), r. cbn [whnfB]. rewrite (whnfB_mono _ _ _ _ _ _ (Nat.le_max_l f1 f2) E1).
        exact (whnfB_mono _ _ _ _ _ _ (Nat.le_max_r f1 f2) E2). }
  destruct (is_hole t) eqn:Ht; [|exact (NH _ Hz Ht)].
  destruct t; try discriminate Ht. pose proof Hz as Hz'. apply zk_inv in Hz'. destruct Hz' as (sol & u0 & Es & Hs & ->).
  destruct (ushiftB_suff s sol u0 0 shift Hs) as [f1 U].
  assert (Hfu : hole_free (ushift u0 0 shift) = true) by (rewrite hf_ushift; exact (zk_hf _ _ _ Hs)).
  destruct (NH _ (zk_refl_hf _ _ Hfu) (hf_not_hole _ Hfu)) as (f2 & r & E2).
  exists (S (Nat.max f1 f2)), r. cbn [whnfB]. rewrite Es.
  rewrite (ushiftB_mono _ _ _ _ _ _ _ (Nat.le_max_l f1 f2) U). exact (whnfB_mono _ _ _ _ _ _ (Nat.le_max_r f1 f2) E2).
Qed.

(* with the shape of the result, in any context with the same definitions *)
Corollary whnfB_suff f G D u wu s t :
  same_defs G (G_of_D D) -> hf_dctx D -> nl_dctx D -> no_let u = true -> zk s t u -> whnf f G u = Some wu ->
  exists f' w, whnfB f' s D t = Some (w, s) /\ zk s w wu /\ is_hole w = false.
Proof.
  intros HG HD ND Nu Hz W. rewrite (whnf_same_defs f G (G_of_D D) u HG) in W.
  destruct (whnfB_suff0 _ _ _ _ W HD ND Nu s t Hz) as (f' & [w s'] & E).
  destruct (whnfB_zk _ _ _ _ _ _ _ HD Hz E) as (-> & Nh & wu' & Zw & W').
  pose proof (whnf_det _ _ _ _ _ _ W' W) as ->. exists f', w. auto.
Qed.

(* ---------- the syntactic shortcut ---------- *)
Lemma headB_suff s a au : zk s a au -> exists f a', headB f s a = Some a' /\ zk s a' au /\ is_hole a' = false.
Proof.
  intros Hz. destruct (is_hole a) eqn:Ha.
  - destruct a; try discriminate Ha. pose proof Hz as Hz'. apply zk_inv in Hz'. destruct Hz' as (sol & u0 & Es & Hs & ->).
    destruct (ushiftB_suff s sol u0 0 shift Hs) as [f1 U].
    assert (Hfu : hole_free (ushift u0 0 shift) = true) by (rewrite hf_ushift; exact (zk_hf _ _ _ Hs)).
    exists (S (S f1)), (ushift u0 0 shift). split; [|split; [apply zk_refl_hf; exact Hfu | apply hf_not_hole; exact Hfu]].
    cbn [headB]. rewrite Es. rewrite (ushiftB_mono f1 (S f1) _ _ _ _ _ (Nat.le_succ_diag_r f1) U).
    destruct (ushift u0 0 shift) eqn:Eu; try reflexivity. discriminate Hfu.
  - exists 1, a. split; [destruct a; try reflexivity; discriminate Ha | auto].
Qed.

Lemma zk_nonhole_inv s a' au : zk s a' au -> is_hole a' = false ->
  match au with
  | THole _ _ => False
  | TLam im d b => exists d0 b0, a' = TLam im d0 b0 /\ zk s d0 d /\ zk s b0 b
  | TPi im d b => exists d0 b0, a' = TPi im d0 b0 /\ zk s d0 d /\ zk s b0 b
  | TApp d b => exists d0 b0, a' = TApp d0 b0 /\ zk s d0 d /\ zk s b0 b
  | TLet ds b => exists ds0 b0, a' = TLet ds0 b0 /\ zkds s ds0 ds /\ zk s b0 b
  | TNeg d => exists d0, a' = TNeg d0 /\ zk s d0 d
  | TBin o d b => exists d0 b0, a' = TBin o d0 b0 /\ zk s d0 d /\ zk s b0 b
  | TIf c d b => exists c0 d0 b0, a' = TIf c0 d0 b0 /\ zk s c0 c /\ zk s d0 d /\ zk s b0 b
  | _ => a' = au
  end.
Proof.
  intros Hz Nh. destruct a'; try discriminate Nh; apply zk_inv in Hz; cbn beta iota in Hz;
    repeat match goal with X : exists _, _ |- _ => destruct X | X : _ /\ _ |- _ => destruct X end; subst; eauto 8.
Qed.

Ltac se_heads E1 E2 N L1 L2 := cbn [syn_eqB]; rewrite (headB_mono _ N _ _ _ L1 E1), (headB_mono _ N _ _ _ L2 E2); cbv beta zeta.

Theorem syn_eqB_suff s : forall au, no_let au = true -> forall a b bu, zk s a au -> zk s b bu ->
  exists f, syn_eqB f s a b <> None.
Proof.
  induction au; intros Nu a b bu Ha Hb; try discriminate Nu;
    destruct (headB_suff _ _ _ Ha) as (f1 & a' & E1 & Za & Na); destruct (headB_suff _ _ _ Hb) as (f2 & b' & E2 & Zb & Nb);
    pose proof (zk_nonhole_inv _ _ _ Za Na) as Sa; cbn beta iota in Sa; try contradiction.
  1-7: subst a'; destruct b'; try discriminate Nb;
       (exists (S (Nat.max f1 f2)); se_heads E1 E2 (Nat.max f1 f2) (Nat.le_max_l f1 f2) (Nat.le_max_r f1 f2); discriminate).
  - (* lam *) destruct Sa as (d0 & b0 & -> & Zd & Zb0). cbn [no_let] in Nu. apply andb_true_iff in Nu. destruct Nu as [N1 N2].
    destruct b'; try discriminate Nb;
      try (exists (S (Nat.max f1 f2)); se_heads E1 E2 (Nat.max f1 f2) (Nat.le_max_l f1 f2) (Nat.le_max_r f1 f2); discriminate).
    apply zk_inv in Zb. destruct Zb as (d2 & b2 & -> & _ & Zb2).
    destruct (IHau2 N2 _ _ _ Zb0 Zb2) as (f3 & HE3). destruct (syn_eqB f3 s _ _) as [r|] eqn:E3 in HE3; [clear HE3|contradiction].
    set (N := Nat.max f1 (Nat.max f2 f3)). assert (L1 : f1 <= N) by lia. assert (L2 : f2 <= N) by lia. assert (L3 : f3 <= N) by lia.
    exists (S N). se_heads E1 E2 N L1 L2. rewrite (syn_eqB_mono _ _ _ _ _ _ L3 E3). destruct (Bool.eqb impl impl0); discriminate.
  - (* pi *) destruct Sa as (d0 & b0 & -> & Zd & Zb0). cbn [no_let] in Nu. apply andb_true_iff in Nu. destruct Nu as [N1 N2].
    destruct b'; try discriminate Nb;
      try (exists (S (Nat.max f1 f2)); se_heads E1 E2 (Nat.max f1 f2) (Nat.le_max_l f1 f2) (Nat.le_max_r f1 f2); discriminate).
    apply zk_inv in Zb. destruct Zb as (d2 & b2 & -> & Zd2 & Zb2).
    destruct (IHau1 N1 _ _ _ Zd Zd2) as (f3 & HE3). destruct (syn_eqB f3 s _ _) as [r3|] eqn:E3 in HE3; [clear HE3|contradiction]. destruct (IHau2 N2 _ _ _ Zb0 Zb2) as (f4 & HE4). destruct (syn_eqB f4 s _ _) as [r4|] eqn:E4 in HE4; [clear HE4|contradiction].
    set (N := Nat.max f1 (Nat.max f2 (Nat.max f3 f4))).
    assert (L1 : f1 <= N) by lia. assert (L2 : f2 <= N) by lia. assert (L3 : f3 <= N) by lia. assert (L4 : f4 <= N) by lia.
    exists (S N). se_heads E1 E2 N L1 L2. rewrite (syn_eqB_mono _ _ _ _ _ _ L3 E3), (syn_eqB_mono _ _ _ _ _ _ L4 E4).
    destruct (Bool.eqb impl impl0); [destruct r3|]; discriminate.
  - (* app *) destruct Sa as (d0 & b0 & -> & Zd & Zb0). cbn [no_let] in Nu. apply andb_true_iff in Nu. destruct Nu as [N1 N2].
    destruct b'; try discriminate Nb;
      try (exists (S (Nat.max f1 f2)); se_heads E1 E2 (Nat.max f1 f2) (Nat.le_max_l f1 f2) (Nat.le_max_r f1 f2); discriminate).
    apply zk_inv in Zb. destruct Zb as (d2 & b2 & -> & Zd2 & Zb2).
    destruct (IHau1 N1 _ _ _ Zd Zd2) as (f3 & HE3). destruct (syn_eqB f3 s _ _) as [r3|] eqn:E3 in HE3; [clear HE3|contradiction]. destruct (IHau2 N2 _ _ _ Zb0 Zb2) as (f4 & HE4). destruct (syn_eqB f4 s _ _) as [r4|] eqn:E4 in HE4; [clear HE4|contradiction].
    set (N := Nat.max f1 (Nat.max f2 (Nat.max f3 f4))).
    assert (L1 : f1 <= N) by lia. assert (L2 : f2 <= N) by lia. assert (L3 : f3 <= N) by lia. assert (L4 : f4 <= N) by lia.
    exists (S N). se_heads E1 E2 N L1 L2. rewrite (syn_eqB_mono _ _ _ _ _ _ L3 E3), (syn_eqB_mono _ _ _ _ _ _ L4 E4).
    destruct r3; discriminate.
  - (* neg *) destruct Sa as (d0 & -> & Zd). cbn [no_let] in Nu.
    destruct b'; try discriminate Nb;
      try (exists (S (Nat.max f1 f2)); se_heads E1 E2 (Nat.max f1 f2) (Nat.le_max_l f1 f2) (Nat.le_max_r f1 f2); discriminate).
    apply zk_inv in Zb. destruct Zb as (d2 & -> & Zd2).
    destruct (IHau Nu _ _ _ Zd Zd2) as (f3 & HE3). destruct (syn_eqB f3 s _ _) as [r3|] eqn:E3 in HE3; [clear HE3|contradiction].
    set (N := Nat.max f1 (Nat.max f2 f3)). assert (L1 : f1 <= N) by lia. assert (L2 : f2 <= N) by lia. assert (L3 : f3 <= N) by lia.
    exists (S N). se_heads E1 E2 N L1 L2. rewrite (syn_eqB_mono _ _ _ _ _ _ L3 E3). discriminate.
  - (* bin *) destruct Sa as (d0 & b0 & -> & Zd & Zb0). cbn [no_let] in Nu. apply andb_true_iff in Nu. destruct Nu as [N1 N2].
    destruct b'; try discriminate Nb;
      try (exists (S (Nat.max f1 f2)); se_heads E1 E2 (Nat.max f1 f2) (Nat.le_max_l f1 f2) (Nat.le_max_r f1 f2); discriminate).
    apply zk_inv in Zb. destruct Zb as (d2 & b2 & -> & Zd2 & Zb2).
    destruct (IHau1 N1 _ _ _ Zd Zd2) as (f3 & HE3). destruct (syn_eqB f3 s _ _) as [r3|] eqn:E3 in HE3; [clear HE3|contradiction]. destruct (IHau2 N2 _ _ _ Zb0 Zb2) as (f4 & HE4). destruct (syn_eqB f4 s _ _) as [r4|] eqn:E4 in HE4; [clear HE4|contradiction].
    set (N := Nat.max f1 (Nat.max f2 (Nat.max f3 f4))).
    assert (L1 : f1 <= N) by lia. assert (L2 : f2 <= N) by lia. assert (L3 : f3 <= N) by lia. assert (L4 : f4 <= N) by lia.
    exists (S N). se_heads E1 E2 N L1 L2. rewrite (syn_eqB_mono _ _ _ _ _ _ L3 E3), (syn_eqB_mono _ _ _ _ _ _ L4 E4).
    destruct (binop_eqbB o o0); [destruct r3|]; discriminate.
  - (* if *) destruct Sa as (c0 & d0 & b0 & -> & Zc & Zd & Zb0). cbn [no_let] in Nu.
    apply andb_true_iff in Nu. destruct Nu as [Nu N3]. apply andb_true_iff in Nu. destruct Nu as [N1 N2].
    destruct b'; try discriminate Nb;
      try (exists (S (Nat.max f1 f2)); se_heads E1 E2 (Nat.max f1 f2) (Nat.le_max_l f1 f2) (Nat.le_max_r f1 f2); discriminate).
    apply zk_inv in Zb. destruct Zb as (c2 & d2 & b2 & -> & Zc2 & Zd2 & Zb2).
    destruct (IHau1 N1 _ _ _ Zc Zc2) as (f3 & HE3). destruct (syn_eqB f3 s _ _) as [r3|] eqn:E3 in HE3; [clear HE3|contradiction]. destruct (IHau2 N2 _ _ _ Zd Zd2) as (f4 & HE4). destruct (syn_eqB f4 s _ _) as [r4|] eqn:E4 in HE4; [clear HE4|contradiction].
    destruct (IHau3 N3 _ _ _ Zb0 Zb2) as (f5 & HE5). destruct (syn_eqB f5 s _ _) as [r5|] eqn:E5 in HE5; [clear HE5|contradiction].
    set (N := Nat.max f1 (Nat.max f2 (Nat.max f3 (Nat.max f4 f5)))).
    assert (L1 : f1 <= N) by lia. assert (L2 : f2 <= N) by lia. assert (L3 : f3 <= N) by lia. assert (L4 : f4 <= N) by lia.
    assert (L5 : f5 <= N) by lia.
    exists (S N). se_heads E1 E2 N L1 L2.
    rewrite (syn_eqB_mono _ _ _ _ _ _ L3 E3), (syn_eqB_mono _ _ _ _ _ _ L4 E4), (syn_eqB_mono _ _ _ _ _ _ L5 E5).
    destruct r3; [destruct r4|]; discriminate.
Qed.

(* ---------- the occurs check ---------- *)
Lemma occursB_suff_both s id :
  (forall t u, zk s t u -> exists f r, occursB f s id t = Some r) /\
  (forall l lu, zkds s l lu -> exists f r, occursB_defs f s id l = Some r).
Proof.
  apply (zk_zkds_ind s); intros; try (exists 1; eexists; reflexivity).
  - destruct H1 as (f1 & r & E). exists (S f1), r. cbn [occursB]. now rewrite H.
  - destruct H0 as (f1 & r1 & E1), H2 as (f2 & r2 & E2). exists (S (Nat.max f1 f2)). cbn [occursB].
    rewrite (occursB_mono _ _ _ _ _ _ (Nat.le_max_l f1 f2) E1), (occursB_mono _ _ _ _ _ _ (Nat.le_max_r f1 f2) E2).
    destruct r1; eexists; reflexivity.
  - destruct H0 as (f1 & r1 & E1), H2 as (f2 & r2 & E2). exists (S (Nat.max f1 f2)). cbn [occursB].
    rewrite (occursB_mono _ _ _ _ _ _ (Nat.le_max_l f1 f2) E1), (occursB_mono _ _ _ _ _ _ (Nat.le_max_r f1 f2) E2).
    destruct r1; eexists; reflexivity.
  - destruct H0 as (f1 & r1 & E1), H2 as (f2 & r2 & E2). exists (S (Nat.max f1 f2)). cbn [occursB].
    rewrite (occursB_mono _ _ _ _ _ _ (Nat.le_max_l f1 f2) E1), (occursB_mono _ _ _ _ _ _ (Nat.le_max_r f1 f2) E2).
    destruct r1; eexists; reflexivity.
  - destruct H0 as (f1 & r1 & E1), H2 as (f2 & r2 & E2). exists (S (Nat.max f1 f2)). cbn [occursB].
    change (exists r, match occursB_defs (Nat.max f1 f2) s id ds with
            | Some u => if u then Some true else occursB (Nat.max f1 f2) s id b | None => None end = Some r).
    rewrite (occursB_defs_mono f1 (Nat.max f1 f2) s id (fun t r => occursB_mono _ _ s id t r (Nat.le_max_l f1 f2)) _ _ E1).
    rewrite (occursB_mono _ _ _ _ _ _ (Nat.le_max_r f1 f2) E2). destruct r1; eexists; reflexivity.
  - destruct H0 as (f1 & r1 & E1). exists (S f1), r1. cbn [occursB]. exact E1.
  - destruct H0 as (f1 & r1 & E1), H2 as (f2 & r2 & E2). exists (S (Nat.max f1 f2)). cbn [occursB].
    rewrite (occursB_mono _ _ _ _ _ _ (Nat.le_max_l f1 f2) E1), (occursB_mono _ _ _ _ _ _ (Nat.le_max_r f1 f2) E2).
    destruct r1; eexists; reflexivity.
  - destruct H0 as (f1 & r1 & E1), H2 as (f2 & r2 & E2), H4 as (f3 & r3 & E3).
    set (N := Nat.max f1 (Nat.max f2 f3)). assert (L1 : f1 <= N) by lia. assert (L2 : f2 <= N) by lia. assert (L3 : f3 <= N) by lia.
    exists (S N). cbn [occursB].
    rewrite (occursB_mono _ _ _ _ _ _ L1 E1), (occursB_mono _ _ _ _ _ _ L2 E2), (occursB_mono _ _ _ _ _ _ L3 E3).
    destruct r1; [|destruct r2]; eexists; reflexivity.
  - destruct H0 as (f1 & r1 & E1), H2 as (f2 & r2 & E2), H4 as (f3 & r3 & E3).
    set (N := Nat.max f1 (Nat.max f2 f3)). assert (L1 : f1 <= N) by lia. assert (L2 : f2 <= N) by lia. assert (L3 : f3 <= N) by lia.
    exists N. cbn [occursB_defs].
    rewrite (occursB_mono _ _ _ _ _ _ L1 E1), (occursB_mono _ _ _ _ _ _ L2 E2).
    rewrite (occursB_defs_mono f3 N s id (fun t r => occursB_mono _ _ s id t r L3) _ _ E3).
    destruct r1; [|destruct r2]; eexists; reflexivity.
Qed.

Lemma occursB_suff s id t u : zk s t u -> sget s id = None -> exists f, occursB f s id t = Some false.
Proof.
  intros Hz Hn. destruct (proj1 (occursB_suff_both s id) _ _ Hz) as (f & r & E). exists f.
  now rewrite <- (occursB_zk _ _ _ _ _ _ Hz Hn E).
Qed.

(* ---------- unification: terminates whenever the conversion test on the zonked terms does ---------- *)
Lemma unifyB_rec_mono N N' : N <= N' -> forall s D a b r, unifyB N s D a b = Some r -> unifyB N' s D a b = Some r.
Proof. intros L s D a b r H. exact (unifyB_mono _ _ _ _ _ _ _ L H). Qed.

Ltac zk_shapes :=
  repeat match goal with X : exists _, _ |- _ => destruct X | X : _ /\ _ |- _ => destruct X end; subst.

Theorem unifyB_suff : forall f G au bu r, convb f G au bu = Some r ->
  forall s D a b, same_defs G (G_of_D D) -> hf_dctx D -> nl_dctx D -> no_let au = true -> no_let bu = true ->
  zk s a au -> zk s b bu -> exists f' r', unifyB f' s D a b = Some (r', s).
Proof.
  induction f as [|f IH]; intros G au bu r H s D a b HG HD ND Na Nb Ha Hb; [discriminate|].
  destruct (syn_eqB_suff s au Na a b bu Ha Hb) as (f1 & HE).
  destruct (syn_eqB f1 s a b) as [e|] eqn:Es; [clear HE|contradiction].
  destruct e.
  { exists (S f1), true. rewrite unifyB_S. unfold unify_body. now rewrite Es. }
  rewrite convb_S in H.
  destruct (whnf f G au) as [u|] eqn:Wa; [|discriminate]. destruct (whnf f G bu) as [v|] eqn:Wb; [|discriminate].
  destruct (whnfB_suff _ _ _ _ _ s a HG HD ND Na Ha Wa) as (f2 & w1 & E2 & Z1 & Nh1).
  destruct (whnfB_suff _ _ _ _ _ s b HG HD ND Nb Hb Wb) as (f3 & w2 & E3 & Z2 & Nh2).
  assert (Nu : no_let u = true).
  { rewrite (whnf_same_defs f G (G_of_D D) au HG) in Wa. exact (nl_whnf_D _ _ _ _ ND Na Wa). }
  assert (Nv : no_let v = true).
  { rewrite (whnf_same_defs f G (G_of_D D) bu HG) in Wb. exact (nl_whnf_D _ _ _ _ ND Nb Wb). }
  assert (Key : exists f4 r', unify_head f4 (unifyB f4) s D w1 w2 = Some (r', s)).
  { clear Es E2 E3 Wa Wb Ha Hb Na Nb.
    pose proof (zk_nonhole_inv _ _ _ Z1 Nh1) as S1. pose proof (zk_nonhole_inv _ _ _ Z2 Nh2) as S2.
    destruct u; try contradiction; destruct v; try contradiction; cbn beta iota in S1, S2; zk_shapes;
      try discriminate Nu; try discriminate Nv;
      try (exists 0; eexists; reflexivity); cbn [convb_head] in H; cbn [no_let] in Nu, Nv;
      repeat match goal with X : _ && _ = true |- _ => apply andb_true_iff in X; destruct X end.
    - (* lam *)
      destruct (Bool.eqb impl impl0) eqn:Ei; [|exists 0; eexists; cbv beta iota zeta delta [unify_head]; rewrite Ei; reflexivity].
      match goal with Hb1 : zk s ?b1 u2, Hb2 : zk s ?b2 v2 |- _ =>
        destruct (IH _ _ _ _ H s (None :: D) b1 b2 (same_defs_bind _ _ _ _ HG) (hf_dctx_cons_None _ HD) (nl_dctx_cons_None _ ND)
                    ltac:(assumption) ltac:(assumption) Hb1 Hb2) as (f4 & r4 & U4) end.
      exists f4, r4. cbv beta iota zeta delta [unify_head]. rewrite Ei. exact U4.
    - (* pi *)
      destruct (Bool.eqb impl impl0) eqn:Ei; [|exists 0; eexists; cbv beta iota zeta delta [unify_head]; rewrite Ei; reflexivity].
      unfold and3 in H. destruct (convb f G u1 v1) as [[|]|] eqn:C1; try discriminate H.
      + match goal with Hd1 : zk s ?d1 u1, Hd2 : zk s ?d2 v1, Hb1 : zk s ?b1 u2, Hb2 : zk s ?b2 v2 |- _ =>
          destruct (IH _ _ _ _ C1 s D d1 d2 HG HD ND ltac:(assumption) ltac:(assumption) Hd1 Hd2) as (f4 & r4 & U4);
          destruct (unifyB_zk_convb _ _ _ _ _ _ _ _ _ _ HG HD Hd1 Hd2 U4) as [_ K4]; pose proof (K4 _ _ C1) as E4; subst r4;
          destruct (IH _ _ _ _ H s (None :: D) b1 b2 (same_defs_bind _ _ _ _ HG) (hf_dctx_cons_None _ HD) (nl_dctx_cons_None _ ND)
                      ltac:(assumption) ltac:(assumption) Hb1 Hb2) as (f5 & r5 & U5) end.
        exists (Nat.max f4 f5), r5. cbv beta iota zeta delta [unify_head]. rewrite Ei.
        rewrite (unifyB_mono _ _ _ _ _ _ _ (Nat.le_max_l f4 f5) U4). exact (unifyB_mono _ _ _ _ _ _ _ (Nat.le_max_r f4 f5) U5).
      + match goal with Hd1 : zk s ?d1 u1, Hd2 : zk s ?d2 v1 |- _ =>
          destruct (IH _ _ _ _ C1 s D d1 d2 HG HD ND ltac:(assumption) ltac:(assumption) Hd1 Hd2) as (f4 & r4 & U4);
          destruct (unifyB_zk_convb _ _ _ _ _ _ _ _ _ _ HG HD Hd1 Hd2 U4) as [_ K4]; pose proof (K4 _ _ C1) as E4; subst r4 end.
        exists f4, false. cbv beta iota zeta delta [unify_head]. rewrite Ei, U4. reflexivity.
    - (* app *)
      unfold and3 in H. destruct (convb f G u1 v1) as [[|]|] eqn:C1; try discriminate H.
      + match goal with Hd1 : zk s ?d1 u1, Hd2 : zk s ?d2 v1, Hb1 : zk s ?b1 u2, Hb2 : zk s ?b2 v2 |- _ =>
          destruct (IH _ _ _ _ C1 s D d1 d2 HG HD ND ltac:(assumption) ltac:(assumption) Hd1 Hd2) as (f4 & r4 & U4);
          destruct (unifyB_zk_convb _ _ _ _ _ _ _ _ _ _ HG HD Hd1 Hd2 U4) as [_ K4]; pose proof (K4 _ _ C1) as E4; subst r4;
          destruct (IH _ _ _ _ H s D b1 b2 HG HD ND ltac:(assumption) ltac:(assumption) Hb1 Hb2) as (f5 & r5 & U5) end.
        exists (Nat.max f4 f5), r5. cbv beta iota zeta delta [unify_head].
        rewrite (unifyB_mono _ _ _ _ _ _ _ (Nat.le_max_l f4 f5) U4). exact (unifyB_mono _ _ _ _ _ _ _ (Nat.le_max_r f4 f5) U5).
      + match goal with Hd1 : zk s ?d1 u1, Hd2 : zk s ?d2 v1 |- _ =>
          destruct (IH _ _ _ _ C1 s D d1 d2 HG HD ND ltac:(assumption) ltac:(assumption) Hd1 Hd2) as (f4 & r4 & U4);
          destruct (unifyB_zk_convb _ _ _ _ _ _ _ _ _ _ HG HD Hd1 Hd2 U4) as [_ K4]; pose proof (K4 _ _ C1) as E4; subst r4 end.
        exists f4, false. cbv beta iota zeta delta [unify_head]. rewrite U4. reflexivity.
    - (* neg *)
      match goal with Hd1 : zk s ?d1 u, Hd2 : zk s ?d2 v |- _ =>
        destruct (IH _ _ _ _ H s D d1 d2 HG HD ND ltac:(assumption) ltac:(assumption) Hd1 Hd2) as (f4 & r4 & U4) end.
      exists f4, r4. exact U4.
    - (* bin *)
      replace (binop_eqb o o0) with (binop_eqbB o o0) in H by reflexivity.
      destruct (binop_eqbB o o0) eqn:Eo; [|exists 0; eexists; cbv beta iota zeta delta [unify_head]; rewrite Eo; reflexivity].
      unfold and3 in H. destruct (convb f G u1 v1) as [[|]|] eqn:C1; try discriminate H.
      + match goal with Hd1 : zk s ?d1 u1, Hd2 : zk s ?d2 v1, Hb1 : zk s ?b1 u2, Hb2 : zk s ?b2 v2 |- _ =>
          destruct (IH _ _ _ _ C1 s D d1 d2 HG HD ND ltac:(assumption) ltac:(assumption) Hd1 Hd2) as (f4 & r4 & U4);
          destruct (unifyB_zk_convb _ _ _ _ _ _ _ _ _ _ HG HD Hd1 Hd2 U4) as [_ K4]; pose proof (K4 _ _ C1) as E4; subst r4;
          destruct (IH _ _ _ _ H s D b1 b2 HG HD ND ltac:(assumption) ltac:(assumption) Hb1 Hb2) as (f5 & r5 & U5) end.
        exists (Nat.max f4 f5), r5. cbv beta iota zeta delta [unify_head]. rewrite Eo.
        rewrite (unifyB_mono _ _ _ _ _ _ _ (Nat.le_max_l f4 f5) U4). exact (unifyB_mono _ _ _ _ _ _ _ (Nat.le_max_r f4 f5) U5).
      + match goal with Hd1 : zk s ?d1 u1, Hd2 : zk s ?d2 v1 |- _ =>
          destruct (IH _ _ _ _ C1 s D d1 d2 HG HD ND ltac:(assumption) ltac:(assumption) Hd1 Hd2) as (f4 & r4 & U4);
          destruct (unifyB_zk_convb _ _ _ _ _ _ _ _ _ _ HG HD Hd1 Hd2 U4) as [_ K4]; pose proof (K4 _ _ C1) as E4; subst r4 end.
        exists f4, false. cbv beta iota zeta delta [unify_head]. rewrite Eo, U4. reflexivity.
    - (* if *)
      unfold and3 in H. destruct (convb f G u1 v1) as [[|]|] eqn:C1; try discriminate H.
      + destruct (convb f G u2 v2) as [[|]|] eqn:C2; try discriminate H.
        * match goal with Hc1 : zk s ?c1 u1, Hc2 : zk s ?c2 v1, Hd1 : zk s ?d1 u2, Hd2 : zk s ?d2 v2, Hb1 : zk s ?b1 u3, Hb2 : zk s ?b2 v3 |- _ =>
            destruct (IH _ _ _ _ C1 s D c1 c2 HG HD ND ltac:(assumption) ltac:(assumption) Hc1 Hc2) as (f4 & r4 & U4);
            destruct (unifyB_zk_convb _ _ _ _ _ _ _ _ _ _ HG HD Hc1 Hc2 U4) as [_ K4]; pose proof (K4 _ _ C1) as E4; subst r4;
            destruct (IH _ _ _ _ C2 s D d1 d2 HG HD ND ltac:(assumption) ltac:(assumption) Hd1 Hd2) as (f5 & r5 & U5);
            destruct (unifyB_zk_convb _ _ _ _ _ _ _ _ _ _ HG HD Hd1 Hd2 U5) as [_ K5]; pose proof (K5 _ _ C2) as E5; subst r5;
            destruct (IH _ _ _ _ H s D b1 b2 HG HD ND ltac:(assumption) ltac:(assumption) Hb1 Hb2) as (f6 & r6 & U6) end.
          set (N := Nat.max f4 (Nat.max f5 f6)). assert (L4 : f4 <= N) by lia. assert (L5 : f5 <= N) by lia. assert (L6 : f6 <= N) by lia.
          exists N, r6. cbv beta iota zeta delta [unify_head].
          rewrite (unifyB_mono _ _ _ _ _ _ _ L4 U4), (unifyB_mono _ _ _ _ _ _ _ L5 U5). exact (unifyB_mono _ _ _ _ _ _ _ L6 U6).
        * match goal with Hc1 : zk s ?c1 u1, Hc2 : zk s ?c2 v1, Hd1 : zk s ?d1 u2, Hd2 : zk s ?d2 v2 |- _ =>
            destruct (IH _ _ _ _ C1 s D c1 c2 HG HD ND ltac:(assumption) ltac:(assumption) Hc1 Hc2) as (f4 & r4 & U4);
            destruct (unifyB_zk_convb _ _ _ _ _ _ _ _ _ _ HG HD Hc1 Hc2 U4) as [_ K4]; pose proof (K4 _ _ C1) as E4; subst r4;
            destruct (IH _ _ _ _ C2 s D d1 d2 HG HD ND ltac:(assumption) ltac:(assumption) Hd1 Hd2) as (f5 & r5 & U5);
            destruct (unifyB_zk_convb _ _ _ _ _ _ _ _ _ _ HG HD Hd1 Hd2 U5) as [_ K5]; pose proof (K5 _ _ C2) as E5; subst r5 end.
          exists (Nat.max f4 f5), false. cbv beta iota zeta delta [unify_head].
          rewrite (unifyB_mono _ _ _ _ _ _ _ (Nat.le_max_l f4 f5) U4), (unifyB_mono _ _ _ _ _ _ _ (Nat.le_max_r f4 f5) U5). reflexivity.
      + match goal with Hc1 : zk s ?c1 u1, Hc2 : zk s ?c2 v1 |- _ =>
          destruct (IH _ _ _ _ C1 s D c1 c2 HG HD ND ltac:(assumption) ltac:(assumption) Hc1 Hc2) as (f4 & r4 & U4);
          destruct (unifyB_zk_convb _ _ _ _ _ _ _ _ _ _ HG HD Hc1 Hc2 U4) as [_ K4]; pose proof (K4 _ _ C1) as E4; subst r4 end.
        exists f4, false. cbv beta iota zeta delta [unify_head]. rewrite U4. reflexivity. }
  destruct Key as (f4 & r' & K).
  set (N := Nat.max f1 (Nat.max f2 (Nat.max f3 f4))).
  assert (L1 : f1 <= N) by lia. assert (L2 : f2 <= N) by lia. assert (L3 : f3 <= N) by lia. assert (L4 : f4 <= N) by lia.
  exists (S N), r'. rewrite unifyB_S. unfold unify_body.
  rewrite (syn_eqB_mono _ _ _ _ _ _ L1 Es), (whnfB_mono _ _ _ _ _ _ L2 E2), (whnfB_mono _ _ _ _ _ _ L3 E3).
  eapply unify_head_mono; [exact L4 | apply unifyB_rec_mono; exact L4 | exact K].
Qed.

(* the agreement lemma read in the other direction: the verdict of the conversion test on the zonked
   terms IS the verdict of unify for every large enough fuel (group-free zonks) *)
Corollary unifyB_complete f G au bu r s D a b :
  convb f G au bu = Some r -> same_defs G (G_of_D D) -> hf_dctx D -> nl_dctx D ->
  no_let au = true -> no_let bu = true -> zk s a au -> zk s b bu ->
  exists f0, forall f', f0 <= f' -> unifyB f' s D a b = Some (r, s).
Proof.
  intros C HG HD ND Na Nb Ha Hb.
  destruct (unifyB_suff _ _ _ _ _ C s D a b HG HD ND Na Nb Ha Hb) as (f0 & r' & U).
  destruct (unifyB_zk_convb _ _ _ _ _ _ _ _ _ _ HG HD Ha Hb U) as [_ K]. rewrite (K _ _ C) in *.
  exists f0. intros f' L. exact (unifyB_mono _ _ _ _ _ _ _ L U).
Qed.

(* ---------- L3 totality: a fresh cell, and the function-type probe ---------- *)
Lemma syn_eqB_unsolved_suff s id sh t tu : sget s id = None -> zk s t tu -> exists f, syn_eqB f s (THole id sh) t = Some false.
Proof.
  intros Hn Hz. destruct (headB_suff _ _ _ Hz) as (f1 & b' & E1 & Zb & Nb).
  assert (HH : headB (S f1) s (THole id sh) = Some (THole id sh)) by (cbn [headB]; now rewrite Hn).
  exists (S (S f1)). cbn [syn_eqB]. rewrite HH, (headB_mono f1 (S f1) _ _ _ (Nat.le_succ_diag_r f1) E1).
  cbv beta zeta. destruct b'; try discriminate Nb; reflexivity.
Qed.

Theorem unifyB_fresh_hole_suff s D id t tu f0 wu :
  hf_dctx D -> nl_dctx D -> sget s id = None -> zk s t tu -> no_let tu = true ->
  whnf f0 (G_of_D D) tu = Some wu ->
  exists f', unifyB f' s D (THole id 0) t = Some (true, sset s id wu) /\ hole_free wu = true.
Proof.
  intros HD ND Hn Hz Nt W.
  destruct (syn_eqB_unsolved_suff s id 0 t tu Hn Hz) as [f1 Es].
  destruct (whnfB_suff f0 (G_of_D D) D tu wu s t (same_defs_refl _) HD ND Nt Hz W) as (f2 & w & E2 & Zw & Nh).
  destruct (sshiftB_suff s w wu 0 0 Zw) as [f3 E3]. rewrite ushift_zero in E3.
  destruct (occursB_suff s id w wu Zw Hn) as [f4 E4].
  set (N := S (Nat.max f1 (Nat.max f2 (Nat.max f3 f4)))).
  assert (L1 : f1 <= N) by lia. assert (L2 : f2 <= N) by lia. assert (L3 : f3 <= N) by lia. assert (L4 : f4 <= N) by lia.
  exists (S N). split; [|exact (zk_hf _ _ _ Zw)]. rewrite unifyB_S. unfold unify_body.
  rewrite (syn_eqB_mono _ _ _ _ _ _ L1 Es).
  assert (WH : whnfB N s D (THole id 0) = Some (THole id 0, s)) by (unfold N; cbn [whnfB]; now rewrite Hn).
  rewrite WH, (whnfB_mono _ _ _ _ _ _ L2 E2).
  rewrite (unify_head_hole_l _ _ _ _ _ _ _ Nh). change (- Z.of_nat 0)%Z with (Z.of_nat 0).
  rewrite (sshiftB_mono _ _ _ _ _ _ _ L3 E3), (occursB_mono _ _ _ _ _ _ L4 E4). reflexivity.
Qed.

Theorem unifyB_pi_fresh_suff s D dom cod F Fu f0 A B fa A2 fb B2 :
  hf_dctx D -> nl_dctx D -> dom <> cod -> sget s dom = None -> sget s cod = None ->
  zk s F Fu -> no_let Fu = true ->
  whnf f0 (G_of_D D) Fu = Some (TPi false A B) ->
  whnf fa (G_of_D D) A = Some A2 -> whnf fb (G_of_D (None :: D)) B = Some B2 ->
  exists f' s', unifyB f' s D (TPi false (THole dom 0) (THole cod 0)) F = Some (true, s').
Proof.
  intros HD ND Hne Hn1 Hn2 Hz NF W WA WB.
  (* the syntactic shortcut says "different" *)
  assert (SE : exists f1, syn_eqB f1 s (TPi false (THole dom 0) (THole cod 0)) F = Some false).
  { destruct (headB_suff _ _ _ Hz) as (f1 & b' & E1 & Zb & Nb).
    assert (HP : forall n, headB (S n) s (TPi false (THole dom 0) (THole cod 0)) = Some (TPi false (THole dom 0) (THole cod 0))) by reflexivity.
    destruct b'; try discriminate Nb;
      try (exists (S (S f1)); cbn [syn_eqB]; rewrite HP, (headB_mono f1 (S f1) _ _ _ (Nat.le_succ_diag_r f1) E1); reflexivity).
    apply zk_inv in Zb. destruct Zb as (d' & b' & _ & Zd & _).
    destruct (syn_eqB_unsolved_suff s dom 0 _ _ Hn1 Zd) as [f2 E2].
    remember (Nat.max f1 f2) as M eqn:EM. assert (La : f1 <= S M) by lia. assert (Lb : f2 <= S M) by lia.
    remember (S M) as N eqn:EN.
    assert (HPN : headB N s (TPi false (THole dom 0) (THole cod 0)) = Some (TPi false (THole dom 0) (THole cod 0))) by (rewrite EN; reflexivity).
    exists (S N). cbn [syn_eqB]. rewrite HPN, (headB_mono _ _ _ _ _ La E1). cbv beta zeta.
    rewrite (syn_eqB_mono _ _ _ _ _ _ Lb E2). destruct (Bool.eqb false impl); reflexivity. }
  destruct SE as [f1 Es].
  pose proof (nl_whnf_D _ _ _ _ ND NF W) as NW. cbn [no_let] in NW. apply andb_true_iff in NW. destruct NW as [NA NB].
  destruct (whnfB_suff f0 (G_of_D D) D Fu _ s F (same_defs_refl _) HD ND NF Hz W) as (f2 & w & E2 & Zw & Nh).
  pose proof (zk_nonhole_inv _ _ _ Zw Nh) as Sw. cbn beta iota in Sw. destruct Sw as (d2 & b2 & -> & Zd2 & Zb2).
  destruct (unifyB_fresh_hole_suff s D dom d2 A fa A2 HD ND Hn1 Zd2 NA WA) as (f3 & U3 & HfA2).
  assert (E1 : StoreProofs.ext s (sset s dom A2)) by (apply sset_ext; exact Hn1).
  assert (Hn2' : sget (sset s dom A2) cod = None) by (rewrite sget_sset_other; [exact Hn2 | congruence]).
  destruct (unifyB_fresh_hole_suff (sset s dom A2) (None :: D) cod b2 B fb B2 (hf_dctx_cons_None _ HD) (nl_dctx_cons_None _ ND)
              Hn2' (zk_ext _ _ _ _ E1 Zb2) NB WB) as (f4 & U4 & _).
  set (N := S (Nat.max f1 (Nat.max f2 (Nat.max f3 f4)))).
  assert (L1 : f1 <= N) by lia. assert (L2 : f2 <= N) by lia. assert (L3 : f3 <= N) by lia. assert (L4 : f4 <= N) by lia.
  exists (S N). eexists. rewrite unifyB_S. unfold unify_body.
  rewrite (syn_eqB_mono _ _ _ _ _ _ L1 Es).
  assert (WP : whnfB N s D (TPi false (THole dom 0) (THole cod 0)) = Some (TPi false (THole dom 0) (THole cod 0), s)) by reflexivity.
  rewrite WP, (whnfB_mono _ _ _ _ _ _ L2 E2).
  cbv beta iota zeta delta [unify_head]. cbn [Bool.eqb].
  rewrite (unifyB_mono _ _ _ _ _ _ _ L3 U3). exact (unifyB_mono _ _ _ _ _ _ _ L4 U4).
Qed.


(* ====================================================================================== *)
(* E.  Completeness, given that the codomains of applied function types normalise           *)
(* ====================================================================================== *)
(* inferT is infer with ONE more requirement, at applications: the codomain B of the function type
   (whnf F = TPi false A B) has a weak-head normal form.  This is exactly the extra work tcB does when
   it solves ?cod; ex_div (section R) is a program accepted by infer and not by inferT. *)
Fixpoint inferT (fuel : nat) (G : ctx) (t : term) : option term :=
  match fuel with O => None | S f =>
  match t with
  | THole _ _ | TType | TInt | TBool => Some TType
  | TTrue | TFalse => Some TBool
  | TLit _ => Some TInt
  | TVar i => lookup_ty G i
  | TLam im d b =>
      match inferT f G d with
      | Some Td => if is_true (convb f G Td TType)
                   then match inferT f (bind G d) b with Some B => Some (TPi im d B) | None => None end else None
      | None => None end
  | TPi im d b =>
      match inferT f G d with
      | Some Td => if is_true (convb f G Td TType) then
          match inferT f (bind G d) b with
          | Some Tb => if is_true (convb f (bind G d) Tb TType) then Some TType else None
          | None => None end else None
      | None => None end
  | TApp a b =>
      match inferT f G a with
      | Some F => match whnf f G F with
        | Some (TPi false A B) =>
            match whnf f (bind G A) B with
            | Some _ =>
                match inferT f G b with
                | Some A' => if is_true (convb f G A' A) then Some (open B 0 b 0) else None
                | None => None end
            | None => None end
        | _ => None end
      | None => None end
  | TLet ds b =>
      let G' := enter ds G in
      if infer_defs (inferT f G') (convb f G') ds then
        match inferT f G' b with Some B => Some (group_type (length ds) ds 0 (length ds) B) | None => None end
      else None
  | TNeg a => match inferT f G a with Some Ta => if is_true (convb f G Ta TInt) then Some TInt else None | None => None end
  | TBin o a b =>
      match inferT f G a, inferT f G b with
      | Some Ta, Some Tb => if is_true (convb f G Ta TInt) && is_true (convb f G Tb TInt) then Some (bin_ty o) else None
      | _, _ => None end
  | TIf c a b =>
      match inferT f G c, inferT f G a, inferT f G b with
      | Some Tc, Some Ta, Some Tb =>
          if is_true (convb f G Tc TBool) && is_true (convb f G Tb Ta) then Some Ta else None
      | _, _, _ => None end
  end end.

Theorem inferT_infer : forall f G t T, inferT f G t = Some T -> infer f G t = Some T.
Proof.
  induction f as [|f IH]; intros G t T H; [discriminate|].
  destruct t; cbn [inferT] in H; cbn [infer]; try exact H.
  - destruct (inferT f G t1) as [Td|] eqn:E1; [|discriminate]. rewrite (IH _ _ _ E1).
    destruct (is_true (convb f G Td TType)); [|discriminate].
    destruct (inferT f (bind G t1) t2) as [B|] eqn:E2; [|discriminate]. now rewrite (IH _ _ _ E2).
  - destruct (inferT f G t1) as [Td|] eqn:E1; [|discriminate]. rewrite (IH _ _ _ E1).
    destruct (is_true (convb f G Td TType)); [|discriminate].
    destruct (inferT f (bind G t1) t2) as [B|] eqn:E2; [|discriminate]. now rewrite (IH _ _ _ E2).
  - destruct (inferT f G t1) as [F|] eqn:E1; [|discriminate]. rewrite (IH _ _ _ E1).
    destruct (whnf f G F) as [[ ? ? | | | | | | ? | ? | ? ? ? | im A B | ? ? | ? ? | ? | ? ? ? | ? ? ? ]|]; try discriminate.
    destruct im; try discriminate. destruct (whnf f (bind G A) B); [|discriminate].
    destruct (inferT f G t2) as [A'|] eqn:E2; [|discriminate]. now rewrite (IH _ _ _ E2).
  - cbv zeta in H |- *.
    destruct (infer_defs (inferT f (enter defs G)) (convb f (enter defs G)) defs) eqn:ID; [|discriminate].
    rewrite (infer_defs_mono _ (infer f (enter defs G)) _ (convb f (enter defs G)) (fun t T => IH _ t T) (fun a b C => C) _ ID).
    destruct (inferT f (enter defs G) t) as [B|] eqn:E2; [|discriminate]. now rewrite (IH _ _ _ E2).
  - destruct (inferT f G t) as [Ta|] eqn:E1; [|discriminate]. now rewrite (IH _ _ _ E1).
  - destruct (inferT f G t1) as [Ta|] eqn:E1; [|discriminate]. rewrite (IH _ _ _ E1).
    destruct (inferT f G t2) as [Tb|] eqn:E2; [|discriminate]. now rewrite (IH _ _ _ E2).
  - destruct (inferT f G t1) as [Tc|] eqn:E1; [|discriminate]. rewrite (IH _ _ _ E1).
    destruct (inferT f G t2) as [Ta|] eqn:E2; [|discriminate]. rewrite (IH _ _ _ E2).
    destruct (inferT f G t3) as [Tb|] eqn:E3; [|discriminate]. now rewrite (IH _ _ _ E3).
Qed.

(* ex_div is accepted by infer and not by inferT *)
Lemma whnf_self_loop : forall f G i, lookup_def G i = Some (TVar i) -> whnf f G (TVar i) = None.
Proof. induction f as [|f IH]; intros G i H; [reflexivity|]. cbn [whnf]. rewrite H. now apply IH. Qed.

Lemma inferT_app_div f G : lookup_ty G 0 = Some (TPi false TInt (TVar 2)) -> lookup_def (bind G TInt) 2 = Some (TVar 2) ->
  inferT f G (TApp (TVar 0) (TLit 3)) = None.
Proof.
  intros HT HD. destruct f as [|f]; [reflexivity|]. cbn [inferT].
  destruct f as [|f]; [reflexivity|]. cbn [inferT]. rewrite HT.
  change (whnf (S f) G (TPi false TInt (TVar 2))) with (Some (TPi false TInt (TVar 2))). cbv beta iota.
  now rewrite (whnf_self_loop _ _ _ HD).
Qed.

Example ex_div_not_inferT : forall f, inferT f [] ex_div = None.
Proof.
  intros [|f]; [reflexivity|]. unfold ex_div. cbn [inferT]. cbv zeta.
  destruct (infer_defs _ _ _); [|reflexivity].
  destruct f as [|f]; [reflexivity|]. cbn [inferT].
  destruct (inferT f (enter [(TType, TVar 0)] []) (TPi false TInt (TVar 1))); [|reflexivity].
  destruct (is_true _); [|reflexivity].
  rewrite inferT_app_div; reflexivity.
Qed.

Lemma ldefs_nl_bind G a : ldefs_nl G -> ldefs_nl (bind G a).
Proof.
  intros H [|i] d E; [discriminate E|]. unfold lookup_def in E. cbn [bind nth_error] in E.
  destruct (nth_error G i) as [[[T k] [d0|]]|] eqn:En; try discriminate E. injection E as <-.
  rewrite ldefs_nl_ushift_inv. specialize (H i (ushift d0 0 (i + 1 - k))). unfold lookup_def in H. rewrite En in H.
  specialize (H eq_refl). now rewrite ldefs_nl_ushift_inv in H.
Qed.

Lemma hr_nl : forall G t t', hr G t t' -> ldefs_nl G -> no_let t = true -> no_let t' = true.
Proof.
  induction 1; intros HG Hn; [exact Hn | apply IHhr; [exact HG | eapply red_nl; eassumption] |].
  cbn [no_let] in *. apply andb_true_iff in Hn. destruct Hn as [N1 N2].
  rewrite (IHhr1 HG N1), (IHhr2 (ldefs_nl_bind _ _ HG) N2). reflexivity.
Qed.

Lemma convb_whnf_r f G a b r : convb f G a b = Some r -> exists f' v, whnf f' G b = Some v.
Proof.
  destruct f as [|f]; [discriminate|]. rewrite convb_S. destruct (whnf f G a); [|discriminate].
  destruct (whnf f G b) as [v|] eqn:E; [|discriminate]. eauto.
Qed.

Lemma expectB_suff s D a w e es au wu G f0 :
  same_defs G (G_of_D D) -> hf_dctx D -> nl_dctx D -> zk s a au -> zk s w wu -> no_let au = true -> no_let wu = true ->
  convb f0 G au wu = Some true -> exists f', expectB f' s D a w e es = Some (s, es).
Proof.
  intros HG HD ND Ha Hw Na Nw C.
  destruct (unifyB_suff _ _ _ _ _ C s D a w HG HD ND Na Nw Ha Hw) as (f' & r' & U).
  destruct (unify_true_of_convb _ _ _ _ _ _ _ _ _ _ _ HG HD Ha Hw U C) as [-> _].
  exists f'. unfold expectB. now rewrite U.
Qed.

Lemma gz_ok_ldefs_nl Gz : gz_ok Gz -> ldefs_nl Gz.
Proof. intros (_ & _ & H). now apply ctx_nl_ldefs. Qed.

Theorem tcB_total_nl : forall f Gz t T, inferT f Gz t = Some T ->
  forall s G D, ctx_rel G D Gz -> gz_ok Gz -> hole_free t = true -> no_let t = true ->
  exists f' r, tcB f' s G D t = Some r.
Proof.
  induction f as [|f IH]; intros Gz t T HI s G D HC HZ Hf Hn; [discriminate|].
  pose proof HC as (HC1 & HS & HD & ND). pose proof HZ as (WZ & HZf & HZn).
  pose proof (gz_ok_ldefs_nl _ HZ) as LN.
  destruct t; cbn [hole_free] in Hf; cbn [no_let] in Hn; cbn [inferT] in HI; try (exists 1; eexists; reflexivity).
  - (* var *)
    destruct (nth_error G i) as [[T0 off]|] eqn:En; [|exists 1; eexists; cbn [tcB]; rewrite En; reflexivity].
    destruct (ctx_rel_lookup _ _ _ _ _ _ HC En) as (_ & HfT & _).
    destruct (ushiftB_suff s T0 T0 0 (i + 1 - off) (zk_refl_hf _ _ HfT)) as [f1 U].
    exists (S f1). eexists. cbn [tcB]. rewrite En, U. reflexivity.
  - (* lam *)
    apply andb_true_iff in Hf; destruct Hf as [Hf1 Hf2]. apply andb_true_iff in Hn; destruct Hn as [Hn1 Hn2].
    destruct (inferT f Gz t1) as [Td|] eqn:I1; [|discriminate].
    destruct (is_true (convb f Gz Td TType)) eqn:C1; [|discriminate]. apply is_true_some in C1.
    destruct (inferT f (bind Gz t1) t2) as [B|] eqn:I2; [|discriminate].
    destruct (IH _ _ _ I1 s G D HC HZ Hf1 Hn1) as (f1 & rd & E1).
    destruct (tcB_accepts_nl _ _ _ _ _ _ _ HC HZ Hf1 Hn1 E1 _ _ (inferT_infer _ _ _ _ I1)) as (Hed & Td' & Zd & Rd).
    destruct (convb_hr _ _ _ _ _ C1 _ _ Rd (hr_refl _ _)) as [n1 C1'].
    pose proof (hr_nl _ _ _ Rd LN (infer_nl _ _ _ _ HZn Hn1 (inferT_infer _ _ _ _ I1))) as NTd'.
    destruct (expectB_suff (b_st rd) D (b_ty rd) TType ENotType (b_errs rd) _ _ _ _ HS HD ND Zd (zk_type _) NTd' eq_refl C1') as [f2 X1].
    destruct (IH _ _ _ I2 (b_st rd) ((t1, 0) :: G) (None :: D) (ctx_rel_bind _ _ _ _ HC Hf1 Hn1) (gz_ok_bind _ _ HZ Hf1 Hn1) Hf2 Hn2) as (f3 & rb & E2).
    set (N := Nat.max f1 (Nat.max f2 f3)). assert (L1 : f1 <= N) by lia. assert (L2 : f2 <= N) by lia. assert (L3 : f3 <= N) by lia.
    exists (S N). eexists. cbn [tcB]. rewrite (tcB_mono _ _ _ _ _ _ _ L1 E1), (expectB_mono _ _ _ _ _ _ _ _ _ L2 X1).
    rewrite (tcB_elab_identity _ _ _ _ _ _ E1), (tcB_mono _ _ _ _ _ _ _ L3 E2). reflexivity.
  - (* pi *)
    apply andb_true_iff in Hf; destruct Hf as [Hf1 Hf2]. apply andb_true_iff in Hn; destruct Hn as [Hn1 Hn2].
    destruct (inferT f Gz t1) as [Td|] eqn:I1; [|discriminate].
    destruct (is_true (convb f Gz Td TType)) eqn:C1; [|discriminate]. apply is_true_some in C1.
    destruct (inferT f (bind Gz t1) t2) as [Tb|] eqn:I2; [|discriminate].
    destruct (is_true (convb f (bind Gz t1) Tb TType)) eqn:C2; [|discriminate]. apply is_true_some in C2.
    destruct (IH _ _ _ I1 s G D HC HZ Hf1 Hn1) as (f1 & rd & E1).
    destruct (tcB_accepts_nl _ _ _ _ _ _ _ HC HZ Hf1 Hn1 E1 _ _ (inferT_infer _ _ _ _ I1)) as (Hed & Td' & Zd & Rd).
    destruct (convb_hr _ _ _ _ _ C1 _ _ Rd (hr_refl _ _)) as [n1 C1'].
    pose proof (hr_nl _ _ _ Rd LN (infer_nl _ _ _ _ HZn Hn1 (inferT_infer _ _ _ _ I1))) as NTd'.
    destruct (expectB_suff (b_st rd) D (b_ty rd) TType ENotType (b_errs rd) _ _ _ _ HS HD ND Zd (zk_type _) NTd' eq_refl C1') as [f2 X1].
    pose proof (ctx_rel_bind _ _ _ _ HC Hf1 Hn1) as HC'. pose proof HC' as (_ & HS' & HD' & ND').
    pose proof (gz_ok_bind _ _ HZ Hf1 Hn1) as HZ'. pose proof HZ' as (_ & _ & HZn').
    destruct (IH _ _ _ I2 (b_st rd) ((t1, 0) :: G) (None :: D) HC' HZ' Hf2 Hn2) as (f3 & rb & E2).
    destruct (tcB_accepts_nl _ _ _ _ _ _ _ HC' HZ' Hf2 Hn2 E2 _ _ (inferT_infer _ _ _ _ I2)) as (Heb & Tb' & Zb & Rb).
    destruct (convb_hr _ _ _ _ _ C2 _ _ Rb (hr_refl _ _)) as [n2 C2'].
    pose proof (hr_nl _ _ _ Rb (gz_ok_ldefs_nl _ HZ') (infer_nl _ _ _ _ HZn' Hn2 (inferT_infer _ _ _ _ I2))) as NTb'.
    destruct (expectB_suff (b_st rb) (None :: D) (b_ty rb) TType ENotType (b_errs rd ++ b_errs rb) _ _ _ _ HS' HD' ND' Zb (zk_type _) NTb' eq_refl C2') as [f4 X2].
    set (N := Nat.max f1 (Nat.max f2 (Nat.max f3 f4))).
    assert (L1 : f1 <= N) by lia. assert (L2 : f2 <= N) by lia. assert (L3 : f3 <= N) by lia. assert (L4 : f4 <= N) by lia.
    exists (S N). eexists. cbn [tcB]. rewrite (tcB_mono _ _ _ _ _ _ _ L1 E1), (expectB_mono _ _ _ _ _ _ _ _ _ L2 X1).
    rewrite (tcB_elab_identity _ _ _ _ _ _ E1), (tcB_mono _ _ _ _ _ _ _ L3 E2), (expectB_mono _ _ _ _ _ _ _ _ _ L4 X2). reflexivity.
  - (* app *)
    apply andb_true_iff in Hf; destruct Hf as [Hf1 Hf2]. apply andb_true_iff in Hn; destruct Hn as [Hn1 Hn2].
    destruct (inferT f Gz t1) as [F|] eqn:I1; [|discriminate].
    destruct (whnf f Gz F) as [[ ? ? | | | | | | ? | ? | ? ? ? | im A B | ? ? | ? ? | ? | ? ? ? | ? ? ? ]|] eqn:W1; try discriminate.
    destruct im; try discriminate.
    destruct (whnf f (bind Gz A) B) as [B0|] eqn:WB; [|discriminate].
    destruct (inferT f Gz t2) as [A0|] eqn:I2; [|discriminate].
    destruct (is_true (convb f Gz A0 A)) eqn:C1; [|discriminate]. apply is_true_some in C1.
    destruct (IH _ _ _ I1 s G D HC HZ Hf1 Hn1) as (f1 & ra & E1).
    destruct (tcB_accepts_nl _ _ _ _ _ _ _ HC HZ Hf1 Hn1 E1 _ _ (inferT_infer _ _ _ _ I1)) as (Hea & F' & Zf & Rf).
    pose proof (infer_nl _ _ _ _ HZn Hn1 (inferT_infer _ _ _ _ I1)) as NF.
    pose proof (infer_hole_free _ _ _ _ HZf Hf1 (inferT_infer _ _ _ _ I1)) as HfF.
    pose proof (whnf_hole_free _ _ _ _ (ctx_hf'_hf _ HZf) HfF W1) as HfW. pose proof (whnf_nl _ _ _ _ HZn NF W1) as NW.
    cbn [hole_free] in HfW. cbn [no_let] in NW.
    apply andb_true_iff in HfW; destruct HfW as [HfA HfB]. apply andb_true_iff in NW; destruct NW as [NA NB].
    pose proof (hr_nl _ _ _ Rf LN NF) as NF'.
    destruct (hr_whnf _ _ _ Rf _ _ W1) as (g1 & u' & W1' & Hu).
    destruct (hrw_pi_inv _ _ _ _ _ Hu) as (A' & B' & -> & RA & RB).
    destruct (convb_whnf_r _ _ _ _ _ C1) as (g2 & Av & WA).
    destruct (hr_whnf _ _ _ RA _ _ WA) as (g3 & A2 & WA' & _).
    destruct (hr_whnf _ _ _ RB _ _ WB) as (g4 & B2 & WB' & _).
    set (s0 := b_st ra) in *. set (s2 := (s0 ++ [None]) ++ [None]).
    assert (G02 : grow s0 s2) by (eapply grow_trans; apply grow_snoc).
    assert (Zf2 : zk s2 (b_ty ra) F') by (eapply zk_ext; [apply grow_ext; exact G02 | exact Zf]).
    assert (L2s : length s2 = S (S (length s0))) by (unfold s2; rewrite !app_length; cbn [length]; lia).
    assert (L1s : length (s0 ++ [None]) = S (length s0)) by (rewrite app_length; cbn [length]; lia).
    assert (Hn_dom : sget s2 (length s0) = None) by (rewrite (grow_sget _ _ _ G02); apply sget_ge; lia).
    assert (Hn_cod : sget s2 (length (s0 ++ [None])) = None).
    { unfold s2. rewrite (grow_sget _ _ _ (grow_snoc (s0 ++ [None]))). apply sget_ge. lia. }
    assert (Hne : length s0 <> length (s0 ++ [None])) by lia.
    assert (Hl1 : length s0 < length s2) by lia. assert (Hl2 : length (s0 ++ [None]) < length s2) by lia.
    rewrite (whnf_same_defs g1 Gz (G_of_D D) F' HS) in W1'.
    rewrite (whnf_same_defs g3 Gz (G_of_D D) A' HS) in WA'.
    rewrite (whnf_same_defs g4 (bind Gz A) (G_of_D (None :: D)) B') in WB' by (apply same_defs_bind; exact HS).
    destruct (unifyB_pi_fresh_suff s2 D (length s0) (length (s0 ++ [None])) (b_ty ra) F' _ _ _ _ _ _ _ HD ND Hne Hn_dom Hn_cod Zf2 NF' W1' WA' WB')
      as (f2 & s3 & U1).
    rewrite <- (whnf_same_defs g1 Gz (G_of_D D) F' HS) in W1'.
    destruct (unifyB_pi_fresh_dec _ _ _ _ _ _ _ _ _ Gz _ _ _ HD HS Hne Hn_dom Hn_cod Hl1 Hl2 Zf2 W1' U1)
      as (_ & X23 & A3 & B3 & ZA & ZB & SA & SB).
    assert (RA3 : hr Gz A A3) by (eapply hr_rstar_r; eassumption).
    destruct (IH _ _ _ I2 s3 G D HC HZ Hf2 Hn2) as (f3 & rb & E2).
    destruct (tcB_accepts_nl _ _ _ _ _ _ _ HC HZ Hf2 Hn2 E2 _ _ (inferT_infer _ _ _ _ I2)) as (Heb & A0' & Za0 & Ra0).
    pose proof (tcB_ext _ _ _ _ _ _ E2) as X3b.
    destruct (convb_hr _ _ _ _ _ C1 _ _ Ra0 RA3) as [n1 C1']. rewrite convb_sym in C1'.
    pose proof (hr_nl _ _ _ RA3 LN NA) as NA3.
    pose proof (hr_nl _ _ _ Ra0 LN (infer_nl _ _ _ _ HZn Hn2 (inferT_infer _ _ _ _ I2))) as NA0'.
    destruct (expectB_suff (b_st rb) D (THole (length s0) 0) (b_ty rb) EArgument (b_errs ra ++ b_errs rb) _ _ _ _ HS HD ND
                (zk_ext _ _ _ _ X3b ZA) Za0 NA3 NA0' C1') as [f4 X2].
    destruct (openB_suff (b_st rb) (THole (length (s0 ++ [None])) 0) B3 t2 t2 0 0 (zk_ext _ _ _ _ X3b ZB) (zk_refl_hf _ _ Hf2)) as [f5 O].
    set (N := Nat.max f1 (Nat.max f2 (Nat.max f3 (Nat.max f4 f5)))).
    assert (L1 : f1 <= N) by lia. assert (L2 : f2 <= N) by lia. assert (L3 : f3 <= N) by lia. assert (L4 : f4 <= N) by lia.
    assert (L5 : f5 <= N) by lia.
    exists (S N). eexists. cbn [tcB]. rewrite (tcB_mono _ _ _ _ _ _ _ L1 E1). unfold fresh_hole, salloc. fold s0. fold s2.
    unfold expectB at 1. rewrite (unifyB_mono _ _ _ _ _ _ _ L2 U1).
    rewrite (tcB_mono _ _ _ _ _ _ _ L3 E2), (expectB_mono _ _ _ _ _ _ _ _ _ L4 X2).
    rewrite (tcB_elab_identity _ _ _ _ _ _ E2), (openB_mono _ _ _ _ _ _ _ _ L5 O). reflexivity.
  - discriminate Hn.
  - (* neg *)
    destruct (inferT f Gz t) as [Ta|] eqn:I1; [|discriminate].
    destruct (is_true (convb f Gz Ta TInt)) eqn:C1; [|discriminate]. apply is_true_some in C1.
    destruct (IH _ _ _ I1 s G D HC HZ Hf Hn) as (f1 & ra & E1).
    destruct (tcB_accepts_nl _ _ _ _ _ _ _ HC HZ Hf Hn E1 _ _ (inferT_infer _ _ _ _ I1)) as (Hea & Ta' & Za & Ra).
    destruct (convb_hr _ _ _ _ _ C1 _ _ Ra (hr_refl _ _)) as [n1 C1'].
    pose proof (hr_nl _ _ _ Ra LN (infer_nl _ _ _ _ HZn Hn (inferT_infer _ _ _ _ I1))) as NTa'.
    destruct (expectB_suff (b_st ra) D (b_ty ra) TInt ENotInt (b_errs ra) _ _ _ _ HS HD ND Za (zk_int _) NTa' eq_refl C1') as [f2 X1].
    exists (S (Nat.max f1 f2)). eexists. cbn [tcB].
    rewrite (tcB_mono _ _ _ _ _ _ _ (Nat.le_max_l f1 f2) E1), (expectB_mono _ _ _ _ _ _ _ _ _ (Nat.le_max_r f1 f2) X1). reflexivity.
  - (* bin *)
    apply andb_true_iff in Hf; destruct Hf as [Hf1 Hf2]. apply andb_true_iff in Hn; destruct Hn as [Hn1 Hn2].
    destruct (inferT f Gz t1) as [Ta|] eqn:I1; [|discriminate].
    destruct (inferT f Gz t2) as [Tb|] eqn:I2; [|discriminate].
    destruct (is_true (convb f Gz Ta TInt) && is_true (convb f Gz Tb TInt)) eqn:C; [|discriminate].
    apply andb_true_iff in C; destruct C as [C1 C2]. apply is_true_some in C1. apply is_true_some in C2.
    destruct (IH _ _ _ I1 s G D HC HZ Hf1 Hn1) as (f1 & ra & E1).
    destruct (tcB_accepts_nl _ _ _ _ _ _ _ HC HZ Hf1 Hn1 E1 _ _ (inferT_infer _ _ _ _ I1)) as (Hea & Ta' & Za & Ra).
    destruct (convb_hr _ _ _ _ _ C1 _ _ Ra (hr_refl _ _)) as [n1 C1'].
    pose proof (hr_nl _ _ _ Ra LN (infer_nl _ _ _ _ HZn Hn1 (inferT_infer _ _ _ _ I1))) as NTa'.
    destruct (expectB_suff (b_st ra) D (b_ty ra) TInt ENotInt (b_errs ra) _ _ _ _ HS HD ND Za (zk_int _) NTa' eq_refl C1') as [f2 X1].
    destruct (IH _ _ _ I2 (b_st ra) G D HC HZ Hf2 Hn2) as (f3 & rb & E2).
    destruct (tcB_accepts_nl _ _ _ _ _ _ _ HC HZ Hf2 Hn2 E2 _ _ (inferT_infer _ _ _ _ I2)) as (Heb & Tb' & Zb & Rb).
    destruct (convb_hr _ _ _ _ _ C2 _ _ Rb (hr_refl _ _)) as [n2 C2'].
    pose proof (hr_nl _ _ _ Rb LN (infer_nl _ _ _ _ HZn Hn2 (inferT_infer _ _ _ _ I2))) as NTb'.
    destruct (expectB_suff (b_st rb) D (b_ty rb) TInt ENotInt (b_errs ra ++ b_errs rb) _ _ _ _ HS HD ND Zb (zk_int _) NTb' eq_refl C2') as [f4 X2].
    set (N := Nat.max f1 (Nat.max f2 (Nat.max f3 f4))).
    assert (L1 : f1 <= N) by lia. assert (L2 : f2 <= N) by lia. assert (L3 : f3 <= N) by lia. assert (L4 : f4 <= N) by lia.
    exists (S N). eexists. cbn [tcB]. rewrite (tcB_mono _ _ _ _ _ _ _ L1 E1), (expectB_mono _ _ _ _ _ _ _ _ _ L2 X1).
    rewrite (tcB_mono _ _ _ _ _ _ _ L3 E2), (expectB_mono _ _ _ _ _ _ _ _ _ L4 X2). reflexivity.
  - (* if *)
    apply andb_true_iff in Hf; destruct Hf as [Hf12 Hf3]. apply andb_true_iff in Hf12; destruct Hf12 as [Hf1 Hf2].
    apply andb_true_iff in Hn; destruct Hn as [Hn12 Hn3]. apply andb_true_iff in Hn12; destruct Hn12 as [Hn1 Hn2].
    destruct (inferT f Gz t1) as [Tc|] eqn:I1; [|discriminate].
    destruct (inferT f Gz t2) as [Ta|] eqn:I2; [|discriminate].
    destruct (inferT f Gz t3) as [Tb|] eqn:I3; [|discriminate].
    destruct (is_true (convb f Gz Tc TBool) && is_true (convb f Gz Tb Ta)) eqn:C; [|discriminate].
    apply andb_true_iff in C; destruct C as [C1 C2]. apply is_true_some in C1. apply is_true_some in C2.
    destruct (IH _ _ _ I1 s G D HC HZ Hf1 Hn1) as (f1 & rc & E1).
    destruct (tcB_accepts_nl _ _ _ _ _ _ _ HC HZ Hf1 Hn1 E1 _ _ (inferT_infer _ _ _ _ I1)) as (Hec & Tc' & Zc & Rc).
    destruct (convb_hr _ _ _ _ _ C1 _ _ Rc (hr_refl _ _)) as [n1 C1'].
    pose proof (hr_nl _ _ _ Rc LN (infer_nl _ _ _ _ HZn Hn1 (inferT_infer _ _ _ _ I1))) as NTc'.
    destruct (expectB_suff (b_st rc) D (b_ty rc) TBool ENotBool (b_errs rc) _ _ _ _ HS HD ND Zc (zk_bool _) NTc' eq_refl C1') as [f2 X1].
    destruct (IH _ _ _ I2 (b_st rc) G D HC HZ Hf2 Hn2) as (f3 & ra & E2).
    destruct (tcB_accepts_nl _ _ _ _ _ _ _ HC HZ Hf2 Hn2 E2 _ _ (inferT_infer _ _ _ _ I2)) as (Hea & Ta' & Za & Ra).
    destruct (IH _ _ _ I3 (b_st ra) G D HC HZ Hf3 Hn3) as (f4 & rb & E3).
    destruct (tcB_accepts_nl _ _ _ _ _ _ _ HC HZ Hf3 Hn3 E3 _ _ (inferT_infer _ _ _ _ I3)) as (Heb & Tb' & Zb & Rb).
    pose proof (tcB_ext _ _ _ _ _ _ E3) as Xab.
    destruct (convb_hr _ _ _ _ _ C2 _ _ Rb Ra) as [n2 C2']. rewrite convb_sym in C2'.
    pose proof (hr_nl _ _ _ Ra LN (infer_nl _ _ _ _ HZn Hn2 (inferT_infer _ _ _ _ I2))) as NTa'.
    pose proof (hr_nl _ _ _ Rb LN (infer_nl _ _ _ _ HZn Hn3 (inferT_infer _ _ _ _ I3))) as NTb'.
    destruct (expectB_suff (b_st rb) D (b_ty ra) (b_ty rb) EBranches (b_errs rc ++ b_errs ra ++ b_errs rb) _ _ _ _ HS HD ND
                (zk_ext _ _ _ _ Xab Za) Zb NTa' NTb' C2') as [f5 X2].
    set (N := Nat.max f1 (Nat.max f2 (Nat.max f3 (Nat.max f4 f5)))).
    assert (L1 : f1 <= N) by lia. assert (L2 : f2 <= N) by lia. assert (L3 : f3 <= N) by lia. assert (L4 : f4 <= N) by lia.
    assert (L5 : f5 <= N) by lia.
    exists (S N). eexists. cbn [tcB]. rewrite (tcB_mono _ _ _ _ _ _ _ L1 E1), (expectB_mono _ _ _ _ _ _ _ _ _ L2 X1).
    rewrite (tcB_mono _ _ _ _ _ _ _ L3 E2), (tcB_mono _ _ _ _ _ _ _ L4 E3), (expectB_mono _ _ _ _ _ _ _ _ _ L5 X2). reflexivity.
Qed.

(* ---------- groups on the spine ---------- *)
Lemma tc_defs_total Gz' G' D' f0 : ctx_rel G' D' Gz' -> gz_ok Gz' ->
  forall l, ModelBHoleFree.hf_defs l = true -> nl_defs l = true ->
  infer_defs (inferT f0 Gz') (convb f0 Gz') l = true ->
  forall s0 es, exists f' res, tc_defs f' (fun s d => tcB f' s G' D' d) D' l s0 es = Some res.
Proof.
  intros HC HZ. pose proof HC as (_ & HS & HD & ND). pose proof HZ as (_ & _ & HZn). pose proof (gz_ok_ldefs_nl _ HZ) as LN.
  induction l as [|[a d] rest IHl]; intros Hf Hn HI s0 es; [exists 0; eexists; reflexivity|].
  apply hf_defs_cons in Hf. destruct Hf as (Ha & Hd & Hr). apply nl_defs_cons in Hn. destruct Hn as (Na & Nd & Nr).
  cbn [infer_defs] in HI.
  destruct (inferT f0 Gz' a) as [Ta|] eqn:I1; [|discriminate]. destruct (inferT f0 Gz' d) as [Td|] eqn:I2; [|discriminate].
  apply andb_true_iff in HI. destruct HI as [HI HI3]. apply andb_true_iff in HI. destruct HI as [C1 C2].
  apply is_true_some in C1. apply is_true_some in C2.
  destruct (tcB_total_nl _ _ _ _ I1 s0 G' D' HC HZ Ha Na) as (f1 & ra & E1).
  destruct (tcB_accepts_nl _ _ _ _ _ _ _ HC HZ Ha Na E1 _ _ (inferT_infer _ _ _ _ I1)) as (Hea & Ta' & Za & Ra).
  destruct (convb_hr _ _ _ _ _ C1 _ _ Ra (hr_refl _ _)) as [n1 C1'].
  pose proof (hr_nl _ _ _ Ra LN (infer_nl _ _ _ _ HZn Na (inferT_infer _ _ _ _ I1))) as NTa'.
  destruct (expectB_suff (b_st ra) D' (b_ty ra) TType ENotType (es ++ b_errs ra) _ _ _ _ HS HD ND Za (zk_type _) NTa' eq_refl C1') as [f2 X1].
  destruct (tcB_total_nl _ _ _ _ I2 (b_st ra) G' D' HC HZ Hd Nd) as (f3 & rd & E2).
  destruct (tcB_accepts_nl _ _ _ _ _ _ _ HC HZ Hd Nd E2 _ _ (inferT_infer _ _ _ _ I2)) as (Hed & Td' & Zd & Rd).
  destruct (convb_hr _ _ _ _ _ C2 _ _ Rd (hr_refl _ _)) as [n2 C2'].
  pose proof (hr_nl _ _ _ Rd LN (infer_nl _ _ _ _ HZn Nd (inferT_infer _ _ _ _ I2))) as NTd'.
  destruct (expectB_suff (b_st rd) D' (b_ty rd) a EAnnotation ((es ++ b_errs ra) ++ b_errs rd) _ _ _ _ HS HD ND Zd (zk_refl_hf _ _ Ha) NTd' Na C2') as [f4 X2].
  destruct (IHl Hr Nr HI3 (b_st rd) ((es ++ b_errs ra) ++ b_errs rd)) as (f5 & [[rest' s3] es3] & E3).
  set (N := Nat.max f1 (Nat.max f2 (Nat.max f3 (Nat.max f4 f5)))).
  assert (L1 : f1 <= N) by lia. assert (L2 : f2 <= N) by lia. assert (L3 : f3 <= N) by lia. assert (L4 : f4 <= N) by lia.
  assert (L5 : f5 <= N) by lia.
  exists N. eexists. cbn [tc_defs].
  rewrite (tcB_mono _ _ _ _ _ _ _ L1 E1), (expectB_mono _ _ _ _ _ _ _ _ _ L2 X1).
  rewrite (tcB_mono _ _ _ _ _ _ _ L3 E2), (expectB_mono _ _ _ _ _ _ _ _ _ L4 X2).
  rewrite (tc_defs_mono f5 N _ (fun s d => tcB N s G' D' d) D' L5 (fun s t r Hr => tcB_mono _ _ s G' D' t r L5 Hr) _ _ _ _ E3).
  reflexivity.
Qed.

Lemma shift_defs_suff s c m : forall l, ModelBHoleFree.hf_defs l = true ->
  exists f, shift_defs f s c m l = Some (map (fun p => (ushift (fst p) c m, ushift (snd p) c m)) l).
Proof.
  induction l as [|[a d] r IH]; intros Hf; [exists 0; reflexivity|].
  apply hf_defs_cons in Hf. destruct Hf as (Ha & Hd & Hr).
  destruct (ushiftB_suff s a a c m (zk_refl_hf _ _ Ha)) as [f1 U1]. destruct (ushiftB_suff s d d c m (zk_refl_hf _ _ Hd)) as [f2 U2].
  destruct (IH Hr) as [f3 E3].
  set (N := Nat.max f1 (Nat.max f2 f3)). assert (L1 : f1 <= N) by lia. assert (L2 : f2 <= N) by lia. assert (L3 : f3 <= N) by lia.
  exists N. cbn [shift_defs map fst snd].
  rewrite (ushiftB_mono _ _ _ _ _ _ _ L1 U1), (ushiftB_mono _ _ _ _ _ _ _ L2 U2), (shift_defs_mono _ _ _ _ _ L3 _ _ E3). reflexivity.
Qed.

Lemma group_typeB_suff s n ds : ModelBHoleFree.hf_defs ds = true ->
  forall k i acc accu, zk s acc accu -> exists f res, group_typeB f n ds i k acc s = Some res.
Proof.
  intros Hf. induction k as [|k IH]; intros i acc accu Hz; [exists 0; eexists; reflexivity|].
  destruct (shift_defs_suff s n (n - 1 - i) ds Hf) as [f1 E1].
  set (sh := map (fun p => (ushift (fst p) n (n - 1 - i), ushift (snd p) n (n - 1 - i))) ds) in *.
  assert (Hx : hole_free (TLet sh (TVar i)) = true).
  { rewrite hf_let. unfold sh. rewrite hf_defs_map_ushift by exact Hf. reflexivity. }
  destruct (openB_suff s acc accu (TLet sh (TVar i)) _ 0 0 Hz (zk_refl_hf _ _ Hx)) as [f2 O].
  assert (Hfo : hole_free (open accu 0 (TLet sh (TVar i)) 0) = true) by (apply hf_open; [exact (zk_hf _ _ _ Hz) | exact Hx]).
  destruct (IH (S i) _ _ (zk_refl_hf s _ Hfo)) as (f3 & res & E3).
  set (N := Nat.max f1 (Nat.max f2 f3)). assert (L1 : f1 <= N) by lia. assert (L2 : f2 <= N) by lia. assert (L3 : f3 <= N) by lia.
  exists N, res. cbn [group_typeB].
  rewrite (shift_defs_mono _ _ _ _ _ L1 _ _ E1). fold sh. rewrite (openB_mono _ _ _ _ _ _ _ _ L2 O).
  exact (group_typeB_mono _ _ _ _ L3 _ _ _ _ _ E3).
Qed.

Theorem tcB_total_spine : forall f Gz t T, inferT f Gz t = Some T ->
  forall s G D, ctx_rel G D Gz -> gz_ok Gz -> hole_free t = true -> spine t = true ->
  exists f' r, tcB f' s G D t = Some r.
Proof.
  induction f as [|f IH]; intros Gz t T HI s G D HC HZ Hf Hs; [discriminate|].
  assert (NL : no_let t = true -> exists f' r, tcB f' s G D t = Some r).
  { intros Hn. exact (tcB_total_nl _ _ _ _ HI s G D HC HZ Hf Hn). }
  destruct t; try (apply NL; exact Hs). clear NL.
  cbn [inferT] in HI. cbv zeta in HI.
  rewrite hf_let in Hf. apply andb_true_iff in Hf. destruct Hf as [Hfd Hfb].
  cbn [spine] in Hs. apply andb_true_iff in Hs. destruct Hs as [Hnd Hsb].
  set (G' := pushG (length defs) defs 0 G). set (D' := pushD (length defs) defs 0 D).
  assert (HC' : ctx_rel G' D' (enter defs Gz)) by (apply ctx_rel_push; assumption).
  assert (HZ' : gz_ok (enter defs Gz)) by (apply gz_ok_enter; assumption).
  destruct (infer_defs (inferT f (enter defs Gz)) (convb f (enter defs Gz)) defs) eqn:ID; [|discriminate].
  destruct (inferT f (enter defs Gz) t) as [B|] eqn:IB; [|discriminate].
  destruct (tc_defs_total _ _ _ _ HC' HZ' defs Hfd Hnd ID s []) as (f1 & [[ds' s1] es1] & E1).
  assert (ds' = defs).
  { eapply tc_defs_id'; [|exact E1]. intros s0 d r0 Hr. exact (tcB_elab_identity _ _ _ _ _ _ Hr). }
  subst ds'.
  destruct (IH _ _ _ IB s1 G' D' HC' HZ' Hfb Hsb) as (f2 & rb & E2).
  destruct (tcB_accepts_spine _ _ _ _ _ _ _ HC' HZ' Hfb Hsb E2 _ _ (inferT_infer _ _ _ _ IB)) as (_ & B' & Zb & _).
  destruct (group_typeB_suff (b_st rb) (length defs) defs Hfd (length defs) 0 _ _ Zb) as (f3 & [T' s3] & E3).
  set (N := Nat.max f1 (Nat.max f2 f3)). assert (L1 : f1 <= N) by lia. assert (L2 : f2 <= N) by lia. assert (L3 : f3 <= N) by lia.
  exists (S N). eexists. rewrite tcB_let_eq. cbv zeta. fold G'. fold D'.
  rewrite (tc_defs_mono f1 N _ (fun s0 d => tcB N s0 G' D' d) D' L1 (fun s0 t0 r0 Hr => tcB_mono _ _ s0 G' D' t0 r0 L1 Hr) _ _ _ _ E1).
  rewrite (tcB_mono _ _ _ _ _ _ _ L2 E2), (group_typeB_mono _ _ _ _ L3 _ _ _ _ _ E3). reflexivity.
Qed.

(* ====================================================================================== *)
(* Main statements                                                                         *)
(* ====================================================================================== *)
(* COMPLETENESS on the spine, given that the codomains of applied function types normalise: *)
Theorem tcB_complete_hole_free_spine : forall f t T,
  hole_free t = true -> spine t = true -> inferT f [] t = Some T ->
  exists f0 r, (forall f', f0 <= f' -> tcB f' [] [] [] t = Some r) /\ b_errs r = [] /\
    exists T', zk (b_st r) (b_ty r) T' /\ hrg [] T T'.
Proof.
  intros f t T Hf Hs HI.
  destruct (tcB_total_spine _ _ _ _ HI [] [] [] ctx_rel_nil gz_ok_nil Hf Hs) as (f0 & r & E).
  exists f0, r. split; [intros f' L; exact (tcB_mono _ _ _ _ _ _ _ L E)|].
  exact (tcB_no_false_rejection_spine _ _ _ Hf Hs (inferT_infer _ _ _ _ HI) _ _ E).
Qed.

(* group-free programs: the reported type is definitionally equal to the one infer computes *)
Theorem tcB_complete_hole_free_nolet : forall f t T,
  hole_free t = true -> no_let t = true -> inferT f [] t = Some T ->
  exists f0 r, (forall f', f0 <= f' -> tcB f' [] [] [] t = Some r) /\ b_errs r = [] /\
    exists T', zk (b_st r) (b_ty r) T' /\ hr [] T T' /\ conv [] T' T.
Proof.
  intros f t T Hf Hn HI.
  destruct (tcB_total_nl _ _ _ _ HI [] [] [] ctx_rel_nil gz_ok_nil Hf Hn) as (f0 & r & E).
  exists f0, r. split; [intros f' L; exact (tcB_mono _ _ _ _ _ _ _ L E)|].
  exact (tcB_no_false_rejection_nolet _ _ _ Hf Hn (inferT_infer _ _ _ _ HI) _ _ E).
Qed.

(* ====================================================================================== *)
(* Non-vacuity, and the places where the two checkers were suspected to differ               *)
(* ====================================================================================== *)
Example ex_app_inferT : inferT 10 [] ex_app = Some TInt.
Proof. vm_compute. reflexivity. Qed.
Example ex_poly_inferT : inferT 10 [] ex_poly = Some TInt.
Proof. vm_compute. reflexivity. Qed.
Example ex_id_group_inferT : inferT 12 [] ex_id_group = Some TInt.
Proof. vm_compute. reflexivity. Qed.
Example ex_fact_inferT : inferT 14 [] ex_fact = Some TInt.
Proof. vm_compute. reflexivity. Qed.
Example ex_alias_inferT : exists T, inferT 10 [] ex_alias = Some T.
Proof. eexists. vm_compute. reflexivity. Qed.

(* the completeness theorem applied: the model accepts these programs for every large enough fuel *)
Example ex_poly_complete : exists f0 r, (forall f', f0 <= f' -> tcB f' [] [] [] ex_poly = Some r) /\ b_errs r = [].
Proof.
  destruct (tcB_complete_hole_free_nolet 10 ex_poly TInt eq_refl eq_refl ex_poly_inferT) as (f0 & r & H & He & _). eauto.
Qed.
Example ex_fact_complete : exists f0 r, (forall f', f0 <= f' -> tcB f' [] [] [] ex_fact = Some r) /\ b_errs r = [].
Proof.
  destruct (tcB_complete_hole_free_spine 14 ex_fact TInt eq_refl eq_refl ex_fact_inferT) as (f0 & r & H & He & _). eauto.
Qed.

(* the type reported by tcB can be strictly more evaluated than infer's: the identity on types applied
   in the codomain of a function type.  (f : (x : int) -> ((t : type) => t) int) => f 3 *)
Definition ex_more_evaluated : term :=
  TLam false (TPi false TInt (TApp (TLam false TType (TVar 0)) TInt)) (TApp (TVar 0) (TLit 3)).
Example ex_more_evaluated_types :
  infer 12 [] ex_more_evaluated
    = Some (TPi false (TPi false TInt (TApp (TLam false TType (TVar 0)) TInt)) (TApp (TLam false TType (TVar 0)) TInt)) /\
  match tcB 40 [] [] [] ex_more_evaluated with
  | Some r => b_errs r = [] /\
      zonkB 30 (b_st r) (b_ty r) = TPi false (TPi false TInt (TApp (TLam false TType (TVar 0)) TInt)) TInt
  | None => False end.
Proof. vm_compute. repeat split; reflexivity. Qed.

(* implicit function types: both checkers refuse to apply them (no difference) *)
Definition ex_implicit : term := TLam false (TPi true TInt TInt) (TApp (TVar 0) (TLit 3)).
Example ex_implicit_both_reject :
  infer 20 [] ex_implicit = None /\
  match tcB 40 [] [] [] ex_implicit with Some r => b_errs r = [ENotFunction] | None => False end.
Proof. vm_compute. split; reflexivity. Qed.

(* branches of a conditional: infer tests (else, then), tcB unifies (then, else); convb is symmetric
   (convb_sym), so there is no difference; an ill-typed conditional is rejected by both *)
Definition ex_branches : term := TIf TTrue (TLit 1) TFalse.
Example ex_branches_both_reject :
  infer 20 [] ex_branches = None /\
  match tcB 40 [] [] [] ex_branches with Some r => b_errs r = [EBranches] | None => False end.
Proof. vm_compute. split; reflexivity. Qed.

Print Assumptions tcB_complete_hole_free_refuted.
Print Assumptions convb_hr.
Print Assumptions hr_open.
Print Assumptions tcB_accepts_nl.
Print Assumptions tcB_accepts_spine.
Print Assumptions tcB_no_false_rejection_spine.
Print Assumptions tcB_no_false_rejection_nolet.
Print Assumptions tcB_complete_if_terminates.
Print Assumptions tcB_mono.
Print Assumptions unifyB_mono.
Print Assumptions openB_suff.
Print Assumptions whnfB_suff.
Print Assumptions syn_eqB_suff.
Print Assumptions occursB_suff.
Print Assumptions unifyB_suff.
Print Assumptions unifyB_pi_fresh_suff.
Print Assumptions inferT_infer.
Print Assumptions ex_div_not_inferT.
Print Assumptions tcB_total_nl.
Print Assumptions tcB_total_spine.
Print Assumptions tcB_complete_hole_free_spine.
Print Assumptions tcB_complete_hole_free_nolet.
Print Assumptions ex_fact_complete.
