(* "Printed terms read back" (structure half): the text printed for a term parses back to a structurally
   identical term. See REPORT4.md for the statement in words; the main theorems are at the end:
     print_reads_back_same_structure   (token kinds only: structure up to the VALUES of literals)
     print_reads_back_same_structure_values   (with the literal values of the tokens) *)
From Coq Require Import List ZArith NArith Lia Bool Arith PArith FMapPositive.
Import ListNotations.
Require Import Gram.Model.Term Gram.Model.DeBruijn Gram.Model.Token Gram.Model.Grammar Gram.Gen.ValueForms Gram.Gen.ParserSkeleton
  Gram.Gen.GrammarY Gram.Model.Parser Gram.Model.ParserPost Gram.Model.Printer.
Require Import Gram.Proofs.ReassocProofs.
Require Import Gram.Proofs.ParserProofs Gram.Proofs.SoundProofs Gram.Proofs.PrintProofs.
Require Import Gram.Proofs.PegSem Gram.Proofs.CompleteProofs Gram.Proofs.Unambiguous Gram.Proofs.TreeDerivation.
Require Gram.Proofs.ContentProofs.

(* ---------- the common name-free skeleton ---------- *)
Inductive S :=
| SErr | SType | SInt | SBool | STrue | SFalse
| SLit (z : Z)
| SName                                  (* a variable or a hole: both are printed as an identifier *)
| SLam (im : bool) (dom body : S) | SLam0 (im : bool) (body : S)     (* with / without annotation *)
| SPi (im : bool) (dom cod : S)          (* dependent or not: a matter of names *)
| SApp (f a : S)
| SLet (an d b : S) | SLet0 (d b : S)    (* one entry of a definition group, the rest of the group / the body *)
| SNeg (a : S)
| SBin (o : binop) (a b : S)
| SIf (c a b : S).

Fixpoint shape (t : term) : S :=
  match t with
  | THole _ _ | TVar _ => SName
  | TType => SType | TInt => SInt | TBool => SBool | TTrue => STrue | TFalse => SFalse
  | TLit z => SLit z
  | TLam im d b => SLam im (shape d) (shape b)
  | TPi im d c => SPi im (shape d) (shape c)
  | TApp f a => SApp (shape f) (shape a)
  | TLet ds b => fold_right (fun p acc => let '(an, d) := p in SLet (shape an) (shape d) acc) (shape b) ds
  | TNeg a => SNeg (shape a)
  | TBin o a b => SBin o (shape a) (shape b)
  | TIf c a b => SIf (shape c) (shape a) (shape b)
  end.

Definition lshape (l : leaf) : S :=
  match l with
  | LError => SErr | LType => SType | LInt => SInt | LBool => SBool | LTrue => STrue | LFalse => SFalse
  | LVar _ => SName | LLit z => SLit z
  end.
Fixpoint gshape {A} (t : aterm A) : S :=
  match t with
  | ALeaf _ l => lshape l
  | ALam _ _ im d b => match d with Some d => SLam im (gshape d) (gshape b) | None => SLam0 im (gshape b) end
  | APi _ _ im d c => SPi im (gshape d) (gshape c)
  | AApp _ f a => SApp (gshape f) (gshape a)
  | ALet _ _ an d b => match an with Some a => SLet (gshape a) (gshape d) (gshape b) | None => SLet0 (gshape d) (gshape b) end
  | ANeg _ a => SNeg (gshape a)
  | ABin _ o a b => SBin o (gshape a) (gshape b)
  | AIf _ c a b => SIf (gshape c) (gshape a) (gshape b)
  end.

(* forgetting the values of the literals, and the literals in order *)
Fixpoint unlit (s : S) : S :=
  match s with
  | SLit _ => SLit 0
  | SLam im d b => SLam im (unlit d) (unlit b) | SLam0 im b => SLam0 im (unlit b)
  | SPi im d c => SPi im (unlit d) (unlit c)
  | SApp f a => SApp (unlit f) (unlit a)
  | SLet an d b => SLet (unlit an) (unlit d) (unlit b) | SLet0 d b => SLet0 (unlit d) (unlit b)
  | SNeg a => SNeg (unlit a)
  | SBin o a b => SBin o (unlit a) (unlit b)
  | SIf c a b => SIf (unlit c) (unlit a) (unlit b)
  | s => s
  end.
Fixpoint lits (s : S) : list Z :=
  match s with
  | SLit z => [z]
  | SLam _ d b => lits d ++ lits b | SLam0 _ b => lits b
  | SPi _ d c => lits d ++ lits c
  | SApp f a => lits f ++ lits a
  | SLet an d b => lits an ++ lits d ++ lits b | SLet0 d b => lits d ++ lits b
  | SNeg a => lits a
  | SBin _ a b => lits a ++ lits b
  | SIf c a b => lits c ++ lits a ++ lits b
  | _ => []
  end.

Lemma unlit_length : forall a b, unlit a = unlit b -> length (lits a) = length (lits b).
Proof.
  induction a; destruct b; cbn; intros H; try discriminate H; try reflexivity; try (injection H; intros);
    rewrite ?app_length; repeat match goal with IH : forall b, unlit ?a = unlit b -> _, E : unlit ?a = unlit ?b |- _ => rewrite (IH _ E); clear IH end; reflexivity.
Qed.
Lemma app_eq_split {A} (a b c d : list A) : length a = length c -> a ++ b = c ++ d -> a = c /\ b = d.
Proof.
  revert c. induction a as [|x a IH]; intros [|y c] L E; cbn in *; try discriminate; [auto|].
  injection E as -> E. destruct (IH c (eq_add_S _ _ L) E) as [-> ->]. auto.
Qed.
(* equal up to literal values + the same literals in order = equal *)
Lemma unlit_lits_eq : forall a b, unlit a = unlit b -> lits a = lits b -> a = b.
Proof.
  induction a; destruct b; cbn; intros H L; try discriminate H; try reflexivity; try (injection H; intros);
    repeat match goal with
           | L : _ ++ _ = _ ++ _ |- _ =>
               apply app_eq_split in L; [destruct L as [? L] | apply unlit_length; assumption]
           end;
    try (injection L as ->); f_equal; auto.
Qed.

Lemma gshape_forget A (g : aterm A) : gshape (forget g) = gshape g.
Proof.
  induction g using aterm_ind'; cbn;
    repeat match goal with H : Aopt _ ?d |- _ => destruct d; cbn in H end; congruence.
Qed.

(* ---------- when only application chains need re-association ---------- *)
Definition isleaf {A} (t : aterm A) : bool := match t with ALeaf _ _ => true | _ => false end.
(* an operand that no pass looks into: parenthesised, or a leaf *)
Definition satom (t : gterm) : bool := ann t || isleaf t.
(* every binary operator has such operands (the printer parenthesises both operands of an operator) *)
Fixpoint binok (t : gterm) : bool :=
  match t with
  | ALeaf _ _ => true
  | ALam _ _ _ d b => match d with Some d => binok d | None => true end && binok b
  | APi _ _ _ d c => binok d && binok c
  | AApp _ f a => binok f && binok a
  | ALet _ _ an d b => match an with Some a => binok a | None => true end && binok d && binok b
  | ANeg _ a => binok a
  | ABin _ _ a b => satom a && satom b && binok a && binok b
  | AIf _ c a b => binok c && binok a && binok b
  end.

(* same tree, flags only raised *)
Definition ble (i j : bool) : Prop := i = true -> j = true.
Fixpoint fle (s t : gterm) : Prop :=
  match s, t with
  | ALeaf i l, ALeaf j l' => ble i j /\ l = l'
  | ALam i x im d b, ALam j x' im' d' b' =>
      ble i j /\ x = x' /\ im = im' /\ match d, d' with Some d, Some d' => fle d d' | None, None => True | _, _ => False end /\ fle b b'
  | APi i x im d c, APi j x' im' d' c' => ble i j /\ x = x' /\ im = im' /\ fle d d' /\ fle c c'
  | AApp i f a, AApp j f' a' => ble i j /\ fle f f' /\ fle a a'
  | ALet i x an d b, ALet j x' an' d' b' =>
      ble i j /\ x = x' /\ match an, an' with Some a, Some a' => fle a a' | None, None => True | _, _ => False end /\ fle d d' /\ fle b b'
  | ANeg i a, ANeg j a' => ble i j /\ fle a a'
  | ABin i o a b, ABin j o' a' b' => ble i j /\ o = o' /\ fle a a' /\ fle b b'
  | AIf i c a b, AIf j c' a' b' => ble i j /\ fle c c' /\ fle a a' /\ fle b b'
  | _, _ => False
  end.

Lemma fle_forget : forall s t, fle s t -> forget s = forget t.
Proof.
  induction s using aterm_ind'; destruct t; cbn; try contradiction; intros HF;
    repeat match goal with H : _ /\ _ |- _ => destruct H end; subst;
    repeat match goal with H : Aopt _ ?d |- _ => destruct d; cbn in H end;
    repeat match goal with H : match ?d with Some _ => _ | None => _ end |- _ => destruct d; try contradiction end;
    f_equal; auto; f_equal; auto.
Qed.
Lemma fle_satom s t : fle s t -> satom s = true -> satom t = true.
Proof.
  unfold satom. destruct s, t; cbn; try contradiction; intros H E;
    repeat match goal with H : _ /\ _ |- _ => destruct H end;
    try (rewrite orb_true_r; reflexivity); rewrite orb_false_r in *; auto.
Qed.
Lemma fle_binok : forall s t, fle s t -> binok s = true -> binok t = true.
Proof.
  induction s using aterm_ind'; destruct t; cbn; try contradiction; intros HF E;
    repeat match goal with H : _ /\ _ |- _ => destruct H end; subst;
    repeat match goal with H : Aopt _ ?d |- _ => destruct d; cbn in H end;
    repeat match goal with H : match ?d with Some _ => _ | None => _ end |- _ => destruct d; try contradiction end;
    repeat (apply andb_true_iff in E; destruct E as [E ?]);
    repeat (apply andb_true_iff; split); eauto using fle_satom.
Qed.
Lemma fle_refl : forall s, fle s s.
Proof.
  induction s using aterm_ind'; cbn; repeat match goal with H : Aopt _ ?d |- _ => destruct d; cbn in H end;
    repeat split; auto; intros E; exact E.
Qed.

(* unfolding the specification on each kind of node *)
Lemma specg_leaf k i l : specg k (ALeaf i l) = ALeaf i l.
Proof. reflexivity. Qed.
Lemma specg_lam k i x im d b :
  specg k (ALam i x im d b) = ALam i x im (match d with Some d => Some (specg k d) | None => None end) (specg k b).
Proof. reflexivity. Qed.
Lemma specg_pi k i x im d c : specg k (APi i x im d c) = APi i x im (specg k d) (specg k c).
Proof. reflexivity. Qed.
Lemma specg_let k i x an d b :
  specg k (ALet i x an d b) = ALet i x (match an with Some a => Some (specg k a) | None => None end) (specg k d) (specg k b).
Proof. reflexivity. Qed.
Lemma specg_neg k i a : specg k (ANeg i a) = ANeg i (specg k a).
Proof. reflexivity. Qed.
Lemma specg_if k i c a b : specg k (AIf i c a b) = AIf i (specg k c) (specg k a) (specg k b).
Proof. reflexivity. Qed.
Lemma specg_app_other k i f a : k <> ChApp -> specg k (AApp i f a) = AApp i (specg k f) (specg k a).
Proof. destruct k; [intros N; now contradiction N | reflexivity | reflexivity]. Qed.
Lemma specg_bin_other k i o a b : is_op k o = false -> specg k (ABin i o a b) = ABin i o (specg k a) (specg k b).
Proof. intros E. unfold specg at 1. unfold closeg. cbn -[closeg foldl_chain]. rewrite E. reflexivity. Qed.
Lemma specg_bin_atomic k i o a b : k <> ChApp -> is_op k o = true -> atomic k b = true ->
  specg k (ABin i o a b) = ABin (if ann b then i else true) o (specg k a) (specg k b).
Proof.
  intros N E At. assert (K : kop k o = true) by (destruct k; [now contradiction N | exact E | exact E]).
  assert (A : ABin i o a b = amk k i o a b) by (destruct k; [now contradiction N | reflexivity | reflexivity]).
  rewrite A, specg_amk, itemsg_atomic by assumption. destruct k; [now contradiction N | reflexivity | reflexivity].
Qed.
Lemma specg_app_chain i f a :
  specg ChApp (AApp i f a) = foldl_chain ChApp (if ann a then i else true) (specg ChApp f) (itemsg ChApp OSum a).
Proof. exact (@specg_amk ChApp i OSum f a eq_refl). Qed.
Lemma is_op_app o : is_op ChApp o = false.
Proof. destruct o; reflexivity. Qed.

Lemma satom_atomic k b : satom b = true -> atomic k b = true.
Proof.
  unfold satom, atomic. destruct (ann b); [reflexivity|]. cbn. intros L. destruct b; try discriminate L. destruct k; reflexivity.
Qed.

(* a pass that finds no chain to rebuild only raises flags *)
Lemma id_pass k : k <> ChApp -> forall g, binok g = true -> fle g (specg k g).
Proof.
  intros N. induction g using aterm_ind'; intros B; cbn [binok] in B.
  - rewrite specg_leaf. apply fle_refl.
  - rewrite specg_lam. apply andb_true_iff in B as [B1 B2]. destruct d; cbn in H; cbn; repeat split; auto; intros E; exact E.
  - rewrite specg_pi. apply andb_true_iff in B as [B1 B2]. cbn. repeat split; auto; intros E; exact E.
  - rewrite specg_app_other by exact N. apply andb_true_iff in B as [B1 B2]. cbn. repeat split; auto; intros E; exact E.
  - rewrite specg_let. apply andb_true_iff in B as [B B3]. apply andb_true_iff in B as [B1 B2].
    destruct an; cbn in H; cbn; repeat split; auto; intros E; exact E.
  - rewrite specg_neg. cbn. split; [intros E; exact E | auto].
  - apply andb_true_iff in B as [B B4]. apply andb_true_iff in B as [B B3]. apply andb_true_iff in B as [B1 B2].
    destruct (is_op k o) eqn:E.
    + rewrite specg_bin_atomic by (auto using satom_atomic). cbn. repeat split; auto. intros Ei. destruct (ann g2); [exact Ei | reflexivity].
    + rewrite specg_bin_other by exact E. cbn. repeat split; auto; intros Ei; exact Ei.
  - rewrite specg_if. apply andb_true_iff in B as [B B3]. apply andb_true_iff in B as [B1 B2]. cbn. repeat split; auto; intros E; exact E.
Qed.

Lemma ann_foldl_cons k (i : bool) x y l : ann (foldl_chain k i x (y :: l)) = i.
Proof.
  unfold foldl_chain. cbn [fold_left].
  assert (G : forall l z, ann z = i -> ann (fold_left (fun acc ox => amk k i (fst ox) acc (snd ox)) l z) = i).
  { clear. induction l as [|w l IH]; intros z E; [exact E|]. cbn [fold_left]. apply IH. apply ann_amk. }
  apply G. apply ann_amk.
Qed.
Lemma binok_foldl i x l : binok (foldl_chain ChApp i x l) = binok x && forallb (fun ox => binok (snd ox)) l.
Proof.
  unfold foldl_chain. revert x. induction l as [|y l IH]; intros x; cbn [fold_left forallb]; [now rewrite andb_true_r|].
  rewrite IH. cbn [amk binok]. now rewrite andb_assoc.
Qed.
Lemma itemsg_nonempty k o a : itemsg k o a <> [].
Proof. unfold itemsg. destruct (atomic k a); discriminate. Qed.

(* the application pass keeps every operator's operands parenthesised or leaves *)
Lemma specg_app_ok : forall g, binok g = true ->
  binok (specg ChApp g) = true /\ (satom g = true -> satom (specg ChApp g) = true).
Proof.
  induction g using aterm_ind'; intros B; cbn [binok] in B.
  - rewrite specg_leaf. auto.
  - rewrite specg_lam. apply andb_true_iff in B as [B1 B2]. split; [|intros E; exact E].
    cbn [binok]. destruct d; cbn in H; rewrite ?(proj1 (H B1)), (proj1 (IHg B2)); reflexivity.
  - rewrite specg_pi. apply andb_true_iff in B as [B1 B2]. split; [|intros E; exact E].
    cbn [binok]. now rewrite (proj1 (IHg1 B1)), (proj1 (IHg2 B2)).
  - rewrite specg_app_chain. apply andb_true_iff in B as [B1 B2]. split.
    + rewrite binok_foldl, (proj1 (IHg1 B1)). cbn [andb]. unfold itemsg. destruct (atomic ChApp g2).
      * cbn. now rewrite (proj1 (IHg2 B2)).
      * pose proof (proj1 (IHg2 B2)) as I2. unfold specg, closeg in I2. rewrite binok_foldl in I2. exact I2.
    + unfold satom. cbn [ann isleaf]. rewrite orb_false_r. intros ->.
      destruct (itemsg ChApp OSum g2) as [|y l] eqn:E; [now apply itemsg_nonempty in E|].
      rewrite ann_foldl_cons. now destruct (ann g2).
  - rewrite specg_let. apply andb_true_iff in B as [B B3]. apply andb_true_iff in B as [B1 B2]. split; [|intros E; exact E].
    cbn [binok]. destruct an; cbn in H; rewrite ?(proj1 (H B1)), (proj1 (IHg1 B2)), (proj1 (IHg2 B3)); reflexivity.
  - rewrite specg_neg. split; [|intros E; exact E]. cbn [binok]. exact (proj1 (IHg B)).
  - apply andb_true_iff in B as [B B4]. apply andb_true_iff in B as [B B3]. apply andb_true_iff in B as [B1 B2].
    rewrite specg_bin_other by apply is_op_app. split; [|intros E; exact E].
    cbn [binok]. now rewrite (proj2 (IHg1 B3) B1), (proj2 (IHg2 B4) B2), (proj1 (IHg1 B3)), (proj1 (IHg2 B4)).
  - rewrite specg_if. apply andb_true_iff in B as [B B3]. apply andb_true_iff in B as [B1 B2]. split; [|intros E; exact E].
    cbn [binok]. now rewrite (proj1 (IHg1 B1)), (proj1 (IHg2 B2)), (proj1 (IHg3 B3)).
Qed.

(* on such trees the three passes amount to the application pass *)
Theorem spec_all_binok g : binok g = true -> spec_all g = spec ChApp g.
Proof.
  intros B. unfold spec_all.
  pose proof (proj1 (specg_app_ok g B)) as B1.
  pose proof (id_pass ChMul ltac:(discriminate) _ B1) as F2. pose proof (fle_binok _ _ F2 B1) as B2.
  pose proof (id_pass ChAdd ltac:(discriminate) _ B2) as F3.
  rewrite <- (forget_specg ChAdd), <- (fle_forget _ _ F3), <- (fle_forget _ _ F2). apply forget_specg.
Qed.

(* ---------- the specification of the application pass, node by node ---------- *)
Lemma spec_leaf k i l : spec k (ALeaf i l) = ALeaf tt l.
Proof. reflexivity. Qed.
Lemma spec_lam k i x im d b :
  spec k (ALam i x im d b) = ALam tt x im (match d with Some d => Some (spec k d) | None => None end) (spec k b).
Proof. reflexivity. Qed.
Lemma spec_pi k i x im d c : spec k (APi i x im d c) = APi tt x im (spec k d) (spec k c).
Proof. reflexivity. Qed.
Lemma spec_let k i x an d b :
  spec k (ALet i x an d b) = ALet tt x (match an with Some a => Some (spec k a) | None => None end) (spec k d) (spec k b).
Proof. reflexivity. Qed.
Lemma spec_neg k i a : spec k (ANeg i a) = ANeg tt (spec k a).
Proof. reflexivity. Qed.
Lemma spec_if k i c a b : spec k (AIf i c a b) = AIf tt (spec k c) (spec k a) (spec k b).
Proof. reflexivity. Qed.
Lemma spec_bin_app i o a b : spec ChApp (ABin i o a b) = ABin tt o (spec ChApp a) (spec ChApp b).
Proof. reflexivity. Qed.
Lemma spec_app i f a : spec ChApp (AApp i f a) = foldl_chain ChApp tt (spec ChApp f) (items ChApp OSum a).
Proof. exact (@spec_amk ChApp i OSum f a eq_refl). Qed.
Lemma spec_set_ann k j g : spec k (set_ann j g) = spec k g.
Proof. destruct g; reflexivity. Qed.
Lemma binok_set_ann j g : binok (set_ann j g) = binok g.
Proof. destruct g; reflexivity. Qed.
Lemma satom_set_ann g : satom (set_ann true g) = true.
Proof. destruct g; reflexivity. Qed.

Definition gsh {A} (g : aterm A) : S := unlit (gshape g).
Definition ush (t : term) : S := unlit (shape t).
Definition ishapes (l : list (binop * sterm)) : list S := map (fun ox => gsh (snd ox)) l.

Lemma gsh_foldl x l : gsh (foldl_chain ChApp tt x l) = fold_left SApp (ishapes l) (gsh x).
Proof. unfold foldl_chain, ishapes. revert x. induction l as [|y l IH]; intros x; [reflexivity|]. cbn [fold_left map]. now rewrite IH. Qed.

(* ---------- derivation trees of printed terms ---------- *)
Definition unit (n : nt) (d : dtree) : dtree := DNode n [GN (root d)] (FSub d FNil).
Fixpoint upn (l : list nt) (d : dtree) : dtree := match l with [] => d | n :: r => upn r (unit n d) end.
(* the level of a nonterminal in the chain Atom < SmallTerm < ... < Term: the chain nonterminal itself, or a
   nonterminal that is an alternative of the next chain nonterminal *)
Definition lvl (n : nt) : nat :=
  match n with
  | Atom | Application => 0 | SmallTerm | Product | Quotient => 1 | MediumTerm | Negation => 2
  | LargeTerm | Sum | Difference => 3
  | HugeTerm | LessThan | LessThanOrEqualTo | EqualTo | GreaterThan | GreaterThanOrEqualTo => 4
  | GiantTerm | Lambda | LambdaImplicit | AnnotatedLambda | AnnotatedLambdaImplicit | Pi | PiImplicit | NonDependentPi | If => 5
  | JumboTerm | Let => 6
  | _ => 7
  end.
Definition liftable (n : nt) : bool :=
  match n with Type_ | Variable_ | Integer | IntegerLiteral | Boolean | True_ | False_ | Group => false | _ => true end.
Definition chain_nts : list nt := [SmallTerm; MediumTerm; LargeTerm; HugeTerm; GiantTerm; JumboTerm; Term].
Definition lift_to (tg : nat) (d : dtree) : dtree :=
  upn (firstn (tg - lvl (root d)) (skipn (lvl (root d)) chain_nts)) d.
Definition lifted_root (tg : nat) (n : nt) : nt := if tg <=? lvl n then n else nth (tg - 1) chain_nts Term.

Section TodGeneral.
Variable m : PositiveMap.t ptok.
Lemma tod_node n rhs f p : tod m (DNode n rhs f) p = (abuild m n (fst (tof m f p)), snd (tof m f p)).
Proof. change (tod m (DNode n rhs f) p) with (let '(cs, q) := tof m f p in (abuild m n cs, q)). destruct (tof m f p). reflexivity. Qed.
Lemma tof_tok k f p : tof m (FTok k f) p = (inl p :: fst (tof m f (N.succ p)), snd (tof m f (N.succ p))).
Proof. change (tof m (FTok k f) p) with (let '(cs, q) := tof m f (N.succ p) in (inl p :: cs, q)). destruct (tof m f (N.succ p)). reflexivity. Qed.
Lemma tof_sub d f p : tof m (FSub d f) p =
  (inr (fst (tod m d p)) :: fst (tof m f (snd (tod m d p))), snd (tof m f (snd (tod m d p)))).
Proof.
  change (tof m (FSub d f) p) with (let '(t, q) := tod m d p in let '(cs, r) := tof m f q in (inr t :: cs, r)).
  destruct (tod m d p) as [t q]. cbn [fst snd]. destruct (tof m f q). reflexivity.
Qed.
Lemma tof_nil p : tof m FNil p = ([], p).
Proof. reflexivity. Qed.
Lemma tod_unit n d p : match n with Term | Atom | SmallTerm | MediumTerm | LargeTerm | HugeTerm | GiantTerm | JumboTerm => true | _ => false end = true -> tod m (unit n d) p = tod m d p.
Proof.
  intros H. unfold unit. rewrite tod_node, tof_sub, tof_nil. cbn [fst snd].
  destruct (tod m d p) as [g q]. cbn [fst snd]. f_equal.
  destruct n; try discriminate H; reflexivity.
Qed.
End TodGeneral.

Ltac tod_simpl := repeat (rewrite tod_node || rewrite tof_tok || rewrite tof_sub || rewrite tof_nil); cbn [fst snd abuild].
Ltac in_gram := apply prod_in_grammar; reflexivity.

Lemma dt_unit n d : prod_in n [GN (root d)] = true -> dt_ok d -> dt_ok (unit n d).
Proof. intros P H. constructor; [now apply prod_in_grammar|]. constructor; [exact H | constructor]. Qed.

Lemma last_indep {A} l : forall (x a b : A), last (x :: l) a = last (x :: l) b.
Proof. induction l as [|y l IH]; intros x a b; [reflexivity|]. cbn [last] in *. apply IH. Qed.
Lemma root_upn l : forall d, root (upn l d) = last l (root d).
Proof.
  induction l as [|x l IH]; intros d; [reflexivity|]. cbn [upn]. rewrite IH. destruct l; [reflexivity|].
  change (last (x :: n :: l) (root d)) with (last (n :: l) (root d)). apply last_indep.
Qed.

Definition chain_ntb (x : nt) : bool :=
  match x with Term | Atom | SmallTerm | MediumTerm | LargeTerm | HugeTerm | GiantTerm | JumboTerm => true | _ => false end.
Definition is_chain_nt (x : nt) : Prop := chain_ntb x = true.
(* every element of l is a unit production over what is below it *)
Definition units_ok (l : list nt) (d0 : dtree) : Prop :=
  Forall is_chain_nt l /\ forall pre x post, l = pre ++ x :: post -> prod_in x [GN (last pre (root d0))] = true.

Lemma upn_ok : forall l d0, dt_ok d0 -> units_ok l d0 ->
  dt_ok (upn l d0) /\ dyield (upn l d0) = dyield d0 /\ forall m p, tod m (upn l d0) p = tod m d0 p.
Proof.
  induction l as [|x l IH]; intros d0 H0 [F P]; [auto|]. cbn [upn].
  inversion F as [|? ? Fx Fl]; subst.
  destruct (IH (unit x d0)) as (A & B & C).
  - apply dt_unit; [exact (P [] x l eq_refl) | exact H0].
  - split; [exact Fl|]. intros pre y post E. specialize (P (x :: pre) y post (f_equal (cons x) E)).
    destruct pre as [|n pre]; [exact P|]. change (last (x :: n :: pre) (root d0)) with (last (n :: pre) (root d0)) in P.
    rewrite (last_indep pre n (root (unit x d0)) (root d0)). exact P.
  - split; [exact A|]. split; [rewrite B; cbn; now rewrite app_nil_r|]. intros m p. rewrite C. now apply tod_unit.
Qed.
Lemma units_ok_firstn k l d0 : units_ok l d0 -> units_ok (firstn k l) d0.
Proof.
  intros [F P]. split.
  - clear P. revert k. induction F as [|x l Hx F IH]; intros [|k]; cbn; constructor; auto.
  - intros pre x post E. apply (P pre x (post ++ skipn k l)). rewrite <- (firstn_skipn k l) at 1. rewrite E, <- app_assoc. reflexivity.
Qed.
Lemma units_ok_chain n rhs f : liftable n = true -> units_ok (skipn (lvl n) chain_nts) (DNode n rhs f).
Proof.
  intros L. destruct n; try discriminate L; cbn [lvl skipn chain_nts root]; (split;
    [ repeat constructor
    | intros pre x post E;
      repeat (destruct pre as [|? pre]; cbn in E; [injection E as <- <-; reflexivity | (injection E as <- E) || discriminate E]);
      destruct pre; discriminate E ]).
Qed.

Lemma lift_ok tg d : dt_ok d -> liftable (root d) = true -> tg <= 7 ->
  dt_ok (lift_to tg d) /\ root (lift_to tg d) = lifted_root tg (root d) /\ dyield (lift_to tg d) = dyield d /\
  forall m p, tod m (lift_to tg d) p = tod m d p.
Proof.
  intros H L T. unfold lift_to. destruct d as [n rhs f]. cbn [root] in *.
  destruct (upn_ok _ _ H (units_ok_firstn (tg - lvl n) _ _ (units_ok_chain n rhs f L))) as (A & B & C).
  split; [exact A|]. split; [|split; [exact B | exact C]].
  rewrite root_upn. cbn [root]. unfold lifted_root. clear -L T.
  destruct n; try discriminate L; do 8 (try destruct tg as [|tg]); try lia; reflexivity.
Qed.

(* ---------- the derivation tree of print t (the tree version of PrintProofs.print_positions) ---------- *)
Definition leaf_atom (n : nt) (k : tkind) : dtree := DNode Atom [GN n] (FSub (DNode n [GT k] (FTok k FNil)) FNil).
Definition atomize (u : term) (nat : dtree) : dtree := if bare u then nat else group_atom (lift_to 7 nat).
Definition apnode (a s : dtree) : dtree := DNode Application [GN Atom; GN SmallTerm] (FSub a (FSub s FNil)).
Definition binder_node (n : nt) (op cl ar : tkind) (j b : dtree) : dtree :=
  DNode n [GT op; GT KIdentifier; GT KColon; GN JumboTerm; GT cl; GT ar; GN Term]
    (FTok op (FTok KIdentifier (FTok KColon (FSub j (FTok cl (FTok ar (FSub b FNil))))))).
Definition ndp_node (d c : dtree) : dtree :=
  DNode NonDependentPi [GN SmallTerm; GT KThinArrow; GN Term] (FSub d (FTok KThinArrow (FSub c FNil))).
Definition let_node (an d b : dtree) : dtree :=
  DNode Let rhs_let_ann (FTok KIdentifier (FTok KColon (FSub an (FTok KEquals (FSub d (FTok KSemicolon (FSub b FNil))))))).
Definition neg_node (a : dtree) : dtree := DNode Negation [GT KMinus; GN LargeTerm] (FTok KMinus (FSub a FNil)).
Definition if_node (c a b : dtree) : dtree :=
  DNode If rhs_if (FTok KIf (FSub c (FTok KThen (FSub a (FTok KElse (FSub b FNil)))))).
Definition bin_nt (o : binop) : nt :=
  match o with
  | OSum => Sum | ODiff => Difference | OProd => Product | OQuot => Quotient | OLt => LessThan | OLe => LessThanOrEqualTo
  | OEq => EqualTo | OGt => GreaterThan | OGe => GreaterThanOrEqualTo
  end.
Definition bin_left (o : binop) : nt :=
  match o with OSum | ODiff => LargeTerm | OProd | OQuot => SmallTerm | _ => HugeTerm end.
Definition bin_right (o : binop) : nt :=
  match o with OSum | ODiff => HugeTerm | OProd | OQuot => LargeTerm | _ => HugeTerm end.
Definition bin_node (o : binop) (a b : dtree) : dtree :=
  DNode (bin_nt o) [GN (bin_left o); GT (binop_kind o); GN (bin_right o)] (FSub a (FTok (binop_kind o) (FSub b FNil))).

Fixpoint D (t : term) (acc : option dtree) : dtree :=
  let A u := atomize u (D u None) in
  let T u := lift_to 7 (D u None) in
  let J u := lift_to 6 (match u with TLet _ _ => group_atom (T u) | _ => D u None end) in
  let fin nat := match acc with None => nat | Some s => apnode (atomize t nat) s end in
  match t with
  | TApp f a => D f (Some (unit SmallTerm (match acc with None => A a | Some s => apnode (A a) s end)))
  | THole _ _ | TVar _ => fin (leaf_atom Variable_ KIdentifier)
  | TType => fin (leaf_atom Type_ KType)
  | TInt => fin (leaf_atom Integer KInteger)
  | TBool => fin (leaf_atom Boolean KBoolean)
  | TTrue => fin (leaf_atom True_ KTrue)
  | TFalse => fin (leaf_atom False_ KFalse)
  | TLit _ => fin (leaf_atom IntegerLiteral KIntegerLiteral)
  | TLam im d b =>
      fin (binder_node (if im then AnnotatedLambdaImplicit else AnnotatedLambda)
             (if im then KLeftCurly else KLeftParen) (if im then KRightCurly else KRightParen) KThickArrow (J d) (T b))
  | TPi im d c =>
      fin (if occurs c 0 0
           then binder_node (if im then PiImplicit else Pi)
                  (if im then KLeftCurly else KLeftParen) (if im then KRightCurly else KRightParen) KThinArrow (J d) (T c)
           else ndp_node (lift_to 1 (match d with TApp _ _ => D d None | _ => A d end)) (T c))
  | TLet ds b =>
      fin (fold_right (fun p rest => let '(an, d) := p in let_node (lift_to 1 (A an)) (lift_to 7 (A d)) (lift_to 7 rest)) (D b None) ds)
  | TNeg a => fin (neg_node (lift_to 3 (A a)))
  | TBin o a b => fin (bin_node o (lift_to (lvl (bin_left o)) (A a)) (lift_to (lvl (bin_right o)) (A b)))
  | TIf c a b => fin (if_node (T c) (T a) (T b))
  end.

Definition dprint (t : term) : dtree := lift_to 7 (D t None).

(* what the induction carries for the natural tree of a term ... *)
Record nat_ok (t : term) (d : dtree) : Prop := {
  no_ok : dt_ok d;
  no_lift : liftable (root d) = true;
  no_lvl : lvl (root d) <= 6;
  no_jumbo : is_let t = false -> lvl (root d) <= 5;
  no_bare : bare t = true -> root d = Atom;
  no_app : is_app t = true -> root d = Application;
  no_yield : dyield d = print t;
  (* ... and for the raw tree it stands for, at any position of any token list *)
  no_binok : forall m p, binok (fst (tod m d p)) = true;
  no_shape : forall m p, gsh (spec ChApp (fst (tod m d p))) = ush t;
  no_satom : bare t = true -> forall m p, satom (fst (tod m d p)) = true
}.
(* an operand *)
Record atom_ok (t : term) (d : dtree) : Prop := {
  ao_ok : dt_ok d;
  ao_root : root d = Atom;
  ao_yield : dyield d = group t;
  ao_binok : forall m p, binok (fst (tod m d p)) = true;
  ao_shape : forall m p, gsh (spec ChApp (fst (tod m d p))) = ush t;
  ao_satom : forall m p, satom (fst (tod m d p)) = true
}.
(* the function part of an application with the operands s that follow *)
Definition spine_ok (t : term) : Prop :=
  forall s, dt_ok s -> root s = SmallTerm ->
    dt_ok (D t (Some s)) /\ root (D t (Some s)) = Application /\ dyield (D t (Some s)) = head t ++ dyield s /\
    forall m, (forall p', binok (fst (tod m s p')) = true) -> forall p,
      binok (fst (tod m (D t (Some s)) p)) = true /\
      exists p1, gsh (spec ChApp (fst (tod m (D t (Some s)) p))) =
                 fold_left SApp (ishapes (items ChApp OSum (fst (tod m s p1)))) (ush t).

Lemma lifted_root_term n : lvl n <= 6 -> lifted_root 7 n = Term.
Proof. unfold lifted_root. intros H. destruct (Nat.leb_spec 7 (lvl n)); [lia | reflexivity]. Qed.
Lemma lifted_root_jumbo n : lvl n <= 5 -> lifted_root 6 n = JumboTerm.
Proof. unfold lifted_root. intros H. destruct (Nat.leb_spec 6 (lvl n)); [lia | reflexivity]. Qed.

(* Term-level *)
Lemma term_of_nat t d : nat_ok t d ->
  dt_ok (lift_to 7 d) /\ root (lift_to 7 d) = Term /\ dyield (lift_to 7 d) = print t /\ forall m p, tod m (lift_to 7 d) p = tod m d p.
Proof.
  intros N. destruct (lift_ok 7 d (no_ok _ _ N) (no_lift _ _ N) (le_n _)) as (A & B & C & E).
  rewrite (lifted_root_term _ (no_lvl _ _ N)) in B. rewrite (no_yield _ _ N) in C. auto.
Qed.

Lemma tod_group_atom m c p : fst (tod m (group_atom c) p) = set_ann true (fst (tod m c (N.succ p))).
Proof. unfold group_atom, rhs_group. tod_simpl. reflexivity. Qed.
Lemma dt_group_atom c : dt_ok c -> root c = Term -> dt_ok (group_atom c) /\ root (group_atom c) = Atom /\ dyield (group_atom c) = paren (dyield c).
Proof.
  intros H R. split; [|split; [reflexivity | cbn; now rewrite app_nil_r]].
  unfold group_atom. constructor; [in_gram|]. apply df_sub'; [|reflexivity | constructor].
  constructor; [in_gram|]. unfold rhs_group. df_tac.
Qed.

Lemma atom_of_nat t d : nat_ok t d -> atom_ok t (atomize t d).
Proof.
  intros N. assert (G : group t = if bare t then print t else paren (print t)) by reflexivity.
  unfold atomize. destruct (bare t) eqn:B.
  - constructor; [exact (no_ok _ _ N) | exact (no_bare _ _ N B) | rewrite G; exact (no_yield _ _ N) | exact (no_binok _ _ N) | exact (no_shape _ _ N)
                 | exact (no_satom _ _ N B)].
  - destruct (term_of_nat _ _ N) as (A & R & Y & E). destruct (dt_group_atom _ A R) as (A' & R' & Y').
    constructor; [exact A' | exact R' | now rewrite G, Y', Y | | |]; intros m p; rewrite tod_group_atom, E.
    + rewrite binok_set_ann. apply (no_binok _ _ N).
    + rewrite spec_set_ann. apply (no_shape _ _ N).
    + apply satom_set_ann.
Qed.

Lemma lift_atom k t d : atom_ok t d -> k <= 7 ->
  dt_ok (lift_to k d) /\ root (lift_to k d) = lifted_root k Atom /\ dyield (lift_to k d) = group t /\ forall m p, tod m (lift_to k d) p = tod m d p.
Proof.
  intros A K. destruct (lift_ok k d (ao_ok _ _ A)) as (H1 & H2 & H3 & H4); [now rewrite (ao_root _ _ A) | exact K|].
  rewrite (ao_root _ _ A) in H2. rewrite (ao_yield _ _ A) in H3. auto.
Qed.

(* a term that is not an application, as a function part *)
Lemma spine_of_atom t a : is_app t = false -> atom_ok t a -> (forall s, D t (Some s) = apnode a s) -> spine_ok t.
Proof.
  intros NA A E s Hs Rs. rewrite E.
  assert (Hd : head t = group t) by (destruct t; try reflexivity; discriminate NA).
  split; [|split; [reflexivity | split]].
  - unfold apnode. constructor; [in_gram|]. apply df_sub'; [exact (ao_ok _ _ A) | exact (ao_root _ _ A)|].
    apply df_sub'; [exact Hs | exact Rs | constructor].
  - cbn [apnode dyield fyield]. now rewrite app_nil_r, (ao_yield _ _ A), Hd.
  - intros m Bs p. unfold apnode. tod_simpl. cbn [binok]. split; [now rewrite (ao_binok _ _ A), Bs|].
    exists (snd (tod m a p)). rewrite spec_app, gsh_foldl, (ao_shape _ _ A). reflexivity.
Qed.


(* the natural trees, named *)
Definition Tt (u : term) : dtree := lift_to 7 (D u None).
Definition At (u : term) : dtree := atomize u (D u None).
Definition Jt (u : term) : dtree := lift_to 6 (match u with TLet _ _ => group_atom (lift_to 7 (D u None)) | _ => D u None end).
Definition Ht (u : term) : dtree := lift_to 1 (match u with TApp _ _ => D u None | _ => atomize u (D u None) end).
Definition nat_lam (im : bool) (d b : term) : dtree :=
  binder_node (if im then AnnotatedLambdaImplicit else AnnotatedLambda)
    (if im then KLeftCurly else KLeftParen) (if im then KRightCurly else KRightParen) KThickArrow (Jt d) (Tt b).
Definition nat_pi (im : bool) (d c : term) : dtree :=
  if occurs c 0 0
  then binder_node (if im then PiImplicit else Pi)
         (if im then KLeftCurly else KLeftParen) (if im then KRightCurly else KRightParen) KThinArrow (Jt d) (Tt c)
  else ndp_node (Ht d) (Tt c).
Definition nat_let (ds : list (term * term)) (b : term) : dtree :=
  fold_right (fun p rest => let_node (lift_to 1 (At (fst p))) (lift_to 7 (At (snd p))) (lift_to 7 rest)) (D b None) ds.
Definition nat_neg (a : term) : dtree := neg_node (lift_to 3 (At a)).
Definition nat_bin (o : binop) (a b : term) : dtree := bin_node o (lift_to (lvl (bin_left o)) (At a)) (lift_to (lvl (bin_right o)) (At b)).
Definition nat_if (c a b : term) : dtree := if_node (Tt c) (Tt a) (Tt b).
Lemma D_app_none f a : D (TApp f a) None = D f (Some (unit SmallTerm (At a))).
Proof. reflexivity. Qed.
Lemma D_app_some f a s : D (TApp f a) (Some s) = D f (Some (unit SmallTerm (apnode (At a) s))).
Proof. reflexivity. Qed.
Lemma nat_let_eq ds b :
  fold_right (fun p rest => let '(an, d) := p in let_node (lift_to 1 (atomize an (D an None))) (lift_to 7 (atomize d (D d None))) (lift_to 7 rest)) (D b None) ds
  = nat_let ds b.
Proof. unfold nat_let. induction ds as [|[an d] ds IH]; [reflexivity|]. cbn [fold_right fst snd]. now rewrite IH. Qed.
Lemma D_let ds b acc : D (TLet ds b) acc = match acc with None => nat_let ds b | Some s => apnode (atomize (TLet ds b) (nat_let ds b)) s end.
Proof. rewrite <- nat_let_eq. destruct acc; reflexivity. Qed.

(* a sub-tree in one of the positions of a production *)
Record sub_ok (u : term) (x : dtree) (r : nt) (y : list tkind) : Prop := {
  so_ok : dt_ok x;
  so_root : root x = r;
  so_yield : dyield x = y;
  so_binok : forall m p, binok (fst (tod m x p)) = true;
  so_shape : forall m p, gsh (spec ChApp (fst (tod m x p))) = ush u
}.

Lemma sub_term u d : nat_ok u d -> sub_ok u (lift_to 7 d) Term (print u).
Proof.
  intros N. destruct (term_of_nat _ _ N) as (A & R & Y & E).
  constructor; auto; intros m p; rewrite E; [apply (no_binok _ _ N) | apply (no_shape _ _ N)].
Qed.
Lemma sub_atom_lift k u a : atom_ok u a -> k <= 7 ->
  sub_ok u (lift_to k a) (lifted_root k Atom) (group u) /\ forall m p, satom (fst (tod m (lift_to k a) p)) = true.
Proof.
  intros A K. destruct (lift_atom k _ _ A K) as (H1 & H2 & H3 & H4). split.
  - constructor; auto; intros m p; rewrite H4; [apply (ao_binok _ _ A) | apply (ao_shape _ _ A)].
  - intros m p. rewrite H4. apply (ao_satom _ _ A).
Qed.
Lemma sub_jumbo u d : nat_ok u d ->
  sub_ok u (lift_to 6 (match u with TLet _ _ => group_atom (lift_to 7 d) | _ => d end)) JumboTerm (binder_domain u).
Proof.
  intros N. destruct (is_let u) eqn:L.
  - destruct u; try discriminate L. cbn [binder_domain].
    assert (B : bare (TLet defs u) = false) by reflexivity.
    pose proof (atom_of_nat _ _ N) as A. unfold atomize in A. rewrite B in A.
    destruct (sub_atom_lift 6 _ _ A ltac:(lia)) as [X _]. destruct X as [X1 X2 X3 X4 X5].
    constructor; auto.
  - assert (E : match u with TLet _ _ => group_atom (lift_to 7 d) | _ => d end = d) by (destruct u; try reflexivity; discriminate L).
    assert (Eb : binder_domain u = print u) by (destruct u; try reflexivity; discriminate L).
    rewrite E, Eb. destruct (lift_ok 6 d (no_ok _ _ N) (no_lift _ _ N) ltac:(lia)) as (H1 & H2 & H3 & H4).
    rewrite (lifted_root_jumbo _ (no_jumbo _ _ N L)) in H2. rewrite (no_yield _ _ N) in H3.
    constructor; auto; intros m p; rewrite H4; [apply (no_binok _ _ N) | apply (no_shape _ _ N)].
Qed.
(* the domain of a non-dependent arrow *)
Lemma sub_head u d : nat_ok u d ->
  sub_ok u (lift_to 1 (match u with TApp _ _ => d | _ => atomize u d end)) SmallTerm (head u).
Proof.
  intros N. destruct (is_app u) eqn:L.
  - destruct u; try discriminate L. cbn [head].
    destruct (lift_ok 1 d (no_ok _ _ N) (no_lift _ _ N) ltac:(lia)) as (H1 & H2 & H3 & H4).
    rewrite (no_app _ _ N L) in H2. rewrite (no_yield _ _ N) in H3.
    constructor; auto; intros m p; rewrite H4; [apply (no_binok _ _ N) | apply (no_shape _ _ N)].
  - assert (E : match u with TApp _ _ => d | _ => atomize u d end = atomize u d) by (destruct u; try reflexivity; discriminate L).
    assert (Eh : head u = group u) by (destruct u; try reflexivity; discriminate L).
    rewrite E, Eh. exact (proj1 (sub_atom_lift 1 _ _ (atom_of_nat _ _ N) ltac:(lia))).
Qed.

Lemma gsh_leaf A (i : A) l : gsh (ALeaf i l) = unlit (lshape l). Proof. reflexivity. Qed.
Lemma gsh_lam A (i : A) x im d b : gsh (ALam i x im (Some d) b) = SLam im (gsh d) (gsh b). Proof. reflexivity. Qed.
Lemma gsh_pi A (i : A) x im d c : gsh (APi i x im d c) = SPi im (gsh d) (gsh c). Proof. reflexivity. Qed.
Lemma gsh_let A (i : A) x a d b : gsh (ALet i x (Some a) d b) = SLet (gsh a) (gsh d) (gsh b). Proof. reflexivity. Qed.
Lemma gsh_neg A (i : A) a : gsh (ANeg i a) = SNeg (gsh a). Proof. reflexivity. Qed.
Lemma gsh_bin A (i : A) o a b : gsh (ABin i o a b) = SBin o (gsh a) (gsh b). Proof. reflexivity. Qed.
Lemma gsh_if A (i : A) c a b : gsh (AIf i c a b) = SIf (gsh c) (gsh a) (gsh b). Proof. reflexivity. Qed.

(* a term that is not an application: from its natural tree *)
Lemma nonapp_ok t nat : is_app t = false -> nat_ok t nat ->
  (forall acc, D t acc = match acc with None => nat | Some s => apnode (atomize t nat) s end) ->
  nat_ok t (D t None) /\ spine_ok t.
Proof.
  intros NA N E. split; [now rewrite (E None)|].
  apply (spine_of_atom t (atomize t nat) NA (atom_of_nat _ _ N)). intros s. exact (E (Some s)).
Qed.

Lemma nat_leaf t n k l : is_app t = false -> is_let t = false -> bare t = true -> prod_in Atom [GN n] = true -> prod_in n [GT k] = true ->
  print t = [k] -> (forall m p, abuild m n [inl p] = ALeaf false (l m p)) -> (forall m p, unlit (lshape (l m p)) = ush t) ->
  nat_ok t (leaf_atom n k).
Proof.
  intros NA NL B P1 P2 Y AB SH. unfold leaf_atom.
  assert (TD : forall m p, fst (tod m (DNode Atom [GN n] (FSub (DNode n [GT k] (FTok k FNil)) FNil)) p) = ALeaf false (l m p)).
  { intros m p. tod_simpl. rewrite AB. reflexivity. }
  constructor; try reflexivity; try (cbn; lia); try (intros; cbn; lia).
  - constructor; [now apply prod_in_grammar|]. apply df_sub'; [|reflexivity | constructor].
    constructor; [now apply prod_in_grammar|]. repeat constructor.
  - rewrite NA. discriminate.
  - now rewrite Y.
  - intros m p. now rewrite TD.
  - intros m p. rewrite TD, spec_leaf, gsh_leaf. apply SH.
  - intros _ m p. now rewrite TD.
Qed.

Lemma bin_abuild m o a b p : abuild m (bin_nt o) [inr a; inl p; inr b] = ABin false o a b.
Proof. destruct o; reflexivity. Qed.

Lemma nat_node t d : bare t = false -> is_app t = false -> dt_ok d -> liftable (root d) = true -> lvl (root d) <= 6 ->
  (is_let t = false -> lvl (root d) <= 5) -> dyield d = print t ->
  (forall m p, binok (fst (tod m d p)) = true) -> (forall m p, gsh (spec ChApp (fst (tod m d p))) = ush t) -> nat_ok t d.
Proof. intros B NA H1 H2 H3 H4 H5 H6 H7. constructor; auto; intros E; congruence. Qed.

Theorem D_ok : forall t, printable t = true -> nat_ok t (D t None) /\ spine_ok t.
Proof.
  induction t as [i s| | | | | |z|i|im d b IHd IHb|im d c IHd IHc|f a IHf IHa|ds b IHds IHb|a IHa|o a b IHa IHb|c a b IHc IHa IHb]
    using term_ind'; intros OK.
  - apply (nonapp_ok _ (leaf_atom Variable_ KIdentifier)); [reflexivity | | intros [s0|]; reflexivity].
    apply (nat_leaf _ _ _ (fun m p => LVar (tok_name m p))); reflexivity.
  - apply (nonapp_ok _ (leaf_atom Type_ KType)); [reflexivity | | intros [s0|]; reflexivity].
    apply (nat_leaf _ _ _ (fun m p => LType)); reflexivity.
  - apply (nonapp_ok _ (leaf_atom Integer KInteger)); [reflexivity | | intros [s0|]; reflexivity].
    apply (nat_leaf _ _ _ (fun m p => LInt)); reflexivity.
  - apply (nonapp_ok _ (leaf_atom Boolean KBoolean)); [reflexivity | | intros [s0|]; reflexivity].
    apply (nat_leaf _ _ _ (fun m p => LBool)); reflexivity.
  - apply (nonapp_ok _ (leaf_atom True_ KTrue)); [reflexivity | | intros [s0|]; reflexivity].
    apply (nat_leaf _ _ _ (fun m p => LTrue)); reflexivity.
  - apply (nonapp_ok _ (leaf_atom False_ KFalse)); [reflexivity | | intros [s0|]; reflexivity].
    apply (nat_leaf _ _ _ (fun m p => LFalse)); reflexivity.
  - apply (nonapp_ok _ (leaf_atom IntegerLiteral KIntegerLiteral)); [reflexivity | | intros [s0|]; reflexivity].
    apply (nat_leaf _ _ _ (fun m p => LLit (tok_z m p))); try reflexivity. cbn [print]. exact (printable_lit _ OK).
  - apply (nonapp_ok _ (leaf_atom Variable_ KIdentifier)); [reflexivity | | intros [s0|]; reflexivity].
    apply (nat_leaf _ _ _ (fun m p => LVar (tok_name m p))); reflexivity.
  - (* TLam *)
    apply printable_lam in OK as [Od Ob]. destruct (IHd Od) as [Nd _]. destruct (IHb Ob) as [Nb _].
    destruct (sub_jumbo _ _ Nd) as [J1 J2 J3 J4 J5]. destruct (sub_term _ _ Nb) as [B1 B2 B3 B4 B5].
    apply (nonapp_ok _ (nat_lam im d b)); [reflexivity | | intros [s0|]; reflexivity]. unfold nat_lam, Jt, Tt.
    apply nat_node.
    + reflexivity.
    + reflexivity.
    + constructor; [destruct im; in_gram | destruct im; df_tac].
    + destruct im; reflexivity.
    + destruct im; cbn; lia.
    + intros _. destruct im; cbn; lia.
    + rewrite print_lam. cbn [binder_node dyield fyield]. rewrite J3, B3, app_nil_r. destruct im; reflexivity.
    + intros m p. destruct im; unfold binder_node; tod_simpl; cbn [binok]; now rewrite J4, B4.
    + intros m p. destruct im; unfold binder_node; tod_simpl; rewrite spec_lam, gsh_lam, J5, B5; reflexivity.
  - (* TPi *)
    apply printable_pi in OK as (Ou & Od & Oc). destruct (IHd Od) as [Nd _]. destruct (IHc Oc) as [Nc _].
    destruct (sub_jumbo _ _ Nd) as [J1 J2 J3 J4 J5]. destruct (sub_term _ _ Nc) as [B1 B2 B3 B4 B5].
    destruct (sub_head _ _ Nd) as [H1 H2 H3 H4 H5].
    apply (nonapp_ok _ (nat_pi im d c)); [reflexivity | | intros [s0|]; reflexivity]. unfold nat_pi, Jt, Tt, Ht.
    destruct (occurs c 0 0) eqn:Occ.
    + apply nat_node.
      * reflexivity.
      * reflexivity.
      * constructor; [destruct im; in_gram | destruct im; df_tac].
      * destruct im; reflexivity.
      * destruct im; cbn; lia.
      * intros _. destruct im; cbn; lia.
      * rewrite print_pi, Occ. cbn [binder_node dyield fyield]. rewrite J3, B3, app_nil_r. destruct im; reflexivity.
      * intros m p. destruct im; unfold binder_node; tod_simpl; cbn [binok]; now rewrite J4, B4.
      * intros m p. destruct im; unfold binder_node; tod_simpl; rewrite spec_pi, gsh_pi, J5, B5; reflexivity.
    + destruct im; [discriminate Ou|].
      apply nat_node.
      * reflexivity.
      * reflexivity.
      * constructor; [in_gram | df_tac].
      * reflexivity.
      * cbn; lia.
      * intros _. cbn; lia.
      * rewrite print_pi, Occ. cbn [ndp_node dyield fyield]. now rewrite H3, B3, app_nil_r.
      * intros m p. unfold ndp_node. tod_simpl. cbn [binok]. now rewrite H4, B4.
      * intros m p. unfold ndp_node. tod_simpl. rewrite spec_pi, gsh_pi, H5, B5. reflexivity.
  - (* TApp *)
    apply printable_app in OK as [Of Oa]. destruct (IHf Of) as [_ Sf]. destruct (IHa Oa) as [Na _].
    pose proof (atom_of_nat _ _ Na) as Aa. destruct Aa as [A1 A2 A3 A4 A5 A6].
    assert (U : forall x, dt_ok x -> (root x = Atom \/ root x = Application) ->
                dt_ok (unit SmallTerm x) /\ root (unit SmallTerm x) = SmallTerm /\ dyield (unit SmallTerm x) = dyield x /\
                forall m p, tod m (unit SmallTerm x) p = tod m x p).
    { intros x Hx Rx. split; [apply dt_unit; [destruct Rx as [-> | ->]; reflexivity | exact Hx]|].
      split; [reflexivity|]. split; [cbn; now rewrite app_nil_r|]. intros m p. now apply tod_unit. }
    split.
    + rewrite D_app_none. unfold At. destruct (U _ A1 (or_introl A2)) as (U1 & U2 & U3 & U4).
      destruct (Sf _ U1 U2) as (S1 & S2 & S3 & S4).
      constructor.
      * exact S1.
      * rewrite S2. reflexivity.
      * rewrite S2. cbn. lia.
      * intros _. rewrite S2. cbn. lia.
      * discriminate.
      * intros _. exact S2.
      * rewrite S3, U3, A3. reflexivity.
      * intros m p. apply S4. intros p'. rewrite U4. apply A4.
      * intros m p. destruct (S4 m (fun p' => eq_trans (f_equal (fun x => binok (fst x)) (U4 m p')) (A4 m p')) p) as [_ [p1 E]].
        rewrite E, U4, items_atomic by (apply satom_atomic, A6). cbn [ishapes map fold_left snd]. rewrite A5. reflexivity.
      * discriminate.
    + intros s Hs Rs. rewrite D_app_some. unfold At.
      assert (Hap : dt_ok (apnode (atomize a (D a None)) s)).
      { unfold apnode. constructor; [in_gram|]. df_tac. }
      destruct (U _ Hap (or_intror eq_refl)) as (U1 & U2 & U3 & U4).
      destruct (Sf _ U1 U2) as (S1 & S2 & S3 & S4).
      split; [exact S1|]. split; [exact S2|]. split.
      * rewrite S3, U3. cbn [head apnode dyield fyield]. rewrite print_app, A3, app_nil_r, <- app_assoc. reflexivity.
      * intros m Bs p.
        assert (Bs1 : forall p', binok (fst (tod m (unit SmallTerm (apnode (atomize a (D a None)) s)) p')) = true).
        { intros p'. rewrite U4. unfold apnode. tod_simpl. cbn [binok]. now rewrite A4, Bs. }
        destruct (S4 m Bs1 p) as [Bk [p1 E]]. split; [exact Bk|].
        exists (snd (tod m (atomize a (D a None)) p1)). rewrite E, U4. unfold apnode. tod_simpl.
        change (AApp false ?x ?y) with (amk ChApp false OSum x y). rewrite items_amk by reflexivity.
        cbn [ishapes map fold_left snd]. rewrite A5. reflexivity.
  - (* TLet *)
    apply printable_let in OK as [Ods Ob]. destruct (IHb Ob) as [Nb _].
    apply (nonapp_ok _ (nat_let ds b)); [reflexivity | | apply D_let].
    induction ds as [|[an d] ds IH].
    + cbn [nat_let fold_right]. destruct Nb. constructor; auto; try discriminate.
    + inversion IHds as [|? ? [Han Hd] IHds']; subst. inversion Ods as [|? ? [Oan Od] Ods']; subst. cbn [fst snd] in *.
      specialize (IH IHds' Ods'). unfold nat_let. cbn [fold_right fst snd]. fold (nat_let ds b). unfold At.
      destruct (Han Oan) as [Nan _]. destruct (Hd Od) as [Nd _].
      destruct (sub_atom_lift 1 _ _ (atom_of_nat _ _ Nan) ltac:(lia)) as [[X1 X2 X3 X4 X5] _].
      destruct (sub_atom_lift 7 _ _ (atom_of_nat _ _ Nd) ltac:(lia)) as [[Y1 Y2 Y3 Y4 Y5] _].
      destruct (sub_term _ _ IH) as [R1 R2 R3 R4 R5].
      apply nat_node.
      * reflexivity.
      * reflexivity.
      * constructor; [in_gram | unfold rhs_let_ann; df_tac; apply df_term; [reflexivity|]; df_tac].
      * reflexivity.
      * cbn; lia.
      * discriminate.
      * rewrite print_let. cbn [flat_map def_tokens let_node dyield fyield]. rewrite X3, Y3, R3, print_let, app_nil_r.
        repeat (rewrite <- app_assoc; cbn [app]). reflexivity.
      * intros m p. unfold let_node. tod_simpl. cbn [binok]. now rewrite X4, Y4, R4.
      * intros m p. unfold let_node. tod_simpl. rewrite spec_let, gsh_let, X5, Y5, R5. reflexivity.
  - (* TNeg *)
    apply printable_neg in OK. destruct (IHa OK) as [Na _].
    destruct (sub_atom_lift 3 _ _ (atom_of_nat _ _ Na) ltac:(lia)) as [[X1 X2 X3 X4 X5] _].
    apply (nonapp_ok _ (nat_neg a)); [reflexivity | | intros [s0|]; reflexivity]. unfold nat_neg, At.
    apply nat_node.
    + reflexivity.
    + reflexivity.
    + constructor; [in_gram | df_tac].
    + reflexivity.
    + cbn; lia.
    + intros _. cbn; lia.
    + rewrite print_neg. cbn [neg_node dyield fyield]. now rewrite X3, app_nil_r.
    + intros m p. unfold neg_node. tod_simpl. cbn [binok]. apply X4.
    + intros m p. unfold neg_node. tod_simpl. rewrite spec_neg, gsh_neg, X5. reflexivity.
  - (* TBin *)
    apply printable_bin in OK as [Oa Ob]. destruct (IHa Oa) as [Na _]. destruct (IHb Ob) as [Nb _].
    destruct (sub_atom_lift (lvl (bin_left o)) _ _ (atom_of_nat _ _ Na) ltac:(destruct o; cbn; lia)) as [[X1 X2 X3 X4 X5] X6].
    destruct (sub_atom_lift (lvl (bin_right o)) _ _ (atom_of_nat _ _ Nb) ltac:(destruct o; cbn; lia)) as [[Y1 Y2 Y3 Y4 Y5] Y6].
    assert (X2' : root (lift_to (lvl (bin_left o)) (atomize a (D a None))) = bin_left o) by (rewrite X2; destruct o; reflexivity).
    assert (Y2' : root (lift_to (lvl (bin_right o)) (atomize b (D b None))) = bin_right o) by (rewrite Y2; destruct o; reflexivity).
    apply (nonapp_ok _ (nat_bin o a b)); [reflexivity | | intros [s0|]; reflexivity]. unfold nat_bin, At.
    apply nat_node.
    + destruct o; reflexivity.
    + reflexivity.
    + constructor; [destruct o; in_gram | df_tac].
    + destruct o; reflexivity.
    + destruct o; cbn; lia.
    + intros _. destruct o; cbn; lia.
    + rewrite print_bin. cbn [bin_node dyield fyield]. now rewrite X3, Y3, app_nil_r.
    + intros m p. unfold bin_node. tod_simpl. rewrite bin_abuild. cbn [binok]. now rewrite X6, Y6, X4, Y4.
    + intros m p. unfold bin_node. tod_simpl. rewrite bin_abuild, spec_bin_app, gsh_bin, X5, Y5. reflexivity.
  - (* TIf *)
    apply printable_if in OK as (Oc & Oa & Ob). destruct (IHc Oc) as [Nc _]. destruct (IHa Oa) as [Na _]. destruct (IHb Ob) as [Nb _].
    destruct (sub_term _ _ Nc) as [C1 C2 C3 C4 C5]. destruct (sub_term _ _ Na) as [A1 A2 A3 A4 A5]. destruct (sub_term _ _ Nb) as [B1 B2 B3 B4 B5].
    apply (nonapp_ok _ (nat_if c a b)); [reflexivity | | intros [s0|]; reflexivity]. unfold nat_if, Tt.
    apply nat_node.
    + reflexivity.
    + reflexivity.
    + constructor; [in_gram | unfold rhs_if; df_tac].
    + reflexivity.
    + cbn; lia.
    + intros _. cbn; lia.
    + rewrite print_if. cbn [if_node dyield fyield]. rewrite C3, A3, B3, app_nil_r. repeat (rewrite <- app_assoc; cbn [app]). reflexivity.
    + intros m p. unfold if_node. tod_simpl. cbn [binok]. now rewrite C4, A4, B4.
    + intros m p. unfold if_node. tod_simpl. rewrite spec_if, gsh_if, C5, A5, B5. reflexivity.
Qed.

(* ---------- the derivation tree of the printed text, and its raw tree after re-association ---------- *)
Theorem dprint_ok t : printable t = true ->
  dt_ok (dprint t) /\ root (dprint t) = Term /\ dyield (dprint t) = print t /\
  forall toks, unlit (gshape (spec_all (gtree_of toks (dprint t)))) = unlit (shape t).
Proof.
  intros OK. destruct (D_ok t OK) as [N _]. destruct (sub_term _ _ N) as [H1 H2 H3 H4 H5]. unfold dprint.
  split; [exact H1|]. split; [exact H2|]. split; [exact H3|]. intros toks. unfold gtree_of.
  rewrite spec_all_binok by apply H4. exact (H5 (tokmap_of toks) 0%N).
Qed.

(* the round trip on token kinds: whatever names and literal values the tokens carry *)
Theorem print_reads_back_same_structure : forall t toks memo, printable t = true -> map pk toks = print t ->
  exists raw m s, parse_stage1 toks memo = (S1Tree raw, m, s) /\
    gstrip raw = gtree_of toks (dprint t) /\
    unlit (gshape (strip (reassociate raw))) = unlit (shape t).
Proof.
  intros t toks memo OK E. destruct (dprint_ok t OK) as (H1 & H2 & H3 & H4).
  assert (Dv : derives Term (map pk toks)) by (rewrite E, <- H3, <- H2; now apply tree_derives).
  destruct (parse_complete_memo toks memo Dv) as [raw Hr].
  destruct (parse_stage1 toks memo) as [[st m] s] eqn:P. cbn [fst] in Hr. subst st. exists raw, m, s. split; [reflexivity|].
  destruct (parser_builds_derivation _ _ _ _ _ P) as (d & _ & U & _ & G & R).
  assert (Ed : dprint t = d) by (apply U; [exact H1 | exact H2 | now rewrite H3]). subst d.
  split; [exact G|]. rewrite R. apply H4.
Qed.

(* ---------- literal values ---------- *)
Definition lit_values (toks : list ptok) : list Z :=
  flat_map (fun tk => match pk tk with KIntegerLiteral => [pz tk] | _ => [] end) toks.
Definition nums (l : list ContentProofs.citem) : list Z :=
  flat_map (fun c => match c with ContentProofs.CNum z => [z] | _ => [] end) l.
Definition isnum (c : ContentProofs.citem) : bool := match c with ContentProofs.CNum _ => true | _ => false end.

Lemma nums_app a b : nums (a ++ b) = nums a ++ nums b.
Proof. apply flat_map_app. Qed.
Lemma nums_filter l : nums (filter isnum l) = nums l.
Proof. unfold nums. induction l as [|c l IH]; [reflexivity|]. destruct c; cbn; rewrite ?IH; reflexivity. Qed.
Lemma nums_tok_content toks : nums (ContentProofs.tok_content toks) = lit_values toks.
Proof.
  unfold ContentProofs.tok_content, lit_values. induction toks as [|tk toks IH]; [reflexivity|].
  cbn [flat_map]. rewrite nums_app, IH. f_equal. unfold ContentProofs.item. destruct (pk tk); reflexivity.
Qed.
Lemma lits_content : forall s, lits (gshape (strip s)) = nums (ContentProofs.content s).
Proof.
  unfold strip. induction s using pterm_ind'; cbn [ReassocProofs.erase gshape lshape lits ContentProofs.content]; try reflexivity;
    repeat match goal with H : Popt _ ?d |- _ => destruct d; cbn in H end;
    cbn [gshape lits]; rewrite ?nums_app;
    repeat match goal with H : lits _ = _ |- _ => rewrite H; clear H end.
  all: try match goal with |- context [ContentProofs.synth ?a ?b ?c ?d] => destruct (ContentProofs.synth a b c d) end.
  all: try destruct im; rewrite ?nums_app; cbn; rewrite ?app_nil_r; reflexivity.
Qed.

(* the round trip with values: if the literal tokens carry the literals of t in order *)
Theorem print_reads_back_same_structure_values : forall t toks memo, printable t = true -> map pk toks = print t ->
  lit_values toks = lits (shape t) ->
  exists raw m s, parse_stage1 toks memo = (S1Tree raw, m, s) /\ gshape (strip (reassociate raw)) = shape t.
Proof.
  intros t toks memo OK E L. destruct (print_reads_back_same_structure t toks memo OK E) as (raw & m & s & P & _ & U).
  exists raw, m, s. split; [exact P|]. apply unlit_lits_eq; [exact U|].
  assert (Acc : fst (fst (parse_stage1 toks memo)) = S1Tree raw) by (rewrite P; reflexivity).
  pose proof (ContentProofs.parser_output_content_any toks memo raw isnum (conj eq_refl eq_refl) Acc) as C.
  rewrite lits_content, <- nums_filter, C, nums_filter, nums_tok_content. exact L.
Qed.

Print Assumptions spec_all_binok.
Print Assumptions D_ok.
Print Assumptions print_reads_back_same_structure.
Print Assumptions print_reads_back_same_structure_values.

(* ---------- what the skeleton identifies, and what it keeps ---------- *)
(* the printer does not distinguish these terms (so no reader can): a hole and a variable; an empty
   definition group and its body; a group whose body is a group and the merged group *)
Lemma print_hole_var i s j : print (THole i s) = print (TVar j) /\ shape (THole i s) = shape (TVar j).
Proof. split; reflexivity. Qed.
Lemma print_empty_group b : print (TLet [] b) = print b /\ shape (TLet [] b) = shape b.
Proof. split; reflexivity. Qed.
Lemma print_nested_group ds ds' b :
  print (TLet ds (TLet ds' b)) = print (TLet (ds ++ ds') b) /\ shape (TLet ds (TLet ds' b)) = shape (TLet (ds ++ ds') b).
Proof.
  split.
  - rewrite !print_let, flat_map_app, app_assoc. reflexivity.
  - cbn [shape]. now rewrite fold_right_app.
Qed.
(* a concrete pair: both printable, different terms, the same text - the read-back structure is the merged group *)
Example groups_print_alike :
  let t1 := TLet [(TInt, TLit 1)] (TLet [(TInt, TLit 2)] (TVar 0)) in
  let t2 := TLet [(TInt, TLit 1); (TInt, TLit 2)] (TVar 0) in
  printable t1 = true /\ printable t2 = true /\ t1 <> t2 /\ print t1 = print t2.
Proof. repeat split; try reflexivity. discriminate. Qed.

(* in a group whose body is not itself a group, the entries are recovered as a list *)
Fixpoint sgroup (s : S) : list (S * S) * S :=
  match s with SLet an d b => let '(l, r) := sgroup b in ((an, d) :: l, r) | _ => ([], s) end.
Lemma sgroup_shape ds b : is_let b = false ->
  sgroup (shape (TLet ds b)) = (map (fun p => (shape (fst p), shape (snd p))) ds, shape b).
Proof.
  intros NL. cbn [shape]. induction ds as [|[an d] ds IH]; cbn [fold_right map fst snd sgroup].
  - destruct b; try reflexivity. discriminate NL.
  - rewrite IH. reflexivity.
Qed.

(* ---------- non-vacuity, by computation on the parser model ---------- *)
(* tokens for a list of kinds, the literal tokens carrying the given values in order *)
Fixpoint toks_vals (ks : list tkind) (zs : list Z) (i : N) : list ptok :=
  match ks with
  | [] => []
  | KIntegerLiteral :: r =>
      {| pk := KIntegerLiteral; ps := i; pe := N.succ i; pname := []; pz := hd 0%Z zs |} :: toks_vals r (tl zs) (N.succ i)
  | k :: r => {| pk := k; ps := i; pe := N.succ i; pname := [120%N]; pz := 0%Z |} :: toks_vals r zs (N.succ i)
  end.
Definition read_back (toks : list ptok) : option S :=
  match fst (fst (parse_stage1 toks true)) with S1Tree raw => Some (gshape (strip (reassociate raw))) | _ => None end.

(* ( x : int ) => f (1 + 2) (- 3) g : an application chain printed bare, operands parenthesised *)
Definition ex1 : term :=
  TLam false TInt (TApp (TApp (TApp (TVar 0) (TBin OSum (TLit 1) (TLit 2))) (TNeg (TLit 3))) (TVar 1)).
Example ex1_printable : printable ex1 = true. Proof. reflexivity. Qed.
Example ex1_text : print ex1 =
  [KLeftParen; KIdentifier; KColon; KInteger; KRightParen; KThickArrow; KIdentifier;
   KLeftParen; KIntegerLiteral; KPlus; KIntegerLiteral; KRightParen; KLeftParen; KMinus; KIntegerLiteral; KRightParen; KIdentifier].
Proof. reflexivity. Qed.
Example ex1_round_trip : read_back (toks_vals (print ex1) [1; 2; 3]%Z 0) = Some (shape ex1).
Proof. vm_compute. reflexivity. Qed.
(* the same through the theorem *)
Example ex1_by_theorem : exists raw m s, parse_stage1 (toks_vals (print ex1) [1; 2; 3]%Z 0) true = (S1Tree raw, m, s) /\
  gshape (strip (reassociate raw)) = shape ex1.
Proof. apply print_reads_back_same_structure_values; reflexivity. Qed.

(* a definition group with a function type, a lambda, an if and nested operators:
   x : (int -> int) = ((x : int) => x); x : int = 5; if true then x x else (1 - 2) - (3 * 4) *)
Definition ex2 : term :=
  TLet [(TPi false TInt TInt, TLam false TInt (TVar 0)); (TInt, TLit 5)]
       (TIf TTrue (TApp (TVar 1) (TVar 0)) (TBin ODiff (TBin ODiff (TLit 1) (TLit 2)) (TBin OProd (TLit 3) (TLit 4)))).
Example ex2_printable : printable ex2 = true. Proof. reflexivity. Qed.
Example ex2_round_trip : read_back (toks_vals (print ex2) [5; 1; 2; 3; 4]%Z 0) = Some (shape ex2).
Proof. vm_compute. reflexivity. Qed.
(* other literal values in the tokens: the same structure up to the values, not the same values *)
Example ex2_other_values :
  match read_back (toks_vals (print ex2) [9; 9; 9; 9; 9]%Z 0) with
  | Some s => unlit s = unlit (shape ex2) /\ s <> shape ex2
  | None => False
  end.
Proof. vm_compute. split; [reflexivity | discriminate]. Qed.
(* the hypothesis `printable` matters: a negative literal as an operand reads back as a difference *)
Example negative_literal_changes_structure :
  let t := TApp (TVar 0) (TLit (-1)) in
  printable t = false /\
  read_back (toks_vals (print t) [1]%Z 0) = Some (SBin ODiff SName (SLit 1)) /\ shape t = SApp SName (SLit (-1)).
Proof. vm_compute. repeat split; reflexivity. Qed.
