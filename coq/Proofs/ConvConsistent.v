(* Headline consistency results for the project's OWN definitional equality `conv` and typing `has_type`
   (Spec/Typing.v, with the repaired group congruence c_let: group variables opaque, annotations of
   definitions irrelevant).
     conv_iff_conv2          : conv is exactly conv2 of Proofs/ConfluenceDelta.v
     conv_church_rosser      : Church-Rosser in every well-formed hole-free context (definitions included)
     conv_catoms, ...        : distinct constants are not convertible; Pi is injective
     conv_nodefs_conv0       : in a context without definitions, conv is conv0 (up to strip)
     has_type_has_type0      : a typing derivation of a hole-free group-free term is a has_type0 derivation
     canonical forms (any well-formed hole-free context), progress / preservation / type safety
     (hole-free group-free programs); progress FAILS for groups (group_progress_fails).            *)
From Coq Require Import List ZArith Lia Bool Arith Relations.
Import ListNotations.
Require Import Gram.Model.Term Gram.Model.DeBruijn Gram.Model.Eval Gram.Spec.Cbv Gram.Spec.Typing Gram.Oracle.Infer
  Gram.Proofs.DeBruijnLaws Gram.Proofs.CtxProofs Gram.Proofs.WeakenProofs Gram.Proofs.CbvProofs
  Gram.Proofs.ConflLaws Gram.Proofs.Confluence Gram.Proofs.ConfluenceCons Gram.Proofs.ConfluenceEval
  Gram.Proofs.ConfluenceTyping Gram.Proofs.ConfluenceDelta Gram.Proofs.ConfluenceConvb.

(* ---------- conv = conv2 ---------- *)
Fixpoint conv_conv2 G a b (H : conv G a b) {struct H} : conv2 G a b :=
  match H with
  | c_red _ a b r => c2_red G a b r
  | c_refl _ a => c2_refl G a
  | c_sym _ a b h => c2_sym G a b (conv_conv2 G a b h)
  | c_trans _ a b c h1 h2 => c2_trans G a b c (conv_conv2 G a b h1) (conv_conv2 G b c h2)
  | c_lam _ im d d' b b' h => c2_lam G im d d' b b' (conv_conv2 _ b b' h)
  | c_pi _ im d d' b b' h1 h2 => c2_pi G im d d' b b' (conv_conv2 G d d' h1) (conv_conv2 _ b b' h2)
  | c_app _ f f' a a' h1 h2 => c2_app G f f' a a' (conv_conv2 G f f' h1) (conv_conv2 G a a' h2)
  | c_neg _ a a' h => c2_neg G a a' (conv_conv2 G a a' h)
  | c_bin _ o a a' b b' h1 h2 => c2_bin G o a a' b b' (conv_conv2 G a a' h1) (conv_conv2 G b b' h2)
  | c_if _ c c' a a' b b' h1 h2 h3 =>
      c2_if G c c' a a' b b' (conv_conv2 G c c' h1) (conv_conv2 G a a' h2) (conv_conv2 G b b' h3)
  | c_let _ ds ds' b b' F hb =>
      c2_let G ds ds' b b'
        (proj2 (conv2s_Forall2 (enter_o ds G) ds ds')
          ((fix go (l l' : list (term * term))
                (F : Forall2 (fun p q => conv (enter_o ds G) (snd p) (snd q)) l l') {struct F}
              : Forall2 (fun p q => conv2 (enter_o ds G) (snd p) (snd q)) l l' :=
              match F with
              | Forall2_nil _ => Forall2_nil _
              | Forall2_cons x y h F' => Forall2_cons x y (conv_conv2 _ _ _ h) (go _ _ F')
              end) ds ds' F))
        (conv_conv2 _ b b' hb)
  end.

Lemma conv2_conv_mut : forall G,
  (forall a b, conv2 G a b -> conv G a b) /\
  (forall ds ds', conv2s G ds ds' -> Forall2 (fun p q => conv G (snd p) (snd q)) ds ds').
Proof.
  apply (conv2_mutind (fun G a b => conv G a b)
    (fun G ds ds' => Forall2 (fun p q => conv G (snd p) (snd q)) ds ds'));
    intros; eauto using conv.
Qed.

Theorem conv_iff_conv2 G a b : conv G a b <-> conv2 G a b.
Proof. split; [apply conv_conv2 | apply conv2_conv_mut]. Qed.

(* ---------- consistency of conv, in every well-formed hole-free context ---------- *)
Theorem conv_church_rosser G a b : wf_offsets G -> ctx_hf G -> hole_free a = true -> hole_free b = true ->
  conv G a b -> cjoin G a b.
Proof. intros W F Ha Hb H. apply conv_conv2 in H. now apply church_rosser2. Qed.

Theorem cjoin_conv G a b : wf_offsets G -> ctx_hf G -> cjoin G a b -> conv G a b.
Proof. intros W F H. apply conv_iff_conv2. now apply cjoin_conv2. Qed.

Theorem conv_catoms G a b : wf_offsets G -> ctx_hf G -> catom a = true -> catom b = true -> conv G a b -> a = b.
Proof. intros W F Aa Ab H. apply conv_conv2 in H. eapply conv2_catoms; eauto. Qed.

Corollary conv_int_bool G : wf_offsets G -> ctx_hf G -> ~ conv G TInt TBool.
Proof. intros W F H. apply conv_catoms in H; auto. discriminate. Qed.
Corollary conv_type_int G : wf_offsets G -> ctx_hf G -> ~ conv G TType TInt.
Proof. intros W F H. apply conv_catoms in H; auto. discriminate. Qed.
Corollary conv_type_bool G : wf_offsets G -> ctx_hf G -> ~ conv G TType TBool.
Proof. intros W F H. apply conv_catoms in H; auto. discriminate. Qed.
Corollary conv_true_false G : wf_offsets G -> ctx_hf G -> ~ conv G TTrue TFalse.
Proof. intros W F H. apply conv_catoms in H; auto. discriminate. Qed.
Corollary conv_lit_inj G x y : wf_offsets G -> ctx_hf G -> conv G (TLit x) (TLit y) -> x = y.
Proof. intros W F H. apply conv_catoms in H; auto. congruence. Qed.
Corollary conv_catom_pi G a im A B : wf_offsets G -> ctx_hf G -> catom a = true -> ~ conv G a (TPi im A B).
Proof. intros W F Aa H. apply conv_conv2 in H. revert H. now apply conv2_catom_pi. Qed.

Lemma wf_nil : wf_offsets []. Proof. apply wf_offsets_nil. Qed.
Lemma hf_nil : ctx_hf []. Proof. constructor. Qed.

(* the statements asked for, at the empty context *)
Corollary conv_nil_int_bool : ~ conv [] TInt TBool.                  Proof. apply conv_int_bool; [apply wf_nil | apply hf_nil]. Qed.
Corollary conv_nil_type_int : ~ conv [] TType TInt.                  Proof. apply conv_type_int; [apply wf_nil | apply hf_nil]. Qed.
Corollary conv_nil_true_false : ~ conv [] TTrue TFalse.              Proof. apply conv_true_false; [apply wf_nil | apply hf_nil]. Qed.
Corollary conv_nil_lit_inj x y : conv [] (TLit x) (TLit y) -> x = y. Proof. apply conv_lit_inj; [apply wf_nil | apply hf_nil]. Qed.
Corollary conv_nil_int_pi im A B : ~ conv [] TInt (TPi im A B).      Proof. apply conv_catom_pi; [apply wf_nil | apply hf_nil | reflexivity]. Qed.

Theorem conv_pi_im G im A B im' A' B' : wf_offsets G -> ctx_hf G ->
  conv G (TPi im A B) (TPi im' A' B') -> im = im'.
Proof. intros W F H. apply conv_conv2 in H. eapply conv2_pi_im; eauto. Qed.

Theorem conv_pi_inj G im A B im' A' B' : wf_offsets G -> ctx_hf G ->
  hole_free A = true -> hole_free B = true -> hole_free A' = true -> hole_free B' = true ->
  conv G (TPi im A B) (TPi im' A' B') -> im = im' /\ conv G A A' /\ conv (bind G A) B B'.
Proof.
  intros W F HA HB HA' HB' H. apply conv_conv2 in H.
  destruct (conv2_pi_inj _ _ _ _ _ _ _ W F HA HB HA' HB' H) as (E & H1 & H2).
  repeat split; auto; now apply conv_iff_conv2.
Qed.

(* ---------- contexts without definitions: conv is conv0 ---------- *)
Lemma nodefs_enter_o ds G : nodefs G -> nodefs (enter_o ds G).
Proof.
  intros N i. destruct (Nat.lt_ge_cases i (length ds)) as [Hi|Hi].
  - now apply lookup_def_enter_o_lt.
  - specialize (N (i - length ds)). unfold lookup_def, enter_o in *.
    replace i with (length ds + (i - length ds)) at 1 by lia. rewrite push_group_o_above.
    destruct (nth_error G (i - length ds)) as [[[T k] [d|]]|]; try reflexivity. discriminate.
Qed.

Lemma conv2_nodefs_join : forall G,
  (forall a b, conv2 G a b -> nodefs G -> joinable (strip a) (strip b)) /\
  (forall ds ds', conv2s G ds ds' -> nodefs G -> exists cs, pstars (strips ds) cs /\ pstars (strips ds') cs).
Proof.
  apply (conv2_mutind (fun G a b => nodefs G -> joinable (strip a) (strip b))
    (fun G ds ds' => nodefs G -> exists cs, pstars (strips ds) cs /\ pstars (strips ds') cs));
    intros; cbn [strip];
    repeat match goal with |- context[map ?f ?l] => change (map f l) with (strips l) end.
  - exists (strip b). split; [|apply rt_refl].
    apply rt_step, red0_pred; [apply red0_strip; eapply red_nodefs; eauto | apply strip_hf].
  - exists (strip a). split; apply rt_refl.
  - destruct H0 as (c & ? & ?); auto. exists c; auto.
  - destruct H0 as (u & Ha & Hb1); auto. destruct H2 as (v & Hb2 & Hc); auto.
    destruct (pstar_confluent _ _ _ Hb1 Hb2) as (w & Hw1 & Hw2).
    exists w; split; eapply rt_trans; eassumption.
  - destruct H0 as (c & ? & ?); auto using nodefs_bind.
    exists (TLam im (strip d) c). split; apply pstar_lam; auto using strip_hf.
  - destruct H0 as (c1 & ? & ?); auto. destruct H2 as (c2 & ? & ?); auto using nodefs_bind.
    exists (TPi im c1 c2). split; apply pstar_pi; auto using strip_hf.
  - destruct H0 as (c1 & ? & ?); auto. destruct H2 as (c2 & ? & ?); auto.
    exists (TApp c1 c2). split; apply pstar_app; auto using strip_hf.
  - destruct H0 as (c1 & ? & ?); auto. exists (TNeg c1). split; apply pstar_neg; auto.
  - destruct H0 as (c1 & ? & ?); auto. destruct H2 as (c2 & ? & ?); auto.
    exists (TBin o c1 c2). split; apply pstar_bin; auto using strip_hf.
  - destruct H0 as (c1 & ? & ?); auto. destruct H2 as (c2 & ? & ?); auto. destruct H4 as (c3 & ? & ?); auto.
    exists (TIf c1 c2 c3). split; apply pstar_if; auto using strip_hf.
  - destruct H0 as (cs & ? & ?); auto using nodefs_enter_o. destruct H2 as (c & ? & ?); auto using nodefs_enter_o.
    exists (TLet cs c). split; apply pstar_let; auto using strip_hf, strips_hf.
  - exists []. split; apply rt_refl.
  - destruct H0 as (c2 & ? & ?); auto. destruct H2 as (cs & ? & ?); auto.
    exists ((strip a, c2) :: cs). split; apply pstars_cons; auto using strip_hf, strips_hf.
Qed.

Theorem conv_nodefs_conv0 G a b : nodefs G -> conv G a b -> conv0 (strip a) (strip b).
Proof. intros N H. apply conv_conv2 in H. apply joinable_conv0. now apply (proj1 (conv2_nodefs_join G)). Qed.

Corollary conv_nodefs_iff G a b : nodefs G -> hole_free a = true -> hole_free b = true ->
  (conv G a b <-> conv0 a b).
Proof.
  intros N Ha Hb. split.
  - intros H. apply (conv_nodefs_conv0 _ _ _ N) in H. now rewrite !strip_id in H by assumption.
  - intros H. now apply conv0_conv.
Qed.

(* hence the conversion test decides conv itself at the top level *)
Corollary convb_decides_conv f a b r : hole_free a = true -> hole_free b = true ->
  convb f [] a b = Some r -> (r = true <-> conv [] a b).
Proof.
  intros Ha Hb H. rewrite (conv_nodefs_iff [] a b nodefs_nil Ha Hb). eapply convb_decides_conv0; eauto.
Qed.

(* ---------- typing derivations of hole-free group-free terms are has_type0 derivations ---------- *)
Lemma nodefs_binds L : nodefs (binds L).
Proof.
  intros i. unfold lookup_def, binds. rewrite nth_error_map. destruct (nth_error L i); reflexivity.
Qed.

Theorem has_type_has_type0 : forall G t T, has_type G t T -> forall L, G = binds L ->
  Forall (fun A => hole_free A = true) L -> hole_free t = true -> no_let t = true ->
  exists T0, has_type0 L t T0 /\ conv0 T0 (strip T).
Proof.
  induction 1 as
    [G id s|G|G|G|G|G|G z|G i X H|G im d b B0 _ IH1 _ IH2|G im d b _ IH1 _ IH2|G f x X B0 _ IH1 _ IH2
    |G ds b B0 _ _ _|G x _ IH1|G o x y _ IH1 _ IH2|G c x y X _ IH1 _ IH2 _ IH3|G t X B0 _ IH1 Hc];
    intros L -> HL Hf Hn; try discriminate; split_hf; split_nl;
    try (eexists; split; [constructor | apply c0_refl]; fail).
  - (* var *)
    unfold lookup_ty, binds in H. rewrite nth_error_map in H.
    destruct (nth_error L i) as [A|] eqn:E; [|discriminate]. cbn [option_map] in H. injection H as <-.
    assert (FA : hole_free A = true) by (rewrite Forall_forall in HL; apply HL; eapply nth_error_In; eauto).
    replace (i + 1 - 0) with (S i) by lia. exists (ushift A 0 (S i)). split; [now apply t0_var|].
    rewrite strip_id by now apply hole_free_ushift. apply c0_refl.
  - (* lam *)
    destruct (IH1 L eq_refl) as (D & HD & CD); auto. cbn [strip] in CD.
    assert (Hd : has_type0 L d TType) by (eapply t0_conv; eauto).
    destruct (IH2 (d :: L) eq_refl) as (B1 & HB & CB); auto.
    exists (TPi im d B1). split; [now apply t0_lam|]. cbn [strip]. rewrite (strip_id d) by assumption.
    apply c0_pi; [apply c0_refl | assumption].
  - (* pi *)
    destruct (IH1 L eq_refl) as (D & HD & CD); auto. cbn [strip] in CD.
    assert (Hd : has_type0 L d TType) by (eapply t0_conv; eauto).
    destruct (IH2 (d :: L) eq_refl) as (B1 & HB & CB); auto. cbn [strip] in CB.
    exists TType. split; [|apply c0_refl]. apply t0_pi; [assumption | eapply t0_conv; eauto].
  - (* app *)
    destruct (IH1 L eq_refl) as (F0 & HF & CF); auto. cbn [strip] in CF.
    destruct (IH2 L eq_refl) as (A0 & HA & CA); auto.
    destruct (has_type0_hf _ _ _ HF) as [_ FF0]. destruct (has_type0_hf _ _ _ HA) as [_ FA0].
    assert (FP : hole_free (TPi false (strip X) (strip B0)) = true) by (cbn [hole_free]; now rewrite !strip_hf).
    destruct (church_rosser _ _ FF0 FP CF) as (c & P1 & P2).
    apply pstar_pi_inv in P2 as (A1 & B1 & -> & PA & PB).
    pose proof (pstar_hf _ _ P1 FF0) as Fc. cbn [hole_free] in Fc. split_hf.
    assert (Hf1 : has_type0 L f (TPi false A1 B1)).
    { eapply t0_conv; [exact HF | now apply pstar_conv0 |]. cbn [hole_free]. now rewrite H3, H4. }
    assert (Hx1 : has_type0 L x A1).
    { eapply t0_conv; [exact HA | | assumption]. eapply c0_trans; [exact CA | now apply pstar_conv0]. }
    exists (open B1 0 x 0). split; [eapply t0_app; eauto|].
    rewrite strip_open, (strip_id x) by assumption.
    apply conv0_open; auto using strip_hf. apply c0_sym. now apply pstar_conv0.
  - (* neg *)
    destruct (IH1 L eq_refl) as (A0 & HA & CA); auto. cbn [strip] in CA.
    exists TInt. split; [|apply c0_refl]. apply t0_neg. eapply t0_conv; eauto.
  - (* bin *)
    destruct (IH1 L eq_refl) as (A0 & HA & CA); auto. destruct (IH2 L eq_refl) as (A1 & HA1 & CA1); auto.
    cbn [strip] in CA, CA1.
    exists (bin_ty o). split; [|rewrite strip_id by apply bin_ty_hf; apply c0_refl].
    apply t0_bin; eapply t0_conv; eauto.
  - (* if *)
    destruct (IH1 L eq_refl) as (C0 & HC & CC); auto. cbn [strip] in CC.
    destruct (IH2 L eq_refl) as (A0 & HA & CA); auto. destruct (IH3 L eq_refl) as (A1 & HA1 & CA1); auto.
    destruct (has_type0_hf _ _ _ HA) as [_ FA0].
    exists A0. split; [|assumption].
    apply t0_if; [eapply t0_conv; eauto | assumption |].
    eapply t0_conv; [exact HA1 | | assumption]. eapply c0_trans; [exact CA1 | now apply c0_sym].
  - (* conv *)
    destruct (IH1 L eq_refl) as (A0 & HA & CA); auto.
    exists A0. split; [assumption|]. eapply c0_trans; [exact CA|].
    eapply conv_nodefs_conv0; [apply nodefs_binds | exact Hc].
Qed.

Corollary has_type_has_type0' L t T : Forall (fun A => hole_free A = true) L ->
  hole_free t = true -> no_let t = true -> hole_free T = true ->
  has_type (binds L) t T -> has_type0 L t T.
Proof.
  intros HL Hf Hn HT H. destruct (has_type_has_type0 _ _ _ H L eq_refl HL Hf Hn) as (T0 & H0 & C).
  rewrite strip_id in C by assumption. eapply t0_conv; eauto.
Qed.

(* on hole-free group-free terms and hole-free types, has_type and has_type0 coincide *)
Corollary has_type_iff_has_type0 L t T : Forall (fun A => hole_free A = true) L ->
  hole_free t = true -> no_let t = true -> hole_free T = true ->
  (has_type (binds L) t T <-> has_type0 L t T).
Proof. intros. split; [now apply has_type_has_type0' | apply has_type0_has_type]. Qed.

(* ---------- canonical forms for has_type, in any well-formed hole-free context ---------- *)
Definition naturalG (G : ctx) (v T : term) : Prop :=
  match v with
  | TLit _ => conv G TInt T
  | TTrue | TFalse => conv G TBool T
  | TType | TInt | TBool | TPi _ _ _ => conv G TType T
  | TLam im d b => exists B, conv G (TPi im d B) T
  | _ => True
  end.

Lemma naturalG_gen G v T : has_type G v T -> naturalG G v T.
Proof.
  induction 1; cbn [naturalG]; auto using c_refl.
  - exists B. apply c_refl.
  - destruct t; cbn [naturalG] in *; eauto using c_trans.
    destruct IHhas_type as (B0 & K). exists B0. eauto using c_trans.
Qed.

Section Canon.
Variable G : ctx.
Hypothesis W : wf_offsets G.
Hypothesis F : ctx_hf G.

Theorem canonical_int_conv v T : has_type G v T -> is_value v = true -> conv G T TInt -> exists z, v = TLit z.
Proof.
  intros H V C. apply naturalG_gen in H. destruct v; try discriminate; cbn [naturalG] in H; eauto;
    try (exfalso; assert (K : conv G TType TInt) by eauto using c_trans;
         apply (conv_catoms G) in K; auto; discriminate);
    try (exfalso; assert (K : conv G TBool TInt) by eauto using c_trans;
         apply (conv_catoms G) in K; auto; discriminate).
  destruct H as (B & H). exfalso. apply (conv_catom_pi G TInt impl v1 B W F eq_refl). apply c_sym. eauto using c_trans.
Qed.

Theorem canonical_bool_conv v T : has_type G v T -> is_value v = true -> conv G T TBool -> v = TTrue \/ v = TFalse.
Proof.
  intros H V C. apply naturalG_gen in H. destruct v; try discriminate; cbn [naturalG] in H; auto;
    try (exfalso; assert (K : conv G TType TBool) by eauto using c_trans;
         apply (conv_catoms G) in K; auto; discriminate);
    try (exfalso; assert (K : conv G TInt TBool) by eauto using c_trans;
         apply (conv_catoms G) in K; auto; discriminate).
  destruct H as (B & H). exfalso. apply (conv_catom_pi G TBool impl v1 B W F eq_refl). apply c_sym. eauto using c_trans.
Qed.

Theorem canonical_pi_conv v T im A B : has_type G v T -> is_value v = true -> conv G T (TPi im A B) ->
  exists d b, v = TLam im d b.
Proof.
  intros H V C. apply naturalG_gen in H. destruct v; try discriminate; cbn [naturalG] in H;
    try (exfalso; match type of H with conv _ ?X _ =>
           assert (K : conv G X (TPi im A B)) by eauto using c_trans end;
         revert K; now apply conv_catom_pi).
  destruct H as (B0 & H).
  assert (K : conv G (TPi impl v1 B0) (TPi im A B)) by eauto using c_trans.
  apply conv_pi_im in K; auto. subst. eauto.
Qed.
End Canon.

(* ---------- progress, preservation, type safety for has_type: hole-free group-free programs ---------- *)
Theorem progress_has_type t T : has_type [] t T -> hole_free t = true -> no_let t = true ->
  is_value t = true \/ (exists t', step t = Some t') \/ div_stuck t.
Proof.
  intros H Hf Hn. destruct (has_type_has_type0 _ _ _ H [] eq_refl (Forall_nil _) Hf Hn) as (T0 & H0 & _).
  eapply progress; eauto.
Qed.

Theorem preservation_has_type L t T t' : Forall (fun A => hole_free A = true) L ->
  hole_free t = true -> no_let t = true -> hole_free T = true ->
  has_type (binds L) t T -> step t = Some t' -> has_type (binds L) t' T.
Proof.
  intros HL Hf Hn HT H S. apply has_type0_has_type. eapply preservation; [|exact S].
  now apply has_type_has_type0'.
Qed.

Lemma step_no_let t t' : hole_free t = true -> no_let t = true -> step t = Some t' -> no_let t' = true.
Proof. intros Hf Hn S. now destruct (step_pred _ _ Hf Hn S). Qed.

Theorem type_safety_has_type : forall f t T v, hole_free t = true -> no_let t = true -> hole_free T = true ->
  has_type [] t T -> evaluate f t = Some v ->
  has_type [] v T /\ (is_value v = true \/ div_stuck v).
Proof.
  intros f t T v Hf Hn HT H E.
  assert (H0 : has_type0 [] t T) by (apply has_type_has_type0'; auto).
  destruct (type_safety _ _ _ _ H0 E) as [Hv K]. split; [|exact K]. now apply (has_type0_has_type [] v T).
Qed.

Corollary eval_int_has_type f t v : hole_free t = true -> no_let t = true ->
  has_type [] t TInt -> evaluate f t = Some v -> (exists z, v = TLit z) \/ div_stuck v.
Proof. intros Hf Hn H E. eapply eval_int; [|exact E]. now apply has_type_has_type0'. Qed.

(* ---------- groups: progress does NOT extend (no productivity check in t_let) ---------- *)
Definition loop_group : term := TLet [(TInt, TVar 0)] (TVar 0).        (* x : int = x; x *)
Example group_progress_fails :
  has_type [] loop_group TInt /\ hole_free loop_group = true /\
  is_value loop_group = false /\ step loop_group = None /\ stuck_reason loop_group = Some FreeVariable /\
  infer 10 [] loop_group = Some TInt.
Proof.
  repeat split; try reflexivity.
  apply (t_let [] [(TInt, TVar 0)] (TVar 0) TInt).
  - constructor; [|constructor]. cbn [fst snd]. split; [constructor|]. now apply t_var.
  - now apply t_var.
Qed.

Print Assumptions conv_iff_conv2.
Print Assumptions conv_church_rosser.
Print Assumptions conv_nil_int_bool.
Print Assumptions conv_nil_lit_inj.
Print Assumptions conv_nil_true_false.
Print Assumptions conv_pi_inj.
Print Assumptions conv_nodefs_iff.
Print Assumptions convb_decides_conv.
Print Assumptions has_type_iff_has_type0.
Print Assumptions canonical_int_conv.
Print Assumptions canonical_bool_conv.
Print Assumptions canonical_pi_conv.
Print Assumptions progress_has_type.
Print Assumptions preservation_has_type.
Print Assumptions type_safety_has_type.
Print Assumptions group_progress_fails.
