(* C12 / C18 on Model B: type checking only extends the hole store (tcB_ext). *)
From Coq Require Import List ZArith Lia Bool Arith.
Import ListNotations.
Require Import Gram.Model.Term Gram.Model.DeBruijn Gram.Model.ModelB Gram.Proofs.ModelBProofs Gram.Proofs.StoreProofs.

Lemma expectB_ext f s D a w e es s' es' : expectB f s D a w e es = Some (s', es') -> ext s s'.
Proof. unfold expectB. intros H. destruct (unifyB f s D a w) as [[ok s1]|] eqn:U; [|discriminate]. injection H as <- _. eapply unifyB_ext; eauto. Qed.

Lemma group_typeB_grow f n ds' : forall k i acc s T s', group_typeB f n ds' i k acc s = Some (T, s') -> grow s s'.
Proof.
  induction k as [|k IH]; intros i acc s T s' H; cbn [group_typeB] in H; [injection H as _ <-; apply grow_refl|].
  break_match H. eapply grow_trans; [eapply openB_grow; eauto | eapply IH; eauto].
Qed.

Lemma tc_defs_ext f (tc : storeB -> term -> option tcres) D' :
  (forall s0 d r, tc s0 d = Some r -> ext s0 (b_st r)) ->
  forall l s0 es l' s1 es1, tc_defs f tc D' l s0 es = Some (l', s1, es1) -> ext s0 s1.
Proof.
  intros Htc. induction l as [|[a d] rest IHl]; intros s0 es l' s1 es1 H; cbn [tc_defs] in H; [injection H as _ <- _; apply ext_refl|].
  destruct (tc s0 a) as [ra|] eqn:Ra; [|discriminate].
  destruct (expectB f (b_st ra) D' (b_ty ra) TType ENotType (es ++ b_errs ra)) as [[s0a es0]|] eqn:X1; [|discriminate].
  destruct (tc s0a d) as [rd|] eqn:Rd; [|discriminate].
  destruct (expectB f (b_st rd) D' (b_ty rd) a EAnnotation (es0 ++ b_errs rd)) as [[s1' es1']|] eqn:X2; [|discriminate].
  destruct (tc_defs f tc D' rest s1' es1') as [[[rest' s2] es2]|] eqn:Z; [|discriminate]. injection H as _ <- _.
  eapply ext_trans; [eapply Htc; eauto|]. eapply ext_trans; [eapply expectB_ext; eauto|].
  eapply ext_trans; [eapply Htc; eauto|]. eapply ext_trans; [eapply expectB_ext; eauto|]. eapply IHl; eauto.
Qed.

(* type checking never touches a recorded solution *)
Theorem tcB_ext : forall f s G D t r, tcB f s G D t = Some r -> ext s (b_st r).
Proof.
  induction f as [|f IH]; intros s G D t r H; [discriminate|].
  destruct t; cbn [tcB] in H.
  1-7: injection H as <-; apply ext_refl.
  - break_match H; injection H as <-; apply ext_refl.
  - (* lam *)
    destruct (tcB f s G D t1) as [rd|] eqn:Rd; [|discriminate].
    destruct (expectB f (b_st rd) D (b_ty rd) TType ENotType (b_errs rd)) as [[s1 es1]|] eqn:X; [|discriminate].
    destruct (tcB f s1 ((b_elab rd, 0) :: G) (None :: D) t2) as [rb|] eqn:Rb; [|discriminate]. injection H as <-. cbn [b_st].
    eapply ext_trans; [eapply IH; eauto|]. eapply ext_trans; [eapply expectB_ext; eauto|]. eapply IH; eauto.
  - (* pi *)
    destruct (tcB f s G D t1) as [rd|] eqn:Rd; [|discriminate].
    destruct (expectB f (b_st rd) D (b_ty rd) TType ENotType (b_errs rd)) as [[s1 es1]|] eqn:X; [|discriminate].
    destruct (tcB f s1 ((b_elab rd, 0) :: G) (None :: D) t2) as [rb|] eqn:Rb; [|discriminate].
    destruct (expectB f (b_st rb) (None :: D) (b_ty rb) TType ENotType (es1 ++ b_errs rb)) as [[s2 es2]|] eqn:Y; [|discriminate].
    injection H as <-. cbn [b_st].
    eapply ext_trans; [eapply IH; eauto|]. eapply ext_trans; [eapply expectB_ext; eauto|].
    eapply ext_trans; [eapply IH; eauto|]. eapply expectB_ext; eauto.
  - (* app *)
    destruct (tcB f s G D t1) as [ra|] eqn:Ra; [|discriminate].
    unfold fresh_hole, salloc in H.
    match type of H with context [expectB f ?s2 D ?p (b_ty ra) ENotFunction (b_errs ra)] =>
      destruct (expectB f s2 D p (b_ty ra) ENotFunction (b_errs ra)) as [[s3 es3]|] eqn:X; [|discriminate];
      assert (A2 : ext (b_st ra) s2) by (apply grow_ext; exists 2; rewrite <- app_assoc; reflexivity) end.
    destruct (tcB f s3 G D t2) as [rb|] eqn:Rb; [|discriminate].
    match type of H with context [expectB f (b_st rb) D ?dom (b_ty rb) EArgument ?es] =>
      destruct (expectB f (b_st rb) D dom (b_ty rb) EArgument es) as [[s4 es4]|] eqn:Y; [|discriminate] end.
    match type of H with context [openB f s4 ?cod 0 (b_elab rb) 0] =>
      destruct (openB f s4 cod 0 (b_elab rb) 0) as [[T s5]|] eqn:O; [|discriminate] end.
    injection H as <-. cbn [b_st].
    eapply ext_trans; [eapply IH; eauto|]. eapply ext_trans; [exact A2|]. eapply ext_trans; [eapply expectB_ext; eauto|].
    eapply ext_trans; [eapply IH; eauto|]. eapply ext_trans; [eapply expectB_ext; eauto|]. apply grow_ext. eapply openB_grow; eauto.
  - (* let *)
    match type of H with context [tc_defs f ?tc ?D' defs s []] =>
      destruct (tc_defs f tc D' defs s []) as [[[ds' s1] es1]|] eqn:Z; [|discriminate];
      assert (A1 : ext s s1) by (eapply (tc_defs_ext f tc D'); [intros s0 d r0 Hr; eapply IH; exact Hr | exact Z]) end.
    match type of H with context [tcB f s1 ?G' ?D' t] =>
      destruct (tcB f s1 G' D' t) as [rb|] eqn:Rb; [|discriminate] end.
    destruct (group_typeB f (length defs) ds' 0 (length defs) (b_ty rb) (b_st rb)) as [[T' s3]|] eqn:GT; [|discriminate].
    injection H as <-. cbn [b_st].
    eapply ext_trans; [exact A1|]. eapply ext_trans; [eapply IH; eauto|]. apply grow_ext. eapply group_typeB_grow; eauto.
  - (* neg *)
    destruct (tcB f s G D t) as [ra|] eqn:Ra; [|discriminate].
    destruct (expectB f (b_st ra) D (b_ty ra) TInt ENotInt (b_errs ra)) as [[s1 es1]|] eqn:X; [|discriminate]. injection H as <-. cbn [b_st].
    eapply ext_trans; [eapply IH; eauto | eapply expectB_ext; eauto].
  - (* bin *)
    destruct (tcB f s G D t1) as [ra|] eqn:Ra; [|discriminate].
    destruct (expectB f (b_st ra) D (b_ty ra) TInt ENotInt (b_errs ra)) as [[s1 es1]|] eqn:X; [|discriminate].
    destruct (tcB f s1 G D t2) as [rb|] eqn:Rb; [|discriminate].
    destruct (expectB f (b_st rb) D (b_ty rb) TInt ENotInt (es1 ++ b_errs rb)) as [[s2 es2]|] eqn:Y; [|discriminate]. injection H as <-. cbn [b_st].
    eapply ext_trans; [eapply IH; eauto|]. eapply ext_trans; [eapply expectB_ext; eauto|].
    eapply ext_trans; [eapply IH; eauto|]. eapply expectB_ext; eauto.
  - (* if *)
    destruct (tcB f s G D t1) as [rc|] eqn:Rc; [|discriminate].
    destruct (expectB f (b_st rc) D (b_ty rc) TBool ENotBool (b_errs rc)) as [[s1 es1]|] eqn:X; [|discriminate].
    destruct (tcB f s1 G D t2) as [ra|] eqn:Ra; [|discriminate].
    destruct (tcB f (b_st ra) G D t3) as [rb|] eqn:Rb; [|discriminate].
    destruct (expectB f (b_st rb) D (b_ty ra) (b_ty rb) EBranches (es1 ++ b_errs ra ++ b_errs rb)) as [[s2 es2]|] eqn:Y; [|discriminate].
    injection H as <-. cbn [b_st].
    eapply ext_trans; [eapply IH; eauto|]. eapply ext_trans; [eapply expectB_ext; eauto|].
    eapply ext_trans; [eapply IH; eauto|]. eapply ext_trans; [eapply IH; eauto|]. eapply expectB_ext; eauto.
Qed.
