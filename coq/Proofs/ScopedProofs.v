(* C14 (checker stage, first step): the term that parse() hands to the type checker is well scoped - every
   variable index is smaller than the number of binders around it - and on a well-scoped term the Model B
   checker never reaches its context-lookup panic site (the EScope tag stands for the out-of-bounds index). *)
From Coq Require Import List ZArith NArith Lia Bool Arith.
Import ListNotations.
Require Import Gram.Model.Term Gram.Model.DeBruijn Gram.Model.ModelB Gram.Model.Token Gram.Model.Grammar Gram.Model.Parser
  Gram.Model.ParserPost Gram.Spec.ScopeSpec Gram.Proofs.ScopeProofs Gram.Proofs.ModelBProofs.

Fixpoint scoped (t : term) (d : nat) : bool :=
  match t with
  | TVar i => Nat.ltb i d
  | TLam _ a b | TPi _ a b => scoped a d && scoped b (S d)
  | TApp a b | TBin _ a b => scoped a d && scoped b d
  | TLet ds b => let d' := length ds + d in forallb (fun p => scoped (fst p) d' && scoped (snd p) d') ds && scoped b d'
  | TNeg a => scoped a d
  | TIf c a b => scoped c d && scoped a d && scoped b d
  | _ => true
  end.

(* ---------- the scoping stage produces well-scoped terms ---------- *)
Lemma push2_length : forall defs G G2, fold_left push2 defs (Some G) = Some G2 -> length G2 = length defs + length G.
Proof.
  induction defs as [|df defs IH]; intros G G2 H; [injection H as <-; reflexivity|]. cbn [fold_left push2] in H.
  destruct (negb (is_placeholder (fst (fst df))) && bound (fst (fst df)) G); [rewrite push2_none in H; discriminate|].
  apply IH in H. cbn [length] in *. lia.
Qed.

Theorem sresolve_scoped : forall f G t h r h', sresolve f G t h = Some (r, h') -> scoped r (length G) = true.
Proof.
  induction f as [|f IH]; intros G t h r h' H; [discriminate|].
  destruct t; cbn [sresolve] in H; try (injection H as <- _; reflexivity); try discriminate.
  - (* variable *)
    destruct (is_placeholder x); [injection H as <- _; reflexivity|].
    destruct (index_of x G) as [j|] eqn:I; [|discriminate]. injection H as <- _. cbn. apply Nat.ltb_lt. eapply index_of_lt; eauto.
  - (* function *)
    destruct (match dom with Some d => sresolve f G d h | None => Some (THole h 0, S h) end) as [[d' h1]|] eqn:D; [|discriminate].
    destruct (negb (is_placeholder x) && bound x G); [discriminate|].
    destruct (sresolve f (x :: G) t h1) as [[b' h2]|] eqn:B; [|discriminate]. injection H as <- _. cbn [scoped].
    pose proof (IH _ _ _ _ _ B) as Hb. cbn [length] in Hb. rewrite Hb, andb_true_r.
    destruct dom as [d|]; [eapply IH; eauto | injection D as <- _; reflexivity].
  - (* function type *)
    destruct (sresolve f G t1 h) as [[d' h1]|] eqn:D; [|discriminate].
    destruct (negb (is_placeholder x) && bound x G); [discriminate|].
    destruct (sresolve f (x :: G) t2 h1) as [[b' h2]|] eqn:B; [|discriminate]. injection H as <- _. cbn [scoped].
    pose proof (IH _ _ _ _ _ B) as Hb. cbn [length] in Hb. now rewrite (IH _ _ _ _ _ D), Hb.
  - (* application *)
    destruct (sresolve f G t1 h) as [[g' h1]|] eqn:A; [|discriminate].
    destruct (sresolve f G t2 h1) as [[a' h2]|] eqn:B; [|discriminate]. injection H as <- _. cbn [scoped].
    now rewrite (IH _ _ _ _ _ A), (IH _ _ _ _ _ B).
  - (* group *)
    destruct (collect_definitions (PLet i x xs xe ann t1 t2)) as [defs body]. cbv zeta in H.
    match type of H with context [fold_left ?F defs (Some G)] => change F with push2 in H end.
    destruct (fold_left push2 defs (Some G)) as [G2|] eqn:P; [|discriminate].
    pose proof (push2_length _ _ _ P) as L2.
    match type of H with context [fold_left ?F defs (Some (?a0, h, 0))] => change F with (def2 f (length defs) G2) in H end.
    assert (DF : forall l acc h0 i0 l' h1 i1, Forall (fun p => scoped (fst p) (length G2) && scoped (snd p) (length G2) = true) acc ->
              fold_left (def2 f (length defs) G2) l (Some (acc, h0, i0)) = Some (l', h1, i1) ->
              Forall (fun p => scoped (fst p) (length G2) && scoped (snd p) (length G2) = true) l' /\ length l' = length acc + length l).
    { induction l as [|[[x0 an] d] l IHl]; intros acc h0 i0 l' h1 i1 Ha Hf; [injection Hf as <- _ _; split; [exact Ha | cbn; lia]|].
      cbn [fold_left def2] in Hf.
      destruct (match an with Some a => sresolve f G2 a h0 | None => Some (THole h0 (length defs - i0), S h0) end) as [[an' h2]|] eqn:A;
        [|rewrite def2_none in Hf; discriminate].
      destruct (sresolve f G2 d h2) as [[d' h3]|] eqn:Dd; [|rewrite def2_none in Hf; discriminate].
      apply IHl in Hf.
      - destruct Hf as [F Ln]. split; [exact F|]. rewrite Ln, app_length. cbn. lia.
      - apply Forall_app. split; [exact Ha|]. constructor; [|constructor]. cbn [fst snd].
        rewrite (IH _ _ _ _ _ Dd), andb_true_r. destruct an as [a|]; [eapply IH; eauto | injection A as <- _; reflexivity]. }
    destruct (fold_left (def2 f (length defs) G2) defs (Some ([], h, 0))) as [[[l h1] i1]|] eqn:Fd; [|discriminate].
    destruct (sresolve f G2 body h1) as [[b' h2]|] eqn:B; [|discriminate]. injection H as <- _.
    destruct (DF defs [] h 0 l h1 i1 (Forall_nil _) Fd) as [Fl Ll]. simpl in Ll.
    cbn [scoped]. rewrite Ll, <- L2. rewrite (IH _ _ _ _ _ B), andb_true_r. apply forallb_forall. rewrite Forall_forall in Fl. exact Fl.
  - (* negation *) destruct (sresolve f G t h) as [[a' h1]|] eqn:A; [|discriminate]. injection H as <- _. cbn. eapply IH; eauto.
  - (* binary *)
    destruct (sresolve f G t1 h) as [[a' h1]|] eqn:A; [|discriminate].
    destruct (sresolve f G t2 h1) as [[b' h2]|] eqn:B; [|discriminate]. injection H as <- _. cbn [scoped].
    now rewrite (IH _ _ _ _ _ A), (IH _ _ _ _ _ B).
  - (* conditional *)
    destruct (sresolve f G t1 h) as [[c' h1]|] eqn:A; [|discriminate].
    destruct (sresolve f G t2 h1) as [[a' h2]|] eqn:B; [|discriminate].
    destruct (sresolve f G t3 h2) as [[b' h3]|] eqn:C; [|discriminate]. injection H as <- _. cbn [scoped].
    now rewrite (IH _ _ _ _ _ A), (IH _ _ _ _ _ B), (IH _ _ _ _ _ C).
Qed.

Theorem accepted_terms_are_closed : forall toks tree t ns,
  syntax_tree toks = Some tree -> fst (fst (parse_top toks true [])) = POk t ns -> scoped t 0 = true.
Proof.
  intros toks tree t ns St P. destruct (parse_top_scope_sound toks tree t ns St P) as [SS _].
  unfold scope_spec in SS. destruct (sresolve (S (psize tree)) [] tree 0) as [[r h]|] eqn:E; [|discriminate].
  injection SS as <-. exact (sresolve_scoped _ _ _ _ _ _ E).
Qed.

(* ---------- on a well-scoped term the checker's context lookup never leaves the context ---------- *)
Definition clean_errs (es : list errB) : Prop := ~ In EScope es.

Lemma clean_app a b : clean_errs a -> clean_errs b -> clean_errs (a ++ b).
Proof. unfold clean_errs. intros Ha Hb I. apply in_app_or in I. tauto. Qed.

Lemma expectB_clean f s D a w e es s' es' : e <> EScope -> clean_errs es -> expectB f s D a w e es = Some (s', es') -> clean_errs es'.
Proof.
  unfold expectB. intros Ne Hc H. destruct (unifyB f s D a w) as [[ok s1]|]; [|discriminate]. injection H as _ <-.
  destruct ok; [exact Hc|]. apply clean_app; [exact Hc|]. intros [E|[]]. congruence.
Qed.

Lemma tc_defs_clean f (tc : storeB -> term -> option tcres) D' (P : term -> Prop) :
  (forall s0 d r, P d -> tc s0 d = Some r -> clean_errs (b_errs r)) ->
  forall l s0 es l' s1 es1, Forall (fun p => P (fst p) /\ P (snd p)) l -> clean_errs es ->
  tc_defs f tc D' l s0 es = Some (l', s1, es1) -> clean_errs es1.
Proof.
  intros Htc. induction l as [|[a d] rest IHl]; intros s0 es l' s1 es1 Hl Hc H; cbn [tc_defs] in H; [injection H as _ _ <-; exact Hc|].
  inversion Hl as [|? ? [Pa Pd] Hrest]; subst. cbn [fst snd] in *.
  destruct (tc s0 a) as [ra|] eqn:Ra; [|discriminate].
  destruct (expectB f (b_st ra) D' (b_ty ra) TType ENotType (es ++ b_errs ra)) as [[s0a es0]|] eqn:X1; [|discriminate].
  destruct (tc s0a d) as [rd|] eqn:Rd; [|discriminate].
  destruct (expectB f (b_st rd) D' (b_ty rd) a EAnnotation (es0 ++ b_errs rd)) as [[s1' es1']|] eqn:X2; [|discriminate].
  destruct (tc_defs f tc D' rest s1' es1') as [[[rest' s2] es2]|] eqn:Z; [|discriminate]. injection H as _ _ <-.
  eapply IHl; [exact Hrest | | exact Z].
  eapply expectB_clean; [ | | exact X2]; [discriminate|]. apply clean_app; [|exact (Htc _ _ _ Pd Rd)].
  eapply expectB_clean; [ | | exact X1]; [discriminate|]. apply clean_app; [exact Hc | exact (Htc _ _ _ Pa Ra)].
Qed.

Lemma push_ty_length n : forall (l : list (term * term)) i (acc : tctx),
  length ((fix push (l : list (term * term)) (i : nat) (acc : tctx) : tctx :=
             match l with [] => acc | (a, _) :: r => push r (S i) ((a, n - i) :: acc) end) l i acc) = length l + length acc.
Proof. induction l as [|[a d] l IH]; intros i acc; [reflexivity|]. rewrite IH. cbn. lia. Qed.

Theorem tcB_no_scope_error : forall f s G D t r,
  scoped t (length G) = true -> tcB f s G D t = Some r -> clean_errs (b_errs r).
Proof.
  induction f as [|f IH]; intros s G D t r Sc H; [discriminate|].
  destruct t; cbn [tcB] in H; cbn [scoped] in Sc.
  1-7: injection H as <-; cbn; intros [].
  - (* variable *)
    apply Nat.ltb_lt in Sc. destruct (nth_error G i) as [[T off]|] eqn:N; [|apply nth_error_None in N; lia].
    destruct (ushiftB f s T 0 (i + 1 - off)); [|discriminate]. injection H as <-. cbn. intros [].
  - (* function *)
    apply andb_prop in Sc as [S1 S2].
    destruct (tcB f s G D t1) as [rd|] eqn:Rd; [|discriminate].
    destruct (expectB f (b_st rd) D (b_ty rd) TType ENotType (b_errs rd)) as [[s1 es1]|] eqn:X; [|discriminate].
    destruct (tcB f s1 ((b_elab rd, 0) :: G) (None :: D) t2) as [rb|] eqn:Rb; [|discriminate]. injection H as <-. cbn [b_errs].
    assert (C1 : clean_errs es1) by (eapply expectB_clean; [ | | exact X]; [discriminate | exact (IH _ _ _ _ _ S1 Rd)]).
    apply clean_app; [exact C1 | exact (IH _ ((b_elab rd, 0) :: G) _ _ _ S2 Rb)].
  - (* function type *)
    apply andb_prop in Sc as [S1 S2].
    destruct (tcB f s G D t1) as [rd|] eqn:Rd; [|discriminate].
    destruct (expectB f (b_st rd) D (b_ty rd) TType ENotType (b_errs rd)) as [[s1 es1]|] eqn:X; [|discriminate].
    destruct (tcB f s1 ((b_elab rd, 0) :: G) (None :: D) t2) as [rb|] eqn:Rb; [|discriminate].
    destruct (expectB f (b_st rb) (None :: D) (b_ty rb) TType ENotType (es1 ++ b_errs rb)) as [[s2 es2]|] eqn:Y; [|discriminate].
    injection H as <-. cbn [b_errs].
    assert (C1 : clean_errs es1) by (eapply expectB_clean; [ | | exact X]; [discriminate | exact (IH _ _ _ _ _ S1 Rd)]).
    eapply expectB_clean; [ | | exact Y]; [discriminate|].
    apply clean_app; [exact C1 | exact (IH _ ((b_elab rd, 0) :: G) _ _ _ S2 Rb)].
  - (* application *)
    apply andb_prop in Sc as [S1 S2].
    destruct (tcB f s G D t1) as [ra|] eqn:Ra; [|discriminate].
    unfold fresh_hole, salloc in H.
    match type of H with context [expectB f ?s2 D ?p (b_ty ra) ENotFunction (b_errs ra)] =>
      destruct (expectB f s2 D p (b_ty ra) ENotFunction (b_errs ra)) as [[s3 es3]|] eqn:X; [|discriminate] end.
    destruct (tcB f s3 G D t2) as [rb|] eqn:Rb; [|discriminate].
    match type of H with context [expectB f (b_st rb) D ?dom (b_ty rb) EArgument ?es] =>
      destruct (expectB f (b_st rb) D dom (b_ty rb) EArgument es) as [[s4 es4]|] eqn:Y; [|discriminate] end.
    match type of H with context [openB f s4 ?cod 0 (b_elab rb) 0] =>
      destruct (openB f s4 cod 0 (b_elab rb) 0) as [[T s5]|] eqn:O; [|discriminate] end.
    injection H as <-. cbn [b_errs].
    assert (C3 : clean_errs es3) by (eapply expectB_clean; [ | | exact X]; [discriminate | exact (IH _ _ _ _ _ S1 Ra)]).
    eapply expectB_clean; [ | | exact Y]; [discriminate|]. apply clean_app; [exact C3 | exact (IH _ _ _ _ _ S2 Rb)].
  - (* group *)
    apply andb_prop in Sc as [S1 S2]. rewrite forallb_forall in S1.
    match type of H with context [tc_defs f (fun s0 d => tcB f s0 ?G' ?D' d) ?D'' defs s []] =>
      assert (LG : length G' = length defs + length G) by apply push_ty_length;
      destruct (tc_defs f (fun s0 d => tcB f s0 G' D' d) D'' defs s []) as [[[ds' s1] es1]|] eqn:Z; [|discriminate];
      assert (C1 : clean_errs es1);
      [ eapply (tc_defs_clean f (fun s0 d => tcB f s0 G' D' d) D'' (fun d => scoped d (length defs + length G) = true));
        [ | | | exact Z ];
        [ intros s0 d r0 Pd Hr; eapply IH; [rewrite LG; exact Pd | exact Hr]
        | apply Forall_forall; intros p Hp; specialize (S1 p Hp); apply andb_prop in S1; exact S1
        | intros H0; exact H0 ]
      | destruct (tcB f s1 G' D' t) as [rb|] eqn:Rb; [|discriminate];
        assert (C2 : clean_errs (b_errs rb)) by (eapply IH; [rewrite LG; exact S2 | exact Rb]) ]
    end.
    destruct (group_typeB f (length defs) ds' 0 (length defs) (b_ty rb) (b_st rb)) as [[T' s3]|]; [|discriminate].
    injection H as <-. cbn [b_errs]. now apply clean_app.
  - (* negation *)
    destruct (tcB f s G D t) as [ra|] eqn:Ra; [|discriminate].
    destruct (expectB f (b_st ra) D (b_ty ra) TInt ENotInt (b_errs ra)) as [[s1 es1]|] eqn:X; [|discriminate]. injection H as <-. cbn [b_errs].
    eapply expectB_clean; [ | | exact X]; [discriminate | exact (IH _ _ _ _ _ Sc Ra)].
  - (* binary *)
    apply andb_prop in Sc as [S1 S2].
    destruct (tcB f s G D t1) as [ra|] eqn:Ra; [|discriminate].
    destruct (expectB f (b_st ra) D (b_ty ra) TInt ENotInt (b_errs ra)) as [[s1 es1]|] eqn:X; [|discriminate].
    destruct (tcB f s1 G D t2) as [rb|] eqn:Rb; [|discriminate].
    destruct (expectB f (b_st rb) D (b_ty rb) TInt ENotInt (es1 ++ b_errs rb)) as [[s2 es2]|] eqn:Y; [|discriminate]. injection H as <-. cbn [b_errs].
    assert (C1 : clean_errs es1) by (eapply expectB_clean; [ | | exact X]; [discriminate | exact (IH _ _ _ _ _ S1 Ra)]).
    eapply expectB_clean; [ | | exact Y]; [discriminate|]. apply clean_app; [exact C1 | exact (IH _ _ _ _ _ S2 Rb)].
  - (* conditional *)
    apply andb_prop in Sc as [S12 S3]. apply andb_prop in S12 as [S1 S2].
    destruct (tcB f s G D t1) as [rc|] eqn:Rc; [|discriminate].
    destruct (expectB f (b_st rc) D (b_ty rc) TBool ENotBool (b_errs rc)) as [[s1 es1]|] eqn:X; [|discriminate].
    destruct (tcB f s1 G D t2) as [ra|] eqn:Ra; [|discriminate].
    destruct (tcB f (b_st ra) G D t3) as [rb|] eqn:Rb; [|discriminate].
    destruct (expectB f (b_st rb) D (b_ty ra) (b_ty rb) EBranches (es1 ++ b_errs ra ++ b_errs rb)) as [[s2 es2]|] eqn:Y; [|discriminate].
    injection H as <-. cbn [b_errs].
    assert (C1 : clean_errs es1) by (eapply expectB_clean; [ | | exact X]; [discriminate | exact (IH _ _ _ _ _ S1 Rc)]).
    eapply expectB_clean; [ | | exact Y]; [discriminate|]. apply clean_app; [exact C1|].
    apply clean_app; [exact (IH _ _ _ _ _ S2 Ra) | exact (IH _ _ _ _ _ S3 Rb)].
Qed.

(* together: on what parse() accepts, the checker's typing-context lookup stays inside the context *)
Corollary checker_lookup_in_bounds : forall toks tree t ns f s r,
  syntax_tree toks = Some tree -> fst (fst (parse_top toks true [])) = POk t ns ->
  tcB f s [] [] t = Some r -> ~ In EScope (b_errs r).
Proof.
  intros toks tree t ns f s r St P H. eapply (tcB_no_scope_error f s [] [] t r); [|exact H].
  exact (accepted_terms_are_closed toks tree t ns St P).
Qed.
