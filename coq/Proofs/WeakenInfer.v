(* Weakening for the type checker `infer` of Oracle/Infer.v: inserting a block of entries B between
   the |L| innermost entries L of a context and the rest G, and shifting the term accordingly, gives
   the same verdict and the correspondingly shifted type, at every fuel. Continues
   Proofs/WeakenProofs.v (whnf / convb / nf). Hole-free terms and contexts. *)
From Coq Require Import List ZArith Lia Bool Arith Relations.
Import ListNotations.
Require Import Gram.Model.Term Gram.Model.DeBruijn Gram.Model.Eval Gram.Spec.Typing Gram.Oracle.Infer
  Gram.Proofs.DeBruijnLaws Gram.Proofs.CtxProofs Gram.Proofs.WeakenProofs Gram.Proofs.InferSound.

(* ---------- contexts whose stored types and definitions are hole-free ---------- *)
Definition entry_hf' (e : entry) : Prop := hole_free (fst (fst e)) = true /\ entry_hf e.
Definition ctx_hf' (G : ctx) : Prop := Forall entry_hf' G.

Lemma ctx_hf'_hf G : ctx_hf' G -> ctx_hf G.
Proof. intros H. eapply Forall_impl; [|exact H]. intros e [_ K]. exact K. Qed.

Lemma ctx_hf'_nil : ctx_hf' [].
Proof. constructor. Qed.

Lemma ctx_hf'_lookup_ty G i T : ctx_hf' G -> lookup_ty G i = Some T -> hole_free T = true.
Proof.
  intros H E. unfold lookup_ty in E. destruct (nth_error G i) as [[[T0 k] d]|] eqn:N; [|discriminate].
  injection E as <-. apply hole_free_ushift.
  unfold ctx_hf' in H. rewrite Forall_forall in H. exact (proj1 (H _ (nth_error_In _ _ N))).
Qed.

Lemma ctx_hf'_bind G A : hole_free A = true -> ctx_hf' G -> ctx_hf' (bind G A).
Proof. intros HA H. constructor; [split; [exact HA | exact I] | exact H]. Qed.

Lemma ctx_hf'_bind_app L G A : hole_free A = true -> ctx_hf' (L ++ G) -> ctx_hf' (bind L A ++ G).
Proof. intros HA H. exact (ctx_hf'_bind (L ++ G) A HA H). Qed.

Lemma ctx_hf'_push_group : forall ds n j G, hf_defs ds = true -> ctx_hf' G -> ctx_hf' (push_group n ds j G).
Proof.
  induction ds as [|[a d] r IH]; intros n j G H HG; cbn [push_group]; [exact HG|].
  unfold hf_defs in H. cbn [forallb] in H. apply andb_prop in H as [H1 H2]. apply andb_prop in H1 as [Fa Fd].
  apply IH; [exact H2|]. constructor; [split; [exact Fa | exact Fd] | exact HG].
Qed.

Lemma ctx_hf'_enter ds G : hf_defs ds = true -> ctx_hf' G -> ctx_hf' (enter ds G).
Proof. apply ctx_hf'_push_group. Qed.

Lemma ctx_hf'_app L G : ctx_hf' L -> ctx_hf' G -> ctx_hf' (L ++ G).
Proof. intros H1 H2. apply Forall_app; split; assumption. Qed.

(* ---------- the type of a group: hole-freeness and commutation with shifting ---------- *)
Lemma hf_defs_shift ds c n : hf_defs ds = true -> hf_defs (map (shp c n) ds) = true.
Proof.
  intros H. apply hf_defs_map. intros a d Hin. destruct (hf_defs_In _ _ _ H Hin) as [Fa Fd].
  cbn [shp fst snd]. split; apply hole_free_ushift; assumption.
Qed.

Lemma group_sh_eq ds n m : map (fun p : term * term => (ushift (fst p) n m, ushift (snd p) n m)) ds = map (shp n m) ds.
Proof. apply map_ext. intros [a d]. reflexivity. Qed.

Lemma hole_free_group_type : forall k n ds i acc, hf_defs ds = true -> hole_free acc = true ->
  hole_free (group_type n ds i k acc) = true.
Proof.
  induction k as [|k IH]; intros n ds i acc Hd Ha; cbn [group_type]; [exact Ha|].
  apply IH; [exact Hd|]. apply hole_free_open; [exact Ha|].
  cbn [hole_free]. rewrite andb_true_r. rewrite group_sh_eq. apply (hf_defs_shift ds n (n - 1 - i) Hd).
Qed.

Lemma group_type_shift : forall k n ds i acc c m,
  length ds = n -> i + k <= n -> hf_defs ds = true -> hole_free acc = true ->
  group_type n (map (shp (n + c) m) ds) i k (ushift acc ((n - i) + c) m) =
  ushift (group_type n ds i k acc) ((n - i - k) + c) m.
Proof.
  induction k as [|k IH]; intros n ds i acc c m Ln Hik Hd Ha; cbn [group_type].
  - now rewrite Nat.sub_0_r.
  - set (j := n - 1 - i). replace (n - i) with (S j) by lia. replace (S j - S k) with (n - S i - k) by lia.
    rewrite !group_sh_eq.
    assert (Hs : hole_free (TLet (map (shp n j) ds) (TVar i)) = true).
    { cbn [hole_free]. rewrite andb_true_r. apply (hf_defs_shift ds n j Hd). }
    rewrite <- (IH n ds (S i) (open acc 0 (TLet (map (shp n j) ds) (TVar i)) 0) c m Ln) by
      (auto using hole_free_open; lia).
    f_equal. replace (n - S i) with j by lia.
    cbn [Nat.add]. rewrite (ushift_open0 acc 0 _ (j + c) m Ha) by lia. f_equal.
    cbn [ushift]. rewrite !map_length, Ln. rewrite up_idx_lt by lia. f_equal.
    rewrite !map_map. apply map_ext. intros [a d]. cbn [shp].
    replace (n + (j + c)) with ((n + c) + j) by lia.
    rewrite !(ushift_comm _ n j (n + c) m) by lia. reflexivity.
Qed.

Corollary group_type_shift0 ds B c m : hf_defs ds = true -> hole_free B = true ->
  group_type (length ds) (map (shp (length ds + c) m) ds) 0 (length ds) (ushift B (length ds + c) m) =
  ushift (group_type (length ds) ds 0 (length ds) B) c m.
Proof.
  intros Hd HB. pose proof (group_type_shift (length ds) (length ds) ds 0 B c m eq_refl) as K.
  rewrite Nat.sub_0_r, Nat.sub_diag in K. apply K; auto.
Qed.

Lemma bin_ty_hole_free o : hole_free (bin_ty o) = true.
Proof. destruct o; reflexivity. Qed.
Lemma bin_ty_closed o c n : ushift (bin_ty o) c n = bin_ty o.
Proof. destruct o; reflexivity. Qed.

(* ---------- the checker returns hole-free types on hole-free input ---------- *)
Theorem infer_hole_free : forall f G t T, ctx_hf' G -> hole_free t = true -> infer f G t = Some T -> hole_free T = true.
Proof.
  induction f as [|f IH]; intros G t T HG Ht H; [discriminate|].
  destruct t as [i s| | | | | |z|i|im d b|im d b|a b|ds b|a|o a b|c a b]; cbn [infer] in H; cbn [hole_free] in Ht;
    try discriminate Ht; try (injection H as <-; reflexivity).
  - (* var *) eapply ctx_hf'_lookup_ty; eauto.
  - (* lam *)
    apply andb_prop in Ht as [Fd Fb].
    destruct (infer f G d) as [Td|]; [|discriminate].
    destruct (is_true (convb f G Td TType)); [|discriminate].
    destruct (infer f (bind G d) b) as [B|] eqn:E2; [|discriminate]. injection H as <-.
    cbn [hole_free]. rewrite Fd. cbn [andb]. eapply IH; [|exact Fb|exact E2]. apply ctx_hf'_bind; auto.
  - (* pi *)
    destruct (infer f G d) as [Td|]; [|discriminate].
    destruct (is_true (convb f G Td TType)); [|discriminate].
    destruct (infer f (bind G d) b) as [Tb|]; [|discriminate].
    destruct (is_true (convb f (bind G d) Tb TType)); [|discriminate]. injection H as <-. reflexivity.
  - (* app *)
    apply andb_prop in Ht as [Fa Fb].
    destruct (infer f G a) as [F|] eqn:E1; [|discriminate].
    pose proof (IH _ _ _ HG Fa E1) as FF.
    destruct (whnf f G F) as [w|] eqn:W; [|discriminate].
    pose proof (whnf_hole_free _ _ _ _ (ctx_hf'_hf _ HG) FF W) as Fw.
    destruct w as [ ? ? | | | | | | ? | ? | ? ? ? | im A B | ? ? | ? ? | ? | ? ? ? | ? ? ? ]; try discriminate H.
    destruct im; [discriminate|].
    destruct (infer f G b) as [A'|]; [|discriminate].
    destruct (is_true (convb f G A' A)); [|discriminate]. injection H as <-.
    cbn [hole_free] in Fw. apply andb_prop in Fw as [_ FB]. apply hole_free_open; auto.
  - (* let *)
    apply andb_prop in Ht as [Fd Fb].
    destruct (infer_defs (infer f (enter ds G)) (convb f (enter ds G)) ds); [|discriminate].
    destruct (infer f (enter ds G) b) as [B|] eqn:E; [|discriminate]. injection H as <-.
    apply hole_free_group_type; [exact Fd|].
    eapply IH; [|exact Fb|exact E]. apply ctx_hf'_enter; auto.
  - (* neg *)
    destruct (infer f G a) as [Ta|]; [|discriminate].
    destruct (is_true (convb f G Ta TInt)); [|discriminate]. injection H as <-. reflexivity.
  - (* bin *)
    destruct (infer f G a) as [Ta|]; [|discriminate].
    destruct (infer f G b) as [Tb|]; [|discriminate].
    destruct (is_true (convb f G Ta TInt) && is_true (convb f G Tb TInt)); [|discriminate].
    injection H as <-. apply bin_ty_hole_free.
  - (* if *)
    apply andb_prop in Ht as [Fca Fb]. apply andb_prop in Fca as [Fc Fa].
    destruct (infer f G c) as [Tc|]; [|discriminate].
    destruct (infer f G a) as [Ta|] eqn:E2; [|discriminate].
    destruct (infer f G b) as [Tb|]; [|discriminate].
    destruct (is_true (convb f G Tc TBool) && is_true (convb f G Tb Ta)); [|discriminate].
    injection H as <-. exact (IH _ _ _ HG Fa E2).
Qed.

(* ---------- checking the definitions of a group ---------- *)
Lemma infer_defs_map (inf inf' : term -> option term) (cv cv' : term -> term -> option bool) (g : term -> term) :
  forall l,
  (forall a d, In (a, d) l ->
     inf' (g a) = option_map g (inf a) /\ inf' (g d) = option_map g (inf d) /\
     (forall Ta, inf a = Some Ta -> cv' (g Ta) TType = cv Ta TType) /\
     (forall Td, inf d = Some Td -> cv' (g Td) (g a) = cv Td a)) ->
  infer_defs inf' cv' (map (fun p => let '(a, d) := p in (g a, g d)) l) = infer_defs inf cv l.
Proof.
  induction l as [|[a d] r IHl]; intros H; cbn [infer_defs map]; [reflexivity|].
  destruct (H a d (or_introl eq_refl)) as (E1 & E2 & C1 & C2). rewrite E1, E2.
  rewrite IHl by (intros a0 d0 Hin; apply H; right; exact Hin).
  destruct (inf a) as [Ta|]; cbn [option_map]; [|reflexivity].
  destruct (inf d) as [Td|]; cbn [option_map]; [|reflexivity].
  now rewrite (C1 _ eq_refl), (C2 _ eq_refl).
Qed.

Lemma infer_let_eq f G ds b :
  infer (S f) G (TLet ds b) =
  if infer_defs (infer f (enter ds G)) (convb f (enter ds G)) ds then
    match infer f (enter ds G) b with Some B => Some (group_type (length ds) ds 0 (length ds) B) | None => None end
  else None.
Proof. reflexivity. Qed.

Lemma ushift_let_eq ds b c n :
  ushift (TLet ds b) c n = TLet (map (shp (length ds + c) n) ds) (ushift b (length ds + c) n).
Proof. reflexivity. Qed.

(* ---------- the main theorem ---------- *)
Theorem infer_insert : forall B G, wf_offsets G -> forall f L t,
  wf_offsets L -> ctx_hf' (L ++ G) -> hole_free t = true ->
  infer f (insert_ctx L B G) (ushift t (length L) (length B)) =
  option_map (fun T => ushift T (length L) (length B)) (infer f (L ++ G) t).
Proof.
  intros B G WG. induction f as [|f IH]; intros L t WL HG Ht; [reflexivity|].
  pose proof (ctx_hf'_hf _ HG) as HG0.
  destruct t as [i s| | | | | |z|i|im d b|im d b|a b|ds b|a|o a b|c a b]; cbn [hole_free] in Ht;
    try discriminate Ht; try (cbn [ushift infer option_map]; reflexivity).
  - (* var *) cbn [ushift infer]. apply lookup_ty_insert; assumption.
  - (* lam *)
    cbn [ushift infer]. apply andb_prop in Ht as [Fd Fb]. rewrite (IH L d WL HG Fd).
    destruct (infer f (L ++ G) d) as [Td|] eqn:E1; cbn [option_map]; [|reflexivity].
    pose proof (infer_hole_free _ _ _ _ HG Fd E1) as FTd.
    pose proof (convb_insert B G WG f L Td TType WL HG0 FTd eq_refl) as K. cbn [ushift] in K. rewrite K; clear K.
    destruct (is_true (convb f (L ++ G) Td TType)); [|reflexivity].
    rewrite insert_ctx_bind.
    pose proof (IH (bind L d) b (wf_offsets_bind _ _ WL) (ctx_hf'_bind_app _ _ _ Fd HG) Fb) as K.
    change (length (bind L d)) with (S (length L)) in K. rewrite K; clear K.
    change (bind L d ++ G) with (bind (L ++ G) d).
    destruct (infer f (bind (L ++ G) d) b); reflexivity.
  - (* pi *)
    cbn [ushift infer]. apply andb_prop in Ht as [Fd Fb]. rewrite (IH L d WL HG Fd).
    destruct (infer f (L ++ G) d) as [Td|] eqn:E1; cbn [option_map]; [|reflexivity].
    pose proof (infer_hole_free _ _ _ _ HG Fd E1) as FTd.
    pose proof (convb_insert B G WG f L Td TType WL HG0 FTd eq_refl) as K. cbn [ushift] in K. rewrite K; clear K.
    destruct (is_true (convb f (L ++ G) Td TType)); [|reflexivity].
    assert (WL' : wf_offsets (bind L d)) by auto using wf_offsets_bind.
    assert (HG' : ctx_hf' (bind L d ++ G)) by auto using ctx_hf'_bind_app.
    rewrite insert_ctx_bind. pose proof (IH (bind L d) b WL' HG' Fb) as K.
    change (length (bind L d)) with (S (length L)) in K. rewrite K; clear K.
    change (bind (L ++ G) d) with (bind L d ++ G).
    destruct (infer f (bind L d ++ G) b) as [Tb|] eqn:E2; cbn [option_map]; [|reflexivity].
    pose proof (infer_hole_free _ _ _ _ HG' Fb E2) as FTb.
    pose proof (convb_insert B G WG f (bind L d) Tb TType WL' (ctx_hf'_hf _ HG') FTb eq_refl) as K.
    cbn [ushift] in K. change (length (bind L d)) with (S (length L)) in K. rewrite K; clear K.
    destruct (is_true (convb f (bind L d ++ G) Tb TType)); reflexivity.
  - (* app *)
    cbn [ushift infer]. apply andb_prop in Ht as [Fa Fb]. rewrite (IH L a WL HG Fa).
    destruct (infer f (L ++ G) a) as [F|] eqn:E1; cbn [option_map]; [|reflexivity].
    pose proof (infer_hole_free _ _ _ _ HG Fa E1) as FF.
    rewrite (whnf_insert B G WG f L F WL HG0 FF).
    destruct (whnf f (L ++ G) F) as [w|] eqn:W; cbn [option_map]; [|reflexivity].
    pose proof (whnf_hole_free _ _ _ _ HG0 FF W) as Fw.
    destruct w as [ ? ? | | | | | | ? | ? | ? ? ? | im A Bc | ? ? | ? ? | ? | ? ? ? | ? ? ? ]; cbn [ushift]; try reflexivity.
    destruct im; [reflexivity|].
    cbn [hole_free] in Fw. apply andb_prop in Fw as [FA FB].
    rewrite (IH L b WL HG Fb).
    destruct (infer f (L ++ G) b) as [A'|] eqn:E2; cbn [option_map]; [|reflexivity].
    pose proof (infer_hole_free _ _ _ _ HG Fb E2) as FA'.
    rewrite (convb_insert B G WG f L A' A WL HG0 FA' FA).
    destruct (is_true (convb f (L ++ G) A' A)); cbn [option_map]; [|reflexivity].
    f_equal. symmetry. apply ushift_open0; [exact FB | lia].
  - (* let *)
    apply andb_prop in Ht as [Fd Fb]. change (hf_defs ds = true) in Fd.
    rewrite ushift_let_eq, !infer_let_eq. rewrite map_length, <- insert_ctx_enter, enter_app.
    set (L' := enter ds L).
    assert (EL : length L' = length ds + length L) by apply enter_length.
    assert (WL' : wf_offsets L') by (apply wf_offsets_enter; exact WL).
    assert (HG' : ctx_hf' (L' ++ G)).
    { unfold L'. rewrite <- enter_app. apply ctx_hf'_enter; assumption. }
    pose proof (ctx_hf'_hf _ HG') as HG0'.
    assert (IH' : forall x, hole_free x = true ->
              infer f (insert_ctx L' B G) (ushift x (length ds + length L) (length B)) =
              option_map (fun T => ushift T (length ds + length L) (length B)) (infer f (L' ++ G) x)).
    { intros x Fx. rewrite <- EL. apply IH; assumption. }
    assert (CV : forall x y, hole_free x = true -> hole_free y = true ->
              convb f (insert_ctx L' B G) (ushift x (length ds + length L) (length B))
                    (ushift y (length ds + length L) (length B)) = convb f (L' ++ G) x y).
    { intros x y Fx Fy. rewrite <- EL. apply convb_insert; assumption. }
    unfold shp.
    rewrite (infer_defs_map (infer f (L' ++ G)) (infer f (insert_ctx L' B G))
               (convb f (L' ++ G)) (convb f (insert_ctx L' B G))
               (fun x => ushift x (length ds + length L) (length B)) ds).
    + destruct (infer_defs (infer f (L' ++ G)) (convb f (L' ++ G)) ds); [|reflexivity].
      rewrite (IH' b Fb).
      destruct (infer f (L' ++ G) b) as [Bt|] eqn:E; cbn [option_map]; [|reflexivity].
      f_equal. apply (group_type_shift0 ds Bt (length L) (length B)); [exact Fd|]. exact (infer_hole_free _ _ _ _ HG' Fb E).
    + intros a d Hin. destruct (hf_defs_In _ _ _ Fd Hin) as [Fa Fdd].
      split; [apply IH'; exact Fa|]. split; [apply IH'; exact Fdd|]. split.
      * intros Ta Ea. apply (CV Ta TType); [|reflexivity]. exact (infer_hole_free _ _ _ _ HG' Fa Ea).
      * intros Td Ed. apply CV; [|exact Fa]. exact (infer_hole_free _ _ _ _ HG' Fdd Ed).
  - (* neg *)
    cbn [ushift infer]. rewrite (IH L a WL HG Ht).
    destruct (infer f (L ++ G) a) as [Ta|] eqn:E1; cbn [option_map]; [|reflexivity].
    pose proof (infer_hole_free _ _ _ _ HG Ht E1) as FTa.
    pose proof (convb_insert B G WG f L Ta TInt WL HG0 FTa eq_refl) as K. cbn [ushift] in K. rewrite K; clear K.
    destruct (is_true (convb f (L ++ G) Ta TInt)); reflexivity.
  - (* bin *)
    cbn [ushift infer]. apply andb_prop in Ht as [Fa Fb]. rewrite (IH L a WL HG Fa), (IH L b WL HG Fb).
    destruct (infer f (L ++ G) a) as [Ta|] eqn:E1; cbn [option_map]; [|reflexivity].
    destruct (infer f (L ++ G) b) as [Tb|] eqn:E2; cbn [option_map]; [|reflexivity].
    pose proof (infer_hole_free _ _ _ _ HG Fa E1) as FTa. pose proof (infer_hole_free _ _ _ _ HG Fb E2) as FTb.
    pose proof (convb_insert B G WG f L Ta TInt WL HG0 FTa eq_refl) as K. cbn [ushift] in K. rewrite K; clear K.
    pose proof (convb_insert B G WG f L Tb TInt WL HG0 FTb eq_refl) as K. cbn [ushift] in K. rewrite K; clear K.
    destruct (is_true (convb f (L ++ G) Ta TInt) && is_true (convb f (L ++ G) Tb TInt)); cbn [option_map]; [|reflexivity].
    now rewrite bin_ty_closed.
  - (* if *)
    cbn [ushift infer]. apply andb_prop in Ht as [Fca Fb]. apply andb_prop in Fca as [Fc Fa].
    rewrite (IH L c WL HG Fc), (IH L a WL HG Fa), (IH L b WL HG Fb).
    destruct (infer f (L ++ G) c) as [Tc|] eqn:E1; cbn [option_map]; [|reflexivity].
    destruct (infer f (L ++ G) a) as [Ta|] eqn:E2; cbn [option_map]; [|reflexivity].
    destruct (infer f (L ++ G) b) as [Tb|] eqn:E3; cbn [option_map]; [|reflexivity].
    pose proof (infer_hole_free _ _ _ _ HG Fc E1) as FTc. pose proof (infer_hole_free _ _ _ _ HG Fa E2) as FTa.
    pose proof (infer_hole_free _ _ _ _ HG Fb E3) as FTb.
    pose proof (convb_insert B G WG f L Tc TBool WL HG0 FTc eq_refl) as K. cbn [ushift] in K. rewrite K; clear K.
    rewrite (convb_insert B G WG f L Tb Ta WL HG0 FTb FTa).
    destruct (is_true (convb f (L ++ G) Tc TBool) && is_true (convb f (L ++ G) Tb Ta)); reflexivity.
Qed.

(* ---------- special cases ---------- *)
Corollary infer_weaken B G f t : wf_offsets G -> ctx_hf' G -> hole_free t = true ->
  infer f (B ++ G) (ushift t 0 (length B)) = option_map (fun T => ushift T 0 (length B)) (infer f G t).
Proof. intros WG HG Ht. exact (infer_insert B G WG f [] t wf_offsets_nil HG Ht). Qed.

(* the closed program versus the same term under an arbitrary context (no condition on B) *)
Corollary infer_closed_under B f t : hole_free t = true ->
  infer f B (ushift t 0 (length B)) = option_map (fun T => ushift T 0 (length B)) (infer f [] t).
Proof.
  intros Ht. rewrite <- (app_nil_r B) at 1. apply infer_weaken; [apply wf_offsets_nil | apply ctx_hf'_nil | exact Ht].
Qed.

(* the group rule's shape: checking inside a group that was itself shifted *)
Corollary infer_insert_enter B G f ds L t :
  wf_offsets G -> wf_offsets L -> ctx_hf' (L ++ G) -> hf_defs ds = true -> hole_free t = true ->
  infer f (enter (map (shp (length ds + length L) (length B)) ds) (insert_ctx L B G))
          (ushift t (length ds + length L) (length B)) =
  option_map (fun u => ushift u (length ds + length L) (length B)) (infer f (enter ds (L ++ G)) t).
Proof.
  intros WG WL HG Hd Ht. rewrite <- insert_ctx_enter, enter_app, <- enter_length.
  apply infer_insert; auto using wf_offsets_enter.
  rewrite <- enter_app. apply ctx_hf'_enter; auto.
Qed.

(* ---------- Goal 2: the declarative counterpart, through soundness of the checker ---------- *)
Theorem infer_insert_has_type B G f L t T :
  wf_offsets G -> wf_offsets L -> ctx_hf' (L ++ G) -> hole_free t = true ->
  infer f (L ++ G) t = Some T ->
  has_type (insert_ctx L B G) (ushift t (length L) (length B)) (ushift T (length L) (length B)).
Proof.
  intros WG WL HG Ht H. apply (infer_sound f). rewrite (infer_insert B G WG f L t WL HG Ht), H. reflexivity.
Qed.

Corollary infer_weaken_has_type B G f t T : wf_offsets G -> ctx_hf' G -> hole_free t = true ->
  infer f G t = Some T -> has_type (B ++ G) (ushift t 0 (length B)) (ushift T 0 (length B)).
Proof. intros WG HG Ht H. exact (infer_insert_has_type B G f [] t T WG wf_offsets_nil HG Ht H). Qed.

Corollary infer_closed_under_has_type B f t T : hole_free t = true ->
  infer f [] t = Some T -> has_type B (ushift t 0 (length B)) (ushift T 0 (length B)).
Proof.
  intros Ht H. apply (infer_sound f). rewrite (infer_closed_under B f t Ht), H. reflexivity.
Qed.

(* one-step reduction and reduction sequences of hole-free terms are preserved by the insertion
   (the ingredient a direct weakening proof for `has_type` would need for its conversion rule) *)
Lemma red_hole_free G a b : ctx_hf G -> red G a b -> hole_free a = true -> hole_free b = true.
Proof.
  intros HG R. induction R; cbn [hole_free]; intros Ha;
    repeat match goal with H : _ && _ = true |- _ => apply andb_prop in H as [? ?] end;
    rewrite ?IHR by assumption; auto.
  - apply hole_free_open; auto.
  - eapply ctx_hf_lookup; eauto.
  - apply hole_free_let_whnf_body; auto.
  - eapply arith_hole_free; eauto.
  - repeat match goal with H : hole_free ?x = true |- context[hole_free ?x] => rewrite H end; reflexivity.
  - repeat match goal with H : hole_free ?x = true |- context[hole_free ?x] => rewrite H end; reflexivity.
Qed.

Lemma red_insert B G : wf_offsets G -> forall L a b, wf_offsets L -> hole_free a = true ->
  red (L ++ G) a b ->
  red (insert_ctx L B G) (ushift a (length L) (length B)) (ushift b (length L) (length B)).
Proof.
  intros WG L a b WL Ha R. induction R; cbn [hole_free] in Ha;
    repeat match goal with H : _ && _ = true |- _ => apply andb_prop in H as [? ?] end.
  - rewrite ushift_open0 by (auto; lia). cbn [ushift]. apply r_beta.
  - cbn [ushift]. apply r_delta. rewrite lookup_def_insert by assumption. rewrite H. reflexivity.
  - rewrite <- (let_whnf_body_shift ds b (length L) (length B)) by assumption. exact (r_let _ _ _).
  - cbn [ushift]. apply r_neg.
  - rewrite (arith_closed _ _ _ _ (length L) (length B) H). cbn [ushift]. apply r_bin. exact H.
  - cbn [ushift]. apply r_if_t.
  - cbn [ushift]. apply r_if_f.
  - cbn [ushift]. apply r_app1. auto.
  - cbn [ushift]. apply r_neg1. auto.
  - cbn [ushift]. apply r_bin1. auto.
  - cbn [ushift]. apply r_bin2. auto.
  - cbn [ushift]. apply r_if1. auto.
Qed.

Lemma rstar_insert B G : wf_offsets G -> forall L a b, wf_offsets L -> ctx_hf (L ++ G) ->
  rstar (L ++ G) a b -> hole_free a = true ->
  rstar (insert_ctx L B G) (ushift a (length L) (length B)) (ushift b (length L) (length B)) /\ hole_free b = true.
Proof.
  intros WG L a b WL HG R. induction R as [x y R| |x y z R1 IH1 R2 IH2]; intros Ha.
  - split; [apply rt_step, red_insert; assumption | eapply red_hole_free; eauto].
  - split; [apply rt_refl | exact Ha].
  - destruct (IH1 Ha) as [S1 Hy]. destruct (IH2 Hy) as [S2 Hz]. split; [eapply rt_trans; eauto | exact Hz].
Qed.

(* ---------- Goal 3: strengthening ---------- *)
(* "t does not mention the variables of the inserted block", two formulations: the downward signed
   shift of src/de_bruijn.rs succeeds / t is an upward shift. They are equivalent. *)
Theorem sshift_down_iff t c n u : sshift t c (- Z.of_nat n) = Some u <-> t = ushift u c n.
Proof.
  split.
  - intros H. pose proof (sshift_compose t c _ _ u _ H (ushift_total u c n)) as K.
    replace (- Z.of_nat n + Z.of_nat n)%Z with 0%Z in K by lia. rewrite sshift_zero in K. now injection K.
  - intros ->. apply sshift_down_up.
Qed.

(* and a third: no variable of the block occurs (for hole-free terms) *)
Theorem unshiftable_iff_absent t c n : hole_free t = true ->
  ((exists u, t = ushift u c n) <-> forall v, occurs t c v = true -> n <= v).
Proof.
  intros Hf. split.
  - intros [u E] v Ho. apply (proj2 (sshift_down_iff t c n u)) in E. eapply sshift_down_sound; eauto.
  - intros H. destruct (sshift_down_complete t c n Hf H) as [u E]. exists u. now apply sshift_down_iff.
Qed.

Lemma hole_free_ushift_eq : forall t c n, hole_free (ushift t c n) = hole_free t.
Proof.
  induction t using term_ind'; intros c n; cbn [hole_free ushift]; rewrite ?IHt1, ?IHt2, ?IHt3, ?IHt; try reflexivity.
  f_equal. generalize (length ds + c). intros c'.
  induction H as [|[a d] r [Ha Hd] _ IHr]; cbn [map forallb]; [reflexivity|].
  cbn [fst snd] in *. now rewrite Ha, Hd, IHr.
Qed.

(* the same for the innermost part of a context *)
Definition unshift_entry (r n : nat) (e : entry) : option entry :=
  let '(T, k, d) := e in
  T0 <- sshift T (r + k) (- Z.of_nat n) ;;
  d0 <- match d with Some x => (x0 <- sshift x (r + k) (- Z.of_nat n) ;; Some (Some x0)) | None => Some None end ;;
  Some (T0, k, d0).
Fixpoint unshift_ctx (L : ctx) (n : nat) : option ctx :=
  match L with
  | [] => Some []
  | e :: L0 => e0 <- unshift_entry (length L0) n e ;; L0' <- unshift_ctx L0 n ;; Some (e0 :: L0')
  end.

Lemma unshift_entry_iff r n e e0 : unshift_entry r n e = Some e0 <-> e = shift_entry r n e0.
Proof.
  destruct e as [[T k] d], e0 as [[T0 k0] d0]. unfold unshift_entry, shift_entry. split.
  - intros H. inv_bind H. inv_bind H. injection H as <- <- <-.
    apply sshift_down_iff in E. subst T. destruct d as [x|].
    + inv_bind E0. injection E0 as <-. apply sshift_down_iff in E. subst x. reflexivity.
    + injection E0 as <-. reflexivity.
  - intros [= -> <- ->]. rewrite sshift_down_up. cbn [obind]. destruct d0 as [x|]; cbn [option_map obind].
    + rewrite sshift_down_up. reflexivity.
    + reflexivity.
Qed.

Theorem unshift_ctx_iff : forall L' n L, unshift_ctx L' n = Some L <-> L' = shift_ctx L n.
Proof.
  induction L' as [|e L0 IH]; intros n L; cbn [unshift_ctx]; split.
  - intros [= <-]. reflexivity.
  - destruct L; [reflexivity | discriminate].
  - intros H. inv_bind H. inv_bind H. injection H as <-. apply IH in E0. subst L0.
    rewrite shift_ctx_length in E. apply unshift_entry_iff in E. subst e. reflexivity.
  - destruct L as [|e0 L1]; [discriminate|]. cbn [shift_ctx]. intros [= -> ->].
    rewrite shift_ctx_length. rewrite (proj2 (unshift_entry_iff _ _ _ _) eq_refl). cbn [obind].
    rewrite (proj2 (IH n L1) eq_refl). reflexivity.
Qed.

Lemma wf_offsets_shift_ctx L n : wf_offsets (shift_ctx L n) -> wf_offsets L.
Proof.
  intros W i T k d E. apply (W i (ushift T (length L - S i + k) n) k (option_map (fun x => ushift x (length L - S i + k) n) d)).
  rewrite nth_error_shift_ctx, E. reflexivity.
Qed.

Lemma ctx_hf'_shift_ctx : forall L n, ctx_hf' (shift_ctx L n) -> ctx_hf' L.
Proof.
  induction L as [|[[T k] d] L IH]; intros n H; [constructor|]. cbn [shift_ctx shift_entry] in H.
  inversion H as [|e l [H1 H2] H3]; subst. constructor; [|eapply IH; eauto].
  cbn [fst snd] in *. split; [now rewrite hole_free_ushift_eq in H1|].
  unfold entry_hf in *. cbn [snd] in *. destruct d as [x|]; cbn [option_map] in *; [|exact I].
  now rewrite hole_free_ushift_eq in H2.
Qed.

(* Strengthening for the checker. If neither the innermost entries L' nor the term mention the
   variables of the block B, then checking under L' ++ B ++ G is checking the down-shifted term
   under the down-shifted context without B: same verdict, and the type does not mention B either. *)
Theorem infer_strengthen_eq B G f L' L t t0 :
  wf_offsets G -> wf_offsets L' -> ctx_hf' L' -> ctx_hf' G -> hole_free t = true ->
  unshift_ctx L' (length B) = Some L ->
  sshift t (length L') (- Z.of_nat (length B)) = Some t0 ->
  infer f (L' ++ B ++ G) t = option_map (fun T0 => ushift T0 (length L') (length B)) (infer f (L ++ G) t0).
Proof.
  intros WG WL' HL' HG Ht EL Et. apply unshift_ctx_iff in EL. subst L'. apply sshift_down_iff in Et. subst t.
  rewrite shift_ctx_length in *. rewrite hole_free_ushift_eq in Ht.
  apply (infer_insert B G WG f L t0); [eapply wf_offsets_shift_ctx; eauto | | exact Ht].
  apply ctx_hf'_app; [eapply ctx_hf'_shift_ctx; eauto | exact HG].
Qed.

Theorem infer_strengthen B G f L' L t t0 T :
  wf_offsets G -> wf_offsets L' -> ctx_hf' L' -> ctx_hf' G -> hole_free t = true ->
  unshift_ctx L' (length B) = Some L ->
  sshift t (length L') (- Z.of_nat (length B)) = Some t0 ->
  infer f (L' ++ B ++ G) t = Some T ->
  exists T0, infer f (L ++ G) t0 = Some T0 /\ sshift T (length L') (- Z.of_nat (length B)) = Some T0.
Proof.
  intros WG WL' HL' HG Ht EL Et H.
  rewrite (infer_strengthen_eq B G f L' L t t0 WG WL' HL' HG Ht EL Et) in H.
  destruct (infer f (L ++ G) t0) as [T0|]; [|discriminate]. injection H as <-.
  exists T0. split; [reflexivity | apply sshift_down_up].
Qed.

(* L' = []: dropping unused outer entries in front of G *)
Corollary infer_strengthen0 B G f t t0 T :
  wf_offsets G -> ctx_hf' G -> hole_free t = true ->
  sshift t 0 (- Z.of_nat (length B)) = Some t0 ->
  infer f (B ++ G) t = Some T ->
  exists T0, infer f G t0 = Some T0 /\ sshift T 0 (- Z.of_nat (length B)) = Some T0.
Proof.
  intros WG HG Ht Et H.
  exact (infer_strengthen B G f [] [] t t0 T WG wf_offsets_nil ctx_hf'_nil HG Ht eq_refl Et H).
Qed.

(* declarative consequence through soundness *)
Corollary infer_strengthen_has_type B G f L' L t t0 T :
  wf_offsets G -> wf_offsets L' -> ctx_hf' L' -> ctx_hf' G -> hole_free t = true ->
  unshift_ctx L' (length B) = Some L ->
  sshift t (length L') (- Z.of_nat (length B)) = Some t0 ->
  infer f (L' ++ B ++ G) t = Some T ->
  exists T0, has_type (L ++ G) t0 T0 /\ T = ushift T0 (length L') (length B).
Proof.
  intros WG WL' HL' HG Ht EL Et H.
  destruct (infer_strengthen B G f L' L t t0 T WG WL' HL' HG Ht EL Et H) as (T0 & H0 & E).
  exists T0. split; [eapply infer_sound; eauto | now apply sshift_down_iff].
Qed.

(* ---------- non-vacuity ---------- *)
(* G: a type variable A, then the group  id : (X : type) -> X -> X = ..;  x : int = 5.
   L: one binder y : A.  B: two entries (one with a definition) inserted between L and G.
   t1: a group z : A = y with body  id A z  (application, group, type depends on the context).
   t2: a function whose body is a group and a higher-order application; its type mentions A.
   t3: an ill-typed application, rejected on both sides. *)
Example infer_insert_example :
  let G := enter [(TPi false TType (TPi false (TVar 0) (TVar 1)), TLam false TType (TLam false (TVar 0) (TVar 0)));
                  (TInt, TLit 5)] (bind [] TType) in
  let L := bind [] (TVar 2) in
  let B := [(TBool, 0, None); (TInt, 1, Some (TLit 7))] in
  let t1 := TLet [(TVar 4, TVar 1)] (TApp (TApp (TVar 3) (TVar 4)) (TVar 0)) in
  let t2 := TLam false TInt (TLet [(TVar 5, TVar 2)]
              (TApp (TApp (TVar 4) (TPi false (TVar 5) TInt)) (TLam false (TVar 5) (TBin OSum (TVar 4) (TVar 2))))) in
  let t3 := TApp (TVar 1) (TVar 0) in
  wf_offsets G /\ wf_offsets L /\ ctx_hf' (L ++ G) /\
  hole_free t1 = true /\ hole_free t2 = true /\ hole_free t3 = true /\
  ushift t1 1 2 = TLet [(TVar 6, TVar 1)] (TApp (TApp (TVar 5) (TVar 6)) (TVar 0)) /\
  infer 40 (L ++ G) t1 = Some (TVar 3) /\
  infer 40 (insert_ctx L B G) (ushift t1 1 2) = Some (TVar 5) /\
  infer 40 (L ++ G) t2 = Some (TPi false TInt (TPi false (TVar 4) TInt)) /\
  infer 40 (insert_ctx L B G) (ushift t2 1 2) = Some (TPi false TInt (TPi false (TVar 6) TInt)) /\
  infer 40 (L ++ G) t3 = None /\
  infer 40 (insert_ctx L B G) (ushift t3 1 2) = None /\
  (* strengthening: the shifted context and term are recognised and shifted back *)
  unshift_ctx (shift_ctx L 2) 2 = Some L /\
  sshift (ushift t2 1 2) 1 (-2) = Some t2 /\
  sshift (TPi false TInt (TPi false (TVar 6) TInt)) 1 (-2) = Some (TPi false TInt (TPi false (TVar 4) TInt)) /\
  (* a term that does mention the block is not *)
  sshift (TApp (TVar 2) (TVar 0)) 1 (-2) = None.
Proof.
  cbv zeta. repeat split; try (vm_compute; reflexivity).
  - apply wf_offsets_enter, wf_offsets_bind, wf_offsets_nil.
  - apply wf_offsets_bind, wf_offsets_nil.
  - repeat constructor.
Qed.

(* the instance of the theorem for the example, obtained from the theorem and not by computation *)
Example infer_insert_example_by_theorem :
  let G := enter [(TPi false TType (TPi false (TVar 0) (TVar 1)), TLam false TType (TLam false (TVar 0) (TVar 0)));
                  (TInt, TLit 5)] (bind [] TType) in
  let L := bind [] (TVar 2) in
  forall B f,
  infer f (insert_ctx L B G)
    (ushift (TLet [(TVar 4, TVar 1)] (TApp (TApp (TVar 3) (TVar 4)) (TVar 0))) 1 (length B)) =
  option_map (fun T => ushift T 1 (length B))
    (infer f (L ++ G) (TLet [(TVar 4, TVar 1)] (TApp (TApp (TVar 3) (TVar 4)) (TVar 0)))).
Proof.
  cbv zeta. intros B f.
  apply (infer_insert B _ (wf_offsets_enter _ _ (wf_offsets_bind _ _ wf_offsets_nil)) f (bind [] (TVar 2))).
  - apply wf_offsets_bind, wf_offsets_nil.
  - repeat constructor.
  - reflexivity.
Qed.

(* the stored types must be hole-free as well (ctx_hf alone is not enough): the checker returns a
   stored type, `open` adjusts the hole's own shift without regard to the cutoff *)
Example type_hole_free_needed :
  let G := [(TPi false TInt (THole 0 0), 0, None)] in
  let B := [(TInt, 0, None)] in
  let t := TApp (TVar 0) (TLit 1) in
  wf_offsets G /\ ctx_hf G /\ hole_free t = true /\
  infer 5 (B ++ G) (ushift t 0 (length B)) = Some (THole 0 0) /\
  option_map (fun T => ushift T 0 (length B)) (infer 5 G t) = Some (THole 0 1).
Proof.
  cbv zeta. repeat split; try (vm_compute; reflexivity).
  - intros [|[|i]] T k d E; cbn in E; try discriminate. injection E as <- <- <-. lia.
  - repeat constructor.
Qed.

Print Assumptions group_type_shift.
Print Assumptions infer_hole_free.
Print Assumptions infer_insert.
Print Assumptions infer_weaken.
Print Assumptions infer_closed_under.
Print Assumptions infer_insert_enter.
Print Assumptions infer_insert_has_type.
Print Assumptions infer_weaken_has_type.
Print Assumptions infer_closed_under_has_type.
Print Assumptions red_insert.
Print Assumptions rstar_insert.
Print Assumptions sshift_down_iff.
Print Assumptions unshiftable_iff_absent.
Print Assumptions unshift_ctx_iff.
Print Assumptions infer_strengthen_eq.
Print Assumptions infer_strengthen.
Print Assumptions infer_strengthen0.
Print Assumptions infer_strengthen_has_type.
Print Assumptions infer_insert_example.
Print Assumptions infer_insert_example_by_theorem.
Print Assumptions type_hole_free_needed.
