(* Discharging `holes_ok` (TcSoundHoles.v) for the holes that unification SOLVED, on the simply typed fragment.

   tcN_sound_gen asks of the completion that the terms standing at the user's holes are types.  For cells that stay
   unsolved that is "the filler is a type"; for solved cells it is a property of the run.  Here it is PROVED for the
   fragment `simple`: variables, literals, arithmetic, comparisons, conditionals, applications, functions and
   definition groups whose annotations are omitted (`_`) or base types (type, int, bool, arrows over them); no type
   is used as a term and no hole stands for a term - i.e. every hole is in a position whose expected type the checker
   compares with `type`, and no dependent type is involved.

   Invariant: every type the checker computes and every solution it records is in `bt` (type | int | bool | cell |
   arrow over these): sshiftN_bt, openN_bt, whnfN_bt, unifyN_J, tcN_simple.  A `bt` term zonks, in a store whose
   solutions are all `bt` and whose unsolved cells are filled with a base type, to a base type (zk_bt_base), which is a
   type in every context (has_type_base).  Hence tcN_sound_simple: UNCONDITIONAL soundness on the fragment. *)
From Coq Require Import List ZArith NArith Lia Bool Arith Relations.
Import ListNotations.
Require Import Gram.Model.Term Gram.Model.DeBruijn Gram.Model.Eval Gram.Model.ModelB Gram.Spec.Typing Gram.Oracle.Infer.
Require Import Gram.Proofs.DeBruijnLaws Gram.Proofs.ModelBProofs Gram.Proofs.StoreProofs Gram.Proofs.StoreTc Gram.Proofs.ModelBHoleFree.
Require Import Gram.Proofs.TcSoundHF Gram.Proofs.ScopeStore Gram.Proofs.ConvConsistent Gram.Proofs.AcyclicProofs Gram.Proofs.AcyclicTc.
Require Import Gram.Proofs.UnifyConsistent Gram.Proofs.TcSoundHoles.

(* ================= the simply typed fragment with holes: holes_ok holds by itself ================= *)
(* types of the fragment: type, int, bool, function types over them - and cells *)
Fixpoint bt (t : term) : bool :=
  match t with
  | TType | TInt | TBool | THole _ _ => true
  | TPi _ a b => bt a && bt b
  | _ => false
  end.
(* every recorded solution is such a type *)
Definition J (s : storeB) : Prop := forall id sol, sget s id = Some sol -> bt sol = true.

Lemma base_bt : forall v, base_ty v = true -> bt v = true.
Proof. induction v; intros Hb; cbn [base_ty bt] in *; try discriminate; try reflexivity. apply andb_prop in Hb as [A B]. now rewrite IHv1, IHv2. Qed.

Lemma J_snoc s : J s -> J (s ++ [None]).
Proof. intros Js id sol E. assert (Gr : grow s (s ++ [None])) by (exists 1; reflexivity). rewrite (grow_sget _ _ id Gr) in E. eauto. Qed.

Lemma J_sset s id sol : J s -> bt sol = true -> J (sset s id sol).
Proof.
  intros Js Hb j x E. destruct (Nat.eq_dec j id) as [->|Ne].
  - apply ScopeStore.sget_sset_same in E. now subst x.
  - rewrite sget_sset_other in E by exact Ne. eauto.
Qed.

Lemma J_fill v s : J s -> base_ty v = true -> J (fill v s).
Proof.
  intros Js Hv id sol E. rewrite sget_fill in E. destruct (nth_error s id) as [[t|]|] eqn:En; try discriminate; injection E as <-.
  - apply (Js id). unfold sget. now rewrite En.
  - now apply base_bt.
Qed.

(* ---------- the operations stay inside the fragment ---------- *)
Theorem sshiftN_bt : forall f s t c z t', J s -> bt t = true -> sshiftN f s t c z = Some (Some t') -> bt t' = true.
Proof.
  induction f as [|f IH]; intros s t c z t' Js Hb E; [discriminate|].
  destruct t; cbn [bt] in Hb; try discriminate Hb; cbn [sshiftN] in E; cbv beta zeta in E.
  - destruct (sget s id) as [sol|] eqn:G.
    + destruct (sshiftN f s sol 0 (Z.of_nat shift)) as [[sol'|]|] eqn:A; try discriminate.
      exact (IH _ _ _ _ _ Js (IH _ _ _ _ _ Js (Js _ _ G) A) E).
    + destruct (Nat.ltb shift c); [discriminate|]. destruct (shift_idx shift c z); [|discriminate]. injection E as <-. reflexivity.
  - injection E as <-. reflexivity.
  - injection E as <-. reflexivity.
  - injection E as <-. reflexivity.
  - apply andb_prop in Hb as [B1 B2].
    destruct (sshiftN f s t1 c z) as [[x|]|] eqn:A; try discriminate; destruct (sshiftN f s t2 (S c) z) as [[y|]|] eqn:B; try discriminate.
    injection E as <-. cbn [bt]. now rewrite (IH _ _ _ _ _ Js B1 A), (IH _ _ _ _ _ Js B2 B).
Qed.

Lemma ushiftN_bt f s t c n t' : J s -> bt t = true -> ushiftN f s t c n = Some t' -> bt t' = true.
Proof.
  unfold ushiftN. intros Js Hb E. destruct (sshiftN f s t c (Z.of_nat n)) as [[x|]|] eqn:A; try discriminate. injection E as <-.
  exact (sshiftN_bt _ _ _ _ _ _ Js Hb A).
Qed.

(* a type of the fragment has no variable: `open` never inserts its argument *)
Theorem openN_bt : forall f s t i x k t', J s -> bt t = true -> openN f s t i x k = Some t' -> bt t' = true.
Proof.
  induction f as [|f IH]; intros s t i x k t' Js Hb E; [discriminate|].
  destruct t; cbn [bt] in Hb; try discriminate Hb; cbn [openN] in E.
  - destruct (sget s id) as [sol|] eqn:G; [|discriminate].
    destruct (ushiftN f s sol 0 shift) as [sol'|] eqn:A; [|discriminate].
    exact (IH _ _ _ _ _ _ Js (ushiftN_bt _ _ _ _ _ _ Js (Js _ _ G) A) E).
  - injection E as <-. reflexivity.
  - injection E as <-. reflexivity.
  - injection E as <-. reflexivity.
  - apply andb_prop in Hb as [B1 B2].
    destruct (openN f s t1 i x k) as [a|] eqn:A; [|discriminate]. destruct (openN f s t2 (S i) x (S k)) as [b|] eqn:B; [|discriminate].
    injection E as <-. cbn [bt]. now rewrite (IH _ _ _ _ _ _ Js B1 A), (IH _ _ _ _ _ _ Js B2 B).
Qed.

Theorem whnfN_bt : forall f s D t w, J s -> bt t = true -> whnfN f s D t = Some w -> bt w = true.
Proof.
  induction f as [|f IH]; intros s D t w Js Hb E; [discriminate|].
  destruct t; cbn [bt] in Hb; try discriminate Hb; cbn [whnfN] in E; try (injection E as <-; exact Hb).
  destruct (sget s id) as [sol|] eqn:G; [|injection E as <-; reflexivity].
  destruct (ushiftN f s sol 0 shift) as [sol'|] eqn:A; [|discriminate].
  exact (IH _ _ _ _ Js (ushiftN_bt _ _ _ _ _ _ Js (Js _ _ G) A) E).
Qed.

Definition rec_J (rec : storeB -> dctx -> term -> term -> option (bool * storeB)) : Prop :=
  forall s D a b ok s', J s -> bt a = true -> bt b = true -> rec s D a b = Some (ok, s') -> J s'.

Ltac solveJ_tac E Js B1 B2 :=
  lazymatch type of E with
  | match sshiftN ?f ?s ?o 0 ?z with _ => _ end = _ =>
      let S1 := fresh "S1" in let sol := fresh "sol" in
      destruct (sshiftN f s o 0 z) as [[sol|]|] eqn:S1;
      [ lazymatch type of E with
        | match occursB ?f ?s ?id ?o with _ => _ end = _ =>
            destruct (occursB f s id o) as [[|]|];
            [ injection E as _ <-; exact Js
            | injection E as _ <-; apply J_sset; [exact Js|];
              first [ exact (sshiftN_bt _ _ _ _ _ _ Js B1 S1) | exact (sshiftN_bt _ _ _ _ _ _ Js B2 S1) ]
            | discriminate E ]
        end
      | solveJ_tac E Js B1 B2
      | discriminate E ]
  | Some _ = Some _ => injection E as _ <-; exact Js
  end.

Lemma unify_headP_J f rec : rec_J rec ->
  forall s D w1 w2 ok s', J s -> bt w1 = true -> bt w2 = true ->
    unify_headP (sshiftN f) f rec s D w1 w2 = Some (ok, s') -> J s'.
Proof.
  intros Rk s D w1 w2 ok s' Js B1 B2 E.
  destruct w1; try discriminate B1; destruct w2; try discriminate B2; cbv beta iota zeta delta [unify_headP] in E;
    try (solveJ_tac E Js B1 B2; fail).
  - destruct (Nat.eqb id id0 && Nat.eqb shift shift0); [injection E as _ <-; exact Js|]. solveJ_tac E Js B1 B2.
  - cbn [bt] in B1, B2. apply andb_prop in B1 as [A1 C1]. apply andb_prop in B2 as [A2 C2].
    destruct (Bool.eqb impl impl0); [|injection E as _ <-; exact Js].
    destruct (rec s D w1_1 w2_1) as [[u sa]|] eqn:R1; [|discriminate E].
    pose proof (Rk _ _ _ _ _ _ Js A1 A2 R1) as Js1.
    destruct u; [|injection E as _ <-; exact Js1]. exact (Rk _ _ _ _ _ _ Js1 C1 C2 E).
Qed.

Theorem unifyN_J : forall f, rec_J (unifyN f).
Proof.
  induction f as [|f IH]; intros s D a b ok s' Js Ba Bb E; [discriminate|].
  cbn [unifyN] in E. unfold unify_bodyN in E.
  destruct (syn_eqN f s a b) as [[|]|]; [injection E as _ <-; exact Js | | discriminate].
  destruct (whnfN f s D a) as [w1|] eqn:E1; [|discriminate].
  destruct (whnfN f s D b) as [w2|] eqn:E2; [|discriminate].
  exact (unify_headP_J f (unifyN f) IH s D w1 w2 ok s' Js (whnfN_bt _ _ _ _ _ Js Ba E1) (whnfN_bt _ _ _ _ _ Js Bb E2) E).
Qed.

Lemma expectN_J f s D a w e es s' es' : J s -> bt a = true -> bt w = true -> expectN f s D a w e es = Some (s', es') -> J s'.
Proof.
  unfold expectN. intros Js Ba Bw E. destruct (unifyN f s D a w) as [[ok s1]|] eqn:U; [|discriminate]. injection E as <- _.
  exact (unifyN_J _ _ _ _ _ _ _ Js Ba Bw U).
Qed.

(* unifying `type` with `type` does not touch the store *)
Lemma expectN_type_type f s D e es s' es' : expectN f s D TType TType e es = Some (s', es') -> s' = s.
Proof.
  unfold expectN. destruct (unifyN f s D TType TType) as [[ok s1]|] eqn:U; [|discriminate]. intros E. injection E as <- _.
  destruct f as [|f]; [discriminate|]. cbn [unifyN] in U. unfold unify_bodyN in U.
  destruct (syn_eqN f s TType TType) as [[|]|]; [now injection U as _ <- | | discriminate].
  destruct f as [|f]; [discriminate|]. cbn [whnfN] in U. cbv beta iota zeta delta [unify_headP] in U. now injection U as _ <-.
Qed.

(* ---------- the programs of the fragment ---------- *)
Definition is_holeb (t : term) : bool := match t with THole _ _ => true | _ => false end.
(* an annotation: omitted (`_`) or a base type *)
Definition annot (d : term) : bool := is_holeb d || base_ty d.
(* the simply typed programs: variables, literals, arithmetic, comparison, conditionals, functions whose binder
   annotation is omitted or a base type, applications, definition groups whose annotations are omitted or base types.
   No type is used as a term, no hole stands for a term. *)
Fixpoint simple (t : term) : bool :=
  match t with
  | TVar _ | TLit _ | TTrue | TFalse => true
  | TLam _ d b => annot d && simple b
  | TApp a b | TBin _ a b => simple a && simple b
  | TLet ds b => forallb (fun p => annot (fst p) && simple (snd p)) ds && simple b
  | TNeg a => simple a
  | TIf c a b => simple c && simple a && simple b
  | _ => false
  end.

Lemma annot_bt d : annot d = true -> bt d = true.
Proof. unfold annot. intros E. apply orb_prop in E as [E|E]; [destruct d; try discriminate E; reflexivity | now apply base_bt]. Qed.

Definition Gbt (G : tctx) : Prop := Forall (fun p => bt (fst p) = true) G.

Lemma Gbt_cons d off G : bt d = true -> Gbt G -> Gbt ((d, off) :: G).
Proof. intros B HG. constructor; [exact B | exact HG]. Qed.

(* checking an annotation: the store is untouched and the type is `type` *)
Lemma tcN_base : forall f s G D d r, base_ty d = true -> tcN f s G D d = Some r -> b_st r = s /\ b_ty r = TType /\ b_elab r = d.
Proof.
  induction f as [|f IH]; intros s G D d r Hb E; [discriminate|].
  destruct d; cbn [base_ty] in Hb; try discriminate Hb; cbn [tcN] in E; try (injection E as <-; auto).
  apply andb_prop in Hb as [B1 B2].
  destruct (tcN f s G D d1) as [rd|] eqn:R1; [|discriminate]. destruct (IH _ _ _ _ _ B1 R1) as (S1 & T1 & E1). rewrite S1, T1, E1 in E.
  destruct (expectN f s D TType TType ENotType (b_errs rd)) as [[s1 es1]|] eqn:Q1; [|discriminate].
  apply expectN_type_type in Q1. subst s1.
  destruct (tcN f s ((d1, 0) :: G) (None :: D) d2) as [rb|] eqn:R2; [|discriminate]. destruct (IH _ _ _ _ _ B2 R2) as (S2 & T2 & E2).
  rewrite S2, T2, E2 in E.
  destruct (expectN f s (None :: D) TType TType ENotType (es1 ++ b_errs rb)) as [[s2 es2]|] eqn:Q2; [|discriminate].
  apply expectN_type_type in Q2. subst s2. injection E as <-. auto.
Qed.

Lemma tcN_annot f s G D d r : annot d = true -> tcN f s G D d = Some r -> b_st r = s /\ b_ty r = TType /\ b_elab r = d.
Proof.
  unfold annot. intros A E. apply orb_prop in A as [A|A]; [|exact (tcN_base _ _ _ _ _ _ A E)].
  destruct d; try discriminate A. destruct f; [discriminate|]. cbn [tcN] in E. injection E as <-. auto.
Qed.

Lemma group_typeN_bt f n ds s : J s -> forall k i acc T, bt acc = true -> group_typeN f n ds i k acc s = Some T -> bt T = true.
Proof.
  intros Js. induction k as [|k IH]; intros i acc T Hb E; cbn [group_typeN] in E; [now injection E as <-|].
  destruct (shift_defsN f s n (n - 1 - i) ds) as [sh|]; [|discriminate].
  destruct (openN f s acc 0 (TLet sh (TVar i)) 0) as [acc'|] eqn:B; [|discriminate].
  exact (IH _ _ _ (openN_bt _ _ _ _ _ _ _ Js Hb B) E).
Qed.

Lemma pushG_bt n : forall l j G, Gbt G -> forallb (fun p => annot (fst p) && simple (snd p)) l = true -> Gbt (pushG n l j G).
Proof.
  induction l as [|[a d] l IH]; intros j G HG F; [exact HG|]. rewrite pushG_cons. cbn [forallb fst snd] in F.
  apply andb_prop in F as [F1 F2]. apply andb_prop in F1 as [Fa Fd].
  apply IH; [|exact F2]. apply Gbt_cons; [exact (annot_bt _ Fa) | exact HG].
Qed.

Definition tc_J (tc : storeB -> term -> option tcres) : Prop :=
  forall s0 d r, J s0 -> simple d = true -> tc s0 d = Some r -> J (b_st r) /\ bt (b_ty r) = true.
Definition tc_annot (tc : storeB -> term -> option tcres) : Prop :=
  forall s0 d r, annot d = true -> tc s0 d = Some r -> b_st r = s0 /\ b_ty r = TType /\ b_elab r = d.

Lemma tc_defsN_J f tc D' : tc_J tc -> tc_annot tc ->
  forall l s0 es l' s1 es1, J s0 -> forallb (fun p => annot (fst p) && simple (snd p)) l = true ->
    tc_defsN f tc D' l s0 es = Some (l', s1, es1) -> J s1.
Proof.
  intros Tj Ta. induction l as [|[a d] rest IHl]; intros s0 es l' s1 es1 Js F E; cbn [tc_defsN] in E.
  - injection E as _ <- _. exact Js.
  - cbn [forallb fst snd] in F. apply andb_prop in F as [F1 F2]. apply andb_prop in F1 as [Fa Fd].
    destruct (tc s0 a) as [ra|] eqn:E1; [|discriminate]. destruct (Ta _ _ _ Fa E1) as (S1 & T1 & _). rewrite S1, T1 in E.
    destruct (expectN f s0 D' TType TType ENotType (es ++ b_errs ra)) as [[s0a es0]|] eqn:Q1; [|discriminate].
    apply expectN_type_type in Q1. subst s0a.
    destruct (tc s0 d) as [rd|] eqn:E2; [|discriminate]. destruct (Tj _ _ _ Js Fd E2) as [Js2 Bd].
    destruct (expectN f (b_st rd) D' (b_ty rd) a EAnnotation (es0 ++ b_errs rd)) as [[s1' es1']|] eqn:Q2; [|discriminate].
    pose proof (expectN_J _ _ _ _ _ _ _ _ _ Js2 Bd (annot_bt _ Fa) Q2) as Js3.
    destruct (tc_defsN f tc D' rest s1' es1') as [[[rest' s2] es2]|] eqn:E3; [|discriminate]. injection E as _ <- _.
    exact (IHl _ _ _ _ _ Js3 F2 E3).
Qed.

Ltac xj E Q := match type of E with
  | match expectN ?f ?s ?D ?a ?w ?e ?es with _ => _ end = Some _ =>
      let s1 := fresh "s" in let es1 := fresh "es" in destruct (expectN f s D a w e es) as [[s1 es1]|] eqn:Q; [|discriminate E] end.
Ltac tj E R := match type of E with
  | match tcN ?f ?s ?G ?D ?t with _ => _ end = Some _ =>
      let r := fresh "r" in destruct (tcN f s G D t) as [r|] eqn:R; [|discriminate E] end.

(* the checker stays inside the fragment: every type it computes and every solution it records is a type of the fragment *)
Theorem tcN_simple : forall f s G D t r, J s -> Gbt G -> simple t = true -> tcN f s G D t = Some r ->
  J (b_st r) /\ bt (b_ty r) = true.
Proof.
  induction f as [|f IH]; intros s G D t r Js HG Hs E; [discriminate|].
  destruct t; cbn [simple] in Hs; try discriminate Hs; cbn [tcN] in E; cbv zeta in E;
    try (injection E as <-; split; [exact Js | reflexivity]).
  - (* var *)
    destruct (nth_error G i) as [[T off]|] eqn:En; [|injection E as <-; split; [exact Js | reflexivity]].
    destruct (ushiftN f s T 0 (i + 1 - off)) as [T'|] eqn:U; [|discriminate]. injection E as <-. cbn [b_st b_ty].
    split; [exact Js|]. unfold Gbt in HG. rewrite Forall_forall in HG.
    exact (ushiftN_bt _ _ _ _ _ _ Js (HG _ (nth_error_In _ _ En)) U).
  - (* lam *)
    apply andb_prop in Hs as [Ha Hb]. tj E R1. destruct (tcN_annot _ _ _ _ _ _ Ha R1) as (S1 & T1 & E1). rewrite S1, T1, E1 in E.
    xj E Q1. apply expectN_type_type in Q1. subst s0.
    tj E R2. injection E as <-. cbn [b_st b_ty].
    destruct (IH s ((t1, 0) :: G) (None :: D) t2 r1 Js (Gbt_cons _ _ _ (annot_bt _ Ha) HG) Hb R2) as [Js2 B2].
    split; [exact Js2|]. cbn [bt]. now rewrite (annot_bt _ Ha), B2.
  - (* app *)
    apply andb_prop in Hs as [Ha Hb]. tj E R1. destruct (IH _ _ _ _ _ Js HG Ha R1) as [Js1 B1].
    unfold fresh_hole, salloc in E. xj E Q1.
    pose proof (expectN_J _ _ _ (TPi false (THole _ 0) (THole _ 0)) _ _ _ _ _ (J_snoc _ (J_snoc _ Js1)) eq_refl B1 Q1) as Js3.
    tj E R2. destruct (IH _ _ _ _ _ Js3 HG Hb R2) as [Js4 B2].
    xj E Q2. pose proof (expectN_J _ _ _ (THole _ 0) _ _ _ _ _ Js4 eq_refl B2 Q2) as Js5.
    match type of E with match openN ?f ?s ?t ?i ?x ?k with _ => _ end = _ => destruct (openN f s t i x k) as [T|] eqn:O; [|discriminate E] end.
    injection E as <-. cbn [b_st b_ty]. split; [exact Js5 | exact (openN_bt _ _ (THole _ 0) _ _ _ _ Js5 eq_refl O)].
  - (* let *)
    apply andb_prop in Hs as [Hd Hb].
    match type of E with match tc_defsN ?f ?tc ?D' ?l ?s0 ?es with _ => _ end = _ =>
      destruct (tc_defsN f tc D' l s0 es) as [[[ds' s1] es1]|] eqn:Zt; [|discriminate E] end.
    pose proof (pushG_bt (length defs) defs 0 G HG Hd) as HG'.
    assert (Js1 : J s1).
    { eapply (tc_defsN_J f _ _ (fun s0 d r0 Js0 Hd0 Hr => IH s0 _ _ d r0 Js0 HG' Hd0 Hr)
                (fun s0 d r0 Ha0 Hr => tcN_annot _ _ _ _ _ _ Ha0 Hr)); [exact Js | exact Hd | exact Zt]. }
    tj E R2. destruct (IH _ _ _ _ _ Js1 HG' Hb R2) as [Js2 B2].
    match type of E with match group_typeN ?f ?n ?ds ?i ?k ?acc ?s with _ => _ end = _ =>
      destruct (group_typeN f n ds i k acc s) as [T'|] eqn:GT; [|discriminate E] end.
    injection E as <-. cbn [b_st b_ty]. split; [exact Js2 | exact (group_typeN_bt _ _ _ _ Js2 _ _ _ _ B2 GT)].
  - (* neg *)
    tj E R1. destruct (IH _ _ _ _ _ Js HG Hs R1) as [Js1 B1]. xj E Q1. injection E as <-. cbn [b_st b_ty].
    split; [exact (expectN_J _ _ _ _ TInt _ _ _ _ Js1 B1 eq_refl Q1) | reflexivity].
  - (* bin *)
    apply andb_prop in Hs as [Ha Hb]. tj E R1. destruct (IH _ _ _ _ _ Js HG Ha R1) as [Js1 B1]. xj E Q1.
    pose proof (expectN_J _ _ _ _ TInt _ _ _ _ Js1 B1 eq_refl Q1) as Js2.
    tj E R2. destruct (IH _ _ _ _ _ Js2 HG Hb R2) as [Js3 B2]. xj E Q2. injection E as <-. cbn [b_st b_ty].
    split; [exact (expectN_J _ _ _ _ TInt _ _ _ _ Js3 B2 eq_refl Q2) | destruct o; reflexivity].
  - (* if *)
    apply andb_prop in Hs as [Hab Hc]. apply andb_prop in Hab as [Ha Hb].
    tj E R1. destruct (IH _ _ _ _ _ Js HG Ha R1) as [Js1 B1]. xj E Q1.
    pose proof (expectN_J _ _ _ _ TBool _ _ _ _ Js1 B1 eq_refl Q1) as Js2.
    tj E R2. destruct (IH _ _ _ _ _ Js2 HG Hb R2) as [Js3 B2].
    tj E R3. destruct (IH _ _ _ _ _ Js3 HG Hc R3) as [Js4 B3].
    xj E Q2. injection E as <-. cbn [b_st b_ty].
    split; [exact (expectN_J _ _ _ _ _ _ _ _ _ Js4 B2 B3 Q2) | exact B2].
Qed.

(* ---------- hence the user's holes zonk to base types in every filled final store ---------- *)
Lemma zk_bt_base s2 : J s2 -> forall t u, zk s2 t u -> bt t = true -> base_ty u = true.
Proof.
  intros Js. induction 1; intros Hb; cbn [bt] in Hb; try discriminate Hb; try reflexivity.
  - rewrite base_ushift by (apply IHzk; exact (Js _ _ H)). apply IHzk. exact (Js _ _ H).
  - apply andb_prop in Hb as [B1 B2]. cbn [base_ty]. now rewrite IHzk1, IHzk2.
Qed.

Lemma base_holes_base s2 : forall d, base_ty d = true -> holes_base s2 d.
Proof.
  induction d; intros Hb; cbn [base_ty] in Hb; try discriminate Hb; cbn [holes_base]; try exact I.
  apply andb_prop in Hb as [B1 B2]. split; auto.
Qed.

Lemma annot_holes_base s2 d : J s2 -> annot d = true -> holes_base s2 d.
Proof.
  unfold annot. intros Js A. apply orb_prop in A as [A|A]; [|exact (base_holes_base _ _ A)].
  destruct d; try discriminate A. cbn [holes_base]. intros u Z. exact (zk_bt_base _ Js _ _ Z eq_refl).
Qed.

Lemma simple_holes_base s2 : J s2 -> forall t, simple t = true -> holes_base s2 t.
Proof.
  intros Js. induction t using term_ind'; intros Hs; cbn [simple] in Hs; try discriminate Hs; cbn [holes_base]; try exact I.
  - apply andb_prop in Hs as [Ha Hb]. split; [exact (annot_holes_base _ _ Js Ha) | auto].
  - apply andb_prop in Hs as [Ha Hb]. split; auto.
  - apply andb_prop in Hs as [Hd Hb]. split; [|auto].
    apply (go_Forall (fun p => holes_base s2 (fst p) /\ holes_base s2 (snd p))). rewrite forallb_forall in Hd. rewrite Forall_forall in *.
    intros p Hp. destruct (H p Hp) as [_ I2]. specialize (Hd p Hp). apply andb_prop in Hd as [Ha Hdd].
    split; [exact (annot_holes_base _ _ Js Ha) | auto].
  - auto.
  - apply andb_prop in Hs as [Ha Hb]. split; auto.
  - apply andb_prop in Hs as [Hab Hc]. apply andb_prop in Hab as [Ha Hb]. repeat split; auto.
Qed.

(* UNCONDITIONAL soundness on the simply typed fragment: no hypothesis on the completion is left *)
Theorem tcN_sound_simple H f s t r v :
  simple t = true -> J s -> store_okM H s -> acyclic s -> wsM H 0 t -> tcN f s [] [] t = Some r -> b_errs r = [] ->
  base_ty v = true ->
  tcB f s [] [] t = Some r /\ b_elab r = t /\
  exists eu Tu, zk (fill v (b_st r)) t eu /\ zk (fill v (b_st r)) (b_ty r) Tu /\ has_type [] eu Tu /\ base_ty Tu = true.
Proof.
  intros Hs Js Sk A W E Ee Hv.
  destruct (tcN_simple f s [] [] t r Js (Forall_nil _) Hs E) as [Jr Br].
  pose proof (J_fill v _ Jr Hv) as Jf.
  destruct (tcN_sound_closed H f s t r v Sk A W E Ee (base_hf _ Hv) (holes_base_ok _ _ _ (simple_holes_base _ Jf _ Hs)))
    as (Eb & El & eu & Tu & Z1 & Z2 & HT).
  split; [exact Eb|]. split; [exact El|]. exists eu, Tu. rewrite El in Z1. repeat split; auto. exact (zk_bt_base _ Jf _ _ Z2 Br).
Qed.

(* a one-line checker for closed programs of the fragment *)
Definition accepts_simple (H : list nat) (f : nat) (t v : term) : option (term * term) :=
  if simple t && wscb H (list_max H) 0 t && base_ty v then
    match tcN f (repeat None (length H)) [] [] t with
    | Some r =>
        match b_errs r with
        | [] => match zkf 40 (fill v (b_st r)) t, zkf 40 (fill v (b_st r)) (b_ty r) with
                | Some eu, Some Tu => Some (eu, Tu) | _, _ => None end
        | _ => None end
    | None => None end
  else None.

Lemma J_unsolved n : J (repeat None n).
Proof.
  intros id sol E. unfold sget in E. destruct (nth_error (repeat None n) id) as [[x|]|] eqn:En; try discriminate.
  apply nth_error_In, repeat_spec in En. discriminate En.
Qed.

Theorem accepts_simple_sound H f t v eu Tu : accepts_simple H f t v = Some (eu, Tu) -> has_type [] eu Tu.
Proof.
  unfold accepts_simple. destruct (simple t && wscb H (list_max H) 0 t && base_ty v) eqn:C; [|discriminate].
  apply andb_prop in C as [C Cv]. apply andb_prop in C as [Cs Cw].
  destruct (tcN f (repeat None (length H)) [] [] t) as [r|] eqn:E; [|discriminate].
  destruct (b_errs r) eqn:Ee; [|discriminate].
  destruct (zkf 40 (fill v (b_st r)) t) as [eu0|] eqn:Z1; [|discriminate].
  destruct (zkf 40 (fill v (b_st r)) (b_ty r)) as [Tu0|] eqn:Z2; [|discriminate]. intros Q. injection Q as <- <-.
  destruct (tcN_sound_simple H f _ t r v Cs (J_unsolved _) (store_okM_unsolved H) (acyclic_unsolved _) (wscb_sound _ _ _ _ Cw) E Ee Cv)
    as (_ & _ & eu & Tu & Ze & Zt & HT & _).
  rewrite (zk_fun _ _ _ _ Ze (zkf_sound _ _ _ _ Z1)), (zk_fun _ _ _ _ Zt (zkf_sound _ _ _ _ Z2)). exact HT.
Qed.

Module ExS.
(* (x => x + 1) 2 *)
Example s1 : has_type [] (TApp (TLam false TInt (TBin OSum (TVar 0) (TLit 1))) (TLit 2)) TInt.
Proof. apply (accepts_simple_sound [0] 30 ExT.p1 TInt). vm_compute. reflexivity. Qed.
(* x = 3; y = x + 1; y   with both annotations omitted *)
Definition g1 := TLet [(THole 0 2, TLit 3); (THole 1 1, TBin OSum (TVar 1) (TLit 1))] (TVar 0).
Example s2 : has_type [] (TLet [(TInt, TLit 3); (TInt, TBin OSum (TVar 1) (TLit 1))] (TVar 0)) TInt.
Proof. apply (accepts_simple_sound [0; 1] 40 g1 TInt). vm_compute. reflexivity. Qed.
(* twice = (f : int -> int) => x => f (f x); twice (y => y * 2) 5 *)
Definition g2 := TApp (TApp (TLam false (TPi false TInt TInt) (TLam false (THole 0 0) (TApp (TVar 1) (TApp (TVar 1) (TVar 0)))))
                            (TLam false (THole 1 0) (TBin OProd (TVar 0) (TLit 2)))) (TLit 5).
Example s3 : has_type [] (TApp (TApp (TLam false (TPi false TInt TInt) (TLam false TInt (TApp (TVar 1) (TApp (TVar 1) (TVar 0)))))
                                      (TLam false TInt (TBin OProd (TVar 0) (TLit 2)))) (TLit 5)) TInt.
Proof. apply (accepts_simple_sound [1; 0] 40 g2 TInt). vm_compute. reflexivity. Qed.
(* a binder whose type is never determined: x => 3 - every base type may fill it *)
Example s4 : has_type [] (TLam false (TPi false TBool TBool) (TLit 3)) (TPi false (TPi false TBool TBool) TInt).
Proof. apply (accepts_simple_sound [0] 30 ExT.p4 (TPi false TBool TBool)). vm_compute. reflexivity. Qed.
End ExS.

(* ================= assumptions ================= *)
Print Assumptions sshiftN_bt.
Print Assumptions openN_bt.
Print Assumptions whnfN_bt.
Print Assumptions unifyN_J.
Print Assumptions tcN_simple.
Print Assumptions simple_holes_base.
Print Assumptions tcN_sound_simple.
Print Assumptions accepts_simple_sound.
Print Assumptions ExS.s1.
Print Assumptions ExS.s2.
Print Assumptions ExS.s3.
Print Assumptions ExS.s4.
