(* L4 in a non-empty context: coherence of the checker's weak-head normaliser, run in ANY well-formed
   hole-free context G (definitions included: r_delta fires), with the call-by-value evaluator. *)
From Coq Require Import List ZArith Lia Bool Arith Relations.
Import ListNotations.
Require Import Gram.Model.Term Gram.Model.DeBruijn Gram.Model.Eval Gram.Spec.Cbv Gram.Spec.Typing Gram.Oracle.Infer
  Gram.Proofs.DeBruijnLaws Gram.Proofs.CtxProofs Gram.Proofs.WeakenProofs Gram.Proofs.InferSound
  Gram.Proofs.ConflLaws Gram.Proofs.Confluence Gram.Proofs.ConfluenceCons Gram.Proofs.ConfluenceEval
  Gram.Proofs.ConfluenceDelta.

Section WnD.
Variable D0 : nat -> option term.

(* weak-head normal in a context with definitions D0: a head variable has no definition *)
Fixpoint wnD (t : term) : bool :=
  match t with
  | TVar i => match D0 i with Some _ => false | None => true end
  | TApp a _ => wnD a && negb (is_lam a)
  | TNeg a => wnD a && negb (is_lit a)
  | TBin o a b =>
      wnD a && wnD b &&
      match a, b with TLit x, TLit y => match arith o x y with Some _ => false | None => true end | _, _ => true end
  | TIf c _ _ => wnD c && negb (is_boolc c)
  | TLet _ _ => false
  | _ => true
  end.

Lemma wnD_bin o a b : wnD a = true -> wnD b = true ->
  (forall x y, a = TLit x -> b = TLit y -> arith o x y = None) -> wnD (TBin o a b) = true.
Proof.
  intros W1 W2 Hc. cbn [wnD]. rewrite W1, W2. cbn [andb].
  destruct a; try reflexivity. destruct b; try reflexivity. now rewrite (Hc _ _ eq_refl eq_refl).
Qed.

Lemma arith_wnD o x y r : arith o x y = Some r -> wnD r = true.
Proof.
  destruct o; cbn; try (intros [= <-]; reflexivity);
    try (intros [= <-]; match goal with |- context[if ?b then _ else _] => destruct b end; reflexivity).
  destruct (y =? 0)%Z; [discriminate|]. intros [= <-]. reflexivity.
Qed.

Lemma wnD_dpred_mut :
  (forall m t t', dpred D0 m t t' -> m = 0 -> wnD t = true -> wnD t' = true /\ former_of t' = former_of t) /\
  (forall (m : nat) (ds ds' : list (term * term)), dpreds D0 m ds ds' -> True).
Proof.
  apply dpred_mutind; intros; auto; try (split; reflexivity); subst; cbn [wnD] in *;
    repeat match goal with H : _ && _ = true |- _ => apply andb_prop in H; destruct H end; try discriminate.
  - (* delta *) rewrite Nat.add_0_r in *. match goal with E : D0 _ = Some _ |- _ => rewrite E in * end. discriminate.
  - (* app *) destruct H0 as [W E]; auto. split; [|reflexivity]. now rewrite W, (is_lam_former _ _ E).
  - (* neg *) destruct H0 as [W E]; auto. split; [|reflexivity]. now rewrite W, (is_lit_former _ _ E).
  - (* bin *)
    destruct H0 as [W1 E1]; auto. destruct H2 as [W2 E2]; auto. split; [|reflexivity]. rewrite W1, W2. cbn [andb].
    destruct a'; try reflexivity. destruct b'; try reflexivity.
    destruct (former_lit_inv a) as [x ->]; [now rewrite <- E1|].
    destruct (former_lit_inv b) as [y ->]; [now rewrite <- E2|].
    apply dpred_lit_inv in H. apply dpred_lit_inv in H1. injection H as ->. injection H1 as ->. assumption.
  - (* if *) destruct H0 as [W E]; auto. split; [|reflexivity]. now rewrite W, (is_boolc_former _ _ E).
  - (* arith *) match goal with A : arith _ _ _ = Some _ |- _ => rewrite A in * end. discriminate.
Qed.

Lemma wnD_dstar t t' : dstar D0 0 t t' -> wnD t = true -> wnD t' = true /\ former_of t' = former_of t.
Proof.
  induction 1 as [a b P | a | a b c _ IH1 _ IH2]; intros W.
  - now apply (proj1 wnD_dpred_mut 0 a b P eq_refl).
  - auto.
  - destruct IH1 as [W1 E1]; auto. destruct IH2 as [W2 E2]; auto. split; [assumption | congruence].
Qed.
End WnD.

Lemma whnf_wnD : forall fuel G t u, whnf fuel G t = Some u -> wnD (lookup_def G) u = true.
Proof.
  induction fuel as [|f IH]; intros G t u H; [discriminate|].
  destruct t; cbn [whnf] in H; try (injection H as <-; reflexivity).
  - destruct (lookup_def G i) eqn:E; [eauto | injection H as <-; cbn [wnD]; now rewrite E].
  - destruct (whnf f G t1) as [a'|] eqn:E; [|discriminate]. pose proof (IH _ _ _ E) as W.
    destruct a'; try (injection H as <-; cbn [wnD is_lam negb] in *; rewrite ?andb_true_r; exact W). eauto.
  - eauto.
  - destruct (whnf f G t) as [a'|] eqn:E; [|discriminate]. pose proof (IH _ _ _ E) as W.
    destruct a'; injection H as <-; cbn [wnD is_lit negb] in *; rewrite ?andb_true_r; try exact W; reflexivity.
  - destruct (whnf f G t1) as [a'|] eqn:E1; [|discriminate].
    destruct (whnf f G t2) as [b'|] eqn:E2; [|destruct a'; discriminate].
    pose proof (IH _ _ _ E1) as W1. pose proof (IH _ _ _ E2) as W2.
    destruct a'; try (injection H as <-; apply wnD_bin; auto; intros; discriminate);
    destruct b'; try (injection H as <-; apply wnD_bin; auto; intros; discriminate).
    injection H as <-.
    match goal with |- context[arith ?o ?x ?y] => destruct (arith o x y) eqn:A end; [eapply arith_wnD; eauto|].
    apply wnD_bin; auto. intros x y [= <-] [= <-]. exact A.
  - destruct (whnf f G t1) as [c'|] eqn:E; [|discriminate]. pose proof (IH _ _ _ E) as W.
    destruct c'; try (injection H as <-; cbn [wnD is_boolc negb] in *; rewrite ?andb_true_r; exact W); eauto.
Qed.

Lemma rstar_conv2 G a b : rstar G a b -> conv2 G a b.
Proof. unfold rstar. induction 1; eauto using conv2. Qed.

Theorem whnf_evaluate_former_ctx G f f' t v w : wf_offsets G -> ctx_hf G ->
  hole_free t = true ->
  evaluate f t = Some v -> is_value v = true -> whnf f' G t = Some w ->
  former_of w = former_of v /\ conv2 G w v.
Proof.
  intros W F Hf He Hv Hw.
  destruct (evaluate_conv0 _ _ _ Hf He) as [Cv Fv].
  pose proof (whnf_hole_free _ _ _ _ F Hf Hw) as Fw.
  assert (C : conv2 G w v).
  { eapply c2_trans; [apply c2_sym, rstar_conv2, (whnf_sound _ _ _ _ Hw) | now apply conv0_conv2]. }
  split; [|assumption].
  destruct (church_rosser2 _ _ _ W F Fw Fv C) as (c & Hc1 & Hc2).
  assert (Wv : wnD (lookup_def G) v = true) by (destruct v; try discriminate; reflexivity).
  destruct (wnD_dstar _ _ _ Hc2 Wv) as [_ E1].
  destruct (wnD_dstar _ _ _ Hc1 (whnf_wnD _ _ _ _ Hw)) as [_ E2].
  congruence.
Qed.

Theorem whnf_evaluate_lit_ctx G f f' t z w : wf_offsets G -> ctx_hf G -> hole_free t = true ->
  evaluate f t = Some (TLit z) -> whnf f' G t = Some w -> w = TLit z.
Proof.
  intros W F Hf He Hw.
  destruct (whnf_evaluate_former_ctx G f f' t (TLit z) w W F Hf He eq_refl Hw) as [E C].
  destruct (former_lit_inv w E) as [z' ->]. apply conv2_lit_inj in C; auto. now subst.
Qed.

Theorem whnf_evaluate_true_ctx G f f' t w : wf_offsets G -> ctx_hf G -> hole_free t = true ->
  evaluate f t = Some TTrue -> whnf f' G t = Some w -> w = TTrue.
Proof.
  intros W F Hf He Hw.
  destruct (whnf_evaluate_former_ctx G f f' t TTrue w W F Hf He eq_refl Hw) as [E _]. now apply former_true_inv.
Qed.

Theorem whnf_evaluate_false_ctx G f f' t w : wf_offsets G -> ctx_hf G -> hole_free t = true ->
  evaluate f t = Some TFalse -> whnf f' G t = Some w -> w = TFalse.
Proof.
  intros W F Hf He Hw.
  destruct (whnf_evaluate_former_ctx G f f' t TFalse w W F Hf He eq_refl Hw) as [E _]. now apply former_false_inv.
Qed.

(* non-vacuity: under  x : int = 5  the open term  x + 1  is normalised to 6 by the checker (delta),
   while the evaluator is stuck on it (free variable): the theorem speaks about programs whose evaluation
   does not touch the context, e.g. closed ones *)
Example ctx_ex :
  let G := enter [(TInt, TLit 5)] [] in
  whnf 10 G (TBin OSum (TVar 0) (TLit 1)) = Some (TLit 6) /\
  whnf 10 G (TApp (TLam false TInt (TBin OSum (TVar 0) (TLit 1))) (TLit 2)) = Some (TLit 3) /\
  evaluate 10 (TApp (TLam false TInt (TBin OSum (TVar 0) (TLit 1))) (TLit 2)) = Some (TLit 3).
Proof. vm_compute. repeat split; reflexivity. Qed.

Print Assumptions whnf_evaluate_former_ctx.
Print Assumptions whnf_evaluate_lit_ctx.
Print Assumptions whnf_evaluate_true_ctx.
Print Assumptions whnf_evaluate_false_ctx.
