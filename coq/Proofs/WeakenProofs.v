(* Weakening in the middle of a context: weak-head normalisation, the conversion test and full
   normalisation commute with inserting a block of entries B between the |L| innermost entries L of a
   context and the rest G ("checking under a context matches the closed program"). Hole-free terms. *)
From Coq Require Import List ZArith Lia Bool Arith.
Import ListNotations.
Require Import Gram.Model.Term Gram.Model.DeBruijn Gram.Model.Eval Gram.Spec.Typing Gram.Oracle.Infer
  Gram.Proofs.DeBruijnLaws Gram.Proofs.CtxProofs.

(* ---------- index arithmetic ---------- *)
Ltac leb_cases :=
  repeat match goal with |- context[Nat.leb ?x ?y] => destruct (Nat.leb_spec x y) end.

Lemma up_idx_comm i a k c n : a <= c -> up_idx (up_idx i a k) (c + k) n = up_idx (up_idx i c n) a k.
Proof.
  intros H. unfold up_idx. destruct (Nat.leb_spec a i); destruct (Nat.leb_spec c i); leb_cases; lia.
Qed.

Lemma up_idx_merge i a m c n : a <= c -> c <= a + m -> up_idx (up_idx i a m) c n = up_idx i a (m + n).
Proof.
  intros H1 H2. unfold up_idx. destruct (Nat.leb_spec a i); leb_cases; lia.
Qed.

(* ---------- shifting commutes with shifting ---------- *)
Theorem ushift_comm : forall t a k c n, a <= c ->
  ushift (ushift t a k) (c + k) n = ushift (ushift t c n) a k.
Proof.
  induction t using term_ind'; intros a k c n Hle; cbn [ushift]; rewrite ?up_idx_comm by lia; try reflexivity.
  - f_equal; [apply IHt1; lia | apply (IHt2 (S a) k (S c) n); lia].
  - f_equal; [apply IHt1; lia | apply (IHt2 (S a) k (S c) n); lia].
  - f_equal; [apply IHt1 | apply IHt2]; lia.
  - rewrite !map_length, !map_map.
    replace (length ds + (c + k)) with ((length ds + c) + k) by lia.
    f_equal; [|apply IHt; lia].
    apply map_ext_Forall. eapply Forall_impl; [|exact H]. intros [x y] [Hx Hy]; cbn [fst snd] in *.
    f_equal; [apply Hx | apply Hy]; lia.
  - f_equal; apply IHt; lia.
  - f_equal; [apply IHt1 | apply IHt2]; lia.
  - f_equal; [apply IHt1 | apply IHt2 | apply IHt3]; lia.
Qed.

(* two consecutive shifts merge when the second cutoff falls inside the gap opened by the first *)
Theorem ushift_merge : forall t a m c n, a <= c -> c <= a + m ->
  ushift (ushift t a m) c n = ushift t a (m + n).
Proof.
  induction t using term_ind'; intros a m c n H1 H2; cbn [ushift]; rewrite ?up_idx_merge by lia; try reflexivity.
  - f_equal; [apply IHt1 | apply IHt2]; lia.
  - f_equal; [apply IHt1 | apply IHt2]; lia.
  - f_equal; [apply IHt1 | apply IHt2]; lia.
  - rewrite !map_length, !map_map.
    f_equal; [|apply IHt; lia].
    apply map_ext_Forall. eapply Forall_impl; [|exact H]. intros [x y] [Hx Hy]; cbn [fst snd] in *.
    f_equal; [apply Hx | apply Hy]; lia.
  - f_equal; apply IHt; lia.
  - f_equal; [apply IHt1 | apply IHt2]; lia.
  - f_equal; [apply IHt1 | apply IHt2 | apply IHt3]; lia.
Qed.

(* ---------- shifting commutes with opening (cutoff at or above the opened variable) ---------- *)
Lemma open_idx_up j i c n : i <= c -> j <> i ->
  up_idx (open_idx j i) c n = open_idx (up_idx j (S c) n) i /\ up_idx j (S c) n <> i.
Proof.
  intros H1 H2. unfold up_idx, open_idx.
  destruct (Nat.leb_spec (S c) j); destruct (Nat.ltb_spec i j); leb_cases;
    repeat match goal with |- context[Nat.ltb ?x ?y] => destruct (Nat.ltb_spec x y) end; lia.
Qed.

Theorem ushift_open : forall t i s k c n, hole_free t = true -> i <= k + c ->
  ushift (open t i s k) (k + c) n = open (ushift t (S (k + c)) n) i (ushift s c n) k.
Proof.
  induction t using term_ind'; intros i0 s0 k0 c n Hf Hle; cbn [hole_free] in Hf; try discriminate Hf;
    cbn [open ushift]; try reflexivity.
  - (* var *)
    destruct (Nat.eqb_spec i i0) as [->|Hne].
    + replace (up_idx i0 (S (k0 + c)) n) with i0 by (unfold up_idx; destruct (Nat.leb_spec (S (k0 + c)) i0); lia).
      rewrite Nat.eqb_refl. rewrite (Nat.add_comm k0 c). apply ushift_comm. lia.
    + destruct (open_idx_up i i0 (k0 + c) n Hle Hne) as [E1 E2].
      destruct (Nat.eqb_spec (up_idx i (S (k0 + c)) n) i0); [contradiction|].
      cbn [ushift]. now rewrite E1.
  - apply andb_prop in Hf as [F1 F2]. f_equal; [apply IHt1; auto|].
    apply (IHt2 (S i0) s0 (S k0) c n F2). lia.
  - apply andb_prop in Hf as [F1 F2]. f_equal; [apply IHt1; auto|].
    apply (IHt2 (S i0) s0 (S k0) c n F2). lia.
  - apply andb_prop in Hf as [F1 F2]. f_equal; [apply IHt1 | apply IHt2]; auto.
  - apply andb_prop in Hf as [F1 F2]. rewrite !map_length, !map_map.
    replace (length ds + (k0 + c)) with ((length ds + k0) + c) by lia.
    replace (length ds + S (k0 + c)) with (S ((length ds + k0) + c)) by lia.
    f_equal; [|apply IHt; auto; lia].
    rewrite forallb_forall in F1. rewrite Forall_forall in H. apply map_ext_in. intros [x y] Hin.
    specialize (F1 _ Hin). cbn in F1. apply andb_prop in F1 as [Fx Fy].
    destruct (H _ Hin) as [Hx Hy]; cbn [fst snd] in *.
    f_equal; [apply Hx | apply Hy]; auto; lia.
  - f_equal; apply IHt; auto.
  - apply andb_prop in Hf as [F1 F2]. f_equal; [apply IHt1 | apply IHt2]; auto.
  - apply andb_prop in Hf as [F12 F3]. apply andb_prop in F12 as [F1 F2].
    f_equal; [apply IHt1 | apply IHt2 | apply IHt3]; auto.
Qed.

Corollary ushift_open0 t i s c n : hole_free t = true -> i <= c ->
  ushift (open t i s 0) c n = open (ushift t (S c) n) i (ushift s c n) 0.
Proof. intros Hf Hle. exact (ushift_open t i s 0 c n Hf Hle). Qed.

(* ---------- hole-freeness is preserved by the de Bruijn operations and the group operations ---------- *)
Definition hf_defs (ds : list (term * term)) : bool :=
  forallb (fun p => let '(a, d) := p in hole_free a && hole_free d) ds.

Lemma hf_defs_In ds a d : hf_defs ds = true -> In (a, d) ds -> hole_free a = true /\ hole_free d = true.
Proof. unfold hf_defs. rewrite forallb_forall. intros H Hin. specialize (H _ Hin). cbn in H. now apply andb_prop in H. Qed.

Lemma hf_defs_map (g : term * term -> term * term) ds :
  (forall a d, In (a, d) ds -> hole_free (fst (g (a, d))) = true /\ hole_free (snd (g (a, d))) = true) ->
  hf_defs (map g ds) = true.
Proof.
  intros H. unfold hf_defs. apply forallb_forall. intros [a' d'] Hin. apply in_map_iff in Hin as ([a d] & E & Hin).
  destruct (H _ _ Hin) as [H1 H2]. rewrite E in H1, H2. cbn [fst snd] in *. now rewrite H1, H2.
Qed.

Lemma hole_free_ushift : forall t c n, hole_free t = true -> hole_free (ushift t c n) = true.
Proof.
  induction t using term_ind'; intros c n Hf; cbn [hole_free ushift] in *; auto.
  - apply andb_prop in Hf as [F1 F2]. rewrite IHt1, IHt2; auto.
  - apply andb_prop in Hf as [F1 F2]. rewrite IHt1, IHt2; auto.
  - apply andb_prop in Hf as [F1 F2]. rewrite IHt1, IHt2; auto.
  - apply andb_prop in Hf as [F1 F2]. rewrite IHt by auto. rewrite andb_true_r.
    apply hf_defs_map. intros a d Hin. destruct (hf_defs_In _ _ _ F1 Hin) as [Fa Fd].
    rewrite Forall_forall in H. destruct (H _ Hin) as [Ha Hd]; cbn [fst snd] in *. split; auto.
  - apply andb_prop in Hf as [F1 F2]. rewrite IHt1, IHt2; auto.
  - apply andb_prop in Hf as [F12 F3]. apply andb_prop in F12 as [F1 F2]. rewrite IHt1, IHt2, IHt3; auto.
Qed.

Lemma hole_free_open : forall t i s k, hole_free t = true -> hole_free s = true -> hole_free (open t i s k) = true.
Proof.
  induction t using term_ind'; intros i0 s0 k0 Hf Hs; cbn [hole_free open] in *; auto.
  - destruct (Nat.eqb i i0); [apply hole_free_ushift; auto | reflexivity].
  - apply andb_prop in Hf as [F1 F2]. rewrite IHt1, IHt2; auto.
  - apply andb_prop in Hf as [F1 F2]. rewrite IHt1, IHt2; auto.
  - apply andb_prop in Hf as [F1 F2]. rewrite IHt1, IHt2; auto.
  - apply andb_prop in Hf as [F1 F2]. rewrite IHt by auto. rewrite andb_true_r.
    apply hf_defs_map. intros a d Hin. destruct (hf_defs_In _ _ _ F1 Hin) as [Fa Fd].
    rewrite Forall_forall in H. destruct (H _ Hin) as [Ha Hd]; cbn [fst snd] in *. split; auto.
  - apply andb_prop in Hf as [F1 F2]. rewrite IHt1, IHt2; auto.
  - apply andb_prop in Hf as [F12 F3]. apply andb_prop in F12 as [F1 F2]. rewrite IHt1, IHt2, IHt3; auto.
Qed.

Lemma hole_free_unfold_first ann d idx :
  hole_free ann = true -> hole_free d = true -> hole_free (unfold_first ann d idx) = true.
Proof.
  intros Fa Fd. unfold unfold_first. apply hole_free_open; auto.
  cbn [hole_free forallb]. rewrite !hole_free_open; auto using hole_free_ushift.
Qed.

Lemma hf_defs_open_from : forall ds j i idx u, hf_defs ds = true -> hole_free u = true ->
  hf_defs (open_from j i idx u ds) = true.
Proof.
  induction ds as [|[a d] r IH]; intros j i idx u H Hu; cbn [open_from]; [reflexivity|].
  unfold hf_defs in *. cbn [forallb] in *. apply andb_prop in H as [H1 H2]. apply andb_prop in H1 as [Fa Fd].
  rewrite (IH (S j) i idx u H2 Hu), andb_true_r.
  destruct (Nat.ltb j i); [now rewrite Fa, Fd|]. rewrite !hole_free_open; auto.
Qed.

Lemma hole_free_let_subst : forall k n i ds body, hf_defs ds = true -> hole_free body = true ->
  hole_free (let_subst k n i ds body) = true.
Proof.
  induction k as [|k IH]; intros n i ds body Hd Hb; cbn [let_subst]; [exact Hb|].
  destruct (nth_error ds i) as [[ann def]|] eqn:E; [|exact Hb].
  destruct (hf_defs_In _ _ _ Hd (nth_error_In _ _ E)) as [Fa Fd].
  assert (Hu : hole_free (unfold_def ann def (n - 1 - i)) = true) by (apply hole_free_unfold_first; auto).
  apply IH; [apply hf_defs_open_from | apply hole_free_open]; auto.
Qed.

Lemma hole_free_let_whnf_body ds b : hf_defs ds = true -> hole_free b = true -> hole_free (let_whnf_body ds b) = true.
Proof. apply hole_free_let_subst. Qed.

(* ---------- shifting commutes with the group operations ---------- *)
Definition shp (c n : nat) (p : term * term) : term * term := let '(a, d) := p in (ushift a c n, ushift d c n).

Lemma unfold_first_shift ann d idx c n : hole_free ann = true -> hole_free d = true ->
  unfold_first (ushift ann (S (idx + c)) n) (ushift d (S (idx + c)) n) idx = ushift (unfold_first ann d idx) (idx + c) n.
Proof.
  intros Fa Fd. unfold unfold_first.
  rewrite (ushift_open0 d idx _ (idx + c) n Fd) by lia. f_equal.
  cbn [ushift length map]. unfold up_idx at 1. cbn [Nat.leb Nat.add].
  rewrite (ushift_open0 (ushift ann 0 1) (S idx) (TVar 0) (S (idx + c)) n) by (auto using hole_free_ushift; lia).
  rewrite (ushift_open0 (ushift d 0 1) (S idx) (TVar 0) (S (idx + c)) n) by (auto using hole_free_ushift; lia).
  cbn [ushift]. unfold up_idx. cbn [Nat.leb].
  replace (S (S (idx + c))) with (S (idx + c) + 1) by lia.
  rewrite !ushift_comm by lia. reflexivity.
Qed.

Lemma open_from_length : forall ds j i idx u, length (open_from j i idx u ds) = length ds.
Proof. induction ds as [|[a d] r IH]; intros; cbn [open_from length]; auto. Qed.

Lemma nth_error_open_from : forall ds j0 i idx u j,
  nth_error (open_from j0 i idx u ds) j =
  option_map (fun p => if Nat.ltb (j0 + j) i then p else let '(a, d) := p in (open a idx u 0, open d idx u 0)) (nth_error ds j).
Proof.
  induction ds as [|[a d] r IH]; intros j0 i idx u j; cbn [open_from].
  - destruct j; reflexivity.
  - destruct j as [|j]; cbn [nth_error option_map].
    + rewrite Nat.add_0_r. destruct (Nat.ltb j0 i); reflexivity.
    + rewrite IH. replace (S j0 + j) with (j0 + S j) by lia. reflexivity.
Qed.

Lemma let_subst_shift : forall k n i ds ds' body c m,
  length ds = n -> length ds' = n ->
  (forall j, i <= j -> nth_error ds' j = option_map (shp ((n - i) + c) m) (nth_error ds j)) ->
  hf_defs ds = true -> hole_free body = true ->
  let_subst k n i ds' (ushift body ((n - i) + c) m) = ushift (let_subst k n i ds body) ((n - i - k) + c) m.
Proof.
  induction k as [|k IH]; intros n i ds ds' body c m L1 L2 Hn Hd Hb; cbn [let_subst].
  - now rewrite Nat.sub_0_r.
  - rewrite (Hn i (le_n i)). destruct (nth_error ds i) as [[ann def]|] eqn:E; cbn [option_map shp].
    + assert (Hi : i < n) by (rewrite <- L1; apply nth_error_Some; congruence).
      destruct (hf_defs_In _ _ _ Hd (nth_error_In _ _ E)) as [Fa Fd].
      set (idx := n - 1 - i). replace (n - i) with (S idx) in * by lia. unfold unfold_def.
      cbn [Nat.add]. rewrite (unfold_first_shift ann def idx c m Fa Fd).
      set (u := unfold_first ann def idx).
      assert (Hu : hole_free u = true) by (apply hole_free_unfold_first; auto).
      rewrite <- (ushift_open0 body idx u (idx + c) m Hb) by lia.
      assert (Eidx : n - S i = idx) by lia.
      pose proof (IH n (S i) (open_from 0 i idx u ds) (open_from 0 i idx (ushift u (idx + c) m) ds')
                    (open body idx u 0) c m) as K.
      rewrite Eidx in K. cbn [Nat.sub]. apply K; clear K.
      * now rewrite open_from_length.
      * now rewrite open_from_length.
      * intros j Hj. rewrite !nth_error_open_from. cbn [Nat.add].
        destruct (Nat.ltb_spec j i); [lia|]. rewrite (Hn j) by lia.
        destruct (nth_error ds j) as [[a d]|] eqn:Ej; cbn [option_map shp]; [|reflexivity].
        destruct (hf_defs_In _ _ _ Hd (nth_error_In _ _ Ej)) as [Fa' Fd'].
        rewrite (ushift_open0 a idx u (idx + c) m Fa'), (ushift_open0 d idx u (idx + c) m Fd') by lia.
        reflexivity.
      * apply hf_defs_open_from; auto.
      * apply hole_free_open; auto.
    + assert (Hi : n <= i) by (rewrite <- L1; apply nth_error_None; exact E).
      replace (n - i) with 0 by lia. reflexivity.
Qed.

Theorem let_whnf_body_shift ds b c n : hf_defs ds = true -> hole_free b = true ->
  let_whnf_body (map (shp (length ds + c) n) ds) (ushift b (length ds + c) n) = ushift (let_whnf_body ds b) c n.
Proof.
  intros Hd Hb. unfold let_whnf_body. rewrite map_length.
  pose proof (let_subst_shift (length ds) (length ds) 0 ds (map (shp (length ds + c) n) ds) b c n) as K.
  rewrite Nat.sub_0_r, Nat.sub_diag in K. apply K; auto using map_length.
  intros j _. apply nth_error_map.
Qed.

(* ---------- inserting a block of entries in the middle of a context ---------- *)
(* The entry (T, k, d) at index i of L (where |L| = S i + r) has its stored terms shifted by
   i + 1 - k on lookup; for k <= i + 1 (wf_offsets L) they are therefore written in the context made
   of the r + k outermost entries of L followed by G. Inserting B between L and G shifts them with
   cutoff r + k. The offset itself is unchanged. *)
Definition shift_entry (r n : nat) (e : entry) : entry :=
  let '(T, k, d) := e in (ushift T (r + k) n, k, option_map (fun x => ushift x (r + k) n) d).
Fixpoint shift_ctx (L : ctx) (n : nat) : ctx :=
  match L with [] => [] | e :: L0 => shift_entry (length L0) n e :: shift_ctx L0 n end.
Definition insert_ctx (L B G : ctx) : ctx := shift_ctx L (length B) ++ B ++ G.

Lemma shift_ctx_length L n : length (shift_ctx L n) = length L.
Proof. induction L; cbn [shift_ctx length]; auto. Qed.

Lemma nth_error_shift_ctx : forall L n i,
  nth_error (shift_ctx L n) i = option_map (shift_entry (length L - S i) n) (nth_error L i).
Proof.
  induction L as [|e L IH]; intros n i; cbn [shift_ctx].
  - destruct i; reflexivity.
  - destruct i as [|i]; cbn [nth_error option_map length].
    + replace (S (length L) - 1) with (length L) by lia. reflexivity.
    + apply IH.
Qed.

Lemma insert_ctx_nil B G : insert_ctx [] B G = B ++ G.
Proof. reflexivity. Qed.

Lemma insert_ctx_bind L B G A : bind (insert_ctx L B G) (ushift A (length L) (length B)) = insert_ctx (bind L A) B G.
Proof. unfold insert_ctx, bind. cbn [shift_ctx shift_entry app option_map]. now rewrite Nat.add_0_r. Qed.

Lemma nth_error_insert_lt L B G i : i < length L ->
  nth_error (insert_ctx L B G) i = option_map (shift_entry (length L - S i) (length B)) (nth_error (L ++ G) i).
Proof.
  intros H. unfold insert_ctx. rewrite !nth_error_app1 by (rewrite ?shift_ctx_length; lia). apply nth_error_shift_ctx.
Qed.

Lemma nth_error_insert_ge L B G i : length L <= i ->
  nth_error (insert_ctx L B G) (i + length B) = nth_error (L ++ G) i /\ nth_error (L ++ G) i = nth_error G (i - length L).
Proof.
  intros H. unfold insert_ctx. rewrite (nth_error_app2 L) by lia.
  rewrite nth_error_app2 by (rewrite shift_ctx_length; lia). rewrite shift_ctx_length.
  rewrite nth_error_app2 by lia. split; [f_equal; lia | reflexivity].
Qed.

Lemma wf_offsets_app_l L G : wf_offsets (L ++ G) -> wf_offsets L.
Proof.
  intros W i T k d E. apply (W i T k d). rewrite nth_error_app1; auto. apply nth_error_Some. congruence.
Qed.

Lemma wf_offsets_bind G A : wf_offsets G -> wf_offsets (bind G A).
Proof.
  intros W [|i] T k d E; cbn in E.
  - injection E as <- <- <-. lia.
  - specialize (W _ _ _ _ E). lia.
Qed.

Lemma wf_offsets_nil : wf_offsets [].
Proof. intros [|i] T k d E; discriminate E. Qed.

Lemma up_idx_lt i c n : i < c -> up_idx i c n = i.
Proof. intros H. unfold up_idx. destruct (Nat.leb_spec c i); lia. Qed.
Lemma up_idx_ge i c n : c <= i -> up_idx i c n = i + n.
Proof. intros H. unfold up_idx. destruct (Nat.leb_spec c i); lia. Qed.

(* lookups in the extended context are the shifted lookups of the original one *)
Theorem lookup_def_insert L B G i : wf_offsets L -> wf_offsets G ->
  lookup_def (insert_ctx L B G) (up_idx i (length L) (length B)) =
  option_map (fun d => ushift d (length L) (length B)) (lookup_def (L ++ G) i).
Proof.
  intros WL WG. unfold lookup_def. destruct (Nat.lt_ge_cases i (length L)) as [Hi|Hi].
  - rewrite up_idx_lt by exact Hi. rewrite nth_error_insert_lt by exact Hi.
    pose proof (WL i) as W. rewrite nth_error_app1 by exact Hi.
    destruct (nth_error L i) as [[[T k] [d|]]|]; cbn [option_map shift_entry]; try reflexivity.
    specialize (W _ _ _ eq_refl). f_equal.
    rewrite <- (ushift_comm d 0 (i + 1 - k) (length L - S i + k) (length B)) by lia.
    f_equal. lia.
  - rewrite up_idx_ge by exact Hi. destruct (nth_error_insert_ge L B G i Hi) as [-> E]. rewrite E.
    pose proof (WG (i - length L)) as W.
    destruct (nth_error G (i - length L)) as [[[T k] [d|]]|]; cbn [option_map]; try reflexivity.
    specialize (W _ _ _ eq_refl). f_equal.
    rewrite ushift_merge by lia. f_equal. lia.
Qed.

Theorem lookup_ty_insert L B G i : wf_offsets L -> wf_offsets G ->
  lookup_ty (insert_ctx L B G) (up_idx i (length L) (length B)) =
  option_map (fun d => ushift d (length L) (length B)) (lookup_ty (L ++ G) i).
Proof.
  intros WL WG. unfold lookup_ty. destruct (Nat.lt_ge_cases i (length L)) as [Hi|Hi].
  - rewrite up_idx_lt by exact Hi. rewrite nth_error_insert_lt by exact Hi.
    pose proof (WL i) as W. rewrite nth_error_app1 by exact Hi.
    destruct (nth_error L i) as [[[T k] d]|]; cbn [option_map shift_entry]; try reflexivity.
    specialize (W _ _ _ eq_refl). f_equal.
    rewrite <- (ushift_comm T 0 (i + 1 - k) (length L - S i + k) (length B)) by lia.
    f_equal. lia.
  - rewrite up_idx_ge by exact Hi. destruct (nth_error_insert_ge L B G i Hi) as [-> E]. rewrite E.
    pose proof (WG (i - length L)) as W.
    destruct (nth_error G (i - length L)) as [[[T k] d]|]; cbn [option_map]; try reflexivity.
    specialize (W _ _ _ eq_refl). f_equal.
    rewrite ushift_merge by lia. f_equal. lia.
Qed.

(* ---------- contexts whose definitions are hole-free ---------- *)
Definition entry_hf (e : entry) : Prop := match snd e with Some d => hole_free d = true | None => True end.
Definition ctx_hf (G : ctx) : Prop := Forall entry_hf G.

Lemma ctx_hf_lookup G i d : ctx_hf G -> lookup_def G i = Some d -> hole_free d = true.
Proof.
  intros H E. unfold lookup_def in E. destruct (nth_error G i) as [[[T k] [x|]]|] eqn:N; try discriminate.
  injection E as <-. apply hole_free_ushift.
  unfold ctx_hf in H. rewrite Forall_forall in H. exact (H _ (nth_error_In _ _ N)).
Qed.

Lemma ctx_hf_bind G A : ctx_hf G -> ctx_hf (bind G A).
Proof. intros H. constructor; [exact I | exact H]. Qed.

Lemma arith_hole_free o x y r : arith o x y = Some r -> hole_free r = true.
Proof.
  destruct o; cbn; try (intros [= <-]; reflexivity);
    try (intros [= <-]; match goal with |- context[if ?b then _ else _] => destruct b end; reflexivity).
  destruct (y =? 0)%Z; [discriminate|]. intros [= <-]. reflexivity.
Qed.

Lemma arith_closed o x y r c n : arith o x y = Some r -> ushift r c n = r.
Proof.
  destruct o; cbn; try (intros [= <-]; reflexivity);
    try (intros [= <-]; match goal with |- context[if ?b then _ else _] => destruct b end; reflexivity).
  destruct (y =? 0)%Z; [discriminate|]. intros [= <-]. reflexivity.
Qed.

(* ---------- weak-head normalisation preserves hole-freeness ---------- *)
Lemma whnf_hole_free : forall f G t u, ctx_hf G -> hole_free t = true -> whnf f G t = Some u -> hole_free u = true.
Proof.
  induction f as [|f IH]; intros G t u HG Ht W; [discriminate|].
  destruct t as [i s| | | | | |z|i|im d b|im d b|a b|ds b|a|o a b|c a b]; cbn [whnf] in W; cbn [hole_free] in Ht;
    try (injection W as <-; exact Ht).
  - (* var *)
    destruct (lookup_def G i) as [d|] eqn:E.
    + eapply IH; [exact HG | eapply ctx_hf_lookup; eauto | exact W].
    + injection W as <-. reflexivity.
  - (* app *)
    apply andb_prop in Ht as [Fa Fb].
    destruct (whnf f G a) as [a'|] eqn:Wa; [|discriminate].
    pose proof (IH _ _ _ HG Fa Wa) as Fa'.
    destruct a'; try (injection W as <-; cbn [hole_free] in *; rewrite ?Fa', ?Fb; reflexivity).
    cbn [hole_free] in Fa'. apply andb_prop in Fa' as [_ F2].
    eapply IH; [exact HG | | exact W]. apply hole_free_open; auto.
  - (* let *)
    apply andb_prop in Ht as [Fd Fb].
    eapply IH; [exact HG | | exact W]. apply hole_free_let_whnf_body; auto.
  - (* neg *)
    destruct (whnf f G a) as [a'|] eqn:Wa; [|discriminate].
    pose proof (IH _ _ _ HG Ht Wa) as Fa'.
    destruct a'; injection W as <-; cbn [hole_free] in *; auto.
  - (* bin *)
    apply andb_prop in Ht as [Fa Fb].
    destruct (whnf f G a) as [a'|] eqn:Wa; [|discriminate].
    pose proof (IH _ _ _ HG Fa Wa) as Fa'.
    destruct (whnf f G b) as [b'|] eqn:Wb; [|destruct a'; discriminate].
    pose proof (IH _ _ _ HG Fb Wb) as Fb'.
    destruct a'; try (destruct b'; injection W as <-; cbn [hole_free] in *; rewrite ?Fa', ?Fb'; reflexivity).
    destruct b'; try (injection W as <-; cbn [hole_free] in *; rewrite ?Fa', ?Fb'; reflexivity).
    injection W as <-. destruct (arith o z z0) eqn:A; [eapply arith_hole_free; eauto | reflexivity].
  - (* if *)
    apply andb_prop in Ht as [Fca Fb]. apply andb_prop in Fca as [Fc Fa].
    destruct (whnf f G c) as [c'|] eqn:Wc; [|discriminate].
    pose proof (IH _ _ _ HG Fc Wc) as Fc'.
    destruct c'; try (injection W as <-; cbn [hole_free] in *; rewrite ?Fc', ?Fa, ?Fb; reflexivity).
    + exact (IH _ _ _ HG Fa W).
    + exact (IH _ _ _ HG Fb W).
Qed.

(* ---------- the main theorems ---------- *)
Section Insert.
  Variables (B G : ctx).
  Hypothesis WG : wf_offsets G.

  Theorem whnf_insert : forall f L t,
    wf_offsets L -> ctx_hf (L ++ G) -> hole_free t = true ->
    whnf f (insert_ctx L B G) (ushift t (length L) (length B)) =
    option_map (fun u => ushift u (length L) (length B)) (whnf f (L ++ G) t).
  Proof.
    intros f L t WL HG. revert t.
    set (c := length L). set (n := length B).
    induction f as [|f IH]; intros t Ht; [reflexivity|].
    destruct t as [i s| | | | | |z|i|im d b|im d b|a b|ds b|a|o a b|cc a b]; cbn [hole_free] in Ht;
      try discriminate Ht; cbn [ushift whnf option_map]; try reflexivity.
    - (* var *)
      unfold c, n. rewrite lookup_def_insert by assumption. fold c n.
      destruct (lookup_def (L ++ G) i) as [d|] eqn:E; cbn [option_map]; [|reflexivity].
      apply IH. eapply ctx_hf_lookup; eauto.
    - (* app *)
      apply andb_prop in Ht as [Fa Fb]. rewrite (IH a Fa).
      destruct (whnf f (L ++ G) a) as [a'|] eqn:Wa; cbn [option_map]; [|reflexivity].
      pose proof (whnf_hole_free _ _ _ _ HG Fa Wa) as Fa'.
      destruct a'; cbn [ushift option_map]; try reflexivity.
      cbn [hole_free] in Fa'. apply andb_prop in Fa' as [_ F2].
      rewrite <- (ushift_open0 a'2 0 b c n F2) by lia. apply IH. apply hole_free_open; auto.
    - (* let *)
      apply andb_prop in Ht as [Fd Fb].
      pose proof (let_whnf_body_shift ds b c n Fd Fb) as K. unfold shp in K. rewrite K.
      apply IH. apply hole_free_let_whnf_body; auto.
    - (* neg *)
      rewrite (IH a Ht). destruct (whnf f (L ++ G) a) as [a'|]; cbn [option_map]; [|reflexivity].
      destruct a'; reflexivity.
    - (* bin *)
      apply andb_prop in Ht as [Fa Fb]. rewrite (IH a Fa), (IH b Fb).
      destruct (whnf f (L ++ G) a) as [a'|]; cbn [option_map]; [|reflexivity].
      destruct (whnf f (L ++ G) b) as [b'|]; cbn [option_map]; [|destruct a'; reflexivity].
      destruct a'; try (destruct b'; reflexivity).
      destruct b'; try reflexivity.
      cbn [ushift option_map]. destruct (arith o z z0) eqn:A; [|reflexivity].
      now rewrite (arith_closed _ _ _ _ c n A).
    - (* if *)
      apply andb_prop in Ht as [Fca Fb]. apply andb_prop in Fca as [Fc Fa]. rewrite (IH cc Fc).
      destruct (whnf f (L ++ G) cc) as [c'|]; cbn [option_map]; [|reflexivity].
      destruct c'; cbn [ushift option_map]; try reflexivity; apply IH; assumption.
  Qed.
End Insert.

Lemma up_idx_eqb i j c n : Nat.eqb (up_idx i c n) (up_idx j c n) = Nat.eqb i j.
Proof.
  unfold up_idx. destruct (Nat.leb_spec c i), (Nat.leb_spec c j); cbn iota;
    destruct (Nat.eqb_spec i j); try reflexivity;
    match goal with |- Nat.eqb ?x ?y = _ => destruct (Nat.eqb_spec x y) end; lia.
Qed.

Lemma and3_ext x x' (y y' : unit -> option bool) : x = x' -> y tt = y' tt -> and3 x y = and3 x' y'.
Proof. intros -> E. unfold and3. destruct x' as [[]|]; auto. Qed.

Lemma ctx_hf_bind_app L G A : ctx_hf (L ++ G) -> ctx_hf (bind L A ++ G).
Proof. intros H. exact (ctx_hf_bind (L ++ G) A H). Qed.

Theorem convb_insert : forall B G, wf_offsets G -> forall f L a b,
  wf_offsets L -> ctx_hf (L ++ G) -> hole_free a = true -> hole_free b = true ->
  convb f (insert_ctx L B G) (ushift a (length L) (length B)) (ushift b (length L) (length B)) =
  convb f (L ++ G) a b.
Proof.
  intros B G WG. induction f as [|f IH]; intros L a b WL HG Fa Fb; [reflexivity|].
  cbn [convb]. rewrite !(whnf_insert B G WG) by assumption.
  destruct (whnf f (L ++ G) a) as [a'|] eqn:Wa; cbn [option_map]; [|reflexivity].
  destruct (whnf f (L ++ G) b) as [b'|] eqn:Wb; cbn [option_map]; [|reflexivity].
  pose proof (whnf_hole_free _ _ _ _ HG Fa Wa) as Fa'. pose proof (whnf_hole_free _ _ _ _ HG Fb Wb) as Fb'.
  destruct a' as [i1 s1| | | | | |z1|i1|im1 d1 b1|im1 d1 b1|f1 a1|ds1 b1|a1|o1 a1 b1|c1 a1 b1]; try discriminate Fa';
  destruct b' as [i2 s2| | | | | |z2|i2|im2 d2 b2|im2 d2 b2|f2 a2|ds2 b2|a2|o2 a2 b2|c2 a2 b2]; try discriminate Fb';
  cbn [ushift]; try reflexivity; cbn [hole_free] in Fa', Fb';
  repeat match goal with H : _ && _ = true |- _ => apply andb_prop in H as [? ?] end.
  - (* var *) now rewrite up_idx_eqb.
  - (* lam *)
    destruct (Bool.eqb im1 im2); [|reflexivity]. rewrite insert_ctx_bind.
    apply (IH (bind L d1)); auto using wf_offsets_bind, ctx_hf_bind_app.
  - (* pi *)
    destruct (Bool.eqb im1 im2); [|reflexivity]. apply and3_ext; [apply IH; auto|].
    rewrite insert_ctx_bind. apply (IH (bind L d1)); auto using wf_offsets_bind, ctx_hf_bind_app.
  - (* app *) apply and3_ext; apply IH; auto.
  - (* neg *) apply IH; auto.
  - (* bin *) destruct (binop_eqb o1 o2); [|reflexivity]. apply and3_ext; apply IH; auto.
  - (* if *) apply and3_ext; [apply IH; auto|]. apply and3_ext; apply IH; auto.
Qed.

Theorem nf_insert : forall B G, wf_offsets G -> forall f L t,
  wf_offsets L -> ctx_hf (L ++ G) -> hole_free t = true ->
  nf f (insert_ctx L B G) (ushift t (length L) (length B)) =
  option_map (fun u => ushift u (length L) (length B)) (nf f (L ++ G) t).
Proof.
  intros B G WG. induction f as [|f IH]; intros L t WL HG Ft; [reflexivity|].
  cbn [nf]. rewrite (whnf_insert B G WG) by assumption.
  destruct (whnf f (L ++ G) t) as [w|] eqn:W; cbn [option_map]; [|reflexivity].
  pose proof (whnf_hole_free _ _ _ _ HG Ft W) as Fw.
  destruct w as [i s| | | | | |z|i|im d b|im d b|a b|ds b|a|o a b|c a b]; try discriminate Fw;
    cbn [ushift]; try reflexivity; cbn [hole_free] in Fw;
    repeat match goal with H : _ && _ = true |- _ => apply andb_prop in H as [? ?] end.
  - (* lam *)
    rewrite insert_ctx_bind. rewrite (IH (bind L d)) by auto using wf_offsets_bind, ctx_hf_bind_app.
    change (bind L d ++ G) with (bind (L ++ G) d).
    destruct (nf f (bind (L ++ G) d) b); reflexivity.
  - (* pi *)
    rewrite insert_ctx_bind. rewrite (IH L d), (IH (bind L d)) by auto using wf_offsets_bind, ctx_hf_bind_app.
    change (bind L d ++ G) with (bind (L ++ G) d).
    destruct (nf f (L ++ G) d); [|reflexivity]. destruct (nf f (bind (L ++ G) d) b); reflexivity.
  - (* app *)
    rewrite (IH L a), (IH L b) by auto.
    destruct (nf f (L ++ G) a); [|reflexivity]. destruct (nf f (L ++ G) b); reflexivity.
  - (* neg *) rewrite (IH L a) by auto. destruct (nf f (L ++ G) a); reflexivity.
  - (* bin *)
    rewrite (IH L a), (IH L b) by auto.
    destruct (nf f (L ++ G) a); [|reflexivity]. destruct (nf f (L ++ G) b); reflexivity.
  - (* if *)
    rewrite (IH L c), (IH L a), (IH L b) by auto.
    destruct (nf f (L ++ G) c); [|reflexivity]. destruct (nf f (L ++ G) a); [|reflexivity].
    destruct (nf f (L ++ G) b); reflexivity.
Qed.

(* ---------- the special case L = []: inserting B directly below the term's own binders ---------- *)
Corollary whnf_weaken B G f t : wf_offsets G -> ctx_hf G -> hole_free t = true ->
  whnf f (B ++ G) (ushift t 0 (length B)) = option_map (fun u => ushift u 0 (length B)) (whnf f G t).
Proof. intros WG HG Ht. exact (whnf_insert B G WG f [] t wf_offsets_nil HG Ht). Qed.

Corollary convb_weaken B G f a b : wf_offsets G -> ctx_hf G -> hole_free a = true -> hole_free b = true ->
  convb f (B ++ G) (ushift a 0 (length B)) (ushift b 0 (length B)) = convb f G a b.
Proof. intros WG HG Ha Hb. exact (convb_insert B G WG f [] a b wf_offsets_nil HG Ha Hb). Qed.

Corollary nf_weaken B G f t : wf_offsets G -> ctx_hf G -> hole_free t = true ->
  nf f (B ++ G) (ushift t 0 (length B)) = option_map (fun u => ushift u 0 (length B)) (nf f G t).
Proof. intros WG HG Ht. exact (nf_insert B G WG f [] t wf_offsets_nil HG Ht). Qed.

(* closed program versus the same term under a context: G = [] *)
Corollary whnf_closed_under B f t : hole_free t = true ->
  whnf f B (ushift t 0 (length B)) = option_map (fun u => ushift u 0 (length B)) (whnf f [] t).
Proof. intros Ht. rewrite <- (app_nil_r B) at 1. apply whnf_weaken; [apply wf_offsets_nil | constructor | exact Ht]. Qed.

Corollary convb_closed_under B f a b : hole_free a = true -> hole_free b = true ->
  convb f B (ushift a 0 (length B)) (ushift b 0 (length B)) = convb f [] a b.
Proof. intros Ha Hb. rewrite <- (app_nil_r B) at 1. apply convb_weaken; [apply wf_offsets_nil | constructor | exact Ha | exact Hb]. Qed.

(* ---------- insert_ctx is "the same context with B inserted": it commutes with the two ways a
   checker extends a context (bind: insert_ctx_bind above; enter: below), and the side conditions
   are preserved by both ---------- *)
Lemma push_group_app : forall ds n j X Y, push_group n ds j (X ++ Y) = push_group n ds j X ++ Y.
Proof. induction ds as [|[a d] r IH]; intros n j X Y; cbn [push_group]; [reflexivity|]. apply (IH n (S j) (_ :: X) Y). Qed.

Lemma push_group_length : forall ds n j X, length (push_group n ds j X) = length ds + length X.
Proof. induction ds as [|[a d] r IH]; intros n j X; cbn [push_group length]; [reflexivity|]. rewrite IH. cbn [length]. lia. Qed.

Lemma shift_ctx_push_group : forall ds n j L m, j + length ds <= n ->
  shift_ctx (push_group n ds j L) m = push_group n (map (shp (n - j + length L) m) ds) j (shift_ctx L m).
Proof.
  induction ds as [|[a d] r IH]; intros n j L m H; cbn [push_group map shp length] in *; [reflexivity|].
  rewrite IH by lia. cbn [length shift_ctx shift_entry option_map].
  replace (n - S j + S (length L)) with (n - j + length L) by lia.
  replace (length L + (n - j)) with (n - j + length L) by lia. reflexivity.
Qed.

Theorem insert_ctx_enter ds L B G :
  insert_ctx (enter ds L) B G = enter (map (shp (length ds + length L) (length B)) ds) (insert_ctx L B G).
Proof.
  unfold insert_ctx, enter. rewrite map_length, shift_ctx_push_group by lia.
  rewrite Nat.sub_0_r. apply eq_sym, push_group_app.
Qed.

Lemma enter_app ds L G : enter ds (L ++ G) = enter ds L ++ G.
Proof. apply push_group_app. Qed.

Lemma enter_length ds L : length (enter ds L) = length ds + length L.
Proof. apply push_group_length. Qed.

Lemma wf_offsets_enter ds G : wf_offsets G -> wf_offsets (enter ds G).
Proof.
  intros W z T k d E. unfold enter in E. destruct (Nat.lt_ge_cases z (length ds)) as [Hz|Hz].
  - replace z with (length ds - 1 - (length ds - 1 - z)) in E by lia.
    rewrite push_group_nth in E by lia.
    destruct (nth_error ds (length ds - 1 - z)) as [[a x]|]; [|discriminate]. injection E as <- <- <-. lia.
  - replace z with (length ds + (z - length ds)) in E by lia. rewrite push_group_above in E.
    specialize (W _ _ _ _ E). lia.
Qed.

Lemma ctx_hf_push_group : forall ds n j G, hf_defs ds = true -> ctx_hf G -> ctx_hf (push_group n ds j G).
Proof.
  induction ds as [|[a d] r IH]; intros n j G H HG; cbn [push_group]; [exact HG|].
  unfold hf_defs in H. cbn [forallb] in H. apply andb_prop in H as [H1 H2]. apply andb_prop in H1 as [Fa Fd].
  apply IH; [exact H2|]. constructor; [exact Fd | exact HG].
Qed.

Lemma ctx_hf_enter ds G : hf_defs ds = true -> ctx_hf G -> ctx_hf (enter ds G).
Proof. apply ctx_hf_push_group. Qed.

(* weak-head normalisation inside a group that was itself shifted: the form in which the group
   rule of a checker meets the statement *)
Corollary whnf_insert_enter B G f ds L t :
  wf_offsets G -> wf_offsets L -> ctx_hf (L ++ G) -> hf_defs ds = true -> hole_free t = true ->
  whnf f (enter (map (shp (length ds + length L) (length B)) ds) (insert_ctx L B G))
         (ushift t (length ds + length L) (length B)) =
  option_map (fun u => ushift u (length ds + length L) (length B)) (whnf f (enter ds (L ++ G)) t).
Proof.
  intros WG WL HG Hd Ht. rewrite <- insert_ctx_enter, enter_app, <- enter_length.
  apply whnf_insert; auto using wf_offsets_enter.
  rewrite <- enter_app. apply ctx_hf_enter; auto.
Qed.

(* ---------- non-vacuity: a context with a two-definition group, a block of two entries inserted
   below one binder, a term that unfolds a context definition, a group and a redex ---------- *)
Example insert_example :
  let G := enter [(TInt, TLit 5); (TInt, TBin OSum (TVar 1) (TLit 1))] (bind [] TType) in
  let L := bind [] TInt in
  let B := [(TBool, 0, None); (TInt, 1, Some (TLit 7))] in
  let t := TLet [(TInt, TBin OProd (TVar 2) (TVar 3))]
             (TApp (TLam false TInt (TApp (TVar 5) (TBin OSum (TVar 0) (TVar 2)))) (TVar 0)) in
  wf_offsets G /\ wf_offsets L /\ ctx_hf (L ++ G) /\ hole_free t = true /\
  ushift t 1 2 = TLet [(TInt, TBin OProd (TVar 4) (TVar 5))]
                   (TApp (TLam false TInt (TApp (TVar 7) (TBin OSum (TVar 0) (TVar 2)))) (TVar 0)) /\
  whnf 40 (L ++ G) t = Some (TApp (TVar 3) (TBin OSum (TBin OProd (TVar 1) (TVar 2)) (TVar 0))) /\
  whnf 40 (insert_ctx L B G) (ushift t 1 2) =
    Some (TApp (TVar 5) (TBin OSum (TBin OProd (TVar 3) (TVar 4)) (TVar 0))) /\
  convb 40 (L ++ G) (TVar 1) (TLit 6) = Some true /\
  convb 40 (insert_ctx L B G) (TVar 3) (TLit 6) = Some true /\
  convb 40 (L ++ G) (TVar 1) (TVar 2) = Some false /\
  convb 40 (insert_ctx L B G) (TVar 3) (TVar 4) = Some false.
Proof.
  cbv zeta. repeat split; try (vm_compute; reflexivity).
  - apply wf_offsets_enter, wf_offsets_bind, wf_offsets_nil.
  - apply wf_offsets_bind, wf_offsets_nil.
  - repeat constructor.
Qed.

(* the side conditions are needed: with a hole the two sides differ (the hole's own shift is
   adjusted by `open` without regard to the cutoff) ... *)
Example hole_free_needed :
  let t := TApp (TLam false TInt (THole 0 0)) TTrue in
  let B := [(TInt, 0, None)] in
  whnf 5 (B ++ []) (ushift t 0 (length B)) = Some (THole 0 0) /\
  option_map (fun u => ushift u 0 (length B)) (whnf 5 [] t) = Some (THole 0 1).
Proof. vm_compute. split; reflexivity. Qed.

(* ... and so do they when an entry of G claims an offset larger than its index + 1 *)
Example wf_offsets_needed :
  let G := [(TInt, 2, Some (TVar 3))] in
  let B := [(TInt, 0, None)] in
  ctx_hf G /\ ~ wf_offsets G /\
  whnf 5 (B ++ G) (ushift (TVar 0) 0 (length B)) = Some (TVar 3) /\
  option_map (fun u => ushift u 0 (length B)) (whnf 5 G (TVar 0)) = Some (TVar 4).
Proof.
  cbv zeta. repeat split; try (vm_compute; reflexivity).
  - repeat constructor.
  - intros W. specialize (W 0 _ _ _ eq_refl). lia.
Qed.

Print Assumptions ushift_comm.
Print Assumptions ushift_merge.
Print Assumptions ushift_open.
Print Assumptions let_whnf_body_shift.
Print Assumptions lookup_def_insert.
Print Assumptions lookup_ty_insert.
Print Assumptions whnf_hole_free.
Print Assumptions whnf_insert.
Print Assumptions convb_insert.
Print Assumptions nf_insert.
Print Assumptions whnf_weaken.
Print Assumptions convb_weaken.
Print Assumptions nf_weaken.
Print Assumptions whnf_closed_under.
Print Assumptions convb_closed_under.
Print Assumptions insert_ctx_enter.
Print Assumptions whnf_insert_enter.
Print Assumptions insert_example.
