(* Confluence and Church-Rosser for the definition-free part of the definitional equality of
   Spec/Typing.v (contexts with definitions: Proofs/ConfluenceDelta.v; the results for `conv` itself:
   Proofs/ConvConsistent.v).

   red0  : the rules of `red` except r_delta (no context needed); group unfolding r_let INCLUDED
   conv0 : the rules of `conv` over red0, all congruences; annotations of functions (c0_lam) and of the
           definitions of a group (c0s_cons) are irrelevant, as in `conv`
   strip : holes replaced by a closed constant (the de Bruijn laws fail on holes)
   pred  : parallel reduction on hole-free terms; annotations of functions and of group definitions
           are related arbitrarily (p_lam, ps_cons)
   cd    : complete development (Takahashi); pred_cd is the triangle property
   Results: pred_diamond, pstar_confluent, church_rosser(_strip), joinable_conv0, conv0_conv.      *)
From Coq Require Import List ZArith Lia Bool Arith Relations.
Import ListNotations.
Require Import Gram.Model.Term Gram.Model.DeBruijn Gram.Model.Eval Gram.Spec.Typing
  Gram.Proofs.DeBruijnLaws Gram.Proofs.CtxProofs Gram.Proofs.WeakenProofs Gram.Proofs.ConflLaws.

(* ---------- the fragment ---------- *)
Inductive red0 : term -> term -> Prop :=
| r0_beta im d b a : red0 (TApp (TLam im d b) a) (open b 0 a 0)
| r0_let ds b : red0 (TLet ds b) (let_whnf_body ds b)
| r0_neg z : red0 (TNeg (TLit z)) (TLit (- z))
| r0_bin o x y r : arith o x y = Some r -> red0 (TBin o (TLit x) (TLit y)) r
| r0_if_t a b : red0 (TIf TTrue a b) a
| r0_if_f a b : red0 (TIf TFalse a b) b
| r0_app1 f f' a : red0 f f' -> red0 (TApp f a) (TApp f' a)
| r0_neg1 a a' : red0 a a' -> red0 (TNeg a) (TNeg a')
| r0_bin1 o a a' b : red0 a a' -> red0 (TBin o a b) (TBin o a' b)
| r0_bin2 o a b b' : red0 b b' -> red0 (TBin o a b) (TBin o a b')
| r0_if1 c c' a b : red0 c c' -> red0 (TIf c a b) (TIf c' a b).

Inductive conv0 : term -> term -> Prop :=
| c0_red a b : red0 a b -> conv0 a b
| c0_refl a : conv0 a a
| c0_sym a b : conv0 a b -> conv0 b a
| c0_trans a b c : conv0 a b -> conv0 b c -> conv0 a c
| c0_lam im d d' b b' : conv0 b b' -> conv0 (TLam im d b) (TLam im d' b')
| c0_pi im d d' b b' : conv0 d d' -> conv0 b b' -> conv0 (TPi im d b) (TPi im d' b')
| c0_app f f' a a' : conv0 f f' -> conv0 a a' -> conv0 (TApp f a) (TApp f' a')
| c0_neg a a' : conv0 a a' -> conv0 (TNeg a) (TNeg a')
| c0_bin o a a' b b' : conv0 a a' -> conv0 b b' -> conv0 (TBin o a b) (TBin o a' b')
| c0_if c c' a a' b b' : conv0 c c' -> conv0 a a' -> conv0 b b' -> conv0 (TIf c a b) (TIf c' a' b')
| c0_let ds ds' b b' : conv0s ds ds' -> conv0 b b' -> conv0 (TLet ds b) (TLet ds' b')
with conv0s : list (term * term) -> list (term * term) -> Prop :=
| c0s_nil : conv0s [] []
| c0s_cons a a' d d' r r' : conv0 d d' -> conv0s r r' -> conv0s ((a, d) :: r) ((a', d') :: r').   (* annotations irrelevant *)

Scheme conv0_mind := Minimality for conv0 Sort Prop
  with conv0s_mind := Minimality for conv0s Sort Prop.
Combined Scheme conv0_mutind from conv0_mind, conv0s_mind.

Lemma red0_red G a b : red0 a b -> red G a b.
Proof. induction 1; eauto using red. Qed.

Lemma conv0_conv_mut :
  (forall a b, conv0 a b -> forall G, conv G a b) /\
  (forall ds ds', conv0s ds ds' -> forall G, Forall2 (fun p q => conv G (snd p) (snd q)) ds ds').
Proof.
  apply conv0_mutind; intros; eauto using conv, red0_red.
Qed.
Theorem conv0_conv a b : conv0 a b -> forall G, conv G a b.
Proof. apply conv0_conv_mut. Qed.

Lemma conv0s_Forall2 ds ds' :
  conv0s ds ds' <-> Forall2 (fun p q => conv0 (snd p) (snd q)) ds ds'.
Proof.
  split.
  - induction 1; constructor; cbn [fst snd]; auto.
  - induction 1 as [|[a d] [a' d'] r r' Hd _ IH]; constructor; auto.
Qed.

(* ---------- holes replaced by a closed constant ---------- *)
Fixpoint strip (t : term) : term :=
  match t with
  | THole _ _ => TType
  | TType | TInt | TBool | TTrue | TFalse | TLit _ | TVar _ => t
  | TLam im d b => TLam im (strip d) (strip b)
  | TPi im d b => TPi im (strip d) (strip b)
  | TApp f a => TApp (strip f) (strip a)
  | TLet ds b => TLet (map (fun p => let '(a, d) := p in (strip a, strip d)) ds) (strip b)
  | TNeg a => TNeg (strip a)
  | TBin o a b => TBin o (strip a) (strip b)
  | TIf c a b => TIf (strip c) (strip a) (strip b)
  end.

Lemma strip_hf : forall t, hole_free (strip t) = true.
Proof.
  induction t using term_ind'; cbn [strip hole_free]; auto;
    try (rewrite ?IHt1, ?IHt2, ?IHt3; reflexivity).
  rewrite IHt, andb_true_r. apply hf_defs_map. intros a d Hin.
  rewrite Forall_forall in H. destruct (H _ Hin) as [Ha Hd]. cbn [fst snd] in *. auto.
Qed.

Lemma strip_id : forall t, hole_free t = true -> strip t = t.
Proof.
  induction t using term_ind'; cbn [strip hole_free]; intros Hf; try discriminate; try reflexivity; split_hf;
    try (f_equal; auto; fail).
  f_equal; auto.
  apply map_id'. rewrite Forall_forall in *. intros [a d] Hin.
  destruct (hf_defs_In _ _ _ H0 Hin) as [Fa Fd]. destruct (H _ Hin) as [Ha Hd]. cbn [fst snd] in *.
  now rewrite Ha, Hd.
Qed.

Lemma strip_ushift : forall t c n, strip (ushift t c n) = ushift (strip t) c n.
Proof.
  induction t using term_ind'; intros c n; cbn [strip ushift]; try reflexivity; try (f_equal; auto; fail).
  rewrite !map_length, !map_map. f_equal; auto.
  apply map_ext_Forall. eapply Forall_impl; [|exact H]. intros [a d] [Ha Hd]; cbn [fst snd] in *.
  now rewrite Ha, Hd.
Qed.

Lemma strip_open : forall t i s k, strip (open t i s k) = open (strip t) i (strip s) k.
Proof.
  induction t using term_ind'; intros i0 s0 k0; cbn [strip open]; try reflexivity; try (f_equal; auto; fail).
  - destruct (Nat.eqb i i0); [apply strip_ushift | reflexivity].
  - rewrite !map_length, !map_map. f_equal; auto.
    apply map_ext_Forall. eapply Forall_impl; [|exact H]. intros [a d] [Ha Hd]; cbn [fst snd] in *.
    now rewrite Ha, Hd.
Qed.

Definition strips (ds : list (term * term)) := map (fun p : term * term => let '(a, d) := p in (strip a, strip d)) ds.

Lemma strips_hf ds : hf_defs (strips ds) = true.
Proof. apply hf_defs_map. intros a d _. cbn [fst snd]. split; apply strip_hf. Qed.

Lemma strip_unfold_first ann d idx : strip (unfold_first ann d idx) = unfold_first (strip ann) (strip d) idx.
Proof. unfold unfold_first. rewrite strip_open. cbn [strip map]. now rewrite !strip_open, !strip_ushift. Qed.

Lemma strips_open_from : forall ds j i idx u,
  strips (open_from j i idx u ds) = open_from j i idx (strip u) (strips ds).
Proof.
  induction ds as [|[a d] r IH]; intros; cbn [open_from strips map]; [reflexivity|].
  fold (strips r). fold (strips (open_from (S j) i idx u r)). rewrite IH.
  destruct (Nat.ltb j i); [reflexivity | now rewrite !strip_open].
Qed.

Lemma strip_let_subst : forall k n i ds body,
  strip (let_subst k n i ds body) = let_subst k n i (strips ds) (strip body).
Proof.
  induction k as [|k IH]; intros n i ds body; cbn [let_subst]; [reflexivity|].
  unfold strips at 1. rewrite nth_error_map. destruct (nth_error ds i) as [[ann def]|]; cbn [option_map]; [|reflexivity].
  rewrite IH, strips_open_from, strip_open. unfold unfold_def. now rewrite strip_unfold_first.
Qed.

Lemma strip_let_whnf_body ds b : strip (let_whnf_body ds b) = let_whnf_body (strips ds) (strip b).
Proof. unfold let_whnf_body, strips. rewrite map_length. apply strip_let_subst. Qed.

Lemma red0_strip a b : red0 a b -> red0 (strip a) (strip b).
Proof.
  induction 1; cbn [strip]; try (constructor; auto; fail).
  - rewrite strip_open. constructor.
  - rewrite strip_let_whnf_body. apply r0_let.
  - rewrite (strip_id r) by (eapply arith_hole_free; eauto). now constructor.
Qed.

(* ---------- parallel reduction ---------- *)
Definition atom (t : term) : bool :=
  match t with TType | TInt | TBool | TTrue | TFalse | TLit _ | TVar _ => true | _ => false end.

Inductive pred : term -> term -> Prop :=
| p_atom t : atom t = true -> pred t t
| p_lam im d d' b b' : hole_free d = true -> hole_free d' = true -> pred b b' -> pred (TLam im d b) (TLam im d' b')
| p_pi im d d' b b' : pred d d' -> pred b b' -> pred (TPi im d b) (TPi im d' b')
| p_app f f' a a' : pred f f' -> pred a a' -> pred (TApp f a) (TApp f' a')
| p_neg a a' : pred a a' -> pred (TNeg a) (TNeg a')
| p_bin o a a' b b' : pred a a' -> pred b b' -> pred (TBin o a b) (TBin o a' b')
| p_if c c' a a' b b' : pred c c' -> pred a a' -> pred b b' -> pred (TIf c a b) (TIf c' a' b')
| p_let ds ds' b b' : preds ds ds' -> pred b b' -> pred (TLet ds b) (TLet ds' b')
| p_unfold ds ds' b b' : preds ds ds' -> pred b b' -> pred (TLet ds b) (let_whnf_body ds' b')
| p_beta im d b b' a a' : hole_free d = true -> pred b b' -> pred a a' ->
    pred (TApp (TLam im d b) a) (open b' 0 a' 0)
| p_negl z : pred (TNeg (TLit z)) (TLit (- z))
| p_arith o x y r : arith o x y = Some r -> pred (TBin o (TLit x) (TLit y)) r
| p_ift a a' b : pred a a' -> hole_free b = true -> pred (TIf TTrue a b) a'
| p_iff a b b' : hole_free a = true -> pred b b' -> pred (TIf TFalse a b) b'
with preds : list (term * term) -> list (term * term) -> Prop :=
| ps_nil : preds [] []
| ps_cons a a' d d' r r' : hole_free a = true -> hole_free a' = true -> pred d d' -> preds r r' ->
    preds ((a, d) :: r) ((a', d') :: r').                                  (* annotations related arbitrarily *)

Scheme pred_mind := Minimality for pred Sort Prop
  with preds_mind := Minimality for preds Sort Prop.
Combined Scheme pred_mutind from pred_mind, preds_mind.

Lemma preds_length ds ds' : preds ds ds' -> length ds = length ds'.
Proof. induction 1; cbn; auto. Qed.

Lemma hf_let ds b : hf_defs ds = true -> hole_free b = true -> hole_free (TLet ds b) = true.
Proof. intros H1 H2. cbn [hole_free]. unfold hf_defs in H1. now rewrite H1, H2. Qed.
Lemma hf_defs_cons a d r : hole_free a = true -> hole_free d = true -> hf_defs r = true -> hf_defs ((a, d) :: r) = true.
Proof. intros H1 H2 H3. unfold hf_defs in *. cbn [forallb]. now rewrite H1, H2, H3. Qed.

Lemma pred_hf_mut :
  (forall t t', pred t t' -> hole_free t = true /\ hole_free t' = true) /\
  (forall ds ds', preds ds ds' -> hf_defs ds = true /\ hf_defs ds' = true).
Proof.
  apply pred_mutind; intros;
    repeat match goal with H : _ /\ _ |- _ => destruct H end.
  - destruct t; try discriminate; auto.
  - cbn [hole_free]. split; repeat (apply andb_true_intro; split); auto.
  - cbn [hole_free]. split; repeat (apply andb_true_intro; split); auto.
  - cbn [hole_free]. split; repeat (apply andb_true_intro; split); auto.
  - cbn [hole_free]. split; auto.
  - cbn [hole_free]. split; repeat (apply andb_true_intro; split); auto.
  - cbn [hole_free]. split; repeat (apply andb_true_intro; split); auto.
  - split; apply hf_let; auto.
  - split; [apply hf_let; auto | apply hole_free_let_whnf_body; auto].
  - split; [cbn [hole_free]; repeat (apply andb_true_intro; split); auto | apply hole_free_open; auto].
  - split; reflexivity.
  - split; [reflexivity | eapply arith_hole_free; eauto].
  - cbn [hole_free]. split; auto. repeat (apply andb_true_intro; split); auto.
  - cbn [hole_free]. split; auto. repeat (apply andb_true_intro; split); auto.
  - split; reflexivity.
  - split; apply hf_defs_cons; auto.
Qed.
Lemma pred_hf_l t t' : pred t t' -> hole_free t = true.  Proof. intros H. now apply pred_hf_mut in H. Qed.
Lemma pred_hf_r t t' : pred t t' -> hole_free t' = true. Proof. intros H. now apply pred_hf_mut in H. Qed.
Lemma preds_hf_l t t' : preds t t' -> hf_defs t = true.  Proof. intros H. now apply pred_hf_mut in H. Qed.
Lemma preds_hf_r t t' : preds t t' -> hf_defs t' = true. Proof. intros H. now apply pred_hf_mut in H. Qed.

(* ---------- reflexivity, inclusions ---------- *)
Lemma preds_refl_from ds :
  Forall (fun p => (hole_free (fst p) = true -> pred (fst p) (fst p)) /\
                   (hole_free (snd p) = true -> pred (snd p) (snd p))) ds ->
  hf_defs ds = true -> preds ds ds.
Proof.
  induction 1 as [|[a d] r [Ha Hd] _ IH]; intros F; [constructor|].
  unfold hf_defs in F. cbn [forallb] in F. split_hf. cbn [fst snd] in *. constructor; auto.
Qed.

Lemma pred_refl : forall t, hole_free t = true -> pred t t.
Proof.
  induction t using term_ind'; intros Hf; cbn [hole_free] in Hf; try discriminate;
    try (apply p_atom; reflexivity); split_hf; try (constructor; auto; fail).
  apply p_let; auto. apply preds_refl_from; auto.
Qed.

Lemma preds_refl : forall ds, hf_defs ds = true -> preds ds ds.
Proof.
  induction ds as [|[a d] r IH]; intros F; [constructor|].
  unfold hf_defs in F. cbn [forallb] in F. split_hf. constructor; auto using pred_refl.
Qed.

Lemma red0_hf a b : red0 a b -> hole_free a = true -> hole_free b = true.
Proof.
  induction 1; cbn [hole_free]; intros Hf; split_hf; auto;
    try (repeat (apply andb_true_intro; split); auto; fail).
  - apply hole_free_open; auto.
  - apply hole_free_let_whnf_body; auto.
  - eapply arith_hole_free; eauto.
Qed.

Lemma red0_pred a b : red0 a b -> hole_free a = true -> pred a b.
Proof.
  induction 1; cbn [hole_free]; intros Hf; split_hf; try (constructor; auto using pred_refl; fail).
  apply p_unfold; auto using pred_refl, preds_refl.
Qed.

Lemma pred_conv0_mut :
  (forall t t', pred t t' -> conv0 t t') /\ (forall ds ds', preds ds ds' -> conv0s ds ds').
Proof.
  apply pred_mutind; intros; try (constructor; assumption).
  - eapply c0_trans; [apply c0_let; eassumption | apply c0_red, r0_let].
  - eapply c0_trans; [apply c0_app; [apply c0_lam with (d' := d); eassumption | eassumption]|].
    apply c0_red, r0_beta.
  - apply c0_red, r0_neg.
  - apply c0_red, r0_bin; assumption.
  - eapply c0_trans; [apply c0_red, r0_if_t | assumption].
  - eapply c0_trans; [apply c0_red, r0_if_f | assumption].
Qed.
Lemma pred_conv0 t t' : pred t t' -> conv0 t t'.
Proof. apply pred_conv0_mut. Qed.

(* ---------- substitutivity ---------- *)
Lemma pred_ushift_mut :
  (forall t t', pred t t' -> forall c n, pred (ushift t c n) (ushift t' c n)) /\
  (forall ds ds', preds ds ds' -> forall c n,
     preds (map (fun p : term * term => let '(a, d) := p in (ushift a c n, ushift d c n)) ds)
           (map (fun p : term * term => let '(a, d) := p in (ushift a c n, ushift d c n)) ds')).
Proof.
  apply pred_mutind; intros; cbn [ushift map]; try (constructor; auto using hole_free_ushift; fail).
  - destruct t; try discriminate; apply p_atom; reflexivity.
  - rewrite <- (preds_length _ _ H). constructor; auto.
  - rewrite <- (let_whnf_body_shift ds' b' c n) by eauto using pred_hf_r, preds_hf_r.
    rewrite <- (preds_length _ _ H). apply p_unfold; [apply H0 | apply H2].
  - rewrite ushift_open0 by (eauto using pred_hf_r; lia).
    constructor; auto using hole_free_ushift.
  - rewrite (arith_closed _ _ _ _ c n H). now constructor.
Qed.
Lemma pred_ushift t t' c n : pred t t' -> pred (ushift t c n) (ushift t' c n).
Proof. intros H. now apply pred_ushift_mut. Qed.

Lemma arith_closed_open o x y r i s k : arith o x y = Some r -> open r i s k = r.
Proof.
  destruct o; cbn; try (intros [= <-]; reflexivity);
    try (intros [= <-]; match goal with |- context[if ?b then _ else _] => destruct b end; reflexivity).
  destruct (y =? 0)%Z; [discriminate|]. intros [= <-]. reflexivity.
Qed.

Lemma pred_open_mut :
  (forall t t', pred t t' -> forall i a a' k, pred a a' -> pred (open t i a k) (open t' i a' k)) /\
  (forall ds ds', preds ds ds' -> forall i a a' k, pred a a' ->
     preds (map (fun p : term * term => let '(x, d) := p in (open x i a k, open d i a k)) ds)
           (map (fun p : term * term => let '(x, d) := p in (open x i a' k, open d i a' k)) ds')).
Proof.
  apply pred_mutind; intros; cbn [open map];
    try (constructor; eauto using hole_free_open, pred_hf_l, pred_hf_r; fail).
  - destruct t; try discriminate; try (apply p_atom; reflexivity).
    cbn [open]. destruct (Nat.eqb i0 i); [now apply pred_ushift | apply p_atom; reflexivity].
  - rewrite <- (preds_length _ _ H). constructor; auto.
  - rewrite <- (let_whnf_body_open ds' b' i a' k) by eauto using pred_hf_r, preds_hf_r.
    rewrite <- (preds_length _ _ H). apply p_unfold; [apply H0 | apply H2]; auto.
  - rewrite open_open0 by eauto using pred_hf_r.
    constructor; eauto using hole_free_open, pred_hf_l.
  - rewrite (arith_closed_open _ _ _ _ i a' k H). now constructor.
Qed.
Lemma pred_open t t' a a' i k : pred t t' -> pred a a' -> pred (open t i a k) (open t' i a' k).
Proof. intros H1 H2. now apply pred_open_mut. Qed.

(* ---------- the group unfolding is compatible with parallel reduction ---------- *)
Lemma unfold_first_pred ann ann' d d' idx : hole_free ann = true -> hole_free ann' = true -> pred d d' ->
  pred (unfold_first ann d idx) (unfold_first ann' d' idx).
Proof.
  intros Ha Ha' Hd. unfold unfold_first. apply pred_open; [assumption|].
  apply p_let; [|apply p_atom; reflexivity].
  constructor; [| | |constructor]; try (apply hole_free_open; auto using hole_free_ushift).
  apply pred_open; [now apply pred_ushift | apply p_atom; reflexivity].
Qed.

Lemma preds_open_from : forall ds ds', preds ds ds' -> forall j i idx u u', pred u u' ->
  preds (open_from j i idx u ds) (open_from j i idx u' ds').
Proof.
  induction 1; intros j i idx u u' Hu; cbn [open_from]; [constructor|].
  destruct (Nat.ltb j i); constructor; eauto using pred_open, hole_free_open, pred_hf_l, pred_hf_r.
Qed.

Lemma preds_nth : forall ds ds', preds ds ds' -> forall i,
  match nth_error ds i, nth_error ds' i with
  | Some (a, d), Some (a', d') => hole_free a = true /\ hole_free a' = true /\ pred d d'
  | None, None => True
  | _, _ => False
  end.
Proof.
  induction 1; intros [|i]; cbn [nth_error]; auto. apply IHpreds.
Qed.

Lemma let_subst_pred : forall k n i ds ds' body body', preds ds ds' -> pred body body' ->
  pred (let_subst k n i ds body) (let_subst k n i ds' body').
Proof.
  induction k as [|k IH]; intros n i ds ds' body body' Hd Hb; cbn [let_subst]; [assumption|].
  pose proof (preds_nth _ _ Hd i) as N.
  destruct (nth_error ds i) as [[ann def]|], (nth_error ds' i) as [[ann' def']|]; try contradiction; [|assumption].
  destruct N as (Na & Na' & Nd).
  assert (Hu : pred (unfold_def ann def (n - 1 - i)) (unfold_def ann' def' (n - 1 - i)))
    by (apply unfold_first_pred; assumption).
  apply IH; [apply preds_open_from | apply pred_open]; assumption.
Qed.

Lemma let_whnf_body_pred ds ds' b b' : preds ds ds' -> pred b b' ->
  pred (let_whnf_body ds b) (let_whnf_body ds' b').
Proof. intros Hd Hb. unfold let_whnf_body. rewrite <- (preds_length _ _ Hd). now apply let_subst_pred. Qed.

(* ---------- complete development ---------- *)
Fixpoint cd (t : term) : term :=
  match t with
  | THole _ _ | TType | TInt | TBool | TTrue | TFalse | TLit _ | TVar _ => t
  | TLam im d b => TLam im d (cd b)
  | TPi im d b => TPi im (cd d) (cd b)
  | TApp f a => match f with TLam _ _ b => open (cd b) 0 (cd a) 0 | _ => TApp (cd f) (cd a) end
  | TLet ds b => let_whnf_body (map (fun p => let '(a, d) := p in (a, cd d)) ds) (cd b)
  | TNeg a => match a with TLit z => TLit (- z) | _ => TNeg (cd a) end
  | TBin o a b =>
      match a, b with
      | TLit x, TLit y => match arith o x y with Some r => r | None => TBin o a b end
      | _, _ => TBin o (cd a) (cd b)
      end
  | TIf c a b => match c with TTrue => cd a | TFalse => cd b | _ => TIf (cd c) (cd a) (cd b) end
  end.

Lemma pred_lam_inv im d b t : pred (TLam im d b) t ->
  exists d' b', t = TLam im d' b' /\ hole_free d' = true /\ pred b b'.
Proof. intros H. inversion H; subst; [discriminate|]. eauto. Qed.
Lemma pred_lit_inv z t : pred (TLit z) t -> t = TLit z.
Proof. intros H. inversion H; subst; reflexivity. Qed.
Lemma pred_true_inv t : pred TTrue t -> t = TTrue.
Proof. intros H. inversion H; subst; reflexivity. Qed.
Lemma pred_false_inv t : pred TFalse t -> t = TFalse.
Proof. intros H. inversion H; subst; reflexivity. Qed.

Lemma pred_cd_mut :
  (forall t t', pred t t' -> pred t' (cd t)) /\
  (forall ds ds', preds ds ds' -> preds ds' (map (fun p => let '(a, d) := p in (a, cd d)) ds)).
Proof.
  apply pred_mutind; intros.
  - destruct t; try discriminate; apply p_atom; reflexivity.
  - cbn [cd]. apply p_lam; auto.
  - cbn [cd]. apply p_pi; auto.
  - (* app congruence *)
    destruct f; try (cbn [cd]; apply p_app; assumption).
    apply pred_lam_inv in H as (d' & b' & -> & Hd' & Hb).
    cbn [cd] in H0. apply pred_lam_inv in H0 as (d'' & b'' & E & _ & Hb'). injection E as <- <-.
    cbn [cd]. apply p_beta; auto.
  - (* neg congruence *)
    destruct a; try (cbn [cd]; apply p_neg; assumption).
    apply pred_lit_inv in H as ->. cbn [cd]. apply p_negl.
  - (* bin congruence *)
    destruct a; try (cbn [cd]; apply p_bin; assumption).
    destruct b; try (cbn [cd]; apply p_bin; assumption).
    apply pred_lit_inv in H as ->. apply pred_lit_inv in H1 as ->. cbn [cd].
    destruct (arith o z z0) eqn:A; [now apply p_arith | apply p_bin; apply p_atom; reflexivity].
  - (* if congruence *)
    destruct c; try (cbn [cd]; apply p_if; assumption).
    + apply pred_true_inv in H as ->. cbn [cd]. apply p_ift; eauto using pred_hf_l.
    + apply pred_false_inv in H as ->. cbn [cd]. apply p_iff; eauto using pred_hf_l.
  - cbn [cd]. apply p_unfold; auto.
  - cbn [cd]. apply let_whnf_body_pred; auto.
  - cbn [cd]. apply pred_open; auto.
  - cbn [cd]. apply p_atom; reflexivity.
  - cbn [cd]. rewrite H. apply pred_refl. eapply arith_hole_free; eauto.
  - cbn [cd]. assumption.
  - cbn [cd]. assumption.
  - constructor.
  - cbn [map]. constructor; auto.
Qed.
Lemma pred_cd t t' : pred t t' -> pred t' (cd t).
Proof. apply pred_cd_mut. Qed.

Theorem pred_diamond t t1 t2 : pred t t1 -> pred t t2 -> exists u, pred t1 u /\ pred t2 u.
Proof. intros H1 H2. exists (cd t). split; apply pred_cd; assumption. Qed.

(* ---------- confluence of the reflexive-transitive closure ---------- *)
Definition pstar := clos_refl_trans term pred.
Definition joinable (a b : term) : Prop := exists c, pstar a c /\ pstar b c.

Lemma pstar_step a b c : pred a b -> pstar b c -> pstar a c.
Proof. intros. eapply rt_trans; [apply rt_step; eassumption | assumption]. Qed.

Lemma pstar_strip t t1 t2 : pred t t1 -> pstar t t2 -> exists u, pstar t1 u /\ pred t2 u.
Proof.
  intros H1 H2. apply clos_rt_rt1n in H2. revert t1 H1.
  induction H2 as [t | t t' t2 Hs _ IH]; intros t1 H1.
  - exists t1. split; [apply rt_refl | assumption].
  - destruct (pred_diamond _ _ _ H1 Hs) as (v & Hv1 & Hv2).
    destruct (IH v Hv2) as (u & Hu1 & Hu2). exists u. split; [eapply pstar_step; eauto | assumption].
Qed.

Theorem pstar_confluent t t1 t2 : pstar t t1 -> pstar t t2 -> joinable t1 t2.
Proof.
  intros H1. apply clos_rt_rt1n in H1. revert t2.
  induction H1 as [t | t t' t1 Hs _ IH]; intros t2 H2.
  - exists t2. split; [assumption | apply rt_refl].
  - destruct (pstar_strip _ _ _ Hs H2) as (v & Hv1 & Hv2).
    destruct (IH v Hv1) as (u & Hu1 & Hu2). exists u. split; [assumption | eapply pstar_step; eauto].
Qed.

(* ---------- congruences of pstar ---------- *)
Definition pstars := clos_refl_trans (list (term * term)) preds.

Lemma rt_cong {A B} (R : relation A) (S : relation B) (C : A -> B) :
  (forall x y, R x y -> S (C x) (C y)) ->
  forall x y, clos_refl_trans A R x y -> clos_refl_trans B S (C x) (C y).
Proof. intros HC x y H. induction H; [apply rt_step; auto | apply rt_refl | eapply rt_trans; eauto]. Qed.

Lemma pstar_hf a b : pstar a b -> hole_free a = true -> hole_free b = true.
Proof. induction 1; auto. intros _. eapply pred_hf_r; eauto. Qed.
Lemma pstars_hf a b : pstars a b -> hf_defs a = true -> hf_defs b = true.
Proof. induction 1; auto. intros _. eapply preds_hf_r; eauto. Qed.

Lemma pstar_conv0 a b : pstar a b -> conv0 a b.
Proof. induction 1; eauto using conv0, pred_conv0. Qed.

Lemma pstar_lam im d d' b b' : hole_free d = true -> hole_free d' = true -> hole_free b = true ->
  pstar b b' -> pstar (TLam im d b) (TLam im d' b').
Proof.
  intros Hd Hd' Hb H. eapply rt_trans.
  - apply (rt_cong pred pred (fun x => TLam im d x)); [|exact H]. intros; now apply p_lam.
  - apply rt_step. apply p_lam; auto. apply pred_refl. eapply pstar_hf; eauto.
Qed.

Lemma pstar_pi im d d' b b' : hole_free d = true -> hole_free b = true ->
  pstar d d' -> pstar b b' -> pstar (TPi im d b) (TPi im d' b').
Proof.
  intros Hd Hb H1 H2. eapply rt_trans.
  - apply (rt_cong pred pred (fun x => TPi im x b)); [|exact H1]. intros; apply p_pi; auto using pred_refl.
  - apply (rt_cong pred pred (fun x => TPi im d' x)); [|exact H2]. intros; apply p_pi; auto.
    apply pred_refl. eapply pstar_hf; eauto.
Qed.

Lemma pstar_app d d' b b' : hole_free d = true -> hole_free b = true ->
  pstar d d' -> pstar b b' -> pstar (TApp d b) (TApp d' b').
Proof.
  intros Hd Hb H1 H2. eapply rt_trans.
  - apply (rt_cong pred pred (fun x => TApp x b)); [|exact H1]. intros; apply p_app; auto using pred_refl.
  - apply (rt_cong pred pred (fun x => TApp d' x)); [|exact H2]. intros; apply p_app; auto.
    apply pred_refl. eapply pstar_hf; eauto.
Qed.

Lemma pstar_neg a a' : pstar a a' -> pstar (TNeg a) (TNeg a').
Proof. apply (rt_cong pred pred TNeg). intros; now apply p_neg. Qed.

Lemma pstar_bin o d d' b b' : hole_free d = true -> hole_free b = true ->
  pstar d d' -> pstar b b' -> pstar (TBin o d b) (TBin o d' b').
Proof.
  intros Hd Hb H1 H2. eapply rt_trans.
  - apply (rt_cong pred pred (fun x => TBin o x b)); [|exact H1]. intros; apply p_bin; auto using pred_refl.
  - apply (rt_cong pred pred (fun x => TBin o d' x)); [|exact H2]. intros; apply p_bin; auto.
    apply pred_refl. eapply pstar_hf; eauto.
Qed.

Lemma pstar_if c c' a a' b b' : hole_free c = true -> hole_free a = true -> hole_free b = true ->
  pstar c c' -> pstar a a' -> pstar b b' -> pstar (TIf c a b) (TIf c' a' b').
Proof.
  intros Hc Ha Hb H1 H2 H3.
  assert (Hc' : hole_free c' = true) by (eapply pstar_hf; eauto).
  assert (Ha' : hole_free a' = true) by (eapply pstar_hf; eauto).
  eapply rt_trans; [|eapply rt_trans].
  - apply (rt_cong pred pred (fun x => TIf x a b)); [|exact H1]. intros; apply p_if; auto using pred_refl.
  - apply (rt_cong pred pred (fun x => TIf c' x b)); [|exact H2]. intros; apply p_if; auto using pred_refl.
  - apply (rt_cong pred pred (fun x => TIf c' a' x)); [|exact H3]. intros; apply p_if; auto using pred_refl.
Qed.

Lemma pstars_cons a a' d d' r r' : hole_free a = true -> hole_free a' = true -> hole_free d = true -> hf_defs r = true ->
  pstar d d' -> pstars r r' -> pstars ((a, d) :: r) ((a', d') :: r').
Proof.
  intros Ha Ha' Hd Hr H2 H3.
  assert (Hd' : hole_free d' = true) by (eapply pstar_hf; eauto).
  eapply rt_trans; [|eapply rt_trans].
  - apply rt_step. apply (ps_cons a a' d d r r); auto using pred_refl, preds_refl.
  - apply (rt_cong pred preds (fun x => (a', x) :: r)); [|exact H2].
    intros; constructor; auto using pred_refl, preds_refl.
  - apply (rt_cong preds preds (fun x => (a', d') :: x)); [|exact H3].
    intros; constructor; auto using pred_refl.
Qed.

Lemma pstar_let ds ds' b b' : hf_defs ds = true -> hole_free b = true ->
  pstars ds ds' -> pstar b b' -> pstar (TLet ds b) (TLet ds' b').
Proof.
  intros Hd Hb H1 H2. eapply rt_trans.
  - apply (rt_cong preds pred (fun x => TLet x b)); [|exact H1]. intros; apply p_let; auto using pred_refl.
  - apply (rt_cong pred pred (fun x => TLet ds' x)); [|exact H2]. intros; apply p_let; auto.
    apply preds_refl. eapply pstars_hf; eauto.
Qed.

(* ---------- Church-Rosser ---------- *)
Lemma church_rosser_mut :
  (forall a b, conv0 a b -> joinable (strip a) (strip b)) /\
  (forall ds ds', conv0s ds ds' -> exists cs, pstars (strips ds) cs /\ pstars (strips ds') cs).
Proof.
  apply conv0_mutind; intros; cbn [strip];
    repeat match goal with |- context[map ?f ?l] => change (map f l) with (strips l) end;
    repeat match goal with H : joinable _ _ |- _ => destruct H as (? & ? & ?) end;
    repeat match goal with H : exists _, _ /\ _ |- _ => destruct H as (? & ? & ?) end.
  - exists (strip b). split; [|apply rt_refl]. apply rt_step, red0_pred; [now apply red0_strip | apply strip_hf].
  - exists (strip a). split; apply rt_refl.
  - eexists; split; eassumption.
  - match goal with
    | Ha : pstar (strip a) ?u, Hb1 : pstar (strip b) ?u, Hb2 : pstar (strip b) ?v, Hc : pstar (strip c) ?v |- _ =>
        destruct (pstar_confluent _ _ _ Hb1 Hb2) as (w & Hw1 & Hw2);
        exists w; split; eapply rt_trans; eassumption
    end.
  - eexists (TLam im (strip d) _). split; apply pstar_lam; eauto using strip_hf.
  - eexists (TPi im _ _). split; apply pstar_pi; eauto using strip_hf.
  - eexists (TApp _ _). split; apply pstar_app; eauto using strip_hf.
  - eexists (TNeg _). split; apply pstar_neg; eauto.
  - eexists (TBin o _ _). split; apply pstar_bin; eauto using strip_hf.
  - eexists (TIf _ _ _). split; apply pstar_if; eauto using strip_hf.
  - eexists (TLet _ _). split; apply pstar_let; eauto using strip_hf, strips_hf.
  - exists []. split; apply rt_refl.
  - eexists ((strip a, _) :: _). split; apply pstars_cons; eauto using strip_hf, strips_hf.
Qed.

Theorem church_rosser_strip a b : conv0 a b -> joinable (strip a) (strip b).
Proof. apply church_rosser_mut. Qed.

Theorem church_rosser a b : hole_free a = true -> hole_free b = true -> conv0 a b -> joinable a b.
Proof. intros Ha Hb H. apply church_rosser_strip in H. now rewrite !strip_id in H by assumption. Qed.

(* conversely, joinable terms are convertible: on hole-free terms conv0 IS joinability *)
Theorem joinable_conv0 a b : joinable a b -> conv0 a b.
Proof. intros (c & H1 & H2). eapply c0_trans; [apply pstar_conv0; eassumption | apply c0_sym, pstar_conv0; assumption]. Qed.

Print Assumptions pred_diamond.
Print Assumptions pstar_confluent.
Print Assumptions church_rosser.
Print Assumptions joinable_conv0.
Print Assumptions conv0_conv.
