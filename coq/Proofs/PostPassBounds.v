(* Work bounds for the passes that follow parsing (Model/ParserPost.v): the definition-order walk
   check_definition / check_definitions and the re-association passes reassoc / reassociate.
   Each bound is stated on an instrumented copy that counts recursive calls and is proved to compute
   the same result as the model function. *)
From Coq Require Import List ZArith NArith Lia Bool Arith.
Import ListNotations.
Require Import Gram.Model.Term Gram.Model.DeBruijn Gram.Model.Eval Gram.Model.Token Gram.Model.Grammar Gram.Model.Parser
  Gram.Model.ParserPost.
Require Gram.Proofs.ReassocProofs.

(* ================================================================ W1: check_definition *)
Section CD.
  Variable defs : list (term * term).
  Variable start : nat.
  Let n := length defs.

  (* one iteration of the loop over the group variables of a definition, parametrised by the recursive call *)
  Definition cd_step (rec : nat -> list nat -> nat -> list nat * nat) (st : list nat * nat) (v : nat) : list nat * nat :=
    let '(visited, errs) := st in
    if Nat.ltb v n then
      let di := n - 1 - v in
      if existsb (Nat.eqb di) visited then (visited, errs)
      else
        let visited := di :: visited in
        match nth_error defs di with
        | Some (_, dd) =>
            if is_value dd then rec di visited errs
            else if Nat.leb start di then (visited, S errs) else (visited, errs)
        | None => (visited, errs)
        end
    else (visited, errs).

  Lemma check_definition_S : forall f cur visited errs,
    check_definition (S f) defs start cur visited errs =
    match nth_error defs cur with
    | None => (visited, errs)
    | Some (_, d) => fold_left (cd_step (check_definition f defs start)) (sort_dedup (fvl d 0)) (visited, errs)
    end.
  Proof. reflexivity. Qed.

  (* the instrumented copy: result, number of calls of check_definition (this one included), number of
     loop iterations (over all those calls) *)
  Definition cdc_step (rec : nat -> list nat -> nat -> list nat * nat * nat * nat)
             (st : list nat * nat * nat * nat) (v : nat) : list nat * nat * nat * nat :=
    let '(visited, errs, calls, iters) := st in
    let iters := S iters in
    if Nat.ltb v n then
      let di := n - 1 - v in
      if existsb (Nat.eqb di) visited then (visited, errs, calls, iters)
      else
        let visited := di :: visited in
        match nth_error defs di with
        | Some (_, dd) =>
            if is_value dd then
              let '(v', e', c', i') := rec di visited errs in (v', e', calls + c', iters + i')
            else if Nat.leb start di then (visited, S errs, calls, iters) else (visited, errs, calls, iters)
        | None => (visited, errs, calls, iters)
        end
    else (visited, errs, calls, iters).

  Fixpoint check_definition_cost (fuel : nat) (cur : nat) (visited : list nat) (errs : nat)
    : list nat * nat * nat * nat :=
    match fuel with
    | O => (visited, errs, 1, 0)
    | S f =>
      match nth_error defs cur with
      | None => (visited, errs, 1, 0)
      | Some (_, d) =>
          fold_left (cdc_step (check_definition_cost f)) (sort_dedup (fvl d 0)) (visited, errs, 1, 0)
      end
    end.

  Definition res4 (r : list nat * nat * nat * nat) : list nat * nat := (fst (fst (fst r)), snd (fst (fst r))).
  Definition calls4 (r : list nat * nat * nat * nat) : nat := snd (fst r).
  Definition iters4 (r : list nat * nat * nat * nat) : nat := snd r.

  (* (a) same result *)
  Lemma cdc_fold_same : forall rec rec4,
    (forall di vis e, res4 (rec4 di vis e) = rec di vis e) ->
    forall l st st4, res4 st4 = st ->
    res4 (fold_left (cdc_step rec4) l st4) = fold_left (cd_step rec) l st.
  Proof.
    intros rec rec4 Hrec. induction l as [|v l IH]; intros st st4 Hst; simpl; [exact Hst|].
    apply IH. destruct st4 as [[[vis e] c] i]. unfold res4 in Hst; simpl in Hst. subst st.
    unfold cdc_step, cd_step.
    destruct (Nat.ltb v n); [|reflexivity].
    destruct (existsb _ vis); [reflexivity|].
    destruct (nth_error defs (n - 1 - v)) as [[a dd]|]; [|reflexivity].
    destruct (is_value dd).
    - rewrite <- Hrec. destruct (rec4 _ _ _) as [[[v' e'] c'] i']. reflexivity.
    - destruct (Nat.leb start _); reflexivity.
  Qed.

  Theorem check_definition_cost_same : forall fuel cur visited errs,
    res4 (check_definition_cost fuel cur visited errs) = check_definition fuel defs start cur visited errs.
  Proof.
    induction fuel as [|f IH]; intros; [reflexivity|].
    rewrite check_definition_S. simpl.
    destruct (nth_error defs cur) as [[a d]|]; [|reflexivity].
    apply cdc_fold_same; [exact IH|reflexivity].
  Qed.

  (* (b) the invariant on the visited list *)
  Definition vinv (vis : list nat) : Prop := NoDup vis /\ Forall (fun x => x < n) vis.

  Lemma vinv_length : forall vis, vinv vis -> length vis <= n.
  Proof.
    intros vis [Hnd Hf]. rewrite <- (seq_length n 0).
    apply NoDup_incl_length; [exact Hnd|].
    intros x Hx. rewrite Forall_forall in Hf. apply in_seq. specialize (Hf x Hx). lia.
  Qed.

  Lemma existsb_eqb_false : forall x l, existsb (Nat.eqb x) l = false -> ~ In x l.
  Proof.
    intros x l H Hin. assert (existsb (Nat.eqb x) l = true); [|congruence].
    apply existsb_exists. exists x. split; [exact Hin|apply Nat.eqb_refl].
  Qed.

  (* what one call guarantees, for an arbitrary lower bound on the fuel *)
  Definition call_ok (vis : list nat) (r : list nat * nat * nat * nat) : Prop :=
    let '(v', e', c', i') := r in
    vinv v' /\ (exists ext, v' = ext ++ vis) /\ c' + length vis <= 1 + length v'.

  Lemma cdc_fold_ok : forall rec4,
    (forall di vis e, vinv vis -> call_ok vis (rec4 di vis e)) ->
    forall l vis0 vis e c i, vinv vis -> (exists ext, vis = ext ++ vis0) -> c + length vis0 <= 1 + length vis ->
    call_ok vis0 (fold_left (cdc_step rec4) l (vis, e, c, i)).
  Proof.
    intros rec4 Hrec. induction l as [|v l IH]; intros vis0 vis e c i Hinv Hext Hc; cbn [fold_left].
    - unfold call_ok. auto.
    - unfold cdc_step at 2.
      destruct (Nat.ltb v n) eqn:Hlt; [|apply IH; auto].
      destruct (existsb _ vis) eqn:Hex; [apply IH; auto|].
      apply existsb_eqb_false in Hex. apply Nat.ltb_lt in Hlt.
      assert (Hinv' : vinv ((n - 1 - v) :: vis)).
      { destruct Hinv as [H1 H2]. split; [constructor; assumption|constructor; [lia|assumption]]. }
      assert (Hext' : exists ext, (n - 1 - v) :: vis = ext ++ vis0).
      { destruct Hext as [ext ->]. exists ((n - 1 - v) :: ext). reflexivity. }
      destruct (nth_error defs (n - 1 - v)) as [[a dd]|].
      + destruct (is_value dd).
        * specialize (Hrec (n - 1 - v) _ e Hinv').
          destruct (rec4 _ _ _) as [[[v' e'] c'] i']. unfold call_ok in Hrec.
          destruct Hrec as (Hi & [ext2 He] & Hc2).
          apply IH; [exact Hi| |].
          -- destruct Hext' as [ext1 He1]. exists (ext2 ++ ext1). rewrite He, He1, app_assoc. reflexivity.
          -- simpl in Hc2. lia.
        * destruct (Nat.leb start _); apply IH; auto; simpl; lia.
      + apply IH; auto; simpl; lia.
  Qed.

  Theorem check_definition_cost_ok : forall fuel cur visited errs,
    vinv visited -> call_ok visited (check_definition_cost fuel cur visited errs).
  Proof.
    induction fuel as [|f IH]; intros cur vis e Hinv.
    - simpl. split; [exact Hinv|]. split; [exists []; reflexivity|lia].
    - simpl. destruct (nth_error defs cur) as [[a d]|].
      + apply cdc_fold_ok; [intros; apply IH; assumption|exact Hinv|exists []; reflexivity|lia].
      + simpl. split; [exact Hinv|]. split; [exists []; reflexivity|lia].
  Qed.

  (* (c) the number of calls of one top-level walk *)
  Corollary check_definition_calls_bound : forall fuel cur visited errs,
    vinv visited ->
    calls4 (check_definition_cost fuel cur visited errs) + length visited <= 1 + n.
  Proof.
    intros fuel cur vis e Hinv. pose proof (check_definition_cost_ok fuel cur vis e Hinv) as H.
    destruct (check_definition_cost fuel cur vis e) as [[[v' e'] c'] i']. unfold call_ok in H. unfold calls4; simpl.
    destruct H as (Hi & _ & Hc). apply vinv_length in Hi. lia.
  Qed.

  Corollary check_definition_visited_grows : forall fuel cur visited errs,
    vinv visited ->
    let v' := fst (check_definition fuel defs start cur visited errs) in
    NoDup v' /\ Forall (fun x => x < n) v' /\ (exists ext, v' = ext ++ visited) /\ length v' <= n.
  Proof.
    intros fuel cur vis e Hinv. rewrite <- check_definition_cost_same.
    pose proof (check_definition_cost_ok fuel cur vis e Hinv) as H.
    destruct (check_definition_cost fuel cur vis e) as [[[v' e'] c'] i']. unfold call_ok in H. simpl.
    destruct H as (Hi & He & _). pose proof (vinv_length _ Hi). destruct Hi. auto.
  Qed.

  (* the loop iterations: at most M per call, M bounding the number of distinct group variables of a definition *)
  Lemma cdc_fold_iters : forall M rec4,
    (forall di vis e, iters4 (rec4 di vis e) <= M * calls4 (rec4 di vis e)) ->
    forall l vis e c i,
      iters4 (fold_left (cdc_step rec4) l (vis, e, c, i)) + M * c
      <= i + length l + M * calls4 (fold_left (cdc_step rec4) l (vis, e, c, i)).
  Proof.
    intros M rec4 Hrec. induction l as [|v l IH]; intros vis e c i; cbn [fold_left length].
    - unfold iters4, calls4; simpl. lia.
    - unfold cdc_step at 2 4.
      destruct (Nat.ltb v n); [|specialize (IH vis e c (S i)); lia].
      destruct (existsb _ vis); [specialize (IH vis e c (S i)); lia|].
      destruct (nth_error defs (n - 1 - v)) as [[a dd]|]; [|specialize (IH ((n-1-v)::vis) e c (S i)); lia].
      destruct (is_value dd).
      + specialize (Hrec (n - 1 - v) ((n - 1 - v) :: vis) e).
        destruct (rec4 _ _ _) as [[[v' e'] c'] i']. unfold iters4, calls4 in Hrec; simpl in Hrec.
        specialize (IH v' e' (c + c') (S i + i')). nia.
      + destruct (Nat.leb start _).
        * specialize (IH ((n-1-v)::vis) (S e) c (S i)); lia.
        * specialize (IH ((n-1-v)::vis) e c (S i)); lia.
  Qed.

  Theorem check_definition_iters_bound : forall M,
    Forall (fun p => length (sort_dedup (fvl (snd p) 0)) <= M) defs ->
    forall fuel cur visited errs,
      iters4 (check_definition_cost fuel cur visited errs) <= M * calls4 (check_definition_cost fuel cur visited errs).
  Proof.
    intros M HM. induction fuel as [|f IH]; intros cur vis e.
    - unfold iters4, calls4; simpl. lia.
    - simpl. destruct (nth_error defs cur) as [[a d]|] eqn:Hn.
      + pose proof (cdc_fold_iters M _ IH (sort_dedup (fvl d 0)) vis e 1 0) as H.
        apply nth_error_In in Hn. rewrite Forall_forall in HM. specialize (HM _ Hn). simpl in HM. lia.
      + unfold iters4, calls4; simpl. lia.
  Qed.

  (* fuel: any two amounts of fuel above n - length visited give the same walk *)
  Lemma cd_fold_fuel : forall rec1 rec2 k,
    (forall di vis e, vinv vis -> k <= length vis -> rec1 di vis e = rec2 di vis e) ->
    (forall di vis e, vinv vis -> vinv (fst (rec1 di vis e)) /\ length vis <= length (fst (rec1 di vis e))) ->
    forall l vis e, vinv vis -> k <= S (length vis) ->
      fold_left (cd_step rec1) l (vis, e) = fold_left (cd_step rec2) l (vis, e).
  Proof.
    intros rec1 rec2 k Heq Hpres. induction l as [|v l IH]; intros vis e Hinv Hk; cbn [fold_left]; [reflexivity|].
    unfold cd_step at 2 4.
    destruct (Nat.ltb v n) eqn:Hlt; [|apply IH; assumption].
    destruct (existsb _ vis) eqn:Hex; [apply IH; assumption|].
    apply existsb_eqb_false in Hex. apply Nat.ltb_lt in Hlt.
    assert (Hinv' : vinv ((n - 1 - v) :: vis)).
    { destruct Hinv as [H1 H2]. split; [constructor; assumption|constructor; [lia|assumption]]. }
    destruct (nth_error defs (n - 1 - v)) as [[a dd]|]; [|apply IH; [assumption|simpl; lia]].
    destruct (is_value dd).
    - rewrite <- (Heq _ _ e Hinv') by (simpl; lia).
      destruct (Hpres (n - 1 - v) _ e Hinv') as [Hi Hl].
      destruct (rec1 _ _ _) as [v' e']. simpl in Hi, Hl. apply IH; [assumption|lia].
    - destruct (Nat.leb start _); apply IH; try assumption; simpl; lia.
  Qed.

  Theorem check_definition_fuel_irrelevant : forall f1 f2 cur visited errs,
    vinv visited -> n < f1 + length visited -> n < f2 + length visited ->
    check_definition f1 defs start cur visited errs = check_definition f2 defs start cur visited errs.
  Proof.
    induction f1 as [|f1 IH]; intros f2 cur vis e Hinv H1 H2.
    - apply vinv_length in Hinv. lia.
    - destruct f2 as [|f2]; [apply vinv_length in Hinv; lia|].
      rewrite !check_definition_S. destruct (nth_error defs cur) as [[a d]|]; [|reflexivity].
      apply (cd_fold_fuel _ _ (S (length vis))); [| |assumption|lia].
      + intros di vis' e' Hinv' Hk. apply IH; [assumption|lia|lia].
      + intros di vis' e' Hinv'.
        pose proof (check_definition_visited_grows f1 di vis' e' Hinv') as H. cbv zeta in H.
        destruct H as (Ha & Hb & [ext Hc] & Hd). split; [split; assumption|].
        rewrite Hc, app_length. lia.
  Qed.
End CD.

(* check_definitions supplies S (length ds) units of fuel and starts from the empty visited list: the walk
   never stops because of fuel (more fuel changes nothing), it makes at most 1 + length ds calls and
   at most M * (1 + length ds) loop iterations *)
Theorem check_definitions_fuel_sufficient : forall ds start cur errs extra,
  check_definition (S (length ds) + extra) ds start cur [] errs = check_definition (S (length ds)) ds start cur [] errs.
Proof.
  intros. apply check_definition_fuel_irrelevant; [split; constructor|simpl; lia|simpl; lia].
Qed.

Theorem check_definitions_walk_cost : forall ds start cur errs M,
  Forall (fun p => length (sort_dedup (fvl (snd p) 0)) <= M) ds ->
  let r := check_definition_cost ds start (S (length ds)) cur [] errs in
  res4 r = check_definition (S (length ds)) ds start cur [] errs /\
  calls4 r <= 1 + length ds /\
  iters4 r <= M * (1 + length ds).
Proof.
  intros ds start cur errs M HM r. split; [apply check_definition_cost_same|].
  assert (Hc : calls4 r <= 1 + length ds).
  { pose proof (check_definition_calls_bound ds start (S (length ds)) cur [] errs) as H.
    simpl in H. fold r in H. rewrite Nat.add_0_r in H. apply H. split; constructor. }
  split; [exact Hc|].
  pose proof (check_definition_iters_bound ds start M HM (S (length ds)) cur [] errs) as H. fold r in H. nia.
Qed.

(* the whole group: one walk per non-value definition *)
Fixpoint group_cost (ds : list (term * term)) (l : list (term * term)) (i : nat) : nat * nat :=
  match l with
  | [] => (0, 0)
  | (_, d) :: r =>
      let '(c, it) := group_cost ds r (S i) in
      if is_value d then (c, it)
      else let w := check_definition_cost ds i (S (length ds)) i [] 0 in (calls4 w + c, iters4 w + it)
  end.

Theorem group_cost_bound : forall ds M,
  Forall (fun p => length (sort_dedup (fvl (snd p) 0)) <= M) ds ->
  forall l i, fst (group_cost ds l i) <= length l * (1 + length ds) /\
              snd (group_cost ds l i) <= length l * (M * (1 + length ds)).
Proof.
  intros ds M HM. induction l as [|[a d] l IH]; intros i; [simpl; lia|].
  cbn [group_cost length]. specialize (IH (S i)). destruct (group_cost ds l (S i)) as [c it]. simpl in IH.
  destruct (is_value d); [simpl; lia|].
  destruct (check_definitions_walk_cost ds i i 0 M HM) as (_ & H1 & H2). cbv zeta in H1, H2.
  cbn [fst snd]. destruct IH. split; nia.
Qed.

Corollary group_cost_quadratic : forall ds M,
  Forall (fun p => length (sort_dedup (fvl (snd p) 0)) <= M) ds ->
  fst (group_cost ds ds 0) <= length ds * (1 + length ds) /\
  snd (group_cost ds ds 0) <= M * (length ds * (1 + length ds)).
Proof.
  intros ds M HM. destruct (group_cost_bound ds M HM ds 0) as [H1 H2]. split; [exact H1|]. nia.
Qed.

Print Assumptions check_definition_cost_same.
Print Assumptions check_definition_visited_grows.
Print Assumptions check_definitions_fuel_sufficient.
Print Assumptions check_definitions_walk_cost.
Print Assumptions group_cost_quadratic.

(* ================================================================ W2: reassoc *)
(* the instrumented copy: same recursion, returns the result and the number of calls of reassoc
   (this one included) *)
Fixpoint reassoc_c (k : chain) (acc : option (pterm * binop)) (t : pterm) {struct t} : pterm * nat :=
  let r0 := reassoc_c k None in
  let core (acc : option (pterm * binop)) : pterm * nat :=
    let wrap (reduced : pterm) : pterm :=
      match acc with
      | Some (a, o) => mk_chain k (mk (rstart a) (rend reduced) true 0) o a reduced
      | None => reduced
      end in
    match t with
    | PError _ => (t, 0)
    | PType _ | PInt _ | PBool _ | PTrue _ | PFalse _ | PVar _ _ | PLit _ _ => (wrap (with_info t (same_info t)), 0)
    | PLam _ x xs xe im d b =>
        let '(d', c1) := match d with Some d => let '(d', c) := r0 d in (Some d', c) | None => (None, 0) end in
        let '(b', c2) := r0 b in
        (wrap (PLam (same_info t) x xs xe im d' b'), c1 + c2)
    | PPi _ x xs xe im d c =>
        let '(d', c1) := r0 d in let '(c', c2) := r0 c in
        (wrap (PPi (same_info t) x xs xe im d' c'), c1 + c2)
    | PLet _ x xs xe an d b =>
        let '(an', c0) := match an with Some a => let '(a', c) := r0 a in (Some a', c) | None => (None, 0) end in
        let '(d', c1) := r0 d in let '(b', c2) := r0 b in
        (wrap (PLet (same_info t) x xs xe an' d' b'), c0 + c1 + c2)
    | PNeg _ a => let '(a', c1) := r0 a in (wrap (PNeg (same_info t) a'), c1)
    | PIf _ c a b =>
        let '(c', c0) := r0 c in let '(a', c1) := r0 a in let '(b', c2) := r0 b in
        (wrap (PIf (same_info t) c' a' b'), c0 + c1 + c2)
    | PApp _ f a =>
        match k with
        | ChApp =>
            if grp a then
              match acc with
              | Some (ac, o) =>
                  let '(f', c1) := reassoc_c k acc f in let '(a', c2) := r0 a in
                  (PApp (mk (rstart ac) (rend a) true 0) f' a', c1 + c2)
              | None =>
                  let '(f', c1) := r0 f in let '(a', c2) := r0 a in
                  (PApp (same_info t) f' a', c1 + c2)
              end
            else
              let '(f', c1) := r0 f in
              let acc' := match acc with
                          | Some (ac, o) => PApp (mk (rstart ac) (rend f) true 0) ac f'
                          | None => f' end in
              let '(r, c2) := reassoc_c k (Some (acc', OSum)) a in (r, c1 + c2)
        | _ => let '(f', c1) := r0 f in let '(a', c2) := r0 a in
               (wrap (PApp (same_info t) f' a'), c1 + c2)
        end
    | PBin _ o a b =>
        match chain_op k t with
        | Some (o', _, _) =>
            if grp b then
              match acc with
              | Some (ac, _) =>
                  let '(a', c1) := reassoc_c k acc a in let '(b', c2) := r0 b in
                  (PBin (mk (rstart ac) (rend b) true 0) o' a' b', c1 + c2)
              | None =>
                  let '(a', c1) := r0 a in let '(b', c2) := r0 b in
                  (PBin (same_info t) o' a' b', c1 + c2)
              end
            else
              let '(a', c1) := r0 a in
              let acc' := match acc with
                          | Some (ac, oa) => PBin (mk (rstart ac) (rend a) true 0) oa ac a'
                          | None => a' end in
              let '(r, c2) := reassoc_c k (Some (acc', o')) b in (r, c1 + c2)
        | None => let '(a', c1) := r0 a in let '(b', c2) := r0 b in
                  (wrap (PBin (same_info t) o a' b'), c1 + c2)
        end
    end in
  let '(r, c) :=
    match acc with
    | Some (a, o) =>
        if grp t then let '(reduced, c) := core None in (mk_chain k (mk (rstart a) (rend reduced) true 0) o a reduced, c)
        else core acc
    | None => core None
    end in
  (r, S c).

Definition reassoc_cost k acc t : nat := snd (reassoc_c k acc t).

Ltac rw_ih := match goal with
  | H : forall k acc, reassoc_c k acc _ = _ |- _ => rewrite !H
  end.
Ltac rc_fin := cbn; repeat (destruct (grp _)); repeat (rw_ih; cbn); try reflexivity.

Theorem reassoc_c_spec : forall t k acc, reassoc_c k acc t = (reassoc k acc t, psize t).
Proof.
  induction t using ReassocProofs.pterm_ind'; intros k acc.
  all: try match goal with H : ReassocProofs.Popt _ ?d |- _ => destruct d; cbn in H end.
  all: destruct acc as [[ac oa]|]; destruct k.
  all: try match goal with |- context [PBin _ ?o _ _] => is_var o; destruct o end.
  all: rc_fin.
Qed.

Corollary reassoc_cost_same : forall k acc t, fst (reassoc_c k acc t) = reassoc k acc t.
Proof. intros. rewrite reassoc_c_spec. reflexivity. Qed.

(* every node is visited exactly once per pass: c = 1 *)
Corollary reassoc_cost_bound : forall k acc t, reassoc_cost k acc t <= 1 * psize t.
Proof. intros. unfold reassoc_cost. rewrite reassoc_c_spec. simpl. lia. Qed.

(* a pass does not change the number of nodes (so the three passes cost the same) *)
Definition acc_size (acc : option (pterm * binop)) : nat :=
  match acc with Some (a, _) => S (psize a) | None => 0 end.

Ltac ps_step := match goal with
  | H : forall k acc, psize (reassoc k acc ?x) <= _ |- context [psize (reassoc ?k ?acc ?x)] =>
      let H' := fresh in pose proof (H k acc) as H'; cbn in H'; revert H';
      generalize (psize (reassoc k acc x)); intro
  end.

(* <= and not =: an error node (unreachable after a successful parse) drops the accumulator *)
Lemma psize_reassoc : forall t k acc, psize (reassoc k acc t) <= psize t + acc_size acc.
Proof.
  induction t using ReassocProofs.pterm_ind'; intros k acc.
  all: try match goal with H : ReassocProofs.Popt _ ?d |- _ => destruct d; cbn in H end.
  all: destruct acc as [[ac oa]|]; destruct k.
  all: try match goal with |- context [PBin _ ?o _ _] => is_var o; destruct o end.
  all: cbn; repeat (destruct (grp _)); cbn; repeat ps_step; intros; try lia.
Qed.

Definition reassociate_c (t : pterm) : pterm * nat :=
  let '(t1, c1) := reassoc_c ChApp None t in
  let '(t2, c2) := reassoc_c ChMul None t1 in
  let '(t3, c3) := reassoc_c ChAdd None t2 in
  (t3, c1 + c2 + c3).

Theorem reassociate_cost_bound : forall t,
  fst (reassociate_c t) = reassociate t /\ snd (reassociate_c t) <= 3 * psize t.
Proof.
  intros t. unfold reassociate_c, reassociate. rewrite !reassoc_c_spec. cbn [fst snd]. split; [reflexivity|].
  pose proof (psize_reassoc t ChApp None) as H1.
  pose proof (psize_reassoc (reassoc ChApp None t) ChMul None) as H2.
  simpl in H1, H2. lia.
Qed.

Print Assumptions reassoc_c_spec.
Print Assumptions reassoc_cost_bound.
Print Assumptions reassociate_cost_bound.

(* ================================================================ non-vacuity *)
(* a DAG-shaped group of n helper functions: helper i mentions helpers i+1 and i+2 (the number of
   PATHS from helper 0 is Fibonacci in n; the walk expands each helper once) *)
Definition helper (n i : nat) : term * term :=
  (TPi false TInt TInt, TLam false TInt (TBin OSum (TApp (TVar (n - (i + 1))) (TVar 0)) (TApp (TVar (n - (i + 2))) (TVar 0)))).
Definition dag (n : nat) : list (term * term) := map (helper n) (seq 0 n).
(* a group whose first definition is a computed one that calls helper 1 *)
Definition dag_group (n : nat) : list (term * term) :=
  (TInt, TApp (TVar (S n - 1 - 1)) (TLit 0)) :: map (fun i => helper (S n) (S i)) (seq 0 n).

Example dag12_calls :
  let r := check_definition_cost (dag 12) 0 13 0 [] 0 in (calls4 r, iters4 r, length (fst (res4 r))) = (12, 21, 11).
Proof. vm_compute. reflexivity. Qed.
Example dag24_calls :
  let r := check_definition_cost (dag 24) 0 25 0 [] 0 in (calls4 r, iters4 r) = (24, 45).
Proof. vm_compute. reflexivity. Qed.
Example dag_group12 : group_cost (dag_group 12) (dag_group 12) 0 = (13, 22).
Proof. vm_compute. reflexivity. Qed.
Example dag_group12_result : check_definitions (TLet (dag_group 12) (TVar 0)) = CDOk 0.
Proof. vm_compute. reflexivity. Qed.

(* f (f (f 1 2) 2) 2 nested d times: parenthesised operands carry the group flag *)
Definition i0 : pinfo := mk 0 0 false 0.
Definition ig : pinfo := mk 0 0 true 0.
Fixpoint nest (d : nat) : pterm :=
  match d with
  | O => PLit i0 1
  | S d' => PApp i0 (PVar i0 [102%N]) (PApp i0 (with_info (nest d') ig) (PLit i0 2))
  end.
Example nest_costs :
  map (fun d => (psize (nest d), reassoc_cost ChApp None (nest d), snd (reassociate_c (nest d)))) [1; 2; 3; 10; 20; 40]
  = [(5, 5, 15); (9, 9, 27); (13, 13, 39); (41, 41, 123); (81, 81, 243); (161, 161, 483)].
Proof. vm_compute. reflexivity. Qed.

(* ================================================================ W3: resolve *)
Definition R4 := (term * ctx * rstate * nat)%type.

(* the step of the loop over the definitions of a group, parametrised by the recursive call *)
Definition rdef_step (rec : pterm -> nat -> ctx -> rstate -> term * ctx * rstate) (n nd : nat)
  (st : list (term * term) * ctx * rstate * nat) (df : name * option pterm * pterm) :=
  let '(acc, c, s, i) := st in
  let '(x, an, d) := df in
  let s0 := rname s x in
  let '(an', c', s') := match an with
                        | Some a => rec a nd c s0
                        | None => let '(h, s1) := rfresh s0 in (THole h (n - i), c, s1) end in
  let '(d', c'', s'') := rec d nd c' s' in
  (acc ++ [(an', d')], c'', s'', S i).

Definition rdef_step_c (rec : pterm -> nat -> ctx -> rstate -> R4) (n nd : nat)
  (st : list (term * term) * ctx * rstate * nat * nat) (df : name * option pterm * pterm) :=
  let '(acc, c, s, i, k) := st in
  let '(x, an, d) := df in
  let s0 := rname s x in
  let '(an', c', s', k1) := match an with
                        | Some a => rec a nd c s0
                        | None => let '(h, s1) := rfresh s0 in (THole h (n - i), c, s1, 0) end in
  let '(d', c'', s'', k2) := rec d nd c' s' in
  (acc ++ [(an', d')], c'', s'', S i, k + k1 + k2).

Fixpoint resolve_c (fuel : nat) (t : pterm) (depth : nat) (c : ctx) (s : rstate) : R4 :=
  match fuel with
  | O => (TType, c, radd_err s, 1)
  | S f =>
    match t with
    | PError _ => (TType, c, radd_err s, 1)
    | PType _ => (TType, c, s, 1) | PInt _ => (TInt, c, s, 1) | PBool _ => (TBool, c, s, 1)
    | PTrue _ => (TTrue, c, s, 1) | PFalse _ => (TFalse, c, s, 1) | PLit _ z => (TLit z, c, s, 1)
    | PVar _ x =>
        match ctx_get c x with
        | Some vd => (TVar (depth - 1 - vd), c, rname s x, 1)
        | None =>
            let s1 := if name_eqb x placeholder then s else radd_err s in
            let '(h, s2) := rfresh s1 in (THole h 0, c, s2, 1)
        end
    | PLam _ x _ _ im d b =>
        let '(d', c1, s1, k1) := match d with
                             | Some d => resolve_c f d depth c s
                             | None => let '(h, s1) := rfresh s in (THole h 0, c, s1, 0) end in
        let '(c2, s2) := enter_binder c1 x depth s1 in
        let '(b', c3, s3, k2) := resolve_c f b (S depth) c2 (rname s2 x) in
        (TLam im d' b', ctx_remove c3 x, s3, S (k1 + k2))
    | PPi _ x _ _ im d b =>
        let '(d', c1, s1, k1) := resolve_c f d depth c s in
        let '(c2, s2) := enter_binder c1 x depth s1 in
        let '(b', c3, s3, k2) := resolve_c f b (S depth) c2 (rname s2 x) in
        (TPi im d' b', ctx_remove c3 x, s3, S (k1 + k2))
    | PApp _ g a =>
        let '(g', c1, s1, k1) := resolve_c f g depth c s in
        let '(a', c2, s2, k2) := resolve_c f a depth c1 s1 in (TApp g' a', c2, s2, S (k1 + k2))
    | PLet _ _ _ _ _ _ _ =>
        let '(defs, body) := collect_definitions t in
        let n := length defs in
        let '(c1, s1, added, _) :=
          fold_left (fun (st : ctx * rstate * list name * nat) (df : name * option pterm * pterm) =>
                       let '(c, s, added, i) := st in
                       let x := fst (fst df) in
                       if name_eqb x placeholder then (c, s, added, S i)
                       else (ctx_insert c x (depth + i), (match ctx_get c x with Some _ => radd_err s | None => s end), x :: added, S i))
                    defs (c, s, [], 0) in
        let nd := depth + n in
        let '(rdefs, c2, s2, _, k) := fold_left (rdef_step_c (resolve_c f) n nd) defs ([], c1, s1, 0, 0) in
        let '(b', c3, s3, k3) := resolve_c f body nd c2 s2 in
        (TLet rdefs b', fold_left ctx_remove (rev added) c3, s3, S (k + k3))
    | PNeg _ a => let '(a', c1, s1, k1) := resolve_c f a depth c s in (TNeg a', c1, s1, S k1)
    | PBin _ o a b =>
        let '(a', c1, s1, k1) := resolve_c f a depth c s in
        let '(b', c2, s2, k2) := resolve_c f b depth c1 s1 in (TBin o a' b', c2, s2, S (k1 + k2))
    | PIf _ cd a b =>
        let '(c', c1, s1, k0) := resolve_c f cd depth c s in
        let '(a', c2, s2, k1) := resolve_c f a depth c1 s1 in
        let '(b', c3, s3, k2) := resolve_c f b depth c2 s2 in (TIf c' a' b', c3, s3, S (k0 + k1 + k2))
    end
  end.

(* resolve's own loop is rdef_step *)
Lemma resolve_let_unfold : forall f i x xs xe an d b depth c s,
  resolve (S f) (PLet i x xs xe an d b) depth c s =
  let t := PLet i x xs xe an d b in
  let '(defs, body) := collect_definitions t in
  let n := length defs in
  let '(c1, s1, added, _) :=
    fold_left (fun (st : ctx * rstate * list name * nat) (df : name * option pterm * pterm) =>
                 let '(c, s, added, i) := st in
                 let x := fst (fst df) in
                 if name_eqb x placeholder then (c, s, added, S i)
                 else (ctx_insert c x (depth + i), (match ctx_get c x with Some _ => radd_err s | None => s end), x :: added, S i))
              defs (c, s, [], 0) in
  let nd := depth + n in
  let '(rdefs, c2, s2, _) := fold_left (rdef_step (resolve f) n nd) defs ([], c1, s1, 0) in
  let '(b', c3, s3) := resolve f body nd c2 s2 in
  (TLet rdefs b', fold_left ctx_remove (rev added) c3, s3).
Proof. reflexivity. Qed.

Lemma rdef_fold_same : forall rec rec4 n nd,
  (forall t d c s, fst (rec4 t d c s) = rec t d c s) ->
  forall defs st5, fst (fold_left (rdef_step_c rec4 n nd) defs st5) = fold_left (rdef_step rec n nd) defs (fst st5).
Proof.
  intros rec rec4 n nd Hrec. induction defs as [|df defs IH]; intros st5; cbn [fold_left]; [reflexivity|].
  rewrite IH. f_equal.
  destruct st5 as [[[[acc c] s] i] k], df as [[x an] d]. unfold rdef_step_c, rdef_step. cbn [fst].
  destruct an as [a|].
  - rewrite <- (Hrec a). destruct (rec4 a _ _ _) as [[[? ?] ?] ?]. cbn [fst].
    rewrite <- (Hrec d). destruct (rec4 d _ _ _) as [[[? ?] ?] ?]. reflexivity.
  - cbn. rewrite <- (Hrec d). destruct (rec4 d _ _ _) as [[[? ?] ?] ?]. reflexivity.
Qed.

Ltac same_step IH :=
  match goal with
  | |- context [resolve_c ?f ?t ?d ?c ?s] =>
      rewrite <- (IH t d c s); destruct (resolve_c f t d c s) as [[[? ?] ?] ?]; cbn -[enter_binder]
  | |- context [enter_binder ?a ?b ?c ?d] => destruct (enter_binder a b c d); cbn -[enter_binder]
  end.

Theorem resolve_c_same : forall f t depth c s, fst (resolve_c f t depth c s) = resolve f t depth c s.
Proof.
  induction f as [|f IH]; intros t depth c s; [reflexivity|].
  destruct t.
  all: try (cbn -[enter_binder]; repeat same_step IH; reflexivity).
  - cbn. destruct (ctx_get c x); [reflexivity|]. destruct (name_eqb x placeholder); reflexivity.
  - destruct dom; cbn -[enter_binder]; repeat same_step IH; reflexivity.
  - rewrite resolve_let_unfold. cbn [resolve_c]. cbv zeta.
    destruct (collect_definitions _) as [defs body].
    destruct (fold_left _ defs (c, s, [], 0)) as [[[c1 s1] added] ?].
    pose proof (rdef_fold_same (resolve f) (resolve_c f) (length defs) (depth + length defs) IH defs ([], c1, s1, 0, 0)) as HF.
    cbn [fst] in HF. rewrite <- HF.
    destruct (fold_left (rdef_step_c _ _ _) _ _) as [[[[? ?] ?] ?] ?]. cbn [fst].
    repeat same_step IH. reflexivity.
Qed.

Definition osize (o : option pterm) : nat := match o with Some a => psize a | None => 0 end.
Fixpoint defs_size (ds : list (name * option pterm * pterm)) : nat :=
  match ds with [] => 0 | (_, an, d) :: r => osize an + psize d + defs_size r end.

Lemma collect_size : forall t,
  psize t = length (fst (collect_definitions t)) + defs_size (fst (collect_definitions t)) + psize (snd (collect_definitions t)).
Proof.
  induction t; try reflexivity.
  cbn [collect_definitions]. destruct (collect_definitions t2) as [ds body]. cbn [fst snd] in *.
  cbn [length defs_size]. change (psize (PLet i x xs xe ann t1 t2)) with (S (osize ann + psize t1 + psize t2)). lia.
Qed.

Lemma rdef_fold_cost : forall rec4 n nd,
  (forall t d c s, snd (rec4 t d c s) <= psize t) ->
  forall defs st5, snd (fold_left (rdef_step_c rec4 n nd) defs st5) <= snd st5 + defs_size defs.
Proof.
  intros rec4 n nd Hrec. induction defs as [|df defs IH]; intros st5; cbn [fold_left]; [simpl; lia|].
  etransitivity; [apply IH|].
  destruct st5 as [[[[acc c] s] i] k], df as [[x an] d]. unfold rdef_step_c. cbn [defs_size snd].
  destruct an as [a|].
  - pose proof (Hrec a (nd) c (rname s x)) as H1. destruct (rec4 a _ _ _) as [[[? ?] ?] ?]. cbn [snd] in H1.
    match goal with |- context [rec4 d ?a ?b ?c] => pose proof (Hrec d a b c) as H2; destruct (rec4 d a b c) as [[[? ?] ?] ?] end.
    cbn [snd osize] in *. lia.
  - cbn. match goal with |- context [rec4 d ?a ?b ?c] => pose proof (Hrec d a b c) as H2; destruct (rec4 d a b c) as [[[? ?] ?] ?] end.
    cbn [snd] in *. lia.
Qed.

Ltac cost_step IH :=
  match goal with
  | |- context [resolve_c ?f ?t ?d ?c ?s] =>
      let H := fresh "H" in pose proof (IH t d c s) as H;
      destruct (resolve_c f t d c s) as [[[? ?] ?] ?]; cbn [snd] in H; cbn -[enter_binder psize]
  | |- context [enter_binder ?a ?b ?c ?d] => destruct (enter_binder a b c d); cbn -[enter_binder psize]
  end.

Theorem resolve_cost_bound : forall f t depth c s, snd (resolve_c f t depth c s) <= psize t.
Proof.
  induction f as [|f IH]; intros t depth c s; [destruct t; simpl; lia|].
  destruct t.
  all: try (cbn -[enter_binder psize]; repeat cost_step IH; cbn; lia).
  - cbn. destruct (ctx_get c x); [simpl; lia|]. destruct (name_eqb x placeholder); simpl; lia.
  - destruct dom; cbn -[enter_binder psize]; repeat cost_step IH; cbn; lia.
  - rewrite (collect_size (PLet i x xs xe ann t1 t2)).
    assert (Hl : 1 <= length (fst (collect_definitions (PLet i x xs xe ann t1 t2)))).
    { cbn [collect_definitions]. destruct (collect_definitions t2). simpl. lia. }
    cbn [resolve_c]. cbv zeta. revert Hl.
    destruct (collect_definitions _) as [defs body]. cbn [fst snd]. intros Hl.
    destruct (fold_left _ defs (c, s, [], 0)) as [[[c1 s1] added] ?].
    pose proof (rdef_fold_cost (resolve_c f) (length defs) (depth + length defs) IH defs ([], c1, s1, 0, 0)) as HF.
    destruct (fold_left (rdef_step_c _ _ _) _ _) as [[[[? ?] ?] ?] ?]. cbn [snd] in HF.
    repeat cost_step IH. cbn [snd].
    lia.
Qed.

(* parse_top calls resolve with fuel S (psize r): at most psize r calls *)
Corollary resolve_cost_parse_top : forall r depth c s,
  fst (resolve_c (S (psize r)) r depth c s) = resolve (S (psize r)) r depth c s /\
  snd (resolve_c (S (psize r)) r depth c s) <= psize r.
Proof. intros. split; [apply resolve_c_same|apply resolve_cost_bound]. Qed.

Print Assumptions resolve_c_same.
Print Assumptions resolve_cost_bound.
