(* C11: laws of the de Bruijn operations (all term formers, groups included). *)
From Coq Require Import List ZArith Lia Bool Arith.
Import ListNotations.
Require Import Gram.Model.Term Gram.Model.DeBruijn.

Lemma shift_idx_0 i c : shift_idx i c 0 = Some i.
Proof. unfold shift_idx. destruct (Nat.leb c i) eqn:E; auto. rewrite Z.add_0_r.
  apply Nat.leb_le in E. destruct (Z.leb_spec (Z.of_nat c) (Z.of_nat i)); [|lia]. now rewrite Nat2Z.id. Qed.

Lemma shift_idx_up i c n : shift_idx i c (Z.of_nat n) = Some (up_idx i c n).
Proof. unfold shift_idx, up_idx. destruct (Nat.leb c i) eqn:E; auto.
  apply Nat.leb_le in E. destruct (Z.leb_spec (Z.of_nat c) (Z.of_nat i + Z.of_nat n)); [|lia].
  f_equal. lia. Qed.

Lemma omap_map {A B} (f : A -> option B) (g : A -> B) l :
  Forall (fun a => f a = Some (g a)) l -> omap f l = Some (map g l).
Proof. induction 1; simpl; auto. rewrite H, IHForall. reflexivity. Qed.

Ltac IHs := repeat match goal with IH : forall _, _ |- _ => rewrite IH; clear IH; cbn [obind] end.

Theorem ushift_total : forall t c n, sshift t c (Z.of_nat n) = Some (ushift t c n).
Proof.
  induction t using term_ind'; intros c n; cbn [sshift ushift obind]; rewrite ?shift_idx_up; cbn [obind];
    try reflexivity.
  1-3,5-7: repeat match goal with IH : forall c n, sshift ?t c _ = _ |- _ => rewrite IH; clear IH; cbn [obind] end; reflexivity.
  rewrite (omap_map _ (fun p => let '(a, d) := p in (ushift a (length ds + c) n, ushift d (length ds + c) n))).
  - cbn [obind]. rewrite IHt. reflexivity.
  - eapply Forall_impl; [|exact H]. intros [a d] [Ha Hd]; simpl in *. rewrite Ha; cbn [obind]. rewrite Hd. reflexivity.
Qed.

Lemma up_idx_0 i c : up_idx i c 0 = i.
Proof. unfold up_idx. destruct (Nat.leb c i); lia. Qed.

Lemma map_id' {A} (f : A -> A) l : Forall (fun a => f a = a) l -> map f l = l.
Proof. induction 1; simpl; congruence. Qed.

Theorem ushift_zero : forall t c, ushift t c 0 = t.
Proof.
  induction t using term_ind'; intros c; cbn [ushift]; rewrite ?up_idx_0; try congruence.
  f_equal; auto. apply map_id'. eapply Forall_impl; [|exact H]. intros [a d] [Ha Hd]; simpl in *. congruence.
Qed.

Theorem sshift_zero t c : sshift t c 0 = Some t.
Proof. change 0%Z with (Z.of_nat 0). now rewrite ushift_total, ushift_zero. Qed.

Lemma up_idx_add i c m n : up_idx (up_idx i c m) c n = up_idx i c (m + n).
Proof. unfold up_idx. destruct (Nat.leb c i) eqn:E.
  - apply Nat.leb_le in E. destruct (Nat.leb_spec c (i + m)); lia.
  - now rewrite E. Qed.

Theorem ushift_add : forall t c m n, ushift (ushift t c m) c n = ushift t c (m + n).
Proof.
  induction t using term_ind'; intros c m n; cbn [ushift]; rewrite ?up_idx_add; try congruence.
  rewrite map_length. f_equal; auto. rewrite map_map. apply map_ext_Forall.
  eapply Forall_impl; [|exact H]. intros [a d] [Ha Hd]; simpl in *. congruence.
Qed.

(* shift_idx composition and inverse *)
Lemma shift_idx_compose i c a b j k :
  shift_idx i c a = Some j -> shift_idx j c b = Some k -> shift_idx i c (a + b) = Some k.
Proof.
  unfold shift_idx. destruct (Nat.leb c i) eqn:E.
  - apply Nat.leb_le in E. destruct (Z.leb_spec (Z.of_nat c) (Z.of_nat i + a)); [|discriminate].
    intros [= <-]. destruct (Nat.leb_spec c (Z.to_nat (Z.of_nat i + a))); [|lia].
    rewrite Z2Nat.id by lia. destruct (Z.leb_spec (Z.of_nat c) (Z.of_nat i + a + b)); [|discriminate].
    intros [= <-]. rewrite Z.add_assoc. destruct (Z.leb_spec (Z.of_nat c) (Z.of_nat i + a + b)); [|lia]. reflexivity.
  - intros [= <-]. rewrite E. now intros [= <-].
Qed.

Lemma omap_compose {A} (f g h : A -> option A) l l1 l2 :
  Forall (fun a => forall b c, f a = Some b -> g b = Some c -> h a = Some c) l ->
  omap f l = Some l1 -> omap g l1 = Some l2 -> omap h l = Some l2.
Proof.
  intros H; revert l1 l2; induction H as [|a l Ha Hl IH]; intros l1 l2; simpl.
  - intros [= <-]; simpl. now intros [= <-].
  - destruct (f a) as [b|] eqn:Fa; [|discriminate]. destruct (omap f l) as [bs|] eqn:Fl; [|discriminate].
    intros [= <-]; simpl. destruct (g b) as [c|] eqn:Gb; [|discriminate].
    destruct (omap g bs) as [cs|] eqn:Gl; [|discriminate]. intros [= <-].
    rewrite (Ha _ _ eq_refl Gb), (IH _ _ eq_refl Gl). reflexivity.
Qed.

Lemma omap_length {A B} (f : A -> option B) l l' : omap f l = Some l' -> length l' = length l.
Proof. revert l'; induction l; simpl; intros l'.
  - now intros [= <-].
  - destruct (f a); [|discriminate]. destruct (omap f l) eqn:E; [|discriminate]. intros [= <-]. simpl. f_equal; auto. Qed.

Ltac inv_bind H :=
  match type of H with
  | obind ?o _ = Some _ => let E := fresh "E" in destruct o eqn:E; cbn [obind] in H; [|discriminate H]
  end.

Theorem sshift_compose : forall t c a b u w,
  sshift t c a = Some u -> sshift u c b = Some w -> sshift t c (a + b) = Some w.
Proof.
  induction t using term_ind'; intros c a b u w H1 H2; cbn [sshift] in H1;
    try (injection H1 as <-; cbn [sshift] in H2 |- *; exact H2).
  - inv_bind H1. injection H1 as <-. cbn [sshift] in H2 |- *. inv_bind H2. injection H2 as <-.
    now rewrite (shift_idx_compose _ _ _ _ _ _ E E0).
  - inv_bind H1. injection H1 as <-. cbn [sshift] in H2 |- *. inv_bind H2. injection H2 as <-.
    now rewrite (shift_idx_compose _ _ _ _ _ _ E E0).
  - inv_bind H1. inv_bind H1. injection H1 as <-. cbn [sshift] in H2 |- *. inv_bind H2. inv_bind H2. injection H2 as <-.
    now rewrite (IHt1 _ _ _ _ _ E E1), (IHt2 _ _ _ _ _ E0 E2).
  - inv_bind H1. inv_bind H1. injection H1 as <-. cbn [sshift] in H2 |- *. inv_bind H2. inv_bind H2. injection H2 as <-.
    now rewrite (IHt1 _ _ _ _ _ E E1), (IHt2 _ _ _ _ _ E0 E2).
  - inv_bind H1. inv_bind H1. injection H1 as <-. cbn [sshift] in H2 |- *. inv_bind H2. inv_bind H2. injection H2 as <-.
    now rewrite (IHt1 _ _ _ _ _ E E1), (IHt2 _ _ _ _ _ E0 E2).
  - cbv zeta in H1. inv_bind H1. inv_bind H1. injection H1 as <-. cbn [sshift] in H2 |- *. cbv zeta in *.
    rewrite (omap_length _ _ _ E) in H2. inv_bind H2. inv_bind H2. injection H2 as <-.
    erewrite omap_compose; [cbn [obind] | | exact E | exact E1].
    + now rewrite (IHt _ _ _ _ _ E0 E2).
    + eapply Forall_impl; [|exact H]. intros [x y] [Hx Hy] [x1 y1] [x2 y2]; simpl in *.
      intros K1 K2. inv_bind K1. inv_bind K1. injection K1 as <- <-. inv_bind K2. inv_bind K2. injection K2 as <- <-.
      now rewrite (Hx _ _ _ _ _ E3 E5), (Hy _ _ _ _ _ E4 E6).
  - inv_bind H1. injection H1 as <-. cbn [sshift] in H2 |- *. inv_bind H2. injection H2 as <-.
    now rewrite (IHt _ _ _ _ _ E E0).
  - inv_bind H1. inv_bind H1. injection H1 as <-. cbn [sshift] in H2 |- *. inv_bind H2. inv_bind H2. injection H2 as <-.
    now rewrite (IHt1 _ _ _ _ _ E E1), (IHt2 _ _ _ _ _ E0 E2).
  - inv_bind H1. inv_bind H1. inv_bind H1. injection H1 as <-. cbn [sshift] in H2 |- *.
    inv_bind H2. inv_bind H2. inv_bind H2. injection H2 as <-.
    now rewrite (IHt1 _ _ _ _ _ E E2), (IHt2 _ _ _ _ _ E0 E3), (IHt3 _ _ _ _ _ E1 E4).
Qed.

Lemma shift_idx_down_up i c n : shift_idx (up_idx i c n) c (- Z.of_nat n) = Some i.
Proof.
  unfold shift_idx, up_idx. destruct (Nat.leb c i) eqn:E.
  - apply Nat.leb_le in E. destruct (Nat.leb_spec c (i + n)); [|lia].
    destruct (Z.leb_spec (Z.of_nat c) (Z.of_nat (i + n) + - Z.of_nat n)); [|lia]. f_equal; lia.
  - now rewrite E.
Qed.

Lemma omap_map_inv {A B} (f : B -> option A) (g : A -> B) l :
  Forall (fun a => f (g a) = Some a) l -> omap f (map g l) = Some l.
Proof. induction 1; simpl; auto. rewrite H, IHForall. reflexivity. Qed.

Theorem sshift_down_up : forall t c n, sshift (ushift t c n) c (- Z.of_nat n) = Some t.
Proof.
  induction t using term_ind'; intros c n; cbn [sshift ushift obind]; rewrite ?shift_idx_down_up; cbn [obind];
    try reflexivity.
  1-3,5-7: repeat match goal with IH : forall c n, sshift (ushift ?t c n) c _ = _ |- _ => rewrite IH; clear IH; cbn [obind] end; reflexivity.
  rewrite map_length. rewrite omap_map_inv.
  - cbn [obind]. rewrite IHt. reflexivity.
  - eapply Forall_impl; [|exact H]. intros [a d] [Ha Hd]; simpl in *. rewrite Ha; cbn [obind]. rewrite Hd. reflexivity.
Qed.

(* a downward shift succeeds exactly when no free variable would become unbound *)
Lemma shift_idx_down_some i c n j :
  shift_idx i c (- Z.of_nat n) = Some j -> forall v, i = v + c -> n <= v.
Proof.
  unfold shift_idx. intros H v ->. destruct (Nat.leb_spec c (v + c)); [|lia].
  destruct (Z.leb_spec (Z.of_nat c) (Z.of_nat (v + c) + - Z.of_nat n)); [lia|discriminate].
Qed.

Lemma omap_In {A B} (f : A -> option B) l l' a : omap f l = Some l' -> In a l -> exists b, f a = Some b.
Proof.
  revert l'; induction l as [|x l IH]; simpl; intros l' H Hin; [easy|].
  destruct (f x) eqn:Fx; [|discriminate]. destruct (omap f l) eqn:Fl; [|discriminate].
  destruct Hin as [->|Hin]; eauto.
Qed.

Theorem sshift_down_sound : forall t c n u,
  sshift t c (- Z.of_nat n) = Some u -> forall v, occurs t c v = true -> n <= v.
Proof.
  induction t using term_ind'; intros c n u Hs v Ho; cbn [sshift occurs] in *; try discriminate.
  - inv_bind Hs. apply Nat.eqb_eq in Ho. eapply shift_idx_down_some; eauto.
  - inv_bind Hs. inv_bind Hs. apply orb_prop in Ho as [Ho|Ho]; eauto.
  - inv_bind Hs. inv_bind Hs. apply orb_prop in Ho as [Ho|Ho]; eauto.
  - inv_bind Hs. inv_bind Hs. apply orb_prop in Ho as [Ho|Ho]; eauto.
  - cbv zeta in *. inv_bind Hs. inv_bind Hs. apply orb_prop in Ho as [Ho|Ho]; eauto.
    apply existsb_exists in Ho as ([a d] & Hin & Ho).
    rewrite Forall_forall in H. destruct (H _ Hin) as [Ha Hd]; simpl in *.
    destruct (omap_In _ _ _ _ E Hin) as ([a' d'] & K). inv_bind K. inv_bind K.
    apply orb_prop in Ho as [Ho|Ho]; eauto.
  - inv_bind Hs. eauto.
  - inv_bind Hs. inv_bind Hs. apply orb_prop in Ho as [Ho|Ho]; eauto.
  - inv_bind Hs. inv_bind Hs. inv_bind Hs. apply orb_prop in Ho as [Ho|Ho]; [apply orb_prop in Ho as [Ho|Ho]|]; eauto.
Qed.

Lemma omap_some {A B} (f : A -> option B) l :
  Forall (fun a => exists b, f a = Some b) l -> exists l', omap f l = Some l'.
Proof. induction 1 as [|a l [b Hb] _ [l' IH]]; simpl; eauto. rewrite Hb, IH. eauto. Qed.

Lemma shift_idx_down_complete i c n :
  (forall v, i = v + c -> n <= v) -> exists j, shift_idx i c (- Z.of_nat n) = Some j.
Proof.
  intros H. unfold shift_idx. destruct (Nat.leb_spec c i); eauto.
  specialize (H (i - c) ltac:(lia)).
  destruct (Z.leb_spec (Z.of_nat c) (Z.of_nat i + - Z.of_nat n)); eauto. lia.
Qed.

Theorem sshift_down_complete : forall t c n, hole_free t = true ->
  (forall v, occurs t c v = true -> n <= v) -> exists u, sshift t c (- Z.of_nat n) = Some u.
Proof.
  induction t using term_ind'; intros c n Hf Ho; cbn [sshift hole_free occurs] in *; eauto; try discriminate.
  - destruct (shift_idx_down_complete i c n) as [j ->]; cbn [obind]; eauto.
    intros v ->. apply Ho. apply Nat.eqb_refl.
  - apply andb_prop in Hf as [F1 F2].
    destruct (IHt1 c n F1) as [u1 ->]; [intros; apply Ho; now rewrite H|]. cbn [obind].
    destruct (IHt2 (S c) n F2) as [u2 ->]; [intros; apply Ho; rewrite H; apply orb_true_r|]. cbn [obind]. eauto.
  - apply andb_prop in Hf as [F1 F2].
    destruct (IHt1 c n F1) as [u1 ->]; [intros; apply Ho; now rewrite H|]. cbn [obind].
    destruct (IHt2 (S c) n F2) as [u2 ->]; [intros; apply Ho; rewrite H; apply orb_true_r|]. cbn [obind]. eauto.
  - apply andb_prop in Hf as [F1 F2].
    destruct (IHt1 c n F1) as [u1 ->]; [intros; apply Ho; now rewrite H|]. cbn [obind].
    destruct (IHt2 c n F2) as [u2 ->]; [intros; apply Ho; rewrite H; apply orb_true_r|]. cbn [obind]. eauto.
  - cbv zeta in *. apply andb_prop in Hf as [F1 F2].
    edestruct (omap_some (fun p : term * term => let '(a, d) := p in
                 a' <- sshift a (length ds + c) (- Z.of_nat n);; d' <- sshift d (length ds + c) (- Z.of_nat n);; Some (a', d')) ds) as [ds' ->].
    { rewrite Forall_forall in *. intros [a d] Hin. destruct (H _ Hin) as [Ha Hd]; simpl in *.
      rewrite forallb_forall in F1. specialize (F1 _ Hin). simpl in F1. apply andb_prop in F1 as [Fa Fd].
      assert (Oc : forall v, (occurs a (length ds + c) v || occurs d (length ds + c) v) = true -> n <= v).
      { intros v K. apply Ho. apply orb_true_iff; left. apply existsb_exists. exists (a, d); auto. }
      destruct (Ha (length ds + c) n Fa) as [a' ->]; [intros; apply Oc; now rewrite H0|]. cbn [obind].
      destruct (Hd (length ds + c) n Fd) as [d' ->]; [intros; apply Oc; rewrite H0; apply orb_true_r|]. cbn [obind]. eauto. }
    cbn [obind]. destruct (IHt (length ds + c) n F2) as [b' ->]; [intros; apply Ho; rewrite H0; apply orb_true_r|].
    cbn [obind]. eauto.
  - destruct (IHt c n Hf) as [u ->]; auto. cbn [obind]; eauto.
  - apply andb_prop in Hf as [F1 F2].
    destruct (IHt1 c n F1) as [u1 ->]; [intros; apply Ho; now rewrite H|]. cbn [obind].
    destruct (IHt2 c n F2) as [u2 ->]; [intros; apply Ho; rewrite H; apply orb_true_r|]. cbn [obind]. eauto.
  - apply andb_prop in Hf as [F12 F3]. apply andb_prop in F12 as [F1 F2].
    destruct (IHt1 c n F1) as [u1 ->]; [intros; apply Ho; now rewrite H|]. cbn [obind].
    destruct (IHt2 c n F2) as [u2 ->]; [intros; apply Ho; rewrite H, orb_true_r; reflexivity|]. cbn [obind].
    destruct (IHt3 c n F3) as [u3 ->]; [intros; apply Ho; rewrite H; apply orb_true_r|]. cbn [obind]. eauto.
Qed.

(* "fails exactly when a variable would become unbound" *)
Theorem sshift_fail_iff t c n : hole_free t = true ->
  (sshift t c (- Z.of_nat n) = None <-> exists v, occurs t c v = true /\ v < n).
Proof.
  intros Hf. split.
  - intros Hn.
    (* bounded search over v < n *)
    assert (D : (exists v, v < n /\ occurs t c v = true) \/ (forall v, v < n -> occurs t c v = false)).
    { clear Hn. induction n as [|n [IH|IH]].
      - right; lia.
      - left. destruct IH as (v & Hv & Ho). exists v; split; auto.
      - destruct (occurs t c n) eqn:On.
        + left; exists n; split; auto.
        + right. intros v Hv. destruct (Nat.eq_dec v n); [subst; auto | apply IH; lia]. }
    destruct D as [(v & Hv & Ho)|D]; [eauto|].
    destruct (sshift_down_complete t c n Hf) as [u Hu]; [|congruence].
    intros v Ho. destruct (Nat.le_gt_cases n v); auto. rewrite D in Ho; [discriminate|lia].
  - intros (v & Ho & Hv). destruct (sshift t c (- Z.of_nat n)) eqn:E; auto.
    pose proof (sshift_down_sound _ _ _ _ E _ Ho). lia.
Qed.

Lemma existsb_ext_Forall {A} (f g : A -> bool) l : Forall (fun a => f a = g a) l -> existsb f l = existsb g l.
Proof. induction 1; simpl; congruence. Qed.

Lemma occurs_add : forall t c d v, occurs t (c + d) v = occurs t d (v + c).
Proof.
  induction t using term_ind'; intros c d v; cbn [occurs]; try reflexivity.
  - f_equal; lia.
  - rewrite IHt1. f_equal. replace (S (c + d)) with (c + S d) by lia. apply IHt2.
  - rewrite IHt1. f_equal. replace (S (c + d)) with (c + S d) by lia. apply IHt2.
  - now rewrite IHt1, IHt2.
  - cbv zeta. replace (length ds + (c + d)) with (c + (length ds + d)) by lia. rewrite IHt. f_equal.
    apply existsb_ext_Forall. eapply Forall_impl; [|exact H]. intros [a b] [Ha Hb]; simpl in *. now rewrite Ha, Hb.
  - apply IHt.
  - now rewrite IHt1, IHt2.
  - now rewrite IHt1, IHt2, IHt3.
Qed.

Lemma occurs_at0 t c v : occurs t c v = occurs t 0 (c + v).
Proof. rewrite <- (Nat.add_0_r c) at 1. rewrite occurs_add. f_equal; lia. Qed.
Lemma occurs_false_move t c v w : occurs t c v = false -> w = c + v -> occurs t 0 w = false.
Proof. intros H ->. now rewrite <- occurs_at0. Qed.

Lemma shift_idx_open j i : j <> i -> shift_idx j i (-1) = Some (open_idx j i).
Proof.
  intros Hne. unfold shift_idx, open_idx. destruct (Nat.leb_spec i j).
  - destruct (Z.leb_spec (Z.of_nat i) (Z.of_nat j + -1)); [|lia].
    destruct (Nat.ltb_spec i j); [|lia]. f_equal; lia.
  - destruct (Nat.ltb_spec i j); [lia|reflexivity].
Qed.

(* opening a term in which the variable does not occur merely lowers the indices above it *)
Theorem open_absent : forall t i s k, hole_free t = true -> occurs t 0 i = false ->
  sshift t i (-1) = Some (open t i s k).
Proof.
  induction t using term_ind'; intros i0 s0 k0 Hf Ho; cbn [sshift open hole_free occurs obind] in *; try reflexivity; try discriminate.
  - rewrite Nat.add_0_r in Ho. apply Nat.eqb_neq in Ho. destruct (Nat.eqb_spec i i0); [congruence|].
    rewrite shift_idx_open by auto. reflexivity.
  - apply andb_prop in Hf as [F1 F2]. apply orb_false_elim in Ho as [O1 O2].
    rewrite (IHt1 i0 s0 k0 F1 O1); cbn [obind].
    rewrite (IHt2 (S i0) s0 (S k0) F2); cbn [obind]; auto.
    eapply occurs_false_move; [exact O2 | lia].
  - apply andb_prop in Hf as [F1 F2]. apply orb_false_elim in Ho as [O1 O2].
    rewrite (IHt1 i0 s0 k0 F1 O1); cbn [obind].
    rewrite (IHt2 (S i0) s0 (S k0) F2); cbn [obind]; auto.
    eapply occurs_false_move; [exact O2 | lia].
  - apply andb_prop in Hf as [F1 F2]. apply orb_false_elim in Ho as [O1 O2].
    now rewrite (IHt1 i0 s0 k0 F1 O1), (IHt2 i0 s0 k0 F2 O2).
  - cbv zeta in *. apply andb_prop in Hf as [F1 F2]. apply orb_false_elim in Ho as [O1 O2].
    rewrite (omap_map _ (fun p => let '(a, d) := p in
                (open a (length ds + i0) s0 (length ds + k0), open d (length ds + i0) s0 (length ds + k0)))).
    + cbn [obind]. rewrite (IHt (length ds + i0) s0 (length ds + k0) F2); [reflexivity|].
      eapply occurs_false_move; [exact O2 | lia].
    + rewrite Forall_forall in *. intros [a d] Hin. destruct (H _ Hin) as [Ha Hd]; simpl in *.
      rewrite forallb_forall in F1. specialize (F1 _ Hin); simpl in F1. apply andb_prop in F1 as [Fa Fd].
      assert (Oc : (occurs a (length ds + 0) i0 || occurs d (length ds + 0) i0) = false).
      { destruct (occurs a (length ds + 0) i0 || occurs d (length ds + 0) i0) eqn:K; auto.
        rewrite <- O1. symmetry. apply existsb_exists. exists (a, d); auto. }
      apply orb_false_elim in Oc as [Oa Od].
      rewrite (Ha (length ds + i0) s0 (length ds + k0) Fa); cbn [obind].
      * rewrite (Hd (length ds + i0) s0 (length ds + k0) Fd); cbn [obind]; auto.
        eapply occurs_false_move; [exact Od | lia].
      * eapply occurs_false_move; [exact Oa | lia].
  - now rewrite (IHt i0 s0 k0 Hf Ho).
  - apply andb_prop in Hf as [F1 F2]. apply orb_false_elim in Ho as [O1 O2].
    now rewrite (IHt1 i0 s0 k0 F1 O1), (IHt2 i0 s0 k0 F2 O2).
  - apply andb_prop in Hf as [F12 F3]. apply andb_prop in F12 as [F1 F2].
    apply orb_false_elim in Ho as [O12 O3]. apply orb_false_elim in O12 as [O1 O2].
    now rewrite (IHt1 i0 s0 k0 F1 O1), (IHt2 i0 s0 k0 F2 O2), (IHt3 i0 s0 k0 F3 O3).
Qed.

(* non-vacuity: a two-definition group under a binder *)
Example ex_group :
  let t := TLam false TInt (TLet [(TInt, TBin OSum (TVar 1) (TVar 3)); (TInt, TVar 0)] (TVar 4)) in
  hole_free t = true /\ occurs t 0 0 = true /\ occurs t 0 1 = true /\ occurs t 0 2 = false /\
  sshift t 0 (-1) = None /\ sshift t 1 (-1) = None /\
  sshift (ushift t 0 2) 0 (-2) = Some t /\
  open t 2 TTrue 0 = TLam false TInt (TLet [(TInt, TBin OSum (TVar 1) (TVar 3)); (TInt, TVar 0)] (TVar 4)).
Proof. vm_compute. repeat split; reflexivity. Qed.

(* the list version of free_variables agrees with the membership predicate *)
Theorem fvl_occurs : forall t c v, In v (fvl t c) <-> occurs t c v = true.
Proof.
  induction t using term_ind'; intros c v; cbn [fvl occurs]; try (split; [intros []|discriminate]).
  - destruct (Nat.leb_spec c i); cbn [In]; rewrite Nat.eqb_eq; split; lia.
  - rewrite in_app_iff, orb_true_iff, IHt1, IHt2. reflexivity.
  - rewrite in_app_iff, orb_true_iff, IHt1, IHt2. reflexivity.
  - rewrite in_app_iff, orb_true_iff, IHt1, IHt2. reflexivity.
  - cbv zeta. rewrite in_app_iff, orb_true_iff, IHt, in_flat_map, existsb_exists.
    rewrite Forall_forall in H. split.
    + intros [([a d] & Hin & Hv)|Hb]; auto. left. exists (a, d). split; auto.
      destruct (H _ Hin) as [Ha Hd]; simpl in *. rewrite in_app_iff in Hv. rewrite orb_true_iff, <- Ha, <- Hd. exact Hv.
    + intros [([a d] & Hin & Hv)|Hb]; auto. left. exists (a, d). split; auto.
      destruct (H _ Hin) as [Ha Hd]; simpl in *. rewrite in_app_iff. rewrite orb_true_iff, <- Ha, <- Hd in Hv. exact Hv.
  - apply IHt.
  - rewrite in_app_iff, orb_true_iff, IHt1, IHt2. reflexivity.
  - rewrite !in_app_iff, !orb_true_iff, IHt1, IHt2, IHt3. tauto.
Qed.
