(* C19 (renaming) / C08: name resolution is invariant under any injective renaming of identifiers that
   fixes the placeholder `_`. Since everything after resolution works on nameless terms, consistently
   renaming bound variables (a swap of an old and a fresh name is such a renaming) changes neither the
   resolved term nor, therefore, acceptance or the value. *)
From Coq Require Import List ZArith NArith Lia Bool Arith.
Import ListNotations.
Require Import Gram.Model.Term Gram.Model.Token Gram.Model.Grammar Gram.Model.Parser Gram.Model.ParserPost Gram.Spec.ScopeSpec Gram.Proofs.ScopeProofs.

Section Alpha.
Variable rho : name -> name.
Hypothesis rho_inj : forall x y, rho x = rho y -> x = y.
Hypothesis rho_placeholder : rho placeholder = placeholder.

Fixpoint rn (t : pterm) : pterm :=
  match t with
  | PVar i x => PVar i (rho x)
  | PLam i x xs xe im d b => PLam i (rho x) xs xe im (match d with Some d => Some (rn d) | None => None end) (rn b)
  | PPi i x xs xe im d b => PPi i (rho x) xs xe im (rn d) (rn b)
  | PApp i f a => PApp i (rn f) (rn a)
  | PLet i x xs xe an d b => PLet i (rho x) xs xe (match an with Some a => Some (rn a) | None => None end) (rn d) (rn b)
  | PNeg i a => PNeg i (rn a)
  | PBin i o a b => PBin i o (rn a) (rn b)
  | PIf i c a b => PIf i (rn c) (rn a) (rn b)
  | _ => t
  end.

Lemma name_eqb_rho x y : name_eqb (rho x) (rho y) = name_eqb x y.
Proof.
  destruct (name_eqb x y) eqn:E.
  - apply name_eqb_eq in E. subst. apply name_eqb_refl.
  - destruct (name_eqb (rho x) (rho y)) eqn:E'; [|reflexivity]. apply name_eqb_eq in E'. apply rho_inj in E'. subst.
    now rewrite name_eqb_refl in E.
Qed.

Lemma is_placeholder_rho x : is_placeholder (rho x) = is_placeholder x.
Proof. unfold is_placeholder. rewrite <- rho_placeholder at 1. apply name_eqb_rho. Qed.

Lemma index_of_rho x : forall G, index_of (rho x) (map rho G) = index_of x G.
Proof. induction G as [|y G IH]; [reflexivity|]. cbn [map index_of]. rewrite name_eqb_rho, IH. reflexivity. Qed.

Lemma bound_rho x G : bound (rho x) (map rho G) = bound x G.
Proof. unfold bound. now rewrite index_of_rho. Qed.

Definition rn_def (df : name * option pterm * pterm) : name * option pterm * pterm :=
  let '(x, an, d) := df in (rho x, match an with Some a => Some (rn a) | None => None end, rn d).

Lemma collect_rn : forall t, collect_definitions (rn t) = (map rn_def (fst (collect_definitions t)), rn (snd (collect_definitions t))).
Proof.
  induction t; try reflexivity. cbn [rn collect_definitions]. rewrite IHt2.
  destruct (collect_definitions t2) as [ds body]. reflexivity.
Qed.

Lemma push_names_rho : forall defs G,
  fold_left push2 (map rn_def defs) (Some (map rho G)) = option_map (map rho) (fold_left push2 defs (Some G)).
Proof.
  induction defs as [|[[x an] d] defs IH]; intros G; [reflexivity|]. cbn [map fold_left push2 rn_def fst].
  rewrite is_placeholder_rho, bound_rho. destruct (negb (is_placeholder x) && bound x G).
  - rewrite !push2_none. reflexivity.
  - change (rho x :: map rho G) with (map rho (x :: G)). apply IH.
Qed.

Theorem sresolve_rename : forall f G t h, sresolve f (map rho G) (rn t) h = sresolve f G t h.
Proof.
  induction f as [|f IH]; intros G t h; [reflexivity|].
  destruct t; cbn [rn sresolve]; try reflexivity.
  - (* variable *) rewrite is_placeholder_rho, index_of_rho. reflexivity.
  - (* function *)
    assert (D : match (match dom with Some d => Some (rn d) | None => None end) with
                | Some d => sresolve f (map rho G) d h | None => Some (THole h 0, S h) end =
                match dom with Some d => sresolve f G d h | None => Some (THole h 0, S h) end)
      by (destruct dom; [apply IH | reflexivity]).
    rewrite D. destruct (match dom with Some d => sresolve f G d h | None => _ end) as [[d' h1]|]; [|reflexivity].
    rewrite is_placeholder_rho, bound_rho. destruct (negb (is_placeholder x) && bound x G); [reflexivity|].
    change (rho x :: map rho G) with (map rho (x :: G)). rewrite IH. reflexivity.
  - (* function type *)
    rewrite IH. destruct (sresolve f G t1 h) as [[d' h1]|]; [|reflexivity].
    rewrite is_placeholder_rho, bound_rho. destruct (negb (is_placeholder x) && bound x G); [reflexivity|].
    change (rho x :: map rho G) with (map rho (x :: G)). rewrite IH. reflexivity.
  - (* application *)
    rewrite IH. destruct (sresolve f G t1 h) as [[g' h1]|]; [|reflexivity]. rewrite IH. reflexivity.
  - (* group *)
    change (PLet i (rho x) xs xe (match ann with Some a => Some (rn a) | None => None end) (rn t1) (rn t2))
      with (rn (PLet i x xs xe ann t1 t2)).
    rewrite collect_rn. destruct (collect_definitions (PLet i x xs xe ann t1 t2)) as [defs body]. cbn [fst snd].
    cbv zeta. rewrite map_length.
    match goal with |- context [fold_left ?F (map rn_def defs) (Some (map rho G))] => change F with push2 end.
    match goal with |- context [fold_left ?F defs (Some G)] => change F with push2 end.
    rewrite push_names_rho. destruct (fold_left push2 defs (Some G)) as [G2|]; [|reflexivity]. cbn [option_map].
    match goal with |- context [fold_left ?F (map rn_def defs) (Some (?a0, h, 0))] => change F with (def2 f (length defs) (map rho G2)) end.
    match goal with |- context [fold_left ?F defs (Some (?a0, h, 0))] => change F with (def2 f (length defs) G2) end.
    assert (DF : forall l acc, fold_left (def2 f (length defs) (map rho G2)) (map rn_def l) acc = fold_left (def2 f (length defs) G2) l acc).
    { induction l as [|[[x0 an] d] l IHl]; intros acc; [reflexivity|]. cbn [map fold_left rn_def]. rewrite <- IHl. f_equal.
      destruct acc as [[[l0 h0] i0]|]; [|reflexivity]. cbn [def2].
      assert (A : match (match an with Some a => Some (rn a) | None => None end) with
                  | Some a => sresolve f (map rho G2) a h0 | None => Some (THole h0 (length defs - i0), S h0) end =
                  match an with Some a => sresolve f G2 a h0 | None => Some (THole h0 (length defs - i0), S h0) end)
        by (destruct an; [apply IH | reflexivity]).
      rewrite A. destruct (match an with Some a => sresolve f G2 a h0 | None => _ end) as [[an' h1]|]; [|reflexivity].
      rewrite IH. reflexivity. }
    rewrite DF. destruct (fold_left (def2 f (length defs) G2) defs (Some ([], h, 0))) as [[[l h1] i1]|]; [|reflexivity].
    rewrite IH. reflexivity.
  - (* negation *) rewrite IH. reflexivity.
  - (* binary *) rewrite IH. destruct (sresolve f G t1 h) as [[a' h1]|]; [|reflexivity]. rewrite IH. reflexivity.
  - (* conditional *)
    rewrite IH. destruct (sresolve f G t1 h) as [[c' h1]|]; [|reflexivity]. rewrite IH.
    destruct (sresolve f G t2 h1) as [[a' h2]|]; [|reflexivity]. rewrite IH. reflexivity.
Qed.

Lemma psize_rn : forall t, psize (rn t) = psize t.
Proof.
  fix IH 1. intros t. destruct t; cbn [rn psize]; try reflexivity.
  - destruct dom as [d|]; [rewrite (IH d)|]; rewrite (IH t); reflexivity.
  - rewrite (IH t1), (IH t2). reflexivity.
  - rewrite (IH t1), (IH t2). reflexivity.
  - destruct ann as [a|]; [rewrite (IH a)|]; rewrite (IH t1), (IH t2); reflexivity.
  - rewrite (IH t). reflexivity.
  - rewrite (IH t1), (IH t2). reflexivity.
  - rewrite (IH t1), (IH t2), (IH t3). reflexivity.
Qed.

(* the specification of the scoping stage does not see an injective renaming of the identifiers *)
Theorem scope_spec_rename : forall t, scope_spec (rn t) = scope_spec t.
Proof. intros t. unfold scope_spec. rewrite psize_rn. change (@nil name) with (map rho []). rewrite sresolve_rename. reflexivity. Qed.
End Alpha.

(* the renaming used by the C19 stream: swapping a name with a fresh one *)
Definition swap_names (a b x : name) : name := if name_eqb x a then b else if name_eqb x b then a else x.

Lemma swap_names_inj a b x y : swap_names a b x = swap_names a b y -> x = y.
Proof.
  unfold swap_names. destruct (name_eqb x a) eqn:Xa, (name_eqb y a) eqn:Ya; try apply name_eqb_eq in Xa; try apply name_eqb_eq in Ya; subst.
  - reflexivity.
  - destruct (name_eqb y b) eqn:Yb; [apply name_eqb_eq in Yb; subst; intros ->; now rewrite name_eqb_refl in Ya | intros <-; now rewrite name_eqb_refl in Yb].
  - destruct (name_eqb x b) eqn:Xb; [apply name_eqb_eq in Xb; subst; intros <-; now rewrite name_eqb_refl in Xa | intros ->; now rewrite name_eqb_refl in Xb].
  - destruct (name_eqb x b) eqn:Xb, (name_eqb y b) eqn:Yb; try apply name_eqb_eq in Xb; try apply name_eqb_eq in Yb; subst; try reflexivity.
    + intros ->. now rewrite name_eqb_refl in Ya.
    + intros <-. now rewrite name_eqb_refl in Xa.
    + auto.
Qed.

Theorem scope_spec_swap : forall a b t, is_placeholder a = false -> is_placeholder b = false ->
  scope_spec (rn (swap_names a b) t) = scope_spec t.
Proof.
  intros a b t Pa Pb. apply scope_spec_rename; [apply swap_names_inj|].
  unfold swap_names. unfold is_placeholder in Pa, Pb. rewrite (name_eqb_sym placeholder a), Pa, (name_eqb_sym placeholder b), Pb. reflexivity.
Qed.
