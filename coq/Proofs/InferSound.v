(* Soundness of the verified checker: whnf_sound, convb_sound, infer_sound. *)
From Coq Require Import List ZArith Lia Bool Arith Relations.
Import ListNotations.
Require Import Gram.Model.Term Gram.Model.DeBruijn Gram.Model.Eval Gram.Spec.Typing Gram.Oracle.Infer.

Definition rstar G := clos_refl_trans term (red G).
Lemma rstar_conv G a b : rstar G a b -> conv G a b.
Proof. induction 1; eauto using conv. Qed.
Lemma rstar_step G a b c : red G a b -> rstar G b c -> rstar G a c.
Proof. intros. eapply rt_trans; [apply rt_step; eassumption | assumption]. Qed.

Lemma rstar_cong (C : term -> term) G :
  (forall x y, red G x y -> red G (C x) (C y)) -> forall x y, rstar G x y -> rstar G (C x) (C y).
Proof. intros HC x y H. induction H; [apply rt_step; auto | apply rt_refl | eapply rt_trans; eauto]. Qed.

Lemma whnf_sound : forall fuel G t u, whnf fuel G t = Some u -> rstar G t u.
Proof.
  induction fuel as [|f IH]; intros G t u H; [discriminate|].
  destruct t; cbn [whnf] in H; try (injection H as <-; apply rt_refl).
  - (* var *) destruct (lookup_def G i) eqn:E; [|injection H as <-; apply rt_refl].
    eapply rstar_step; [apply r_delta; exact E | apply IH; exact H].
  - (* app *)
    destruct (whnf f G t1) as [a'|] eqn:E1; [|discriminate]. apply IH in E1.
    assert (S0 : rstar G (TApp t1 t2) (TApp a' t2)).
    { apply (rstar_cong (fun x => TApp x t2)); auto. intros; now constructor. }
    destruct a'; try (injection H as <-; exact S0).
    eapply rt_trans; [exact S0|]. eapply rstar_step; [apply r_beta | apply IH; exact H].
  - (* let *) eapply rstar_step; [apply r_let | apply IH; exact H].
  - (* neg *)
    destruct (whnf f G t) as [a'|] eqn:E1; [|discriminate]. apply IH in E1.
    assert (S0 : rstar G (TNeg t) (TNeg a')).
    { apply (rstar_cong TNeg); auto. intros; now constructor. }
    destruct a'; try (injection H as <-; exact S0).
    injection H as <-. eapply rt_trans; [exact S0 | apply rt_step, r_neg].
  - (* bin *)
    destruct (whnf f G t1) as [a'|] eqn:E1; [|discriminate].
    destruct (whnf f G t2) as [b'|] eqn:E2; [|destruct a'; discriminate].
    apply IH in E1; apply IH in E2.
    assert (S0 : rstar G (TBin o t1 t2) (TBin o a' b')).
    { eapply rt_trans; [apply (rstar_cong (fun x => TBin o x t2)); [intros; now constructor | exact E1]|].
      apply (rstar_cong (fun x => TBin o a' x)); [intros; now constructor | exact E2]. }
    destruct a'; try (injection H as <-; exact S0);
    destruct b'; try (injection H as <-; exact S0).
    injection H as <-. destruct (arith o z z0) eqn:A; [|exact S0].
    eapply rt_trans; [exact S0 | apply rt_step, r_bin; exact A].
  - (* if *)
    destruct (whnf f G t1) as [c'|] eqn:E1; [|discriminate]. apply IH in E1.
    assert (S0 : rstar G (TIf t1 t2 t3) (TIf c' t2 t3)).
    { apply (rstar_cong (fun x => TIf x t2 t3)); auto. intros; now constructor. }
    destruct c'; try (injection H as <-; exact S0).
    + eapply rt_trans; [exact S0|]. eapply rstar_step; [apply r_if_t | apply IH; exact H].
    + eapply rt_trans; [exact S0|]. eapply rstar_step; [apply r_if_f | apply IH; exact H].
Qed.

Lemma and3_true x y : and3 x y = Some true -> x = Some true /\ y tt = Some true.
Proof. unfold and3. destruct x as [[|]|]; try discriminate. auto. Qed.

Lemma convb_sound : forall fuel G a b, convb fuel G a b = Some true -> conv G a b.
Proof.
  induction fuel as [|f IH]; intros G a b H; [discriminate|].
  cbn [convb] in H.
  destruct (whnf f G a) as [a'|] eqn:Ea; [|discriminate].
  destruct (whnf f G b) as [b'|] eqn:Eb; [|discriminate].
  apply whnf_sound, rstar_conv in Ea. apply whnf_sound, rstar_conv in Eb.
  assert (K : conv G a' b' -> conv G a b) by (intro; eauto using conv).
  apply K; clear K Ea Eb.
  destruct a', b'; try discriminate; try apply c_refl.
  - injection H as H. apply andb_prop in H as [H1 H2]. apply Nat.eqb_eq in H1, H2. subst. apply c_refl.
  - injection H as H. apply Z.eqb_eq in H. subst. apply c_refl.
  - injection H as H. apply Nat.eqb_eq in H. subst. apply c_refl.
  - destruct (Bool.eqb impl impl0) eqn:Ei; [|discriminate]. apply eqb_prop in Ei; subst. apply c_lam. eauto.
  - destruct (Bool.eqb impl impl0) eqn:Ei; [|discriminate]. apply eqb_prop in Ei; subst.
    apply and3_true in H as [H1 H2]. apply c_pi; eauto.
  - apply and3_true in H as [H1 H2]. apply c_app; eauto.
  - apply c_neg; eauto.
  - destruct (binop_eqb o o0) eqn:Eo; [|discriminate]. apply binop_eqb_eq in Eo; subst.
    apply and3_true in H as [H1 H2]. apply c_bin; eauto.
  - apply and3_true in H as [H1 H2]. apply and3_true in H2 as [H2 H3]. apply c_if; eauto.
Qed.

Lemma is_true_conv f G a b : is_true (convb f G a b) = true -> conv G a b.
Proof. unfold is_true. destruct (convb f G a b) as [[|]|] eqn:E; try discriminate. intros _. eapply convb_sound; eauto. Qed.

Lemma infer_defs_sound G' (inf : term -> option term) (cv : term -> term -> option bool) :
  (forall t T, inf t = Some T -> has_type G' t T) ->
  (forall a b, is_true (cv a b) = true -> conv G' a b) ->
  forall l, infer_defs inf cv l = true ->
  Forall (fun p => has_type G' (fst p) TType /\ has_type G' (snd p) (fst p)) l.
Proof.
  intros Hi Hc. induction l as [|[a d] r IHl]; cbn [infer_defs]; intros H; constructor.
  - destruct (inf a) as [Ta|] eqn:Ia; [|discriminate]. destruct (inf d) as [Td|] eqn:Id; [|discriminate].
    apply andb_prop in H as [H12 _]. apply andb_prop in H12 as [H1 H2]. cbn [fst snd]. split.
    + eapply t_conv; [apply Hi; exact Ia | apply Hc; exact H1].
    + eapply t_conv; [apply Hi; exact Id | apply Hc; exact H2].
  - destruct (inf a); [|discriminate]. destruct (inf d); [|discriminate].
    apply andb_prop in H as [_ H3]. auto.
Qed.

Theorem infer_sound : forall fuel G t T, infer fuel G t = Some T -> has_type G t T.
Proof.
  induction fuel as [|f IH]; intros G t T H; [discriminate|].
  destruct t; cbn [infer] in H; try (injection H as <-; constructor).
  - now constructor.
  - (* lam *)
    destruct (infer f G t1) as [Td|] eqn:E1; [|discriminate].
    destruct (is_true (convb f G Td TType)) eqn:C1; [|discriminate].
    destruct (infer f (bind G t1) t2) as [B|] eqn:E2; [|discriminate]. injection H as <-.
    apply t_lam; eauto using t_conv, is_true_conv.
  - (* pi *)
    destruct (infer f G t1) as [Td|] eqn:E1; [|discriminate].
    destruct (is_true (convb f G Td TType)) eqn:C1; [|discriminate].
    destruct (infer f (bind G t1) t2) as [Tb|] eqn:E2; [|discriminate].
    destruct (is_true (convb f (bind G t1) Tb TType)) eqn:C2; [|discriminate]. injection H as <-.
    apply t_pi; eauto using t_conv, is_true_conv.
  - (* app *)
    destruct (infer f G t1) as [F|] eqn:E1; [|discriminate].
    destruct (whnf f G F) as [[ ? ? | | | | | | ? | ? | ? ? ? | im A B | ? ? | ? ? | ? | ? ? ? | ? ? ? ]|] eqn:W1; try discriminate.
    destruct im; try discriminate.
    destruct (infer f G t2) as [A'|] eqn:E2; [|discriminate].
    destruct (is_true (convb f G A' A)) eqn:C; [|discriminate]. injection H as <-.
    eapply t_app.
    + eapply t_conv; [eauto|]. apply rstar_conv. eapply whnf_sound; eauto.
    + eapply t_conv; [eauto|]. eapply is_true_conv; eauto.
  - (* let *)
    destruct (infer_defs (infer f (enter defs G)) (convb f (enter defs G)) defs) eqn:D; [|discriminate].
    destruct (infer f (enter defs G) t) as [B|] eqn:E; [|discriminate]. injection H as <-.
    apply t_let; [|eauto].
    eapply infer_defs_sound; [| |exact D]; eauto using is_true_conv.
  - (* neg *)
    destruct (infer f G t) as [Ta|] eqn:E1; [|discriminate].
    destruct (is_true (convb f G Ta TInt)) eqn:C1; [|discriminate]. injection H as <-.
    apply t_neg; eauto using t_conv, is_true_conv.
  - (* bin *)
    destruct (infer f G t1) as [Ta|] eqn:E1; [|discriminate].
    destruct (infer f G t2) as [Tb|] eqn:E2; [|discriminate].
    destruct (is_true (convb f G Ta TInt) && is_true (convb f G Tb TInt)) eqn:C; [|discriminate].
    apply andb_prop in C as [C1 C2]. injection H as <-.
    apply t_bin; eauto using t_conv, is_true_conv.
  - (* if *)
    destruct (infer f G t1) as [Tc|] eqn:E1; [|discriminate].
    destruct (infer f G t2) as [Ta|] eqn:E2; [|discriminate].
    destruct (infer f G t3) as [Tb|] eqn:E3; [|discriminate].
    destruct (is_true (convb f G Tc TBool) && is_true (convb f G Tb Ta)) eqn:C; [|discriminate].
    apply andb_prop in C as [C1 C2]. injection H as <-.
    apply t_if; eauto using t_conv, is_true_conv.
Qed.

(* non-vacuity: polymorphic identity in a group, applied; and a recursive function *)
Example ex_id :
  infer 30 [] (TLet [(TPi false TType (TPi false (TVar 0) (TVar 1)), TLam false TType (TLam false (TVar 0) (TVar 0)))]
                    (TApp (TApp (TVar 0) TInt) (TLit 3))) = Some TInt.
Proof. vm_compute. reflexivity. Qed.
Example ex_fact :
  infer 40 [] (TLet [(TPi false TInt TInt,
                      TLam false TInt (TIf (TBin OEq (TVar 0) (TLit 0)) (TLit 1)
                                           (TBin OProd (TVar 0) (TApp (TVar 1) (TBin ODiff (TVar 0) (TLit 1))))))]
                    (TApp (TVar 0) (TLit 5))) = Some TInt.
Proof. vm_compute. reflexivity. Qed.
(* the D6 witness is rejected by the validator: x : (((y : int) => int) true) = 3; x *)
Example ex_d6 : infer 40 [] (TLet [(TApp (TLam false TInt TInt) TTrue, TLit 3)] (TVar 0)) = None.
Proof. vm_compute. reflexivity. Qed.

(* what one run of the validator establishes for an accepted program (e, T) *)
Theorem instance_certificate : forall fuel e T T',
  infer fuel [] e = Some T' -> convb fuel [] T' T = Some true -> has_type [] e T.
Proof. intros fuel e T T' Hi Hc. eapply t_conv; [eapply infer_sound; eauto | eapply convb_sound; eauto]. Qed.

Theorem validator_examples :
  infer 30 [] (TLet [(TPi false TType (TPi false (TVar 0) (TVar 1)), TLam false TType (TLam false (TVar 0) (TVar 0)))]
                    (TApp (TApp (TVar 0) TInt) (TLit 3))) = Some TInt /\
  infer 40 [] (TLet [(TApp (TLam false TInt TInt) TTrue, TLit 3)] (TVar 0)) = None.
Proof. split; [exact ex_id | exact ex_d6]. Qed.
