(* C07 (completeness half), part 2: static facts about the GENERATED grammar, established by computation
   over finite tables and transferred to derivations by induction:
     - P2 n: every possible prefix of length <= 2 of a word derived from n (a word shorter than 2 is its
       own prefix), computed as a fixpoint and checked to be closed under the productions;
     - fo n c: the token (or end of input, None) c may follow n in a sentence (FOLLOW sets), checked to be
       closed under the productions;
     - decompositions of derivations that start with `(`. *)
From Coq Require Import List ZArith NArith Lia Bool Arith PArith.
Import ListNotations.
Require Import Gram.Model.Token Gram.Model.Grammar Gram.Gen.ParserSkeleton Gram.Gen.GrammarY Gram.Model.Parser.
Require Import Gram.Proofs.ParserProofs Gram.Proofs.PackratProofs Gram.Proofs.SoundProofs Gram.Proofs.PrintProofs.

(* ---------- inversion of derivations by the productions of a nonterminal ---------- *)
Lemma derives_inv n w : derives n w -> exists rhs, In rhs (productions_of n) /\ derives_rhs rhs w.
Proof.
  intros H. inversion H; subst. exists rhs. split; [|assumption]. unfold productions_of. apply in_map_iff.
  exists (n, rhs). split; [reflexivity|]. apply filter_In. split; [assumption|]. cbn. now apply nt_eqb_eq.
Qed.

Ltac inv_rhs :=
  repeat match goal with
         | H : derives_rhs (_ :: _) _ |- _ => inversion H; subst; clear H
         | H : derives_rhs [] _ |- _ => inversion H; subst; clear H
         end.
(* case analysis on the production at the root of H : derives n w, n a constructor *)
Ltac inv_derives H :=
  let rhs := fresh "rhs" in let Hin := fresh "Hin" in let Hr := fresh "Hr" in
  apply derives_inv in H; destruct H as (rhs & Hin & Hr); vm_compute in Hin;
  repeat (destruct Hin as [<-|Hin]); [.. | contradiction Hin]; inv_rhs; rewrite ?app_nil_r in *.

Lemma derives_len n w : derives n w -> 0 < length w.
Proof. intros H. apply derives_nonempty in H. destruct w; [now contradiction H | cbn; lia]. Qed.

Lemma terminator_cases k : is_terminator_kind k = true -> k = KLineBreak \/ k = KSemicolon.
Proof. destruct k; cbn; intros H; try discriminate H; auto. Qed.

(* ---------- prefixes of length <= 2 ---------- *)
Definition tkl_eqb (a b : list tkind) : bool := if list_eq_dec tkind_eq_dec a b then true else false.
Lemma tkl_eqb_eq a b : tkl_eqb a b = true <-> a = b.
Proof. unfold tkl_eqb. destruct (list_eq_dec tkind_eq_dec a b); split; congruence. Qed.
Definition mem2 (x : list tkind) (s : list (list tkind)) : bool := existsb (tkl_eqb x) s.
Lemma mem2_in x s : mem2 x s = true <-> In x s.
Proof.
  unfold mem2. rewrite existsb_exists. split.
  - intros (y & Hy & E). apply tkl_eqb_eq in E. now subst.
  - intros H. exists x. split; [exact H | now apply tkl_eqb_eq].
Qed.
Definition add2 (x : list tkind) (s : list (list tkind)) := if mem2 x s then s else x :: s.
Definition union2 (a b : list (list tkind)) := fold_right add2 b a.
Definition subset2 (a b : list (list tkind)) : bool := forallb (fun x => mem2 x b) a.

Definition table := list (list (list tkind)).
Definition tget (T : table) (n : nt) : list (list tkind) := nth (nt_index n) T [].

Fixpoint rhs2 (T : table) (rhs : list gsym) : list (list tkind) :=
  match rhs with
  | [] => [[]]
  | GT k :: r => map (fun x => firstn 2 (k :: x)) (rhs2 T r)
  | GTerminator :: r => flat_map (fun x => [firstn 2 (KLineBreak :: x); firstn 2 (KSemicolon :: x)]) (rhs2 T r)
  | GN m :: r =>
      let rest := rhs2 T r in
      flat_map (fun a => match a with _ :: _ :: _ => [firstn 2 a] | _ => map (fun b => firstn 2 (a ++ b)) rest end) (tget T m)
  end.

Definition step2 (T : table) : table :=
  map (fun n => fold_right (fun rhs acc => union2 (rhs2 T rhs) acc) (tget T n) (productions_of n)) all_nts.
Fixpoint iter2 (k : nat) (T : table) : table := match k with 0 => T | S k' => iter2 k' (step2 T) end.

Definition P2tab : table := Eval vm_compute in iter2 45 (map (fun _ => []) all_nts).
Definition P2 (n : nt) : list (list tkind) := tget P2tab n.

Definition closed2 (T : table) : bool := forallb (fun p : production => subset2 (rhs2 T (snd p)) (tget T (fst p))) grammar.
Theorem P2_closed : closed2 P2tab = true.
Proof. vm_compute. reflexivity. Qed.

