(* Confluence and Church-Rosser in contexts WITH definitions (r_delta).
   conv2 is a copy of `conv` (Spec/Typing.v) with the list premise of c_let as a mutual inductive
   (conv2s) so that induction is convenient; Proofs/ConvConsistent.v proves conv G a b <-> conv2 G a b.
   The group congruence compares definitions and bodies with the variables of the group OPAQUE
   (context enter_o) and ignores the annotations of the definitions.

   Parallel reduction is indexed by the depth m below a fixed base context whose definitions are
   D0 : nat -> option term; a definition is unfolded by   TVar (j + m)  =>  ushift d 0 m.             *)
From Coq Require Import List ZArith Lia Bool Arith Relations.
Import ListNotations.
Require Import Gram.Model.Term Gram.Model.DeBruijn Gram.Model.Eval Gram.Spec.Typing
  Gram.Proofs.DeBruijnLaws Gram.Proofs.CtxProofs Gram.Proofs.WeakenProofs Gram.Proofs.ConflLaws
  Gram.Proofs.Confluence.

(* ---------- the repaired relation ---------- *)
(* push_group_o / enter_o are those of Spec/Typing.v *)

Inductive conv2 (G : ctx) : term -> term -> Prop :=
| c2_red a b : red G a b -> conv2 G a b
| c2_refl a : conv2 G a a
| c2_sym a b : conv2 G a b -> conv2 G b a
| c2_trans a b c : conv2 G a b -> conv2 G b c -> conv2 G a c
| c2_lam im d d' b b' : conv2 (bind G d) b b' -> conv2 G (TLam im d b) (TLam im d' b')
| c2_pi im d d' b b' : conv2 G d d' -> conv2 (bind G d) b b' -> conv2 G (TPi im d b) (TPi im d' b')
| c2_app f f' a a' : conv2 G f f' -> conv2 G a a' -> conv2 G (TApp f a) (TApp f' a')
| c2_neg a a' : conv2 G a a' -> conv2 G (TNeg a) (TNeg a')
| c2_bin o a a' b b' : conv2 G a a' -> conv2 G b b' -> conv2 G (TBin o a b) (TBin o a' b')
| c2_if c c' a a' b b' : conv2 G c c' -> conv2 G a a' -> conv2 G b b' -> conv2 G (TIf c a b) (TIf c' a' b')
| c2_let ds ds' b b' : conv2s (enter_o ds G) ds ds' -> conv2 (enter_o ds G) b b' -> conv2 G (TLet ds b) (TLet ds' b')
with conv2s (G : ctx) : list (term * term) -> list (term * term) -> Prop :=
| c2s_nil : conv2s G [] []
| c2s_cons a a' d d' r r' : conv2 G d d' -> conv2s G r r' -> conv2s G ((a, d) :: r) ((a', d') :: r').

Scheme conv2_mind := Minimality for conv2 Sort Prop
  with conv2s_mind := Minimality for conv2s Sort Prop.
Combined Scheme conv2_mutind from conv2_mind, conv2s_mind.

Lemma conv2s_Forall2 G ds ds' :
  conv2s G ds ds' <-> Forall2 (fun p q => conv2 G (snd p) (snd q)) ds ds'.
Proof.
  split.
  - induction 1; constructor; cbn [fst snd]; auto.
  - induction 1 as [|[a d] [a' d'] r r' Hd _ IH]; constructor; auto.
Qed.

(* ---------- the contexts ---------- *)
Lemma push_group_o_above : forall l m k G z, nth_error (push_group_o m l k G) (length l + z) = nth_error G z.
Proof.
  induction l as [|[a d] l IH]; intros m k G z; cbn [push_group_o length]; [reflexivity|].
  replace (S (length l) + z) with (length l + S z) by lia. rewrite IH. reflexivity.
Qed.

Lemma push_group_o_below : forall l m k G z T o x, z < length l ->
  nth_error (push_group_o m l k G) z = Some (T, o, x) -> x = None /\ o <= m - k.
Proof.
  induction l as [|[a d] l IH]; intros m k G z T o x Hz E; cbn [length] in Hz; [lia|].
  cbn [push_group_o] in E. destruct (Nat.eq_dec z (length l)) as [->|Hne].
  - pose proof (push_group_o_above l m (S k) ((a, m - k, @None term) :: G) 0) as K.
    rewrite Nat.add_0_r in K. rewrite K in E. clear K.
    cbn [nth_error] in E. injection E as <- <- <-. split; [reflexivity | lia].
  - destruct (IH m (S k) _ z T o x ltac:(lia) E) as [H1 H2]. split; [assumption | lia].
Qed.

Lemma push_group_o_nth_off : forall l m k G z T o x, z < length l -> k + length l <= m ->
  nth_error (push_group_o m l k G) z = Some (T, o, x) -> o <= z + 1 + (m - k - length l).
Proof.
  induction l as [|[a d] l IH]; intros m k G z T o x Hz Hk E; cbn [length] in *; [lia|].
  cbn [push_group_o] in E. destruct (Nat.eq_dec z (length l)) as [->|Hne].
  - pose proof (push_group_o_above l m (S k) ((a, m - k, @None term) :: G) 0) as K.
    rewrite Nat.add_0_r in K. rewrite K in E. clear K.
    cbn [nth_error] in E. injection E as <- <- <-. lia.
  - pose proof (IH m (S k) _ z T o x ltac:(lia) ltac:(lia) E) as K. lia.
Qed.

Lemma wf_offsets_enter_o ds G : wf_offsets G -> wf_offsets (enter_o ds G).
Proof.
  intros W z T k d E. unfold enter_o in E. destruct (Nat.lt_ge_cases z (length ds)) as [Hz|Hz].
  - pose proof (push_group_o_nth_off ds (length ds) 0 G z T k d Hz ltac:(lia) E). lia.
  - replace z with (length ds + (z - length ds)) in E by lia. rewrite push_group_o_above in E.
    specialize (W _ _ _ _ E). lia.
Qed.

Lemma ctx_hf_push_group_o : forall ds n j G, ctx_hf G -> ctx_hf (push_group_o n ds j G).
Proof.
  induction ds as [|[a d] r IH]; intros n j G HG; cbn [push_group_o]; [exact HG|].
  apply IH. constructor; [exact I | exact HG].
Qed.
Lemma ctx_hf_enter_o ds G : ctx_hf G -> ctx_hf (enter_o ds G).
Proof. apply ctx_hf_push_group_o. Qed.

Lemma lookup_def_bind_S G A i : wf_offsets G ->
  lookup_def (bind G A) (S i) = option_map (fun d => ushift d 0 1) (lookup_def G i).
Proof.
  intros W. unfold lookup_def, bind. cbn [nth_error].
  destruct (nth_error G i) as [[[T k] [d|]]|] eqn:E; try reflexivity.
  specialize (W _ _ _ _ E). cbn [option_map]. rewrite ushift_add. do 2 f_equal. lia.
Qed.

Lemma lookup_def_enter_o_lt ds G i : i < length ds -> lookup_def (enter_o ds G) i = None.
Proof.
  intros H. unfold lookup_def, enter_o.
  destruct (nth_error (push_group_o (length ds) ds 0 G) i) as [[[T k] x]|] eqn:E; [|reflexivity].
  destruct (push_group_o_below _ _ _ _ _ _ _ _ H E) as [-> _]. reflexivity.
Qed.

Lemma lookup_def_enter_o_ge ds G i : wf_offsets G ->
  lookup_def (enter_o ds G) (length ds + i) = option_map (fun d => ushift d 0 (length ds)) (lookup_def G i).
Proof.
  intros W. unfold lookup_def, enter_o. rewrite push_group_o_above.
  destruct (nth_error G i) as [[[T k] [d|]]|] eqn:E; try reflexivity.
  specialize (W _ _ _ _ E). cbn [option_map]. rewrite ushift_add. do 2 f_equal. lia.
Qed.

(* G is the base context extended by m entries without definitions *)
Definition rep (D0 : nat -> option term) (m : nat) (G : ctx) : Prop :=
  forall i, lookup_def G i = if Nat.ltb i m then None else option_map (fun d => ushift d 0 m) (D0 (i - m)).

Lemma rep_base G : rep (lookup_def G) 0 G.
Proof.
  intros i. cbn [Nat.ltb Nat.leb]. rewrite Nat.sub_0_r. destruct (lookup_def G i); cbn [option_map]; [|reflexivity].
  now rewrite ushift_zero.
Qed.

Lemma rep_bind D0 m G A : wf_offsets G -> rep D0 m G -> rep D0 (S m) (bind G A).
Proof.
  intros W R [|i].
  - reflexivity.
  - rewrite lookup_def_bind_S by assumption. rewrite R.
    change (Nat.ltb (S i) (S m)) with (Nat.ltb i m). destruct (Nat.ltb i m); [reflexivity|].
    cbn [Nat.sub]. destruct (D0 (i - m)); cbn [option_map]; [|reflexivity].
    rewrite ushift_add. do 2 f_equal. lia.
Qed.

Lemma rep_enter_o D0 m G ds : wf_offsets G -> rep D0 m G -> rep D0 (length ds + m) (enter_o ds G).
Proof.
  intros W R i. destruct (Nat.lt_ge_cases i (length ds)) as [Hi|Hi].
  - rewrite lookup_def_enter_o_lt by assumption. destruct (Nat.ltb_spec i (length ds + m)); [reflexivity | lia].
  - replace i with (length ds + (i - length ds)) at 1 by lia.
    rewrite lookup_def_enter_o_ge by assumption. rewrite R.
    destruct (Nat.ltb_spec (i - length ds) m), (Nat.ltb_spec i (length ds + m)); try lia; [reflexivity|].
    replace (i - length ds - m) with (i - (length ds + m)) by lia.
    destruct (D0 (i - (length ds + m))); cbn [option_map]; [|reflexivity].
    rewrite ushift_add. do 2 f_equal. lia.
Qed.

(* ---------- parallel reduction below a base context with definitions ---------- *)
Section Delta.
Variable D0 : nat -> option term.
Hypothesis D0_hf : forall j d, D0 j = Some d -> hole_free d = true.

Inductive dpred : nat -> term -> term -> Prop :=
| d_atom m t : atom t = true -> dpred m t t
| d_delta m j d : D0 j = Some d -> dpred m (TVar (j + m)) (ushift d 0 m)
| d_lam m im d d' b b' : hole_free d = true -> hole_free d' = true -> dpred (S m) b b' ->
    dpred m (TLam im d b) (TLam im d' b')
| d_pi m im d d' b b' : dpred m d d' -> dpred (S m) b b' -> dpred m (TPi im d b) (TPi im d' b')
| d_app m f f' a a' : dpred m f f' -> dpred m a a' -> dpred m (TApp f a) (TApp f' a')
| d_neg m a a' : dpred m a a' -> dpred m (TNeg a) (TNeg a')
| d_bin m o a a' b b' : dpred m a a' -> dpred m b b' -> dpred m (TBin o a b) (TBin o a' b')
| d_if m c c' a a' b b' : dpred m c c' -> dpred m a a' -> dpred m b b' -> dpred m (TIf c a b) (TIf c' a' b')
| d_let m ds ds' b b' : dpreds (length ds + m) ds ds' -> dpred (length ds + m) b b' ->
    dpred m (TLet ds b) (TLet ds' b')
| d_unfold m ds ds' b b' : dpreds (length ds + m) ds ds' -> dpred (length ds + m) b b' ->
    dpred m (TLet ds b) (let_whnf_body ds' b')
| d_beta m im d b b' a a' : hole_free d = true -> dpred (S m) b b' -> dpred m a a' ->
    dpred m (TApp (TLam im d b) a) (open b' 0 a' 0)
| d_negl m z : dpred m (TNeg (TLit z)) (TLit (- z))
| d_arith m o x y r : arith o x y = Some r -> dpred m (TBin o (TLit x) (TLit y)) r
| d_ift m a a' b : dpred m a a' -> hole_free b = true -> dpred m (TIf TTrue a b) a'
| d_iff m a b b' : hole_free a = true -> dpred m b b' -> dpred m (TIf TFalse a b) b'
with dpreds : nat -> list (term * term) -> list (term * term) -> Prop :=
| ds_nil m : dpreds m [] []
| ds_cons m a a' d d' r r' : hole_free a = true -> hole_free a' = true -> dpred m d d' -> dpreds m r r' ->
    dpreds m ((a, d) :: r) ((a', d') :: r').

Scheme dpred_mind := Minimality for dpred Sort Prop
  with dpreds_mind := Minimality for dpreds Sort Prop.
Combined Scheme dpred_mutind from dpred_mind, dpreds_mind.

Lemma dpreds_length m ds ds' : dpreds m ds ds' -> length ds = length ds'.
Proof. induction 1; cbn; auto. Qed.

Lemma dpred_hf_mut :
  (forall m t t', dpred m t t' -> hole_free t = true /\ hole_free t' = true) /\
  (forall m ds ds', dpreds m ds ds' -> hf_defs ds = true /\ hf_defs ds' = true).
Proof.
  apply dpred_mutind; intros;
    repeat match goal with H : _ /\ _ |- _ => destruct H end.
  - destruct t; try discriminate; auto.
  - split; [reflexivity | apply hole_free_ushift; eauto].
  - cbn [hole_free]. split; repeat (apply andb_true_intro; split); auto.
  - cbn [hole_free]. split; repeat (apply andb_true_intro; split); auto.
  - cbn [hole_free]. split; repeat (apply andb_true_intro; split); auto.
  - cbn [hole_free]. split; auto.
  - cbn [hole_free]. split; repeat (apply andb_true_intro; split); auto.
  - cbn [hole_free]. split; repeat (apply andb_true_intro; split); auto.
  - split; apply hf_let; auto.
  - split; [apply hf_let; auto | apply hole_free_let_whnf_body; auto].
  - split; [cbn [hole_free]; repeat (apply andb_true_intro; split); auto | apply hole_free_open; auto].
  - split; reflexivity.
  - split; [reflexivity | eapply arith_hole_free; eauto].
  - cbn [hole_free]. split; auto. repeat (apply andb_true_intro; split); auto.
  - cbn [hole_free]. split; auto. repeat (apply andb_true_intro; split); auto.
  - split; reflexivity.
  - split; apply hf_defs_cons; auto.
Qed.
Lemma dpred_hf_l m t t' : dpred m t t' -> hole_free t = true.  Proof. intros H. now apply dpred_hf_mut in H. Qed.
Lemma dpred_hf_r m t t' : dpred m t t' -> hole_free t' = true. Proof. intros H. now apply dpred_hf_mut in H. Qed.
Lemma dpreds_hf_l m t t' : dpreds m t t' -> hf_defs t = true.  Proof. intros H. now apply dpred_hf_mut in H. Qed.
Lemma dpreds_hf_r m t t' : dpreds m t t' -> hf_defs t' = true. Proof. intros H. now apply dpred_hf_mut in H. Qed.

Lemma dpreds_refl_from m ds :
  Forall (fun p => (forall m, hole_free (fst p) = true -> dpred m (fst p) (fst p)) /\
                   (forall m, hole_free (snd p) = true -> dpred m (snd p) (snd p))) ds ->
  hf_defs ds = true -> dpreds m ds ds.
Proof.
  induction 1 as [|[a d] r [Ha Hd] _ IH]; intros F; [constructor|].
  unfold hf_defs in F. cbn [forallb] in F. split_hf. cbn [fst snd] in *. constructor; auto.
Qed.

Lemma dpred_refl : forall t m, hole_free t = true -> dpred m t t.
Proof.
  induction t using term_ind'; intros m Hf; cbn [hole_free] in Hf; try discriminate;
    try (apply d_atom; reflexivity); split_hf; try (constructor; auto; fail).
  apply d_let; auto. apply dpreds_refl_from; auto.
Qed.

Lemma dpreds_refl : forall ds m, hf_defs ds = true -> dpreds m ds ds.
Proof.
  induction ds as [|[a d] r IH]; intros m F; [constructor|].
  unfold hf_defs in F. cbn [forallb] in F. split_hf. constructor; auto using dpred_refl.
Qed.

(* ---------- substitutivity ---------- *)
Lemma dpred_ushift_mut :
  (forall m t t', dpred m t t' -> forall c n, c <= m -> dpred (m + n) (ushift t c n) (ushift t' c n)) /\
  (forall m ds ds', dpreds m ds ds' -> forall c n, c <= m ->
     dpreds (m + n) (map (fun p : term * term => let '(a, d) := p in (ushift a c n, ushift d c n)) ds)
                    (map (fun p : term * term => let '(a, d) := p in (ushift a c n, ushift d c n)) ds')).
Proof.
  apply dpred_mutind; intros; cbn [ushift map]; try (constructor; auto using hole_free_ushift; fail).
  - destruct t; try discriminate; apply d_atom; reflexivity.
  - rewrite up_idx_ge by lia. rewrite ushift_merge by lia.
    replace (j + m + n) with (j + (m + n)) by lia. now apply d_delta.
  - apply d_lam; auto using hole_free_ushift. apply (H2 (S c) n). lia.
  - apply d_pi; auto. apply (H2 (S c) n). lia.
  - rewrite <- (dpreds_length _ _ _ H). apply d_let; rewrite map_length.
    + replace (length ds + (m + n)) with (length ds + m + n) by lia. apply H0. lia.
    + replace (length ds + (m + n)) with (length ds + m + n) by lia. apply H2. lia.
  - rewrite <- (let_whnf_body_shift ds' b' c n) by eauto using dpred_hf_r, dpreds_hf_r.
    rewrite <- (dpreds_length _ _ _ H). apply d_unfold; rewrite map_length.
    + replace (length ds + (m + n)) with (length ds + m + n) by lia. apply H0. lia.
    + replace (length ds + (m + n)) with (length ds + m + n) by lia. apply H2. lia.
  - rewrite ushift_open0 by (eauto using dpred_hf_r; lia).
    apply d_beta; auto using hole_free_ushift. apply (H1 (S c) n). lia.
  - rewrite (arith_closed _ _ _ _ c n H). now constructor.
Qed.
Lemma dpred_ushift m t t' c n : dpred m t t' -> c <= m -> dpred (m + n) (ushift t c n) (ushift t' c n).
Proof. intros H. now apply dpred_ushift_mut. Qed.

Lemma dpred_open_mut :
  (forall M t t', dpred M t t' -> forall m, M = S m -> forall i a a' k, i <= m -> k <= m ->
     dpred (m - k) a a' -> dpred m (open t i a k) (open t' i a' k)) /\
  (forall M ds ds', dpreds M ds ds' -> forall m, M = S m -> forall i a a' k, i <= m -> k <= m ->
     dpred (m - k) a a' ->
     dpreds m (map (fun p : term * term => let '(x, d) := p in (open x i a k, open d i a k)) ds)
              (map (fun p : term * term => let '(x, d) := p in (open x i a' k, open d i a' k)) ds')).
Proof.
  apply dpred_mutind; intros; subst; cbn [open map];
    try (constructor; eauto using hole_free_open, dpred_hf_l, dpred_hf_r; fail).
  - (* atom *)
    destruct t; try discriminate; try (apply d_atom; reflexivity).
    cbn [open]. destruct (Nat.eqb i0 i); [|apply d_atom; reflexivity].
    replace m0 with (m0 - k + k) at 1 by lia. apply dpred_ushift; [assumption | lia].
  - (* delta *)
    destruct (Nat.eqb_spec (j + S m0) i); [lia|].
    replace (open_idx (j + S m0) i) with (j + m0) by (unfold open_idx; destruct (Nat.ltb_spec i (j + S m0)); lia).
    rewrite open_ushift_cancel_gen by (eauto; lia). now apply d_delta.
  - (* lam *)
    apply d_lam; eauto using hole_free_open, dpred_hf_l, dpred_hf_r.
    apply (H2 (S m0) eq_refl (S i) a a' (S k)); auto; lia.
  - (* pi *)
    apply d_pi; eauto. apply (H2 (S m0) eq_refl (S i) a a' (S k)); auto; lia.
  - (* let *)
    rewrite <- (dpreds_length _ _ _ H). apply d_let; rewrite map_length.
    + apply (H0 (length ds + m0)); try lia. replace (length ds + m0 - (length ds + k)) with (m0 - k) by lia. assumption.
    + apply (H2 (length ds + m0)); try lia. replace (length ds + m0 - (length ds + k)) with (m0 - k) by lia. assumption.
  - (* unfold *)
    rewrite <- (let_whnf_body_open ds' b' i a' k) by eauto using dpred_hf_r, dpreds_hf_r.
    rewrite <- (dpreds_length _ _ _ H). apply d_unfold; rewrite map_length.
    + apply (H0 (length ds + m0)); try lia. replace (length ds + m0 - (length ds + k)) with (m0 - k) by lia. assumption.
    + apply (H2 (length ds + m0)); try lia. replace (length ds + m0 - (length ds + k)) with (m0 - k) by lia. assumption.
  - (* beta *)
    rewrite open_open0 by eauto using dpred_hf_r.
    apply d_beta; eauto using hole_free_open, dpred_hf_l.
    apply (H1 (S m0) eq_refl (S i) a0 a'0 (S k)); auto; lia.
  - rewrite (arith_closed_open _ _ _ _ i a' k H). now constructor.
Qed.
Lemma dpred_open m t t' a a' i k : dpred (S m) t t' -> i <= m -> k <= m -> dpred (m - k) a a' ->
  dpred m (open t i a k) (open t' i a' k).
Proof. intros H. now apply (proj1 dpred_open_mut (S m) t t' H m eq_refl). Qed.

(* ---------- the group unfolding is compatible with parallel reduction ---------- *)
Lemma unfold_first_dpred m ann ann' d d' idx : idx <= m -> hole_free ann = true -> hole_free ann' = true ->
  dpred (S m) d d' -> dpred m (unfold_first ann d idx) (unfold_first ann' d' idx).
Proof.
  intros Hi Ha Ha' Hd. unfold unfold_first. apply dpred_open; [assumption | assumption | lia |].
  rewrite Nat.sub_0_r.
  assert (K : forall t t', dpred (S m) t t' ->
    dpred (S m) (open (ushift t 0 1) (S idx) (TVar 0) 0) (open (ushift t' 0 1) (S idx) (TVar 0) 0)).
  { intros t t' Ht. apply dpred_open; [|lia|lia|apply d_atom; reflexivity].
    replace (S (S m)) with (S m + 1) by lia. apply dpred_ushift; [assumption | lia]. }
  apply d_let; cbn [length Nat.add]; [|apply d_atom; reflexivity].
  constructor; [| | apply K; assumption | constructor]; apply hole_free_open; auto using hole_free_ushift.
Qed.

(* the entries from position i on are related at depth M *)
Definition rel_from (M i : nat) (ds ds' : list (term * term)) : Prop :=
  forall j, i <= j ->
    match nth_error ds j, nth_error ds' j with
    | Some (a, d), Some (a', d') => hole_free a = true /\ hole_free a' = true /\ dpred M d d'
    | None, None => True
    | _, _ => False
    end.

Lemma dpreds_rel_from : forall M ds ds', dpreds M ds ds' -> rel_from M 0 ds ds'.
Proof.
  induction 1; intros [|j] Hj; cbn [nth_error]; auto. apply IHdpreds. lia.
Qed.

Lemma nth_error_open_from_opp ds j0 i idx u j :
  nth_error (open_from j0 i idx u ds) j =
  option_map (fun p => if Nat.ltb (j0 + j) i then p else opp idx u 0 p) (nth_error ds j).
Proof. apply nth_error_open_from'. Qed.

Lemma let_subst_dpred : forall k n i m ds ds' body body', i + k <= n -> length ds = n -> length ds' = n ->
  rel_from (n - i + m) i ds ds' -> dpred (n - i + m) body body' ->
  dpred (n - i - k + m) (let_subst k n i ds body) (let_subst k n i ds' body').
Proof.
  induction k as [|k IH]; intros n i m ds ds' body body' Hk L1 L2 Hd Hb; cbn [let_subst].
  - now rewrite Nat.sub_0_r.
  - pose proof (Hd i (le_n i)) as N.
    destruct (nth_error ds i) as [[ann def]|] eqn:E1;
      [|apply nth_error_None in E1; lia].
    destruct (nth_error ds' i) as [[ann' def']|] eqn:E2; [|contradiction].
    destruct N as (Na & Na' & Nd).
    set (idx := n - 1 - i) in *.
    replace (n - i + m) with (S (idx + m)) in * by lia.
    assert (Hu : dpred (idx + m) (unfold_def ann def idx) (unfold_def ann' def' idx))
      by (apply unfold_first_dpred; [lia | assumption | assumption | assumption]).
    replace (n - i - S k + m) with (n - S i - k + m) by lia.
    apply IH; [lia | now rewrite open_from_length | now rewrite open_from_length | |].
    + intros j Hj. rewrite !nth_error_open_from_opp. cbn [Nat.add].
      destruct (Nat.ltb_spec j i); [lia|].
      pose proof (Hd j ltac:(lia)) as Nj.
      destruct (nth_error ds j) as [[a d]|], (nth_error ds' j) as [[a' d']|]; cbn [option_map opp]; auto.
      destruct Nj as (Nja & Nja' & Njd). replace (n - S i + m) with (idx + m) by lia.
      assert (Fu : hole_free (unfold_def ann def idx) = true) by (eapply dpred_hf_l; eauto).
      assert (Fu' : hole_free (unfold_def ann' def' idx) = true) by (eapply dpred_hf_r; eauto).
      repeat split; try (apply hole_free_open; assumption).
      apply dpred_open; [assumption | lia | lia | now rewrite Nat.sub_0_r].
    + replace (n - S i + m) with (idx + m) by lia.
      apply dpred_open; [assumption | lia | lia | now rewrite Nat.sub_0_r].
Qed.

Lemma let_whnf_body_dpred m ds ds' b b' : dpreds (length ds + m) ds ds' -> dpred (length ds + m) b b' ->
  dpred m (let_whnf_body ds b) (let_whnf_body ds' b').
Proof.
  intros Hd Hb. unfold let_whnf_body. rewrite <- (dpreds_length _ _ _ Hd).
  pose proof (let_subst_dpred (length ds) (length ds) 0 m ds ds' b b') as K.
  rewrite !Nat.sub_0_r, Nat.sub_diag in K. cbn [Nat.add] in K.
  apply K; auto using dpreds_rel_from. symmetry. eapply dpreds_length; eauto.
Qed.

(* ---------- complete development ---------- *)
Fixpoint dcd (m : nat) (t : term) : term :=
  match t with
  | TVar i => if Nat.leb m i then match D0 (i - m) with Some d => ushift d 0 m | None => t end else t
  | THole _ _ | TType | TInt | TBool | TTrue | TFalse | TLit _ => t
  | TLam im d b => TLam im d (dcd (S m) b)
  | TPi im d b => TPi im (dcd m d) (dcd (S m) b)
  | TApp f a => match f with TLam _ _ b => open (dcd (S m) b) 0 (dcd m a) 0 | _ => TApp (dcd m f) (dcd m a) end
  | TLet ds b => let n := length ds in
      let_whnf_body (map (fun p => let '(a, d) := p in (a, dcd (n + m) d)) ds) (dcd (n + m) b)
  | TNeg a => match a with TLit z => TLit (- z) | _ => TNeg (dcd m a) end
  | TBin o a b =>
      match a, b with
      | TLit x, TLit y => match arith o x y with Some r => r | None => TBin o a b end
      | _, _ => TBin o (dcd m a) (dcd m b)
      end
  | TIf c a b => match c with TTrue => dcd m a | TFalse => dcd m b | _ => TIf (dcd m c) (dcd m a) (dcd m b) end
  end.

Lemma dpred_lam_inv m im d b t : dpred m (TLam im d b) t ->
  exists d' b', t = TLam im d' b' /\ hole_free d' = true /\ dpred (S m) b b'.
Proof. intros H. inversion H; subst; [discriminate|]. eauto. Qed.
Lemma dpred_lit_inv m z t : dpred m (TLit z) t -> t = TLit z.
Proof. intros H. inversion H; subst; reflexivity. Qed.
Lemma dpred_true_inv m t : dpred m TTrue t -> t = TTrue.
Proof. intros H. inversion H; subst; reflexivity. Qed.
Lemma dpred_false_inv m t : dpred m TFalse t -> t = TFalse.
Proof. intros H. inversion H; subst; reflexivity. Qed.

Lemma dpred_dcd_mut :
  (forall m t t', dpred m t t' -> dpred m t' (dcd m t)) /\
  (forall m ds ds', dpreds m ds ds' -> dpreds m ds' (map (fun p => let '(a, d) := p in (a, dcd m d)) ds)).
Proof.
  apply dpred_mutind; intros.
  - destruct t; try discriminate; try (apply d_atom; reflexivity).
    cbn [dcd]. destruct (Nat.leb_spec m i); [|apply d_atom; reflexivity].
    destruct (D0 (i - m)) as [d|] eqn:E; [|apply d_atom; reflexivity].
    replace i with (i - m + m) at 1 by lia. now apply d_delta.
  - cbn [dcd]. destruct (Nat.leb_spec m (j + m)); [|lia].
    replace (j + m - m) with j by lia. rewrite H. apply dpred_refl. apply hole_free_ushift. eauto.
  - cbn [dcd]. apply d_lam; auto.
  - cbn [dcd]. apply d_pi; auto.
  - destruct f; try (cbn [dcd]; apply d_app; assumption).
    apply dpred_lam_inv in H as (d' & b' & -> & Hd' & Hb).
    cbn [dcd] in H0. apply dpred_lam_inv in H0 as (d'' & b'' & E & _ & Hb'). injection E as <- <-.
    cbn [dcd]. apply d_beta; auto.
  - destruct a; try (cbn [dcd]; apply d_neg; assumption).
    apply dpred_lit_inv in H as ->. cbn [dcd]. apply d_negl.
  - destruct a; try (cbn [dcd]; apply d_bin; assumption).
    destruct b; try (cbn [dcd]; apply d_bin; assumption).
    apply dpred_lit_inv in H as ->. apply dpred_lit_inv in H1 as ->. cbn [dcd].
    destruct (arith o z z0) eqn:A; [now apply d_arith | apply d_bin; apply d_atom; reflexivity].
  - destruct c; try (cbn [dcd]; apply d_if; assumption).
    + apply dpred_true_inv in H as ->. cbn [dcd]. apply d_ift; eauto using dpred_hf_l.
    + apply dpred_false_inv in H as ->. cbn [dcd]. apply d_iff; eauto using dpred_hf_l.
  - cbn [dcd]. rewrite (dpreds_length _ _ _ H) in *. apply d_unfold; auto.
  - cbn [dcd]. apply let_whnf_body_dpred; rewrite <- (dpreds_length _ _ _ H); auto.
  - cbn [dcd]. apply dpred_open; [assumption | lia | lia | now rewrite Nat.sub_0_r].
  - cbn [dcd]. apply d_atom; reflexivity.
  - cbn [dcd]. rewrite H. apply dpred_refl. eapply arith_hole_free; eauto.
  - cbn [dcd]. assumption.
  - cbn [dcd]. assumption.
  - constructor.
  - cbn [map]. constructor; auto.
Qed.
Lemma dpred_dcd m t t' : dpred m t t' -> dpred m t' (dcd m t).
Proof. apply dpred_dcd_mut. Qed.

Theorem dpred_diamond m t t1 t2 : dpred m t t1 -> dpred m t t2 -> exists u, dpred m t1 u /\ dpred m t2 u.
Proof. intros H1 H2. exists (dcd m t). split; apply dpred_dcd; assumption. Qed.

(* ---------- confluence ---------- *)
Definition dstar (m : nat) := clos_refl_trans term (dpred m).
Definition dstars (m : nat) := clos_refl_trans (list (term * term)) (dpreds m).
Definition djoin (m : nat) (a b : term) : Prop := exists c, dstar m a c /\ dstar m b c.

Lemma dstar_step m a b c : dpred m a b -> dstar m b c -> dstar m a c.
Proof. intros. eapply rt_trans; [apply rt_step; eassumption | assumption]. Qed.

Lemma dstar_strip m t t1 t2 : dpred m t t1 -> dstar m t t2 -> exists u, dstar m t1 u /\ dpred m t2 u.
Proof.
  intros H1 H2. apply clos_rt_rt1n in H2. revert t1 H1.
  induction H2 as [t | t t' t2 Hs _ IH]; intros t1 H1.
  - exists t1. split; [apply rt_refl | assumption].
  - destruct (dpred_diamond _ _ _ _ H1 Hs) as (v & Hv1 & Hv2).
    destruct (IH v Hv2) as (u & Hu1 & Hu2). exists u. split; [eapply dstar_step; eauto | assumption].
Qed.

Theorem dstar_confluent m t t1 t2 : dstar m t t1 -> dstar m t t2 -> djoin m t1 t2.
Proof.
  intros H1. apply clos_rt_rt1n in H1. revert t2.
  induction H1 as [t | t t' t1 Hs _ IH]; intros t2 H2.
  - exists t2. split; [assumption | apply rt_refl].
  - destruct (dstar_strip _ _ _ _ Hs H2) as (v & Hv1 & Hv2).
    destruct (IH v Hv1) as (u & Hu1 & Hu2). exists u. split; [assumption | eapply dstar_step; eauto].
Qed.
End Delta.

(* ---------- congruences of dstar ---------- *)
Section DeltaCR.
Variable D0 : nat -> option term.
Hypothesis D0_hf : forall j d, D0 j = Some d -> hole_free d = true.
Notation dpred := (dpred D0).
Notation dpreds := (dpreds D0).
Notation dstar := (dstar D0).
Notation dstars := (dstars D0).
Notation djoin := (djoin D0).

Lemma dstar_hf m a b : dstar m a b -> hole_free a = true -> hole_free b = true.
Proof. induction 1; auto. intros _. eapply dpred_hf_r; eauto. Qed.
Lemma dstars_hf m a b : dstars m a b -> hf_defs a = true -> hf_defs b = true.
Proof. induction 1; auto. intros _. eapply dpreds_hf_r; eauto. Qed.

Lemma dstar_lam m im d d' b b' : hole_free d = true -> hole_free d' = true -> hole_free b = true ->
  dstar (S m) b b' -> dstar m (TLam im d b) (TLam im d' b').
Proof.
  intros Hd Hd' Hb H. eapply rt_trans.
  - apply (rt_cong (dpred (S m)) (dpred m) (fun x => TLam im d x)); [|exact H]. intros; now apply d_lam.
  - apply rt_step. apply d_lam; auto. apply dpred_refl. eapply dstar_hf; eauto.
Qed.

Lemma dstar_pi m im d d' b b' : hole_free d = true -> hole_free b = true ->
  dstar m d d' -> dstar (S m) b b' -> dstar m (TPi im d b) (TPi im d' b').
Proof.
  intros Hd Hb H1 H2. eapply rt_trans.
  - apply (rt_cong (dpred m) (dpred m) (fun x => TPi im x b)); [|exact H1]. intros; apply d_pi; auto using dpred_refl.
  - apply (rt_cong (dpred (S m)) (dpred m) (fun x => TPi im d' x)); [|exact H2]. intros; apply d_pi; auto.
    apply dpred_refl. eapply dstar_hf; eauto.
Qed.

Lemma dstar_app m d d' b b' : hole_free d = true -> hole_free b = true ->
  dstar m d d' -> dstar m b b' -> dstar m (TApp d b) (TApp d' b').
Proof.
  intros Hd Hb H1 H2. eapply rt_trans.
  - apply (rt_cong (dpred m) (dpred m) (fun x => TApp x b)); [|exact H1]. intros; apply d_app; auto using dpred_refl.
  - apply (rt_cong (dpred m) (dpred m) (fun x => TApp d' x)); [|exact H2]. intros; apply d_app; auto.
    apply dpred_refl. eapply dstar_hf; eauto.
Qed.

Lemma dstar_neg m a a' : dstar m a a' -> dstar m (TNeg a) (TNeg a').
Proof. apply (rt_cong (dpred m) (dpred m) TNeg). intros; now apply d_neg. Qed.

Lemma dstar_bin m o d d' b b' : hole_free d = true -> hole_free b = true ->
  dstar m d d' -> dstar m b b' -> dstar m (TBin o d b) (TBin o d' b').
Proof.
  intros Hd Hb H1 H2. eapply rt_trans.
  - apply (rt_cong (dpred m) (dpred m) (fun x => TBin o x b)); [|exact H1]. intros; apply d_bin; auto using dpred_refl.
  - apply (rt_cong (dpred m) (dpred m) (fun x => TBin o d' x)); [|exact H2]. intros; apply d_bin; auto.
    apply dpred_refl. eapply dstar_hf; eauto.
Qed.

Lemma dstar_if m c c' a a' b b' : hole_free c = true -> hole_free a = true -> hole_free b = true ->
  dstar m c c' -> dstar m a a' -> dstar m b b' -> dstar m (TIf c a b) (TIf c' a' b').
Proof.
  intros Hc Ha Hb H1 H2 H3.
  assert (Hc' : hole_free c' = true) by (eapply dstar_hf; eauto).
  assert (Ha' : hole_free a' = true) by (eapply dstar_hf; eauto).
  eapply rt_trans; [|eapply rt_trans].
  - apply (rt_cong (dpred m) (dpred m) (fun x => TIf x a b)); [|exact H1]. intros; apply d_if; auto using dpred_refl.
  - apply (rt_cong (dpred m) (dpred m) (fun x => TIf c' x b)); [|exact H2]. intros; apply d_if; auto using dpred_refl.
  - apply (rt_cong (dpred m) (dpred m) (fun x => TIf c' a' x)); [|exact H3]. intros; apply d_if; auto using dpred_refl.
Qed.

Lemma dstars_cons m a a' d d' r r' : hole_free a = true -> hole_free a' = true -> hole_free d = true ->
  hf_defs r = true -> dstar m d d' -> dstars m r r' -> dstars m ((a, d) :: r) ((a', d') :: r').
Proof.
  intros Ha Ha' Hd Hr H2 H3.
  assert (Hd' : hole_free d' = true) by (eapply dstar_hf; eauto).
  eapply rt_trans; [|eapply rt_trans].
  - apply rt_step. apply (ds_cons D0 m a a' d d r r); auto using dpred_refl, dpreds_refl.
  - apply (rt_cong (dpred m) (dpreds m) (fun x => (a', x) :: r)); [|exact H2].
    intros; constructor; auto using dpred_refl, dpreds_refl.
  - apply (rt_cong (dpreds m) (dpreds m) (fun x => (a', d') :: x)); [|exact H3].
    intros; constructor; auto using dpred_refl.
Qed.

Lemma dstars_length m ds ds' : dstars m ds ds' -> length ds = length ds'.
Proof. induction 1; [eapply dpreds_length; eauto | reflexivity | congruence]. Qed.

Lemma dstar_let m ds ds' b b' : hf_defs ds = true -> hole_free b = true ->
  dstars (length ds + m) ds ds' -> dstar (length ds + m) b b' -> dstar m (TLet ds b) (TLet ds' b').
Proof.
  intros Hd Hb H1 H2. eapply rt_trans.
  - apply (rt_cong (dpred (length ds + m)) (dpred m) (fun x => TLet ds x)); [|exact H2].
    intros; apply d_let; auto using dpreds_refl.
  - assert (Hb' : hole_free b' = true) by (eapply dstar_hf; eauto).
    clear H2. remember (length ds + m) as M eqn:EM. revert EM.
    induction H1 as [x y P | x | x y z Hxy IH1 Hyz IH2]; intros EM.
    + apply rt_step. subst M. apply d_let; auto using dpred_refl.
    + apply rt_refl.
    + eapply rt_trans; [apply IH1; auto|].
      assert (L : length x = length y) by (eapply dstars_length; eassumption).
      apply IH2; [eapply dstars_hf; eauto | congruence].
Qed.

(* ---------- reduction in a context that extends the base by m opaque entries ---------- *)
Lemma red_dpred G m a b : ctx_hf G -> rep D0 m G -> red G a b -> dpred m (strip a) (strip b).
Proof.
  intros HG R H. induction H; cbn [strip].
  - rewrite strip_open. apply d_beta; auto using strip_hf, dpred_refl.
  - rewrite (strip_id d) by (eapply ctx_hf_lookup; eauto).
    rewrite R in H. destruct (Nat.ltb_spec i m); [discriminate|].
    destruct (D0 (i - m)) as [d0|] eqn:E; [|discriminate]. injection H as <-.
    replace i with (i - m + m) at 1 by lia. now apply d_delta.
  - rewrite strip_let_whnf_body. apply d_unfold; auto using dpreds_refl, dpred_refl, strips_hf, strip_hf.
  - apply d_negl.
  - rewrite (strip_id r) by (eapply arith_hole_free; eauto). now apply d_arith.
  - apply d_ift; auto using strip_hf, dpred_refl.
  - apply d_iff; auto using strip_hf, dpred_refl.
  - apply d_app; auto using strip_hf, dpred_refl.
  - apply d_neg; auto.
  - apply d_bin; auto using strip_hf, dpred_refl.
  - apply d_bin; auto using strip_hf, dpred_refl.
  - apply d_if; auto using strip_hf, dpred_refl.
Qed.

(* ---------- Church-Rosser for the repaired relation ---------- *)
Lemma church_rosser2_mut : forall G,
  (forall a b, conv2 G a b -> forall m, wf_offsets G -> ctx_hf G -> rep D0 m G ->
     djoin m (strip a) (strip b)) /\
  (forall ds ds', conv2s G ds ds' -> forall m, wf_offsets G -> ctx_hf G -> rep D0 m G ->
     exists cs, dstars m (strips ds) cs /\ dstars m (strips ds') cs).
Proof.
  apply (conv2_mutind
    (fun G a b => forall m, wf_offsets G -> ctx_hf G -> rep D0 m G -> djoin m (strip a) (strip b))
    (fun G ds ds' => forall m, wf_offsets G -> ctx_hf G -> rep D0 m G ->
       exists cs, dstars m (strips ds) cs /\ dstars m (strips ds') cs)); intros; cbn [strip];
    repeat match goal with |- context[map ?f ?l] => change (map f l) with (strips l) end.
  - exists (strip b). split; [|apply rt_refl]. apply rt_step. eapply red_dpred; eauto.
  - exists (strip a). split; apply rt_refl.
  - destruct (H0 m) as (c & ? & ?); auto. exists c; auto.
  - destruct (H0 m) as (u & Ha & Hb1); auto. destruct (H2 m) as (v & Hb2 & Hc); auto.
    destruct (dstar_confluent D0 D0_hf _ _ _ _ Hb1 Hb2) as (w & Hw1 & Hw2).
    exists w; split; eapply rt_trans; eassumption.
  - destruct (H0 (S m)) as (c & ? & ?); auto using wf_offsets_bind, ctx_hf_bind, rep_bind.
    exists (TLam im (strip d) c). split; apply dstar_lam; auto using strip_hf.
  - destruct (H0 m) as (c1 & ? & ?); auto.
    destruct (H2 (S m)) as (c2 & ? & ?); auto using wf_offsets_bind, ctx_hf_bind, rep_bind.
    exists (TPi im c1 c2). split; apply dstar_pi; auto using strip_hf.
  - destruct (H0 m) as (c1 & ? & ?); auto. destruct (H2 m) as (c2 & ? & ?); auto.
    exists (TApp c1 c2). split; apply dstar_app; auto using strip_hf.
  - destruct (H0 m) as (c1 & ? & ?); auto. exists (TNeg c1). split; apply dstar_neg; auto.
  - destruct (H0 m) as (c1 & ? & ?); auto. destruct (H2 m) as (c2 & ? & ?); auto.
    exists (TBin o c1 c2). split; apply dstar_bin; auto using strip_hf.
  - destruct (H0 m) as (c1 & ? & ?); auto. destruct (H2 m) as (c2 & ? & ?); auto.
    destruct (H4 m) as (c3 & ? & ?); auto.
    exists (TIf c1 c2 c3). split; apply dstar_if; auto using strip_hf.
  - destruct (H0 (length ds + m)) as (cs & Hc1 & Hc2); auto using wf_offsets_enter_o, ctx_hf_enter_o, rep_enter_o.
    destruct (H2 (length ds + m)) as (c & Hb1 & Hb2); auto using wf_offsets_enter_o, ctx_hf_enter_o, rep_enter_o.
    assert (L1 : length (strips ds) = length ds) by apply map_length.
    assert (L2 : length (strips ds') = length ds).
    { rewrite <- L1. rewrite (dstars_length _ _ _ Hc1). exact (dstars_length _ _ _ Hc2). }
    exists (TLet cs c). split; apply dstar_let; rewrite ?L1, ?L2; auto using strip_hf, strips_hf.
  - exists []. split; apply rt_refl.
  - destruct (H0 m) as (c2 & ? & ?); auto. destruct (H2 m) as (cs & ? & ?); auto.
    exists ((strip a, c2) :: cs). split; apply dstars_cons; auto using strip_hf, strips_hf.
Qed.

(* parallel reduction stays inside the repaired relation *)
Lemma dpred_conv2_mut :
  (forall m t t', dpred m t t' -> forall G, wf_offsets G -> rep D0 m G -> conv2 G t t') /\
  (forall m ds ds', dpreds m ds ds' -> forall G, wf_offsets G -> rep D0 m G -> conv2s G ds ds').
Proof.
  apply dpred_mutind; intros.
  - apply c2_refl.
  - apply c2_red, r_delta. rewrite H1. destruct (Nat.ltb_spec (j + m) m); [lia|].
    replace (j + m - m) with j by lia. now rewrite H.
  - apply c2_lam. apply H2; auto using wf_offsets_bind, rep_bind.
  - apply c2_pi; auto. apply H2; auto using wf_offsets_bind, rep_bind.
  - apply c2_app; auto.
  - apply c2_neg; auto.
  - apply c2_bin; auto.
  - apply c2_if; auto.
  - apply c2_let; [apply H0 | apply H2]; auto using wf_offsets_enter_o, rep_enter_o.
  - eapply c2_trans; [|apply c2_red, r_let].
    apply c2_let; [apply H0 | apply H2]; auto using wf_offsets_enter_o, rep_enter_o.
  - eapply c2_trans; [|apply c2_red, r_beta].
    apply c2_app; auto. apply c2_lam with (d' := d). apply H1; auto using wf_offsets_bind, rep_bind.
  - apply c2_red, r_neg.
  - apply c2_red, r_bin; assumption.
  - eapply c2_trans; [apply c2_red, r_if_t | auto].
  - eapply c2_trans; [apply c2_red, r_if_f | auto].
  - constructor.
  - constructor; auto.
Qed.
End DeltaCR.

(* ---------- the theorems, for a well-formed hole-free context G with definitions ---------- *)
Definition cjoin (G : ctx) (a b : term) : Prop := djoin (lookup_def G) 0 a b.

Lemma lookup_def_hf G : ctx_hf G -> forall j d, lookup_def G j = Some d -> hole_free d = true.
Proof. intros H j d E. eapply ctx_hf_lookup; eauto. Qed.

Theorem church_rosser2_strip G a b : wf_offsets G -> ctx_hf G -> conv2 G a b -> cjoin G (strip a) (strip b).
Proof.
  intros W F H.
  exact (proj1 (church_rosser2_mut (lookup_def G) (lookup_def_hf G F) G) a b H 0 W F (rep_base G)).
Qed.

Theorem church_rosser2 G a b : wf_offsets G -> ctx_hf G -> hole_free a = true -> hole_free b = true ->
  conv2 G a b -> cjoin G a b.
Proof. intros W F Ha Hb H. apply church_rosser2_strip in H; auto. now rewrite !strip_id in H by assumption. Qed.

Lemma dstar_conv2 D0 (D0_hf : forall j d, D0 j = Some d -> hole_free d = true) m t t' :
  dstar D0 m t t' -> forall G, wf_offsets G -> rep D0 m G -> conv2 G t t'.
Proof.
  induction 1; intros G W R.
  - eapply (proj1 (dpred_conv2_mut D0)); eauto.
  - apply c2_refl.
  - eapply c2_trans; eauto.
Qed.

Theorem cjoin_conv2 G a b : wf_offsets G -> ctx_hf G -> cjoin G a b -> conv2 G a b.
Proof.
  intros W F (c & H1 & H2).
  eapply c2_trans; [|apply c2_sym]; eapply dstar_conv2; eauto using lookup_def_hf, rep_base.
Qed.

(* constants: every atom except a variable (a variable may have a definition) *)
Definition catom (t : term) : bool :=
  match t with TType | TInt | TBool | TTrue | TFalse | TLit _ => true | _ => false end.

Section Inv.
Variable D0 : nat -> option term.

Lemma dpred_catom_inv m t t' : catom t = true -> dpred D0 m t t' -> t' = t.
Proof. intros A H. destruct t; try discriminate; inversion H; subst; reflexivity. Qed.

Lemma dstar_catom_inv m t t' : catom t = true -> dstar D0 m t t' -> t' = t.
Proof.
  intros A H. apply clos_rt_rt1n in H. induction H as [|t u v Hs _ IH]; [reflexivity|].
  apply (dpred_catom_inv _ _ _ A) in Hs. subst u. auto.
Qed.

Lemma dpred_pi_inv m im d b t : dpred D0 m (TPi im d b) t ->
  exists d' b', t = TPi im d' b' /\ dpred D0 m d d' /\ dpred D0 (S m) b b'.
Proof. intros H. inversion H; subst; [discriminate|]. eauto. Qed.

Lemma dstar_pi_inv m im d b t : dstar D0 m (TPi im d b) t ->
  exists d' b', t = TPi im d' b' /\ dstar D0 m d d' /\ dstar D0 (S m) b b'.
Proof.
  intros H. apply clos_rt_rt1n in H. remember (TPi im d b) as u eqn:E. revert d b E.
  induction H as [|u v w Hs _ IH]; intros d b ->.
  - exists d, b. repeat split; apply rt_refl.
  - apply dpred_pi_inv in Hs as (d1 & b1 & -> & Hd & Hb).
    destruct (IH d1 b1 eq_refl) as (d2 & b2 & -> & Hd2 & Hb2).
    exists d2, b2. repeat split; eapply dstar_step; eauto.
Qed.
End Inv.

Theorem conv2_catoms G a b : wf_offsets G -> ctx_hf G -> catom a = true -> catom b = true -> conv2 G a b -> a = b.
Proof.
  intros W F Aa Ab H. apply church_rosser2_strip in H as (c & H1 & H2); auto.
  assert (Ea : strip a = a) by (destruct a; try discriminate; reflexivity).
  assert (Eb : strip b = b) by (destruct b; try discriminate; reflexivity).
  rewrite Ea in H1. rewrite Eb in H2.
  apply (dstar_catom_inv _ _ _ _ Aa) in H1. apply (dstar_catom_inv _ _ _ _ Ab) in H2. congruence.
Qed.

Corollary conv2_int_bool G : wf_offsets G -> ctx_hf G -> ~ conv2 G TInt TBool.
Proof. intros W F H. apply conv2_catoms in H; auto. discriminate. Qed.
Corollary conv2_type_int G : wf_offsets G -> ctx_hf G -> ~ conv2 G TType TInt.
Proof. intros W F H. apply conv2_catoms in H; auto. discriminate. Qed.
Corollary conv2_true_false G : wf_offsets G -> ctx_hf G -> ~ conv2 G TTrue TFalse.
Proof. intros W F H. apply conv2_catoms in H; auto. discriminate. Qed.
Corollary conv2_lit_inj G x y : wf_offsets G -> ctx_hf G -> conv2 G (TLit x) (TLit y) -> x = y.
Proof. intros W F H. apply conv2_catoms in H; auto. congruence. Qed.

Theorem conv2_catom_pi G a im A B : wf_offsets G -> ctx_hf G -> catom a = true -> ~ conv2 G a (TPi im A B).
Proof.
  intros W F Aa H. apply church_rosser2_strip in H as (c & H1 & H2); auto.
  assert (Ea : strip a = a) by (destruct a; try discriminate; reflexivity).
  rewrite Ea in H1. apply (dstar_catom_inv _ _ _ _ Aa) in H1. subst c.
  cbn [strip] in H2. apply dstar_pi_inv in H2 as (d' & b' & E & _). subst a. discriminate.
Qed.

Theorem conv2_pi_inj G im A B im' A' B' : wf_offsets G -> ctx_hf G ->
  hole_free A = true -> hole_free B = true -> hole_free A' = true -> hole_free B' = true ->
  conv2 G (TPi im A B) (TPi im' A' B') -> im = im' /\ conv2 G A A' /\ conv2 (bind G A) B B'.
Proof.
  intros W F HA HB HA' HB' H. apply church_rosser2 in H as (c & H1 & H2); auto;
    try (cbn [hole_free]; rewrite ?HA, ?HB, ?HA', ?HB'; reflexivity).
  apply dstar_pi_inv in H1 as (d1 & b1 & -> & Hd1 & Hb1).
  apply dstar_pi_inv in H2 as (d2 & b2 & E & Hd2 & Hb2). injection E as -> -> ->.
  assert (Dh := lookup_def_hf G F).
  repeat split.
  - eapply c2_trans; [|apply c2_sym]; eapply dstar_conv2; eauto using rep_base.
  - eapply c2_trans; [|apply c2_sym]; eapply dstar_conv2; eauto using rep_base, rep_bind, wf_offsets_bind.
Qed.

Theorem conv2_pi_im G im A B im' A' B' : wf_offsets G -> ctx_hf G ->
  conv2 G (TPi im A B) (TPi im' A' B') -> im = im'.
Proof.
  intros W F H. apply church_rosser2_strip in H as (c & H1 & H2); auto. cbn [strip] in *.
  apply dstar_pi_inv in H1 as (d1 & b1 & -> & _). apply dstar_pi_inv in H2 as (d2 & b2 & E & _).
  now injection E.
Qed.

(* the fragment relation conv0 is included in the repaired relation in every context *)
Lemma conv0_conv2_mut :
  (forall a b, conv0 a b -> forall G, conv2 G a b) /\
  (forall ds ds', conv0s ds ds' -> forall G, conv2s G ds ds').
Proof.
  apply conv0_mutind; intros; eauto using conv2, conv2s, red0_red.
Qed.
Theorem conv0_conv2 a b G : conv0 a b -> conv2 G a b.
Proof. intros H. now apply conv0_conv2_mut. Qed.

(* non-vacuity: inside the group  x : int = 5  the variable x is convertible to 5 but not to 6,
   and the context is a definitional one (enter, not enter_o) *)
Example conv2_delta_ex :
  let G := enter [(TInt, TLit 5)] [] in
  wf_offsets G /\ ctx_hf G /\ conv2 G (TVar 0) (TLit 5) /\ ~ conv2 G (TVar 0) (TLit 6) /\
  conv2 G (TBin OSum (TVar 0) (TLit 1)) (TLit 6).
Proof.
  cbv zeta.
  assert (W : wf_offsets (enter [(TInt, TLit 5)] [])) by (apply wf_offsets_enter, wf_offsets_nil).
  assert (F : ctx_hf (enter [(TInt, TLit 5)] [])) by (apply ctx_hf_enter; [reflexivity | constructor]).
  assert (D : conv2 (enter [(TInt, TLit 5)] []) (TVar 0) (TLit 5)) by (apply c2_red, r_delta; reflexivity).
  repeat split; auto.
  - intros H. assert (K : conv2 (enter [(TInt, TLit 5)] []) (TLit 5) (TLit 6)) by eauto using c2_trans, c2_sym.
    apply conv2_lit_inj in K; auto. discriminate.
  - eapply c2_trans; [apply c2_bin; [exact D | apply c2_refl]|]. apply c2_red. now apply r_bin.
Qed.

Print Assumptions dpred_diamond.
Print Assumptions dstar_confluent.
Print Assumptions church_rosser2.
Print Assumptions conv2_catoms.
Print Assumptions conv2_pi_inj.
Print Assumptions conv2_delta_ex.
